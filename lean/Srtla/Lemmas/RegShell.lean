import Srtla.Model.Sys
import Srtla.Lemmas.Reg
import Srtla.Lemmas.Keepalive
import Srtla.Lemmas.Uplink
import Srtla.Lemmas.Housekeeping
import Srtla.Lemmas.ReconnectLive
/-!
# C07 at shell level: the sender shell projects onto the registration machine

`Model/Reg.lean` has the registration manager together with its own small machine (`Reg.Sys` =
manager + the `connected` flag of every uplink, atomic events `Reg.Ev`, emissions `Reg.Send`), on
which C07 is proved (`Lemmas/Reg.lean`, `Props/C07.lean`).  The shell model `Srtla.Sys.Sys`
(`Model/Sys.lean`) embeds `reg : Reg.Reg` and calls the manager's functions directly.  This file
proves that the shell is a refinement of that machine:

* `abs s` — the shell state as the registration machine sees it (`s.reg` + the links' `connected`);
* `proj s e` — the (possibly empty) list of `Reg.Ev` that one shell event `e` amounts to in state `s`:
  an `uplink` datagram on a known conn id is `pkt idx now data` (idx = first link with that conn id),
  a housekeeping tick is `Reg.tickEvs now rcs` with `rcs` = the links that take the reconnect branch,
  a `client` event is one `drop i` per link torn down by a failed send, everything else is `[]`;
* `Projects s e` — running `proj s e` on `abs s` ends in `abs (step s e).1`, and the REG1/REG2 frames
  of `(step s e).2.wire` are exactly the emitted `Send`s, each addressed to the conn id of the link
  index the machine names (`regWire`; a `bcast` is one copy per link, in link order).

One lemma per shell event constructor (`projects_client`, `projects_uplink`, `projects_flush`,
`projects_hk`, `projects_frame` for the constructors that touch neither links nor `reg`), assembled
in `projects`.  A new constructor that leaves `reg` and the `connected` flags alone (or only clears
flags) needs one more line there.

Sections 7–9 lift this to runs (`runS`, `projRun`, the ghost observer `ghostAt`) and to the frames of one
event (`frame_origin`, `proj_ids`, `proj_reg1_pending`, `connected_only_reg3`, the broadcast round
`hk_bcast_round`).  Sections 10–11 are for `C07_abandon_bound`: a walk through the non-housekeeping arms for
the reconnection fields of a link (`rf`, `client_rf`, `flush_rf`, `uplink_rf`, `hk_rf`) and the invariant
of one registration attempt (`Att`, `att_step`, `abandon_bound`).

`Ev.failBind connId` (round 3: a socket re-creation failure consumed by the next reconnect attempt of
that link — `mark_for_recovery` instead of `reset_for_reconnect`, the REG1 / REG2 re-send still goes
out): `proj` maps it to `[]` and `RegArm` to `False` (`projects_failBind`, one `att_frame` line in
`att_step`: the event changes neither `reg` nor the links).  In the housekeeping arm `hkOne_reconnect`
holds for both variants (the flag is cleared and the same frame is sent), `hkOne_rf` / `rfGo` give the
reconnection fields of both (`(now, 0, established, now + 5000)` / `(now, count', established, 0)`), and
the attempt invariant `Att` (hence `att_hk`, `att_step`, `abandon_bound`) assumes that no re-creation
failure is injected for the pending link: a never-established link whose re-creation fails is retried
after 1000 ms and re-sends REG1 every time, which renews the REG2 wait.
-/
namespace Srtla.RegShell
open Srtla Srtla.Gen Srtla.Conn Srtla.Link Srtla.Sys

abbrev Bytes := List UInt8

variable {F : Type} [Scalar F]
variable {fa : List (Nat × Nat)}

/-! ## 1. Vocabulary -/

/-- The `connected` flag of every link, in link order. -/
def flags (ls : List (FLink F)) : List Bool := ls.map (·.core.connected)

/-- The conn id of every link, in link order. -/
def cids (ls : List (FLink F)) : List Nat := ls.map (·.core.connId)

/-- **Abstraction**: the shell state as the registration machine sees it. -/
def abs (s : Sys F) : Reg.Sys := { reg := s.reg, connected := flags s.links }

/-- A datagram whose type field says REG1 (0x9200) or REG2 (0x9201). -/
def isRegFrame (d : Nat × Bytes) : Bool :=
  Codec.getPacketTypeS d.2 == some 0x9200 || Codec.getPacketTypeS d.2 == some 0x9201

/-- Where the shell puts one `Send` of the registration machine, given the links' conn ids: a
broadcast goes to every link (in link order), anything else to the conn id of link `target` (nothing
if there is no such link). -/
def regWireIds (ids : List Nat) (o : Reg.Send) : List (Nat × Bytes) :=
  if o.kind = .bcast then ids.map fun c => (c, o.pkt)
  else (ids[o.target]?).toList.map fun c => (c, o.pkt)

def regWire (s : Sys F) (o : Reg.Send) : List (Nat × Bytes) := regWireIds (cids s.links) o

/-- Indices of the links (numbered from `i`) that take the reconnect branch of a housekeeping pass at
`now`: timed out and allowed to retry. -/
def rcsFrom (now : Nat) : List (FLink F) → Nat → List Nat
  | [], _ => []
  | l :: rest, i =>
    if l.isTimedOut now && l.shouldAttemptReconnect now then i :: rcsFrom now rest (i + 1)
    else rcsFrom now rest (i + 1)

/-- The reconnect set of the tick at `now` in state `s` (decided on the link records the per-link
loop sees, i.e. after the probing-completion grace reset). -/
def hkRcs (s : Sys F) (now : Nat) : List Nat := rcsFrom now (Keepalive.hkPre s now).2 0

/-- Indices whose flag went from `true` to `false`. -/
def dropIdx (c c' : List Bool) : List Nat :=
  (List.range c.length).filter fun i => c[i]? == some true && c'[i]? == some false

/-- **Projection** of one shell event onto registration-machine events. -/
def proj (s : Sys F) : Ev → List Reg.Ev
  | .client now pkt => (dropIdx (flags s.links) (flags (handleSrtPacket s pkt now).1.links)).map Reg.Ev.drop
  | .uplink now cid data =>
    if data.isEmpty then []
    else match s.links.findIdx? (·.core.connId == cid) with
      | some idx => [.pkt idx now data]
      | none => []
  | .hk now => Reg.tickEvs now (hkRcs s now)
  | _ => []

/-- The two arms of the event loop that talk to the registration manager. -/
def RegArm : Ev → Prop
  | .uplink _ _ _ => True
  | .hk _ => True
  | _ => False

instance : DecidablePred RegArm := fun e => by cases e <;> unfold RegArm <;> infer_instance

/-- **The projection statement for one event.** -/
structure Projects (s : Sys F) (e : Ev) : Prop where
  /-- the registration state and the `connected` flags evolve identically -/
  state : (Reg.Sys.run (abs s) (proj s e)).1 = abs (step s e).1
  /-- hk / uplink arm: the REG1/REG2 frames on the wire are exactly the machine's `Send`s -/
  wire : RegArm e →
    (step s e).2.wire.filter isRegFrame = (Reg.Sys.run (abs s) (proj s e)).2.flatMap (regWire s)
  /-- other arms: the machine emits nothing (whatever is on the wire is forwarded client data) -/
  quiet : ¬ RegArm e → (Reg.Sys.run (abs s) (proj s e)).2 = []
  /-- conn ids and the number of links never change -/
  ids : cids (step s e).1.links = cids s.links

/-! ## 2. Facts about runs of the registration machine -/

theorem run_nil (x : Reg.Sys) : Reg.Sys.run x [] = (x, []) := rfl

theorem run_cons (x : Reg.Sys) (e : Reg.Ev) (es : List Reg.Ev) :
    Reg.Sys.run x (e :: es) = ((Reg.Sys.run (x.step e).1 es).1, (x.step e).2 ++ (Reg.Sys.run (x.step e).1 es).2) := rfl

theorem run_single (x : Reg.Sys) (e : Reg.Ev) : Reg.Sys.run x [e] = ((x.step e).1, (x.step e).2) := by
  simp [Reg.Sys.run]

theorem foldl_set_false_get (is : List Nat) (c : List Bool) (j : Nat) :
    (is.foldl (fun a i => a.set i false) c)[j]? = if j ∈ is then (c[j]?).map (fun _ => false) else c[j]? := by
  induction is generalizing c with
  | nil => simp
  | cons i is ih =>
    rw [List.foldl_cons, ih, List.getElem?_set]
    by_cases hji : j = i
    · subst hji
      by_cases hlt : j < c.length
      · by_cases hm : j ∈ is <;> simp [hm, hlt]
      · have : c[j]? = none := List.getElem?_eq_none_iff.2 (by omega)
        by_cases hm : j ∈ is <;> simp [hm, hlt, this]
    · have hij : ¬ i = j := fun h => hji h.symm
      by_cases hm : j ∈ is <;> simp [hm, hji, hij]

/-- `drop` events only clear flags. -/
theorem run_drops (r : Reg.Reg) (c : List Bool) (is : List Nat) :
    Reg.Sys.run ⟨r, c⟩ (is.map Reg.Ev.drop) = (⟨r, is.foldl (fun a i => a.set i false) c⟩, []) := by
  induction is generalizing c with
  | nil => rfl
  | cons i is ih =>
    rw [List.map_cons, run_cons]
    simp only [Reg.Sys.step, ih, List.foldl_cons, List.append_nil]

/-- Flags that each either stayed or went to `false` are reached by clearing `dropIdx`. -/
theorem dropIdx_spec (c c' : List Bool) (hlen : c'.length = c.length)
    (h : ∀ (j : Nat) b b', c[j]? = some b → c'[j]? = some b' → b' = b ∨ b' = false) :
    (dropIdx c c').foldl (fun a i => a.set i false) c = c' := by
  apply List.ext_getElem?
  intro j
  rw [foldl_set_false_get]
  by_cases hlt : j < c.length
  · have hlt' : j < c'.length := by omega
    have hc : c[j]? = some c[j] := List.getElem?_eq_getElem hlt
    have hc' : c'[j]? = some c'[j] := List.getElem?_eq_getElem hlt'
    have := h j _ _ hc hc'
    have hmem : j ∈ dropIdx c c' ↔ (c[j] = true ∧ c'[j] = false) := by
      unfold dropIdx
      simp [List.mem_filter, hlt, hc, hc']
    rw [hc, hc']
    by_cases hm : j ∈ dropIdx c c'
    · rw [if_pos hm]
      simp [(hmem.1 hm).2]
    · rw [if_neg hm]
      rcases this with e | e
      · rw [e]
      · rw [e]
        cases hb : c[j] with
        | false => rfl
        | true => exact absurd (hmem.2 ⟨hb, e⟩) hm
  · have hn : c[j]? = none := List.getElem?_eq_none_iff.2 (by omega)
    have hn' : c'[j]? = none := List.getElem?_eq_none_iff.2 (by omega)
    rw [hn, hn']
    split <;> rfl

/-- A property of every emission of every step holds of every emission of a run. -/
theorem run_sends {P : Reg.Send → Prop} (h : ∀ (x : Reg.Sys) e o, o ∈ (x.step e).2 → P o) :
    ∀ (tr : List Reg.Ev) (x : Reg.Sys) o, o ∈ (Reg.Sys.run x tr).2 → P o := by
  intro tr
  induction tr with
  | nil => intro x o ho; simp [Reg.Sys.run] at ho
  | cons e es ih =>
    intro x o ho
    rw [run_cons] at ho
    rcases List.mem_append.1 ho with ho | ho
    · exact h x e o ho
    · exact ih _ o ho

/-- Every emission is a REG1 frame (type 0x9200) or a REG2 frame (type 0x9201), according to its kind. -/
theorem step_send_type (x : Reg.Sys) (e : Reg.Ev) (o : Reg.Send) (ho : o ∈ (x.step e).2) :
    (o.isReg1 = true ∧ Codec.getPacketTypeS o.pkt = some 0x9200) ∨
    (o.isReg1 = false ∧ Codec.getPacketTypeS o.pkt = some 0x9201) := by
  rcases Reg.step_sends x e o ho with h | h | h | h | h
  · left; exact ⟨by simp [Reg.Send.isReg1, h.1], by rw [h.2.2.2.2]; exact Keepalive.reg1_type _⟩
  · left; exact ⟨by simp [Reg.Send.isReg1, h.1], by rw [h.2.2.2.2.2]; exact Keepalive.reg1_type _⟩
  · left; exact ⟨by simp [Reg.Send.isReg1, h.1], by rw [h.2.2.2]; exact Keepalive.reg1_type _⟩
  · right; exact ⟨by simp [Reg.Send.isReg1, h.1], by rw [h.2.2.2]; exact Keepalive.reg2_type _⟩
  · right; exact ⟨by simp [Reg.Send.isReg1, h.1], by rw [h.2.2.2]; exact Keepalive.reg2_type _⟩

theorem regWireIds_isReg (ids : List Nat) (o : Reg.Send)
    (h : Codec.getPacketTypeS o.pkt = some 0x9200 ∨ Codec.getPacketTypeS o.pkt = some 0x9201) :
    ∀ d ∈ regWireIds ids o, isRegFrame d = true := by
  intro d hd
  have hd2 : d.2 = o.pkt := by
    unfold regWireIds at hd
    split at hd
    · obtain ⟨c, -, rfl⟩ := List.mem_map.1 hd; rfl
    · obtain ⟨c, -, rfl⟩ := List.mem_map.1 hd; rfl
  unfold isRegFrame
  rw [hd2]
  rcases h with h | h <;> simp [h]

/-- The frames of a run's emissions survive the REG-frame filter unchanged. -/
theorem filter_regWire (ids : List Nat) (tr : List Reg.Ev) (x : Reg.Sys) :
    ((Reg.Sys.run x tr).2.flatMap (regWireIds ids)).filter isRegFrame =
      (Reg.Sys.run x tr).2.flatMap (regWireIds ids) := by
  rw [List.filter_eq_self]
  intro d hd
  obtain ⟨o, ho, hdo⟩ := List.mem_flatMap.1 hd
  have := run_sends (P := fun o => Codec.getPacketTypeS o.pkt = some 0x9200 ∨ Codec.getPacketTypeS o.pkt = some 0x9201)
    (fun x e o ho => (step_send_type x e o ho).imp (·.2) (·.2)) tr x o ho
  exact regWireIds_isReg ids o this d hdo

/-! ## 3. Pointwise relations → equal flag / id lists -/

theorem flags_of_pw {R : FLink F → FLink F → Prop} (hR : ∀ a b, R a b → b.core.connected = a.core.connected)
    {as bs : List (FLink F)} (h : Hk.PW R as bs) : flags bs = flags as := by
  induction h with
  | nil => rfl
  | cons hr _ ih =>
    unfold flags at ih ⊢
    simp only [List.map_cons, hR _ _ hr, ih]

theorem cids_of_pw {R : FLink F → FLink F → Prop} (hR : ∀ a b, R a b → b.core.connId = a.core.connId)
    {as bs : List (FLink F)} (h : Hk.PW R as bs) : cids bs = cids as := by
  induction h with
  | nil => rfl
  | cons hr _ ih =>
    unfold cids at ih ⊢
    simp only [List.map_cons, hR _ _ hr, ih]

omit [Scalar F] in
theorem flags_setAt (ls : List (FLink F)) (i : Nat) (x : FLink F) :
    flags (setAt ls i x) = (flags ls).set i x.core.connected := by
  unfold flags
  apply List.ext_getElem?
  intro j
  rw [List.getElem?_map, Uplink.getElem?_setAt, List.getElem?_set, List.getElem?_map]
  by_cases hji : j = i
  · subst hji
    by_cases hlt : j < ls.length
    · simp [hlt, List.getElem?_eq_getElem hlt]
    · have : ls[j]? = none := List.getElem?_eq_none_iff.2 (by omega)
      simp [hlt, this]
  · have hij : ¬ i = j := fun h => hji h.symm
    simp [hji, hij]

omit [Scalar F] in
theorem cids_setAt (ls : List (FLink F)) (i : Nat) (l x : FLink F) (hl : ls[i]? = some l)
    (hx : x.core.connId = l.core.connId) : cids (setAt ls i x) = cids ls := by
  unfold cids
  apply List.ext_getElem?
  intro j
  rw [List.getElem?_map, Uplink.getElem?_setAt, List.getElem?_map]
  by_cases hji : j = i
  · subst hji
    simp [hl, hx]
  · simp [hji]

/-! ## 4. The arms that do not talk to the manager -/

/-- An event that leaves `reg`, the flags and the conn ids alone projects to the empty sequence. -/
theorem projects_frame (s : Sys F) (e : Ev) (hp : proj s e = []) (hna : ¬ RegArm e)
    (hreg : (step s e).1.reg = s.reg) (hfl : flags (step s e).1.links = flags s.links)
    (hid : cids (step s e).1.links = cids s.links) : Projects s e := by
  refine ⟨?_, fun h => absurd h hna, fun _ => by rw [hp]; rfl, hid⟩
  rw [hp, run_nil]
  unfold abs
  rw [hreg, hfl]

theorem projects_flush (s : Sys F) (now : Nat) : Projects s (.flush now) := by
  obtain ⟨h1, h2, -⟩ := Hk.flush_pw false none s now
  exact projects_frame s _ rfl (fun h => h) h2 (flags_of_pw (fun _ _ h => h.connected) h1)
    (cids_of_pw (fun _ _ h => h.connId) h1)

theorem projects_setCfg (s : Sys F) (cfg : Select.Cfg) : Projects s (.setCfg cfg) :=
  projects_frame s _ rfl (fun h => h) rfl rfl rfl

theorem projects_crit (s : Sys F) (d : Nat) : Projects s (.crit d) :=
  projects_frame s _ rfl (fun h => h) rfl rfl rfl

theorem projects_failNext (s : Sys F) (cid : Nat) : Projects s (.failNext cid) :=
  projects_frame s _ rfl (fun h => h) rfl rfl rfl

theorem projects_failAfter (s : Sys F) (cid k : Nat) : Projects s (.failAfter cid k) :=
  projects_frame s _ rfl (fun h => h) rfl rfl rfl

/-- Injecting a socket re-creation failure touches neither the manager nor the links. -/
theorem projects_failBind (s : Sys F) (cid : Nat) : Projects s (.failBind cid) :=
  projects_frame s _ rfl (fun h => h) rfl rfl rfl

/-- A verdict stamp rewrites four fields of one link that the registration machine does not see. -/
theorem stamp_flags_cids (ls : List (FLink F)) (idx : Nat) (weak ld ccb : Bool) (cct : Nat) :
    flags (stampLink ls idx weak ld ccb cct) = flags ls ∧ cids (stampLink ls idx weak ld ccb cct) = cids ls := by
  unfold flags cids
  constructor <;>
  · apply List.ext_getElem?
    intro j
    simp only [List.getElem?_map, Uplink.stampLink_getElem?]
    cases ls[j]? with
    | none => rfl
    | some l => by_cases h : j = idx <;> simp [h]

theorem projects_stamp (s : Sys F) (idx : Nat) (weak ld ccb : Bool) (cct : Nat) :
    Projects s (.stamp idx weak ld ccb cct) :=
  projects_frame s _ rfl (fun h => h) rfl (stamp_flags_cids _ _ _ _ _ _).1 (stamp_flags_cids _ _ _ _ _ _).2

theorem projects_syncTimeout (s : Sys F) : Projects s .syncTimeout := by
  refine projects_frame s _ rfl (fun h => h) rfl ?_ ?_
  · show flags (s.links.map _) = flags s.links
    unfold flags; rw [List.map_map]; rfl
  · show cids (s.links.map _) = cids s.links
    unfold cids; rw [List.map_map]; rfl

/-- **Client event**: `reg` is untouched; a link's flag either stays or is cleared (tear-down after a
failed send), which is what the `drop` events do. -/
theorem projects_client (s : Sys F) (now : Nat) (pkt : Bytes) : Projects s (.client now pkt) := by
  obtain ⟨h1, h2, -⟩ := Hk.client_pw s pkt now
  have hid : cids (handleSrtPacket s pkt now).1.links = cids s.links :=
    cids_of_pw (fun a b h => by
      rcases h with h | ⟨h, -⟩
      · exact h.connId
      · exact h.connId) h1
  have hrun : Reg.Sys.run (abs s) (proj s (.client now pkt)) = (abs (handleSrtPacket s pkt now).1, []) := by
    show Reg.Sys.run ⟨s.reg, flags s.links⟩ ((dropIdx _ _).map Reg.Ev.drop) = _
    rw [run_drops]
    unfold abs
    rw [h2]
    congr 2
    apply dropIdx_spec
    · unfold flags; simp [h1.length]
    · intro j b b' hb hb'
      unfold flags at hb hb'
      rw [List.getElem?_map] at hb hb'
      cases hl : s.links[j]? with
      | none => rw [hl] at hb; cases hb
      | some l =>
        obtain ⟨l', hl', hs⟩ := h1.get j l hl
        rw [hl] at hb; rw [hl'] at hb'
        simp only [Option.map_some, Option.some.injEq] at hb hb'
        subst hb hb'
        rcases hs with hs | ⟨hs, -⟩
        · exact Or.inl hs.connected
        · exact Or.inr hs.clean.connected
  exact ⟨by rw [hrun]; rfl, fun h => absurd h (fun h => h), fun _ => by rw [hrun], hid⟩

/-! ## 5. The uplink arm -/

theorem set_self (c : List Bool) (i : Nat) (b : Bool) (h : c[i]? = some b) : c.set i b = c := by
  apply List.ext_getElem?
  intro j
  rw [List.getElem?_set]
  by_cases hij : i = j
  · subst hij
    obtain ⟨hlt, hv⟩ := List.getElem?_eq_some_iff.1 h
    simp [hlt, hv]
  · simp [hij]

/-- `process_uplink_packet` on the arrival link against the registration machine's `stepPkt`: same
manager state, the arrival link's flag is the only one that may move, the deferred immediate REG1 is
the machine's `reg1Imm`. -/
theorem pup_stepPkt (l : FLink F) (idx : Nat) (reg : Reg.Reg) (c : List Bool) (ck : Bool) (data : Bytes)
    (now : Nat) (hl : c[idx]? = some l.core.connected) :
    (Reg.stepPkt ⟨reg, c⟩ idx now data).1.reg = (processUplinkPacket l idx reg ck data now).2.1 ∧
    (Reg.stepPkt ⟨reg, c⟩ idx now data).1.connected =
      c.set idx (processUplinkPacket l idx reg ck data now).1.core.connected ∧
    (Reg.stepPkt ⟨reg, c⟩ idx now data).2 =
      (match (processUplinkPacket l idx reg ck data now).2.2.reg1Send with
       | some p => [({ kind := .reg1Imm, target := idx, pkt := p } : Reg.Send)]
       | none => []) ∧
    (processUplinkPacket l idx reg ck data now).1.core.connId = l.core.connId := by
  rw [Uplink.processUplinkPacket_eq]
  have hself := set_self c idx _ hl
  rcases Reg.processRegistrationPacket_cases reg idx now data with
    ⟨ht, hp⟩ | ⟨ht, hp⟩ | ⟨ht, hp⟩ | ⟨ht, hp⟩ | ⟨n1, n2, n3, n4, hp⟩
  · unfold Reg.pktType at ht
    simp only [Reg.stepPkt, hp, Uplink.pupSpec, ht]
    generalize Reg.reg1IfNgpImmediate (Reg.handleRegNgp reg idx now) idx now = q
    obtain ⟨r', p⟩ := q
    cases p <;> simp [hself]
  · unfold Reg.pktType at ht
    simp [Reg.stepPkt, hp, Uplink.pupSpec, ht, hself]
  · unfold Reg.pktType at ht
    simp [Reg.stepPkt, hp, Uplink.pupSpec, ht, Uplink.reg3Link, FLink.clearPreRegistration,
      Conn.clearPreRegistration]
  · unfold Reg.pktType at ht
    have hcl := Hk.clean_markForRecovery l
    have hid : l.markForRecovery.core.connId = l.core.connId := (Hk.torn_markForRecovery none l).connId
    simp [Reg.stepPkt, hp, Uplink.pupSpec, ht, hcl.connected, hid]
  · unfold Reg.pktType at n1 n2 n3 n4
    simp only [Reg.stepPkt, hp]
    cases hpt : Codec.getPacketTypeS data with
    | none => simp [Uplink.pupSpec_none _ _ _ _ _ _ hpt, hself]
    | some pt =>
      rw [hpt] at n1 n2 n3 n4
      have m1 : pt ≠ 37393 := fun h => n1 (by rw [h])
      have m2 : pt ≠ 37377 := fun h => n2 (by rw [h])
      have m3 : pt ≠ 37378 := fun h => n3 (by rw [h])
      have m4 : pt ≠ 37392 := fun h => n4 (by rw [h])
      have hk := Uplink.kaLink_spec l data now
      unfold Uplink.pupSpec
      simp only [hpt, m1, m2, m3, m4, if_false]
      split
      · simp [Uplink.stamp, hself]
      · split
        · simp [Uplink.stamp, hself]
        · split
          · simp [Uplink.stamp, hself]
          · split
            · simp [hk.2.2.1, hk.2.2.2.1, hself]
            · simp [Uplink.stamp, hself]

theorem regSys_ext {x y : Reg.Sys} (h1 : x.reg = y.reg) (h2 : x.connected = y.connected) : x = y := by
  cases x; cases y; simp only at h1 h2; rw [h1, h2]

/-- The ACK / NAK fan-out never touches the manager, a `connected` flag or a conn id. -/
theorem pce_abs (s1 : Sys F) (idx : Nat) (inc : Incoming) (now : Nat) :
    abs (processConnectionEvents s1 idx inc now).1 = abs s1 ∧
    cids (processConnectionEvents s1 idx inc now).1.links = cids s1.links := by
  obtain ⟨q1, q2, -, -⟩ := Hk.procEvents_pw false none s1 idx inc now
  exact ⟨regSys_ext q2 (flags_of_pw (fun _ _ h => h.connected) q1), cids_of_pw (fun _ _ h => h.connId) q1⟩

/-- The uplink arm, strong form: the whole wire output of an `uplink` event is the machine's `Send`s
(at most one immediate REG1, to the arrival conn id) — no filtering needed. -/
theorem uplink_run (s : Sys F) (now cid : Nat) (data : Bytes) :
    (Reg.Sys.run (abs s) (proj s (.uplink now cid data))).1 = abs (handleUplinkPacket s cid data now).1 ∧
    (handleUplinkPacket s cid data now).2.wire =
      (Reg.Sys.run (abs s) (proj s (.uplink now cid data))).2.flatMap (regWire s) ∧
    cids (handleUplinkPacket s cid data now).1.links = cids s.links := by
  cases hemp : data.isEmpty with
  | true =>
    have h1 : proj s (.uplink now cid data) = [] := by simp [proj, hemp]
    have h2 : handleUplinkPacket s cid data now = (s, {}) := by unfold handleUplinkPacket; simp [hemp]
    rw [h1, h2]
    exact ⟨rfl, rfl, rfl⟩
  | false =>
    cases hidx : s.links.findIdx? (·.core.connId == cid) with
    | none =>
      have h1 : proj s (.uplink now cid data) = [] := by simp [proj, hemp, hidx]
      rw [h1, Uplink.unknown_link s cid data now hidx]
      exact ⟨rfl, rfl, rfl⟩
    | some idx =>
      obtain ⟨l, hl, hcid⟩ := Uplink.findIdx_get s.links cid idx hidx
      have h1 : proj s (.uplink now cid data) = [.pkt idx now data] := by simp [proj, hemp, hidx]
      have hfl : (flags s.links)[idx]? = some l.core.connected := by
        unfold flags; rw [List.getElem?_map, hl]; rfl
      obtain ⟨p1, p2, p3, p4⟩ := pup_stepPkt l idx s.reg (flags s.links) s.clientKnown data now hfl
      rw [h1, run_single]
      show (Reg.stepPkt ⟨s.reg, flags s.links⟩ idx now data).1 = _ ∧ _ = (Reg.stepPkt ⟨s.reg, flags s.links⟩ idx now data).2.flatMap _ ∧ _
      unfold handleUplinkPacket
      simp only [hemp, hidx, hl, Bool.false_eq_true, if_false]
      generalize processUplinkPacket l idx s.reg s.clientKnown data now = r at p1 p2 p3 p4 ⊢
      obtain ⟨l1, reg1, inc⟩ := r
      dsimp only at p1 p2 p3 p4 ⊢
      have hreg1 : ∀ o : Reg.Send, o.kind = .reg1Imm → o.target = idx → regWire s o = [(cid, o.pkt)] := by
        intro o hk ht
        unfold regWire regWireIds cids
        rw [if_neg (by rw [hk]; simp), ht, List.getElem?_map, hl]
        simp [hcid]
      cases hsend : inc.reg1Send with
      | none =>
        rw [hsend] at p3
        simp only [p3]
        obtain ⟨a1, a2⟩ := pce_abs ({ s with links := setAt s.links idx l1, reg := reg1 } : Sys F) idx inc now
        refine ⟨?_, rfl, ?_⟩
        · rw [a1]
          exact regSys_ext p1 (by rw [p2]; exact (flags_setAt _ _ _).symm)
        · rw [a2]; exact cids_setAt _ _ l _ hl p4
      | some p =>
        rw [hsend] at p3
        simp only [p3]
        obtain ⟨a1, a2⟩ := pce_abs ({ s with
          links := setAt s.links idx ({ l1 with core := { l1.core with lastSent := some now } } : FLink F),
          reg := reg1 } : Sys F) idx inc now
        refine ⟨?_, ?_, ?_⟩
        · rw [a1]
          exact regSys_ext p1 (by
            rw [p2]
            exact (flags_setAt s.links idx ({ l1 with core := { l1.core with lastSent := some now } } : FLink F)).symm)
        · simp [hreg1]
        · rw [a2]; exact cids_setAt _ _ l _ hl p4

theorem projects_uplink (s : Sys F) (now cid : Nat) (data : Bytes) : Projects s (.uplink now cid data) := by
  obtain ⟨h1, h2, h3⟩ := uplink_run s now cid data
  refine ⟨h1, fun _ => ?_, fun h => absurd trivial h, h3⟩
  show (handleUplinkPacket s cid data now).2.wire.filter isRegFrame = _
  rw [h2]
  exact filter_regWire _ _ _

/-! ## 6. The housekeeping arm -/

/-- Housekeeping steps 1 and 2 (`clear_pending_if_timed_out`, probing completion) are the machine's
`clearTimeout` and `probeCheck`. -/
theorem hkPre_run (s : Sys F) (now : Nat) (c : List Bool) :
    Reg.Sys.run ⟨s.reg, c⟩ [.clearTimeout now, .probeCheck now] = (⟨(Keepalive.hkPre s now).1, c⟩, []) := by
  simp only [Reg.Sys.run, Reg.Sys.step, List.append_nil]
  unfold Keepalive.hkPre
  by_cases h : Reg.isProbing (Reg.clearPendingIfTimedOut s.reg now).1 = true
  · simp only [h, if_true]
    split
    · split <;> rfl
    · rfl
  · simp only [h]
    rfl

/-- One link of the per-link loop that takes the reconnect branch is the machine's `reconnect` — whether
the socket re-creation succeeds or fails (`fb`: injected failures): the flag is cleared and the same
frame is sent in both variants. -/
theorem hkOne_reconnect (classic : Bool) (now : Nat) (l : FLink F) (i : Nat) (reg : Reg.Reg) (fb : List Nat)
    (c : List Bool)
    (hto : l.isTimedOut now = true) (hsa : l.shouldAttemptReconnect now = true) :
    (Reg.stepReconnect ⟨reg, c⟩ i now).1 = ⟨(Keepalive.hkOne classic now l i reg fb).2.1, c.set i false⟩ ∧
    (Keepalive.hkOne classic now l i reg fb).2.2 =
      (Reg.stepReconnect ⟨reg, c⟩ i now).2.map (fun o => (l.core.connId, o.pkt)) ∧
    (∀ o ∈ (Reg.stepReconnect ⟨reg, c⟩ i now).2, o.kind ≠ .bcast ∧ o.target = i) ∧
    (Keepalive.hkOne classic now l i reg fb).1.core.connected = false ∧
    (Keepalive.hkOne classic now l i reg fb).1.core.connId = l.core.connId := by
  have hal : Keepalive.attempted (fb.contains l.core.connId) l now =
      Hk.attemptLink (fb.contains l.core.connId) l now := by
    unfold Keepalive.attempted Hk.attemptLink Hk.failedLink
    split <;> rfl
  obtain ⟨-, -, hid, -, -, -, hcl⟩ := Hk.attemptLink_fields (fb.contains l.core.connId) l now
  unfold Keepalive.hkOne Reg.stepReconnect
  simp only [hto, hsa, if_true]
  rw [hal]
  generalize fb.contains l.core.connId = fails at hid hcl ⊢
  cases hp : reg.pending with
  | none => simp [hcl.connected, hid]
  | some p =>
    by_cases hpi : p = i
    · simp [hpi, hcl.connected, hid]
    · simp [hpi, hcl.connected, hid]

/-- A link that does not take the reconnect branch leaves the manager alone and puts only
keepalives on the wire. -/
theorem hkOne_quiet (classic : Bool) (now : Nat) (l : FLink F) (i : Nat) (reg : Reg.Reg) (fb : List Nat)
    (h : (l.isTimedOut now && l.shouldAttemptReconnect now) = false) :
    (Keepalive.hkOne classic now l i reg fb).2.1 = reg ∧
    (Keepalive.hkOne classic now l i reg fb).2.2.filter isRegFrame = [] ∧
    (Keepalive.hkOne classic now l i reg fb).1.core.connected = l.core.connected ∧
    (Keepalive.hkOne classic now l i reg fb).1.core.connId = l.core.connId := by
  unfold Keepalive.hkOne
  cases hto : l.isTimedOut now with
  | false =>
    simp only [Bool.false_eq_true, if_false]
    obtain ⟨h1, h2, h3, -⟩ := Keepalive.hkLive_spec classic now l
    refine ⟨trivial, ?_, h2, h1⟩
    rw [List.filter_eq_nil_iff]
    intro x hx
    obtain ⟨rfl, -⟩ := h3 x hx
    simp [isRegFrame, Keepalive.keepalivePacket_pkt, Keepalive.keepalive_type]
  | true =>
    rw [hto] at h
    have hsa : l.shouldAttemptReconnect now = false := by simpa using h
    simp [hsa]

theorem rcsFrom_cons (now : Nat) (l : FLink F) (rest : List (FLink F)) (i : Nat) :
    rcsFrom now (l :: rest) i =
      if l.isTimedOut now && l.shouldAttemptReconnect now then i :: rcsFrom now rest (i + 1)
      else rcsFrom now rest (i + 1) := rfl

/-- **The per-link loop is the machine's run of `reconnect` events** over the links that take the
reconnect branch, in index order: same manager state afterwards, the REG frames on the wire are the
emissions (`cid k` = conn id of link `k`), and the other wire datagrams are keepalives. -/
theorem hkGo_run (classic : Bool) (now : Nat) (cid : Nat → Nat) :
    ∀ (ls : List (FLink F)) (i : Nat) (reg : Reg.Reg) (fb : List Nat) (c : List Bool),
      (∀ (j : Nat) l, ls[j]? = some l → cid (i + j) = l.core.connId) →
      (Reg.Sys.run ⟨reg, c⟩ ((rcsFrom now ls i).map fun k => Reg.Ev.reconnect k now)).1 =
        ⟨(hkLinksGo classic now ls i reg fb).2.1, (rcsFrom now ls i).foldl (fun a k => a.set k false) c⟩ ∧
      (hkLinksGo classic now ls i reg fb).2.2.filter isRegFrame =
        (Reg.Sys.run ⟨reg, c⟩ ((rcsFrom now ls i).map fun k => Reg.Ev.reconnect k now)).2.map
          (fun o => (cid o.target, o.pkt)) ∧
      ∀ o ∈ (Reg.Sys.run ⟨reg, c⟩ ((rcsFrom now ls i).map fun k => Reg.Ev.reconnect k now)).2,
        o.kind ≠ .bcast ∧ i ≤ o.target ∧ o.target < i + ls.length := by
  intro ls
  induction ls with
  | nil =>
    intro i reg fb c _
    simp [rcsFrom, hkLinksGo, Reg.Sys.run]
  | cons l rest ih =>
    intro i reg fb c hcid
    have hcid0 : cid i = l.core.connId := by simpa using hcid 0 l rfl
    have hcid' : ∀ (j : Nat) x, rest[j]? = some x → cid (i + 1 + j) = x.core.connId := by
      intro j x hx
      have := hcid (j + 1) x (by simpa using hx)
      rw [← this]; congr 1; omega
    rw [Keepalive.hkLinksGo_cons, rcsFrom_cons]
    cases hcond : (l.isTimedOut now && l.shouldAttemptReconnect now) with
    | false =>
      obtain ⟨q1, q2, -, -⟩ := hkOne_quiet classic now l i reg fb hcond
      obtain ⟨r1, r2, r3⟩ := ih (i + 1) reg (Keepalive.hkFbK now fb l) c hcid'
      simp only [Bool.false_eq_true, if_false, q1, List.filter_append, q2, List.nil_append]
      refine ⟨r1, r2, fun o ho => ?_⟩
      obtain ⟨a, b, d⟩ := r3 o ho
      exact ⟨a, by omega, by simp only [List.length_cons]; omega⟩
    | true =>
      have hto : l.isTimedOut now = true := by
        cases h : l.isTimedOut now <;> simp_all
      have hsa : l.shouldAttemptReconnect now = true := by
        cases h : l.shouldAttemptReconnect now <;> simp_all
      obtain ⟨q1, q2, q3, -, -⟩ := hkOne_reconnect classic now l i reg fb c hto hsa
      obtain ⟨r1, r2, r3⟩ := ih (i + 1) (Keepalive.hkOne classic now l i reg fb).2.1 (Keepalive.hkFbK now fb l)
        (c.set i false) hcid'
      simp only [if_true, List.map_cons, run_cons, List.foldl_cons]
      have hstep : (Reg.Sys.step ⟨reg, c⟩ (.reconnect i now)) = Reg.stepReconnect ⟨reg, c⟩ i now := rfl
      rw [hstep, q1]
      refine ⟨r1, ?_, fun o ho => ?_⟩
      · rw [List.filter_append, r2, List.map_append, q2]
        congr 1
        have hall : ((Reg.stepReconnect ⟨reg, c⟩ i now).2.map (fun o => (l.core.connId, o.pkt))).filter isRegFrame =
            (Reg.stepReconnect ⟨reg, c⟩ i now).2.map (fun o => (l.core.connId, o.pkt)) := by
          rw [List.filter_eq_self]
          intro d hd
          obtain ⟨o, ho, rfl⟩ := List.mem_map.1 hd
          have := step_send_type ⟨reg, c⟩ (.reconnect i now) o (by rw [hstep]; exact ho)
          unfold isRegFrame
          rcases this with ⟨-, h⟩ | ⟨-, h⟩ <;> simp [h]
        rw [hall]
        apply List.map_congr_left
        intro o ho
        rw [(q3 o ho).2, hcid0]
      · rcases List.mem_append.1 ho with ho | ho
        · obtain ⟨a, b⟩ := q3 o ho
          exact ⟨a, by omega, by simp only [List.length_cons]; omega⟩
        · obtain ⟨a, b, d⟩ := r3 o ho
          exact ⟨a, by omega, by simp only [List.length_cons]; omega⟩

/-- The `connected` flags after the per-link loop: cleared exactly on the reconnect set. -/
theorem hkGo_flags (classic : Bool) (now : Nat) :
    ∀ (ls : List (FLink F)) (i : Nat) (reg : Reg.Reg) (fb : List Nat) (pre : List Bool), pre.length = i →
      (rcsFrom now ls i).foldl (fun a k => a.set k false) (pre ++ flags ls) =
        pre ++ flags (hkLinksGo classic now ls i reg fb).1 ∧
      cids (hkLinksGo classic now ls i reg fb).1 = cids ls := by
  intro ls
  induction ls with
  | nil => intro i reg fb pre _; simp [rcsFrom, hkLinksGo, flags, cids]
  | cons l rest ih =>
    intro i reg fb pre hpre
    rw [Keepalive.hkLinksGo_cons, rcsFrom_cons]
    cases hcond : (l.isTimedOut now && l.shouldAttemptReconnect now) with
    | false =>
      obtain ⟨-, -, q3, q4⟩ := hkOne_quiet classic now l i reg fb hcond
      obtain ⟨r1, r2⟩ := ih (i + 1) (Keepalive.hkOne classic now l i reg fb).2.1 (Keepalive.hkFbK now fb l)
        (pre ++ [l.core.connected])
        (by simp [hpre])
      simp only [Bool.false_eq_true, if_false]
      constructor
      · have : pre ++ flags (l :: rest) = (pre ++ [l.core.connected]) ++ flags rest := by simp [flags]
        rw [this, r1]
        simp [flags, q3]
      · unfold cids at r2 ⊢
        simp only [List.map_cons, q4, r2]
    | true =>
      have hto : l.isTimedOut now = true := by
        cases h : l.isTimedOut now <;> simp_all
      have hsa : l.shouldAttemptReconnect now = true := by
        cases h : l.shouldAttemptReconnect now <;> simp_all
      obtain ⟨-, -, -, q3, q4⟩ := hkOne_reconnect classic now l i reg fb [] hto hsa
      obtain ⟨r1, r2⟩ := ih (i + 1) (Keepalive.hkOne classic now l i reg fb).2.1 (Keepalive.hkFbK now fb l)
        (pre ++ [false]) (by simp [hpre])
      simp only [if_true, List.foldl_cons]
      constructor
      · have : (pre ++ flags (l :: rest)).set i false = (pre ++ [false]) ++ flags rest := by
          subst hpre
          simp [flags]
        rw [this, r1]
        simp [flags, q3]
      · unfold cids at r2 ⊢
        simp only [List.map_cons, q4, r2]

omit [Scalar F] in
theorem hkPre_links (s : Sys F) (now : Nat) :
    flags (Keepalive.hkPre s now).2 = flags s.links ∧ cids (Keepalive.hkPre s now).2 = cids s.links := by
  have key : ∀ (idx g : Nat), flags (s.links.mapIdx fun j (l : FLink F) => if j = idx then { l with graceDeadline := g } else l) = flags s.links ∧
      cids (s.links.mapIdx fun j (l : FLink F) => if j = idx then { l with graceDeadline := g } else l) = cids s.links := by
    intro idx g
    unfold flags cids
    constructor <;>
    · apply List.ext_getElem?
      intro j
      simp only [List.getElem?_map, List.getElem?_mapIdx]
      cases s.links[j]? with
      | none => rfl
      | some l => by_cases h : j = idx <;> simp [h]
  unfold Keepalive.hkPre
  split
  · split
    · split
      · exact key _ _
      · exact ⟨rfl, rfl⟩
    · exact ⟨rfl, rfl⟩
  · exact ⟨rfl, rfl⟩

omit [Scalar F] in
theorem hkLs2_links (ls : List (FLink F)) (now : Nat) (sends : Reg.DriverSends) :
    flags (Keepalive.hkLs2 ls now sends).1 = flags ls ∧ cids (Keepalive.hkLs2 ls now sends).1 = cids ls := by
  unfold Keepalive.hkLs2
  split
  · split
    · rename_i l hl
      constructor
      · rw [flags_setAt]
        apply set_self
        unfold flags
        rw [List.getElem?_map, hl]; rfl
      · exact cids_setAt _ _ l _ hl rfl
    · exact ⟨rfl, rfl⟩
  · exact ⟨rfl, rfl⟩

omit [Scalar F] in
theorem hkLs3_links (ls : List (FLink F)) (now : Nat) (sends : Reg.DriverSends) :
    flags (Keepalive.hkLs3 ls now sends).1 = flags ls ∧ cids (Keepalive.hkLs3 ls now sends).1 = cids ls := by
  unfold Keepalive.hkLs3
  split
  · unfold flags cids
    simp only [List.map_map]
    exact ⟨rfl, rfl⟩
  · exact ⟨rfl, rfl⟩

/-- The links after the per-link loop of the tick. -/
theorem hkMid_links (s : Sys F) (now : Nat) :
    (hkRcs s now).foldl (fun a k => a.set k false) (flags s.links) = flags (Keepalive.hkMid s now).1 ∧
    cids (Keepalive.hkMid s now).1 = cids s.links := by
  obtain ⟨p1, p2⟩ := hkPre_links s now
  obtain ⟨g1, g2⟩ := hkGo_flags s.cfg.classic now (Keepalive.hkPre s now).2 0 (Keepalive.hkPre s now).1
    s.failBind [] rfl
  simp only [List.nil_append] at g1
  unfold hkRcs Keepalive.hkMid
  rw [← p1, g1, g2, p2]
  exact ⟨rfl, rfl⟩

/-- Conn id of link `k` (0 if there is none). -/
def cidAt (s : Sys F) (k : Nat) : Nat := ((cids s.links)[k]?).getD 0

/-- What the registration driver's answer puts on the wire, as machine emissions. -/
def drvSends (d : Reg.DriverSends) : List Reg.Send :=
  (match d.reg1 with
   | some (i, p) => [({ kind := .reg1Drv, target := i, pkt := p } : Reg.Send)]
   | none => []) ++
  (match d.broadcastReg2 with
   | some p => [({ kind := .bcast, target := 0, pkt := p } : Reg.Send)]
   | none => [])

omit [Scalar F] in
theorem hkPre_cid (s : Sys F) (now : Nat) :
    ∀ (j : Nat) l, (Keepalive.hkPre s now).2[j]? = some l → cidAt s (0 + j) = l.core.connId := by
  intro j l hl
  unfold cidAt
  rw [← (hkPre_links s now).2]
  unfold cids
  rw [List.getElem?_map, Nat.zero_add, hl]
  rfl

/-- The machine's run of one whole housekeeping pass, stage by stage. -/
theorem hk_run_eq (s : Sys F) (now : Nat) :
    Reg.Sys.run (abs s) (Reg.tickEvs now (hkRcs s now)) =
      (⟨(Reg.regDriverPendingSends (Reg.updateActiveConnections (Keepalive.hkMid s now).2.1
            (flags (Keepalive.hkMid s now).1)) now).1, flags (Keepalive.hkMid s now).1⟩,
       (Reg.Sys.run ⟨(Keepalive.hkPre s now).1, flags s.links⟩
          ((hkRcs s now).map fun k => Reg.Ev.reconnect k now)).2 ++
        drvSends (Keepalive.hkSends (Keepalive.hkMid s now).1 (Keepalive.hkMid s now).2.1 now)) := by
  obtain ⟨m1, m2⟩ := hkMid_links s now
  obtain ⟨g1, -, -⟩ := hkGo_run s.cfg.classic now (cidAt s) (Keepalive.hkPre s now).2 0
    (Keepalive.hkPre s now).1 s.failBind (flags s.links) (hkPre_cid s now)
  have g1' : (Reg.Sys.run ⟨(Keepalive.hkPre s now).1, flags s.links⟩
      ((hkRcs s now).map fun k => Reg.Ev.reconnect k now)).1 =
      ⟨(Keepalive.hkMid s now).2.1, flags (Keepalive.hkMid s now).1⟩ := by
    rw [← m1]; exact g1
  unfold Reg.tickEvs
  rw [Reg.Sys.run_append, Reg.Sys.run_append]
  have h0 : abs s = ⟨s.reg, flags s.links⟩ := rfl
  rw [h0, hkPre_run]
  dsimp only
  rw [g1']
  simp only [Reg.Sys.run, Reg.Sys.step, Reg.stepDriver, List.nil_append, List.append_nil]
  rfl

theorem map_eq_flatMap {α β : Type} (l : List α) (f : α → β) (g : α → List β) (h : ∀ o ∈ l, g o = [f o]) :
    l.map f = l.flatMap g := by
  induction l with
  | nil => rfl
  | cons a as ih =>
    rw [List.map_cons, List.flatMap_cons, h a (by simp), ih (fun o ho => h o (by simp [ho]))]
    rfl

omit [Scalar F] in
/-- Stages 5 and 6 of the tick (driver REG1 to its target, REG2 broadcast to every link) put exactly
the driver's emissions on the wire. -/
theorem drv_wire (s : Sys F) (ls1 : List (FLink F)) (now : Nat) (sends : Reg.DriverSends)
    (hc : cids ls1 = cids s.links) :
    (Keepalive.hkLs2 ls1 now sends).2 ++ (Keepalive.hkLs3 (Keepalive.hkLs2 ls1 now sends).1 now sends).2 =
      (drvSends sends).flatMap (regWire s) := by
  have hc2 : cids (Keepalive.hkLs2 ls1 now sends).1 = cids s.links := (hkLs2_links ls1 now sends).2.trans hc
  unfold drvSends
  rw [List.flatMap_append]
  congr 1
  · unfold Keepalive.hkLs2
    cases sends.reg1 with
    | none => rfl
    | some ip =>
      obtain ⟨idx, pkt⟩ := ip
      have hget : (cids s.links)[idx]? = (ls1[idx]?).map (·.core.connId) := by
        rw [← hc]; unfold cids; rw [List.getElem?_map]
      simp only [List.flatMap_cons, List.flatMap_nil, List.append_nil, regWire, regWireIds]
      rw [if_neg (by simp), hget]
      cases ls1[idx]? <;> rfl
  · unfold Keepalive.hkLs3
    cases sends.broadcastReg2 with
    | none => rfl
    | some pkt =>
      simp only [List.flatMap_cons, List.flatMap_nil, List.append_nil, regWire, regWireIds, if_true]
      rw [← hc2]
      unfold cids
      rw [List.map_map]
      rfl

/-- **Housekeeping tick**: it is the machine's `tickEvs now (hkRcs s now)`. -/
theorem hk_run (s : Sys F) (now : Nat) :
    (Reg.Sys.run (abs s) (Reg.tickEvs now (hkRcs s now))).1 = abs (handleHousekeeping s now).1 ∧
    (handleHousekeeping s now).2.wire.filter isRegFrame =
      (Reg.Sys.run (abs s) (Reg.tickEvs now (hkRcs s now))).2.flatMap (regWire s) ∧
    cids (handleHousekeeping s now).1.links = cids s.links := by
  obtain ⟨m1, m2⟩ := hkMid_links s now
  obtain ⟨-, g2, g3⟩ := hkGo_run s.cfg.classic now (cidAt s) (Keepalive.hkPre s now).2 0
    (Keepalive.hkPre s now).1 s.failBind (flags s.links) (hkPre_cid s now)
  have hlen : (Keepalive.hkPre s now).2.length = s.links.length := (Keepalive.hkPre_spec s now).1
  have hfin : flags (handleHousekeeping s now).1.links = flags (Keepalive.hkMid s now).1 ∧
      cids (handleHousekeeping s now).1.links = cids s.links := by
    rw [Keepalive.handleHousekeeping_links]
    constructor
    · rw [(hkLs3_links _ _ _).1, (hkLs2_links _ _ _).1]
    · rw [(hkLs3_links _ _ _).2, (hkLs2_links _ _ _).2, m2]
  rw [hk_run_eq]
  refine ⟨?_, ?_, hfin.2⟩
  · exact regSys_ext rfl hfin.1.symm
  · rw [Keepalive.handleHousekeeping_wire, List.append_assoc, List.filter_append, List.flatMap_append]
    congr 1
    · show (hkLinksGo s.cfg.classic now (Keepalive.hkPre s now).2 0 (Keepalive.hkPre s now).1 s.failBind).2.2.filter isRegFrame = _
      rw [g2]
      apply map_eq_flatMap
      intro o ho
      obtain ⟨a, -, b⟩ := g3 o ho
      have hlt : o.target < (cids s.links).length := by unfold cids; rw [List.length_map]; omega
      unfold regWire regWireIds cidAt
      rw [if_neg a, List.getElem?_eq_getElem hlt]
      rfl
    · rw [drv_wire s _ now _ m2, List.filter_eq_self]
      intro d hd
      obtain ⟨o, ho, hdo⟩ := List.mem_flatMap.1 hd
      have ht := Keepalive.regDriver_types
        (Reg.updateActiveConnections (Keepalive.hkMid s now).2.1 ((Keepalive.hkMid s now).1.map (·.core.connected))) now
      refine regWireIds_isReg _ o ?_ d hdo
      unfold drvSends at ho
      rcases List.mem_append.1 ho with ho | ho
      · split at ho
        · rename_i i p hr
          simp only [List.mem_cons, List.not_mem_nil, or_false] at ho
          subst ho
          exact Or.inl (ht.1 i p hr)
        · simp at ho
      · split at ho
        · rename_i p hr
          simp only [List.mem_cons, List.not_mem_nil, or_false] at ho
          subst ho
          exact Or.inr (ht.2 p hr)
        · simp at ho

theorem projects_hk (s : Sys F) (now : Nat) : Projects s (.hk now) := by
  obtain ⟨h1, h2, h3⟩ := hk_run s now
  exact ⟨h1, fun _ => h2, fun h => absurd trivial h, h3⟩

/-- **Every shell event that keeps the link set projects onto the registration machine.**  One lemma per
constructor; a new constructor that leaves `reg`, the flags and the conn ids alone is one more
`projects_frame` line.  `Ev.reload` is EXCLUDED (`hnr`): `apply_connection_changes` shifts the connections
vector under the manager's index-keyed state without remapping it (observation recorded in tools/props/C07.json
and C19.json), so the registration machine of `Model/Reg.lean`, which names uplinks by index, has no event for
it; the theorems of C07 are about the stretches of a run between two reloads. -/
theorem projects (s : Sys F) (e : Ev) (hnr : e.isReload = false) : Projects s e := by
  cases e with
  | reload now addrs outs => cases hnr
  | client now pkt => exact projects_client s now pkt
  | uplink now cid data => exact projects_uplink s now cid data
  | flush now => exact projects_flush s now
  | hk now => exact projects_hk s now
  | setCfg cfg => exact projects_setCfg s cfg
  | crit d => exact projects_crit s d
  | failNext cid => exact projects_failNext s cid
  | failAfter cid kfa => exact projects_failAfter s cid kfa
  | failBind cid => exact projects_failBind s cid
  | stamp idx weak ld ccb cct => exact projects_stamp s idx weak ld ccb cct
  | syncTimeout => exact projects_syncTimeout s

theorem regArm_noReload {e : Ev} (h : RegArm e) : e.isReload = false := by
  cases e <;> first | rfl | exact absurd h (fun h => h)

/-- The wire clause of `Projects` for EVERY event (a reload is not an arm that talks to the manager). -/
theorem projects_wire (s : Sys F) (e : Ev) (hra : RegArm e) :
    (step s e).2.wire.filter isRegFrame = (Reg.Sys.run (abs s) (proj s e)).2.flatMap (regWire s) :=
  (projects s e (regArm_noReload hra)).wire hra

/-- The quiet clause of `Projects` for EVERY event (a reload projects to no machine event at all). -/
theorem projects_quiet (s : Sys F) (e : Ev) (hra : ¬ RegArm e) : (Reg.Sys.run (abs s) (proj s e)).2 = [] := by
  cases hnr : e.isReload with
  | false => exact (projects s e hnr).quiet hra
  | true =>
    cases e with
    | reload now addrs outs => rfl
    | _ => cases hnr

/-! ## 7. Runs of the shell, and the ghost observer along them -/

/-- Final state of a shell run (the first component of `Srtla.Sys.run`, `Lemmas/ForwardStep.lean`;
restated here so that this file does not depend on the C01 block). -/
def runS (s : Sys F) : List Ev → Sys F
  | [] => s
  | e :: es => runS (step s e).1 es

/-- The registration-machine events of a whole shell run. -/
def projRun (s : Sys F) : List Ev → List Reg.Ev
  | [] => []
  | e :: es => proj s e ++ projRun (step s e).1 es

theorem runS_append (s : Sys F) (a b : List Ev) : runS s (a ++ b) = runS (runS s a) b := by
  induction a generalizing s with
  | nil => rfl
  | cons e es ih => exact ih _

theorem projRun_append (s : Sys F) (a b : List Ev) :
    projRun s (a ++ b) = projRun s a ++ projRun (runS s a) b := by
  induction a generalizing s with
  | nil => rfl
  | cons e es ih => simp only [List.cons_append, projRun, runS, ih, List.append_assoc]

/-- **Run form of the projection**: the machine run over the projected events ends in the abstraction
of the shell's final state. -/
theorem run_projRun (s : Sys F) (evs : List Ev) (hnr : NoReload evs) :
    (Reg.Sys.run (abs s) (projRun s evs)).1 = abs (runS s evs) := by
  induction evs generalizing s with
  | nil => rfl
  | cons e es ih =>
    simp only [projRun, runS]
    rw [Reg.Sys.run_append]
    simp only
    rw [(projects s e hnr.head).state, ih _ hnr.tail]

/-- Shell start-up states: the manager is fresh (`SrtlaRegistrationManager::new()`, optionally after
the single start-up `start_probing`), no link is connected. -/
def Startup (s0 : Sys F) : Prop :=
  ∃ (id pid : Bytes) (n : Nat), id.length = 256 ∧
    (abs s0 = Reg.Sys.init id pid n ∨ ∃ now, abs s0 = (Reg.Sys.initProbing id pid n now).1)

/-- The ghost observer at start-up. -/
def st0 (s0 : Sys F) : Reg.St := ⟨abs s0, { adopted := s0.reg.id }⟩

/-- The ghost observer (and the machine state it is tied to) after the shell run `evs`: it has read
the projected event stream and the emitted packets, nothing else. -/
def ghostAt (s0 : Sys F) (evs : List Ev) : Reg.St := (st0 s0).run (projRun s0 evs)

theorem st0_reachable {s0 : Sys F} (h : Startup s0) : Reg.Reachable (st0 s0) := by
  obtain ⟨id, pid, n, hl, h | ⟨now, h⟩⟩ := h
  · refine ⟨id, pid, n, [], hl, Or.inl ?_⟩
    have hid : s0.reg.id = id := by
      have := congrArg (fun x : Reg.Sys => x.reg.id) h
      simpa [abs, Reg.Sys.init, Reg.Reg.new] using this
    simp only [Reg.St.run, st0, Reg.St.init, h, hid]
  · refine ⟨id, pid, n, [], hl, Or.inr ⟨now, ?_⟩⟩
    have hid : s0.reg.id = id := by
      have := congrArg (fun x : Reg.Sys => x.reg.id) h
      simp only [abs, Reg.Sys.initProbing, Reg.startProbing_id] at this
      simpa [Reg.Sys.init, Reg.Reg.new] using this
    simp only [Reg.St.run, st0, Reg.St.initProbing, h, hid]

theorem ghostAt_reachable {s0 : Sys F} (h : Startup s0) (evs : List Ev) : Reg.Reachable (ghostAt s0 evs) :=
  Reg.reachable_run (st0_reachable h) _

theorem ghostAt_sys (s0 : Sys F) (evs : List Ev) (hnr : NoReload evs) : (ghostAt s0 evs).sys = abs (runS s0 evs) := by
  unfold ghostAt
  rw [Reg.St.run_sys]
  exact run_projRun s0 evs hnr

/-- The driver's / harness's initial state (`n` fresh links, fresh manager) is a start-up state. -/
theorem init_fresh (id pid : Bytes) (hl : id.length = 256) (links : List (FLink F))
    (hf : ∀ l ∈ links, l.core.connected = false) (s0 : Sys F) (h1 : s0.links = links)
    (h2 : s0.reg = Reg.Reg.new id pid) : Startup s0 := by
  refine ⟨id, pid, links.length, hl, Or.inl ?_⟩
  unfold abs Reg.Sys.init
  rw [h2, h1]
  congr 1
  unfold flags
  apply List.ext_getElem?
  intro j
  rw [List.getElem?_map, List.getElem?_replicate]
  by_cases hj : j < links.length
  · rw [List.getElem?_eq_getElem hj, if_pos hj]
    simp [hf _ (List.getElem_mem hj)]
  · rw [List.getElem?_eq_none_iff.2 (by omega), if_neg hj]
    rfl

/-! ## 8. What the projection says about the frames of one event -/

theorem proj_uplink_cases (s : Sys F) (now cid : Nat) (data : Bytes) :
    proj s (.uplink now cid data) = [] ∨
    ∃ idx, data.isEmpty = false ∧ s.links.findIdx? (·.core.connId == cid) = some idx ∧
      proj s (.uplink now cid data) = [.pkt idx now data] := by
  show (if data.isEmpty then [] else match s.links.findIdx? (·.core.connId == cid) with
      | some idx => [Reg.Ev.pkt idx now data]
      | none => []) = [] ∨ ∃ idx, data.isEmpty = false ∧ s.links.findIdx? (·.core.connId == cid) = some idx ∧
        (if data.isEmpty then [] else match s.links.findIdx? (·.core.connId == cid) with
          | some idx => [Reg.Ev.pkt idx now data]
          | none => []) = [Reg.Ev.pkt idx now data]
  cases hemp : data.isEmpty with
  | true => left; rfl
  | false =>
    cases hidx : s.links.findIdx? (·.core.connId == cid) with
    | none => left; rfl
    | some idx => right; exact ⟨idx, rfl, rfl, rfl⟩

/-- A datagram on the wire of a `hk` / `uplink` event whose type field says REG1 or REG2 is the copy
of an emission of the machine. -/
theorem frame_origin (s : Sys F) (e : Ev) (hra : RegArm e) (d : Nat × Bytes) (hd : d ∈ (step s e).2.wire)
    (hf : isRegFrame d = true) :
    ∃ o ∈ (Reg.Sys.run (abs s) (proj s e)).2, d ∈ regWire s o ∧ d.2 = o.pkt := by
  have hmem : d ∈ (step s e).2.wire.filter isRegFrame := List.mem_filter.2 ⟨hd, hf⟩
  rw [projects_wire s e hra] at hmem
  obtain ⟨o, ho, hdo⟩ := List.mem_flatMap.1 hmem
  refine ⟨o, ho, hdo, ?_⟩
  unfold regWire regWireIds at hdo
  split at hdo
  · obtain ⟨c, -, rfl⟩ := List.mem_map.1 hdo; rfl
  · obtain ⟨c, -, rfl⟩ := List.mem_map.1 hdo; rfl

/-- Emissions of the events one shell event projects to are built from the id the manager holds
before the event. -/
theorem proj_ids (s : Sys F) (e : Ev) :
    ∀ o ∈ (Reg.Sys.run (abs s) (proj s e)).2,
      o.pkt = (if o.isReg1 then Codec.createReg1 s.reg.id else Codec.createReg2 s.reg.id) := by
  intro o ho
  by_cases hra : RegArm e
  · cases e with
    | uplink now cid data =>
      rcases proj_uplink_cases s now cid data with h | ⟨idx, -, -, h⟩
      · rw [h] at ho; simp [Reg.Sys.run] at ho
      · rw [h, run_single] at ho
        rcases Reg.step_sends _ _ o ho with h | h | h | h | h
        · simp [Reg.Send.isReg1, h.1, h.2.2.2.2, abs]
        · simp [Reg.Send.isReg1, h.1, h.2.2.2.2.2, abs]
        · simp [Reg.Send.isReg1, h.1, h.2.2.2, abs]
        · simp [Reg.Send.isReg1, h.1, h.2.2.2, abs]
        · simp [Reg.Send.isReg1, h.1, h.2.2.2, abs]
    | hk now => exact (Reg.run_ids _ (abs s) (Reg.tickEvs_noPkt now _)).2 o ho
    | _ => exact absurd hra (fun h => h)
  · rw [projects_quiet s e hra] at ho
    simp at ho

/-- All REG1 emissions of one shell event go to the uplink that is pending after the event. -/
theorem proj_reg1_pending (s : Sys F) (e : Ev) (o : Reg.Send)
    (ho : o ∈ (Reg.Sys.run (abs s) (proj s e)).2) (h1 : o.isReg1 = true) :
    (step s e).1.reg.pending = some o.target := by
  by_cases hra' : RegArm e
  case neg => rw [projects_quiet s e hra'] at ho; simp at ho
  have hst : (Reg.Sys.run (abs s) (proj s e)).1.reg = (step s e).1.reg := by
    rw [(projects s e (regArm_noReload hra')).state]; rfl
  rw [← hst]
  by_cases hra : RegArm e
  · cases e with
    | uplink now cid data =>
      rcases proj_uplink_cases s now cid data with h | ⟨idx, -, -, h⟩
      · rw [h] at ho; simp [Reg.Sys.run] at ho
      · rw [h, run_single] at ho ⊢
        exact Reg.step_reg1_pending _ _ o ho h1
    | hk now => exact Reg.tick_reg1_pending _ now _ o ho h1
    | _ => exact absurd hra (fun h => h)
  · rw [projects_quiet s e hra] at ho
    simp at ho

/-- A `connected` flag turns true only in an `uplink` event carrying REG3 (0x9202 = 37378) on the conn
id of that link (the first link with that conn id). -/
theorem connected_only_reg3 (s : Sys F) (e : Ev) (hnr : e.isReload = false) (k : Nat)
    (h1 : (flags (step s e).1.links)[k]? = some true) (h0 : (flags s.links)[k]? ≠ some true) :
    ∃ now cid data, e = .uplink now cid data ∧ data.isEmpty = false ∧
      s.links.findIdx? (·.core.connId == cid) = some k ∧ Codec.getPacketTypeS data = some 37378 := by
  have hst := (projects s e hnr).state
  have h1' : (Reg.Sys.run (abs s) (proj s e)).1.connected[k]? = some true := by rw [hst]; exact h1
  obtain ⟨e', he', hp⟩ := Reg.run_connected _ (abs s) k h1' h0
  cases e with
  | uplink now cid data =>
    rcases proj_uplink_cases s now cid data with h | ⟨idx, hne, hidx, h⟩
    · rw [h] at he'; simp at he'
    · rw [h] at he'
      simp only [List.mem_cons, List.not_mem_nil, or_false] at he'
      subst he'
      obtain ⟨rfl, ht⟩ := hp
      exact ⟨now, cid, data, rfl, hne, hidx, ht⟩
  | client now pkt =>
    simp only [proj, List.mem_map] at he'
    obtain ⟨i, -, rfl⟩ := he'
    simp [Reg.Ev.IsPktOn] at hp
  | hk now =>
    have : e'.IsPkt := by
      cases e' <;> simp [Reg.Ev.IsPktOn] at hp
      trivial
    exact absurd this (Reg.tickEvs_noPkt now _ e' he')
  | _ => simp [proj] at he'

/-! ## 9. The REG2 broadcast round in a housekeeping tick -/

/-- Up to the driver call, a tick changes neither the broadcast debt nor the id. -/
theorem hkMid_reg (s : Sys F) (now : Nat) :
    (Keepalive.hkMid s now).2.1.broadcastPending = s.reg.broadcastPending ∧
    (Keepalive.hkMid s now).2.1.id = s.reg.id := by
  obtain ⟨g1, -, -⟩ := hkGo_run s.cfg.classic now (cidAt s) (Keepalive.hkPre s now).2 0
    (Keepalive.hkPre s now).1 s.failBind (flags s.links) (hkPre_cid s now)
  have hpre := hkPre_run s now (flags s.links)
  have hrc : ∀ e ∈ (rcsFrom now (Keepalive.hkPre s now).2 0).map (fun k => Reg.Ev.reconnect k now),
      ¬ e.IsPkt ∧ ¬ e.IsDriver := by
    intro e he
    obtain ⟨k, -, rfl⟩ := List.mem_map.1 he
    exact ⟨fun h => h, fun h => h⟩
  have hcp : ∀ e ∈ [Reg.Ev.clearTimeout now, Reg.Ev.probeCheck now], ¬ e.IsPkt ∧ ¬ e.IsDriver := by
    intro e he
    simp only [List.mem_cons, List.not_mem_nil, or_false] at he
    rcases he with rfl | rfl <;> exact ⟨fun h => h, fun h => h⟩
  have b1 := Reg.run_bp _ ⟨s.reg, flags s.links⟩ hcp
  have i1 := (Reg.run_ids _ ⟨s.reg, flags s.links⟩ (fun e he => (hcp e he).1)).1
  rw [hpre] at b1 i1
  have b2 := Reg.run_bp _ ⟨(Keepalive.hkPre s now).1, flags s.links⟩ hrc
  have i2 := (Reg.run_ids _ ⟨(Keepalive.hkPre s now).1, flags s.links⟩ (fun e he => (hrc e he).1)).1
  rw [g1] at b2 i2
  exact ⟨b2.trans b1, i2.trans i1⟩

/-- The driver's answer in the tick: a broadcast REG2 carrying the current id iff a broadcast is owed
when the tick starts; the debt is cleared by the tick. -/
theorem hk_broadcast (s : Sys F) (now : Nat) :
    (Keepalive.hkSends (Keepalive.hkMid s now).1 (Keepalive.hkMid s now).2.1 now).broadcastReg2 =
      (if s.reg.broadcastPending then some (Codec.createReg2 s.reg.id) else none) ∧
    (handleHousekeeping s now).1.reg.broadcastPending = false := by
  obtain ⟨h1, h2⟩ := hkMid_reg s now
  obtain ⟨d1, d2, -⟩ := Reg.driver_bcast_eq
    (Reg.updateActiveConnections (Keepalive.hkMid s now).2.1 ((Keepalive.hkMid s now).1.map (·.core.connected))) now
  refine ⟨?_, d2⟩
  unfold Keepalive.hkSends
  rw [d1]
  show (if (Keepalive.hkMid s now).2.1.broadcastPending then some (Codec.createReg2 (Keepalive.hkMid s now).2.1.id) else none) = _
  rw [h1, h2]

/-- **One REG2 round to all uplinks.**  If a broadcast is owed when the tick starts, the tick's wire
output ends with exactly one REG2 (carrying the current id) per link, in link order; the machine's
emissions of the tick are `sends' ++ [bcast]` where `sends'` holds no broadcast and accounts for every
other REG frame of the tick (`pre`: keepalives, reconnect re-sends, a driver REG1).  If no broadcast is
owed the tick emits no broadcast. -/
theorem hk_bcast_round (s : Sys F) (now : Nat) :
    (s.reg.broadcastPending = true →
      ∃ pre sends', (handleHousekeeping s now).2.wire =
          pre ++ s.links.map (fun l => (l.core.connId, Codec.createReg2 s.reg.id)) ∧
        (Reg.Sys.run (abs s) (proj s (.hk now))).2 =
          sends' ++ [({ kind := .bcast, target := 0, pkt := Codec.createReg2 s.reg.id } : Reg.Send)] ∧
        (∀ o ∈ sends', o.kind ≠ .bcast) ∧ pre.filter isRegFrame = sends'.flatMap (regWire s)) ∧
    (s.reg.broadcastPending = false → ∀ o ∈ (Reg.Sys.run (abs s) (proj s (.hk now))).2, o.kind ≠ .bcast) := by
  obtain ⟨hb, -⟩ := hk_broadcast s now
  obtain ⟨-, m2⟩ := hkMid_links s now
  obtain ⟨-, -, g3⟩ := hkGo_run s.cfg.classic now (cidAt s) (Keepalive.hkPre s now).2 0
    (Keepalive.hkPre s now).1 s.failBind (flags s.links) (hkPre_cid s now)
  obtain ⟨-, hw, -⟩ := hk_run s now
  have hrun : (Reg.Sys.run (abs s) (proj s (.hk now))).2 = _ := congrArg Prod.snd (hk_run_eq s now)
  generalize hR : (Reg.Sys.run ⟨(Keepalive.hkPre s now).1, flags s.links⟩
    ((hkRcs s now).map fun k => Reg.Ev.reconnect k now)).2 = R at hrun
  have hRnb : ∀ o ∈ R, o.kind ≠ .bcast := by
    intro o ho; rw [← hR] at ho; exact (g3 o ho).1
  generalize hd : Keepalive.hkSends (Keepalive.hkMid s now).1 (Keepalive.hkMid s now).2.1 now = d at hb hrun
  have hr1 : ∀ o ∈ (match d.reg1 with
      | some (i, p) => [({ kind := .reg1Drv, target := i, pkt := p } : Reg.Send)]
      | none => []), o.kind ≠ .bcast := by
    intro o ho
    split at ho
    · simp only [List.mem_cons, List.not_mem_nil, or_false] at ho; subst ho; simp
    · simp at ho
  constructor
  · intro hbp
    rw [hbp] at hb
    simp only [if_true] at hb
    have hwire : (handleHousekeeping s now).2.wire =
        ((Keepalive.hkMid s now).2.2 ++ (Keepalive.hkLs2 (Keepalive.hkMid s now).1 now d).2) ++
          s.links.map (fun l => (l.core.connId, Codec.createReg2 s.reg.id)) := by
      rw [Keepalive.handleHousekeeping_wire, hd]
      congr 1
      unfold Keepalive.hkLs3
      rw [hb]
      have hc2 : cids (Keepalive.hkLs2 (Keepalive.hkMid s now).1 now d).1 = cids s.links :=
        (hkLs2_links _ now d).2.trans m2
      show (Keepalive.hkLs2 (Keepalive.hkMid s now).1 now d).1.map (fun l => (l.core.connId, Codec.createReg2 s.reg.id)) = _
      have e1 : ∀ ls : List (FLink F), ls.map (fun l => (l.core.connId, Codec.createReg2 s.reg.id)) =
          (cids ls).map (fun c => (c, Codec.createReg2 s.reg.id)) := by
        intro ls; unfold cids; rw [List.map_map]; rfl
      rw [e1, e1, hc2]
    have hsends : (Reg.Sys.run (abs s) (proj s (.hk now))).2 =
        (R ++ (match d.reg1 with
          | some (i, p) => [({ kind := .reg1Drv, target := i, pkt := p } : Reg.Send)]
          | none => [])) ++ [({ kind := .bcast, target := 0, pkt := Codec.createReg2 s.reg.id } : Reg.Send)] := by
      rw [hrun]
      unfold drvSends
      rw [hb, List.append_assoc]
    refine ⟨_, _, hwire, hsends, ?_, ?_⟩
    · intro o ho
      rcases List.mem_append.1 ho with ho | ho
      · exact hRnb o ho
      · exact hr1 o ho
    · have hw' : (handleHousekeeping s now).2.wire.filter isRegFrame =
          (Reg.Sys.run (abs s) (proj s (.hk now))).2.flatMap (regWire s) := hw
      rw [hwire, hsends, List.filter_append, List.flatMap_append] at hw'
      have hB : (s.links.map (fun l => (l.core.connId, Codec.createReg2 s.reg.id))).filter isRegFrame =
          s.links.map (fun l => (l.core.connId, Codec.createReg2 s.reg.id)) := by
        rw [List.filter_eq_self]
        intro x hx
        obtain ⟨l, -, rfl⟩ := List.mem_map.1 hx
        simp [isRegFrame, Keepalive.reg2_type]
      have hbc : [({ kind := .bcast, target := 0, pkt := Codec.createReg2 s.reg.id } : Reg.Send)].flatMap (regWire s) =
          s.links.map (fun l => (l.core.connId, Codec.createReg2 s.reg.id)) := by
        simp only [List.flatMap_cons, List.flatMap_nil, List.append_nil, regWire, regWireIds, if_true, cids,
          List.map_map]
        rfl
      rw [hB, hbc] at hw'
      exact List.append_cancel_right hw'
  · intro hbp
    rw [hbp] at hb
    simp only [Bool.false_eq_true, if_false] at hb
    intro o ho
    rw [hrun] at ho
    unfold drvSends at ho
    rw [hb] at ho
    simp only [List.append_nil] at ho
    rcases List.mem_append.1 ho with ho | ho
    · exact hRnb o ho
    · exact hr1 o ho

/-- Outside the `uplink` / `hk` arms the manager is not touched. -/
theorem proj_quiet_reg (s : Sys F) (e : Ev) (h : ¬ RegArm e) :
    (Reg.Sys.run (abs s) (proj s e)).1.reg = s.reg := by
  cases e with
  | client now pkt =>
    show (Reg.Sys.run ⟨s.reg, flags s.links⟩ ((dropIdx _ _).map Reg.Ev.drop)).1.reg = _
    rw [run_drops]
  | uplink now cid data => exact absurd trivial h
  | hk now => exact absurd trivial h
  | _ => rfl

/-! ## 10. The reconnection fields of a link: who may touch them

`rf l` = (`last_reconnect_attempt_ms`, `reconnect_failure_count`, `connection_established_ms`,
`startup_grace_deadline_ms`) — what `is_timed_out` (for a disconnected link) and
`should_attempt_reconnect` read.  Outside housekeeping they move only by a tear-down
(`mark_for_recovery`: grace := 0) after a failed send on that link or a REG_ERR on it, and by REG3
(first-establishment stamp, failure count := 0). -/

/-- The reconnection fields. -/
def rf (l : FLink F) : Nat × Nat × Nat × Nat := (l.lastAttemptMs, l.failCount, l.established, l.graceDeadline)

/-- Same conn id, same reconnection fields. -/
def SameRf (l l' : FLink F) : Prop := l'.core.connId = l.core.connId ∧ rf l' = rf l

omit [Scalar F] in
theorem SameRf.refl (l : FLink F) : SameRf l l := ⟨rfl, rfl⟩
omit [Scalar F] in
theorem SameRf.trans {a b c : FLink F} (h1 : SameRf a b) (h2 : SameRf b c) : SameRf a c :=
  ⟨h2.1.trans h1.1, h2.2.trans h1.2⟩

/-- `fn'` holds no conn id that `fn` does not hold. -/
def Sub (fn' fn : List Nat) : Prop := ∀ a, fn'.contains a = true → fn.contains a = true

theorem Sub.refl (fn : List Nat) : Sub fn fn := fun _ h => h
theorem Sub.trans {a b c : List Nat} (h1 : Sub a b) (h2 : Sub b c) : Sub a c := fun x h => h2 x (h1 x h)
theorem sub_erase (fn : List Nat) (x : Nat) : Sub (fn.erase x) fn := by
  intro a h
  simp only [List.contains_eq_mem, decide_eq_true_eq] at h ⊢
  exact List.mem_of_mem_erase h

/-- What the data path may do to a link: keep its reconnection fields, or tear it down after a failed
send — possible only if its conn id is in the injected-failure set. -/
def SendRf (fn : List Nat) (l l' : FLink F) : Prop :=
  l'.core.connId = l.core.connId ∧ (rf l' = rf l ∨ fn.contains l.core.connId = true)

omit [Scalar F] in
theorem SendRf.refl (fn : List Nat) (l : FLink F) : SendRf fn l l := ⟨rfl, Or.inl rfl⟩
omit [Scalar F] in
theorem SendRf.of_same {fn : List Nat} {l l' : FLink F} (h : SameRf l l') : SendRf fn l l' := ⟨h.1, Or.inl h.2⟩
omit [Scalar F] in
theorem SendRf.comp {fn fn1 : List Nat} {a b c : FLink F} (h1 : SendRf fn a b) (h2 : SendRf fn1 b c)
    (hs : Sub fn1 fn) : SendRf fn a c := by
  refine ⟨h2.1.trans h1.1, ?_⟩
  rcases h1.2 with e1 | e1
  · rcases h2.2 with e2 | e2
    · exact Or.inl (e2.trans e1)
    · exact Or.inr (by rw [← h1.1]; exact hs _ e2)
  · exact Or.inr e1

/-! ### per-link operations -/

theorem same_queue (l : FLink F) (pkt : Link.Bytes) (seq : Option Nat) (t : Nat) :
    SameRf l (l.queueDataPacket pkt seq t).1 := ⟨rfl, rfl⟩

theorem same_takeBatch (l : FLink F) (now : Nat) : SameRf l (l.takeBatch now).1 := by
  refine ⟨(Hk.ev_takeBatch false none l now).connId, ?_⟩
  rw [Hk.takeBatch_eq]
  split <;> rfl

theorem same_stallProbeDue (l : FLink F) : SameRf l l.stallProbeDue.1 := by
  unfold FLink.stallProbeDue
  dsimp only
  split <;> exact ⟨rfl, rfl⟩

theorem same_absorb (l : FLink F) (x : Select.SLink F) : SameRf l (l.absorb x) := ⟨rfl, rfl⟩

theorem same_keepalivePacket (l : FLink F) (now : Nat) : SameRf l (l.keepalivePacket now).1 := ⟨rfl, rfl⟩

theorem same_recovery (l : FLink F) (now : Nat) : SameRf l (l.performWindowRecovery now) := ⟨rfl, rfl⟩

theorem same_updatePhase (l : FLink F) (now : Nat) : SameRf l (l.updatePhase now) := by
  unfold FLink.updatePhase
  dsimp only
  repeat' split
  all_goals exact ⟨rfl, rfl⟩

theorem same_regime (l : FLink F) : SameRf l l.recomputeBatchRegime := ⟨rfl, rfl⟩

theorem same_aliveLink (classic : Bool) (now : Nat) (l : FLink F) : SameRf l (Hk.aliveLink classic now l) := by
  unfold Hk.aliveLink
  dsimp only
  have h1 : SameRf l (if l.needsKeepalive now then (l.keepalivePacket now).1 else l) := by
    split
    · exact same_keepalivePacket l now
    · exact SameRf.refl l
  generalize (if l.needsKeepalive now then (l.keepalivePacket now).1 else l) = l1 at h1 ⊢
  have h2 : SameRf l1 (if l1.needsRttMeasurement now then (l1.keepalivePacket now).1 else l1) := by
    split
    · exact same_keepalivePacket l1 now
    · exact SameRf.refl l1
  generalize (if l1.needsRttMeasurement now then (l1.keepalivePacket now).1 else l1) = l2 at h2 ⊢
  have h3 : SameRf l2 (if !classic then l2.performWindowRecovery now else l2) := by
    split
    · exact same_recovery l2 now
    · exact SameRf.refl l2
  generalize (if !classic then l2.performWindowRecovery now else l2) = l3 at h3 ⊢
  have h4 : SameRf l3 { l3 with bitrate := l3.bitrate.calculate now } := ⟨rfl, rfl⟩
  exact ((((h1.trans h2).trans h3).trans h4).trans (same_updatePhase _ now)).trans (same_regime _)

theorem same_stamp (l : FLink F) (now : Nat) : SameRf l (Uplink.stamp l now) := ⟨rfl, rfl⟩

theorem same_kaLink (l : FLink F) (data : Codec.Bytes) (now : Nat) : SameRf l (Uplink.kaLink l data now) := by
  have hk : ∀ m : FLink F, SameRf m (m.handleKeepaliveResponse data now).1 := by
    intro m
    unfold FLink.handleKeepaliveResponse
    split
    · exact ⟨rfl, rfl⟩
    · split
      · dsimp only
        split <;> exact ⟨rfl, rfl⟩
      · exact ⟨rfl, rfl⟩
  have hr : ∀ m : FLink F, SameRf m m.recordRttProbe := by
    intro m
    unfold FLink.recordRttProbe
    repeat' split
    all_goals exact ⟨rfl, rfl⟩
  unfold Uplink.kaLink
  split
  · exact ((same_stamp l now).trans (hk _)).trans ((hr _).trans ⟨rfl, rfl⟩)
  · exact (same_stamp l now).trans (hk _)

omit [Scalar F] in
/-- Everything that only rewrites the accounting core (keeping the conn id) and the RTT tracker. -/
theorem same_of_sameShell {l l' : FLink F} (h : Uplink.SameShell l l') (hid : l'.core.connId = l.core.connId) :
    SameRf l l' := by
  refine ⟨hid, ?_⟩
  unfold Uplink.SameShell at h
  rw [h]
  rfl

/-! ### the data path -/

theorem fwdLink_rf (l : FLink F) (pkt : Link.Bytes) (seq : Option Nat) (now : Nat) (fn : List Nat) :
    SendRf fn l (Hk.fwdLink fa l pkt seq now fn).1 ∧ Sub (Hk.fwdLink fa l pkt seq now fn).2.2 fn := by
  have hq := same_queue l pkt seq now
  unfold Hk.fwdLink
  split
  · dsimp only
    obtain ⟨e1, e2⟩ := Hk.sendBatch_cases (l.queueDataPacket pkt seq now).1 now fn
    have ht := same_takeBatch (l.queueDataPacket pkt seq now).1 now
    rcases e2 with ⟨ok, efn⟩ | ⟨ok, hcont, efn⟩
    · rw [ok, efn, e1]
      exact ⟨SendRf.of_same (hq.trans ht), Sub.refl _⟩
    · rw [ok, efn, e1]
      refine ⟨⟨?_, Or.inr hcont⟩, sub_erase _ _⟩
      exact ((Hk.torn_markForRecovery none _).connId.trans ht.1).trans hq.1
  · exact ⟨SendRf.of_same hq, Sub.refl _⟩

theorem forwardVia_rf (s : Sys F) (sel : Nat) (pkt : Sys.Bytes) (seq : Option Nat) (now : Nat) :
    Hk.PW (SendRf s.failNext) s.links (forwardVia s sel pkt seq now).1.links ∧
    Sub (forwardVia s sel pkt seq now).1.failNext s.failNext := by
  cases hl : s.links[sel]? with
  | none =>
    rw [Hk.forwardVia_none s sel pkt seq now hl]
    exact ⟨Hk.PW.refl (SendRf.refl _) _, Sub.refl _⟩
  | some l =>
    obtain ⟨e1, e2, -, -⟩ := Hk.forwardVia_eq s sel pkt seq now l hl
    obtain ⟨f1, f2⟩ := fwdLink_rf l pkt seq now s.failNext
    rw [e1, e2]
    exact ⟨Hk.pw_setAt (SendRf.refl _) _ _ l _ hl f1, f2⟩

theorem probeLink_rf (l : FLink F) (pkt : Link.Bytes) (seq : Option Nat) (now : Nat) (fn : List Nat) :
    SendRf fn l (Hk.probeLink fa l pkt seq now fn).1 ∧ Sub (Hk.probeLink fa l pkt seq now fn).2.2 fn := by
  have hp := same_stallProbeDue l
  unfold Hk.probeLink
  split
  · exact ⟨SendRf.of_same hp, Sub.refl _⟩
  · obtain ⟨f1, f2⟩ := fwdLink_rf l.stallProbeDue.1 pkt seq now fn
    exact ⟨(SendRf.of_same hp : SendRf fn l _).comp f1 (Sub.refl _), f2⟩

theorem stallProbes_rf (pkt : Sys.Bytes) (seq : Option Nat) (now sel : Nat) (ls : List (FLink F)) (i : Nat)
    (fn : List Nat) :
    Hk.PW (SendRf fn) ls (stallProbesGo fa pkt seq now sel ls i fn).1 ∧
    Sub (stallProbesGo fa pkt seq now sel ls i fn).2.2 fn := by
  induction ls generalizing i fn with
  | nil => exact ⟨.nil, Sub.refl _⟩
  | cons l rest ih =>
    rw [Hk.stallProbesGo_cons]
    split
    · obtain ⟨h1, h2⟩ := ih (i + 1) fn
      exact ⟨.cons (SendRf.refl _ _) h1, h2⟩
    · obtain ⟨p1, p2⟩ := probeLink_rf l pkt seq now fn
      obtain ⟨h1, h2⟩ := ih (i + 1) (Hk.probeLink fa l pkt seq now fn).2.2
      dsimp only
      refine ⟨.cons p1 (h1.mono (fun a b h => ⟨h.1, h.2.imp id (fun hc => p2 _ hc)⟩)), h2.trans p2⟩

theorem runSelect_rf (s : Sys F) (now : Nat) : Hk.PW SameRf s.links (runSelect s now).1.links := by
  obtain ⟨g, h1, -, -, -⟩ := Hk.runSelect_links s now
  rw [h1]
  exact Hk.PW.map _ _ (fun l => same_absorb l _)

/-- **Client event**: a link keeps its reconnection fields unless its conn id was in the
injected-failure set when the event began; the set only shrinks. -/
theorem client_rf (s : Sys F) (pkt : Sys.Bytes) (now : Nat) :
    Hk.PW (SendRf s.failNext) s.links (handleSrtPacket s pkt now).1.links ∧
    Sub (handleSrtPacket s pkt now).1.failNext s.failNext := by
  cases hne : pkt.isEmpty
  case true =>
    have : handleSrtPacket s pkt now = (s, {}) := by unfold handleSrtPacket; simp [hne]
    rw [this]
    exact ⟨Hk.PW.refl (SendRf.refl _) _, Sub.refl _⟩
  case false =>
  cases hc : s.reg.hasConnected
  case false =>
    rw [Hk.handleSrtPacket_pre s pkt now hne hc]
    split
    · exact forwardVia_rf s _ pkt _ now
    · exact ⟨Hk.PW.refl (SendRf.refl _) _, Sub.refl _⟩
  case true =>
    have hsel1 : Hk.PW (SendRf s.failNext) s.links (runSelect s now).1.links :=
      (runSelect_rf s now).mono (fun _ _ h => SendRf.of_same h)
    cases hsel : Hk.clientSel s pkt now with
    | none =>
      rw [Hk.handleSrtPacket_none s pkt now hne hc hsel]
      exact ⟨hsel1, Sub.refl _⟩
    | some i =>
      rw [Hk.handleSrtPacket_some s pkt now i hne hc hsel]
      obtain ⟨f1, f2⟩ := forwardVia_rf (runSelect s now).1 i pkt (Codec.getSrtSequenceNumberS pkt) now
      have hfn : (runSelect s now).1.failNext = s.failNext := rfl
      rw [hfn] at f1 f2
      have hstage2 : Hk.PW (SendRf s.failNext) s.links
          (forwardVia (runSelect s now).1 i pkt (Codec.getSrtSequenceNumberS pkt) now).1.links :=
        Hk.PW.comp hsel1 f1 (fun a b c h1 h2 => h1.comp h2 (Sub.refl _))
      unfold Hk.clientFwd
      dsimp only
      split
      · obtain ⟨p1, p2⟩ := stallProbes_rf pkt (Codec.getSrtSequenceNumberS pkt) now i
          (forwardVia (runSelect s now).1 i pkt (Codec.getSrtSequenceNumberS pkt) now).1.links 0
          (forwardVia (runSelect s now).1 i pkt (Codec.getSrtSequenceNumberS pkt) now).1.failNext
        exact ⟨Hk.PW.comp hstage2 p1 (fun a b c h1 h2 => h1.comp h2 f2), p2.trans f2⟩
      · exact ⟨hstage2, f2⟩

theorem flushGo_rf (now : Nat) (ls : List (FLink F)) (fn : List Nat) :
    Hk.PW SameRf ls (flushGo fa now ls fn).1 ∧ Sub (flushGo fa now ls fn).2.2 fn := by
  induction ls generalizing fn with
  | nil => exact ⟨.nil, Sub.refl _⟩
  | cons l rest ih =>
    rw [flushGo]
    split
    · dsimp only
      obtain ⟨e1, e2⟩ := Hk.sendBatch_cases l now fn
      obtain ⟨h1, h2⟩ := ih (sendConnectionBatch fa l now fn).2.2.2
      refine ⟨.cons (by rw [e1]; exact same_takeBatch l now) h1, h2.trans ?_⟩
      rcases e2 with ⟨-, efn⟩ | ⟨-, -, efn⟩
      · rw [efn]; exact Sub.refl _
      · rw [efn]; exact sub_erase _ _
    · obtain ⟨h1, h2⟩ := ih fn
      exact ⟨.cons (SameRf.refl l) h1, h2⟩

/-- **Flush event**: reconnection fields untouched; the failure set only shrinks. -/
theorem flush_rf (s : Sys F) (now : Nat) :
    Hk.PW SameRf s.links (flushAllBatches s now).1.links ∧ Sub (flushAllBatches s now).1.failNext s.failNext := by
  unfold flushAllBatches
  split
  · exact ⟨Hk.PW.refl SameRf.refl _, Sub.refl _⟩
  · exact flushGo_rf now s.links s.failNext

/-- **Uplink event**: the reconnection fields of link `j` move only if `j` is the arrival link and the
datagram is a REG3 (0x9202: first-establishment stamp, failure count := 0) or a REG_ERR (0x9210:
tear-down); the injected-failure set is untouched. -/
theorem uplink_rf (s : Sys F) (cid : Nat) (data : Codec.Bytes) (now : Nat) (j : Nat) (a : FLink F)
    (ha : s.links[j]? = some a) :
    (∃ b, (handleUplinkPacket s cid data now).1.links[j]? = some b ∧ b.core.connId = a.core.connId ∧
      (rf b = rf a ∨
       (s.links.findIdx? (·.core.connId == cid) = some j ∧
         ((Codec.getPacketTypeS data = some 0x9202 ∧ rf b = rf (Uplink.reg3Link a now)) ∨
          Codec.getPacketTypeS data = some 0x9210)))) ∧
    (handleUplinkPacket s cid data now).1.failNext = s.failNext := by
  by_cases hne : data = []
  · subst hne
    have : handleUplinkPacket s cid [] now = (s, {}) := by simp [handleUplinkPacket]
    rw [this]
    exact ⟨⟨a, ha, rfl, Or.inl rfl⟩, rfl⟩
  cases hidx : s.links.findIdx? (·.core.connId == cid) with
  | none =>
    rw [Uplink.unknown_link s cid data now hidx]
    exact ⟨⟨a, ha, rfl, Or.inl rfl⟩, rfl⟩
  | some idx =>
    obtain ⟨l, hl, -⟩ := Uplink.findIdx_get s.links cid idx hidx
    constructor
    · obtain ⟨b, hb, hev⟩ := Uplink.handleUplinkPacket_link s cid data now idx l hne hidx hl j a ha
      refine ⟨b, hb, ?_⟩
      have hsame : ∀ x : FLink F, Uplink.EvStep
          ((Uplink.pupSpec l idx s.reg s.clientKnown data now).2.2.sacks.map toI32)
          (Uplink.pupSpec l idx s.reg s.clientKnown data now).2.2.acks now x b → SameRf x b :=
        fun x h => same_of_sameShell h.shell h.core.connId
      by_cases hji : j = idx
      · subst hji
        rw [hl] at ha; cases ha
        simp only [if_true] at hev
        have hxb := hsame _ hev
        cases hpt : Codec.getPacketTypeS data with
        | none =>
          have harr : Uplink.arrival a j s.reg s.clientKnown data now = a := by
            unfold Uplink.arrival
            rw [Uplink.pupSpec_none _ _ _ _ _ _ hpt]
          rw [harr] at hxb
          exact ⟨hxb.1, Or.inl hxb.2⟩
        | some pt =>
          rcases Uplink.arrival_cases a j s.reg s.clientKnown data now pt hpt with
            ⟨-, h | h⟩ | ⟨-, h⟩ | ⟨hp, h⟩ | ⟨hp, h⟩ | ⟨-, h⟩ | ⟨-, -, -, -, -, h⟩
          · rw [h] at hxb; exact ⟨hxb.1, Or.inl hxb.2⟩
          · rw [h] at hxb; exact ⟨hxb.1, Or.inl hxb.2⟩
          · rw [h] at hxb; exact ⟨hxb.1, Or.inl hxb.2⟩
          · rw [h] at hxb
            refine ⟨hxb.1.trans ?_, Or.inr ⟨rfl, Or.inl ⟨by rw [hp], hxb.2⟩⟩⟩
            simp [Uplink.reg3Link, FLink.clearPreRegistration, Conn.clearPreRegistration]
          · rw [h] at hxb
            exact ⟨hxb.1.trans (Hk.torn_markForRecovery none a).connId, Or.inr ⟨rfl, Or.inr (by rw [hp])⟩⟩
          · rw [h] at hxb
            have := same_kaLink a data now
            exact ⟨hxb.1.trans this.1, Or.inl (hxb.2.trans this.2)⟩
          · rw [h] at hxb
            exact ⟨hxb.1, Or.inl hxb.2⟩
      · simp only [hji, if_false] at hev
        have hxb := hsame _ hev
        exact ⟨hxb.1, Or.inl hxb.2⟩
    · rw [Uplink.handleUplinkPacket_eq s cid data now idx l hne hidx hl]
      exact (Hk.procEvents_pw false none _ idx _ now).2.2.2

/-! ### the housekeeping tick -/

/-- The reconnect branch is decided on these two tests. -/
def takesReconnect (now : Nat) (l : FLink F) : Bool := l.isTimedOut now && l.shouldAttemptReconnect now

theorem mem_rcsFrom (now : Nat) (ls : List (FLink F)) (k i : Nat) :
    i ∈ rcsFrom now ls k ↔ ∃ j l, i = k + j ∧ ls[j]? = some l ∧ takesReconnect now l = true := by
  induction ls generalizing k with
  | nil => simp [rcsFrom]
  | cons x rest ih =>
    rw [rcsFrom_cons]
    have hrest : (∃ j l, i = k + j ∧ (x :: rest)[j]? = some l ∧ takesReconnect now l = true) ↔
        ((i = k ∧ takesReconnect now x = true) ∨
          ∃ j l, i = k + 1 + j ∧ rest[j]? = some l ∧ takesReconnect now l = true) := by
      constructor
      · rintro ⟨j, l, h1, h2, h3⟩
        cases j with
        | zero => simp at h2; subst h2; exact Or.inl ⟨by omega, h3⟩
        | succ j => exact Or.inr ⟨j, l, by omega, by simpa using h2, h3⟩
      · rintro (⟨h1, h3⟩ | ⟨j, l, h1, h2, h3⟩)
        · exact ⟨0, x, by omega, by simp, h3⟩
        · exact ⟨j + 1, l, by omega, by simpa using h2, h3⟩
    rw [hrest]
    by_cases hc : (x.isTimedOut now && x.shouldAttemptReconnect now) = true
    · rw [if_pos hc, List.mem_cons, ih]
      have : takesReconnect now x = true := hc
      simp [this]
    · rw [if_neg hc, ih]
      have : ¬ takesReconnect now x = true := hc
      simp [this]

/-- Unless the manager is waiting for probe replies, the tick re-arms no grace window. -/
theorem hkPre_links_eq (s : Sys F) (now : Nat) (h : s.reg.probing ≠ .waiting) :
    (Keepalive.hkPre s now).2 = s.links := by
  have hp : (Reg.clearPendingIfTimedOut s.reg now).1.probing = s.reg.probing :=
    (Hk.clearPending_fields s.reg now).2.1
  have hc : Reg.checkProbingComplete (Reg.clearPendingIfTimedOut s.reg now).1 now =
      ((Reg.clearPendingIfTimedOut s.reg now).1, false) := by
    unfold Reg.checkProbingComplete
    rw [if_pos (by rw [hp]; exact h)]
  unfold Keepalive.hkPre
  split
  · rename_i hpr
    rw [hc]
    simp only [hpr, Bool.not_true, Bool.false_eq_true, if_false]
  · rfl

theorem hkLive_fst (classic : Bool) (now : Nat) (l : FLink F) :
    (Keepalive.hkLive classic now l).1 = Hk.aliveLink classic now l := by
  unfold Keepalive.hkLive Hk.aliveLink
  cases h1 : l.needsKeepalive now with
  | true =>
    simp only [if_true]
    cases h2 : (l.keepalivePacket now).1.needsRttMeasurement now <;> simp only [if_true, Bool.false_eq_true, if_false]
  | false =>
    simp only [Bool.false_eq_true, if_false]
    cases h2 : l.needsRttMeasurement now <;> simp only [if_true, Bool.false_eq_true, if_false]

/-- The reconnection fields the reconnect branch at `now` leaves: `(now, 0, established, now + 5000)`
when the socket re-creation succeeds (`reset_for_reconnect`, `mark_success`, `reset_startup_grace`),
`(now, count', established, 0)` when it fails (`mark_for_recovery` fallback: the counter
`record_attempt` incremented — for an established link — stays, no grace). -/
def rfAttempt (fails : Bool) (now : Nat) (l : FLink F) : Nat × Nat × Nat × Nat :=
  if fails then
    (now, (if l.established = 0 then l.failCount else min (l.failCount + 1) 4294967295), l.established, 0)
  else (now, 0, l.established, now + 5000)

/-- Reconnection fields of one link after its turn in the per-link loop. -/
theorem hkOne_rf (classic : Bool) (now : Nat) (l : FLink F) (i : Nat) (reg : Reg.Reg) (fb : List Nat) :
    rf (Keepalive.hkOne classic now l i reg fb).1 =
      if takesReconnect now l then rfAttempt (fb.contains l.core.connId) now l else rf l := by
  cases hc : takesReconnect now l with
  | true =>
    have hto : l.isTimedOut now = true := by
      unfold takesReconnect at hc; cases h : l.isTimedOut now <;> simp_all
    have hsa : l.shouldAttemptReconnect now = true := by
      unfold takesReconnect at hc; cases h : l.shouldAttemptReconnect now <;> simp_all
    have hrf : rf (Keepalive.attempted (fb.contains l.core.connId) l now) =
        rfAttempt (fb.contains l.core.connId) now l := by
      unfold Keepalive.attempted rfAttempt
      cases fb.contains l.core.connId
      · obtain ⟨f1, f2, f3, f4, -⟩ := Hk.reconnectLink_fields l now
        have hrl : Keepalive.reconnected l now = Hk.reconnectLink l now := rfl
        simp only [Bool.false_eq_true, if_false, hrl]
        unfold rf; rw [f1, f2, f3, f4]
      · obtain ⟨f1, f2, f3, f4, -⟩ := Hk.failedLink_fields l now
        have hfl : (l.recordAttempt now).markForRecovery = Hk.failedLink l now := rfl
        simp only [if_true, hfl]
        unfold rf; rw [f1, f2, f3, f4]
    unfold Keepalive.hkOne
    simp only [hto, hsa, if_true]
    cases reg.pending with
    | none => exact hrf
    | some p =>
      dsimp only
      split
      · exact hrf
      · exact hrf
  | false =>
    simp only [Bool.false_eq_true, if_false]
    unfold Keepalive.hkOne
    cases hto : l.isTimedOut now with
    | false =>
      simp only [Bool.false_eq_true, if_false]
      rw [hkLive_fst]
      exact (same_aliveLink classic now l).2
    | true =>
      have hsa : l.shouldAttemptReconnect now = false := by
        unfold takesReconnect at hc; rw [hto] at hc; simpa using hc
      simp [hsa]

/-- The reconnection fields of every link after the per-link loop, the injected re-creation failures
`fb` being consumed by the attempts they fail. -/
def rfGo (now : Nat) : List (FLink F) → List Nat → List (Nat × Nat × Nat × Nat)
  | [], _ => []
  | l :: rest, fb =>
    (if takesReconnect now l then rfAttempt (fb.contains l.core.connId) now l else rf l) ::
      rfGo now rest (Keepalive.hkFbK now fb l)

theorem hkGo_rf (classic : Bool) (now : Nat) :
    ∀ (ls : List (FLink F)) (i : Nat) (reg : Reg.Reg) (fb : List Nat),
      (hkLinksGo classic now ls i reg fb).1.map rf = rfGo now ls fb := by
  intro ls
  induction ls with
  | nil => intro i reg fb; simp [hkLinksGo, rfGo]
  | cons l rest ih =>
    intro i reg fb
    rw [Keepalive.hkLinksGo_cons]
    simp only [List.map_cons, hkOne_rf, ih, rfGo]

theorem hkFbK_mem (now : Nat) (fb : List Nat) (l : FLink F) (a : Nat) (h : a ∈ Keepalive.hkFbK now fb l) :
    a ∈ fb := by
  unfold Keepalive.hkFbK at h
  split at h
  · exact List.mem_of_mem_erase h
  · exact h

/-- A link for whose conn id no re-creation failure is injected gets the successful variant. -/
theorem rfGo_get (now : Nat) :
    ∀ (ls : List (FLink F)) (fb : List Nat) (i : Nat) (l : FLink F), ls[i]? = some l → l.core.connId ∉ fb →
      (rfGo now ls fb)[i]? =
        some (if takesReconnect now l then (now, 0, l.established, now + 5000) else rf l) := by
  intro ls
  induction ls with
  | nil => intro fb i l h; simp at h
  | cons x rest ih =>
    intro fb i l h hfb
    cases i with
    | zero =>
      simp only [List.getElem?_cons_zero, Option.some.injEq] at h
      subst h
      have : fb.contains x.core.connId = false := by simpa using hfb
      simp only [rfGo, List.getElem?_cons_zero, this, rfAttempt, Bool.false_eq_true, if_false]
    | succ i =>
      simp only [List.getElem?_cons_succ] at h
      simp only [rfGo, List.getElem?_cons_succ]
      exact ih _ i l h (fun hm => hfb (hkFbK_mem now fb x _ hm))

omit [Scalar F] in
theorem hkLs2_rf (ls : List (FLink F)) (now : Nat) (sends : Reg.DriverSends) :
    (Keepalive.hkLs2 ls now sends).1.map rf = ls.map rf := by
  unfold Keepalive.hkLs2
  split
  · split
    · rename_i idx pkt _ _ l hl
      apply List.ext_getElem?
      intro j
      rw [List.getElem?_map, Uplink.getElem?_setAt, List.getElem?_map]
      by_cases hji : j = idx
      · subst hji; simp [hl]; rfl
      · simp [hji]
    · rfl
  · rfl

omit [Scalar F] in
theorem hkLs3_rf (ls : List (FLink F)) (now : Nat) (sends : Reg.DriverSends) :
    (Keepalive.hkLs3 ls now sends).1.map rf = ls.map rf := by
  unfold Keepalive.hkLs3
  split
  · simp only [List.map_map]; rfl
  · rfl

/-- **Housekeeping tick**, reconnection fields of every link: a link that takes the reconnect branch
(decided on the records the loop sees) gets `(now, 0, established, now + 5000)` — or, when a socket
re-creation failure is injected for its conn id, `(now, count', established, 0)` (`rfGo`) —, every
other link keeps its fields; the injected send-failure set is untouched, the injected re-creation
failures are only consumed. -/
theorem hk_rf (s : Sys F) (now : Nat) :
    (handleHousekeeping s now).1.links.map rf = rfGo now (Keepalive.hkPre s now).2 s.failBind ∧
    (handleHousekeeping s now).1.failNext = s.failNext ∧
    (∀ a, a ∈ (handleHousekeeping s now).1.failBind → a ∈ s.failBind) := by
  refine ⟨?_, rfl, fun a ha => ?_⟩
  · rw [Keepalive.handleHousekeeping_links, hkLs3_rf, hkLs2_rf]
    exact hkGo_rf s.cfg.classic now _ 0 _ _
  · rw [(Hk.hk_eq s now).2.2.2.2.2] at ha
    exact Hk.hkBindLeft_mem now _ _ a ha

/-! ## 11. The REG2 wait is renewed at most once per attempt (`C07_abandon_bound`) -/

/-- The reconnection fields of a link as the reconnect branch at `t` leaves them (`record_attempt`,
`reset_for_reconnect`, `mark_success`, `reset_startup_grace`) — possibly with a first-establishment
stamp added later by REG3. -/
structure FreshAt (t : Nat) (l : FLink F) : Prop where
  attempt : l.lastAttemptMs = t
  fail : l.failCount = 0
  grace : l.established = 0 → t + 5000 ≤ l.graceDeadline

omit [Scalar F] in
theorem FreshAt.of_rf {t : Nat} {l l' : FLink F} (h : rf l' = rf l) (hf : FreshAt t l) : FreshAt t l' := by
  unfold rf at h
  simp only [Prod.mk.injEq] at h
  obtain ⟨h1, h2, h3, h4⟩ := h
  exact ⟨h1.trans hf.attempt, h2.trans hf.fail, fun h => by rw [h4]; exact hf.grace (h3 ▸ h)⟩

theorem FreshAt.reg3 {t : Nat} {l : FLink F} (now : Nat) (hf : FreshAt t l) : FreshAt t (Uplink.reg3Link l now) := by
  refine ⟨hf.attempt, rfl, fun h => ?_⟩
  have he : l.established = 0 := by
    by_cases h0 : l.established = 0
    · exact h0
    · have hb : (l.established == 0) = false := by simpa using h0
      have : (Uplink.reg3Link l now).established = l.established := by
        simp [Uplink.reg3Link, FLink.clearPreRegistration, hb]
      rw [this] at h; exact absurd h h0
  exact hf.grace he

/-- **No second re-send**: a link whose reconnection fields are as the reconnect branch at `t > 0`
left them is not allowed to retry before `t + 5000` — 5 s grace for a never-established link, 5 s
back-off (failure count 0) for an established one. -/
theorem FreshAt.no_retry {t : Nat} {l : FLink F} (hf : FreshAt t l) (ht : 0 < t) (now : Nat)
    (hnow : now < t + 5000) : l.shouldAttemptReconnect now = false := by
  have hB := Reconn.BASE_RECONNECT_DELAY_MS_eq
  have hM := Reconn.MAX_BACKOFF_DELAY_MS_eq
  have hbk : l.backoffDelay = 5000 := by
    unfold FLink.backoffDelay
    rw [hf.fail, hB, hM]
    simp
  unfold FLink.shouldAttemptReconnect
  by_cases he : l.established = 0
  · have hg := hf.grace he
    have : (l.established == 0) = true := by simpa using he
    simp only [this, if_true]
    rw [if_pos (by omega)]
  · have : (l.established == 0) = false := by simpa using he
    have h0 : (t == 0) = false := by simpa using (by omega : t ≠ 0)
    simp only [this, Bool.false_eq_true, if_false, hbk, hf.attempt, h0, decide_eq_false_iff_not]
    omega

/-- What every reachable manager state satisfies (from the ghost invariant). -/
def RegOk (r : Reg.Reg) : Prop :=
  (r.probing = .waiting → r.pending = none) ∧ (∀ j, r.pending = some j → 4000 ≤ r.pendingTimeoutAt)

theorem regOk_run {s0 : Sys F} (h0 : Startup s0) (evs : List Ev) (hnr : NoReload evs) : RegOk (runS s0 evs).reg := by
  have hi := (Reg.reachable_good (ghostAt_reachable h0 evs)).inv
  have hs := ghostAt_sys s0 evs hnr
  constructor
  · intro hw
    have := (hi.waiting (by rw [hs]; exact hw)).1
    rw [hs] at this; exact this
  · intro j hj
    have := hi.deadline j (by rw [hs]; exact hj)
    rw [hs] at this
    show 4000 ≤ (abs (runS s0 evs)).reg.pendingTimeoutAt
    omega

/-- The attempt on uplink `i` is still pending after every event of `evs` (no REG2 accepted, no
REG_ERR, not abandoned). -/
def Unanswered (i : Nat) : Sys F → List Ev → Prop
  | _, [] => True
  | s, e :: es => (step s e).1.reg.pending = some i ∧ Unanswered i (step s e).1 es

/-- **The invariant of one attempt**: uplink `i` (conn id `cid`) is pending; no send failure and no
socket re-creation failure is injected for it; and either the deadline is still the one the observation started with (`D`), or it
was renewed ONCE, at a tick `t < D`, and since then link `i`'s reconnection fields are untouched. -/
structure Att (i cid D : Nat) (s : Sys F) : Prop where
  pending : s.reg.pending = some i
  nofail : s.failNext.contains cid = false
  nobind : s.failBind.contains cid = false
  link : ∃ l, s.links[i]? = some l ∧ l.core.connId = cid ∧
    (s.reg.pendingTimeoutAt = D ∨
      ∃ t, 0 < t ∧ t < D ∧ s.reg.pendingTimeoutAt = t + 4000 ∧ FreshAt t l)

omit [Scalar F] in
theorem Att.deadline_lt {i cid D : Nat} {s : Sys F} (h : Att i cid D s) : s.reg.pendingTimeoutAt < D + 4000 := by
  obtain ⟨l, -, -, h | ⟨t, -, h1, h2, -⟩⟩ := h.link <;> omega

omit [Scalar F] in
/-- Transport of the link clause along an event that keeps the deadline and link `i`'s fields. -/
theorem Att.keep {i cid D : Nat} {s s' : Sys F} (h : Att i cid D s) (hp : s'.reg.pending = some i)
    (hd : s'.reg.pendingTimeoutAt = s.reg.pendingTimeoutAt) (hnf : s'.failNext.contains cid = false)
    (hnb : s'.failBind.contains cid = false)
    (hl : ∀ l, s.links[i]? = some l → ∃ l', s'.links[i]? = some l' ∧ l'.core.connId = l.core.connId ∧
      ∀ t, FreshAt t l → FreshAt t l') : Att i cid D s' := by
  obtain ⟨l, h1, h2, h3⟩ := h.link
  obtain ⟨l', g1, g2, g3⟩ := hl l h1
  refine ⟨hp, hnf, hnb, l', g1, g2.trans h2, ?_⟩
  rw [hd]
  rcases h3 with h3 | ⟨t, a, b, c, d⟩
  · exact Or.inl h3
  · exact Or.inr ⟨t, a, b, c, g3 t d⟩

theorem att_client {i cid D : Nat} {s : Sys F} (h : Att i cid D s) (now : Nat) (pkt : Sys.Bytes) :
    Att i cid D (handleSrtPacket s pkt now).1 := by
  obtain ⟨-, hreg, -⟩ := Hk.client_pw s pkt now
  obtain ⟨hpw, hsub⟩ := client_rf s pkt now
  refine h.keep (by rw [hreg]; exact h.pending) (by rw [hreg]) ?_
    (by rw [Hk.client_failBind]; exact h.nobind) ?_
  · cases hc : (handleSrtPacket s pkt now).1.failNext.contains cid with
    | false => rfl
    | true => have := hsub cid hc; rw [h.nofail] at this; cases this
  · intro l hl
    obtain ⟨l', hl', hs⟩ := hpw.get i l hl
    obtain ⟨l0, g1, g2, -⟩ := h.link
    rw [hl] at g1; cases g1
    refine ⟨l', hl', hs.1, fun t hf => ?_⟩
    rcases hs.2 with e | e
    · exact hf.of_rf e
    · rw [g2, h.nofail] at e; cases e

theorem att_flush {i cid D : Nat} {s : Sys F} (h : Att i cid D s) (now : Nat) :
    Att i cid D (flushAllBatches s now).1 := by
  obtain ⟨-, hreg, -⟩ := Hk.flush_pw false none s now
  obtain ⟨hpw, hsub⟩ := flush_rf s now
  refine h.keep (by rw [hreg]; exact h.pending) (by rw [hreg]) ?_
    (by rw [Hk.flush_failBind]; exact h.nobind) ?_
  · cases hc : (flushAllBatches s now).1.failNext.contains cid with
    | false => rfl
    | true => have := hsub cid hc; rw [h.nofail] at this; cases this
  · intro l hl
    obtain ⟨l', hl', hs⟩ := hpw.get i l hl
    exact ⟨l', hl', hs.1, fun t hf => hf.of_rf hs.2⟩

theorem att_uplink {i cid D : Nat} {s : Sys F} (h : Att i cid D s) (now c : Nat) (data : Sys.Bytes)
    (hstay : (handleUplinkPacket s c data now).1.reg.pending = some i) :
    Att i cid D (handleUplinkPacket s c data now).1 := by
  obtain ⟨hst, -, -⟩ := uplink_run s now c data
  have hreg : (Reg.Sys.run (abs s) (proj s (.uplink now c data))).1.reg = (handleUplinkPacket s c data now).1.reg := by
    rw [hst]; rfl
  have hd : (handleUplinkPacket s c data now).1.reg.pendingTimeoutAt = s.reg.pendingTimeoutAt := by
    rw [← hreg]
    rcases proj_uplink_cases s now c data with hp | ⟨idx, -, -, hp⟩
    · rw [hp]; rfl
    · rw [hp, run_single]
      refine (Reg.pkt_deadline (abs s) idx now data i i h.pending ?_).2
      have := hreg
      rw [hp, run_single] at this
      rw [this]; exact hstay
  refine h.keep hstay hd (by rw [(uplink_rf s c data now i _ (Classical.choose_spec h.link).1).2]; exact h.nofail)
    (by rw [Hk.uplink_failBind]; exact h.nobind) ?_
  intro l hl
  obtain ⟨⟨b, hb, hid, hrf⟩, -⟩ := uplink_rf s c data now i l hl
  refine ⟨b, hb, hid, fun t hf => ?_⟩
  rcases hrf with e | ⟨hidx, ⟨-, e⟩ | hty⟩
  · exact hf.of_rf e
  · exact (hf.reg3 now).of_rf e
  · -- REG_ERR on the pending link ends the attempt: contradiction with `hstay`
    exfalso
    have hne : data.isEmpty = false := by
      cases data with
      | nil => simp [Codec.getPacketTypeS] at hty
      | cons _ _ => rfl
    have hp : proj s (.uplink now c data) = [.pkt i now data] := by
      rcases proj_uplink_cases s now c data with hp | ⟨idx, -, hidx', hp⟩
      · exfalso
        have : proj s (.uplink now c data) = [.pkt i now data] := by
          show (if data.isEmpty then [] else match s.links.findIdx? (·.core.connId == c) with
            | some idx => [Reg.Ev.pkt idx now data]
            | none => []) = _
          rw [hne, hidx]; rfl
        rw [this] at hp; cases hp
      · rw [hidx] at hidx'; cases hidx'; exact hp
    have := hreg
    rw [hp, run_single, Reg.step_regerr (abs s) i now data hty] at this
    rw [← this] at hstay
    simp [Reg.handleRegErr] at hstay

theorem att_hk {i cid D : Nat} {s : Sys F} (h : Att i cid D s) (hok : RegOk s.reg) (now : Nat) (hpos : 0 < now)
    (hstay : (handleHousekeeping s now).1.reg.pending = some i) :
    Att i cid D (handleHousekeeping s now).1 ∧ now < s.reg.pendingTimeoutAt := by
  have hw : s.reg.probing ≠ .waiting := fun hw => by
    have := hok.1 hw; rw [h.pending] at this; cases this
  have hD : s.reg.pendingTimeoutAt ≠ 0 := by have := hok.2 i h.pending; omega
  obtain ⟨hst, -, hids⟩ := hk_run s now
  have hreg : (Reg.Sys.run (abs s) (Reg.tickEvs now (hkRcs s now))).1.reg = (handleHousekeeping s now).1.reg := by
    rw [hst]; rfl
  obtain ⟨t1, t2⟩ := Reg.tick_deadline (abs s) now (hkRcs s now) i h.pending hw hD
  have hlt : now < s.reg.pendingTimeoutAt := by
    by_cases hle : s.reg.pendingTimeoutAt ≤ now
    · have := t1 hle; rw [hreg, hstay] at this; cases this
    · omega
  refine ⟨?_, hlt⟩
  obtain ⟨-, t3⟩ := t2 hlt
  rw [hreg] at t3
  obtain ⟨hrf, hfn, hfbsub⟩ := hk_rf s now
  rw [hkPre_links_eq s now hw] at hrf
  obtain ⟨l, hl, hcid, hph⟩ := h.link
  have hlen : (handleHousekeeping s now).1.links.length = s.links.length := by
    have := congrArg List.length hids; simpa [cids] using this
  have hi : i < s.links.length := (List.getElem?_eq_some_iff.1 hl).1
  obtain ⟨l', hl'⟩ : ∃ l', (handleHousekeeping s now).1.links[i]? = some l' :=
    ⟨_, List.getElem?_eq_getElem (by omega)⟩
  have hcid' : l'.core.connId = cid := by
    have := congrArg (fun x : List Nat => x[i]?) hids
    simp only [cids, List.getElem?_map, hl, hl', Option.map_some, Option.some.injEq] at this
    rw [this]; exact hcid
  have hnb : l.core.connId ∉ s.failBind := by
    rw [hcid]; simpa using h.nobind
  have hrf' : rf l' = if takesReconnect now l then (now, 0, l.established, now + 5000) else rf l := by
    have := congrArg (fun x : List (Nat × Nat × Nat × Nat) => x[i]?) hrf
    rw [rfGo_get now s.links s.failBind i l hl hnb] at this
    simpa only [List.getElem?_map, hl', Option.map_some, Option.some.injEq] using this
  have hmem : i ∈ hkRcs s now ↔ takesReconnect now l = true := by
    unfold hkRcs
    rw [hkPre_links_eq s now hw, mem_rcsFrom]
    constructor
    · rintro ⟨j, x, hj, hx, hc⟩
      have : j = i := by omega
      subst this
      rw [hl] at hx; cases hx; exact hc
    · intro hc; exact ⟨i, l, by omega, hl, hc⟩
  have hnb' : (handleHousekeeping s now).1.failBind.contains cid = false := by
    cases hc : (handleHousekeeping s now).1.failBind.contains cid with
    | false => rfl
    | true =>
      have := hfbsub cid (by simpa using hc)
      have hn := h.nobind
      simp only [List.contains_eq_mem, decide_eq_false_iff_not] at hn
      exact absurd this hn
  refine ⟨hstay, by rw [hfn]; exact h.nofail, hnb', l', hl', hcid', ?_⟩
  by_cases htr : takesReconnect now l = true
  · rw [if_pos (hmem.2 htr)] at t3
    rw [htr] at hrf'
    simp only [if_true] at hrf'
    have hfresh : FreshAt now l' := by
      unfold rf at hrf'
      simp only [Prod.mk.injEq] at hrf'
      exact ⟨hrf'.1, hrf'.2.1, fun _ => by rw [hrf'.2.2.2]; exact Nat.le_refl _⟩
    rcases hph with hA | ⟨t, a, b, c, d⟩
    · exact Or.inr ⟨now, hpos, by omega, t3, hfresh⟩
    · exfalso
      have := d.no_retry a now (by omega)
      unfold takesReconnect at htr
      rw [this] at htr
      simp at htr
  · rw [if_neg (fun hm => htr (hmem.1 hm))] at t3
    have hfalse : takesReconnect now l = false := by simpa using htr
    rw [hfalse] at hrf'
    simp only [Bool.false_eq_true, if_false] at hrf'
    rw [t3]
    rcases hph with hA | ⟨t, a, b, c, d⟩
    · exact Or.inl hA
    · exact Or.inr ⟨t, a, b, c, d.of_rf hrf'⟩

/-- Events that touch neither the manager nor the links, and add no failure for `cid`. -/
theorem att_frame {i cid D : Nat} {s s' : Sys F} (h : Att i cid D s) (hreg : s'.reg = s.reg)
    (hlinks : s'.links = s.links) (hfn : s'.failNext.contains cid = false)
    (hfb : s'.failBind.contains cid = false) : Att i cid D s' :=
  h.keep (by rw [hreg]; exact h.pending) (by rw [hreg]) hfn hfb
    (fun l hl => ⟨l, by rw [hlinks]; exact hl, rfl, fun _ hf => hf⟩)

/-- **One event.**  The invariant of the attempt survives every shell event after which uplink `i` is
still pending, provided the event injects neither a send failure nor a socket re-creation failure for
the pending link and a tick's clock is positive; a tick that leaves the attempt pending came before its deadline. -/
theorem att_step {i cid D : Nat} {s : Sys F} (h : Att i cid D s) (hok : RegOk s.reg) (e : Ev)
    (hstay : (step s e).1.reg.pending = some i) (hne : e ≠ .failNext cid) (hna : ∀ k, e ≠ .failAfter cid k)
    (hnb : e ≠ .failBind cid)
    (hpos : ∀ now, e = .hk now → 0 < now) (hnr : e.isReload = false) :
    Att i cid D (step s e).1 ∧ (∀ now, e = .hk now → now < s.reg.pendingTimeoutAt) := by
  cases e with
  | reload now addrs outs => cases hnr
  | client now pkt => exact ⟨att_client h now pkt, fun _ he => by cases he⟩
  | uplink now c data => exact ⟨att_uplink h now c data hstay, fun _ he => by cases he⟩
  | flush now => exact ⟨att_flush h now, fun _ he => by cases he⟩
  | hk now =>
    obtain ⟨a, b⟩ := att_hk h hok now (hpos now rfl) hstay
    exact ⟨a, fun t he => by cases he; exact b⟩
  | setCfg cfg => exact ⟨att_frame h rfl rfl h.nofail h.nobind, fun _ he => by cases he⟩
  | crit d => exact ⟨att_frame h rfl rfl h.nofail h.nobind, fun _ he => by cases he⟩
  | failNext c =>
    refine ⟨att_frame h rfl rfl ?_ h.nobind, fun _ he => by cases he⟩
    show (c :: s.failNext).contains cid = false
    have hc : c ≠ cid := fun hc => hne (by rw [hc])
    have := h.nofail
    simp only [List.contains_eq_mem, List.mem_cons, decide_eq_false_iff_not] at this ⊢
    rintro (h1 | h1)
    · exact hc h1.symm
    · exact this h1
  | failAfter c kfa =>
    refine ⟨att_frame h rfl rfl ?_ h.nobind, fun _ he => by cases he⟩
    show (c :: s.failNext).contains cid = false
    have hc : c ≠ cid := fun hc => hna kfa (by rw [hc])
    have := h.nofail
    simp only [List.contains_eq_mem, List.mem_cons, decide_eq_false_iff_not] at this ⊢
    rintro (h1 | h1)
    · exact hc h1.symm
    · exact this h1
  | failBind c =>
    refine ⟨att_frame h rfl rfl h.nofail ?_, fun _ he => by cases he⟩
    show (c :: s.failBind).contains cid = false
    have hc : c ≠ cid := fun hc => hnb (by rw [hc])
    have := h.nobind
    simp only [List.contains_eq_mem, List.mem_cons, decide_eq_false_iff_not] at this ⊢
    rintro (h1 | h1)
    · exact hc h1.symm
    · exact this h1
  | stamp idx weak ld ccb cct =>
    refine ⟨h.keep h.pending rfl h.nofail h.nobind (fun l hl => ?_), fun _ he => by cases he⟩
    have hg : (step s (.stamp idx weak ld ccb cct)).1.links[i]? =
        some (if i = idx then { l with weak := weak, lossDegraded := ld, ccBackingOff := ccb, ccTarget := cct }
          else l) := by
      show (stampLink s.links idx weak ld ccb cct)[i]? = _
      rw [Uplink.stampLink_getElem?, hl]; rfl
    refine ⟨_, hg, ?_, fun t hf => ?_⟩
    · split <;> rfl
    · split
      · exact FreshAt.of_rf (l := l) (show rf _ = rf l from rfl) hf
      · exact hf
  | syncTimeout =>
    refine ⟨h.keep h.pending rfl h.nofail h.nobind (fun l hl => ?_), fun _ he => by cases he⟩
    refine ⟨{ l with connTimeoutMs := s.cfg.connTimeoutMs }, ?_, rfl, fun t hf => ?_⟩
    · show (s.links.map fun l => ({ l with connTimeoutMs := s.cfg.connTimeoutMs } : FLink F))[i]? = _
      rw [List.getElem?_map, hl]; rfl
    · exact FreshAt.of_rf (l := l) (show rf _ = rf l from rfl) hf

/-- **Run form.**  Start observing in any reachable state in which uplink `i` is pending with deadline
`D` (e.g. right after the first REG1 of the attempt at `t0`: `D = t0 + 4000`).  Along every
continuation in which the attempt stays pending, no send failure (plain or partial) and no socket re-creation failure is
injected for the pending link (a failed re-creation of a never-established link is retried after
1000 ms and re-sends REG1 each time, renewing the wait) and tick clocks are positive: the deadline is renewed at most once and stays below `D + 4000`; and every
housekeeping tick that left the attempt pending had `now < D + 3999`. -/
theorem abandon_bound {s0 : Sys F} (h0 : Startup s0) (i D : Nat) (l : FLink F) :
    ∀ (evs2 evs1 : List Ev), NoReload evs1 → NoReload evs2 →
      (runS s0 evs1).reg.pending = some i → (runS s0 evs1).reg.pendingTimeoutAt = D →
      (runS s0 evs1).links[i]? = some l → (runS s0 evs1).failNext.contains l.core.connId = false →
      (runS s0 evs1).failBind.contains l.core.connId = false →
      Unanswered i (runS s0 evs1) evs2 →
      (∀ e ∈ evs2, e ≠ .failNext l.core.connId ∧ ∀ now, e = .hk now → 0 < now) →
      (∀ e ∈ evs2, ∀ k, e ≠ .failAfter l.core.connId k) →
      (∀ e ∈ evs2, e ≠ .failBind l.core.connId) →
      Att i l.core.connId D (runS s0 (evs1 ++ evs2)) ∧
      ∀ pre now post, evs2 = pre ++ Ev.hk now :: post → now < D + 3999 := by
  have key : ∀ (evs2 evs1 : List Ev), NoReload evs1 → NoReload evs2 → Att i l.core.connId D (runS s0 evs1) →
      Unanswered i (runS s0 evs1) evs2 →
      (∀ e ∈ evs2, e ≠ .failNext l.core.connId ∧ ∀ now, e = .hk now → 0 < now) →
      (∀ e ∈ evs2, ∀ k, e ≠ .failAfter l.core.connId k) →
      (∀ e ∈ evs2, e ≠ .failBind l.core.connId) →
      Att i l.core.connId D (runS s0 (evs1 ++ evs2)) ∧
      ∀ pre now post, evs2 = pre ++ Ev.hk now :: post → now < D + 3999 := by
    intro evs2
    induction evs2 with
    | nil =>
      intro evs1 _ _ hA _ _ _ _
      rw [List.append_nil]
      exact ⟨hA, fun pre now post h => by cases pre <;> cases h⟩
    | cons e es ih =>
      intro evs1 hn1 hn2 hA hun hev heva hevb
      obtain ⟨hstay, hun'⟩ := hun
      obtain ⟨hne, hpos⟩ := hev e (by simp)
      obtain ⟨hA', htick⟩ := att_step hA (regOk_run h0 evs1 hn1) e hstay hne (heva e (by simp)) (hevb e (by simp)) hpos
        hn2.head
      have hrun : runS s0 (evs1 ++ [e]) = (step (runS s0 evs1) e).1 := by rw [runS_append]; rfl
      have hn1' : NoReload (evs1 ++ [e]) := hn1.append (fun x hx => by
        rw [List.mem_singleton] at hx; subst hx; exact hn2.head)
      obtain ⟨r1, r2⟩ := ih (evs1 ++ [e]) hn1' hn2.tail (by rw [hrun]; exact hA') (by rw [hrun]; exact hun')
        (fun e' he' => hev e' (by simp [he'])) (fun e' he' => heva e' (by simp [he']))
        (fun e' he' => hevb e' (by simp [he']))
      rw [List.append_assoc] at r1
      refine ⟨r1, ?_⟩
      intro pre now post hsplit
      cases pre with
      | nil =>
        simp only [List.nil_append, List.cons.injEq] at hsplit
        have := htick now hsplit.1
        have := hA.deadline_lt
        omega
      | cons p ps =>
        simp only [List.cons_append, List.cons.injEq] at hsplit
        exact r2 ps now post hsplit.2
  intro evs2 evs1 hn1 hn2 hp hD hl hnf hnb hun hev heva hevb
  exact key evs2 evs1 hn1 hn2 ⟨hp, hnf, hnb, l, hl, rfl, Or.inl hD⟩ hun hev heva hevb

/-- **One housekeeping tick while uplink `i` is pending** (shell form of `Reg.tick_deadline`): from the
deadline on the tick abandons the attempt; before it the attempt stays on `i` and the deadline is
renewed to `now + 4000` iff link `i` is timed out and allowed to retry at `now` — i.e. iff the tick
re-creates its socket and re-sends REG1 to it. -/
theorem hk_deadline (s : Sys F) (now i : Nat) (hp : s.reg.pending = some i) (hw : s.reg.probing ≠ .waiting)
    (hD : s.reg.pendingTimeoutAt ≠ 0) :
    (s.reg.pendingTimeoutAt ≤ now → (handleHousekeeping s now).1.reg.pending = none) ∧
    (now < s.reg.pendingTimeoutAt →
      (handleHousekeeping s now).1.reg.pending = some i ∧
      (handleHousekeeping s now).1.reg.pendingTimeoutAt =
        (if i ∈ hkRcs s now then now + 4000 else s.reg.pendingTimeoutAt)) ∧
    (i ∈ hkRcs s now ↔ ∃ l, s.links[i]? = some l ∧ l.isTimedOut now = true ∧
      l.shouldAttemptReconnect now = true) := by
  obtain ⟨hst, -, -⟩ := hk_run s now
  have hreg : (Reg.Sys.run (abs s) (Reg.tickEvs now (hkRcs s now))).1.reg = (handleHousekeeping s now).1.reg := by
    rw [hst]; rfl
  obtain ⟨t1, t2⟩ := Reg.tick_deadline (abs s) now (hkRcs s now) i hp hw hD
  rw [hreg] at t1 t2
  refine ⟨t1, t2, ?_⟩
  unfold hkRcs
  rw [hkPre_links_eq s now hw, mem_rcsFrom]
  constructor
  · rintro ⟨j, x, hj, hx, hc⟩
    have : j = i := by omega
    subst this
    unfold takesReconnect at hc
    simp only [Bool.and_eq_true] at hc
    exact ⟨x, hx, hc.1, hc.2⟩
  · rintro ⟨l, hl, h1, h2⟩
    exact ⟨i, l, by omega, hl, by unfold takesReconnect; rw [h1, h2]; rfl⟩

/-- The record the reconnect branch at `t` leaves has fresh reconnection fields. -/
theorem freshAt_reconnectLink (l : FLink F) (t : Nat) : FreshAt t (Hk.reconnectLink l t) := by
  obtain ⟨f1, f2, -, f4, -⟩ := Hk.reconnectLink_fields l t
  exact ⟨f1, f2, fun _ => by rw [f4]; exact Nat.le_refl _⟩

end Srtla.RegShell
