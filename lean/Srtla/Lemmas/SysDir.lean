import Srtla.Lemmas.SysInvAcct
import Srtla.Lemmas.ForwardStep
/-!
# The two-state walk through `Sys.step`: what ONE event does to ONE link (`StepRel` / `LinkRun`)

`Lemmas/SysInv.lean` walks through `Sys.step` once for a per-link PREDICATE (`Closed`, `step_all`).
This file does the same walk once for a per-link RELATION between the record of link `j` before an event
(`l`) and the record at the same index after it (`l'`; the list length is invariant):

* `Op` — the repertoire of per-link operations the shell applies (each a concrete function of
  `Model/Link.lean` / `Model/Conn.lean`, or a fixed composite of them: `Hk.reconnectLink`,
  `Uplink.reg3Link`, `Uplink.kaLink`, `tickLink`);
* `LinkRun now classic A l l'` — `l'` is obtained from `l` by a finite sequence of those operations at clock
  `now`, using only operations `op` with `A op`;
* `evOps s e j` — the operations event `e` may apply to the link at index `j` in state `s`:
  a client datagram only queues / drains / tears down after a failed send / writes back the selection pass /
  counts a probe; a flush only drains; housekeeping only re-arms the grace window, reconnects (or — ONLY for a link
  whose socket re-creation fails in that tick, `hkFailsAt` — records the attempt and marks it for recovery:
  `attemptFail`), stamps
  `last_sent`, sends keepalives, runs `perform_window_recovery` (ONLY if not classic) and the bitrate / phase /
  regime tick; an uplink datagram applies, by its TYPE CODE, the arm of `process_uplink_packet` on the ARRIVAL
  link only (REG_NGP 0x9211: `last_sent`; REG3 0x9202; REG_ERR 0x9210: `mark_for_recovery`; keepalive 0x9000;
  everything else except REG2: `last_received`) and the fan-out on every link (SRT ACK 0x8002: `handle_srt_ack`;
  NAK 0x8003: `handle_nak`; SRTLA ACK 0x9100: `handle_srtla_ack_specific` + the global `+1`); the
  configuration / injection events apply nothing; a verdict `stamp` applies the neutral operation `stamp` (the four
  verdict fields) to the one link it names, `syncTimeout` the neutral operation `syncTimeout` (the timeout copy) to
  every link;
* `step_run` — **the walk**: for every event constructor and every index `j`,
  `LinkRun (evNow e) s.cfg.classic (evOps s e j) l l'`.

Any two-state fact about one event is then an induction over `LinkRun` (one case per operation) — see
`Lemmas/SysDirWin.lean` (window / congestion state, C06) and `Lemmas/SysDirRtt.lean` (RTT tracker, C14).
`StepRel` is the closure-condition form (the analogue of `Closed`) for relations that only need the coarse
`Soft` description of the field stamps.

Everything is scalar-generic (`[Scalar F]`; holds at `Float`).
-/
set_option linter.unusedSectionVars false
set_option linter.unusedVariables false

namespace Srtla.SysDir
open Srtla Srtla.Gen Srtla.Conn Srtla.Select Srtla.Rtt Srtla.Link Srtla.Sys Srtla.SysInv Scalar

variable {F : Type} [Scalar F]
variable {fa : List (Nat × Nat)}

/-! ## 1. The repertoire -/

/-- The per-link operations of the shell. -/
inductive Op where
  | sent | heard | grace | probeDue | queue | take | mark | reconnect | reg3 | kaSend | recover | tick
  | kaEcho | srtAck | sack | gack | nak | select | stamp | syncTimeout
deriving DecidableEq, Repr

/-- The tail of housekeeping's not-timed-out branch: bitrate window roll-over, `update_phase`,
`recompute_batch_regime`. -/
def tickLink (l : FLink F) (now : Nat) : FLink F :=
  (({ l with bitrate := l.bitrate.calculate now } : FLink F).updatePhase now).recomputeBatchRegime

/-- `l'` is `l` after a finite sequence of per-link operations at clock `now` (mode `classic`), each allowed
by `A`. -/
inductive LinkRun (now : Nat) (classic : Bool) (A : Op → Prop) : FLink F → FLink F → Prop
  | refl (l : FLink F) : LinkRun now classic A l l
  /-- `last_sent = Some(now)` (REG1 / REG2 / keepalive put on the socket) -/
  | sent {l a : FLink F} : A .sent → LinkRun now classic A l a → LinkRun now classic A l (Hk.withSent a (some now))
  /-- `last_received = Some(now)` -/
  | heard {l a : FLink F} : A .heard → LinkRun now classic A l a → LinkRun now classic A l (Uplink.stamp a now)
  /-- probing completed: the chosen link's start-up grace window is re-armed -/
  | grace {l a : FLink F} : A .grace → LinkRun now classic A l a →
      LinkRun now classic A l { a with graceDeadline := now + Conn.STARTUP_GRACE_MS }
  /-- `stall_probe_due` (probe counter) -/
  | probeDue {l a : FLink F} : A .probeDue → LinkRun now classic A l a → LinkRun now classic A l a.stallProbeDue.1
  /-- `queue_data_packet` -/
  | queue {l a : FLink F} (pkt : Link.Bytes) (seq : Option Nat) : A .queue → SeqOk seq → LinkRun now classic A l a →
      LinkRun now classic A l (a.queueDataPacket pkt seq now).1
  /-- `take_batch` (registers the drained packets) -/
  | take {l a : FLink F} : A .take → LinkRun now classic A l a → LinkRun now classic A l (a.takeBatch now).1
  /-- `mark_for_recovery` -/
  | mark {l a : FLink F} : A .mark → LinkRun now classic A l a → LinkRun now classic A l a.markForRecovery
  /-- `record_attempt` + `reset_for_reconnect` + `mark_success` + `reset_startup_grace` -/
  | reconnect {l a : FLink F} : A .reconnect → LinkRun now classic A l a → LinkRun now classic A l (Hk.reconnectLink a now)
  /-- `record_attempt` + `mark_for_recovery`: housekeeping's fallback when the socket re-creation of a
  reconnect attempt fails (an operation of the `mark` kind) -/
  | attemptFail {l a : FLink F} : A .mark → LinkRun now classic A l a → LinkRun now classic A l (Hk.failedLink a now)
  /-- REG3: `clear_pre_registration_state`, `connected = true`, `last_received`, first-establishment stamp -/
  | reg3 {l a : FLink F} : A .reg3 → LinkRun now classic A l a → LinkRun now classic A l (Uplink.reg3Link a now)
  /-- `keepalive_packet` (send stamps, arms the RTT probe) -/
  | kaSend {l a : FLink F} : A .kaSend → LinkRun now classic A l a → LinkRun now classic A l (a.keepalivePacket now).1
  /-- `perform_window_recovery` -/
  | recover {l a : FLink F} : A .recover → LinkRun now classic A l a → LinkRun now classic A l (a.performWindowRecovery now)
  /-- bitrate / phase / batch regime -/
  | tick {l a : FLink F} : A .tick → LinkRun now classic A l a → LinkRun now classic A l (tickLink a now)
  /-- the keepalive arm of `process_uplink_packet` (stamp, `handle_keepalive_response`, `record_rtt_probe`) -/
  | kaEcho {l a : FLink F} (data : Codec.Bytes) : A .kaEcho → LinkRun now classic A l a →
      LinkRun now classic A l (Uplink.kaLink a data now)
  /-- `handle_srt_ack` -/
  | srtAck {l a : FLink F} (x : Int) : A .srtAck → LinkRun now classic A l a → LinkRun now classic A l (a.srtAck x now)
  /-- `handle_srtla_ack_specific` -/
  | sack {l a : FLink F} (seq : Int) : A .sack → LinkRun now classic A l a →
      LinkRun now classic A l { a with core := (a.core.srtlaAck seq classic now).1 }
  /-- `handle_srtla_ack_global` -/
  | gack {l a : FLink F} : A .gack → LinkRun now classic A l a → LinkRun now classic A l { a with core := a.core.ackGlobal }
  /-- `handle_nak` -/
  | nak {l a : FLink F} (seq : Int) : A .nak → LinkRun now classic A l a →
      LinkRun now classic A l { a with core := (a.core.nak seq now).1 }
  /-- write-back of a selection pass (guard-private fields, quality cache, timeout copy) -/
  | select {l a : FLink F} (x : SLink F) : A .select → LinkRun now classic A l a → LinkRun now classic A l (a.absorb x)
  /-- the verdict stamps of the event loop (`Ev.stamp`): `weak`, `loss_degraded`, `cc_backing_off`,
  `cc_target_bps` are overwritten, nothing else -/
  | stamp {l a : FLink F} (weak ld ccb : Bool) (cct : Nat) : A .stamp → LinkRun now classic A l a →
      LinkRun now classic A l { a with weak := weak, lossDegraded := ld, ccBackingOff := ccb, ccTarget := cct }
  /-- `sync_conn_timeout` (`Ev.syncTimeout`): the link's copy of the connection timeout is overwritten, nothing
  else -/
  | syncTimeout {l a : FLink F} (T : Nat) : A .syncTimeout → LinkRun now classic A l a →
      LinkRun now classic A l { a with connTimeoutMs := T }

section basics
variable {now : Nat} {classic : Bool} {A B : Op → Prop}

theorem LinkRun.mono {l l' : FLink F} (h : LinkRun now classic A l l') (hab : ∀ op, A op → B op) :
    LinkRun now classic B l l' := by
  induction h with
  | refl => exact .refl _
  | sent ha _ ih => exact .sent (hab _ ha) ih
  | heard ha _ ih => exact .heard (hab _ ha) ih
  | grace ha _ ih => exact .grace (hab _ ha) ih
  | probeDue ha _ ih => exact .probeDue (hab _ ha) ih
  | queue pkt seq ha hs _ ih => exact .queue pkt seq (hab _ ha) hs ih
  | take ha _ ih => exact .take (hab _ ha) ih
  | mark ha _ ih => exact .mark (hab _ ha) ih
  | reconnect ha _ ih => exact .reconnect (hab _ ha) ih
  | attemptFail ha _ ih => exact .attemptFail (hab _ ha) ih
  | reg3 ha _ ih => exact .reg3 (hab _ ha) ih
  | kaSend ha _ ih => exact .kaSend (hab _ ha) ih
  | recover ha _ ih => exact .recover (hab _ ha) ih
  | tick ha _ ih => exact .tick (hab _ ha) ih
  | kaEcho data ha _ ih => exact .kaEcho data (hab _ ha) ih
  | srtAck x ha _ ih => exact .srtAck x (hab _ ha) ih
  | sack seq ha _ ih => exact .sack seq (hab _ ha) ih
  | gack ha _ ih => exact .gack (hab _ ha) ih
  | nak seq ha _ ih => exact .nak seq (hab _ ha) ih
  | select x ha _ ih => exact .select x (hab _ ha) ih
  | stamp w ld ccb cct ha _ ih => exact .stamp w ld ccb cct (hab _ ha) ih
  | syncTimeout T ha _ ih => exact .syncTimeout T (hab _ ha) ih

theorem LinkRun.trans {a b c : FLink F} (h1 : LinkRun now classic A a b) (h2 : LinkRun now classic A b c) :
    LinkRun now classic A a c := by
  induction h2 with
  | refl => exact h1
  | sent ha _ ih => exact .sent ha ih
  | heard ha _ ih => exact .heard ha ih
  | grace ha _ ih => exact .grace ha ih
  | probeDue ha _ ih => exact .probeDue ha ih
  | queue pkt seq ha hs _ ih => exact .queue pkt seq ha hs ih
  | take ha _ ih => exact .take ha ih
  | mark ha _ ih => exact .mark ha ih
  | reconnect ha _ ih => exact .reconnect ha ih
  | attemptFail ha _ ih => exact .attemptFail ha ih
  | reg3 ha _ ih => exact .reg3 ha ih
  | kaSend ha _ ih => exact .kaSend ha ih
  | recover ha _ ih => exact .recover ha ih
  | tick ha _ ih => exact .tick ha ih
  | kaEcho data ha _ ih => exact .kaEcho data ha ih
  | srtAck x ha _ ih => exact .srtAck x ha ih
  | sack seq ha _ ih => exact .sack seq ha ih
  | gack ha _ ih => exact .gack ha ih
  | nak seq ha _ ih => exact .nak seq ha ih
  | select x ha _ ih => exact .select x ha ih
  | stamp w ld ccb cct ha _ ih => exact .stamp w ld ccb cct ha ih
  | syncTimeout T ha _ ih => exact .syncTimeout T ha ih

/-- No operation allowed: nothing happened. -/
theorem LinkRun.eq_of_none {l l' : FLink F} (h : LinkRun now classic A l l') (hA : ∀ op, ¬ A op) : l' = l := by
  cases h with
  | refl => rfl
  | sent ha _ => exact absurd ha (hA _)
  | heard ha _ => exact absurd ha (hA _)
  | grace ha _ => exact absurd ha (hA _)
  | probeDue ha _ => exact absurd ha (hA _)
  | queue pkt seq ha hs _ => exact absurd ha (hA _)
  | take ha _ => exact absurd ha (hA _)
  | mark ha _ => exact absurd ha (hA _)
  | reconnect ha _ => exact absurd ha (hA _)
  | attemptFail ha _ => exact absurd ha (hA _)
  | reg3 ha _ => exact absurd ha (hA _)
  | kaSend ha _ => exact absurd ha (hA _)
  | recover ha _ => exact absurd ha (hA _)
  | tick ha _ => exact absurd ha (hA _)
  | kaEcho data ha _ => exact absurd ha (hA _)
  | srtAck x ha _ => exact absurd ha (hA _)
  | sack seq ha _ => exact absurd ha (hA _)
  | gack ha _ => exact absurd ha (hA _)
  | nak seq ha _ => exact absurd ha (hA _)
  | select x ha _ => exact absurd ha (hA _)
  | stamp w ld ccb cct ha _ => exact absurd ha (hA _)
  | syncTimeout T ha _ => exact absurd ha (hA _)

end basics

/-! ## 2. The closure-condition form (`StepRel`), for relations that only need `Soft` for the stamps -/

/-- What a two-state relation `R old new` has to satisfy to hold between the records of a link before
and after every sequence of `A`-operations at clock `now`: reflexive, and closed on the right under
each operation (`Soft` covers all field stamps). -/
structure StepRel (now : Nat) (classic : Bool) (A : Op → Prop) (R : FLink F → FLink F → Prop) : Prop where
  refl : ∀ l, R l l
  soft : ∀ l a b, Soft now a b → R l a → R l b
  queue : A .queue → ∀ l a pkt seq, SeqOk seq → R l a → R l (a.queueDataPacket pkt seq now).1
  take : A .take → ∀ l a, R l a → R l (a.takeBatch now).1
  mark : A .mark → ∀ l a, R l a → R l a.markForRecovery
  reconnect : A .reconnect → ∀ l a, R l a → R l (a.resetForReconnect now)
  reg3 : A .reg3 → ∀ l a, R l a → R l (a.clearPreRegistration now)
  recover : A .recover → ∀ l a, R l a → R l (a.performWindowRecovery now)
  srtAck : A .srtAck → ∀ l a x, R l a → R l (a.srtAck x now)
  sack : A .sack → ∀ l a seq, R l a → R l { a with core := (a.core.srtlaAck seq classic now).1 }
  gack : A .gack → ∀ l a, R l a → R l { a with core := a.core.ackGlobal }
  nak : A .nak → ∀ l a seq, R l a → R l { a with core := (a.core.nak seq now).1 }
  select : A .select → ∀ l a (x : SLink F), R l a → R l (a.absorb x)

theorem soft_tickLink (now : Nat) (l : FLink F) : ∃ m, Soft now l m ∧ Soft now m (tickLink l now) := by
  refine ⟨({ l with bitrate := l.bitrate.calculate now } : FLink F).updatePhase now, ?_, ?_⟩
  · have h1 := soft_bitrate now l
    have h2 := soft_updatePhase now ({ l with bitrate := l.bitrate.calculate now } : FLink F)
    exact
      { connId := h2.connId.trans h1.connId, log := h2.log.trans h1.log, hi := h2.hi.trans h1.hi,
        inFlight := h2.inFlight.trans h1.inFlight, window := h2.window.trans h1.window,
        cong := h2.cong.trans h1.cong, rttMeas := h2.rttMeas.trans h1.rttMeas, queue := h2.queue.trans h1.queue,
        flush := h2.flush.trans h1.flush, qualMult := h2.qualMult.trans h1.qualMult,
        qualAt := h2.qualAt.trans h1.qualAt, latched := h2.latched.trans h1.latched,
        recovery := h2.recovery.trans h1.recovery, pullMark := h2.pullMark.trans h1.pullMark,
        lastSent := by rcases h2.lastSent with e | e; (rcases h1.lastSent with e' | e'; exact .inl (e.trans e'); exact .inr (e.trans e')); exact .inr e,
        lastReceived := by rcases h2.lastReceived with e | e; (rcases h1.lastReceived with e' | e'; exact .inl (e.trans e'); exact .inr (e.trans e')); exact .inr e,
        proofMs := by rcases h2.proofMs with e | e; (rcases h1.proofMs with e' | e'; exact .inl (e.trans e'); exact .inr (e.trans e')); exact .inr e,
        lastKeepaliveSent := by rcases h2.lastKeepaliveSent with e | e; (rcases h1.lastKeepaliveSent with e' | e'; exact .inl (e.trans e'); exact .inr (e.trans e')); exact .inr e,
        kaSentMs := by rcases h2.kaSentMs with e | e; (rcases h1.kaSentMs with e' | e'; exact .inl (e.trans e'); exact .inr (e.trans e')); exact .inr e,
        rttMeasT := by rcases h2.rttMeasT with e | e; (rcases h1.rttMeasT with e' | e'; exact .inl (e.trans e'); exact .inr (e.trans e')); exact .inr e,
        lastAttempt := by rcases h2.lastAttempt with e | e; (rcases h1.lastAttempt with e' | e'; exact .inl (e.trans e'); exact .inr (e.trans e')); exact .inr e,
        established := by rcases h2.established with e | e; (rcases h1.established with e' | e'; exact .inl (e.trans e'); exact .inr (e.trans e')); exact .inr e,
        bitrateT := by rcases h2.bitrateT with e | e; (rcases h1.bitrateT with e' | e'; exact .inl (e.trans e'); exact .inr (e.trans e')); exact .inr e,
        warming := fun p e h => by
          obtain ⟨p', hp'⟩ := h2.warming p e h
          exact h1.warming p' e hp' }
  · exact soft_recomputeBatchRegime now _

/-- **From the closure conditions to every run of operations.** -/
theorem StepRel.of_run {now : Nat} {classic : Bool} {A : Op → Prop} {R : FLink F → FLink F → Prop}
    (hR : StepRel now classic A R) {l l' : FLink F} (h : LinkRun now classic A l l') : R l l' := by
  induction h with
  | refl => exact hR.refl _
  | sent _ _ ih => exact hR.soft _ _ _ (soft_lastSent now _) ih
  | heard _ _ ih => exact hR.soft _ _ _ (soft_lastReceived now _) ih
  | grace _ _ ih => exact hR.soft _ _ _ (soft_grace now _ _) ih
  | probeDue _ _ ih => exact hR.soft _ _ _ (soft_stallProbeDue now _) ih
  | queue pkt seq ha hs _ ih => exact hR.queue ha _ _ pkt seq hs ih
  | take ha _ ih => exact hR.take ha _ _ ih
  | mark ha _ ih => exact hR.mark ha _ _ ih
  | reconnect ha _ ih =>
    unfold Hk.reconnectLink
    exact hR.soft _ _ _ (soft_fail_grace now _ _ _)
      (hR.reconnect ha _ _ (hR.soft _ _ _ (soft_recordAttempt now _) ih))
  | attemptFail ha _ ih =>
    unfold Hk.failedLink
    exact hR.mark ha _ _ (hR.soft _ _ _ (soft_recordAttempt now _) ih)
  | reg3 ha _ ih => exact hR.soft _ _ _ (soft_reg3_tail now _) (hR.reg3 ha _ _ ih)
  | kaSend _ _ ih => exact hR.soft _ _ _ (soft_keepalivePacket now _) ih
  | recover ha _ ih => exact hR.recover ha _ _ ih
  | @tick a _ _ ih =>
    obtain ⟨m, h1, h2⟩ := soft_tickLink now a
    exact hR.soft _ _ _ h2 (hR.soft _ _ _ h1 ih)
  | @kaEcho a data _ _ ih =>
    have h1 : R _ (Uplink.stamp a now) := hR.soft _ _ _ (soft_lastReceived now a) ih
    have h2 := hR.soft _ _ _ (soft_handleKeepaliveResponse now (Uplink.stamp a now) data) h1
    unfold Uplink.kaLink
    split
    · exact hR.soft _ _ _ (soft_proofMs now _) (hR.soft _ _ _ (soft_recordRttProbe now _) h2)
    · exact h2
  | srtAck x ha _ ih => exact hR.srtAck ha _ _ x ih
  | sack seq ha _ ih => exact hR.sack ha _ _ seq ih
  | gack ha _ ih => exact hR.gack ha _ _ ih
  | nak seq ha _ ih => exact hR.nak ha _ _ seq ih
  | select x ha _ ih => exact hR.select ha _ _ x ih
  | stamp w ld ccb cct _ _ ih => exact hR.soft _ _ _ (soft_verdicts now w ld ccb cct _) ih
  | syncTimeout T _ _ ih => exact hR.soft _ _ _ (soft_syncOne now T _) ih

/-! ## 3. List plumbing -/

theorem pw_mapIdx {α : Type} {R : α → α → Prop} (ls : List α) (f : Nat → α → α)
    (h : ∀ j a, ls[j]? = some a → R a (f j a)) : Hk.PW R ls (ls.mapIdx f) := by
  induction ls generalizing f with
  | nil => exact .nil
  | cons a rest ih =>
    rw [List.mapIdx_cons]
    exact .cons (h 0 a rfl) (ih _ (fun j d hd => h (j + 1) d (by simpa using hd)))

omit [Scalar F] in
theorem pw_withCores {R : Conn → Conn → Prop} {S : FLink F → FLink F → Prop}
    (hS : ∀ (l : FLink F) c, R l.core c → S l { l with core := c }) (ls : List (FLink F)) (cs : Links)
    (h : Hk.PW R (cores ls) cs) : Hk.PW S ls (withCores ls cs) := by
  unfold withCores cores at *
  induction ls generalizing cs with
  | nil => cases h; exact .nil
  | cons l rest ih =>
    cases h with
    | cons hr h' => exact .cons (hS l _ hr) (ih _ h')

/-! ## 4. The data path (client arm, flush arm) -/

section traverse
variable {now : Nat} {classic : Bool} {A : Op → Prop}

theorem fwdLink_run {l a : FLink F} (h : LinkRun now classic A l a) (hq : A .queue) (ht : A .take) (hm : A .mark)
    (pkt : Link.Bytes) (seq : Option Nat) (fn : List Nat) (hs : SeqOk seq) :
    LinkRun now classic A l (Hk.fwdLink fa a pkt seq now fn).1 := by
  have h1 : LinkRun now classic A l (a.queueDataPacket pkt seq now).1 := .queue pkt seq hq hs h
  unfold Hk.fwdLink
  split
  · dsimp only
    rw [(Hk.sendBatch_cases _ now fn).1]
    split
    · exact .take ht h1
    · exact .mark hm (.take ht h1)
  · exact h1

theorem forwardVia_pw (hq : A .queue) (ht : A .take) (hm : A .mark) (s : Sys F) (sel : Nat) (pkt : Sys.Bytes)
    (seq : Option Nat) (hs : SeqOk seq) :
    Hk.PW (LinkRun now classic A) s.links (forwardVia s sel pkt seq now).1.links := by
  cases hl : s.links[sel]? with
  | none => rw [Hk.forwardVia_none s sel pkt seq now hl]; exact Hk.PW.refl LinkRun.refl _
  | some l =>
    rw [(Hk.forwardVia_eq s sel pkt seq now l hl).1]
    exact Hk.pw_setAt LinkRun.refl _ _ l _ hl (fwdLink_run (.refl l) hq ht hm pkt seq _ hs)

theorem probeLink_run {l a : FLink F} (h : LinkRun now classic A l a) (hq : A .queue) (ht : A .take) (hm : A .mark)
    (hp : A .probeDue) (pkt : Link.Bytes) (seq : Option Nat) (fn : List Nat) (hs : SeqOk seq) :
    LinkRun now classic A l (Hk.probeLink fa a pkt seq now fn).1 := by
  have h1 : LinkRun now classic A l a.stallProbeDue.1 := .probeDue hp h
  unfold Hk.probeLink
  split
  · exact h1
  · exact fwdLink_run h1 hq ht hm pkt seq fn hs

theorem stallProbesGo_pw (hq : A .queue) (ht : A .take) (hm : A .mark) (hp : A .probeDue) (pkt : Sys.Bytes)
    (seq : Option Nat) (sel : Nat) (hs : SeqOk seq) (ls : List (FLink F)) (i : Nat) (fn : List Nat) :
    Hk.PW (LinkRun now classic A) ls (stallProbesGo fa pkt seq now sel ls i fn).1 := by
  induction ls generalizing i fn with
  | nil => simp only [stallProbesGo]; exact .nil
  | cons l rest ih =>
    rw [Hk.stallProbesGo_cons]
    split
    · exact .cons (.refl l) (ih _ _)
    · exact .cons (probeLink_run (.refl l) hq ht hm hp pkt seq fn hs) (ih _ _)

theorem flushGo_pw (ht : A .take) (ls : List (FLink F)) (fn : List Nat) :
    Hk.PW (LinkRun now classic A) ls (flushGo fa now ls fn).1 := by
  induction ls generalizing fn with
  | nil => simp only [flushGo]; exact .nil
  | cons l rest ih =>
    rw [flushGo]
    split
    · dsimp only
      refine .cons ?_ (ih _)
      rw [(Hk.sendBatch_cases l now fn).1]
      exact .take ht (.refl l)
    · exact .cons (.refl l) (ih _)

theorem flush_pw (ht : A .take) (s : Sys F) :
    Hk.PW (LinkRun now classic A) s.links (flushAllBatches s now).1.links := by
  unfold flushAllBatches
  split
  · exact Hk.PW.refl LinkRun.refl _
  · exact flushGo_pw ht _ _

theorem runSelect_pw (hsel : A .select) (s : Sys F) :
    Hk.PW (LinkRun now classic A) s.links (runSelect s now).1.links := by
  obtain ⟨g, h1, -, -, -⟩ := Hk.runSelect_links s now
  rw [h1]
  exact Hk.PW.map _ _ (fun l => .select _ hsel (.refl l))

theorem pw_trans {as bs cs : List (FLink F)} (h1 : Hk.PW (LinkRun now classic A) as bs)
    (h2 : Hk.PW (LinkRun now classic A) bs cs) : Hk.PW (LinkRun now classic A) as cs :=
  Hk.PW.trans (R := LinkRun now classic A) (fun _ _ _ h h' => h.trans h') h1 h2

/-- The operations of a client datagram. -/
def clientOps : Op → Prop := fun op => op = .queue ∨ op = .take ∨ op = .mark ∨ op = .select ∨ op = .probeDue

theorem client_pw (s : Sys F) (pkt : Sys.Bytes) :
    Hk.PW (LinkRun now classic clientOps) s.links (handleSrtPacket s pkt now).1.links := by
  have hq : clientOps .queue := .inl rfl
  have ht : clientOps .take := .inr (.inl rfl)
  have hm : clientOps .mark := .inr (.inr (.inl rfl))
  have hsl : clientOps .select := .inr (.inr (.inr (.inl rfl)))
  have hp : clientOps .probeDue := .inr (.inr (.inr (.inr rfl)))
  have hs := seqOk_packet pkt
  cases hne : pkt.isEmpty with
  | true => unfold handleSrtPacket; rw [if_pos hne]; exact Hk.PW.refl LinkRun.refl _
  | false =>
    cases hreg : s.reg.hasConnected with
    | false =>
      rw [Hk.handleSrtPacket_pre s pkt now hne hreg]
      split
      · exact forwardVia_pw hq ht hm s _ pkt _ hs
      · exact Hk.PW.refl LinkRun.refl _
    | true =>
      have h1 : Hk.PW (LinkRun now classic clientOps) s.links (runSelect s now).1.links := runSelect_pw hsl s
      cases hsel : Hk.clientSel s pkt now with
      | none => rw [Hk.handleSrtPacket_none s pkt now hne hreg hsel]; exact h1
      | some i =>
        rw [Hk.handleSrtPacket_some s pkt now i hne hreg hsel]
        have h2 := pw_trans h1 (forwardVia_pw (now := now) (classic := classic) hq ht hm (runSelect s now).1 i pkt _ hs)
        unfold Hk.clientFwd
        dsimp only
        split
        · exact pw_trans h2 (stallProbesGo_pw hq ht hm hp pkt _ i hs _ 0 _)
        · exact h2

/-! ## 5. The uplink arm -/

/-- Closure of a core under the fan-out handlers allowed by `A`. -/
inductive CoreRun (now : Nat) (classic : Bool) (A : Op → Prop) : Conn → Conn → Prop
  | refl (c : Conn) : CoreRun now classic A c c
  | sack {c c' : Conn} (seq : Int) : A .sack → CoreRun now classic A c c' → CoreRun now classic A c (c'.srtlaAck seq classic now).1
  | gack {c c' : Conn} : A .gack → CoreRun now classic A c c' → CoreRun now classic A c c'.ackGlobal
  | nak {c c' : Conn} (seq : Int) : A .nak → CoreRun now classic A c c' → CoreRun now classic A c (c'.nak seq now).1

theorem CoreRun.trans {a b c : Conn} (h1 : CoreRun now classic A a b) (h2 : CoreRun now classic A b c) :
    CoreRun now classic A a c := by
  induction h2 with
  | refl => exact h1
  | sack seq ha _ ih => exact .sack seq ha ih
  | gack ha _ ih => exact .gack ha ih
  | nak seq ha _ ih => exact .nak seq ha ih

theorem coreRun_link {l a : FLink F} {c' : Conn} (h : LinkRun now classic A l a) (hr : CoreRun now classic A a.core c') :
    LinkRun now classic A l { a with core := c' } := by
  induction hr with
  | refl => exact h
  | sack seq ha _ ih => exact .sack seq ha ih
  | gack ha _ ih => exact .gack ha ih
  | nak seq ha _ ih => exact .nak seq ha ih

theorem pwc_trans {as bs cs : Links} (h1 : Hk.PW (CoreRun now classic A) as bs) (h2 : Hk.PW (CoreRun now classic A) bs cs) :
    Hk.PW (CoreRun now classic A) as cs :=
  Hk.PW.trans (R := CoreRun now classic A) (fun _ _ _ h h' => h.trans h') h1 h2

theorem pw_srtlaAckOthers (hs : A .sack) (cs : Links) (j skip : Nat) (seq : Int) :
    Hk.PW (CoreRun now classic A) cs (srtlaAckOthers cs j skip seq classic now) := by
  induction cs generalizing j with
  | nil => exact .nil
  | cons c rest ih =>
    unfold srtlaAckOthers
    split
    · exact .cons (.refl c) (ih (j + 1))
    · dsimp only
      split
      · exact .cons (.sack seq hs (.refl c)) (Hk.PW.refl CoreRun.refl rest)
      · exact .cons (.refl c) (ih (j + 1))

theorem pw_evSrtlaAck (hs : A .sack) (hg : A .gack) (cs : Links) (idx : Nat) (seq : Int) :
    Hk.PW (CoreRun now classic A) cs (evSrtlaAck cs idx seq classic now) := by
  have hgl : ∀ xs : Links, Hk.PW (CoreRun now classic A) xs (xs.map Conn.ackGlobal) := fun xs =>
    Hk.PW.map (R := CoreRun now classic A) Conn.ackGlobal xs fun c => .gack hg (.refl c)
  have h1 : Hk.PW (CoreRun now classic A) cs
      (match cs[idx]? with
       | none => cs
       | some c =>
         let (c', found) := c.srtlaAck seq classic now
         if found then updateAt cs idx (fun _ => c') else srtlaAckOthers cs 0 idx seq classic now) := by
    split
    · exact Hk.PW.refl CoreRun.refl cs
    · rename_i c hc
      dsimp only
      split
      · unfold updateAt
        refine pw_mapIdx cs _ ?_
        intro j d hd
        split
        · rename_i hj
          subst hj
          rw [hc] at hd
          cases hd
          exact .sack seq hs (.refl c)
        · exact .refl d
      · exact pw_srtlaAckOthers hs cs 0 idx seq
  exact pwc_trans h1 (hgl _)

theorem pw_nakScan (hn : A .nak) (cs : Links) (seq : Int) :
    Hk.PW (CoreRun now classic A) cs (nakScan cs seq now).1 := by
  induction cs with
  | nil => exact .nil
  | cons c rest ih =>
    unfold nakScan
    dsimp only
    split
    · exact .cons (.nak seq hn (.refl c)) (Hk.PW.refl CoreRun.refl rest)
    · exact .cons (.refl c) ih

theorem pw_attributeNak (hn : A .nak) (cs : Links) (trk : Tracker) (nak : Nat) :
    Hk.PW (CoreRun now classic A) cs (attributeNak cs trk nak now).1 := by
  unfold attributeNak
  dsimp only
  split
  · split
    · split
      · rename_i c hc
        split
        · unfold updateAt
          refine pw_mapIdx cs _ ?_
          intro j d hd
          split
          · rename_i hj
            subst hj
            rw [hc] at hd
            cases hd
            exact .nak _ hn (.refl c)
          · exact .refl d
        · exact Hk.PW.refl CoreRun.refl cs
      · exact Hk.PW.refl CoreRun.refl cs
    · exact pw_nakScan hn cs _
  · exact pw_nakScan hn cs _

/-- `process_connection_events`: only the handlers whose list in `inc` is non-empty are applied. -/
theorem pCE_pw (s : Sys F) (idx : Nat) (inc : Incoming)
    (ha : inc.acks ≠ [] → A .srtAck) (hs : inc.sacks ≠ [] → A .sack ∧ A .gack) (hn : inc.naks ≠ [] → A .nak) :
    Hk.PW (LinkRun now s.cfg.classic A) s.links (processConnectionEvents s idx inc now).1.links := by
  unfold processConnectionEvents
  dsimp only
  have h1 : Hk.PW (LinkRun now s.cfg.classic A) s.links
      (inc.acks.foldl (fun ls a => ls.map fun l => l.srtAck (toI32 a) now) s.links) := by
    cases hacks : inc.acks with
    | nil => exact Hk.PW.refl LinkRun.refl _
    | cons a as =>
      have hA := ha (by rw [hacks]; simp)
      exact Hk.pw_foldl (R := LinkRun now s.cfg.classic A) LinkRun.refl (fun _ _ _ h h' => h.trans h') _
        (fun xs b => Hk.PW.map _ xs (fun l => .srtAck _ hA (.refl l))) s.links (a :: as)
  refine pw_trans h1 (pw_withCores (R := CoreRun now s.cfg.classic A)
    (fun l c hr => coreRun_link (.refl l) hr) _ _ ?_)
  generalize cores (inc.acks.foldl (fun ls a => ls.map fun l => l.srtAck (toI32 a) now) s.links) = cs0
  have h2 : Hk.PW (CoreRun now s.cfg.classic A) cs0
      (inc.sacks.foldl (fun cs a => evSrtlaAck cs idx (toI32 a) s.cfg.classic now) cs0) := by
    cases hsacks : inc.sacks with
    | nil => exact Hk.PW.refl CoreRun.refl _
    | cons a as =>
      obtain ⟨hS, hG⟩ := hs (by rw [hsacks]; simp)
      exact Hk.pw_foldl (R := CoreRun now s.cfg.classic A) CoreRun.refl (fun _ _ _ h h' => h.trans h') _
        (fun xs b => pw_evSrtlaAck hS hG xs idx _) cs0 (a :: as)
  refine pwc_trans h2 ?_
  cases hnaks : inc.naks with
  | nil => exact Hk.PW.refl CoreRun.refl _
  | cons a as =>
    have hN := hn (by rw [hnaks]; simp)
    exact Hk.pw_foldl (R := CoreRun now s.cfg.classic A) CoreRun.refl (fun _ _ _ h h' => h.trans h') _
      (fun xs b => pw_attributeNak hN xs s.trk b) _ (a :: as)

end traverse

/-- The fan-out operations of an uplink datagram of type `pt` (every link). -/
def fanOps (pt : Nat) : Op → Prop := fun op =>
  (pt = 0x8002 ∧ op = .srtAck) ∨ (pt = 0x8003 ∧ op = .nak) ∨ (pt = 0x9100 ∧ (op = .sack ∨ op = .gack))

/-- The arm of `process_uplink_packet` an uplink datagram of type `pt` runs on the link it arrived on. -/
def arrOps (pt : Nat) : Op → Prop := fun op =>
  (pt = 0x9211 ∧ op = .sent) ∨ (pt = 0x9202 ∧ op = .reg3) ∨ (pt = 0x9210 ∧ op = .mark) ∨
  (pt = 0x9000 ∧ op = .kaEcho) ∨
  (pt ≠ 0x9211 ∧ pt ≠ 0x9201 ∧ pt ≠ 0x9202 ∧ pt ≠ 0x9210 ∧ pt ≠ 0x9000 ∧ op = .heard)

/-- The operations of an uplink datagram of type `pt` on a link (`arrival`: it is the arrival link). -/
def upOps (pt : Nat) (arrival : Bool) : Op → Prop := fun op => fanOps pt op ∨ (arrival = true ∧ arrOps pt op)

/-- The arrival link through its arm. -/
theorem arrival_run (l : FLink F) (idx : Nat) (reg : Reg.Reg) (ck : Bool) (data : Codec.Bytes) (now pt : Nat)
    (classic : Bool) (hpt : Codec.getPacketTypeS data = some pt) :
    LinkRun now classic (arrOps pt) l (Uplink.arrival l idx reg ck data now) := by
  rcases Uplink.arrival_cases l idx reg ck data now pt hpt with
    ⟨hp, h | h⟩ | ⟨hp, h⟩ | ⟨hp, h⟩ | ⟨hp, h⟩ | ⟨hp, h⟩ | ⟨h1, h2, h3, h4, h5, h⟩
  · rw [h]; exact .refl l
  · rw [h]; exact .sent (.inl ⟨hp, rfl⟩) (.refl l)
  · rw [h]; exact .refl l
  · rw [h]; exact .reg3 (.inr (.inl ⟨hp, rfl⟩)) (.refl l)
  · rw [h]; exact .mark (.inr (.inr (.inl ⟨hp, rfl⟩))) (.refl l)
  · rw [h]; exact .kaEcho data (.inr (.inr (.inr (.inl ⟨hp, rfl⟩)))) (.refl l)
  · rw [h]; exact .heard (.inr (.inr (.inr (.inr ⟨h1, h2, h3, h4, h5, rfl⟩)))) (.refl l)

/-- **Uplink event, link by link, by type code.** -/
theorem uplink_run (s : Sys F) (cid : Nat) (data : Codec.Bytes) (now : Nat) :
    (handleUplinkPacket s cid data now).1.links.length = s.links.length ∧
    ∀ (j : Nat) (l : FLink F), s.links[j]? = some l →
      ∃ l', (handleUplinkPacket s cid data now).1.links[j]? = some l' ∧
        LinkRun now s.cfg.classic
          (fun op => ∃ pt, Codec.getPacketTypeS data = some pt ∧
            upOps pt (s.links.findIdx? (·.core.connId == cid) == some j) op) l l' := by
  refine ⟨Uplink.handleUplinkPacket_length s cid data now, ?_⟩
  intro j l hl
  by_cases hlen : data.length < 2
  · rw [(Uplink.short_datagram s cid data now hlen).1]
    exact ⟨l, hl, .refl l⟩
  cases hf : s.links.findIdx? (·.core.connId == cid) with
  | none =>
    rw [Uplink.unknown_link s cid data now hf]
    exact ⟨l, hl, .refl l⟩
  | some idx =>
    obtain ⟨pt, hpt⟩ := Uplink.type_of_len data (by omega)
    obtain ⟨l0, hl0, -⟩ := Uplink.findIdx_get s.links cid idx hf
    have hne : data ≠ [] := by intro h; subst h; simp at hlen
    rw [Uplink.handleUplinkPacket_eq s cid data now idx l0 hne hf hl0]
    dsimp only
    obtain ⟨-, -, hsacks, hacks, hnaks, -⟩ := Uplink.incoming_spec l0 idx s.reg s.clientKnown data now pt hpt
    have hfan := pCE_pw (now := now) (A := fanOps pt)
      ({ s with links := setAt s.links idx (Uplink.arrival l0 idx s.reg s.clientKnown data now),
                reg := (Uplink.pupSpec l0 idx s.reg s.clientKnown data now).2.1 } : Sys F)
      idx (Uplink.pupSpec l0 idx s.reg s.clientKnown data now).2.2
      (fun h => by
        rw [hacks] at h
        by_cases hp : pt = 0x8002
        · exact .inl ⟨hp, rfl⟩
        · rw [if_neg hp] at h; exact absurd rfl h)
      (fun h => by
        rw [hsacks] at h
        by_cases hp : pt = 0x9100
        · exact ⟨.inr (.inr ⟨hp, .inl rfl⟩), .inr (.inr ⟨hp, .inr rfl⟩)⟩
        · rw [if_neg hp] at h; exact absurd rfl h)
      (fun h => by
        rw [hnaks] at h
        by_cases hp : pt = 0x8003
        · exact .inr (.inl ⟨hp, rfl⟩)
        · rw [if_neg hp] at h; exact absurd rfl h)
    have hj : (setAt s.links idx (Uplink.arrival l0 idx s.reg s.clientKnown data now))[j]? =
        some (if j = idx then Uplink.arrival l0 idx s.reg s.clientKnown data now else l) := by
      rw [Uplink.getElem?_setAt, hl]
      split <;> rfl
    obtain ⟨l', hl', hrun⟩ := hfan.get j _ hj
    refine ⟨l', hl', ?_⟩
    have hrun' : LinkRun now s.cfg.classic (fun op => ∃ pt, Codec.getPacketTypeS data = some pt ∧
        upOps pt (some idx == some j) op) (if j = idx then Uplink.arrival l0 idx s.reg s.clientKnown data now else l) l' :=
      hrun.mono (fun op h => ⟨pt, hpt, .inl h⟩)
    by_cases hji : j = idx
    · subst hji
      rw [hl] at hl0; cases hl0
      simp only [if_true] at hrun'
      refine LinkRun.trans ?_ hrun'
      exact (arrival_run l j s.reg s.clientKnown data now pt s.cfg.classic hpt).mono
        (fun op h => ⟨pt, hpt, .inr ⟨by simp, h⟩⟩)
    · simp only [hji, if_false] at hrun'
      exact hrun'

/-! ## 6. The housekeeping arm -/

/-- The operations of a housekeeping tick in mode `classic`: time-based recovery only if NOT classic.
(`mark` — the fallback of a failed socket re-creation — is not among them: see `hkOpsAt`.) -/
def hkOps (classic : Bool) : Op → Prop := fun op =>
  op = .grace ∨ op = .reconnect ∨ op = .sent ∨ op = .kaSend ∨ op = .tick ∨ (op = .recover ∧ classic = false)

/-- The socket re-creation of link `j`'s reconnect attempt FAILS in the tick at `now`: the link — as the
per-link loop sees it, i.e. after the possible grace re-arm of the link probing chose — is timed out and due
for an attempt, and a failure is injected for its conn id when the loop reaches it (`Hk.hkFails`; it implies
`l.core.connId ∈ s.failBind`). -/
def hkFailsAt (s : Sys F) (now j : Nat) : Prop :=
  ∃ l, s.links[j]? = some l ∧
    (Hk.graceFix (Hk.hkGraceIdx s now) now j l).isTimedOut now = true ∧
    (Hk.graceFix (Hk.hkGraceIdx s now) now j l).shouldAttemptReconnect now = true ∧
    Hk.hkFails s now j l.core.connId = true

/-- The operations the tick at `now` may apply to the link at index `j`: those of `hkOps`, and — only if the
socket re-creation of that link's reconnect attempt fails in this tick — `mark` (`LinkRun.attemptFail`:
`record_attempt`, then `mark_for_recovery`). -/
def hkOpsAt (s : Sys F) (now j : Nat) : Op → Prop := fun op =>
  hkOps s.cfg.classic op ∨ (op = .mark ∧ hkFailsAt s now j)

theorem hkFailsAt_mem {s : Sys F} {now j : Nat} (h : hkFailsAt s now j) :
    ∃ l, s.links[j]? = some l ∧ l.core.connId ∈ s.failBind := by
  obtain ⟨l, hl, -, -, hf⟩ := h
  exact ⟨l, hl, Hk.hkFails_mem s now j _ hf⟩

/-- When the re-creation fails, the tick leaves the failed-attempt record (`record_attempt`, then
`mark_for_recovery`), up to the `last_sent` stamp of the re-sent REG1 / REG2. -/
theorem hkFailsAt_link {s : Sys F} {now j : Nat} (h : hkFailsAt s now j) :
    ∃ l t, s.links[j]? = some l ∧ l.core.connId ∈ s.failBind ∧
      (handleHousekeeping s now).1.links[j]? = some (Hk.withSent (Hk.failedLink l now) t) := by
  obtain ⟨l, hl, hto, hsa, hf⟩ := h
  obtain ⟨τ, hτ⟩ := Hk.hk_links s now
  have hfl : Hk.attemptLink true (Hk.graceFix (Hk.hkGraceIdx s now) now j l) now = Hk.failedLink l now := by
    rcases Hk.graceFix_cases (Hk.hkGraceIdx s now) now j l with e | ⟨-, e⟩ <;> rw [e]
    · rfl
    · exact Hk.failedLink_grace l _ now
  have key : ∃ t, (handleHousekeeping s now).1.links[j]? = some (Hk.withSent (Hk.failedLink l now) t) := by
    rw [hτ, List.getElem?_mapIdx, hl]
    simp only [Option.map_some, hf]
    unfold Hk.hkLink
    rw [if_pos hto, if_pos hsa, hfl]
    split
    · split
      · exact ⟨_, rfl⟩
      · exact ⟨_, rfl⟩
    · exact ⟨_, rfl⟩
  obtain ⟨t, ht⟩ := key
  exact ⟨l, t, hl, Hk.hkFails_mem s now j _ hf, ht⟩

section hk
variable {now : Nat} {classic : Bool} {A : Op → Prop}

theorem aliveLink_run (hA : ∀ op, hkOps classic op → A op) {l a : FLink F} (h : LinkRun now classic A l a) :
    LinkRun now classic A l (Hk.aliveLink classic now a) := by
  have hks : A .kaSend := hA _ (.inr (.inr (.inr (.inl rfl))))
  have htk : A .tick := hA _ (.inr (.inr (.inr (.inr (.inl rfl)))))
  unfold Hk.aliveLink
  dsimp only
  have h1 : LinkRun now classic A l (if a.needsKeepalive now then (a.keepalivePacket now).1 else a) := by
    split
    · exact .kaSend hks h
    · exact h
  generalize (if a.needsKeepalive now then (a.keepalivePacket now).1 else a) = l1 at h1 ⊢
  have h2 : LinkRun now classic A l (if l1.needsRttMeasurement now then (l1.keepalivePacket now).1 else l1) := by
    split
    · exact .kaSend hks h1
    · exact h1
  generalize (if l1.needsRttMeasurement now then (l1.keepalivePacket now).1 else l1) = l2 at h2 ⊢
  have h3 : LinkRun now classic A l (if !classic then l2.performWindowRecovery now else l2) := by
    split
    · rename_i hcl
      exact .recover (hA _ (.inr (.inr (.inr (.inr (.inr ⟨rfl, by simpa using hcl⟩)))))) h2
    · exact h2
  generalize (if !classic then l2.performWindowRecovery now else l2) = l3 at h3 ⊢
  exact .tick htk h3

/-- One link of the per-link loop: the operations of `hkOps`, plus `mark` exactly when the link is due for
an attempt whose socket re-creation fails. -/
theorem hkLink_run (hA : ∀ op, hkOps classic op → A op) {l a : FLink F} (pending : Option Nat) (fails : Bool)
    (i : Nat)
    (hm : a.isTimedOut now = true → a.shouldAttemptReconnect now = true → fails = true → A .mark)
    (h : LinkRun now classic A l a) :
    LinkRun now classic A l (Hk.hkLink classic now pending fails i a) := by
  have hrc : A .reconnect := hA _ (.inr (.inl rfl))
  have hst : A .sent := hA _ (.inr (.inr (.inl rfl)))
  unfold Hk.hkLink
  split
  · rename_i hto
    split
    · rename_i hsa
      have hr : LinkRun now classic A l (Hk.attemptLink fails a now) := by
        unfold Hk.attemptLink
        split
        · rename_i hf; exact .attemptFail (hm hto hsa hf) h
        · exact .reconnect hrc h
      have hs : LinkRun now classic A l (Hk.withSent (Hk.attemptLink fails a now) (some now)) := .sent hst hr
      split
      · split
        · exact hs
        · exact hr
      · exact hs
    · exact h
  · exact aliveLink_run hA h

/-- **Housekeeping event, link `j`.** -/
theorem hk_run_at (s : Sys F) (j : Nat) (l : FLink F) (hl : s.links[j]? = some l) :
    ∃ l', (handleHousekeeping s now).1.links[j]? = some l' ∧
      LinkRun now s.cfg.classic (hkOpsAt s now j) l l' := by
  have hA : ∀ op, hkOps s.cfg.classic op → hkOpsAt s now j op := fun op h => .inl h
  have hgr : hkOpsAt s now j .grace := hA _ (.inl rfl)
  have hst : hkOpsAt s now j .sent := hA _ (.inr (.inr (.inl rfl)))
  rw [(Hk.hk_eq s now).1]
  -- stage 1: the grace re-arm of the link probing chose
  have r1 : LinkRun now s.cfg.classic (hkOpsAt s now j) l (Hk.graceFix (Hk.hkGraceIdx s now) now j l) := by
    unfold Hk.graceFix
    split
    · exact .grace hgr (.refl l)
    · exact .refl l
  have g1 : (Hk.hkP1 s now).2[j]? = some (Hk.graceFix (Hk.hkGraceIdx s now) now j l) := by
    rw [Hk.hkP1_links, List.getElem?_mapIdx, hl]; rfl
  -- stage 2: the per-link loop
  have g2 : (Hk.hkP2 s now).1[j]? = some (Hk.hkLink s.cfg.classic now (Hk.hkP1 s now).1.pending
      (Hk.hkFails s now j l.core.connId) j (Hk.graceFix (Hk.hkGraceIdx s now) now j l)) := by
    unfold Hk.hkP2
    rw [(Hk.hkLinksGo_links _ now _ 0 _ _).1, List.getElem?_mapIdx, g1]
    simp only [Option.map_some, Nat.zero_add, Hk.graceFix_connId]
    rfl
  have r2 := hkLink_run (now := now) hA (Hk.hkP1 s now).1.pending (Hk.hkFails s now j l.core.connId) j
    (fun hto hsa hf => .inr ⟨rfl, l, hl, hto, hsa, hf⟩) r1
  generalize Hk.hkLink s.cfg.classic now (Hk.hkP1 s now).1.pending (Hk.hkFails s now j l.core.connId) j
    (Hk.graceFix (Hk.hkGraceIdx s now) now j l) = x2 at g2 r2
  -- stage 5: the driver's REG1
  have r5 : ∃ x5, (Hk.hkP5 s now).1[j]? = some x5 ∧ LinkRun now s.cfg.classic (hkOpsAt s now j) l x5 := by
    unfold Hk.hkP5
    split
    · split
      · rename_i idx pkt _ l0 hl0
        dsimp only
        rw [Hk.getElem?_setAt]
        split
        · rename_i hji
          subst hji
          rw [g2] at hl0
          cases hl0
          exact ⟨_, by rw [g2]; rfl, .sent hst r2⟩
        · exact ⟨x2, g2, r2⟩
      · exact ⟨x2, g2, r2⟩
    · exact ⟨x2, g2, r2⟩
  obtain ⟨x5, g5, r5⟩ := r5
  -- stage 6: the REG2 broadcast
  unfold Hk.hkP6
  split
  · exact ⟨_, by dsimp only; rw [List.getElem?_map, g5]; rfl, .sent hst r5⟩
  · exact ⟨x5, g5, r5⟩

end hk

/-! ## 7. Every event -/

/-- The operations event `e` may apply to the link at index `j` of state `s`. -/
def evOps (s : Sys F) : Ev → Nat → Op → Prop
  | .client _ _, _, op => clientOps op
  | .flush _, _, op => op = .take
  | .hk now, j, op => hkOpsAt s now j op
  | .uplink _ cid data, j, op =>
      ∃ pt, Codec.getPacketTypeS data = some pt ∧ upOps pt (s.links.findIdx? (·.core.connId == cid) == some j) op
  | .setCfg _, _, _ => False
  | .crit _, _, _ => False
  | .failNext _, _, _ => False
  | .failAfter _ _, _, _ => False
  | .failBind _, _, _ => False
  | .stamp idx _ _ _ _, j, op => op = .stamp ∧ j = idx
  | .syncTimeout, _, op => op = .syncTimeout
  | .reload _ _ _, _, _ => False

/-- **The two-state walk.**  For every event constructor: the list length is invariant, and the record of
the link at ANY index `j` after the event is obtained from its record before the event by a finite sequence
of the per-link operations the event may apply to that link (`evOps`), at the event's clock and in the
configured mode.  `hnr`: every event but `reload`, the one event that changes the link set — there the record of
a retained link is UNCHANGED and only its index moves (`Props/SysReload.lean: reload_frame`). -/
theorem step_run (s : Sys F) (e : Ev) (hnr : e.isReload = false) :
    (step s e).1.links.length = s.links.length ∧
    ∀ (j : Nat) (l : FLink F), s.links[j]? = some l →
      ∃ l', (step s e).1.links[j]? = some l' ∧ LinkRun (evNow e) s.cfg.classic (evOps s e j) l l' := by
  have of_pw : ∀ {A : Op → Prop} {now : Nat} {ls' : List (FLink F)},
      Hk.PW (LinkRun now s.cfg.classic A) s.links ls' →
      ls'.length = s.links.length ∧ ∀ (j : Nat) (l : FLink F), s.links[j]? = some l →
        ∃ l', ls'[j]? = some l' ∧ LinkRun now s.cfg.classic A l l' :=
    fun h => ⟨h.length, fun j l hl => h.get j l hl⟩
  cases e with
  | reload rnow raddrs routs => cases hnr
  | client now pkt => exact of_pw (client_pw s pkt)
  | uplink now cid data => exact uplink_run s cid data now
  | flush now => exact of_pw (flush_pw (A := fun op => op = .take) rfl s)
  | hk now => exact ⟨(Hk.hk_step s now).2, fun j l hl => hk_run_at s j l hl⟩
  | setCfg cfg => exact ⟨rfl, fun j l hl => ⟨l, hl, .refl l⟩⟩
  | crit d => exact ⟨rfl, fun j l hl => ⟨l, hl, .refl l⟩⟩
  | failNext cid => exact ⟨rfl, fun j l hl => ⟨l, hl, .refl l⟩⟩
  | failAfter cid kfa => exact ⟨rfl, fun j l hl => ⟨l, hl, .refl l⟩⟩
  | failBind cid => exact ⟨rfl, fun j l hl => ⟨l, hl, .refl l⟩⟩
  | stamp idx weak ld ccb cct =>
    refine ⟨Hk.stampLink_length _ _ _ _ _ _, fun j l hl => ?_⟩
    refine ⟨Hk.stampOne idx weak ld ccb cct j l, ?_, ?_⟩
    · show (stampLink s.links idx weak ld ccb cct)[j]? = _
      rw [Hk.stampLink_get, hl]; rfl
    · unfold Hk.stampOne
      split
      · rename_i hj
        exact .stamp weak ld ccb cct ⟨rfl, hj⟩ (.refl l)
      · exact .refl l
  | syncTimeout =>
    refine ⟨by show (s.links.map _).length = _; exact List.length_map _, fun j l hl => ?_⟩
    refine ⟨{ l with connTimeoutMs := s.cfg.connTimeoutMs }, ?_, .syncTimeout _ rfl (.refl l)⟩
    show (s.links.map fun l => ({ l with connTimeoutMs := s.cfg.connTimeoutMs } : FLink F))[j]? = _
    rw [List.getElem?_map, hl]; rfl

/-- The closure-condition form of the walk (the two-state analogue of `step_all`). -/
theorem step_rel {R : FLink F → FLink F → Prop} (s : Sys F) (e : Ev) (hnr : e.isReload = false)
    (hR : ∀ j, StepRel (evNow e) s.cfg.classic (evOps s e j) R) :
    (step s e).1.links.length = s.links.length ∧
    ∀ (j : Nat) (l : FLink F), s.links[j]? = some l → ∃ l', (step s e).1.links[j]? = some l' ∧ R l l' := by
  obtain ⟨h1, h2⟩ := step_run s e hnr
  refine ⟨h1, fun j l hl => ?_⟩
  obtain ⟨l', hl', hr⟩ := h2 j l hl
  exact ⟨l', hl', (hR j).of_run hr⟩

/-! ## 8. Runs -/

/-- The window range of every link is an invariant of `Sys.step` (from `LinkInv`). -/
theorem linkInv_run (s : Sys F) (evs : List Ev) (h : All LinkInv s.links) : All LinkInv (run s evs).1.links := by
  induction evs generalizing s with
  | nil => exact h
  | cons ev evs ih => exact ih _ (linkInv_step s ev h)

theorem run_append (s : Sys F) (pre post : List Ev) : (run s (pre ++ post)).1 = (run (run s pre).1 post).1 := by
  induction pre generalizing s with
  | nil => rfl
  | cons ev pre ih => exact ih _

theorem run_length (s : Sys F) (evs : List Ev) (hnr : NoReload evs) : (run s evs).1.links.length = s.links.length := by
  induction evs generalizing s with
  | nil => rfl
  | cons ev evs ih => exact (ih _ hnr.tail).trans (step_run s ev hnr.head).1

end Srtla.SysDir
