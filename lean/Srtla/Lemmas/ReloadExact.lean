import Srtla.Lemmas.ReloadBasic
import Srtla.Lemmas.Housekeeping
/-!
# `Ev.reload` inside the shell model: the EXACT characterisation of what is attempted and what is created

`Lemmas/ReloadBasic.lean` has the soundness direction (every link of the post-state is an old record or a fresh
one).  Here, core Lean only, scalar-generic, both directions:

* `dedupSeen` (`.filter(|ip| seen.insert(*ip))`): membership iff (`mem_dedupSeen`), no duplicates
  (`dedupSeen_nodup`), a sublist of the input (`dedupSeen_sublist`), in first-occurrence order
  (`dedupSeen_firstOcc`: the positions of the first occurrences in the input increase strictly) — and these facts
  DETERMINE the function (`dedupSeen_unique`), so a wrong `dedupSeen` (the empty list, the identity, last
  occurrences, …) breaks a theorem;
* `neededAddrs` (`new_ips_needed`): the same four statements and uniqueness (`mem_neededAddrs_iff`,
  `neededAddrs_nodup`, `neededAddrs_sublist`, `neededAddrs_firstOcc`, `neededAddrs_unique`);
* `createConnections` in closed form (`createConnections_eq`: addresses zipped with outcomes, `filterMap` over the
  successes), by attempt number (`mem_createConnections_iff`), its conn ids (`ids_createConnections_eq`);
* `step_io`: no event but `reload` touches the key set of the I/O map.
-/
namespace Srtla.Sys
open Srtla Srtla.Link Srtla.Conn

variable {F : Type} [Scalar F]

/-! ## `dedupSeen` -/

theorem mem_dedupSeen (seen xs : List Nat) (a : Nat) : a ∈ dedupSeen seen xs ↔ a ∈ xs ∧ a ∉ seen := by
  induction xs generalizing seen with
  | nil => simp [dedupSeen]
  | cons x xs ih =>
    unfold dedupSeen
    split
    · rename_i hc
      have hx : x ∈ seen := by simpa using hc
      rw [ih]
      constructor
      · rintro ⟨h1, h2⟩
        exact ⟨List.mem_cons_of_mem _ h1, h2⟩
      · rintro ⟨h1, h2⟩
        rcases List.mem_cons.1 h1 with rfl | h1
        · exact absurd hx h2
        · exact ⟨h1, h2⟩
    · rename_i hc
      have hx : x ∉ seen := by simpa using hc
      rw [List.mem_cons, ih]
      constructor
      · rintro (rfl | ⟨h1, h2⟩)
        · exact ⟨List.mem_cons_self, hx⟩
        · exact ⟨List.mem_cons_of_mem _ h1, fun h => h2 (List.mem_cons_of_mem _ h)⟩
      · rintro ⟨h1, h2⟩
        by_cases hax : a = x
        · exact .inl hax
        · right
          rcases List.mem_cons.1 h1 with h | h
          · exact absurd h hax
          · refine ⟨h, fun h' => ?_⟩
            rcases List.mem_cons.1 h' with h' | h'
            · exact hax h'
            · exact h2 h'

theorem dedupSeen_nodup (seen xs : List Nat) : (dedupSeen seen xs).Nodup := by
  induction xs generalizing seen with
  | nil => simp [dedupSeen]
  | cons x xs ih =>
    unfold dedupSeen
    split
    · exact ih _
    · refine List.nodup_cons.2 ⟨fun h => ?_, ih _⟩
      exact ((mem_dedupSeen _ _ _).1 h).2 List.mem_cons_self

theorem dedupSeen_sublist (seen xs : List Nat) : (dedupSeen seen xs).Sublist xs := by
  induction xs generalizing seen with
  | nil => simp [dedupSeen]
  | cons x xs ih =>
    unfold dedupSeen
    split
    · exact (ih _).cons _
    · exact (ih _).cons_cons _

/-- Positions shift by one behind a head that is none of the elements. -/
theorem map_idxOf_cons (x : Nat) (xs r : List Nat) (h : ∀ a ∈ r, a ≠ x) :
    r.map (fun a => (x :: xs).idxOf a) = (r.map fun a => xs.idxOf a).map (· + 1) := by
  rw [List.map_map]
  apply List.map_congr_left
  intro a ha
  have : (x == a) = false := by
    rw [beq_eq_false_iff_ne]
    exact fun e => h a ha e.symm
  simp [List.idxOf_cons, this]

theorem pairwise_lt_map_succ {l : List Nat} (h : l.Pairwise (· < ·)) : (l.map (· + 1)).Pairwise (· < ·) := by
  rw [List.pairwise_map]
  exact h.imp (fun h => Nat.succ_lt_succ h)

/-- **First-occurrence order**: in the output of `dedupSeen`, the positions of the FIRST occurrences in the input
increase strictly. -/
theorem dedupSeen_firstOcc (seen xs : List Nat) :
    ((dedupSeen seen xs).map fun a => xs.idxOf a).Pairwise (· < ·) := by
  induction xs generalizing seen with
  | nil => simp [dedupSeen]
  | cons x xs ih =>
    unfold dedupSeen
    split
    · rename_i hc
      have hx : x ∈ seen := by simpa using hc
      rw [map_idxOf_cons x xs _ (fun a ha e => ((mem_dedupSeen _ _ _).1 ha).2 (e ▸ hx))]
      exact pairwise_lt_map_succ (ih _)
    · rw [List.map_cons,
        map_idxOf_cons x xs _ (fun a ha e => ((mem_dedupSeen _ _ _).1 ha).2 (e ▸ List.mem_cons_self))]
      refine List.pairwise_cons.2 ⟨fun b hb => ?_, pairwise_lt_map_succ (ih _)⟩
      obtain ⟨c, -, rfl⟩ := List.mem_map.1 hb
      simp

/-- Two lists with the same members, both strictly increasing under the same key, are equal. -/
theorem eq_of_pairwise_lt_key {α : Type} (f : α → Nat) :
    ∀ (l1 l2 : List α), (l1.map f).Pairwise (· < ·) → (l2.map f).Pairwise (· < ·) →
      (∀ a, a ∈ l1 ↔ a ∈ l2) → l1 = l2
  | [], [], _, _, _ => rfl
  | [], b :: u, _, _, hm => absurd ((hm b).2 List.mem_cons_self) (by simp)
  | a :: t, [], _, _, hm => absurd ((hm a).1 List.mem_cons_self) (by simp)
  | a :: t, b :: u, h1, h2, hm => by
    rw [List.map_cons, List.pairwise_cons] at h1 h2
    have hlt1 : ∀ x ∈ t, f a < f x := fun x hx => h1.1 _ (List.mem_map.2 ⟨x, hx, rfl⟩)
    have hlt2 : ∀ x ∈ u, f b < f x := fun x hx => h2.1 _ (List.mem_map.2 ⟨x, hx, rfl⟩)
    have hab : a = b := by
      rcases List.mem_cons.1 ((hm a).1 List.mem_cons_self) with h | h
      · exact h
      · rcases List.mem_cons.1 ((hm b).2 List.mem_cons_self) with h' | h'
        · exact h'.symm
        · exact absurd (hlt1 b h') (Nat.lt_asymm (hlt2 a h))
    subst hab
    have : t = u := by
      refine eq_of_pairwise_lt_key f t u h1.2 h2.2 fun x => ⟨fun hx => ?_, fun hx => ?_⟩
      · rcases List.mem_cons.1 ((hm x).1 (List.mem_cons_of_mem _ hx)) with h | h
        · exact absurd (hlt1 x hx) (by rw [h]; exact Nat.lt_irrefl _)
        · exact h
      · rcases List.mem_cons.1 ((hm x).2 (List.mem_cons_of_mem _ hx)) with h | h
        · exact absurd (hlt2 x hx) (by rw [h]; exact Nat.lt_irrefl _)
        · exact h
    rw [this]

/-- **`dedupSeen` is determined by its specification**: a list whose members are exactly the input elements not
seen before and whose first-occurrence positions increase strictly IS the output. -/
theorem dedupSeen_unique (seen xs r : List Nat) (hmem : ∀ a, a ∈ r ↔ a ∈ xs ∧ a ∉ seen)
    (hord : (r.map fun a => xs.idxOf a).Pairwise (· < ·)) : r = dedupSeen seen xs :=
  eq_of_pairwise_lt_key (fun a => xs.idxOf a) r _ hord (dedupSeen_firstOcc seen xs)
    (fun a => (hmem a).trans (mem_dedupSeen seen xs a).symm)

/-! ## `neededAddrs` (`new_ips_needed`) -/

omit [Scalar F] in
/-- **Exactly** the desired addresses that no link carried before the call. -/
theorem mem_neededAddrs_iff (ls : List (FLink F)) (as : List Nat) (a : Nat) :
    a ∈ neededAddrs ls as ↔ a ∈ as ∧ ∀ l ∈ ls, l.addr ≠ a := by
  unfold neededAddrs
  rw [List.mem_filter, mem_dedupSeen]
  have hc : (!(ls.map (·.addr)).contains a) = true ↔ ∀ l ∈ ls, l.addr ≠ a := by
    rw [Bool.not_eq_true', ← Bool.not_eq_true, List.contains_eq_mem, decide_eq_true_iff, List.mem_map]
    constructor
    · exact fun h l hl e => h ⟨l, hl, e⟩
    · rintro h ⟨l, hl, e⟩
      exact h l hl e
  rw [hc]
  simp

omit [Scalar F] in
/-- Each needed address is attempted ONCE. -/
theorem neededAddrs_nodup (ls : List (FLink F)) (as : List Nat) : (neededAddrs ls as).Nodup :=
  (List.filter_sublist).nodup (dedupSeen_nodup [] as)

omit [Scalar F] in
theorem neededAddrs_sublist (ls : List (FLink F)) (as : List Nat) : (neededAddrs ls as).Sublist as :=
  (List.filter_sublist).trans (dedupSeen_sublist [] as)

omit [Scalar F] in
/-- The attempts are made in the order of the first occurrences in the desired list. -/
theorem neededAddrs_firstOcc (ls : List (FLink F)) (as : List Nat) :
    ((neededAddrs ls as).map fun a => as.idxOf a).Pairwise (· < ·) :=
  (dedupSeen_firstOcc [] as).sublist ((List.filter_sublist).map _)

omit [Scalar F] in
/-- **`new_ips_needed` is determined by its specification.** -/
theorem neededAddrs_unique (ls : List (FLink F)) (as r : List Nat)
    (hmem : ∀ a, a ∈ r ↔ a ∈ as ∧ ∀ l ∈ ls, l.addr ≠ a)
    (hord : (r.map fun a => as.idxOf a).Pairwise (· < ·)) : r = neededAddrs ls as :=
  eq_of_pairwise_lt_key (fun a => as.idxOf a) r _ hord (neededAddrs_firstOcc ls as)
    (fun a => (hmem a).trans (mem_neededAddrs_iff ls as a).symm)

omit [Scalar F] in
/-- A needed address is attempted exactly once. -/
theorem neededAddrs_count (ls : List (FLink F)) (as : List Nat) (a : Nat) (ha : a ∈ as)
    (hn : ∀ l ∈ ls, l.addr ≠ a) : (neededAddrs ls as).count a = 1 :=
  by rw [(neededAddrs_nodup ls as).count, if_pos ((mem_neededAddrs_iff ls as a).2 ⟨ha, hn⟩)]

/-! ## `createConnections` (`create_connections_from_ips`) -/

/-- **Closed form**: attempt `k` pairs address `k` with outcome `k`; a success `some id` yields exactly the link
`newUplink id addr now`, a failure (or a missing outcome) yields nothing; order kept. -/
theorem createConnections_eq (now : Nat) (as : List Nat) (outs : List (Option Nat)) :
    (createConnections now as outs : List (FLink F)) =
      (as.zip outs).filterMap fun p => p.2.map fun id => FLink.newUplink id p.1 now := by
  induction as generalizing outs with
  | nil => simp [createConnections]
  | cons a rest ih =>
    unfold createConnections
    cases outs with
    | nil =>
      simp only [List.head?_nil, Option.join_none, List.tail_nil, List.zip_nil_right, List.filterMap_nil]
      rw [ih]; simp
    | cons o os =>
      cases o with
      | none =>
        simp only [List.head?_cons, Option.join_some, List.tail_cons, List.zip_cons_cons]
        rw [ih os]; simp
      | some id =>
        simp only [List.head?_cons, Option.join_some, List.tail_cons, List.zip_cons_cons]
        rw [ih os]; simp

/-- **By attempt number**: a link is created iff it is `newUplink id a now` for an attempt `k` on address `a`
whose outcome is the success `some id`. -/
theorem mem_createConnections_iff (now : Nat) (as : List Nat) (outs : List (Option Nat)) (l : FLink F) :
    l ∈ createConnections now as outs ↔
      ∃ (k a id : Nat), as[k]? = some a ∧ outs[k]? = some (some id) ∧ l = FLink.newUplink id a now := by
  rw [createConnections_eq, List.mem_filterMap]
  constructor
  · rintro ⟨⟨a, o⟩, hp, hl⟩
    obtain ⟨k, hk⟩ := List.getElem?_of_mem hp
    obtain ⟨h1, h2⟩ := List.getElem?_zip_eq_some.1 hk
    cases o with
    | none => cases hl
    | some id => exact ⟨k, a, id, h1, h2, (Option.some.inj hl).symm⟩
  · rintro ⟨k, a, id, h1, h2, rfl⟩
    exact ⟨(a, some id), List.mem_of_getElem? (List.getElem?_zip_eq_some.2 ⟨h1, h2⟩), rfl⟩

/-- The conn ids of the created links: the drawn ids of the attempts that were made, in order. -/
theorem ids_createConnections_eq (now : Nat) (as : List Nat) (outs : List (Option Nat)) :
    (createConnections now as outs : List (FLink F)).map (·.core.connId) =
      (outs.take as.length).filterMap id := by
  induction as generalizing outs with
  | nil => simp [createConnections]
  | cons a rest ih =>
    unfold createConnections
    cases outs with
    | nil =>
      simp only [List.head?_nil, Option.join_none, List.tail_nil]
      rw [ih]; simp
    | cons o os =>
      cases o with
      | none =>
        simp only [List.head?_cons, Option.join_some, List.tail_cons]
        rw [ih os]; simp
      | some i =>
        simp only [List.head?_cons, Option.join_some, List.tail_cons, List.map_cons]
        rw [ih os]
        have : (FLink.newUplink i a now : FLink F).core.connId = i := rfl
        simp [this]

/-- The addresses of the created links: the attempted addresses whose outcome is a success, in order. -/
theorem addrs_createConnections_eq (now : Nat) (as : List Nat) (outs : List (Option Nat)) :
    (createConnections now as outs : List (FLink F)).map (·.addr) =
      ((as.zip outs).filter fun p => p.2.isSome).map (·.1) := by
  induction as generalizing outs with
  | nil => simp [createConnections]
  | cons a rest ih =>
    unfold createConnections
    cases outs with
    | nil =>
      simp only [List.head?_nil, Option.join_none, List.tail_nil]
      rw [ih]; simp
    | cons o os =>
      cases o with
      | none =>
        simp only [List.head?_cons, Option.join_some, List.tail_cons]
        rw [ih os]; simp
      | some i =>
        simp only [List.head?_cons, Option.join_some, List.tail_cons, List.map_cons]
        rw [ih os]
        have : (FLink.newUplink i a now : FLink F).addr = a := rfl
        simp [this]

/-! ## The I/O map: only `reload` touches it -/

omit [Scalar F] in
theorem forwardVia_io (s : Sys F) (sel : Nat) (pkt : Sys.Bytes) (seq : Option Nat) (now : Nat) :
    (forwardVia s sel pkt seq now).1.io = s.io := by
  unfold forwardVia
  split
  · rfl
  · dsimp only
    split <;> rfl

theorem client_io (s : Sys F) (pkt : Sys.Bytes) (now : Nat) : (handleSrtPacket s pkt now).1.io = s.io := by
  cases hne : pkt.isEmpty
  case true =>
    have : handleSrtPacket s pkt now = (s, {}) := by unfold handleSrtPacket; simp [hne]
    rw [this]
  case false =>
  cases hc : s.reg.hasConnected
  case false =>
    rw [Hk.handleSrtPacket_pre s pkt now hne hc]
    split
    · exact forwardVia_io s _ pkt _ now
    · rfl
  case true =>
  cases hsel : Hk.clientSel s pkt now with
  | none => rw [Hk.handleSrtPacket_none s pkt now hne hc hsel]; rfl
  | some i =>
    rw [Hk.handleSrtPacket_some s pkt now i hne hc hsel]
    unfold Hk.clientFwd
    dsimp only
    split
    · exact forwardVia_io (runSelect s now).1 i pkt _ now
    · exact forwardVia_io (runSelect s now).1 i pkt _ now

omit [Scalar F] in
theorem flush_io (s : Sys F) (now : Nat) : (flushAllBatches s now).1.io = s.io := by
  unfold flushAllBatches
  split <;> rfl

theorem uplink_io (s : Sys F) (cid : Nat) (data : Sys.Bytes) (now : Nat) :
    (handleUplinkPacket s cid data now).1.io = s.io := by
  unfold handleUplinkPacket
  split
  · rfl
  · split
    · rfl
    · split
      · rfl
      · rfl

/-- **Only `reload` touches the key set of the I/O map** (the arms of the loop look halves up, `reconnect_uplink`
replaces a half under its existing key). -/
theorem step_io (s : Sys F) (e : Ev) (hnr : e.isReload = false) : (step s e).1.io = s.io := by
  cases e with
  | client now pkt => exact client_io s pkt now
  | uplink now cid data => exact uplink_io s cid data now
  | flush now => exact flush_io s now
  | hk now => rfl
  | reload now addrs outs => cases hnr
  | _ => rfl

end Srtla.Sys
