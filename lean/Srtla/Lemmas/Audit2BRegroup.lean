import Srtla.Lemmas.Audit2BLive
/-!
# Audit round 2 (P-B), C08: the re-grouping chain, frame by frame

All links down, the receiver forgot the group.  The frames of the chain at `Sys.step` level, each from an
arbitrary state with the stated registration-manager facts:

* `hk_active_zero`     — a tick in which no link is connected leaves `active_connections = 0`;
* `ngp_step`           — REG_NGP on link `j` with the manager at rest and `active = 0`: REG1 (old id) goes out at
                         once on link `j`, the manager awaits REG2 on `j`;
* `reg2_step`          — REG2 (≥ 258 bytes) on the awaited link: the id is replaced by the payload, the broadcast is
                         armed;
* `hk_broadcast`       — the next tick puts a REG2 with the NEW id on EVERY link's wire;
* `bystander_reg`      — an event that is no tick, no registration datagram and no fault injection does not touch
                         the registration manager.
-/
namespace Srtla.Audit2B
open Srtla Srtla.Gen Srtla.Conn Srtla.Select Srtla.Link Srtla.Sys

set_option linter.unusedSectionVars false
set_option linter.unusedVariables false

variable {F : Type} [Scalar F]

/-- The four registration type codes: REG_NGP 0x9211, REG2 0x9201, REG3 0x9202, REG_ERR 0x9210. -/
def isRegType (t : Nat) : Bool := t == 37393 || t == 37377 || t == 37378 || t == 37392

/-- An event that is neither a housekeeping tick, nor a registration datagram, nor a fault injection, nor a
reload (`apply_connection_changes` may remove the very link the chain is about, or shift its index). -/
def bystander : Ev → Bool
  | .hk _ => false
  | .failNext _ => false
  | .failAfter _ _ => false
  | .failBind _ => false
  | .reload _ _ _ => false
  | .uplink _ _ data =>
    match Codec.getPacketTypeS data with
    | some t => !isRegType t
    | none => true
  | _ => true

theorem pupSpec_reg_other (l : FLink F) (idx : Nat) (reg : Reg.Reg) (ck : Bool) (data : Codec.Bytes) (now : Nat)
    (h : ∀ t, Codec.getPacketTypeS data = some t → isRegType t = false) :
    (Uplink.pupSpec l idx reg ck data now).2.1 = reg := by
  unfold Uplink.pupSpec
  cases ht : Codec.getPacketTypeS data with
  | none => rfl
  | some t =>
    have := h t ht
    unfold isRegType at this
    simp only [Bool.or_eq_false_iff, beq_eq_false_iff_ne, ne_eq] at this
    obtain ⟨⟨⟨h1, h2⟩, h3⟩, h4⟩ := this
    dsimp only
    rw [if_neg h1, if_neg h2, if_neg h3, if_neg h4]
    split
    · rfl
    · split
      · rfl
      · split
        · rfl
        · split <;> rfl

/-- **A bystander event does not touch the registration manager.** -/
theorem bystander_reg (s : Sys F) (e : Ev) (h : bystander e = true) : (step s e).1.reg = s.reg := by
  cases e with
  | hk now => cases h
  | failNext c => cases h
  | failAfter c kfa => cases h
  | failBind c => cases h
  | client now pkt => exact (Hk.client_pw s pkt now).2.1
  | flush now => exact (Hk.flush_pw false none s now).2.1
  | setCfg cfg => rfl
  | crit d => rfl
  | stamp idx weak ld ccb cct => rfl
  | reload now addrs outs => cases h
  | syncTimeout => rfl
  | uplink now cid data =>
    show (handleUplinkPacket s cid data now).1.reg = s.reg
    by_cases hne : data = []
    · subst hne; simp [handleUplinkPacket]
    cases hf : s.links.findIdx? (·.core.connId == cid) with
    | none => rw [Uplink.unknown_link s cid data now hf]
    | some idx =>
      obtain ⟨l, hl, -⟩ := Uplink.findIdx_get s.links cid idx hf
      rw [Uplink.handleUplinkPacket_eq s cid data now idx l hne hf hl]
      show (Uplink.pupSpec l idx s.reg s.clientKnown data now).2.1 = s.reg
      apply pupSpec_reg_other
      intro t ht
      simp only [bystander, ht] at h
      simpa using h

/-! ## A tick with no connected link -/

theorem hkLink_disconnected (classic : Bool) (now : Nat) (pending : Option Nat) (fails : Bool) (j : Nat) (l : FLink F)
    (h : l.core.connected = false) : (Hk.hkLink classic now pending fails j l).core.connected = false := by
  unfold Hk.hkLink
  split
  · split
    · obtain ⟨-, -, -, -, -, -, f7⟩ := Hk.attemptLink_fields fails l now
      split
      · split
        · exact f7.connected
        · exact f7.connected
      · exact f7.connected
    · exact h
  · exact (Hk.aliveLink_accounting classic now l).2.2.2.1.trans h

theorem driver_fields (r : Reg.Reg) (now : Nat) :
    (Reg.regDriverPendingSends r now).1.active = r.active ∧ (Reg.regDriverPendingSends r now).1.id = r.id := by
  unfold Reg.regDriverPendingSends Reg.driverReg1 Reg.driverBroadcast
  dsimp only
  repeat' split
  all_goals exact ⟨rfl, rfl⟩

/-- **A tick in which no link is connected leaves `active_connections = 0`**, and keeps the group id. -/
theorem hk_active_zero (s : Sys F) (now : Nat) (h : ∀ l ∈ s.links, l.core.connected = false) :
    (handleHousekeeping s now).1.reg.active = 0 ∧ (handleHousekeeping s now).1.reg.id = s.reg.id := by
  rw [(Hk.hk_eq s now).2.1]
  unfold Hk.hkP4
  obtain ⟨d1, d2⟩ := driver_fields
    (Reg.updateActiveConnections (Hk.hkP2 s now).2.1 ((Hk.hkP2 s now).1.map (·.core.connected))) now
  rw [d1, d2]
  constructor
  · show ((Hk.hkP2 s now).1.map (·.core.connected)).count true = 0
    rw [List.count_eq_zero]
    intro hm
    obtain ⟨x, hx, hxc⟩ := List.mem_map.1 hm
    -- every link of the per-link pass is `hkLink` of a disconnected link
    have h2 : (Hk.hkP2 s now).1 = s.links.mapIdx (fun j l =>
        Hk.hkLink s.cfg.classic now (Hk.hkP1 s now).1.pending (Hk.hkFails s now j l.core.connId) j
          (Hk.graceFix (Hk.hkGraceIdx s now) now j l)) := by
      unfold Hk.hkP2
      rw [(Hk.hkLinksGo_links _ _ _ _ _ _).1]
      conv => lhs; arg 2; rw [Hk.hkP1_links]
      rw [List.mapIdx_mapIdx]
      congr 1
      funext j l
      simp only [Function.comp, Nat.zero_add, Hk.graceFix_connId]
      rfl
    rw [h2] at hx
    obtain ⟨k, hk, hkx⟩ := List.getElem_of_mem hx
    rw [List.getElem_mapIdx] at hkx
    have hlk : s.links[k]'(by simpa using hk) ∈ s.links := List.getElem_mem _
    have hc := h _ hlk
    have hg : (Hk.graceFix (Hk.hkGraceIdx s now) now k (s.links[k]'(by simpa using hk))).core.connected = false := by
      unfold Hk.graceFix; split <;> exact hc
    have := hkLink_disconnected s.cfg.classic now (Hk.hkP1 s now).1.pending
      (Hk.hkFails s now k (s.links[k]'(by simpa using hk)).core.connId) k _ hg
    rw [hkx] at this
    rw [this] at hxc
    cases hxc
  · show (Hk.hkP2 s now).2.1.id = s.reg.id
    unfold Hk.hkP2
    rw [(Hk.hkLinksGo_links _ _ _ _ _ _).2.2.2.1]
    exact (Hk.hkP1_reg s now).2.2

/-! ## REG_NGP: the immediate REG1 -/

/-- **REG_NGP on link `j`, manager at rest, no active connection: REG1 with the (old) group id goes out at once on
that link, and the manager awaits REG2 on it** (`handle_reg_ngp` + `reg1_if_ngp_immediate`). -/
theorem ngp_step (s : Sys F) (now cid : Nat) (data : Sys.Bytes) (j : Nat) (l : FLink F)
    (hl : s.links[j]? = some l) (hidx : s.links.findIdx? (·.core.connId == cid) = some j)
    (hty : Codec.getPacketTypeS data = some 37393) (hidle : Hk.RegIdle s.reg) (hact : s.reg.active = 0) :
    (step s (.uplink now cid data)).2.wire = [(cid, Codec.createReg1 s.reg.id)] ∧
    (step s (.uplink now cid data)).1.reg.pending = some j ∧
    (step s (.uplink now cid data)).1.reg.id = s.reg.id ∧
    (step s (.uplink now cid data)).1.reg.active = 0 ∧
    (step s (.uplink now cid data)).1.reg.probing = s.reg.probing ∧
    (step s (.uplink now cid data)).1.reg.pendingTimeoutAt = now + 4000 := by
  have hne : data ≠ [] := by
    rintro rfl
    simp [Codec.getPacketTypeS] at hty
  obtain ⟨h1, h2, h3⟩ := hidle
  have hnw : s.reg.probing ≠ .waiting := by
    intro hw
    unfold Reg.isProbing at h3
    rw [hw] at h3
    simp at h3
  have hW := Proto.REG2_TIMEOUT_eq
  -- the registration arm
  have hngp : Reg.handleRegNgp s.reg j now = { s.reg with target := some j, nextSendAt := now } := by
    unfold Reg.handleRegNgp
    rw [if_neg hnw, if_pos ⟨hact, h1⟩]
  have himm : Reg.reg1IfNgpImmediate (Reg.handleRegNgp s.reg j now) j now =
      ((Reg.buildReg1For { s.reg with target := some j, nextSendAt := now } j now).1,
       some (Reg.buildReg1For { s.reg with target := some j, nextSendAt := now } j now).2) := by
    rw [hngp]
    unfold Reg.reg1IfNgpImmediate
    rw [if_pos ⟨hact, h1, rfl, Nat.le_refl _⟩]
  have hpup : Uplink.pupSpec l j s.reg s.clientKnown data now =
      (l, (Reg.reg1IfNgpImmediate (Reg.handleRegNgp s.reg j now) j now).1,
        { reg1Send := (Reg.reg1IfNgpImmediate (Reg.handleRegNgp s.reg j now) j now).2 }) := by
    unfold Uplink.pupSpec
    rw [hty]
    simp
  show (handleUplinkPacket s cid data now).2.wire = _ ∧ (handleUplinkPacket s cid data now).1.reg.pending = _ ∧
    (handleUplinkPacket s cid data now).1.reg.id = _ ∧ (handleUplinkPacket s cid data now).1.reg.active = _ ∧
    (handleUplinkPacket s cid data now).1.reg.probing = _ ∧
    (handleUplinkPacket s cid data now).1.reg.pendingTimeoutAt = _
  rw [Uplink.handleUplinkPacket_eq s cid data now j l hne hidx hl, hpup, himm]
  refine ⟨rfl, rfl, rfl, hact, rfl, ?_⟩
  show now + Reg.reg2WaitMs = now + 4000
  unfold Reg.reg2WaitMs
  rw [hW]

/-! ## REG2: the new group id -/

/-- **REG2 (at least 2 + 256 bytes) on the link the manager awaits it on: the group id becomes the payload, the
REG2 broadcast is armed, nothing is awaited any more** (`handle_reg2`). -/
theorem reg2_step (s : Sys F) (now cid : Nat) (data : Sys.Bytes) (j : Nat) (l : FLink F)
    (hl : s.links[j]? = some l) (hidx : s.links.findIdx? (·.core.connId == cid) = some j)
    (hty : Codec.getPacketTypeS data = some 37377) (hlen : 258 ≤ data.length) (hp : s.reg.pending = some j) :
    (step s (.uplink now cid data)).1.reg.id = (data.drop 2).take 256 ∧
    (step s (.uplink now cid data)).1.reg.pending = none ∧
    (step s (.uplink now cid data)).1.reg.target = none ∧
    (step s (.uplink now cid data)).1.reg.broadcastPending = true ∧
    (step s (.uplink now cid data)).1.reg.active = s.reg.active ∧
    (step s (.uplink now cid data)).1.reg.probing = s.reg.probing ∧
    (step s (.uplink now cid data)).2.wire = [] := by
  have hne : data ≠ [] := by
    rintro rfl
    simp [Codec.getPacketTypeS] at hty
  have hL := Proto.SRTLA_ID_LEN_eq
  have hpup : Uplink.pupSpec l j s.reg s.clientKnown data now = (l, Reg.handleReg2 s.reg j data now, {}) := by
    unfold Uplink.pupSpec
    rw [hty]
    simp
  have hr2 : Reg.handleReg2 s.reg j data now =
      { s.reg with id := (data.drop 2).take Proto.SRTLA_ID_LEN, pending := none,
                   pendingTimeoutAt := now + Reg.reg3WaitMs, broadcastPending := true, target := none,
                   nextSendAt := 0 } := by
    unfold Reg.handleReg2
    rw [if_neg (by omega), if_pos hp]
  show (handleUplinkPacket s cid data now).1.reg.id = _ ∧ (handleUplinkPacket s cid data now).1.reg.pending = _ ∧
    (handleUplinkPacket s cid data now).1.reg.target = _ ∧
    (handleUplinkPacket s cid data now).1.reg.broadcastPending = _ ∧
    (handleUplinkPacket s cid data now).1.reg.active = _ ∧ (handleUplinkPacket s cid data now).1.reg.probing = _ ∧
    (handleUplinkPacket s cid data now).2.wire = _
  rw [Uplink.handleUplinkPacket_eq s cid data now j l hne hidx hl, hpup, hr2]
  refine ⟨?_, rfl, rfl, rfl, rfl, rfl, rfl⟩
  show (data.drop 2).take Proto.SRTLA_ID_LEN = _
  rw [hL]

/-! ## The broadcast tick -/

/-- **A tick with the broadcast armed (nothing awaited, no REG1 target, probing over) puts a REG2 with the current
group id on EVERY link's wire**, and disarms the broadcast. -/
theorem hk_broadcast (s : Sys F) (now : Nat) (hidle : Hk.RegIdle s.reg) (hb : s.reg.broadcastPending = true) :
    (∀ (k : Nat) (l : FLink F), s.links[k]? = some l →
      (l.core.connId, Codec.createReg2 s.reg.id) ∈ (handleHousekeeping s now).2.wire) ∧
    (handleHousekeeping s now).1.reg.broadcastPending = false ∧
    (handleHousekeeping s now).1.reg.id = s.reg.id := by
  have hreg2 : (Hk.hkP2 s now).2.1 = s.reg := by
    unfold Hk.hkP2
    rw [Hk.hkLinksGo_reg_idle _ _ _ _ _ _ (by rw [Hk.hkP1_idle s now hidle]; exact hidle.1), Hk.hkP1_idle s now hidle]
  -- the driver: no REG1 (no target), the broadcast
  have hdrv : (Hk.hkP4 s now).2.broadcastReg2 = some (Codec.createReg2 s.reg.id) ∧
      (Hk.hkP4 s now).1.broadcastPending = false ∧ (Hk.hkP4 s now).1.id = s.reg.id := by
    unfold Hk.hkP4
    rw [hreg2]
    unfold Reg.regDriverPendingSends Reg.driverReg1 Reg.driverBroadcast Reg.updateActiveConnections
    dsimp only
    rw [hidle.2.1]
    split
    all_goals first
      | exact ⟨rfl, rfl, rfl⟩
      | (dsimp only; rw [hb]; exact ⟨rfl, rfl, rfl⟩)
  refine ⟨?_, ?_, ?_⟩
  · intro k l hl
    rw [(Hk.hk_eq s now).2.2.1]
    apply List.mem_append_right
    -- stage 6 broadcasts on the links of stage 5, which carry the conn ids of `s.links`
    have h6 : (Hk.hkP6 s now).2 = (Hk.hkP5 s now).1.map fun (x : FLink F) => (x.core.connId, Codec.createReg2 s.reg.id) := by
      unfold Hk.hkP6
      rw [hdrv.1]
    have h6l : (Hk.hkP6 s now).1 = (Hk.hkP5 s now).1.map fun (x : FLink F) =>
        { x with core := { x.core with lastSent := some now } } := by
      unfold Hk.hkP6
      rw [hdrv.1]
    rw [h6]
    -- the final links are stage 6's; their conn ids are those of `s.links`
    have hids := Hk.step_ids s (.hk now) rfl
    have hfin : (step s (.hk now)).1.links = (Hk.hkP6 s now).1 := (Hk.hk_eq s now).1
    rw [hfin, h6l, List.map_map] at hids
    have hk' : ((Hk.hkP5 s now).1.map (·.core.connId))[k]? = some l.core.connId := by
      have : ((Hk.hkP5 s now).1.map ((fun (x : FLink F) => x.core.connId) ∘ fun (x : FLink F) =>
          ({ x with core := { x.core with lastSent := some now } } : FLink F))) = (Hk.hkP5 s now).1.map (·.core.connId) := rfl
      rw [← this, hids, List.getElem?_map, hl]; rfl
    rw [List.getElem?_map] at hk'
    obtain ⟨x, hx, hxid⟩ := Option.map_eq_some_iff.1 hk'
    apply List.mem_map.2
    exact ⟨x, List.mem_of_getElem? hx, by rw [hxid]⟩
  · rw [(Hk.hk_eq s now).2.1]; exact hdrv.2.1
  · rw [(Hk.hk_eq s now).2.1]; exact hdrv.2.2

theorem bystander_noReload {e : Ev} (h : bystander e = true) : e.isReload = false := by
  cases e <;> first | rfl | cases h

end Srtla.Audit2B
