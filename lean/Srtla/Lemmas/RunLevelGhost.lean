import Srtla.Lemmas.ForwardRun
/-!
# C01 over a run, with ghost tags

A *ghost-instrumented* run of the shell (`runG`): the real state `Sys F` evolves by `Sys.step`, unchanged;
next to it the ghost state gives every non-empty datagram the shell accepts from the SRT client a fresh
number (`tag`), keeps for every link a tagged mirror of its batch queue, and files every copy that leaves
a queue into exactly one of two per-link bins: `wire` (put on the link's socket) or `lost` (discarded, with
the index of the discarding event).  A datagram for which no link could be chosen is filed under `dropped`.

The ghost never looks inside the model's functions: it is driven by the *observable* effect of one event
on one link — the queue before and after, what the event appended (`appended`, the closed form proved in
`Lemmas/Forward*.lean`) and what the event put on that link's socket (`dataWire`).  That these
observations always fall into one of the three shapes held / sent / discarded-with-cause is the master
theorem `step_link`; here it is composed over the event list.

Results (`GInv`, preserved by every event, true of `ginit s` for every `Inv s`):
the queue mirror is the real queue, the wire bin is the real wire log, every accepted tag has exactly one
`unique` copy among wire ∪ queued ∪ lost ∪ dropped, every copy carries the accepted bytes of its tag, the
per-link wire order is the tag (= acceptance) order, probe copies only on links that were stall-gated and
connected when the copy was enqueued, and the probe count obeys the 1-in-100 bound.
-/
namespace Srtla.Sys.Ghost
open Srtla Srtla.Gen Srtla.Conn Srtla.Select Srtla.Rtt Srtla.Link Srtla.Sys Scalar

set_option linter.unusedSectionVars false

variable {F : Type} [Scalar F]

/-! ## Ghost state -/

/-- A copy is the one *unique* copy of its datagram (the routing decision) or a stall *probe* duplicate. -/
inductive Kind where
  | unique
  | probe
deriving DecidableEq, Repr

/-- One enqueued copy of a client datagram.  Recorded at the moment the copy was enqueued, on the state the
call's selection pass left behind (what `is_stall_gated()` / `is_timed_out(now)` answer when
`forward_via_connection` / `send_stall_probes` run): `gated` = the link was stall-gated AND connected;
`elig` = the link was connected, had completed registration (phase ≠ registering), was not timed out and
not stall-gated; `estab` = the session was established (`has_connected`). -/
structure GItem where
  tag : Nat
  kind : Kind
  gated : Bool
  estab : Bool
  elig : Bool
  item : QItem
deriving DecidableEq, Repr

/-- The payload of a copy. -/
def GItem.bytes (x : GItem) : Bytes := x.item.1

/-- Per-link ghost bins. `lost` entries carry the index (in the run) of the event that discarded them. -/
structure Bins where
  queued : List GItem := []
  wire : List GItem := []
  lost : List (Nat × GItem) := []
deriving DecidableEq, Repr

/-- Every copy ever enqueued on the link: sent, still queued, or discarded. -/
def Bins.all (b : Bins) : List GItem := b.wire ++ b.queued ++ b.lost.map (·.2)

/-- Ghost-instrumented shell state. -/
structure G (F : Type) where
  sys : Sys F
  /-- number of events processed so far -/
  clock : Nat := 0
  /-- the next fresh tag -/
  next : Nat := 0
  /-- (tag, bytes) of every accepted datagram, in acceptance order -/
  accepted : List (Nat × Bytes) := []
  /-- one entry per link, same order as `sys.links` -/
  bins : List Bins
  /-- accepted datagrams for which no link could be chosen -/
  dropped : List (Nat × Bytes) := []

/-! ## One ghost step -/

/-- Was link `i` stall-gated and connected when this event's routing ran? -/
def gatedAt (s : Sys F) (ev : Ev) (i : Nat) : Bool :=
  match ev with
  | .client now _ =>
    match (routedLinks s now)[i]? with
    | some l1 => l1.stallGated && l1.core.connected
    | none => false
  | _ => false

/-- Was link `i` eligible (connected, registered, not timed out, not stall-gated) when this event's
routing ran? -/
def eligAt (s : Sys F) (ev : Ev) (i : Nat) : Bool :=
  match ev with
  | .client now _ =>
    match (routedLinks s now)[i]? with
    | some l1 => l1.core.connected && l1.schedulable && !l1.isTimedOut now && !l1.stallGated
    | none => false
  | _ => false

/-- The copy enqueued on link `i` is the unique copy iff `i` is the routing decision. -/
def kindAt (s : Sys F) (ev : Ev) (i : Nat) : Kind :=
  match ev with
  | .client now pkt => if target s pkt now = some i then .unique else .probe
  | _ => .probe

/-- The tagged form of what event `ev` appends to link `i`'s queue. -/
def newCopies (s : Sys F) (ev : Ev) (tag i : Nat) : List GItem :=
  (appended s ev i).map fun it =>
    { tag := tag, kind := kindAt s ev i, gated := gatedAt s ev i, estab := s.reg.hasConnected,
      elig := eligAt s ev i, item := it }

/-- Ghost update of link `i`'s bins by one event, decided by observation of the real step:
the queue afterwards is the old queue plus what was appended (*held*); or what the event put on the
link's socket is exactly that content (*sent*); otherwise the content was *discarded* - after the first `n` copies
of it went on the socket (`n` = what the event put there: a send that failed part-way; `n = 0` for a reset or a send
that failed before anything went out): those `n` are filed under `wire`, the rest under `lost`. -/
def stepBins (s : Sys F) (ev : Ev) (k tag i : Nat) (b : Bins) : Bins :=
  let all := b.queued ++ newCopies s ev tag i
  let q := queueOf s i ++ appended s ev i
  if queueOf (step s ev).1 i = q then { b with queued := all }
  else if dataWire ev (step s ev).2 (connIdOf s i) = bytesOf q then { b with queued := [], wire := b.wire ++ all }
  else
    -- discarded, after the first `n` copies went out (a send that failed part-way; `n = 0`: nothing went out)
    let n := (dataWire ev (step s ev).2 (connIdOf s i)).length
    { b with queued := [], wire := b.wire ++ all.take n, lost := b.lost ++ (all.drop n).map fun x => (k, x) }

/-- The datagram an event makes the shell accept from the client (non-empty client datagrams). -/
def accepts : Ev → Option Bytes
  | .client _ pkt => if pkt.isEmpty then none else some pkt
  | _ => none

/-- No link can be chosen for this client datagram. -/
def noTarget (s : Sys F) : Ev → Bool
  | .client now pkt => (target s pkt now).isNone
  | _ => false

/-- The (tag, bytes) entry an event adds to the acceptance log. -/
def newAcc (next : Nat) (ev : Ev) : List (Nat × Bytes) :=
  match accepts ev with
  | some pkt => [(next, pkt)]
  | none => []

/-- One event on the instrumented state. The real component is `Sys.step`. -/
def stepG (g : G F) (ev : Ev) : G F :=
  { sys := (step g.sys ev).1
    clock := g.clock + 1
    next := g.next + (newAcc g.next ev).length
    accepted := g.accepted ++ newAcc g.next ev
    bins := g.bins.mapIdx fun i b => stepBins g.sys ev g.clock g.next i b
    dropped := g.dropped ++ (if noTarget g.sys ev then newAcc g.next ev else []) }

/-- The instrumented run. -/
def runG (g : G F) : List Ev → G F
  | [] => g
  | ev :: evs => runG (stepG g ev) evs

/-! ## Initial ghost state: whatever is queued already gets consecutive tags -/

def tagFrom (n : Nat) : List QItem → List GItem
  | [] => []
  | it :: q => { tag := n, kind := .unique, gated := false, estab := false, elig := false, item := it } ::
      tagFrom (n + 1) q

def initBins (n : Nat) : List (FLink F) → List Bins
  | [] => []
  | l :: ls => { queued := tagFrom n l.queue } :: initBins (n + l.queue.length) ls

def initAcc (n : Nat) : List (FLink F) → List (Nat × Bytes)
  | [] => []
  | l :: ls => (tagFrom n l.queue).map (fun x => (x.tag, x.bytes)) ++ initAcc (n + l.queue.length) ls

/-- The ghost state put next to a real state: every datagram already queued counts as accepted (each as
the unique copy of a datagram of its own); tags `0 … next-1` in link order, then queue order. -/
def ginit (s : Sys F) : G F :=
  { sys := s, next := (initAcc 0 s.links).length, accepted := initAcc 0 s.links, bins := initBins 0 s.links }

/-! ## Projection: erasing the ghost gives `Sys.run` -/

theorem runG_sys (g : G F) (evs : List Ev) : (runG g evs).sys = (run g.sys evs).1 := by
  induction evs generalizing g with
  | nil => rfl
  | cons ev evs ih => simp only [runG, run]; rw [ih]; rfl

theorem runG_clock (g : G F) (evs : List Ev) : (runG g evs).clock = g.clock + evs.length := by
  induction evs generalizing g with
  | nil => rfl
  | cons ev evs ih => simp only [runG, List.length_cons]; rw [ih]; simp only [stepG]; omega

theorem runG_append (g : G F) (e1 e2 : List Ev) : runG g (e1 ++ e2) = runG (runG g e1) e2 := by
  induction e1 generalizing g with
  | nil => rfl
  | cons ev evs ih => simp only [List.cons_append, runG]; exact ih _

/-! ## The observation always falls into one of three shapes -/

theorem newCopies_items (s : Sys F) (ev : Ev) (tag i : Nat) :
    (newCopies s ev tag i).map (·.item) = appended s ev i := by
  unfold newCopies
  rw [List.map_map]
  exact List.map_id _

/-- **Ghost step, one link.**  With distinct conn ids and the mirror aligned (`b.queued` erases to the
link's queue), the ghost update is exactly one of *held*, *sent*, *discarded*, and each agrees with what
the real step did to the link. -/
theorem stepBins_cases (s : Sys F) (ev : Ev) (hnd : (ids s.links).Nodup) (hnr : ev.isReload = false)
    (k tag i : Nat) (l : FLink F) (b : Bins) (hl : s.links[i]? = some l) :
    ∃ l', (step s ev).1.links[i]? = some l' ∧ l'.core.connId = l.core.connId ∧
      ((stepBins s ev k tag i b = { b with queued := b.queued ++ newCopies s ev tag i } ∧
          l'.queue = l.queue ++ appended s ev i ∧ dataWire ev (step s ev).2 l.core.connId = []) ∨
       (stepBins s ev k tag i b =
            { b with queued := [], wire := b.wire ++ (b.queued ++ newCopies s ev tag i) } ∧
          l'.queue = [] ∧ dataWire ev (step s ev).2 l.core.connId = bytesOf (l.queue ++ appended s ev i)) ∨
       (∃ n, stepBins s ev k tag i b =
            { b with queued := [], wire := b.wire ++ (b.queued ++ newCopies s ev tag i).take n,
                     lost := b.lost ++ ((b.queued ++ newCopies s ev tag i).drop n).map fun x => (k, x) } ∧
          l'.queue = [] ∧
          dataWire ev (step s ev).2 l.core.connId = (bytesOf (l.queue ++ appended s ev i)).take n ∧
          LossCause s ev i l l')) := by
  obtain ⟨-, h2⟩ := step_link s ev hnd hnr
  obtain ⟨l', g1, g2, -, -⟩ := h2 i l hl
  refine ⟨l', g1, g2.1, ?_⟩
  unfold stepBins
  simp only [queueOf_of_get hl, queueOf_of_get g1, connIdOf_of_get hl]
  rcases g2.2 with g | g | g
  · left
    rw [if_pos g.1]
    exact ⟨rfl, g.1, g.2.1⟩
  · by_cases hq : l.queue ++ appended s ev i = []
    · left
      rw [if_pos (by rw [g.1, hq])]
      refine ⟨rfl, by rw [g.1, hq], ?_⟩
      rw [g.2, hq]; rfl
    · right; left
      rw [if_neg (by rw [g.1]; exact fun h => hq h.symm), if_pos g.2]
      exact ⟨rfl, g.1, g.2⟩
  · obtain ⟨gq, ⟨k0, gk⟩, gc⟩ := g
    by_cases hq : l.queue ++ appended s ev i = []
    · left
      rw [if_pos (by rw [gq, hq])]
      exact ⟨rfl, by rw [gq, hq], by rw [gk, hq]; simp⟩
    · by_cases hfull : dataWire ev (step s ev).2 l.core.connId = bytesOf (l.queue ++ appended s ev i)
      · right; left
        rw [if_neg (by rw [gq]; exact fun h => hq h.symm), if_pos hfull]
        exact ⟨rfl, gq, hfull⟩
      · right; right
        rw [if_neg (by rw [gq]; exact fun h => hq h.symm), if_neg hfull]
        refine ⟨_, rfl, gq, ?_, gc⟩
        rw [gk, List.length_take]
        by_cases hk0 : k0 ≤ (bytesOf (l.queue ++ appended s ev i)).length
        · rw [Nat.min_eq_left hk0]
        · rw [Nat.min_eq_right (by omega), List.take_length, List.take_of_length_le (by omega)]

/-! ## Counting -/

/-- `x` is the unique copy of tag `t`. -/
def isU (t : Nat) (x : GItem) : Bool := x.tag == t && decide (x.kind = .unique)

/-- `x` is a probe copy. -/
def isP (x : GItem) : Bool := decide (x.kind = .probe)

/-- Number of unique copies of tag `t` among wire ∪ queued ∪ lost of all links, plus dropped. -/
def ucount (t : Nat) (g : G F) : Nat :=
  (g.bins.map fun b => b.all.countP (isU t)).sum + g.dropped.countP (·.1 == t)

theorem sum_mapIdx (c : Bins → Nat) (bs : List Bins) (f : Nat → Bins → Bins) (d : Nat → Nat)
    (h : ∀ i b, c (f i b) = c b + d i) :
    ((bs.mapIdx f).map c).sum = (bs.map c).sum + ((List.range bs.length).map d).sum := by
  induction bs generalizing f d with
  | nil => simp
  | cons b bs ih =>
    rw [List.mapIdx_cons, List.map_cons, List.sum_cons, List.map_cons, List.sum_cons, List.length_cons,
      List.range_succ_eq_map, List.map_cons, List.sum_cons, List.map_map,
      ih (fun i => f (i + 1)) (fun i => d (i + 1)) (fun i b => h (i + 1) b), h 0 b]
    have : (d ∘ Nat.succ) = fun i => d (i + 1) := rfl
    rw [this]
    omega

theorem sum_map_zero {α : Type} (l : List α) : (l.map fun _ => 0).sum = 0 := by
  induction l with
  | nil => rfl
  | cons a t ih => simp only [List.map_cons, List.sum_cons, ih]

theorem sum_range_ite (n sel : Nat) :
    ((List.range n).map fun i => if sel = i then 1 else 0).sum = if sel < n then 1 else 0 := by
  induction n with
  | zero => simp
  | succ n ih =>
    rw [List.range_succ, List.map_append, List.sum_append, ih]
    simp only [List.map_cons, List.map_nil, List.sum_cons, List.sum_nil]
    split <;> split <;> split <;> omega

theorem map_snd_pair (k : Nat) (l : List GItem) : (l.map fun x => (k, x)).map (·.2) = l := by
  induction l with
  | nil => rfl
  | cons a t ih => simp only [List.map_cons, ih]

theorem stepBins_all_eq (s : Sys F) (ev : Ev) (k tag i : Nat) (b : Bins) :
    (stepBins s ev k tag i b).all = b.wire ++ b.queued ++ newCopies s ev tag i ++ b.lost.map (·.2) ∨
    ∃ n, (stepBins s ev k tag i b).all =
      b.wire ++ (b.queued ++ newCopies s ev tag i).take n ++ b.lost.map (·.2) ++
        (b.queued ++ newCopies s ev tag i).drop n := by
  unfold stepBins
  dsimp only
  split
  · left; simp only [Bins.all, List.append_assoc]
  · split
    · left; simp only [Bins.all, List.append_assoc, List.append_nil]
    · right
      exact ⟨(dataWire ev (step s ev).2 (connIdOf s i)).length,
        by simp only [Bins.all, List.append_nil, List.map_append, map_snd_pair, List.append_assoc]⟩

theorem countP_take_drop {α : Type} (p : α → Bool) (n : Nat) (xs : List α) :
    (xs.take n).countP p + (xs.drop n).countP p = xs.countP p := by
  rw [← List.countP_append, List.take_append_drop]

theorem stepBins_all_count (s : Sys F) (ev : Ev) (k tag i : Nat) (b : Bins) (p : GItem → Bool) :
    (stepBins s ev k tag i b).all.countP p = b.all.countP p + (newCopies s ev tag i).countP p := by
  rcases stepBins_all_eq s ev k tag i b with h | ⟨n, h⟩
  · rw [h]; simp only [Bins.all, List.countP_append]; omega
  · rw [h]
    have := countP_take_drop p n (b.queued ++ newCopies s ev tag i)
    simp only [Bins.all, List.countP_append] at this ⊢
    omega

theorem mem_stepBins_all (s : Sys F) (ev : Ev) (k tag i : Nat) (b : Bins) (x : GItem) :
    x ∈ (stepBins s ev k tag i b).all ↔ x ∈ b.all ∨ x ∈ newCopies s ev tag i := by
  rcases stepBins_all_eq s ev k tag i b with h | ⟨n, h⟩
  · rw [h]; simp only [Bins.all, List.mem_append]; grind
  · rw [h]
    have hx : x ∈ (b.queued ++ newCopies s ev tag i).take n ∨ x ∈ (b.queued ++ newCopies s ev tag i).drop n ↔
        x ∈ b.queued ∨ x ∈ newCopies s ev tag i := by
      rw [← List.mem_append, List.take_append_drop, List.mem_append]
    simp only [Bins.all, List.mem_append] at hx ⊢
    grind

/-! ## What one event enqueues, tagged -/

/-- The routing decision of an event: the target link of a non-empty client datagram. -/
def tgt (s : Sys F) : Ev → Option Nat
  | .client now pkt => if pkt.isEmpty then none else target s pkt now
  | _ => none

theorem mem_newCopies {s : Sys F} {ev : Ev} {tag i : Nat} {x : GItem} (h : x ∈ newCopies s ev tag i) :
    x.tag = tag ∧ x.kind = kindAt s ev i ∧ x.gated = gatedAt s ev i ∧ x.estab = s.reg.hasConnected ∧
    x.elig = eligAt s ev i ∧ x.item ∈ appended s ev i := by
  unfold newCopies at h
  obtain ⟨it, hit, rfl⟩ := List.mem_map.1 h
  exact ⟨rfl, rfl, rfl, rfl, rfl, hit⟩

theorem tgt_client {s : Sys F} {ev : Ev} {sel : Nat} (h : tgt s ev = some sel) :
    ∃ now pkt, ev = .client now pkt ∧ pkt ≠ [] ∧ target s pkt now = some sel := by
  cases ev with
  | client now pkt =>
    simp only [tgt] at h
    split at h
    · cases h
    · rename_i hne
      exact ⟨now, pkt, rfl, by intro h0; subst h0; simp at hne, h⟩
  | _ => simp [tgt] at h

theorem appended_nil_of_tgt_none (s : Sys F) (ev : Ev) (i : Nat) (h : tgt s ev = none) : appended s ev i = [] := by
  cases ev with
  | client now pkt =>
    simp only [tgt] at h
    simp only [appended]
    unfold appendedClient
    split
    · rfl
    · rename_i hne
      rw [if_neg hne] at h
      rw [h]
  | _ => rfl

theorem newCopies_nil_of_tgt_none (s : Sys F) (ev : Ev) (tag i : Nat) (h : tgt s ev = none) :
    newCopies s ev tag i = [] := by
  unfold newCopies; rw [appended_nil_of_tgt_none s ev i h]; rfl

/-- At most one copy per event per link. -/
theorem newCopies_length_le (s : Sys F) (ev : Ev) (tag i : Nat) : (newCopies s ev tag i).length ≤ 1 := by
  unfold newCopies
  rw [List.length_map]
  cases ev with
  | client now pkt =>
    simp only [appended]
    rcases appendedClient_cases s pkt now i with h | h <;> rw [h] <;> simp
  | _ => simp [appended]

/-- A copy is the accepted datagram of this very event, byte for byte. -/
theorem newCopies_bytes {s : Sys F} {ev : Ev} {tag i : Nat} {x : GItem} (h : x ∈ newCopies s ev tag i) :
    accepts ev = some x.bytes := by
  obtain ⟨-, -, -, -, -, hit⟩ := mem_newCopies h
  cases ev with
  | client now pkt =>
    simp only [appended] at hit
    have hne : pkt.isEmpty = false := by
      cases hp : pkt.isEmpty
      · rfl
      · unfold appendedClient at hit; rw [if_pos hp] at hit; cases hit
    rcases appendedClient_cases s pkt now i with h0 | h0
    · rw [h0] at hit; cases hit
    · rw [h0, List.mem_singleton] at hit
      simp only [accepts, hne, Bool.false_eq_true, if_false, GItem.bytes, hit, clientItem]
  | _ => simp [appended] at hit

/-- The unique copy: on the routing decision, exactly one; elsewhere none. -/
theorem newCopies_countU (s : Sys F) (ev : Ev) (t tag i : Nat) (hi : i < s.links.length) :
    (newCopies s ev tag i).countP (isU t) = if tag = t ∧ tgt s ev = some i then 1 else 0 := by
  cases htg : tgt s ev with
  | none => rw [newCopies_nil_of_tgt_none s ev tag i htg]; simp
  | some sel =>
    obtain ⟨now, pkt, rfl, hne, ht⟩ := tgt_client htg
    have hl : s.links[i]? = some s.links[i] := List.getElem?_eq_getElem hi
    obtain ⟨l1, r1, -⟩ := routedLinks_getElem? s now i _ hl
    have happ := appendedClient_eq s pkt now i sel l1 hne ht r1
    by_cases his : i = sel
    · subst his
      rw [if_pos rfl] at happ
      simp only [newCopies, appended, happ, kindAt, ht, List.map_cons, List.map_nil, List.countP_cons,
        List.countP_nil, isU, if_true]
      by_cases htt : tag = t <;> simp [htt]
    · have : (newCopies s (.client now pkt) tag i).countP (isU t) = 0 := by
        rw [List.countP_eq_zero]
        intro x hx
        obtain ⟨-, hk, -⟩ := mem_newCopies hx
        simp only [kindAt, ht, Option.some.injEq] at hk
        rw [if_neg (fun h => his h.symm)] at hk
        simp [isU, hk]
      rw [this, if_neg]
      rintro ⟨-, h⟩
      exact his (Option.some.inj h).symm

/-- A probe copy: exactly when `stall_probe_due` was consulted and its counter fired. -/
theorem newCopies_countP (s : Sys F) (ev : Ev) (tag i : Nat) (hi : i < s.links.length) :
    (newCopies s ev tag i).countP isP =
      if consulted s ev i && decide ((s.links[i]?.map (·.probeCounter)).getD 0 + 1 ≥ 100) then 1 else 0 := by
  have hl : s.links[i]? = some s.links[i] := List.getElem?_eq_getElem hi
  cases htg : tgt s ev with
  | none =>
    rw [newCopies_nil_of_tgt_none s ev tag i htg]
    have : consulted s ev i = false := by
      cases ev with
      | client now pkt =>
        simp only [tgt] at htg
        simp only [consulted]
        unfold probeConsulted
        cases hp : pkt.isEmpty
        · rw [hp] at htg; simp only [Bool.false_eq_true, if_false] at htg; rw [htg]; simp
        · simp
      | _ => rfl
    simp [this]
  | some sel =>
    obtain ⟨now, pkt, rfl, hne, ht⟩ := tgt_client htg
    obtain ⟨l1, r1, -, -, r4, -⟩ := routedLinks_getElem? s now i _ hl
    have happ := appendedClient_eq s pkt now i sel l1 hne ht r1
    have hcon := probeConsulted_iff s pkt now i sel l1 hne ht r1
    simp only [hl, Option.map_some, Option.getD_some, consulted]
    by_cases his : i = sel
    · subst his
      have h0 : probeConsulted s pkt now i = false := by
        cases h : probeConsulted s pkt now i
        · rfl
        · exact absurd rfl (hcon.1 h).2.2.1
      rw [if_pos rfl] at happ
      simp [newCopies, appended, happ, kindAt, ht, isP, h0]
    · rw [if_neg his] at happ
      have hk : kindAt s (.client now pkt) i = .probe := by
        simp only [kindAt, ht, Option.some.injEq]; rw [if_neg (fun h => his h.symm)]
      by_cases hc : s.reg.hasConnected = true ∧ (Codec.getSrtSequenceNumberS pkt).isSome = true ∧
          l1.stallGated = true ∧ l1.core.connected = true ∧ l1.probeCounter + 1 ≥ 100
      · rw [if_pos hc] at happ
        have h1 : probeConsulted s pkt now i = true := hcon.2 ⟨hc.1, hc.2.1, his, hc.2.2.1, hc.2.2.2.1⟩
        have h2 : s.links[i].probeCounter + 1 ≥ 100 := by rw [← r4]; exact hc.2.2.2.2
        simp [newCopies, appended, happ, hk, isP, h1, h2]
      · rw [if_neg hc] at happ
        have : ¬ (probeConsulted s pkt now i = true ∧ s.links[i].probeCounter + 1 ≥ 100) := by
          rintro ⟨h1, h2⟩
          obtain ⟨a, b, -, c, d⟩ := hcon.1 h1
          exact hc ⟨a, b, c, d, by rw [r4]; exact h2⟩
        simp only [newCopies, appended, happ, List.map_nil, List.countP_nil]
        rw [if_neg]
        simpa using this

/-- Probe copies only on links that were stall-gated and connected at enqueue time; the unique copy of an
established session only on a link that was eligible (hence not gated) at enqueue time. -/
theorem newCopies_gate {s : Sys F} {ev : Ev} {tag i : Nat} {x : GItem} (h : x ∈ newCopies s ev tag i) :
    (x.kind = .probe → x.gated = true ∧ x.elig = false ∧ x.estab = true) ∧
    (x.kind = .unique → x.estab = true → x.elig = true ∧ x.gated = false) := by
  obtain ⟨-, hk, hg, he, hel, hit⟩ := mem_newCopies h
  cases htg : tgt s ev with
  | none => rw [appended_nil_of_tgt_none s ev i htg] at hit; cases hit
  | some sel =>
    obtain ⟨now, pkt, rfl, hne, ht⟩ := tgt_client htg
    simp only [appended] at hit
    have hsome : ∃ l1, (routedLinks s now)[i]? = some l1 := by
      cases hr : (routedLinks s now)[i]? with
      | some l1 => exact ⟨l1, rfl⟩
      | none => unfold appendedClient at hit; rw [hr] at hit; split at hit <;> simp at hit
    obtain ⟨l1, r1⟩ := hsome
    have happ := appendedClient_eq s pkt now i sel l1 hne ht r1
    rw [hk, hg, he, hel]
    simp only [kindAt, gatedAt, eligAt, ht, r1, Option.some.injEq]
    by_cases his : sel = i
    · subst his
      simp only [if_true, reduceCtorEq, false_implies, true_implies, true_and]
      intro hreg
      have h1 : target s pkt now = selected s pkt now := by unfold target; simp [hreg]
      have h2 : routedLinks s now = (runSelect s now).1.links := by unfold routedLinks; simp [hreg]
      rw [h1] at ht; rw [h2] at r1
      obtain ⟨l1', q1, q2, q3, q4, q5⟩ := selected_eligible s pkt now sel ht
      rw [r1] at q1; cases q1
      simp [q2, q3, q4, q5]
    · simp only [if_neg his, reduceCtorEq, false_implies, and_true, true_implies]
      rw [if_neg (fun h => his h.symm)] at happ
      split at happ
      · rename_i hc
        simp [hc.1, hc.2.2.1, hc.2.2.2.1]
      · rw [happ] at hit; cases hit

/-! ## The invariant -/

/-- What holds of every link's bins. -/
structure BinOk (next : Nat) (acc : List (Nat × Bytes)) (b : Bins) : Prop where
  /-- tags in use are below the next fresh tag -/
  fresh : ∀ x ∈ b.all, x.tag < next
  /-- wire order, then queue order, is strictly increasing tag order (= acceptance order) -/
  sorted : (b.wire ++ b.queued).Pairwise (fun x y => x.tag < y.tag)
  /-- every copy carries the bytes the client sent under its tag -/
  bytes : ∀ x ∈ b.all, (x.tag, x.bytes) ∈ acc
  /-- probe copies only on a link that was stall-gated and connected (hence not eligible) at enqueue
  time, and only in an established session -/
  probe : ∀ x ∈ b.all, x.kind = .probe → x.gated = true ∧ x.elig = false ∧ x.estab = true
  /-- in an established session the unique copy was enqueued on an eligible, not gated link -/
  unique : ∀ x ∈ b.all, x.kind = .unique → x.estab = true → x.elig = true ∧ x.gated = false

/-- The ghost invariant. -/
structure GInv (g : G F) : Prop where
  inv : Inv g.sys
  len : g.bins.length = g.sys.links.length
  /-- the queue mirror erases to the real queue -/
  aligned : ∀ (i : Nat) (b : Bins), g.bins[i]? = some b → b.queued.map (·.item) = queueOf g.sys i
  ok : ∀ (i : Nat) (b : Bins), g.bins[i]? = some b → BinOk g.next g.accepted b
  /-- tags are handed out consecutively, in acceptance order -/
  acc : g.accepted.map (·.1) = List.range g.next
  /-- **exactly one unique copy per accepted tag** among wire ∪ queued ∪ lost (all links) ∪ dropped -/
  once : ∀ t, t < g.next → ucount t g = 1
  dropped : ∀ x ∈ g.dropped, x ∈ g.accepted

theorem newAcc_cases (next : Nat) (ev : Ev) :
    (accepts ev = none ∧ newAcc next ev = []) ∨ ∃ pkt, accepts ev = some pkt ∧ newAcc next ev = [(next, pkt)] := by
  unfold newAcc
  cases accepts ev with
  | none => exact Or.inl ⟨rfl, rfl⟩
  | some pkt => exact Or.inr ⟨pkt, rfl, rfl⟩

theorem BinOk.step {next : Nat} {acc : List (Nat × Bytes)} {b : Bins} (h : BinOk next acc b)
    (s : Sys F) (ev : Ev) (k i : Nat) :
    BinOk (next + (newAcc next ev).length) (acc ++ newAcc next ev) (stepBins s ev k next i b) := by
  have hnew : ∀ x ∈ newCopies s ev next i, x.tag = next ∧ newAcc next ev = [(next, x.bytes)] := by
    intro x hx
    refine ⟨(mem_newCopies hx).1, ?_⟩
    unfold newAcc; rw [newCopies_bytes hx]
  refine ⟨?_, ?_, ?_, ?_, ?_⟩
  · intro x hx
    rcases (mem_stepBins_all _ _ _ _ _ _ _).1 hx with hx | hx
    · have := h.fresh x hx; omega
    · obtain ⟨h1, h2⟩ := hnew x hx
      rw [h1, h2]; simp
  · have hs : ((b.wire ++ b.queued) ++ newCopies s ev next i).Pairwise (fun x y => x.tag < y.tag) := by
      rw [List.pairwise_append]
      refine ⟨h.sorted, ?_, ?_⟩
      · have := newCopies_length_le s ev next i
        match hn : newCopies s ev next i, this with
        | [], _ => exact List.Pairwise.nil
        | [x], _ => exact List.pairwise_singleton _ _
      · intro a ha c hc
        rw [(hnew c hc).1]
        apply h.fresh
        simp only [Bins.all, List.mem_append] at ha ⊢
        rcases ha with ha | ha
        · exact Or.inl (Or.inl ha)
        · exact Or.inl (Or.inr ha)
    unfold stepBins
    dsimp only
    split
    · rw [← List.append_assoc]; exact hs
    · split
      · rw [List.append_nil, ← List.append_assoc]; exact hs
      · rw [List.append_nil]
        refine hs.sublist ?_
        rw [List.append_assoc]
        exact (List.take_sublist _ _).append_left _
  · intro x hx
    rcases (mem_stepBins_all _ _ _ _ _ _ _).1 hx with hx | hx
    · exact List.mem_append_left _ (h.bytes x hx)
    · obtain ⟨h1, h2⟩ := hnew x hx
      rw [h1, h2]; simp
  · intro x hx
    rcases (mem_stepBins_all _ _ _ _ _ _ _).1 hx with hx | hx
    · exact h.probe x hx
    · exact (newCopies_gate hx).1
  · intro x hx
    rcases (mem_stepBins_all _ _ _ _ _ _ _).1 hx with hx | hx
    · exact h.unique x hx
    · exact (newCopies_gate hx).2

theorem tgt_none_iff (s : Sys F) (ev : Ev) :
    tgt s ev = none ↔ (accepts ev = none ∨ noTarget s ev = true) := by
  cases ev with
  | client now pkt =>
    simp only [tgt, accepts, noTarget]
    cases pkt.isEmpty <;> simp
  | _ => simp [tgt, accepts]

theorem tgt_lt (s : Sys F) (ev : Ev) (sel : Nat) (h : tgt s ev = some sel) : sel < s.links.length := by
  obtain ⟨now, pkt, -, -, ht⟩ := tgt_client h
  exact target_in_range s pkt now sel ht

/-- The unique-copy count after one event: unchanged for old tags, one for the fresh tag if a datagram
was accepted. -/
theorem ucount_step (g : G F) (hlen : g.bins.length = g.sys.links.length) (ev : Ev) (t : Nat) :
    ucount t (stepG g ev) = ucount t g + if g.next = t ∧ (accepts ev).isSome then 1 else 0 := by
  unfold ucount
  simp only [stepG]
  rw [sum_mapIdx (fun b => b.all.countP (isU t)) g.bins _ (fun i => (newCopies g.sys ev g.next i).countP (isU t))
    (fun i b => stepBins_all_count g.sys ev g.clock g.next i b (isU t))]
  have hsum : ((List.range g.bins.length).map fun i => (newCopies g.sys ev g.next i).countP (isU t)).sum =
      if g.next = t ∧ (tgt g.sys ev).isSome then 1 else 0 := by
    have : ((List.range g.bins.length).map fun i => (newCopies g.sys ev g.next i).countP (isU t)) =
        (List.range g.bins.length).map fun i => if g.next = t ∧ tgt g.sys ev = some i then 1 else 0 := by
      apply List.map_congr_left
      intro i hi
      exact newCopies_countU g.sys ev t g.next i (by rw [← hlen]; exact List.mem_range.1 hi)
    rw [this]
    cases htg : tgt g.sys ev with
    | none => simp [sum_map_zero]
    | some sel =>
      have hsel := tgt_lt g.sys ev sel htg
      by_cases ht : g.next = t
      · simp only [ht, true_and, Option.some.injEq, Option.isSome_some, if_true]
        rw [sum_range_ite, if_pos (by omega)]
      · simp [ht, sum_map_zero]
  rw [hsum, List.countP_append]
  have hd : (if noTarget g.sys ev = true then newAcc g.next ev else []).countP (·.1 == t) =
      if g.next = t ∧ (accepts ev).isSome ∧ noTarget g.sys ev = true then 1 else 0 := by
    rcases newAcc_cases g.next ev with ⟨h1, h2⟩ | ⟨pkt, h1, h2⟩
    · rw [h2, h1]; simp
    · rw [h2, h1]
      by_cases hn : noTarget g.sys ev = true
      · by_cases ht : g.next = t <;> simp [hn, ht]
      · simp [hn]
  rw [hd]
  have hiff := tgt_none_iff g.sys ev
  cases htg : tgt g.sys ev with
  | none =>
    rcases (hiff.1 htg) with h | h
    · simp [h]
    · simp only [h, Option.isSome_none, Bool.false_eq_true, and_false, if_false, and_true]; omega
  | some sel =>
    have h1 : accepts ev ≠ none := fun h => by rw [hiff.2 (Or.inl h)] at htg; cases htg
    have h2 : noTarget g.sys ev = false := by
      cases h : noTarget g.sys ev
      · rfl
      · rw [hiff.2 (Or.inr h)] at htg; cases htg
    have h3 : (accepts ev).isSome = true := by
      cases ha : accepts ev with
      | none => exact absurd ha h1
      | some _ => rfl
    simp only [Option.isSome_some, and_true, h3, h2, Bool.false_eq_true, and_false, if_false]; omega

theorem stepG_bins_get (g : G F) (ev : Ev) (i : Nat) :
    (stepG g ev).bins[i]? = (g.bins[i]?).map (stepBins g.sys ev g.clock g.next i) := by
  simp only [stepG, List.getElem?_mapIdx]

theorem bins_get_of_lt {g : G F} (hlen : g.bins.length = g.sys.links.length) {i : Nat} (hi : i < g.sys.links.length) :
    ∃ b, g.bins[i]? = some b := ⟨g.bins[i]'(by omega), List.getElem?_eq_getElem (by omega)⟩

/-- **The invariant is preserved by every event.** -/
theorem GInv.step {g : G F} (h : GInv g) (ev : Ev) (hnr : ev.isReload = false) : GInv (stepG g ev) := by
  have hlen' : (stepG g ev).bins.length = (stepG g ev).sys.links.length := by
    simp only [stepG, List.length_mapIdx]
    rw [h.len, (step_link g.sys ev h.inv.nodup hnr).1]
  refine ⟨h.inv.step ev hnr, hlen', ?_, ?_, ?_, ?_, ?_⟩
  · -- alignment
    intro i b' hb'
    rw [stepG_bins_get] at hb'
    cases hb : g.bins[i]? with
    | none => rw [hb] at hb'; cases hb'
    | some b =>
      rw [hb] at hb'; simp only [Option.map_some, Option.some.injEq] at hb'
      have hi : i < g.sys.links.length := by
        rw [← h.len]; exact (List.getElem?_eq_some_iff.1 hb).1
      have hl : g.sys.links[i]? = some g.sys.links[i] := List.getElem?_eq_getElem hi
      obtain ⟨l', g1, -, hc⟩ := stepBins_cases g.sys ev h.inv.nodup hnr g.clock g.next i _ b hl
      have hal := h.aligned i b hb
      rw [queueOf_of_get hl] at hal
      show b'.queued.map (·.item) = queueOf (Sys.step g.sys ev).1 i
      rw [queueOf_of_get g1, ← hb']
      rcases hc with ⟨e, q, -⟩ | ⟨e, q, -⟩ | ⟨n, e, q, -⟩
      · rw [e, q, List.map_append, hal, newCopies_items]
      · rw [e, q]; rfl
      · rw [e, q]; rfl
  · -- per-link bins
    intro i b' hb'
    rw [stepG_bins_get] at hb'
    cases hb : g.bins[i]? with
    | none => rw [hb] at hb'; cases hb'
    | some b =>
      rw [hb] at hb'; simp only [Option.map_some, Option.some.injEq] at hb'
      rw [← hb']
      exact (h.ok i b hb).step g.sys ev g.clock i
  · -- consecutive tags
    simp only [stepG, List.map_append, h.acc]
    rcases newAcc_cases g.next ev with ⟨-, e⟩ | ⟨pkt, -, e⟩
    · rw [e]; simp
    · rw [e]; simp [List.range_succ]
  · -- exactly once
    intro t ht
    rw [ucount_step g h.len ev t]
    have hnext : (stepG g ev).next = g.next + (newAcc g.next ev).length := rfl
    rw [hnext] at ht
    by_cases hlt : t < g.next
    · rw [h.once t hlt, if_neg (by omega)]
    · -- the fresh tag: unused so far
      have hnew : (newAcc g.next ev).length = 1 ∧ (accepts ev).isSome = true := by
        rcases newAcc_cases g.next ev with ⟨-, e⟩ | ⟨pkt, e1, e⟩
        · rw [e] at ht; simp at ht; omega
        · rw [e, e1]; simp
      have ht' : g.next = t := by omega
      have h0 : ucount t g = 0 := by
        unfold ucount
        have h1 : (g.bins.map fun b => b.all.countP (isU t)) = g.bins.map fun _ => 0 := by
          apply List.map_congr_left
          intro b hb
          obtain ⟨i, hi, hget⟩ := List.getElem_of_mem hb
          have hok := h.ok i b (by rw [List.getElem?_eq_getElem hi, hget])
          rw [List.countP_eq_zero]
          intro x hx
          have := hok.fresh x hx
          simp only [isU, Bool.and_eq_true, beq_iff_eq, not_and]
          intro h; omega
        have h2 : g.dropped.countP (·.1 == t) = 0 := by
          rw [List.countP_eq_zero]
          intro x hx
          have hm : x.1 ∈ g.accepted.map (·.1) := List.mem_map.2 ⟨x, h.dropped x hx, rfl⟩
          rw [h.acc, List.mem_range] at hm
          simp only [beq_iff_eq]; omega
        rw [h1, h2, sum_map_zero]
      rw [h0, if_pos ⟨ht', hnew.2⟩]
  · -- dropped ⊆ accepted
    intro x hx
    simp only [stepG, List.mem_append] at hx ⊢
    rcases hx with hx | hx
    · exact Or.inl (h.dropped x hx)
    · split at hx
      · exact Or.inr hx
      · cases hx

/-- **…hence along every run.** -/
theorem GInv.run {g : G F} (h : GInv g) (evs : List Ev) (hnr : NoReload evs) : GInv (runG g evs) := by
  induction evs generalizing g with
  | nil => exact h
  | cons ev evs ih => exact ih (h.step ev hnr.head) hnr.tail

/-! ## The ghost bins against the real logs of the run -/

theorem bytes_of_items (xs : List GItem) : xs.map (·.bytes) = bytesOf (xs.map (·.item)) := by
  simp only [bytesOf, List.map_map]; rfl

/-- **The wire bin is the real wire log**: erased to bytes, what the ghost filed under `wire` for link `i`
during a run is exactly what the run's events put on that link's socket (data path), in order. -/
theorem runG_wire (g : G F) (h : GInv g) (evs : List Ev) (hnr : NoReload evs) (i : Nat) (b b' : Bins) (hb : g.bins[i]? = some b)
    (hb' : (runG g evs).bins[i]? = some b') :
    b'.wire.map (·.bytes) = b.wire.map (·.bytes) ++ wireLog g.sys evs i := by
  induction evs generalizing g b with
  | nil => simp only [runG] at hb'; rw [hb] at hb'; cases hb'; simp [wireLog]
  | cons ev evs ih =>
    simp only [runG] at hb'
    have hi : i < g.sys.links.length := by rw [← h.len]; exact (List.getElem?_eq_some_iff.1 hb).1
    have hl : g.sys.links[i]? = some g.sys.links[i] := List.getElem?_eq_getElem hi
    have hb1 : (stepG g ev).bins[i]? = some (stepBins g.sys ev g.clock g.next i b) := by
      rw [stepG_bins_get, hb]; rfl
    rw [ih (stepG g ev) (h.step ev hnr.head) hnr.tail _ hb1 hb']
    simp only [wireLog, connIdOf_of_get hl]
    have hal := h.aligned i b hb
    rw [queueOf_of_get hl] at hal
    obtain ⟨l', -, -, hc⟩ := stepBins_cases g.sys ev h.inv.nodup hnr.head g.clock g.next i _ b hl
    have hsys : (stepG g ev).sys = (Sys.step g.sys ev).1 := rfl
    rw [hsys, ← List.append_assoc]
    congr 1
    rcases hc with ⟨e, -, w⟩ | ⟨e, -, w⟩ | ⟨n, e, -, w, -⟩
    · rw [e, w]; simp
    · rw [e, w, List.map_append, bytes_of_items (b.queued ++ _), List.map_append, hal, newCopies_items]
    · rw [e, w, List.map_append, List.map_take, bytes_of_items (b.queued ++ _), List.map_append, hal,
        newCopies_items]

/-- Number of probe copies ever enqueued on a link. -/
def Bins.probes (b : Bins) : Nat := b.all.countP isP

/-- **The probe copies of the ghost are the probe copies counted by `C01_probe_rate`.** -/
theorem runG_probes (g : G F) (h : GInv g) (evs : List Ev) (hnr : NoReload evs) (i : Nat) (b b' : Bins)
    (hb : g.bins[i]? = some b) (hb' : (runG g evs).bins[i]? = some b') :
    b'.probes = b.probes + probeCopies g.sys evs i := by
  induction evs generalizing g b with
  | nil => simp only [runG] at hb'; rw [hb] at hb'; cases hb'; simp [probeCopies]
  | cons ev evs ih =>
    simp only [runG] at hb'
    have hi : i < g.sys.links.length := by rw [← h.len]; exact (List.getElem?_eq_some_iff.1 hb).1
    have hb1 : (stepG g ev).bins[i]? = some (stepBins g.sys ev g.clock g.next i b) := by
      rw [stepG_bins_get, hb]; rfl
    rw [ih (stepG g ev) (h.step ev hnr.head) hnr.tail _ hb1 hb']
    simp only [probeCopies, Bins.probes]
    rw [stepBins_all_count, newCopies_countP g.sys ev g.next i hi]
    have hsys : (stepG g ev).sys = (Sys.step g.sys ev).1 := rfl
    rw [hsys]; omega

/-- **The acceptance log is the list of non-empty client datagrams of the run, in order.** -/
theorem runG_accepted (g : G F) (evs : List Ev) :
    (runG g evs).accepted.map (·.2) = g.accepted.map (·.2) ++ evs.filterMap accepts := by
  induction evs generalizing g with
  | nil => simp [runG]
  | cons ev evs ih =>
    simp only [runG]
    rw [ih]
    simp only [stepG, List.map_append, List.append_assoc]
    congr 1
    rcases newAcc_cases g.next ev with ⟨e1, e⟩ | ⟨pkt, e1, e⟩
    · rw [e, List.filterMap_cons, e1]; rfl
    · rw [e, List.filterMap_cons, e1]; rfl

/-- **Nothing is filed under `lost` without a cause.**  Every entry the run adds to link `i`'s `lost` bin
carries the index `k` of an event of the run, and that event — applied to the state the run had reached —
discarded link `i`'s queue for one of the four admissible reasons (`LossCause`). -/
theorem runG_lost (g : G F) (h : GInv g) (evs : List Ev) (hnr : NoReload evs) (i : Nat) (b b' : Bins) (hb : g.bins[i]? = some b)
    (hb' : (runG g evs).bins[i]? = some b') :
    ∃ extra, b'.lost = b.lost ++ extra ∧ ∀ kx ∈ extra, ∃ k ev l l', kx.1 = g.clock + k ∧ evs[k]? = some ev ∧
      (run g.sys (evs.take k)).1.links[i]? = some l ∧
      (Sys.step (run g.sys (evs.take k)).1 ev).1.links[i]? = some l' ∧
      LossCause (run g.sys (evs.take k)).1 ev i l l' := by
  induction evs generalizing g b with
  | nil => simp only [runG] at hb'; rw [hb] at hb'; cases hb'; exact ⟨[], by simp, by simp⟩
  | cons ev evs ih =>
    simp only [runG] at hb'
    have hi : i < g.sys.links.length := by rw [← h.len]; exact (List.getElem?_eq_some_iff.1 hb).1
    have hl : g.sys.links[i]? = some g.sys.links[i] := List.getElem?_eq_getElem hi
    have hb1 : (stepG g ev).bins[i]? = some (stepBins g.sys ev g.clock g.next i b) := by
      rw [stepG_bins_get, hb]; rfl
    obtain ⟨extra1, e1, hx1⟩ := ih (stepG g ev) (h.step ev hnr.head) hnr.tail _ hb1 hb'
    obtain ⟨l', g1, -, hc⟩ := stepBins_cases g.sys ev h.inv.nodup hnr.head g.clock g.next i _ b hl
    have hshift : ∀ kx ∈ extra1, ∃ k ev' l l', kx.1 = g.clock + k ∧ (ev :: evs)[k]? = some ev' ∧
        (run g.sys ((ev :: evs).take k)).1.links[i]? = some l ∧
        (Sys.step (run g.sys ((ev :: evs).take k)).1 ev').1.links[i]? = some l' ∧
        LossCause (run g.sys ((ev :: evs).take k)).1 ev' i l l' := by
      intro kx hkx
      obtain ⟨k, ev', l, l2, q1, q2, q3, q4, q5⟩ := hx1 kx hkx
      refine ⟨k + 1, ev', l, l2, ?_, by simpa using q2, ?_, ?_, ?_⟩
      · rw [q1]; simp only [stepG]; omega
      · simp only [List.take_succ_cons, run]; exact q3
      · simp only [List.take_succ_cons, run]; exact q4
      · simp only [List.take_succ_cons, run]; exact q5
    rcases hc with ⟨e, -, -⟩ | ⟨e, -, -⟩ | ⟨n, e, -, -, hcause⟩
    · exact ⟨extra1, by rw [e1, e], hshift⟩
    · exact ⟨extra1, by rw [e1, e], hshift⟩
    · refine ⟨((b.queued ++ newCopies g.sys ev g.next i).drop n).map (fun x => (g.clock, x)) ++ extra1,
        by rw [e1, e, List.append_assoc], ?_⟩
      intro kx hkx
      rcases List.mem_append.1 hkx with hkx | hkx
      · obtain ⟨x, -, rfl⟩ := List.mem_map.1 hkx
        exact ⟨0, ev, _, l', rfl, rfl, hl, g1, hcause⟩
      · exact hshift kx hkx

/-! ## The initial ghost state -/

theorem mem_tagFrom {n : Nat} {q : List QItem} {x : GItem} (h : x ∈ tagFrom n q) :
    n ≤ x.tag ∧ x.tag < n + q.length ∧ x.kind = .unique ∧ x.estab = false := by
  induction q generalizing n with
  | nil => cases h
  | cons it q ih =>
    simp only [tagFrom, List.mem_cons] at h
    rcases h with rfl | h
    · simp
    · obtain ⟨h1, h2, h3, h4⟩ := ih h
      simp only [List.length_cons]
      exact ⟨by omega, by omega, h3, h4⟩

theorem tagFrom_items (n : Nat) (q : List QItem) : (tagFrom n q).map (·.item) = q := by
  induction q generalizing n with
  | nil => rfl
  | cons it q ih => simp only [tagFrom, List.map_cons, ih]

theorem tagFrom_length (n : Nat) (q : List QItem) : (tagFrom n q).length = q.length := by
  rw [← List.length_map (f := (·.item)), tagFrom_items]

theorem tagFrom_tags (n : Nat) (q : List QItem) : (tagFrom n q).map (·.tag) = List.range' n q.length := by
  induction q generalizing n with
  | nil => rfl
  | cons it q ih => simp only [tagFrom, List.map_cons, ih, List.length_cons, List.range'_succ]

theorem tagFrom_sorted (n : Nat) (q : List QItem) : (tagFrom n q).Pairwise (fun x y => x.tag < y.tag) := by
  induction q generalizing n with
  | nil => exact List.Pairwise.nil
  | cons it q ih =>
    simp only [tagFrom, List.pairwise_cons]
    exact ⟨fun y hy => by have := (mem_tagFrom hy).1; omega, ih _⟩

theorem tagFrom_countU (t n : Nat) (q : List QItem) :
    (tagFrom n q).countP (isU t) = if n ≤ t ∧ t < n + q.length then 1 else 0 := by
  induction q generalizing n with
  | nil => simp [tagFrom]
  | cons it q ih =>
    simp only [tagFrom, List.countP_cons, ih, List.length_cons, isU, decide_true, Bool.and_true, beq_iff_eq]
    split <;> split <;> split <;> omega

theorem initAcc_length_indep (n m : Nat) (ls : List (FLink F)) : (initAcc n ls).length = (initAcc m ls).length := by
  induction ls generalizing n m with
  | nil => rfl
  | cons l ls ih =>
    simp only [initAcc, List.length_append, List.length_map, tagFrom_length]
    rw [ih (n + l.queue.length) (m + l.queue.length)]

theorem initAcc_tags (n : Nat) (ls : List (FLink F)) :
    (initAcc n ls).map (·.1) = List.range' n (initAcc n ls).length := by
  induction ls generalizing n with
  | nil => rfl
  | cons l ls ih =>
    simp only [initAcc, List.map_append, List.map_map, List.length_append, List.length_map, tagFrom_length]
    rw [ih, ← List.range'_append_1]
    congr 1
    exact tagFrom_tags n l.queue

theorem initBins_length (n : Nat) (ls : List (FLink F)) : (initBins n ls).length = ls.length := by
  induction ls generalizing n with
  | nil => rfl
  | cons l ls ih => simp only [initBins, List.length_cons, ih]

theorem initBins_spec (n : Nat) (ls : List (FLink F)) (i : Nat) (b : Bins) (hb : (initBins n ls)[i]? = some b) :
    ∃ m l, ls[i]? = some l ∧ b = { queued := tagFrom m l.queue } ∧
      m + l.queue.length ≤ n + (initAcc n ls).length ∧
      ∀ x ∈ tagFrom m l.queue, (x.tag, x.bytes) ∈ initAcc n ls := by
  induction ls generalizing n i with
  | nil => simp [initBins] at hb
  | cons l ls ih =>
    cases i with
    | zero =>
      simp only [initBins, List.getElem?_cons_zero, Option.some.injEq] at hb
      refine ⟨n, l, rfl, hb.symm, ?_, ?_⟩
      · simp only [initAcc, List.length_append, List.length_map, tagFrom_length]; omega
      · intro x hx
        simp only [initAcc, List.mem_append]
        exact Or.inl (List.mem_map.2 ⟨x, hx, rfl⟩)
    | succ i =>
      simp only [initBins, List.getElem?_cons_succ] at hb
      obtain ⟨m, l0, h1, h2, h3, h4⟩ := ih _ i hb
      refine ⟨m, l0, by simpa using h1, h2, ?_, ?_⟩
      · simp only [initAcc, List.length_append, List.length_map, tagFrom_length]; omega
      · intro x hx
        simp only [initAcc, List.mem_append]
        exact Or.inr (h4 x hx)

theorem initBins_countU (t n : Nat) (ls : List (FLink F)) :
    ((initBins n ls).map fun b => b.all.countP (isU t)).sum =
      if n ≤ t ∧ t < n + (initAcc n ls).length then 1 else 0 := by
  induction ls generalizing n with
  | nil =>
    have : (initAcc n ([] : List (FLink F))).length = 0 := rfl
    rw [this]
    simp only [initBins, List.map_nil, List.sum_nil]
    split
    · omega
    · rfl
  | cons l ls ih =>
    have hhead : (({ queued := tagFrom n l.queue } : Bins).all).countP (isU t) =
        if n ≤ t ∧ t < n + l.queue.length then 1 else 0 := by
      rw [← tagFrom_countU]; simp [Bins.all]
    simp only [initBins, List.map_cons, List.sum_cons, ih, initAcc, List.length_append, List.length_map,
      tagFrom_length, hhead]
    split <;> split <;> split <;> omega

/-- **The invariant holds initially**, whatever is queued already. -/
theorem ginit_inv (s : Sys F) (h : Inv s) : GInv (ginit s) := by
  refine ⟨h, initBins_length 0 s.links, ?_, ?_, ?_, ?_, ?_⟩
  · intro i b hb
    obtain ⟨m, l, h1, h2, -, -⟩ := initBins_spec 0 s.links i b hb
    rw [h2]
    show (tagFrom m l.queue).map (·.item) = queueOf s i
    rw [tagFrom_items, queueOf_of_get h1]
  · intro i b hb
    obtain ⟨m, l, h1, h2, h3, h4⟩ := initBins_spec 0 s.links i b hb
    have hall : b.all = tagFrom m l.queue := by rw [h2]; simp [Bins.all]
    refine ⟨?_, ?_, ?_, ?_, ?_⟩
    · intro x hx
      rw [hall] at hx
      have := (mem_tagFrom hx).2.1
      show x.tag < (initAcc 0 s.links).length
      omega
    · rw [h2]; simpa using tagFrom_sorted m l.queue
    · intro x hx; rw [hall] at hx; exact h4 x hx
    · intro x hx hk; rw [hall] at hx; rw [(mem_tagFrom hx).2.2.1] at hk; cases hk
    · intro x hx _ he; rw [hall] at hx; rw [(mem_tagFrom hx).2.2.2] at he; cases he
  · show (initAcc 0 s.links).map (·.1) = List.range (initAcc 0 s.links).length
    rw [initAcc_tags, List.range_eq_range']
  · intro t ht
    unfold ucount
    show ((initBins 0 s.links).map fun b => b.all.countP (isU t)).sum + _ = 1
    rw [initBins_countU]
    have ht' : t < (initAcc 0 s.links).length := ht
    rw [if_pos ⟨by omega, by omega⟩]
    rfl
  · intro x hx; cases hx

theorem ginit_bins (s : Sys F) (i : Nat) (b : Bins) (hb : (ginit s).bins[i]? = some b) :
    b.wire = [] ∧ b.lost = [] ∧ b.probes = 0 := by
  obtain ⟨m, l, -, h2, -, -⟩ := initBins_spec 0 s.links i b hb
  refine ⟨by rw [h2], by rw [h2], ?_⟩
  unfold Bins.probes
  rw [List.countP_eq_zero]
  intro x hx
  have hx' : x ∈ tagFrom m l.queue := by rw [h2] at hx; simpa [Bins.all] using hx
  simp [isP, (mem_tagFrom hx').2.2.1]

theorem run_length (s : Sys F) (h : Inv s) (evs : List Ev) (hnr : NoReload evs) :
    (run s evs).1.links.length = s.links.length := by
  induction evs generalizing s with
  | nil => rfl
  | cons ev evs ih =>
    simp only [run]
    rw [ih _ (h.step ev hnr.head) hnr.tail, (step_link s ev h.nodup hnr.head).1]

/-- The bins of link `i` after a run from `ginit s`, with the bins it started from. -/
theorem runG_bins_get (g : G F) (evs : List Ev) (i : Nat) (b' : Bins) (hb' : (runG g evs).bins[i]? = some b') :
    ∃ b, g.bins[i]? = some b := by
  induction evs generalizing g b' with
  | nil => exact ⟨b', hb'⟩
  | cons ev evs ih =>
    simp only [runG] at hb'
    obtain ⟨b1, hb1⟩ := ih _ _ hb'
    rw [stepG_bins_get] at hb1
    cases hb : g.bins[i]? with
    | none => rw [hb] at hb1; cases hb1
    | some b => exact ⟨b, rfl⟩

/-! ## The `dropped` bin, entry by entry (audit round 2) -/

/-- **Bookkeeping of the `dropped` list.**  Every entry a run adds to `dropped` names a `client` event of the run
(`evs[k]`) carrying a NON-EMPTY datagram; the entry is that datagram under the tag that was fresh when the event
was processed (the `next` counter after the first `k` events); and the routing decision of that event, in the
state the run had reached, was `none`. -/
theorem runG_dropped (g : G F) (evs : List Ev) :
    ∃ extra, (runG g evs).dropped = g.dropped ++ extra ∧ ∀ x ∈ extra, ∃ k now pkt,
      evs[k]? = some (.client now pkt) ∧ pkt.isEmpty = false ∧ x = ((runG g (evs.take k)).next, pkt) ∧
      target (run g.sys (evs.take k)).1 pkt now = none := by
  induction evs generalizing g with
  | nil => exact ⟨[], by simp [runG], by simp⟩
  | cons ev evs ih =>
    obtain ⟨extra1, e1, hx1⟩ := ih (stepG g ev)
    simp only [runG]
    refine ⟨(if noTarget g.sys ev then newAcc g.next ev else []) ++ extra1, ?_, ?_⟩
    · rw [e1]; simp only [stepG, List.append_assoc]
    · intro x hx
      rcases List.mem_append.1 hx with hx | hx
      · -- the head event dropped its datagram
        split at hx
        · rename_i hnt
          cases ev with
          | client now pkt =>
            simp only [noTarget, Option.isNone_iff_eq_none] at hnt
            unfold newAcc accepts at hx
            by_cases hpe : pkt.isEmpty = true
            · simp [hpe] at hx
            · simp only [hpe, Bool.false_eq_true, if_false, List.mem_singleton] at hx
              exact ⟨0, now, pkt, rfl, by simpa using hpe, by rw [hx]; rfl, hnt⟩
          | _ => simp [noTarget] at hnt
        · cases hx
      · obtain ⟨k, now, pkt, q1, q2, q3, q4⟩ := hx1 x hx
        refine ⟨k + 1, now, pkt, by simpa using q1, q2, ?_, ?_⟩
        · simp only [List.take_succ_cons, runG]; exact q3
        · simp only [List.take_succ_cons, run]; exact q4

/-- `select_pre_registration_connection` returns nothing only when EVERY link is timed out at that clock. -/
theorem selectPreRegistration_none (ls : List (FLink F)) (last : Option Nat) (now : Nat)
    (h : selectPreRegistration ls last now = none) : ∀ l ∈ ls, l.isTimedOut now = true := by
  have fin : List.findIdx? (fun (c : FLink F) => !c.isTimedOut now) ls = none → ∀ l ∈ ls, l.isTimedOut now = true := by
    intro h l hl
    have := List.findIdx?_eq_none_iff.1 h l hl
    simpa using this
  unfold selectPreRegistration at h
  dsimp only at h
  cases last with
  | none => simp only [Bool.false_eq_true, if_false] at h; exact fin h
  | some i =>
    dsimp only at h
    cases hl : ls[i]? with
    | none => simp only [hl, Bool.false_eq_true, if_false] at h; exact fin h
    | some c =>
      simp only [hl] at h
      split at h
      · cases h
      · exact fin h

end Srtla.Sys.Ghost
