import Srtla.Model.Conn
/-! Packet-log lemmas: key sets of the log under every operation (core Lean only). -/
namespace Srtla.Conn
open Srtla.Gen

/-- Set-style spec operations on a link's "sent and not yet retired" list. -/
def specRegister (k : List Int) (s : Int) : List Int := if s ∈ k then k else k ++ [s]
def specCumAck (k : List Int) (a : Int) : List Int := k.filter (fun s => decide (s > a))
def specErase (k : List Int) (s : Int) : List Int := k.filter (fun x => x != s)

theorem keys_replace (log : List (Int × Nat)) (s : Int) (t : Nat) :
    (log.map (fun e => if e.1 == s then (s, t) else e)).map Prod.fst = log.map Prod.fst := by
  rw [List.map_map]
  apply List.map_congr_left
  intro e _
  simp only [Function.comp]
  split
  · rename_i h; simp only [beq_iff_eq] at h; exact h.symm
  · rfl

theorem any_iff_mem_keys (log : List (Int × Nat)) (s : Int) :
    log.any (·.1 == s) = true ↔ s ∈ log.map Prod.fst := by
  simp only [List.any_eq_true, beq_iff_eq, List.mem_map]

theorem keys_logInsert (log : List (Int × Nat)) (s : Int) (t : Nat) :
    (logInsert log s t).map Prod.fst = specRegister (log.map Prod.fst) s := by
  unfold logInsert specRegister
  by_cases h : log.any (·.1 == s) = true
  · rw [if_pos h, if_pos ((any_iff_mem_keys log s).mp h)]
    exact keys_replace log s t
  · rw [if_neg h, if_neg (fun hm => h ((any_iff_mem_keys log s).mpr hm))]
    simp

theorem keys_filter (log : List (Int × Nat)) (p : Int → Bool) :
    (log.filter (fun e => p e.1)).map Prod.fst = (log.map Prod.fst).filter p := by
  induction log with
  | nil => rfl
  | cons e rest ih =>
    simp only [List.filter_cons, List.map_cons]
    split <;> simp [ih]

theorem keys_logErase (log : List (Int × Nat)) (s : Int) :
    (logErase log s).map Prod.fst = specErase (log.map Prod.fst) s := by
  unfold logErase specErase
  exact keys_filter log (fun x => x != s)

/-- The invariant the cumulative-ACK fast path relies on. -/
structure LogInv (c : Conn) : Prop where
  nodup : c.keys.Nodup
  above : ∀ s ∈ c.keys, c.highestAcked < s
  count : c.inFlight = c.keys.length

theorem specRegister_nodup (k : List Int) (s : Int) (h : k.Nodup) : (specRegister k s).Nodup := by
  unfold specRegister
  split
  · exact h
  · rename_i hs
    rw [List.nodup_append]
    refine ⟨h, by simp, ?_⟩
    intro a ha b hb
    simp at hb
    subst hb
    intro hab
    subst hab
    exact hs ha

theorem mem_specRegister (k : List Int) (s x : Int) : x ∈ specRegister k s ↔ x = s ∨ x ∈ k := by
  unfold specRegister
  split
  · rename_i h
    constructor
    · intro hx; exact Or.inr hx
    · rintro (rfl | hx)
      · exact h
      · exact hx
  · simp [or_comm]

end Srtla.Conn

namespace Srtla.Conn
open Srtla.Gen

@[simp] theorem keys_def (c : Conn) : c.keys = c.log.map Prod.fst := rfl

theorem register_keys (c : Conn) (s : Int) (t : Nat) :
    (c.register s t).keys = specRegister c.keys s := by
  simp only [Conn.register, keys_def, keys_logInsert]

theorem register_inv (c : Conn) (s : Int) (t : Nat) (h : LogInv c) (hs : I32_MIN < s) :
    LogInv (c.register s t) := by
  have hk := register_keys c s t
  refine ⟨?_, ?_, ?_⟩
  · rw [hk]; exact specRegister_nodup _ _ h.nodup
  · intro x hx
    rw [hk, mem_specRegister] at hx
    simp only [Conn.register]
    split
    · rcases hx with rfl | hx
      · exact hs
      · have := h.above x hx
        have : I32_MIN ≤ c.highestAcked ∨ c.highestAcked < I32_MIN := by omega
        by_cases hm : I32_MIN ≤ c.highestAcked
        · omega
        · -- highestAcked below i32::MIN cannot be compared; fall back on hs-style bound
          omega
    · rename_i hlt
      rcases hx with rfl | hx
      · omega
      · exact h.above x hx
  · simp only [Conn.register, keys_def, List.length_map]

/-- **Key lemma**: whatever the high-water mark was, a cumulative ACK leaves exactly the logged
numbers above it. -/
theorem srtAck_keys (c : Conn) (a : Int) (now : Nat) (h : LogInv c) :
    (c.srtAck a now).1.keys = specCumAck c.keys a := by
  unfold Conn.srtAck specCumAck
  split
  · -- duplicate / stale ACK: nothing at or below it is logged
    rename_i hle
    simp only [keys_def]
    symm
    apply List.filter_eq_self.mpr
    intro x hx
    have := h.above x hx
    simp only [decide_eq_true_eq]
    omega
  · rename_i hgt
    dsimp only
    split
    · -- fast path: remove (old, ack]
      simp only [keys_def]
      rw [keys_filter c.log (fun s => !(decide (c.highestAcked < s) && decide (s ≤ a)))]
      apply List.filter_congr
      intro x hx
      have := h.above x hx
      have h1 : decide (c.highestAcked < x) = true := by simpa using this
      by_cases h2 : x ≤ a
      · have h3 : ¬ (x > a) := by omega
        simp [h1, h2, h3]
      · have h3 : x > a := by omega
        simp [h1, h2, h3]
    · simp only [keys_def]
      exact keys_filter c.log (fun s => decide (s > a))

theorem srtAck_inv (c : Conn) (a : Int) (now : Nat) (h : LogInv c) : LogInv (c.srtAck a now).1 := by
  have hk := srtAck_keys c a now h
  refine ⟨?_, ?_, ?_⟩
  · rw [hk]; exact List.Nodup.sublist (List.filter_sublist) h.nodup
  · intro x hx
    rw [hk] at hx
    simp only [specCumAck, List.mem_filter, decide_eq_true_eq] at hx
    unfold Conn.srtAck
    split
    · exact h.above x hx.1
    · dsimp only; omega
  · unfold Conn.srtAck
    split
    · exact h.count
    · simp only [keys_def, List.length_map]

theorem nak_keys (c : Conn) (s : Int) (now : Nat) :
    (c.nak s now).1.keys = specErase c.keys s := by
  unfold Conn.nak
  split
  · simp only [keys_def, keys_logErase]
  · rename_i hn
    simp only [keys_def, specErase]
    symm
    apply List.filter_eq_self.mpr
    intro x hx
    simp only [bne_iff_ne, ne_eq]
    intro hxs
    subst hxs
    exact hn ((any_iff_mem_keys c.log x).mpr hx)

theorem srtlaAck_keys (c : Conn) (s : Int) (cl : Bool) (now : Nat) :
    (c.srtlaAck s cl now).1.keys = specErase c.keys s := by
  unfold Conn.srtlaAck
  split
  · split <;> simp only [keys_def, keys_logErase]
  · rename_i hn
    simp only [keys_def, specErase]
    symm
    apply List.filter_eq_self.mpr
    intro x hx
    simp only [bne_iff_ne, ne_eq]
    intro hxs
    subst hxs
    exact hn ((any_iff_mem_keys c.log x).mpr hx)

theorem specErase_inv_helper (k : List Int) (s : Int) (h : k.Nodup) : (specErase k s).Nodup :=
  List.Nodup.sublist (List.filter_sublist) h

theorem nak_inv (c : Conn) (s : Int) (now : Nat) (h : LogInv c) : LogInv (c.nak s now).1 := by
  have hk := nak_keys c s now
  refine ⟨by rw [hk]; exact specErase_inv_helper _ _ h.nodup, ?_, ?_⟩
  · intro x hx
    rw [hk] at hx
    have hx' : x ∈ c.keys := (List.mem_filter.mp hx).1
    have := h.above x hx'
    unfold Conn.nak; split <;> exact this
  · unfold Conn.nak; split
    · simp only [keys_def, List.length_map]
    · exact h.count

theorem srtlaAck_inv (c : Conn) (s : Int) (cl : Bool) (now : Nat) (h : LogInv c) :
    LogInv (c.srtlaAck s cl now).1 := by
  have hk := srtlaAck_keys c s cl now
  refine ⟨by rw [hk]; exact specErase_inv_helper _ _ h.nodup, ?_, ?_⟩
  · intro x hx
    rw [hk] at hx
    have hx' : x ∈ c.keys := (List.mem_filter.mp hx).1
    have := h.above x hx'
    unfold Conn.srtlaAck; split
    · split <;> exact this
    · exact this
  · unfold Conn.srtlaAck; split
    · split <;> simp only [keys_def, List.length_map]
    · exact h.count

theorem ackGlobal_keys (c : Conn) : c.ackGlobal.keys = c.keys ∧ (LogInv c → LogInv c.ackGlobal) := by
  unfold Conn.ackGlobal
  split
  · exact ⟨rfl, fun h => ⟨h.nodup, h.above, h.count⟩⟩
  · exact ⟨rfl, id⟩

theorem reset_inv (c : Conn) (now : Nat) :
    LogInv c.markForRecovery ∧ LogInv c.resetForReconnect ∧ LogInv (c.clearPreRegistration now) ∧
    c.markForRecovery.keys = [] ∧ c.resetForReconnect.keys = [] ∧ (c.clearPreRegistration now).keys = [] := by
  refine ⟨⟨?_, ?_, ?_⟩, ⟨?_, ?_, ?_⟩, ⟨?_, ?_, ?_⟩, rfl, rfl, rfl⟩ <;>
    simp [Conn.markForRecovery, Conn.resetForReconnect, Conn.resetCore, Conn.clearPreRegistration]

end Srtla.Conn

/-! ## Appended (round 2): NAK hit/miss, used by the C02 refinement and the C05 list theorems -/
namespace Srtla.Conn

/-- `handle_nak` reports a hit exactly when the link holds the number. -/
theorem nak_snd_iff (c : Conn) (s : Int) (now : Nat) : (c.nak s now).2 = true ↔ s ∈ c.keys := by
  unfold Conn.nak
  split
  · rename_i h
    have := (any_iff_mem_keys c.log s).mp h
    simp [this]
  · rename_i h
    have : s ∉ c.keys := fun hm => h ((any_iff_mem_keys c.log s).mpr hm)
    constructor
    · intro hf; cases hf
    · intro hm; exact absurd hm this

/-- A NAK for a number the link does not hold leaves the whole record untouched. -/
theorem nak_fst_of_not_mem (c : Conn) (s : Int) (now : Nat) (h : s ∉ c.keys) : (c.nak s now).1 = c := by
  have : ¬ (c.log.any (·.1 == s) = true) := fun ha => h ((any_iff_mem_keys c.log s).mp ha)
  simp only [Conn.nak, if_neg this]

theorem specErase_of_not_mem (k : List Int) (s : Int) (h : s ∉ k) : specErase k s = k := by
  unfold specErase
  apply List.filter_eq_self.mpr
  intro x hx
  simp only [bne_iff_ne, ne_eq]
  intro hxs; subst hxs; exact h hx

theorem not_mem_specErase (k : List Int) (s : Int) : s ∉ specErase k s := by
  unfold specErase
  intro h
  simpa using (List.mem_filter.mp h).2

theorem mem_specErase {k : List Int} {s x : Int} : x ∈ specErase k s ↔ x ∈ k ∧ x ≠ s := by
  unfold specErase
  simp [List.mem_filter]

end Srtla.Conn
