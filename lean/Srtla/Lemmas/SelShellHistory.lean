import Srtla.Lemmas.SelShellLatch
import Srtla.Lemmas.ForwardStep
/-!
# A shell run, seen from one link, IS a history of the stall-latch alphabet (C13 at shell level)

`Lemmas/StallLatch.lean` proves the temporal theorems of C13 over histories of ONE link's selection view
built from the alphabet `sel now minInf ceil | selOff | reset | env e`.  This file defines, for a state
`s` of the shell, an event list `evs` and a link index `j`, the EXPLICIT history `runSteps s evs j` and
proves (`runSteps_sound`) that the selection view of link `j` after `Sys.run s evs` is `StallLatch.run` of
its view before, along that history.  Per event (`evSteps`):

* a `client` datagram whose pass ran contributes
  `env (timeout stamp) ; sel now thr ceil | selOff ; env (gate flag, quality cache)` and then the steps of
  "everything else";
* everything else (the rest of a `client` event, any other event) contributes `env e` when the six fields
  only the guard writes are unchanged and the proof stamp is unchanged or non-zero, and `reset ; env e`
  otherwise (a tear-down).  The `env` step's proof field is `0` iff the event did not move the stamp
  (`envTo`), so "no new proof" can be read off the history (`StallLatch.envStep` keeps the stamp then).

So: the `sel` steps of the history are exactly the routed client datagrams that found the guard on, with
the event's clock and the configured threshold / ceiling at that moment; `selOff` steps are the routed
client datagrams that found it off; `reset` steps are tear-downs of link `j` (`evSteps_mem`).
-/
set_option linter.unusedSectionVars false

namespace Srtla.SelShell
open Srtla Srtla.Gen Srtla.Conn Srtla.Select Srtla.Rtt Srtla.Link Srtla.Sys Scalar
open Srtla.StallLatch

variable {F : Type}

/-! ## 1. Steps between two views -/

/-- The six fields only the guard writes agree. -/
def SameSix (c c' : SLink F) : Prop :=
  c'.latchedSince = c.latchedSince ∧ c'.recoverySince = c.recoverySince ∧ c'.gateEvents = c.gateEvents ∧
  c'.silencePulled = c.silencePulled ∧ c'.pullMark = c.pullMark ∧ c'.silencePulls = c.silencePulls

instance (c c' : SLink F) : Decidable (SameSix c c') := by unfold SameSix; infer_instance

/-- The environment step from view `c` to view `c'`; its proof field is 0 iff the stamp did not move. -/
def envTo (c c' : SLink F) : Step F :=
  .env { c' with proofMs := if c'.proofMs = c.proofMs then 0 else c'.proofMs }

theorem step_envTo (c c' : SLink F) (h6 : SameSix c c') (hp : c'.proofMs = c.proofMs ∨ c'.proofMs ≠ 0) :
    StallLatch.step c (envTo c c') = c' := by
  obtain ⟨h1, h2, h3, h4, h5, h6⟩ := h6
  show envStep c _ = c'
  unfold envStep
  dsimp only
  rw [← h1, ← h2, ← h3, ← h4, ← h5, ← h6]
  have hpr : (if (if c'.proofMs = c.proofMs then 0 else c'.proofMs) = 0 then c.proofMs
      else (if c'.proofMs = c.proofMs then 0 else c'.proofMs)) = c'.proofMs := by
    by_cases h : c'.proofMs = c.proofMs
    · rw [if_pos h, if_pos rfl, h]
    · rw [if_neg h]
      rcases hp with hp | hp
      · exact absurd hp h
      · rw [if_neg hp]
  rw [hpr]

/-- Keep: one `env` step.  Otherwise (a tear-down): `reset`, then `env`. -/
def stepsTo (c c' : SLink F) : List (Step F) :=
  if SameSix c c' ∧ (c'.proofMs = c.proofMs ∨ c'.proofMs ≠ 0) then [envTo c c']
  else [.reset, envTo (reset c) c']

theorem run_stepsTo (c c' : SLink F)
    (h : (SameSix c c' ∧ (c'.proofMs = c.proofMs ∨ c'.proofMs ≠ 0)) ∨
         (SameSix (reset c) c' ∧ c'.proofMs = 0)) :
    StallLatch.run c (stepsTo c c') = c' := by
  unfold stepsTo
  split
  · rename_i hk
    show StallLatch.step c (envTo c c') = c'
    exact step_envTo c c' hk.1 hk.2
  · rename_i hk
    rcases h with h | ⟨h6, hp⟩
    · exact absurd h hk
    · show StallLatch.step (reset c) (envTo (reset c) c') = c'
      exact step_envTo (reset c) c' h6 (.inl hp)

section shell
variable [Scalar F]

theorem sameSix_of_same {l l' : FLink F} (h : GSame l l') : SameSix l.toSLink l'.toSLink :=
  ⟨h.latched, h.recovery, h.gateEvents, h.pulled, h.mark, h.pulls⟩

theorem sameSix_of_torn {l l' : FLink F} (h : Torn l l') : SameSix (reset l.toSLink) l'.toSLink :=
  ⟨h.latched, h.recovery, h.gateEvents, h.pulled, h.mark, h.pulls⟩

theorem stepsTo_keepOrTorn {l l' : FLink F} (h : KeepOrTorn l l') :
    StallLatch.run l.toSLink (stepsTo l.toSLink l'.toSLink) = l'.toSLink := by
  apply run_stepsTo
  rcases h with h | h
  · exact .inl ⟨sameSix_of_same h.same, .inl h.proof⟩
  · exact .inr ⟨sameSix_of_torn h, h.proof⟩

/-! ## 2. The history of one event -/

/-- The pass step of a routed client datagram: the configured guard at that moment. -/
def passStep (s : Sys F) (now : Nat) : Step F :=
  if s.cfg.stallDeselect then .sel now s.cfg.stallMinInFlight s.cfg.stallCeilingMs else .selOff

/-- The view after the timeout stamp and the per-link guard pass. -/
def passView (s : Sys F) (now : Nat) (l : FLink F) : SLink F :=
  StallLatch.step (setT s.cfg.connTimeoutMs l.toSLink) (passStep s now)

/-- **The steps event `e` contributes to the history of link `j`.** -/
def evSteps (s : Sys F) (e : Ev) (j : Nat) : List (Step F) :=
  match s.links[j]?, (step s e).1.links[j]? with
  | some l, some l' =>
    match e with
    | .client now pkt =>
      if passRan s pkt then
        match (runSelect s now).1.links[j]? with
        | some m =>
          [envTo l.toSLink (setT s.cfg.connTimeoutMs l.toSLink), passStep s now,
           envTo (passView s now l) m.toSLink] ++ stepsTo m.toSLink l'.toSLink
        | none => stepsTo l.toSLink l'.toSLink
      else stepsTo l.toSLink l'.toSLink
    | _ => stepsTo l.toSLink l'.toSLink
  | _, _ => []

/-- The pass part: timeout stamp, guard pass, gate flag + cache. -/
theorem run_pass (s : Sys F) (now j : Nat) (l m : FLink F) (hl : s.links[j]? = some l)
    (hm : (runSelect s now).1.links[j]? = some m) :
    StallLatch.run l.toSLink
      [envTo l.toSLink (setT s.cfg.connTimeoutMs l.toSLink), passStep s now,
       envTo (passView s now l) m.toSLink] = m.toSLink := by
  have h1 : StallLatch.step l.toSLink (envTo l.toSLink (setT s.cfg.connTimeoutMs l.toSLink)) =
      setT s.cfg.connTimeoutMs l.toSLink :=
    step_envTo _ _ ⟨rfl, rfl, rfl, rfl, rfl, rfl⟩ (.inl rfl)
  simp only [StallLatch.run, List.foldl_cons, List.foldl_nil]
  rw [h1]
  show StallLatch.step (passView s now l) (envTo (passView s now l) m.toSLink) = m.toSLink
  obtain ⟨hcore, hon, hoff⟩ := pass_guard s now j l m hl hm
  have hmp : m.toSLink.proofMs = l.toSLink.proofMs := by
    show m.core.proofMs = l.core.proofMs
    rw [hcore]
  apply step_envTo
  · unfold passView passStep
    cases hg : s.cfg.stallDeselect
    · obtain ⟨a1, a2, a3, -, a5, a6, a7⟩ := hoff hg
      exact ⟨a1, a2, a6, a3, a5, a7⟩
    · obtain ⟨a1, a2, a3, a4, a5, a6, -⟩ := hon hg
      simp only [if_true]
      show SameSix (sel (setT s.cfg.connTimeoutMs l.toSLink) now s.cfg.stallMinInFlight s.cfg.stallCeilingMs) _
      rw [sel_setT]
      exact ⟨a1, a2, a5, a3, a4, a6⟩
  · left
    rw [hmp]
    unfold passView passStep
    cases hg : s.cfg.stallDeselect
    · rfl
    · simp only [if_true]
      show _ = (sel (setT s.cfg.connTimeoutMs l.toSLink) now s.cfg.stallMinInFlight s.cfg.stallCeilingMs).proofMs
      rw [(sel_inputs _ now _ _).1]
      rfl

/-- **One event.**  The view of link `j` after the event is the view before it taken through the event's
steps — for every event constructor; an uplink datagram must not be processed at clock 0 (the proof
stamp's "never" sentinel). -/
theorem evSteps_sound (s : Sys F) (e : Ev) (j : Nat) (l l' : FLink F)
    (hl : s.links[j]? = some l) (hl' : (step s e).1.links[j]? = some l')
    (hclk : ∀ now cid data, e = .uplink now cid data → 0 < now) (hnr : e.isReload = false) :
    l'.toSLink = StallLatch.run l.toSLink (evSteps s e j) := by
  unfold evSteps
  rw [hl, hl']
  dsimp only
  by_cases hc : ∃ now pkt, e = .client now pkt
  · obtain ⟨now, pkt, rfl⟩ := hc
    dsimp only
    obtain ⟨m, hk, hp⟩ := client_guard s pkt now j l l' hl hl'
    rcases hp with ⟨hp, rfl⟩ | ⟨hp, hm⟩
    · rw [hp]
      simp only [Bool.false_eq_true, if_false]
      exact (stepsTo_keepOrTorn hk).symm
    · rw [hp, hm]
      simp only [if_true]
      rw [StallLatch.run_append, run_pass s now j l m hl hm]
      exact (stepsTo_keepOrTorn hk).symm
  · have hne : ∀ now pkt, e ≠ .client now pkt := fun now pkt h => hc ⟨now, pkt, h⟩
    have hgoal : l'.toSLink = StallLatch.run l.toSLink (stepsTo l.toSLink l'.toSLink) := by
      symm
      apply run_stepsTo
      cases e with
      | client now pkt => exact absurd rfl (hne now pkt)
      | uplink now cid data =>
        have hnow := hclk now cid data rfl
        cases uplink_guard s cid data now j l l' hl hl' with
        | keep h => exact .inl ⟨sameSix_of_same h.same, .inl h.proof⟩
        | sack h _ hpn _ => exact .inl ⟨sameSix_of_same h, .inr (by show l'.core.proofMs ≠ 0; omega)⟩
        | echo h _ hpn _ => exact .inl ⟨sameSix_of_same h, .inr (by show l'.core.proofMs ≠ 0; omega)⟩
        | reg3 h hpp _ => exact .inl ⟨sameSix_of_same h, .inl hpp⟩
        | torn h => exact .inr ⟨sameSix_of_torn h, h.proof⟩
      | flush now =>
        have h := flush_guard s now j l l' hl hl'
        exact .inl ⟨sameSix_of_same h.same, .inl h.proof⟩
      | hk now =>
        rcases hk_guard s now j l l' hl hl' with h | h
        · exact .inl ⟨sameSix_of_same h.same, .inl h.proof⟩
        · exact .inr ⟨sameSix_of_torn h, h.proof⟩
      | reload rnow raddrs routs => cases hnr
      | _ =>
        have h := cfg_guard s _ rfl rfl j l l' hl hl'
        exact .inl ⟨sameSix_of_same h.same, .inl h.proof⟩
    cases e with
    | client now pkt => exact absurd rfl (hne now pkt)
    | reload rnow raddrs routs => cases hnr
    | _ => exact hgoal

/-- The contribution of a routed client datagram, spelled out. -/
theorem evSteps_client_pass (s : Sys F) (now : Nat) (pkt : Sys.Bytes) (j : Nat) (l l' m : FLink F)
    (hl : s.links[j]? = some l) (hl' : (step s (.client now pkt)).1.links[j]? = some l')
    (hp : passRan s pkt = true) (hm : (runSelect s now).1.links[j]? = some m) :
    evSteps s (.client now pkt) j =
      [envTo l.toSLink (setT s.cfg.connTimeoutMs l.toSLink), passStep s now,
       envTo (passView s now l) m.toSLink] ++ stepsTo m.toSLink l'.toSLink := by
  unfold evSteps
  rw [hl, hl']
  dsimp only
  rw [hp, hm]
  simp only [if_true]

/-! ## 3. The history of a run -/

/-- **The history of link `j` along `Sys.run s evs`.** -/
def runSteps (s : Sys F) : List Ev → Nat → List (Step F)
  | [], _ => []
  | e :: evs, j => evSteps s e j ++ runSteps (step s e).1 evs j

theorem runSteps_snoc (s : Sys F) (pre : List Ev) (e : Ev) (j : Nat) :
    runSteps s (pre ++ [e]) j = runSteps s pre j ++ evSteps (Sys.run s pre).1 e j := by
  induction pre generalizing s with
  | nil => simp [runSteps, Sys.run]
  | cons a pre ih =>
    show evSteps s a j ++ runSteps (step s a).1 (pre ++ [e]) j = _
    rw [ih]
    simp only [runSteps, List.append_assoc]
    rfl

/-- **A shell run, seen from link `j`, is a history of the alphabet.** -/
theorem runSteps_sound (s : Sys F) (evs : List Ev) (j : Nat) (l : FLink F) (hl : s.links[j]? = some l)
    (hclk : ∀ e ∈ evs, ∀ now cid data, e = .uplink now cid data → 0 < now) (hnr : NoReload evs) :
    ∃ lf, (Sys.run s evs).1.links[j]? = some lf ∧
      lf.toSLink = StallLatch.run l.toSLink (runSteps s evs j) := by
  induction evs generalizing s l with
  | nil => exact ⟨l, hl, rfl⟩
  | cons e evs ih =>
    have hlen : (step s e).1.links.length = s.links.length := (Hk.step_link s e hnr.head).2.1
    have hj : j < (step s e).1.links.length := by
      rw [hlen]; exact (List.getElem?_eq_some_iff.1 hl).1
    have hl' : (step s e).1.links[j]? = some (step s e).1.links[j] := List.getElem?_eq_getElem hj
    obtain ⟨lf, h1, h2⟩ := ih (step s e).1 _ hl' (fun x hx => hclk x (List.mem_cons_of_mem _ hx)) hnr.tail
    refine ⟨lf, h1, ?_⟩
    rw [h2, evSteps_sound s e j l _ hl hl' (hclk e List.mem_cons_self) hnr.head]
    show _ = StallLatch.run l.toSLink (evSteps s e j ++ runSteps (step s e).1 evs j)
    rw [StallLatch.run_append]

/-! ## 4. Reading the history -/

omit [Scalar F] in
theorem stepsTo_mem (c c' : SLink F) (st : Step F) (h : st ∈ stepsTo c c') :
    (∃ x, st = .env x) ∨ (st = .reset ∧ ¬ (SameSix c c' ∧ (c'.proofMs = c.proofMs ∨ c'.proofMs ≠ 0))) := by
  unfold stepsTo at h
  split at h
  · simp only [List.mem_singleton] at h
    exact .inl ⟨_, h⟩
  · rename_i hk
    simp only [List.mem_cons, List.not_mem_nil, or_false] at h
    rcases h with h | h
    · exact .inr ⟨h, hk⟩
    · exact .inl ⟨_, h⟩

/-- **What the steps of an event are**: an `env` step; or the pass step of a routed client datagram (the
event's clock, the configured guard); or a `reset`, and then the link's guard fields / proof stamp did
not survive the event (a tear-down). -/
theorem evSteps_mem (s : Sys F) (e : Ev) (j : Nat) (st : Step F) (h : st ∈ evSteps s e j) :
    (∃ x, st = .env x) ∨
    (∃ now pkt, e = .client now pkt ∧ passRan s pkt = true ∧ st = passStep s now) ∨
    st = .reset := by
  unfold evSteps at h
  split at h
  · rename_i l l' _ _
    have hs : ∀ c c' : SLink F, st ∈ stepsTo c c' → (∃ x, st = .env x) ∨ st = .reset := fun c c' hm =>
      (stepsTo_mem c c' st hm).imp id (fun h => h.1)
    cases e with
    | client now pkt =>
      dsimp only at h
      split at h
      · rename_i hp
        split at h
        · simp only [List.cons_append, List.nil_append, List.mem_cons] at h
          rcases h with h | h | h | h
          · exact .inl ⟨_, h⟩
          · exact .inr (.inl ⟨now, pkt, rfl, hp, h⟩)
          · exact .inl ⟨_, h⟩
          · exact (hs _ _ h).imp id .inr
        · exact (hs _ _ h).imp id .inr
      · exact (hs _ _ h).imp id .inr
    | _ => exact (hs _ _ h).imp id .inr
  · cases h

end shell

end Srtla.SelShell
