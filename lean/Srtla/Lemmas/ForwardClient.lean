import Srtla.Lemmas.ForwardPass
/-!
# `handle_srt_packet` link by link (C01)

The routing decision (`selected`, `target`), what each link receives (`clientApp`), and the theorem
`client_links`: the effect of one client datagram on every link.
-/
namespace Srtla.Sys
open Srtla Srtla.Gen Srtla.Conn Srtla.Select Srtla.Rtt Srtla.Link Scalar

set_option linter.unusedSectionVars false

variable {F : Type} [Scalar F]
variable {fa : List (Nat × Nat)}

theorem nodup_getElem?_inj {α : Type} {l : List α} (h : l.Nodup) {i j : Nat} {a : α}
    (hi : l[i]? = some a) (hj : l[j]? = some a) : i = j := by
  induction l generalizing i j with
  | nil => simp at hi
  | cons x xs ih =>
    rw [List.nodup_cons] at h
    cases i with
    | zero =>
      cases j with
      | zero => rfl
      | succ j =>
        simp only [List.getElem?_cons_zero, Option.some.injEq] at hi
        simp only [List.getElem?_cons_succ] at hj
        exact absurd (hi ▸ List.mem_of_getElem? hj) h.1
    | succ i =>
      cases j with
      | zero =>
        simp only [List.getElem?_cons_zero, Option.some.injEq] at hj
        simp only [List.getElem?_cons_succ] at hi
        exact absurd (hj ▸ List.mem_of_getElem? hi) h.1
      | succ j =>
        simp only [List.getElem?_cons_succ] at hi hj
        rw [ih h.2 hi hj]

/-- Distinct positions carry distinct conn ids when conn ids are pairwise distinct. -/
theorem ids_ne {ls : List (FLink F)} (h : (ids ls).Nodup) {i j : Nat} {a b : FLink F}
    (hi : ls[i]? = some a) (hj : ls[j]? = some b) (hij : i ≠ j) : a.core.connId ≠ b.core.connId := by
  intro heq
  apply hij
  apply nodup_getElem?_inj h (a := a.core.connId)
  · simp [ids, hi]
  · simp [ids, hj, heq]

/-! ## The routing decision -/

/-- The routing decision of `handle_srt_packet` once registered: the scheduler's pick, replaced — in
enhanced mode, for data packets inside the keyframe window or flagged as retransmissions — by the
best-quality eligible link. -/
def selected (s : Sys F) (pkt : Bytes) (now : Nat) : Option Nat :=
  let sel0 := (runSelect s now).2
  if (Codec.getSrtSequenceNumberS pkt).isSome && !s.cfg.classic &&
      (decide (s.critDeadline > now) || Codec.isSrtDataRetransmitS pkt) then
    match bestQualityEligible ((runSelect s now).1.links.map FLink.toSLink) now with
    | some b => if sel0 != some b then some b else sel0
    | none => sel0
  else sel0

/-- The link that gets the unique copy of a client datagram; `none` = the datagram is dropped. -/
def target (s : Sys F) (pkt : Bytes) (now : Nat) : Option Nat :=
  if s.reg.hasConnected then selected s pkt now else selectPreRegistration s.links s.lastSelected now

/-- The links as `forward_via_connection` / `send_stall_probes` see them: after the selection pass
(which runs only once registered; it rewrites the stall-gate flags, never a queue). -/
def routedLinks (s : Sys F) (now : Nat) : List (FLink F) :=
  if s.reg.hasConnected then (runSelect s now).1.links else s.links

/-- What a client datagram `x` appends to link `i` (seen as `l1` after the selection pass) when the
unique copy goes to `sel`: the unique copy on `sel`; on any other link a probe copy, only for data
packets after registration, only if the link is stall-gated and connected and its counter fires. -/
def clientApp (x : QItem) (probes : Bool) (sel i : Nat) (l1 : FLink F) : List QItem :=
  if i = sel then [x] else if probes then probeApp x sel i l1 else []

theorem selected_ne_none (s : Sys F) (pkt : Bytes) (now : Nat) (h : (runSelect s now).2 ≠ none) :
    selected s pkt now ≠ none := by
  unfold selected
  dsimp only
  split
  · split
    · split <;> simp_all
    · exact h
  · exact h

/-- The routing decision is the index of an existing link. -/
theorem selected_in_range (s : Sys F) (pkt : Bytes) (now sel : Nat) (h : selected s pkt now = some sel) :
    sel < s.links.length := by
  have h0 : ∀ j, (runSelect s now).2 = some j → j < s.links.length := by
    intro j hj
    rw [runSelect_snd] at hj
    have := Props.C04.C04_selector_in_range _ _ _ _ _ hj
    simpa using this
  unfold selected at h
  dsimp only at h
  split at h
  · split at h
    · rename_i b hb
      obtain ⟨c, hc, -⟩ := Props.C04.C04_override_eligible _ _ _ hb
      have hb' : b < s.links.length := by
        have := (List.getElem?_eq_some_iff.1 hc).1
        simpa [runSelect_length] using this
      split at h
      · cases h; exact hb'
      · exact h0 _ h
    · exact h0 _ h
  · exact h0 _ h

theorem selectPreRegistration_in_range (ls : List (FLink F)) (last : Option Nat) (now sel : Nat)
    (h : selectPreRegistration ls last now = some sel) : sel < ls.length := by
  have hf : ∀ k, List.findIdx? (fun (c : FLink F) => !c.isTimedOut now) ls = some k → k < ls.length :=
    fun k hk => (List.findIdx?_eq_some_iff_getElem.1 hk).1
  unfold selectPreRegistration at h
  dsimp only at h
  cases last with
  | none => simp only [Bool.false_eq_true, if_false] at h; exact hf _ h
  | some k =>
    dsimp only at h
    cases hl : ls[k]? with
    | none => simp only [hl, Bool.false_eq_true, if_false] at h; exact hf _ h
    | some c =>
      simp only [hl] at h
      split at h
      · cases h; exact (List.getElem?_eq_some_iff.1 hl).1
      · exact hf _ h

theorem target_in_range (s : Sys F) (pkt : Bytes) (now sel : Nat) (h : target s pkt now = some sel) :
    sel < s.links.length := by
  unfold target at h
  split at h
  · exact selected_in_range s pkt now sel h
  · exact selectPreRegistration_in_range _ _ _ _ h

theorem routedLinks_length (s : Sys F) (now : Nat) : (routedLinks s now).length = s.links.length := by
  unfold routedLinks; split
  · exact runSelect_length s now
  · rfl

theorem routedLinks_ids (s : Sys F) (now : Nat) : ids (routedLinks s now) = ids s.links := by
  unfold routedLinks; split
  · exact runSelect_ids s now
  · rfl

theorem routedLinks_getElem? (s : Sys F) (now i : Nat) (l : FLink F) (hl : s.links[i]? = some l) :
    ∃ l1, (routedLinks s now)[i]? = some l1 ∧ l1.queue = l.queue ∧ l1.core = l.core ∧
      l1.probeCounter = l.probeCounter ∧ l1.regime = l.regime := by
  unfold routedLinks; split
  · obtain ⟨sl, h⟩ := runSelect_getElem? s now i l hl
    exact ⟨_, h, rfl, rfl, rfl, rfl⟩
  · exact ⟨l, hl, rfl, rfl, rfl, rfl⟩

/-! ## One client datagram, link by link -/

/-- Core of `handle_srt_packet` after the routing decision: `forward_via_connection` on `sel`, then —
iff `probes` — `send_stall_probes` on the others. -/
def routeTo (s1 : Sys F) (sel : Nat) (pkt : Bytes) (seq : Option Nat) (now : Nat) (probes : Bool) : Sys F × Out :=
  let r := forwardVia s1 sel pkt seq now
  if probes then
    let p := stallProbesGo r.1.failAfter pkt seq now sel r.1.links 0 r.1.failNext
    ({ r.1 with links := p.1, failNext := p.2.2, clientKnown := true }, { r.2 with wire := r.2.wire ++ p.2.1 })
  else ({ r.1 with clientKnown := true }, r.2)

theorem handleSrtPacket_eq (s : Sys F) (pkt : Bytes) (now : Nat) (hne : pkt.isEmpty = false) :
    handleSrtPacket s pkt now =
      if s.reg.hasConnected then
        match selected s pkt now with
        | some i => routeTo (runSelect s now).1 i pkt (Codec.getSrtSequenceNumberS pkt) now
            (Codec.getSrtSequenceNumberS pkt).isSome
        | none => ({ (runSelect s now).1 with clientKnown := true }, {})
      else
        match selectPreRegistration s.links s.lastSelected now with
        | some i => routeTo s i pkt (Codec.getSrtSequenceNumberS pkt) now false
        | none => ({ s with clientKnown := true }, {}) := by
  unfold handleSrtPacket
  rw [hne]
  simp only [Bool.false_eq_true, if_false]
  cases hreg : s.reg.hasConnected
  · simp only [Bool.not_false, if_true, Bool.false_eq_true, if_false]
    cases hsel : selectPreRegistration s.links s.lastSelected now <;> rfl
  · simp only [Bool.not_true, Bool.false_eq_true, if_false, if_true]
    unfold selected routeTo
    dsimp only
    rfl

/-- `routeTo` link by link.  For every link `l1` at index `i` of the state the routing ran on: its
successor, the `LinkFx` with what was appended (`clientApp`), the bytes put on its socket (`wireOf` its
conn id, conn ids being distinct), and the probe-counter effect. -/
theorem routeTo_links (s1 : Sys F) (sel : Nat) (pkt : Bytes) (seq : Option Nat) (now : Nat) (probes : Bool)
    (hsel : sel < s1.links.length) (hnd : (ids s1.links).Nodup) :
    let r := routeTo s1 sel pkt seq now probes
    r.1.links.length = s1.links.length ∧ r.1.lastSelected = some sel ∧ r.1.reg = s1.reg ∧ r.1.cfg = s1.cfg ∧
    (∀ y ∈ r.1.failNext, y ∈ s1.failNext) ∧ r.2.client = [] ∧
    ∀ i l1, s1.links[i]? = some l1 → ∃ l', r.1.links[i]? = some l' ∧
      LinkFx (FailedSendReset s1.failNext l1 l') (clientApp (pkt, seq, now) probes sel i l1) l1 l'
        (wireOf l1.core.connId r.2.wire) ∧
      ProbeFx (probes = true ∧ probeCalled sel i l1) l1 l' ∧
      (clientApp (pkt, seq, now) probes sel i l1 = [] →
        l'.queue = l1.queue ∧ wireOf l1.core.connId r.2.wire = []) := by
  obtain ⟨lsel, hlsel⟩ : ∃ l, s1.links[sel]? = some l := ⟨s1.links[sel], List.getElem?_eq_getElem hsel⟩
  obtain ⟨l', b, f1, f2, f3, f4, f5, f6, f7, f8, f9⟩ := forwardVia_spec s1 sel pkt seq now lsel hlsel
  have hids2 : ids (forwardVia s1 sel pkt seq now).1.links = ids s1.links := by
    rw [f1]; exact setAt_ids _ _ _ _ hlsel f3.1
  unfold routeTo
  dsimp only
  cases probes
  · -- no probe pass
    simp only [Bool.false_eq_true, if_false]
    refine ⟨by rw [f1, setAt_length], f6, f7, f8, f5, f9, ?_⟩
    intro i l1 hl1
    rw [f1, setAt_getElem?, f2]
    by_cases hi : i = sel
    · subst hi
      rw [hlsel] at hl1; cases hl1
      refine ⟨l', by simp [hlsel], ?_, ?_, ?_⟩
      · rw [wireOf_tag_self]
        simpa [clientApp] using f3
      · unfold ProbeFx; rw [if_neg (by simp)]; exact f4
      · intro h; simp [clientApp] at h
    · refine ⟨l1, by simp [hi, hl1], ?_, ?_, ?_⟩
      · rw [wireOf_tag_other _ _ _ (ids_ne hnd hlsel hl1 (Ne.symm hi))]
        simp only [clientApp, if_neg hi, Bool.false_eq_true, if_false]
        exact LinkFx.refl _ l1
      · unfold ProbeFx; rw [if_neg (by simp)]; exact Or.inl rfl
      · intro _
        exact ⟨rfl, wireOf_tag_other _ _ _ (ids_ne hnd hlsel hl1 (Ne.symm hi))⟩
  · -- probe pass over the links left by the forward
    simp only [if_true]
    obtain ⟨hp, hfn⟩ := stallProbesGo_par pkt seq now sel s1.failNext
      (forwardVia s1 sel pkt seq now).1.links 0 (forwardVia s1 sel pkt seq now).1.failNext f5
    refine ⟨by rw [hp.length_eq, f1, setAt_length], f6, f7, f8, hfn, f9, ?_⟩
    intro i l1 hl1
    by_cases hi : i = sel
    · subst hi
      rw [hlsel] at hl1; cases hl1
      have h2 : (forwardVia s1 i pkt seq now).1.links[i]? = some l' := by
        rw [f1, setAt_getElem?]; simp [hlsel]
      obtain ⟨l'', b2, g1, g2, g3⟩ := hp.get i l' h2
      obtain ⟨g2a, -, -, -⟩ := g2
      obtain ⟨rfl, rfl⟩ := g2a (fun hc => hc.1 (by omega))
      refine ⟨l'', g1, ?_, ?_, ?_⟩
      · rw [f2, wireOf_append, wireOf_tag_self, ← f3.1, g3 (by rw [hids2]; exact hnd), List.append_nil]
        simpa [clientApp] using f3
      · unfold ProbeFx; rw [if_neg (fun hc => hc.2.1 rfl)]; exact f4
      · intro h; simp [clientApp] at h
    · have h2 : (forwardVia s1 sel pkt seq now).1.links[i]? = some l1 := by
        rw [f1, setAt_getElem?]; simp [hi, hl1]
      obtain ⟨l'', b2, g1, g2, g3⟩ := hp.get i l1 h2
      obtain ⟨-, g2d, g2b, g2c⟩ := g2
      rw [Nat.zero_add] at g2b g2c g2d
      have hw : wireOf l1.core.connId ((forwardVia s1 sel pkt seq now).2.wire ++
          (stallProbesGo (forwardVia s1 sel pkt seq now).1.failAfter pkt seq now sel (forwardVia s1 sel pkt seq now).1.links 0
            (forwardVia s1 sel pkt seq now).1.failNext).2.1) = b2 := by
        rw [f2, wireOf_append, wireOf_tag_other _ _ _ (ids_ne hnd hlsel hl1 (Ne.symm hi)),
          g3 (by rw [hids2]; exact hnd), List.nil_append]
      refine ⟨l'', g1, ?_, ?_, ?_⟩
      rotate_left 2
      · intro h
        simp only [clientApp, if_neg hi, if_true] at h
        rw [hw]; exact g2d h
      · rw [f2, wireOf_append, wireOf_tag_other _ _ _ (ids_ne hnd hlsel hl1 (Ne.symm hi)),
          g3 (by rw [hids2]; exact hnd), List.nil_append]
        simpa [clientApp, hi] using g2b
      · unfold ProbeFx at g2c ⊢
        by_cases hc : probeCalled sel i l1
        · rw [if_pos hc] at g2c; rw [if_pos ⟨trivial, hc⟩]; exact g2c
        · rw [if_neg hc] at g2c; rw [if_neg (fun h => hc h.2)]; exact g2c

/-! ## The client event as a whole -/

/-- The queue item made from a client datagram received at `now`. -/
def clientItem (pkt : Bytes) (now : Nat) : QItem := (pkt, Codec.getSrtSequenceNumberS pkt, now)

/-- What the client datagram `pkt` appends to link `i`'s queue: nothing for an empty datagram or when
no link is chosen; otherwise the unique copy on the chosen link, and — only once registered and only
for data packets — a probe copy on every other link that is stall-gated and connected (after this
call's selection pass) and whose 1-in-100 counter fires. -/
def appendedClient (s : Sys F) (pkt : Bytes) (now i : Nat) : List QItem :=
  if pkt.isEmpty then [] else
  match target s pkt now, (routedLinks s now)[i]? with
  | some sel, some l1 =>
    clientApp (clientItem pkt now) (s.reg.hasConnected && (Codec.getSrtSequenceNumberS pkt).isSome) sel i l1
  | _, _ => []

/-- `stall_probe_due` is consulted for link `i` by this client datagram: registered, data packet,
routed to some OTHER link, link `i` stall-gated and connected after the selection pass.  These are the
"data packets routed while link `i` was gated". -/
def probeConsulted (s : Sys F) (pkt : Bytes) (now i : Nat) : Bool :=
  !pkt.isEmpty && s.reg.hasConnected && (Codec.getSrtSequenceNumberS pkt).isSome &&
  match target s pkt now, (routedLinks s now)[i]? with
  | some sel, some l1 => decide (probeCalled sel i l1)
  | _, _ => false

theorem client_links (s : Sys F) (pkt : Bytes) (now : Nat) (hnd : (ids s.links).Nodup) :
    let r := handleSrtPacket s pkt now
    r.1.links.length = s.links.length ∧ r.1.reg = s.reg ∧ r.1.cfg = s.cfg ∧
    (∀ y ∈ r.1.failNext, y ∈ s.failNext) ∧ r.2.client = [] ∧
    (∀ sel, pkt.isEmpty = false → target s pkt now = some sel → r.1.lastSelected = some sel) ∧
    (pkt.isEmpty = true ∨ target s pkt now = none → r.2.wire = [] ∧ r.1.lastSelected = s.lastSelected) ∧
    ∀ i l, s.links[i]? = some l → ∃ l', r.1.links[i]? = some l' ∧
      LinkFx (FailedSendReset s.failNext l l') (appendedClient s pkt now i) l l'
        (wireOf l.core.connId r.2.wire) ∧
      ProbeFx (probeConsulted s pkt now i = true) l l' ∧
      (appendedClient s pkt now i = [] → l'.queue = l.queue ∧ wireOf l.core.connId r.2.wire = []) := by
  dsimp only
  cases hne : pkt.isEmpty
  case true =>
    have hr : handleSrtPacket s pkt now = (s, {}) := by unfold handleSrtPacket; rw [if_pos hne]
    rw [hr]
    refine ⟨rfl, rfl, rfl, fun _ h => h, rfl, (fun _ h => by cases h), fun _ => ⟨rfl, rfl⟩, ?_⟩
    intro i l hl
    have happ : appendedClient s pkt now i = [] := by unfold appendedClient; rw [if_pos hne]
    have hpc : ¬ (probeConsulted s pkt now i = true) := by unfold probeConsulted; simp [hne]
    refine ⟨l, hl, ?_, ?_, fun _ => ⟨rfl, rfl⟩⟩
    · rw [happ]; exact LinkFx.refl _ l
    · unfold ProbeFx; rw [if_neg hpc]; exact Or.inl rfl
  case false =>
    rw [handleSrtPacket_eq s pkt now hne]
    cases hreg : s.reg.hasConnected
    case false =>
      simp only [Bool.false_eq_true, if_false]
      have htgt : target s pkt now = selectPreRegistration s.links s.lastSelected now := by
        unfold target; simp [hreg]
      have hrl : routedLinks s now = s.links := by unfold routedLinks; simp [hreg]
      have hpc : ∀ i, ¬ (probeConsulted s pkt now i = true) := by
        intro i; unfold probeConsulted; simp [hreg]
      rw [htgt]
      cases hsel : selectPreRegistration s.links s.lastSelected now with
      | none =>
        dsimp only
        refine ⟨rfl, rfl, rfl, fun _ h => h, rfl, (fun _ _ h => by cases h), fun _ => ⟨rfl, rfl⟩, ?_⟩
        intro i l hl
        have happ : appendedClient s pkt now i = [] := by
          unfold appendedClient; rw [htgt, hsel]; simp
        refine ⟨l, hl, ?_, ?_, fun _ => ⟨rfl, rfl⟩⟩
        · rw [happ]; exact LinkFx.refl _ l
        · unfold ProbeFx; rw [if_neg (hpc i)]; exact Or.inl rfl
      | some sel =>
        dsimp only
        have hrange := selectPreRegistration_in_range _ _ _ _ hsel
        obtain ⟨r1, r2, r3, r4, r5, r6, r7⟩ :=
          routeTo_links s sel pkt (Codec.getSrtSequenceNumberS pkt) now false hrange hnd
        refine ⟨r1, r3, r4, r5, r6, (fun sel' _ h => by cases h; exact r2), (fun h => by simp at h), ?_⟩
        intro i l hl
        obtain ⟨l', g1, g2, g3, g4⟩ := r7 i l hl
        have happ : appendedClient s pkt now i =
            clientApp (pkt, Codec.getSrtSequenceNumberS pkt, now) false sel i l := by
          unfold appendedClient; rw [htgt, hsel, hrl, hl]; simp [hne, hreg, clientItem]
        refine ⟨l', g1, ?_, ?_, ?_⟩
        · rw [happ]; exact g2
        · unfold ProbeFx at g3 ⊢
          rw [if_neg (by simp)] at g3; rw [if_neg (hpc i)]; exact g3
        · rw [happ]; exact g4
    case true =>
      simp only [if_true]
      have htgt : target s pkt now = selected s pkt now := by unfold target; simp [hreg]
      have hrl : routedLinks s now = (runSelect s now).1.links := by unfold routedLinks; simp [hreg]
      rw [htgt]
      cases hsel : selected s pkt now with
      | none =>
        dsimp only
        refine ⟨runSelect_length s now, rfl, rfl, fun _ h => h, rfl, (fun _ _ h => by cases h),
          fun _ => ⟨rfl, rfl⟩, ?_⟩
        intro i l hl
        obtain ⟨sl, h1⟩ := runSelect_getElem? s now i l hl
        have happ : appendedClient s pkt now i = [] := by
          unfold appendedClient; rw [htgt, hsel]; simp
        have hpc : ¬ (probeConsulted s pkt now i = true) := by
          unfold probeConsulted; rw [htgt, hsel]; simp
        refine ⟨_, h1, ?_, ?_, fun _ => ⟨rfl, rfl⟩⟩
        · rw [happ]; exact ⟨rfl, Or.inl ⟨by simp, rfl, Or.inl rfl⟩⟩
        · unfold ProbeFx; rw [if_neg hpc]; exact Or.inl rfl
      | some sel =>
        dsimp only
        have hrange : sel < (runSelect s now).1.links.length := by
          rw [runSelect_length]; exact selected_in_range s pkt now sel hsel
        have hnd1 : (ids (runSelect s now).1.links).Nodup := by rw [runSelect_ids]; exact hnd
        obtain ⟨r1, r2, r3, r4, r5, r6, r7⟩ :=
          routeTo_links (runSelect s now).1 sel pkt (Codec.getSrtSequenceNumberS pkt) now
            (Codec.getSrtSequenceNumberS pkt).isSome hrange hnd1
        refine ⟨by rw [r1, runSelect_length], r3, r4, r5, r6, (fun sel' _ h => by cases h; exact r2),
          (fun h => by simp at h), ?_⟩
        intro i l hl
        obtain ⟨sl, h1⟩ := runSelect_getElem? s now i l hl
        obtain ⟨l', g1, g2, g3, g4⟩ := r7 i _ h1
        have happ : appendedClient s pkt now i =
            clientApp (pkt, Codec.getSrtSequenceNumberS pkt, now) (Codec.getSrtSequenceNumberS pkt).isSome
              sel i (l.absorb sl) := by
          unfold appendedClient; rw [htgt, hsel, hrl, h1]; simp [hne, hreg, clientItem]
        have hpc : (probeConsulted s pkt now i = true) ↔
            ((Codec.getSrtSequenceNumberS pkt).isSome = true ∧ probeCalled sel i (l.absorb sl)) := by
          unfold probeConsulted; rw [htgt, hsel, hrl, h1]; simp [hne, hreg]
        refine ⟨l', g1, ?_, ?_, ?_⟩
        · rw [happ]; exact g2
        · unfold ProbeFx at g3 ⊢
          by_cases hc : (Codec.getSrtSequenceNumberS pkt).isSome = true ∧ probeCalled sel i (l.absorb sl)
          · rw [if_pos hc] at g3; rw [if_pos (hpc.2 hc)]; exact g3
          · rw [if_neg hc] at g3; rw [if_neg (fun h => hc (hpc.1 h))]; exact g3
        · rw [happ]; exact g4

end Srtla.Sys
