import Srtla.Lemmas.ScalarField
import Srtla.Lemmas.Enhanced
/-!
# Enhanced selector over an ordered field: factor ranges, score formula and sign, the decision

All statements are about the model's definitions instantiated at `fieldScalar F e ninf`
(exact arithmetic in an arbitrary linearly ordered field with floor; `e` = `exp` with
`ExpLaw e`).  IEEE rounding / NaN / overflow are outside these proofs (see `ScalarField.lean`).
-/
namespace Srtla.SelLemmas
open Srtla.Gen Srtla.Conn Srtla Srtla.Select

section
variable {F : Type} [Field F] [LinearOrder F] [IsStrictOrderedRing F] [FloorRing F] (e : F → F) (ninf : F)

local notation "𝕊" => fieldScalar F e ninf

/-- Reduce the scalar operations of the field instance to field operations. -/
macro "fs_dsimp" loc:(Lean.Parser.Tactic.location)? : tactic =>
  `(tactic| dsimp only [Scalar.lit, Scalar.ofNat, Scalar.ofInt, Scalar.add, Scalar.sub, Scalar.mul,
      Scalar.div, Scalar.neg, Scalar.lt, Scalar.le, Scalar.gt, Scalar.ge, Scalar.fmax, Scalar.fmin,
      Scalar.exp, Scalar.floor, Scalar.toNatSat, Scalar.isFinite, Scalar.negInf] $[$loc]?)

theorem bestGo_spec (t : List (Option F)) : ∀ (i : Nat) (b0 : Option Nat) (bs0 : F),
    bs0 ≤ (@bestGo F 𝕊 t i b0 bs0).2 ∧
    (∀ (k : Nat) (s : F), t[k]? = some (some s) → s ≤ (@bestGo F 𝕊 t i b0 bs0).2) ∧
    (((@bestGo F 𝕊 t i b0 bs0).1 = b0 ∧ (@bestGo F 𝕊 t i b0 bs0).2 = bs0) ∨
      ∃ k : Nat, (@bestGo F 𝕊 t i b0 bs0).1 = some (i + k) ∧
        t[k]? = some (some (@bestGo F 𝕊 t i b0 bs0).2)) := by
  induction t with
  | nil => intro i b0 bs0; simp [bestGo]
  | cons x t ih =>
    intro i b0 bs0
    cases x with
    | none =>
      obtain ⟨h1, h2, h3⟩ := ih (i + 1) b0 bs0
      simp only [bestGo]
      refine ⟨h1, ?_, ?_⟩
      · intro k s hk
        cases k with
        | zero => simp at hk
        | succ k => exact h2 k s (by simpa using hk)
      · rcases h3 with h3 | ⟨k, hk1, hk2⟩
        · exact Or.inl h3
        · exact Or.inr ⟨k + 1, by rw [hk1]; congr 1; omega, by simpa using hk2⟩
    | some s =>
      simp only [bestGo, fs_gt, decide_eq_true_eq]
      by_cases hlt : bs0 < s
      · rw [if_pos hlt]
        obtain ⟨h1, h2, h3⟩ := ih (i + 1) (some i) s
        refine ⟨le_trans (le_of_lt hlt) h1, ?_, ?_⟩
        · intro k s' hk
          cases k with
          | zero =>
            have : s = s' := by simpa using hk
            subst this; exact h1
          | succ k => exact h2 k s' (by simpa using hk)
        · rcases h3 with ⟨h3a, h3b⟩ | ⟨k, hk1, hk2⟩
          · exact Or.inr ⟨0, by rw [h3a]; rfl, by rw [h3b]; rfl⟩
          · exact Or.inr ⟨k + 1, by rw [hk1]; congr 1; omega, by simpa using hk2⟩
      · rw [if_neg hlt]
        obtain ⟨h1, h2, h3⟩ := ih (i + 1) b0 bs0
        refine ⟨h1, ?_, ?_⟩
        · intro k s' hk
          cases k with
          | zero =>
            have : s = s' := by simpa using hk
            subst this; exact le_trans (not_lt.1 hlt) h1
          | succ k => exact h2 k s' (by simpa using hk)
        · rcases h3 with h3 | ⟨k, hk1, hk2⟩
          · exact Or.inl h3
          · exact Or.inr ⟨k + 1, by rw [hk1]; congr 1; omega, by simpa using hk2⟩

theorem rttBonus_range (c : SLink F) :
    (1 : F) ≤ @rttBonus F 𝕊 c ∧ @rttBonus F 𝕊 c ≤ 103 / 100 := by
  unfold rttBonus
  split
  · norm_num [Scalar.lit]
  · dsimp only [Scalar.fmax, Scalar.fmin, Scalar.lit, Scalar.div]
    simp only [Quality.MAX_RTT_BONUS_num, Quality.MAX_RTT_BONUS_den]
    constructor
    · exact le_max_of_le_right (by norm_num)
    · apply max_le
      · exact le_trans (min_le_right _ _) (by norm_num)
      · norm_num


theorem softCap_range (c : SLink F) :
    (1 / 10 : F) ≤ @softCapMult F 𝕊 c ∧ @softCapMult F 𝕊 c ≤ 1 := by
  unfold softCapMult
  split
  · norm_num [Scalar.lit]
  · split
    · norm_num [Scalar.lit]
    · have h := fs_clamp_mem e ninf
        (@Scalar.div F 𝕊 (@Scalar.fmax F 𝕊 (@Scalar.sub F 𝕊 (@Scalar.ofNat F 𝕊 c.ccTarget) c.bitrate)
          (@Scalar.lit F 𝕊 0.0 0 1)) (@Scalar.ofNat F 𝕊 c.ccTarget))
        (@Scalar.lit F 𝕊 Enhanced.CC_SOFT_CAP_FLOOR_f Enhanced.CC_SOFT_CAP_FLOOR_num Enhanced.CC_SOFT_CAP_FLOOR_den)
        (@Scalar.lit F 𝕊 1.0 1 1)
        (by norm_num [Scalar.lit, Enhanced.CC_SOFT_CAP_FLOOR_num, Enhanced.CC_SOFT_CAP_FLOOR_den])
      dsimp only at h ⊢
      refine ⟨le_trans ?_ h.1, le_trans h.2 ?_⟩
      · norm_num [Scalar.lit, Enhanced.CC_SOFT_CAP_FLOOR_num, Enhanced.CC_SOFT_CAP_FLOOR_den]
      · norm_num [Scalar.lit]

theorem qualityMult_range (he : ExpLaw e) (c : SLink F) (now : Nat) :
    (35 / 100 : F) ≤ @qualityMult F 𝕊 c now ∧ @qualityMult F 𝕊 c now ≤ 11 / 10 * (103 / 100) := by
  have hb := rttBonus_range e ninf c
  unfold qualityMult
  dsimp only
  split
  · split
    · norm_num [Scalar.lit, Quality.PERFECT_CONNECTION_BONUS_num, Quality.PERFECT_CONNECTION_BONUS_den]
    · norm_num [Scalar.lit, Quality.STARTUP_NAK_PENALTY_num, Quality.STARTUP_NAK_PENALTY_den]
  · generalize @rttBonus F 𝕊 c = rb at hb
    obtain ⟨hb1, hb2⟩ := hb
    -- the NAK factor is in [0.35, 1.1]
    suffices hq : ∀ q : F, ((35 / 100 : F) ≤ q ∧ q ≤ 11 / 10) →
        (35 / 100 : F) ≤ q * rb ∧ q * rb ≤ 11 / 10 * (103 / 100) by
      apply hq
      split
      · split
        · norm_num [Scalar.lit, Quality.PERFECT_CONNECTION_BONUS_num, Quality.PERFECT_CONNECTION_BONUS_den]
        · norm_num [Scalar.lit]
      · have hd := he (@Scalar.div F 𝕊 (@Scalar.neg F 𝕊 (@Scalar.ofNat F 𝕊 (now - c.lastNakMs)))
            (@Scalar.lit F 𝕊 Quality.HALF_LIFE_MS_f Quality.HALF_LIFE_MS_num Quality.HALF_LIFE_MS_den))
          (by
            fs_dsimp
            apply div_nonpos_of_nonpos_of_nonneg
            · exact neg_nonpos.2 (Nat.cast_nonneg _)
            · norm_num [Quality.HALF_LIFE_MS_num, Quality.HALF_LIFE_MS_den])
        fs_dsimp at hd ⊢
        generalize e _ = d at hd ⊢
        obtain ⟨hd0, hd1⟩ := hd
        split
        · norm_num [Quality.MAX_PENALTY_num, Quality.MAX_PENALTY_den, Quality.NAK_BURST_PENALTY_num,
            Quality.NAK_BURST_PENALTY_den]
          constructor <;> nlinarith
        · norm_num [Quality.MAX_PENALTY_num, Quality.MAX_PENALTY_den]
          constructor <;> nlinarith
    rintro q ⟨h1, h2⟩
    constructor
    · nlinarith
    · nlinarith

/-! ## The score: formula and sign -/

omit [Field F] [LinearOrder F] [IsStrictOrderedRing F] [FloorRing F] in
theorem score_nonneg (c : SLink F) (hc : c.connected = true) (hw : 0 ≤ c.window) : 0 ≤ score c := by
  unfold score
  rw [hc]
  simp only [Bool.not_true, Bool.false_eq_true, if_false]
  exact Int.ediv_nonneg hw (by omega)

omit [Field F] [LinearOrder F] [IsStrictOrderedRing F] [FloorRing F] in
/-- `get_score` in the domain (`in_flight + queued + 1` does not saturate). -/
theorem score_eq (c : SLink F) (hc : c.connected = true) (hi : 0 ≤ c.inFlight) (hq : 0 ≤ c.queued)
    (hs : c.inFlight + c.queued < 2147483647) :
    score c = c.window / (c.inFlight + c.queued + 1) := by
  unfold score
  rw [hc]
  simp only [Bool.not_true, Bool.false_eq_true, if_false]
  have : max (satAddI32 (satAddI32 c.inFlight c.queued) 1) 1 = c.inFlight + c.queued + 1 := by
    unfold satAddI32 I32_MIN I32_MAX; omega
  rw [this]

theorem phaseWeight_val (p : Phase) :
    @phaseWeight F 𝕊 p = match p with
      | .registering => 0
      | .warming _ _ => 4 / 5
      | _ => 1 := by
  cases p <;> norm_num [phaseWeight, Scalar.lit, Lit.WARMING_WEIGHT_num, Lit.WARMING_WEIGHT_den]

theorem phaseWeight_nonneg (p : Phase) : (0 : F) ≤ @phaseWeight F 𝕊 p := by
  rw [phaseWeight_val]; cases p <;> norm_num

/-- The gate factor of the score. -/
def gateFactor (u : Bool) (c : SLink F) : F := if u && (c.weak || c.lossDegraded) then 1 / 50 else 1

/-- The quality factor of the score: 1 with quality scoring off, else the 50 ms cached multiplier. -/
noncomputable def qualFactor (c : SLink F) (now : Nat) (quality : Bool) : F :=
  if quality then (if now - c.qualAt ≥ 50 then @qualityMult F 𝕊 c now else c.qualMult) else 1

theorem cachedQuality_snd (c : SLink F) (now : Nat) :
    (@cachedQuality F 𝕊 c now).2 = if now - c.qualAt ≥ 50 then @qualityMult F 𝕊 c now else c.qualMult := by
  have h50 := Conn.QUALITY_CACHE_INTERVAL_MS_eq
  unfold cachedQuality
  by_cases h : now - c.qualAt ≥ 50
  · rw [if_pos (by omega), if_pos h]
  · rw [if_neg (by omega), if_neg h]

theorem enhScore_formula (c : SLink F) (now : Nat) (quality u : Bool) :
    (@enhScore F 𝕊 c now quality u).2 =
      ((score c : Int) : F) * @phaseWeight F 𝕊 c.phase * qualFactor e ninf c now quality *
        @softCapMult F 𝕊 c * gateFactor u c := by
  have hg : (if (u && (c.weak || c.lossDegraded)) = true
      then @Scalar.lit F 𝕊 Enhanced.GATED_LINK_PENALTY_f Enhanced.GATED_LINK_PENALTY_num Enhanced.GATED_LINK_PENALTY_den
      else @Scalar.lit F 𝕊 1.0 1 1) = gateFactor u c := by
    unfold gateFactor
    split <;> norm_num [Scalar.lit, Enhanced.GATED_LINK_PENALTY_num, Enhanced.GATED_LINK_PENALTY_den]
  cases quality
  · have h1 : (@enhScore F 𝕊 c now false u).2 =
        ((score c : Int) : F) * @phaseWeight F 𝕊 c.phase * @softCapMult F 𝕊 c *
          (if (u && (c.weak || c.lossDegraded)) = true
            then @Scalar.lit F 𝕊 Enhanced.GATED_LINK_PENALTY_f Enhanced.GATED_LINK_PENALTY_num Enhanced.GATED_LINK_PENALTY_den
            else @Scalar.lit F 𝕊 1.0 1 1) := rfl
    rw [h1, hg]
    simp [qualFactor]
  · have h1 : (@enhScore F 𝕊 c now true u).2 =
        ((score c : Int) : F) * @phaseWeight F 𝕊 c.phase * (@cachedQuality F 𝕊 c now).2 * @softCapMult F 𝕊 c *
          (if (u && (c.weak || c.lossDegraded)) = true
            then @Scalar.lit F 𝕊 Enhanced.GATED_LINK_PENALTY_f Enhanced.GATED_LINK_PENALTY_num Enhanced.GATED_LINK_PENALTY_den
            else @Scalar.lit F 𝕊 1.0 1 1) := rfl
    rw [h1, hg, cachedQuality_snd]
    simp [qualFactor]

theorem gateFactor_pos (u : Bool) (c : SLink F) : (0 : F) < gateFactor u c := by
  unfold gateFactor; split <;> norm_num

theorem qualFactor_pos (he : ExpLaw e) (c : SLink F) (now : Nat) (quality : Bool) (hq : 0 < c.qualMult) :
    0 < qualFactor e ninf c now quality := by
  unfold qualFactor
  split
  · split
    · have := (qualityMult_range e ninf he c now).1
      linarith
    · exact hq
  · norm_num

/-- A connected link with a non-negative window and a positive cached quality scores `≥ 0`. -/
theorem enhScore_nonneg (he : ExpLaw e) (c : SLink F) (now : Nat) (quality u : Bool)
    (hc : c.connected = true) (hw : 0 ≤ c.window) (hq : 0 < c.qualMult) :
    0 ≤ (@enhScore F 𝕊 c now quality u).2 := by
  rw [enhScore_formula]
  have h1 : (0 : F) ≤ ((score c : Int) : F) := by exact_mod_cast score_nonneg c hc hw
  have h2 := phaseWeight_nonneg e ninf c.phase
  have h3 := le_of_lt (qualFactor_pos e ninf he c now quality hq)
  have h4 : (0 : F) ≤ @softCapMult F 𝕊 c := le_trans (by norm_num) (softCap_range e ninf c).1
  have h5 := le_of_lt (gateFactor_pos (F := F) u c)
  exact mul_nonneg (mul_nonneg (mul_nonneg (mul_nonneg h1 h2) h3) h4) h5


omit [Field F] [LinearOrder F] [IsStrictOrderedRing F] [FloorRing F] in
theorem score_le_window (c : SLink F) (hc : c.connected = true) (hw : 0 ≤ c.window) : score c ≤ c.window := by
  unfold score
  rw [hc]
  simp only [Bool.not_true, Bool.false_eq_true, if_false]
  exact Int.ediv_le_self _ hw

theorem phaseWeight_le_one (p : Phase) : @phaseWeight F 𝕊 p ≤ 1 := by
  rw [phaseWeight_val]; cases p <;> norm_num

theorem gateFactor_le_one (u : Bool) (c : SLink F) : gateFactor (F := F) u c ≤ 1 := by
  unfold gateFactor; split <;> norm_num

theorem qualFactor_le (he : ExpLaw e) (c : SLink F) (now : Nat) (quality : Bool)
    (hq : c.qualMult ≤ 11 / 10 * (103 / 100)) :
    qualFactor e ninf c now quality ≤ 11 / 10 * (103 / 100) := by
  unfold qualFactor
  split
  · split
    · exact (qualityMult_range e ninf he c now).2
    · exact hq
  · norm_num

/-- Boundedness of the score ("finite" in exact arithmetic). -/
theorem enhScore_le (he : ExpLaw e) (c : SLink F) (now : Nat) (quality u : Bool)
    (hc : c.connected = true) (hw : 0 ≤ c.window) (hq0 : 0 < c.qualMult)
    (hq : c.qualMult ≤ 11 / 10 * (103 / 100)) :
    (@enhScore F 𝕊 c now quality u).2 ≤ (c.window : F) * (11 / 10 * (103 / 100)) := by
  rw [enhScore_formula]
  have h1 : (0 : F) ≤ ((score c : Int) : F) := by exact_mod_cast score_nonneg c hc hw
  have h1' : ((score c : Int) : F) ≤ (c.window : F) := by exact_mod_cast score_le_window c hc hw
  have h2 := phaseWeight_nonneg e ninf c.phase
  have h2' := phaseWeight_le_one e ninf c.phase
  have h3 := le_of_lt (qualFactor_pos e ninf he c now quality hq0)
  have h3' := qualFactor_le e ninf he c now quality hq
  have h4 : (0 : F) ≤ @softCapMult F 𝕊 c := le_trans (by norm_num) (softCap_range e ninf c).1
  have h4' := (softCap_range e ninf c).2
  have h5 := le_of_lt (gateFactor_pos (F := F) u c)
  have h5' := gateFactor_le_one (F := F) u c
  have hw' : (0 : F) ≤ (c.window : F) := by exact_mod_cast hw
  have a1 : ((score c : Int) : F) * @phaseWeight F 𝕊 c.phase ≤ (c.window : F) * 1 :=
    mul_le_mul h1' h2' h2 hw'
  have a2 : ((score c : Int) : F) * @phaseWeight F 𝕊 c.phase * qualFactor e ninf c now quality ≤
      (c.window : F) * 1 * (11 / 10 * (103 / 100)) :=
    mul_le_mul a1 h3' h3 (by linarith)
  have a3 : ((score c : Int) : F) * @phaseWeight F 𝕊 c.phase * qualFactor e ninf c now quality *
      @softCapMult F 𝕊 c ≤ (c.window : F) * 1 * (11 / 10 * (103 / 100)) * 1 :=
    mul_le_mul a2 h4' h4 (by positivity)
  have a4 := mul_le_mul a3 h5' h5 (by positivity)
  linarith

/-! ## The decision -/

theorem lit_neg_one : @Scalar.lit F 𝕊 (-1.0) (-1) 1 = (-1 : F) := by norm_num [Scalar.lit]

/-- Entries of the table are non-negative in the domain. -/
theorem entry_nonneg (he : ExpLaw e) (ls : List (SLink F)) (now : Nat) (quality u : Bool)
    (hdom : ∀ c ∈ ls, 0 ≤ c.window ∧ 0 < c.qualMult) (k : Nat) (s : F)
    (hk : (ls.map (@entry F 𝕊 now quality u))[k]? = some (some s)) : 0 ≤ s := by
  obtain ⟨c, hc, hs, rfl⟩ := (@entry_getElem? F 𝕊 ls now quality u k s).1 hk
  have hmem : c ∈ ls := List.mem_of_getElem? hc
  have hconn : c.connected = true := by
    unfold enhSkip at hs
    simp only [Bool.or_eq_false_iff, Bool.not_eq_false'] at hs
    exact hs.1.2
  exact enhScore_nonneg e ninf he c now quality u hconn (hdom c hmem).1 (hdom c hmem).2

/-- A scored entry above the `-1` sentinel forces a best index. -/
theorem best_ne_none (t : List (Option F)) (k : Nat) (s : F) (hk : t[k]? = some (some s)) (hs : -1 < s) :
    (@bestGo F 𝕊 t 0 none (@Scalar.lit F 𝕊 (-1.0) (-1) 1)).1 ≠ none := by
  obtain ⟨-, h2, h3⟩ := bestGo_spec e ninf t 0 none (@Scalar.lit F 𝕊 (-1.0) (-1) 1)
  intro hn
  rcases h3 with ⟨-, h3⟩ | ⟨j, hj, -⟩
  · have := h2 k s hk
    rw [h3, lit_neg_one] at this
    exact absurd this (not_le.2 hs)
  · rw [hn] at hj; cases hj

/-- If an eligible link exists, some table entry is a score (the in-flight-cap skip always leaves
the unconstrained link that triggered it). -/
theorem exists_scored (ls : List (SLink F)) (now : Nat) (quality : Bool)
    (hex : ∃ c ∈ ls, c.connected = true ∧ isTimedOut c now = false ∧ schedulable c = true ∧
      c.stallGated = false) :
    ∃ (k : Nat) (s : F), (ls.map (@entry F 𝕊 now quality (@anyUnconstrained F 𝕊 ls now)))[k]? = some (some s) := by
  obtain ⟨c, hc, h1, h2, h3, h4⟩ := hex
  have key : ∃ d ∈ ls, @enhSkip F 𝕊 d now (@anyUnconstrained F 𝕊 ls now) = false := by
    by_cases hs : @enhSkip F 𝕊 c now (@anyUnconstrained F 𝕊 ls now) = false
    · exact ⟨c, hc, hs⟩
    · -- skipped only because of the cap while an unconstrained link exists
      have hu : @anyUnconstrained F 𝕊 ls now = true := by
        unfold enhSkip at hs
        simp only [h1, h2, h3, h4, Bool.not_true, Bool.or_self, Bool.false_or, Bool.and_eq_false_imp,
          not_forall] at hs
        obtain ⟨hu, -⟩ := hs
        exact hu
      have hu' := hu
      unfold anyUnconstrained at hu'
      obtain ⟨d, hd, hp⟩ := List.any_eq_true.1 hu'
      simp only [Bool.and_eq_true, Bool.not_eq_true'] at hp
      obtain ⟨⟨⟨⟨⟨⟨p1, p2⟩, p3⟩, -⟩, -⟩, p6⟩, p7⟩ := hp
      refine ⟨d, hd, ?_⟩
      unfold enhSkip
      simp [p1, p2, p3, p6, p7]
  obtain ⟨d, hd, hs⟩ := key
  obtain ⟨k, hk⟩ := List.getElem?_of_mem hd
  exact ⟨k, _, (@entry_getElem? F 𝕊 ls now quality _ k _).2 ⟨d, hk, hs, rfl⟩⟩

theorem decideRes_ne_none (last best : Option Nat) (bs : F) (cur : Option F) (hb : best ≠ none) :
    @decideRes F 𝕊 last best bs cur ≠ none := by
  rcases @decideRes_cases F 𝕊 last best bs cur with h | ⟨l, c, -, -, h⟩
  · rw [h]; exact hb
  · rw [h]; simp

/-- **Enhanced mode never comes back empty-handed** when an eligible link exists. -/
theorem enhanced_picks (he : ExpLaw e) (ls : List (SLink F)) (last : Option Nat) (now : Nat) (quality : Bool)
    (hdom : ∀ c ∈ ls, 0 ≤ c.window ∧ 0 < c.qualMult)
    (hex : ∃ c ∈ ls, c.connected = true ∧ isTimedOut c now = false ∧ schedulable c = true ∧
      c.stallGated = false) :
    (@enhancedSelect F 𝕊 ls last now quality).2 ≠ none := by
  rw [@enhancedSelect_eq F 𝕊]
  obtain ⟨k, s, hk⟩ := exists_scored e ninf ls now quality hex
  have hs := entry_nonneg e ninf he ls now quality _ hdom k s hk
  exact decideRes_ne_none e ninf _ _ _ _ (best_ne_none e ninf _ k s hk (by linarith))

/-- The selected index is a scored entry of the table (never a skipped link, never out of range). -/
theorem selected_scored (ls : List (SLink F)) (last : Option Nat) (now : Nat) (quality : Bool) (i : Nat)
    (h : (@enhancedSelect F 𝕊 ls last now quality).2 = some i) :
    ∃ s : F, (ls.map (@entry F 𝕊 now quality (@anyUnconstrained F 𝕊 ls now)))[i]? = some (some s) := by
  rw [@enhancedSelect_eq F 𝕊] at h
  dsimp only at h
  rcases @decideRes_cases F 𝕊 last _ _ _ with hb | ⟨l, c, hl, hc, hr⟩
  · rw [hb] at h
    obtain ⟨-, -, h3⟩ := bestGo_spec e ninf
      (ls.map (@entry F 𝕊 now quality (@anyUnconstrained F 𝕊 ls now))) 0 none (@Scalar.lit F 𝕊 (-1.0) (-1) 1)
    rcases h3 with ⟨h3, -⟩ | ⟨j, hj, hj2⟩
    · rw [h3] at h; cases h
    · rw [hj] at h
      have : 0 + j = i := Option.some.inj h
      have : j = i := by omega
      subst this
      exact ⟨_, hj2⟩
  · rw [hr] at h
    have : l = i := Option.some.inj h
    subst this
    subst hl
    exact ⟨c, (curGo_zero l _ c).1 hc⟩

/-- **Hysteresis**: the pass moves away from the previously selected index `l` only if `l` is not
scored, or the selected index `j ≠ l` is scored, is the maximum of the table, and
`score j ≥ 1.10 · score l`. -/
theorem leave_only_if (he : ExpLaw e) (ls : List (SLink F)) (l : Nat) (now : Nat) (quality : Bool)
    (hdom : ∀ c ∈ ls, 0 ≤ c.window ∧ 0 < c.qualMult)
    (h : (@enhancedSelect F 𝕊 ls (some l) now quality).2 ≠ some l) :
    (∀ s : F, (ls.map (@entry F 𝕊 now quality (@anyUnconstrained F 𝕊 ls now)))[l]? ≠ some (some s)) ∨
    ∃ (j : Nat) (sj sl : F), j ≠ l ∧
      (@enhancedSelect F 𝕊 ls (some l) now quality).2 = some j ∧
      (ls.map (@entry F 𝕊 now quality (@anyUnconstrained F 𝕊 ls now)))[j]? = some (some sj) ∧
      (ls.map (@entry F 𝕊 now quality (@anyUnconstrained F 𝕊 ls now)))[l]? = some (some sl) ∧
      sl * (11 / 10) ≤ sj ∧
      ∀ (k : Nat) (s : F),
        (ls.map (@entry F 𝕊 now quality (@anyUnconstrained F 𝕊 ls now)))[k]? = some (some s) → s ≤ sj := by
  rw [@enhancedSelect_eq F 𝕊] at h ⊢
  dsimp only at h ⊢
  generalize ht : ls.map (@entry F 𝕊 now quality (@anyUnconstrained F 𝕊 ls now)) = t at h ⊢
  have hnn : ∀ (k : Nat) (s : F), t[k]? = some (some s) → 0 ≤ s := by
    intro k s hk; rw [← ht] at hk
    exact entry_nonneg e ninf he ls now quality _ hdom k s hk
  cases hcur : @curGo F (some l) t 0 none with
  | none =>
    left
    intro s hs
    have := (curGo_zero l t s).2 hs
    rw [hcur] at this; cases this
  | some cur =>
    right
    have hl := (curGo_zero l t cur).1 hcur
    obtain ⟨-, h2, h3⟩ := bestGo_spec e ninf t 0 none (@Scalar.lit F 𝕊 (-1.0) (-1) 1)
    have hbn := best_ne_none e ninf t l cur hl (by have := hnn l cur hl; linarith)
    rcases h3 with ⟨h3, -⟩ | ⟨j, hj, hj2⟩
    · exact absurd h3 hbn
    · rw [hcur] at h
      generalize (@bestGo F 𝕊 t 0 none (@Scalar.lit F 𝕊 (-1.0) (-1) 1)).2 = bs at h h2 hj2 ⊢
      generalize (@bestGo F 𝕊 t 0 none (@Scalar.lit F 𝕊 (-1.0) (-1) 1)).1 = b at h hj ⊢
      have hj' : b = some j := by rw [hj]; congr 1; omega
      subst hj'
      have hjl : j ≠ l := by
        intro hjl; subst hjl
        apply h; simp [decideRes]
      have hne : (some j != some l) = true := by simp [hjl]
      have hlit : @Scalar.lit F 𝕊 Enhanced.SWITCH_THRESHOLD_f Enhanced.SWITCH_THRESHOLD_num
          Enhanced.SWITCH_THRESHOLD_den = (11 / 10 : F) := by
        norm_num [Scalar.lit, Enhanced.SWITCH_THRESHOLD_num, Enhanced.SWITCH_THRESHOLD_den]
      unfold decideRes at h ⊢
      simp only [hne, if_true, hlit, fs_lt, decide_eq_true_eq] at h ⊢
      by_cases hlt : bs < @Scalar.mul F 𝕊 cur (11 / 10)
      · rw [if_pos hlt] at h; exact absurd rfl h
      · rw [if_neg hlt]
        exact ⟨j, bs, cur, hjl, rfl, hj2, hl, not_lt.1 hlt, h2⟩

end
end Srtla.SelLemmas
