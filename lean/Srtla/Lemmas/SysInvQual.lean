import Srtla.Lemmas.SysInv
import Srtla.Lemmas.SelGate
import Srtla.Lemmas.EnhancedField
/-!
# The quality cache (`quality_multiplier` / `last_quality_calc_ms`) along shell runs

Who writes `SrtlaConnection::quality_multiplier`?  The constructor (`1.0`), REG3's
`clear_pre_registration_state` (`1.0`), and the refresh inside `get_cached_quality_multiplier`
(`calculate_quality_multiplier(conn, now)`), which the shell reaches only through the selection pass
of `handle_srt_packet`.  Nothing else.

* `qual_closed` — scalar-generic (`Float` included): any predicate `Q` on the cached value that holds
  of `1.0` and of every value `calculate_quality_multiplier` can return survives every per-link
  operation; with `step_all` it is an invariant of `Sys.step`.
* `qualRange_closed` — over an ordered field under `ExpLaw e`: the documented range
  `[0.35, 1.1·1.03]`, from `qualityMult_range` (Lemmas/EnhancedField.lean).
-/
set_option linter.unusedSectionVars false

namespace Srtla.SysInv
open Srtla Srtla.Gen Srtla.Conn Srtla.Select Srtla.Rtt Srtla.Link Srtla.Sys Scalar

section generic
variable {F : Type} [Scalar F]

/-- One visit of the enhanced loop leaves the cached value alone or refreshes it. -/
theorem enhStep_qual (now : Nat) (q a : Bool) (c : SLink F) :
    (enhStep now q a c).qualMult = c.qualMult ∨ (enhStep now q a c).qualMult = qualityMult c now := by
  unfold enhStep
  split
  · exact .inl rfl
  · unfold enhScore
    dsimp only
    split
    · exact .inl rfl
    · unfold cachedQuality
      split
      · exact .inr rfl
      · exact .inl rfl

/-- After `select_connection_idx` every link's cached value is the cached value of a link of the
input list, or a value `calculate_quality_multiplier` returned in this very pass. -/
theorem selectIdx_qual (ls : List (SLink F)) (last : Option Nat) (now : Nat) (cfg : Select.Cfg) (x : SLink F)
    (hx : x ∈ (selectIdx ls last now cfg).1) :
    (∃ c ∈ ls, x.qualMult = c.qualMult) ∨ ∃ c, x.qualMult = qualityMult c now := by
  have gate : ∀ y ∈ applyStallGate ls now cfg, ∃ c ∈ ls, y.qualMult = c.qualMult := by
    intro y hy
    obtain ⟨c, hc, hcore, -⟩ := SelLemmas.gate_mem_core hy
    have h := congrArg (fun z : SLink F => z.qualMult) hcore
    exact ⟨c, hc, h⟩
  unfold selectIdx at hx
  dsimp only at hx
  split at hx
  · exact .inl (gate x hx)
  · rw [Select.enhancedSelect_fst] at hx
    obtain ⟨y, hy, rfl⟩ := List.mem_map.1 hx
    rcases enhStep_qual now (cfg.quality && !cfg.classic) (anyUnconstrained (applyStallGate ls now cfg) now) y
      with h | h
    · obtain ⟨c, hc, he⟩ := gate y hy
      exact .inl ⟨c, hc, h.trans he⟩
    · exact .inr ⟨y, h⟩

/-- **Provenance of the quality cache, as a closure statement** (any scalar instance). -/
theorem qual_closed (now : Nat) (arm : Arm) (classic : Bool) (Q : F → Prop) (h1 : Q (Rtt.one : F))
    (h2 : ∀ (c : SLink F) (t : Nat), Q (qualityMult c t)) :
    Closed now arm classic (fun l : FLink F => Q l.qualMult) where
  soft := fun l l' hs h => by rw [hs.qualMult]; exact h
  queue := fun _ l pkt seq _ h => h
  take := fun _ l h => by
    show Q (l.takeBatch now).1.qualMult
    rw [Hk.takeBatch_eq]
    split <;> exact h
  mark := fun _ l h => h
  reconnect := fun _ l h => h
  reg3 := fun _ l _ => h1
  recover := fun _ _ l h => h
  srtAck := fun _ l a h => by
    show Q (l.srtAck a now).qualMult
    unfold FLink.srtAck
    dsimp only
    split <;> exact h
  sack := fun _ l seq h => h
  gack := fun _ l h => h
  nak := fun _ l seq h => h
  select := fun _ ls last cfg h p hp => by
    show Q p.2.qualMult
    obtain ⟨hp1, hp2⟩ := List.of_mem_zip hp
    rcases selectIdx_qual _ last now cfg p.2 hp2 with ⟨c, hc, he⟩ | ⟨c, he⟩
    · obtain ⟨l, hl, rfl⟩ := List.mem_map.1 hc
      rw [he]
      exact h l hl
    · rw [he]; exact h2 c now
  fresh := fun _ _ _ => h1

/-- Every cached quality multiplier is the constructor's / REG3's `1.0` or a value returned by
`calculate_quality_multiplier` — the predicate of the scalar-generic provenance invariant. -/
def QualSrc (q : F) : Prop := q = (Rtt.one : F) ∨ ∃ (c : SLink F) (t : Nat), q = qualityMult c t

theorem qualSrc_closed (now : Nat) (arm : Arm) (classic : Bool) :
    Closed now arm classic (fun l : FLink F => QualSrc l.qualMult) :=
  qual_closed now arm classic QualSrc (.inl rfl) (fun c t => .inr ⟨c, t, rfl⟩)

theorem qualSrc_new (connId now : Nat) : QualSrc (FLink.newRegistering connId now : FLink F).qualMult := .inl rfl

end generic

section field
variable {K : Type} [Field K] [LinearOrder K] [IsStrictOrderedRing K] [FloorRing K] (e : K → K) (ninf : K)

/-- The documented range of the cached quality multiplier, `[0.35, 1.1 · 1.03]`. -/
def QualRange (q : K) : Prop := 0.35 ≤ q ∧ q ≤ 1.1 * 1.03

omit [FloorRing K] in
theorem qualRange_one : QualRange (1 : K) := by
  unfold QualRange; constructor <;> norm_num

/-- **The cached quality multiplier stays in `[0.35, 1.133]`** under every per-link operation (exact
arithmetic, `ExpLaw e`). -/
theorem qualRange_closed (he : ExpLaw e) (now : Nat) (arm : Arm) (classic : Bool) :
    @Closed K (fieldScalar K e ninf) now arm classic (fun l => QualRange l.qualMult) := by
  refine @qual_closed K (fieldScalar K e ninf) now arm classic QualRange ?_ ?_
  · have : (@Rtt.one K (fieldScalar K e ninf)) = 1 := by
      unfold Rtt.one; norm_num [Scalar.lit]
    rw [this]; exact qualRange_one
  · intro c t
    obtain ⟨h1, h2⟩ := SelLemmas.qualityMult_range e ninf he c t
    unfold QualRange
    constructor
    · exact le_trans (by norm_num) h1
    · exact le_trans h2 (by norm_num)

theorem qualRange_new (connId now : Nat) :
    QualRange (@FLink.newRegistering K (fieldScalar K e ninf) connId now).qualMult := by
  have : (@FLink.newRegistering K (fieldScalar K e ninf) connId now).qualMult = 1 := by
    unfold FLink.newRegistering Rtt.one; norm_num [Scalar.lit]
  rw [this]; exact qualRange_one

end field

end Srtla.SysInv
