import Srtla.Lemmas.ForwardStep
import Srtla.Lemmas.Uplink
/-!
# C09 over a run: what reaches the SRT client is exactly the relayable uplink traffic

`relayOf` is the closed form of what ONE uplink datagram contributes to the client socket; `relayLog` folds
it over an event list, tracking the only two things it depends on: whether a client address is known
(`clientKnown`: set by the first non-empty client datagram, never cleared) and which conn ids are carried
by a link (constant along a run).  `run_client_log` shows that the concatenation of `Out.client` over any
run is exactly `relayLog`.
-/
namespace Srtla.Sys
open Srtla Srtla.Gen Srtla.Conn Srtla.Select Srtla.Rtt Srtla.Link Scalar

set_option linter.unusedSectionVars false

variable {F : Type} [Scalar F]

/-- SRTLA-internal type codes: REG2, REG3, REG_ERR, REG_NGP, SRTLA ACK, keepalive. -/
def internalType (pt : Nat) : Bool :=
  pt == 0x9201 || pt == 0x9202 || pt == 0x9210 || pt == 0x9211 || pt == 0x9100 || pt == 0x9000

/-- What one uplink datagram, arriving on the socket of conn id `cid`, contributes to the client socket:
nothing unless a client is known, the conn id is carried by a link, the datagram has a type code (two or
more bytes) and the code is not SRTLA-internal; then the datagram itself — twice for an SRT ACK (0x8002:
latency fast path, then the normal forward list), once otherwise. -/
def relayOf (known : List Nat) (ck : Bool) (cid : Nat) (data : Bytes) : List Bytes :=
  if ck && known.contains cid then
    match Codec.getPacketTypeS data with
    | none => []
    | some pt => if internalType pt then [] else if pt = 0x8002 then [data, data] else [data]
  else []

/-- A client address is known after the event iff it was known before or the event is a non-empty client
datagram. -/
def ckAfter (ck : Bool) : Ev → Bool
  | .client _ pkt => ck || !pkt.isEmpty
  | _ => ck

/-- The relay log of an event list: a pure function of the events, the set of conn ids and the initial
`clientKnown`. -/
def relayLog (known : List Nat) : Bool → List Ev → List Bytes
  | _, [] => []
  | ck, .uplink _ cid data :: evs => relayOf known ck cid data ++ relayLog known ck evs
  | ck, ev :: evs => relayLog known (ckAfter ck ev) evs

/-- Everything relayed to the client over a run, in order. -/
def clientLog (outs : List Out) : List Bytes := outs.flatMap (·.client)

theorem findIdx?_none_iff_not_known (ls : List (FLink F)) (cid : Nat) :
    ls.findIdx? (·.core.connId == cid) = none ↔ (ids ls).contains cid = false := by
  rw [List.findIdx?_eq_none_iff]
  simp only [ids, List.contains_eq_mem, List.mem_map, decide_eq_false_iff_not, not_exists, not_and, beq_eq_false_iff_ne]

/-- One uplink event: the client output in closed form. -/
theorem uplink_client_eq (s : Sys F) (cid : Nat) (data : Bytes) (now : Nat) :
    (handleUplinkPacket s cid data now).2.client = relayOf (ids s.links) s.clientKnown cid data := by
  unfold relayOf
  cases hf : s.links.findIdx? (·.core.connId == cid) with
  | none =>
    rw [Uplink.unknown_link s cid data now hf, (findIdx?_none_iff_not_known s.links cid).1 hf]
    simp
  | some idx =>
    have hk : (ids s.links).contains cid = true := by
      cases h : (ids s.links).contains cid
      · rw [(findIdx?_none_iff_not_known s.links cid).2 h] at hf; cases hf
      · rfl
    rw [hk, Bool.and_true]
    by_cases hlen : data.length < 2
    · rw [(Uplink.short_datagram s cid data now hlen).2.2.1]
      have : Codec.getPacketTypeS data = none := by
        match data, hlen with
        | [], _ => rfl
        | [_], _ => rfl
      rw [this]; simp
    · obtain ⟨pt, hpt⟩ := Uplink.type_of_len data (by omega)
      rw [Uplink.client_out s cid data now pt idx hpt hf, hpt]
      cases hck : s.clientKnown
      · simp
      · simp only [and_true, if_true, internalType, Bool.or_eq_true, beq_iff_eq]
        by_cases h8 : pt = 0x8002
        · subst h8; simp
        · simp only [h8, if_false, List.nil_append]
          by_cases hi : pt = 0x9211 ∨ pt = 0x9201 ∨ pt = 0x9202 ∨ pt = 0x9210 ∨ pt = 0x9100 ∨ pt = 0x9000
          · rw [if_pos hi, if_pos (by omega)]
          · rw [if_neg hi, if_neg (by omega)]

theorem forwardVia_client (s : Sys F) (sel : Nat) (pkt : Bytes) (seq : Option Nat) (now : Nat) :
    (forwardVia s sel pkt seq now).2.client = [] ∧
    (forwardVia s sel pkt seq now).1.clientKnown = s.clientKnown := by
  unfold forwardVia
  split
  · exact ⟨rfl, rfl⟩
  · dsimp only
    split <;> exact ⟨rfl, rfl⟩

/-- A client event relays nothing, and makes the client known iff the datagram is non-empty. -/
theorem client_client_eq (s : Sys F) (pkt : Bytes) (now : Nat) :
    (handleSrtPacket s pkt now).2.client = [] ∧
    (handleSrtPacket s pkt now).1.clientKnown = (s.clientKnown || !pkt.isEmpty) := by
  cases hne : pkt.isEmpty
  case true => unfold handleSrtPacket; rw [if_pos hne]; simp
  case false =>
    rw [handleSrtPacket_eq s pkt now hne]
    simp only [Bool.not_false, Bool.or_true]
    have hr : ∀ (s1 : Sys F) sel seq probes, (routeTo s1 sel pkt seq now probes).2.client = [] ∧
        (routeTo s1 sel pkt seq now probes).1.clientKnown = true := by
      intro s1 sel seq probes
      unfold routeTo
      dsimp only
      split
      · exact ⟨(forwardVia_client s1 sel pkt seq now).1, rfl⟩
      · exact ⟨(forwardVia_client s1 sel pkt seq now).1, rfl⟩
    split
    · split
      · exact hr _ _ _ _
      · exact ⟨rfl, rfl⟩
    · split
      · exact hr _ _ _ _
      · exact ⟨rfl, rfl⟩

theorem uplink_clientKnown (s : Sys F) (cid : Nat) (data : Bytes) (now : Nat) :
    (handleUplinkPacket s cid data now).1.clientKnown = s.clientKnown := by
  by_cases hne : data = []
  · subst hne; simp [handleUplinkPacket]
  cases hf : s.links.findIdx? (·.core.connId == cid) with
  | none => rw [Uplink.unknown_link s cid data now hf]
  | some idx =>
    obtain ⟨l, hl, -⟩ := Uplink.findIdx_get s.links cid idx hf
    rw [Uplink.handleUplinkPacket_eq s cid data now idx l hne hf hl]
    rfl

/-- **One event**: the client output and the new `clientKnown`, for every event constructor. -/
theorem step_client (s : Sys F) (ev : Ev) :
    (step s ev).2.client =
      (match ev with
       | .uplink _ cid data => relayOf (ids s.links) s.clientKnown cid data
       | _ => []) ∧
    (step s ev).1.clientKnown = ckAfter s.clientKnown ev := by
  cases ev with
  | client now pkt => exact client_client_eq s pkt now
  | uplink now cid data => exact ⟨uplink_client_eq s cid data now, uplink_clientKnown s cid data now⟩
  | flush now =>
    simp only [step, ckAfter]
    unfold flushAllBatches
    split <;> exact ⟨rfl, rfl⟩
  | hk now => exact ⟨rfl, rfl⟩
  | setCfg cfg => exact ⟨rfl, rfl⟩
  | crit d => exact ⟨rfl, rfl⟩
  | failNext c => exact ⟨rfl, rfl⟩
  | failAfter c kfa => exact ⟨rfl, rfl⟩
  | failBind c => exact ⟨rfl, rfl⟩
  | syncTimeout => exact ⟨rfl, rfl⟩
  | stamp idx weak ld ccb cct => exact ⟨rfl, rfl⟩
  | reload rnow raddrs routs => exact ⟨rfl, rfl⟩

/-- **The relay log of a run.**  With distinct conn ids, the concatenation of `Out.client` over any run
is `relayLog` of the event list. -/
theorem run_client_log (s : Sys F) (hnd : (ids s.links).Nodup) (evs : List Ev) (hnr : NoReload evs) :
    clientLog (run s evs).2 = relayLog (ids s.links) s.clientKnown evs := by
  induction evs generalizing s with
  | nil => rfl
  | cons ev evs ih =>
    obtain ⟨h1, h2⟩ := step_client s ev
    have hids := step_ids s ev hnd hnr.head
    have := ih (step s ev).1 (by rw [hids]; exact hnd) hnr.tail
    simp only [run, clientLog, List.flatMap_cons] at this ⊢
    rw [this, hids, h1, h2]
    cases ev <;> rfl

/-! ## Once a client is known: the log is the relayable arrivals, SRT ACKs doubled -/

/-- The datagram is relayed: its conn id is carried by a link, it has a type code (two or more bytes) and
the code is not SRTLA-internal. -/
def relayable (known : List Nat) (cid : Nat) (data : Bytes) : Bool :=
  known.contains cid &&
  match Codec.getPacketTypeS data with
  | none => false
  | some pt => !internalType pt

/-- How often a relayed datagram is sent to the client: an SRT ACK (0x8002) twice, back to back (latency
fast path inside `process_uplink_packet`, then the normal forward list), anything else once. -/
def relayCopies (data : Bytes) : List Bytes :=
  if Codec.getPacketTypeS data = some 0x8002 then [data, data] else [data]

/-- The relayable uplink datagrams of an event list, in arrival order. -/
def relayables (known : List Nat) : List Ev → List Bytes
  | [] => []
  | .uplink _ cid data :: evs =>
    if relayable known cid data then data :: relayables known evs else relayables known evs
  | _ :: evs => relayables known evs

theorem relayOf_true (known : List Nat) (cid : Nat) (data : Bytes) :
    relayOf known true cid data = if relayable known cid data then relayCopies data else [] := by
  unfold relayOf relayable relayCopies
  cases hk : known.contains cid
  · simp
  · cases hp : Codec.getPacketTypeS data with
    | none => simp
    | some pt =>
      simp only [Bool.true_and, if_true, Option.some.injEq]
      cases hi : internalType pt <;> simp

theorem relayOf_false (known : List Nat) (cid : Nat) (data : Bytes) : relayOf known false cid data = [] := by
  unfold relayOf; simp

theorem relayLog_true (known : List Nat) (evs : List Ev) :
    relayLog known true evs = (relayables known evs).flatMap relayCopies := by
  induction evs with
  | nil => rfl
  | cons ev evs ih =>
    cases ev with
    | uplink now cid data =>
      simp only [relayLog, relayables, relayOf_true, ih]
      split <;> simp
    | client now pkt => simpa [relayLog, relayables, ckAfter] using ih
    | flush now => simpa [relayLog, relayables, ckAfter] using ih
    | hk now => simpa [relayLog, relayables, ckAfter] using ih
    | setCfg c => simpa [relayLog, relayables, ckAfter] using ih
    | crit d => simpa [relayLog, relayables, ckAfter] using ih
    | failNext c => simpa [relayLog, relayables, ckAfter] using ih
    | failAfter c kfa => simpa [relayLog, relayables, ckAfter] using ih
    | failBind c => simpa [relayLog, relayables, ckAfter] using ih
    | syncTimeout => simpa [relayLog, relayables, ckAfter] using ih
    | stamp idx weak ld ccb cct => simpa [relayLog, relayables, ckAfter] using ih
    | reload rnow raddrs routs => simpa [relayLog, relayables, ckAfter] using ih

/-- No non-empty client datagram among the events. -/
def noClient : List Ev → Bool
  | [] => true
  | .client _ pkt :: evs => pkt.isEmpty && noClient evs
  | _ :: evs => noClient evs

theorem relayLog_false_noClient (known : List Nat) (evs : List Ev) (h : noClient evs = true) :
    relayLog known false evs = [] := by
  induction evs with
  | nil => rfl
  | cons ev evs ih =>
    cases ev with
    | uplink now cid data => simp only [relayLog, relayOf_false, List.nil_append]; exact ih h
    | client now pkt =>
      simp only [noClient, Bool.and_eq_true] at h
      simp only [relayLog, ckAfter, h.1, Bool.not_true, Bool.or_false]; exact ih h.2
    | flush now => exact ih h
    | hk now => exact ih h
    | setCfg c => exact ih h
    | crit d => exact ih h
    | failNext c => exact ih h
    | failAfter c kfa => exact ih h
    | failBind c => exact ih h
    | syncTimeout => exact ih h
    | stamp idx weak ld ccb cct => exact ih h
    | reload rnow raddrs routs => exact ih h

theorem relayLog_false_split (known : List Nat) (pre : List Ev) (now : Nat) (pkt : Bytes) (post : List Ev)
    (h : noClient pre = true) (hne : pkt.isEmpty = false) :
    relayLog known false (pre ++ .client now pkt :: post) = (relayables known post).flatMap relayCopies := by
  induction pre with
  | nil => simp only [List.nil_append, relayLog, ckAfter, hne, Bool.not_false, Bool.or_true, relayLog_true]
  | cons ev pre ih =>
    cases ev with
    | uplink now cid data => simp only [List.cons_append, relayLog, relayOf_false, List.nil_append]; exact ih h
    | client now' pkt' =>
      simp only [noClient, Bool.and_eq_true] at h
      simp only [List.cons_append, relayLog, ckAfter, h.1, Bool.not_true, Bool.or_false]; exact ih h.2
    | flush now => exact ih h
    | hk now => exact ih h
    | setCfg c => exact ih h
    | crit d => exact ih h
    | failNext c => exact ih h
    | failAfter c kfa => exact ih h
    | failBind c => exact ih h
    | syncTimeout => exact ih h
    | stamp idx weak ld ccb cct => exact ih h
    | reload rnow raddrs routs => exact ih h

theorem sublist_flatMap_relayCopies (l : List Bytes) : l.Sublist (l.flatMap relayCopies) := by
  induction l with
  | nil => exact List.Sublist.refl _
  | cons d l ih =>
    simp only [List.flatMap_cons, relayCopies]
    split
    · exact (ih.cons _).cons_cons _
    · exact ih.cons_cons _

theorem mem_flatMap_relayCopies {l : List Bytes} {d : Bytes} : d ∈ l.flatMap relayCopies ↔ d ∈ l := by
  simp only [List.mem_flatMap, relayCopies]
  constructor
  · rintro ⟨a, ha, hd⟩
    split at hd
    · simp only [List.mem_cons, List.not_mem_nil, or_false, or_self] at hd; rw [hd]; exact ha
    · simp only [List.mem_singleton] at hd; rw [hd]; exact ha
  · intro h
    refine ⟨d, h, ?_⟩
    split <;> simp

theorem mem_relayables {known : List Nat} {evs : List Ev} {d : Bytes} :
    d ∈ relayables known evs ↔ ∃ now cid, Ev.uplink now cid d ∈ evs ∧ relayable known cid d = true := by
  induction evs with
  | nil => simp [relayables]
  | cons ev evs ih =>
    cases ev with
    | uplink now cid data =>
      simp only [relayables]
      split
      · rename_i hr
        simp only [List.mem_cons, ih]
        constructor
        · rintro (rfl | ⟨n, c, h1, h2⟩)
          · exact ⟨now, cid, Or.inl rfl, hr⟩
          · exact ⟨n, c, Or.inr h1, h2⟩
        · rintro ⟨n, c, h1 | h1, h2⟩
          · cases h1; exact Or.inl rfl
          · exact Or.inr ⟨n, c, h1, h2⟩
      · rename_i hr
        rw [ih]
        constructor
        · rintro ⟨n, c, h1, h2⟩; exact ⟨n, c, List.mem_cons_of_mem _ h1, h2⟩
        · rintro ⟨n, c, h1, h2⟩
          rcases List.mem_cons.1 h1 with h1 | h1
          · cases h1; exact absurd h2 hr
          · exact ⟨n, c, h1, h2⟩
    | _ =>
      simp only [relayables, ih, List.mem_cons, reduceCtorEq, false_or]

end Srtla.Sys
