import Srtla.Lemmas.Uplink
import Srtla.Lemmas.Keepalive
import Srtla.Lemmas.SelectFrame
/-!
# The keepalive cadence clock between housekeeping ticks (C14 trace corollary)

`last_keepalive_sent` is written by `keepalive_packet` (called from housekeeping only) and cleared by
`mark_for_recovery`.  Here: every shell event other than a housekeeping tick leaves each link's
cadence clock as it was or clears it (`LksFrame`), and keeps the links in place.  Core Lean only.
-/
namespace Srtla.KaTrace
open Srtla Srtla.Gen Srtla.Conn Srtla.Link Srtla.Sys Srtla.Rtt Srtla.Uplink Srtla.Keepalive

variable {F : Type} [Scalar F]

/-- The cadence clock is kept or cleared. -/
def LksFrame (l l' : FLink F) : Prop :=
  l'.lastKeepaliveSent = l.lastKeepaliveSent ∨ l'.lastKeepaliveSent = none

omit [Scalar F] in
theorem LksFrame.rfl' (l : FLink F) : LksFrame l l := Or.inl rfl

omit [Scalar F] in
theorem LksFrame.trans {a b c : FLink F} (h₁ : LksFrame a b) (h₂ : LksFrame b c) : LksFrame a c := by
  unfold LksFrame at *
  rcases h₂ with h | h
  · rw [h]; exact h₁
  · exact Or.inr h

omit [Scalar F] in
theorem pw_trans {l₁ l₂ l₃ : List (FLink F)} (h₁ : PW LksFrame l₁ l₂) (h₂ : PW LksFrame l₂ l₃) :
    PW LksFrame l₁ l₃ :=
  PW.trans h₁ h₂ (fun _ _ _ => LksFrame.trans)

omit [Scalar F] in
theorem pw_refl (ls : List (FLink F)) : PW LksFrame ls ls := PW.refl LksFrame.rfl' ls

omit [Scalar F] in
theorem pw_setAt (ls : List (FLink F)) (i : Nat) (l x : FLink F) (hl : ls[i]? = some l)
    (h : LksFrame l x) : PW LksFrame ls (setAt ls i x) := by
  refine ⟨by simp [setAt], ?_⟩
  intro j a b ha hb
  rw [getElem?_setAt, ha] at hb
  split at hb
  · rename_i hj; subst hj
    rw [hl] at ha; cases ha
    simp at hb; subst hb; exact h
  · cases hb; exact LksFrame.rfl' a

omit [Scalar F] in
theorem scb_lks (l : FLink F) (now : Nat) (fn : List Nat) :
    (sendConnectionBatch l now fn).1.lastKeepaliveSent = l.lastKeepaliveSent := by
  unfold sendConnectionBatch FLink.takeBatch
  dsimp only
  split <;> (try split) <;> (try split) <;> rfl

omit [Scalar F] in
/-- A queued packet followed by an optional flush (send failure ⇒ `mark_for_recovery`). -/
theorem queue_flush_frame (l : FLink F) (pkt : Sys.Bytes) (seq : Option Nat) (now : Nat) (fn : List Nat) :
    LksFrame l (l.queueDataPacket pkt seq now).1 ∧
    LksFrame l (sendConnectionBatch (l.queueDataPacket pkt seq now).1 now fn).1 ∧
    LksFrame l (sendConnectionBatch (l.queueDataPacket pkt seq now).1 now fn).1.markForRecovery :=
  ⟨Or.inl rfl, Or.inl (scb_lks _ now fn), Or.inr rfl⟩

omit [Scalar F] in
theorem forwardVia_frame (s : Sys F) (sel : Nat) (pkt : Sys.Bytes) (seq : Option Nat) (now : Nat) :
    PW LksFrame s.links (forwardVia s sel pkt seq now).1.links := by
  unfold forwardVia
  split
  · exact pw_refl _
  · rename_i l hl
    obtain ⟨q1, q2, q3⟩ := queue_flush_frame l pkt seq now s.failNext
    dsimp only
    split
    · dsimp only
      apply pw_setAt s.links sel l _ hl
      split
      · exact q2
      · exact q3
    · exact pw_setAt s.links sel l _ hl q1

omit [Scalar F] in
theorem stallProbesGo_frame (pkt : Sys.Bytes) (seq : Option Nat) (now sel : Nat) (ls : List (FLink F))
    (i : Nat) (fn : List Nat) : PW LksFrame ls (stallProbesGo pkt seq now sel ls i fn).1 := by
  induction ls generalizing i fn with
  | nil => simp [stallProbesGo]; exact PW.nil
  | cons l rest ih =>
    unfold stallProbesGo
    split
    · exact PW.cons (LksFrame.rfl' l) (ih _ _)
    · dsimp only
      have hd : LksFrame l l.stallProbeDue.1 := by
        unfold FLink.stallProbeDue; dsimp only; split <;> exact Or.inl rfl
      split
      · exact PW.cons hd (ih _ _)
      · obtain ⟨q1, q2, q3⟩ := queue_flush_frame l.stallProbeDue.1 pkt seq now fn
        split
        · dsimp only
          refine PW.cons ?_ (ih _ _)
          split
          · exact hd.trans q2
          · exact hd.trans q3
        · exact PW.cons (hd.trans q1) (ih _ _)

theorem runSelect_frame (s : Sys F) (now : Nat) : PW LksFrame s.links (runSelect s now).1.links := by
  unfold runSelect
  dsimp only
  obtain ⟨g, hg, -⟩ := Select.selectIdx_map (s.links.map FLink.toSLink) s.lastSelected now s.cfg
  rw [hg]
  refine ⟨by simp, ?_⟩
  intro j a b ha hb
  rw [List.getElem?_map] at hb
  cases hz : (s.links.zip ((s.links.map FLink.toSLink).map g))[j]? with
  | none => rw [hz] at hb; simp at hb
  | some p =>
    rw [hz] at hb
    simp only [Option.map_some, Option.some.injEq] at hb
    obtain ⟨h1, -⟩ := List.getElem?_zip_eq_some.mp hz
    rw [ha] at h1; cases h1
    subst hb
    exact Or.inl rfl

theorem handleSrtPacket_frame (s : Sys F) (pkt : Sys.Bytes) (now : Nat) :
    PW LksFrame s.links (handleSrtPacket s pkt now).1.links := by
  unfold handleSrtPacket
  split
  · exact pw_refl _
  · dsimp only
    split
    · split
      · exact forwardVia_frame s _ pkt _ now
      · exact pw_refl _
    · have hr := runSelect_frame s now
      split
      · rename_i i hi
        have hf := forwardVia_frame (runSelect s now).1 i pkt (Codec.getSrtSequenceNumberS pkt) now
        split
        · dsimp only
          exact pw_trans hr (pw_trans hf (stallProbesGo_frame pkt _ now i _ 0 _))
        · exact pw_trans hr hf
      · exact hr

omit [Scalar F] in
theorem flushGo_frame (now : Nat) (ls : List (FLink F)) (fn : List Nat) :
    PW LksFrame ls (flushGo now ls fn).1 := by
  induction ls generalizing fn with
  | nil => simp [flushGo]; exact PW.nil
  | cons l rest ih =>
    unfold flushGo
    split
    · dsimp only
      exact PW.cons (Or.inl (scb_lks l now fn)) (ih _)
    · exact PW.cons (LksFrame.rfl' l) (ih _)

omit [Scalar F] in
theorem flushAllBatches_frame (s : Sys F) (now : Nat) :
    PW LksFrame s.links (flushAllBatches s now).1.links := by
  unfold flushAllBatches
  split
  · exact pw_refl _
  · exact flushGo_frame now s.links s.failNext

theorem arrival_frame (l : FLink F) (idx : Nat) (reg : Reg.Reg) (ck : Bool) (data : Codec.Bytes) (now : Nat) :
    LksFrame l (arrival l idx reg ck data now) := by
  cases hpt : Codec.getPacketTypeS data with
  | none =>
    have : arrival l idx reg ck data now = l := by
      unfold arrival; rw [pupSpec_none l idx reg ck data now hpt]
    rw [this]; exact LksFrame.rfl' l
  | some pt =>
    rcases arrival_cases l idx reg ck data now pt hpt with
      ⟨-, h | h⟩ | ⟨-, h⟩ | ⟨-, h⟩ | ⟨-, h⟩ | ⟨-, h⟩ | ⟨-, -, -, -, -, h⟩ <;> rw [h]
    · exact Or.inl rfl
    · exact Or.inl rfl
    · exact Or.inl rfl
    · exact Or.inl rfl
    · exact Or.inr rfl
    · exact Or.inl (kaLink_spec l data now).2.2.2.2.2.1
    · exact Or.inl rfl

theorem handleUplinkPacket_frame (s : Sys F) (cid : Nat) (data : Codec.Bytes) (now : Nat) :
    PW LksFrame s.links (handleUplinkPacket s cid data now).1.links := by
  refine ⟨(handleUplinkPacket_length s cid data now).symm, ?_⟩
  intro j a b ha hb
  by_cases hne : data = []
  · subst hne
    have : (handleUplinkPacket s cid [] now).1 = s := by simp [handleUplinkPacket]
    rw [this, ha] at hb; cases hb; exact LksFrame.rfl' a
  cases hf : s.links.findIdx? (·.core.connId == cid) with
  | none =>
    rw [unknown_link s cid data now hf, ha] at hb; cases hb; exact LksFrame.rfl' a
  | some idx =>
    obtain ⟨l, hl, -⟩ := findIdx_get s.links cid idx hf
    obtain ⟨b', hb', hev⟩ := handleUplinkPacket_link s cid data now idx l hne hf hl j a ha
    rw [hb] at hb'; cases hb'
    have hsh := hev.shell
    unfold SameShell at hsh
    have hb2 : b.lastKeepaliveSent =
        (if j = idx then arrival l idx s.reg s.clientKnown data now else a).lastKeepaliveSent := by
      rw [hsh]
    unfold LksFrame
    rw [hb2]
    split
    · rename_i hj; subst hj
      rw [hl] at ha; cases ha
      exact arrival_frame a j s.reg s.clientKnown data now
    · exact Or.inl rfl

/-- Events other than a housekeeping tick. -/
def notHk : Ev → Bool
  | .hk _ => false
  | _ => true

theorem step_frame (s : Sys F) (e : Ev) (h : notHk e = true) :
    PW LksFrame s.links (step s e).1.links := by
  cases e with
  | client now pkt => exact handleSrtPacket_frame s pkt now
  | uplink now cid data => exact handleUplinkPacket_frame s cid data now
  | flush now => exact flushAllBatches_frame s now
  | hk now => simp [notHk] at h
  | setCfg cfg => exact pw_refl _
  | crit d => exact pw_refl _
  | failNext cid => exact pw_refl _

/-- The state after a list of events (outputs dropped). -/
def runEvs (s : Sys F) (evs : List Ev) : Sys F := evs.foldl (fun s e => (step s e).1) s

theorem runEvs_frame (s : Sys F) (evs : List Ev) (h : ∀ e ∈ evs, notHk e = true) :
    PW LksFrame s.links (runEvs s evs).links := by
  unfold runEvs
  induction evs generalizing s with
  | nil => exact pw_refl _
  | cons e es ih =>
    simp only [List.foldl_cons]
    exact pw_trans (step_frame s e (h e (by simp))) (ih _ (fun e' he' => h e' (by simp [he'])))

end Srtla.KaTrace
