import Srtla.Lemmas.ReloadBasic
import Srtla.Lemmas.Uplink
import Srtla.Lemmas.Keepalive
import Srtla.Lemmas.SelectFrame
/-!
# The keepalive cadence clock between housekeeping ticks (C14 trace corollary)

`last_keepalive_sent` is written by `keepalive_packet` (called from housekeeping only) and cleared by
`mark_for_recovery`.  Here: every shell event other than a housekeeping tick leaves each link's
cadence clock as it was or clears it (`LksFrame`), and keeps the links in place.  Core Lean only.
-/
namespace Srtla.KaTrace
open Srtla Srtla.Gen Srtla.Conn Srtla.Link Srtla.Sys Srtla.Rtt Srtla.Uplink Srtla.Keepalive

variable {F : Type} [Scalar F]
variable {fa : List (Nat × Nat)}

/-- The cadence clock is kept or cleared. -/
def LksFrame (l l' : FLink F) : Prop :=
  l'.lastKeepaliveSent = l.lastKeepaliveSent ∨ l'.lastKeepaliveSent = none

omit [Scalar F] in
theorem LksFrame.rfl' (l : FLink F) : LksFrame l l := Or.inl rfl

omit [Scalar F] in
theorem LksFrame.trans {a b c : FLink F} (h₁ : LksFrame a b) (h₂ : LksFrame b c) : LksFrame a c := by
  unfold LksFrame at *
  rcases h₂ with h | h
  · rw [h]; exact h₁
  · exact Or.inr h

omit [Scalar F] in
theorem pw_trans {l₁ l₂ l₃ : List (FLink F)} (h₁ : PW LksFrame l₁ l₂) (h₂ : PW LksFrame l₂ l₃) :
    PW LksFrame l₁ l₃ :=
  PW.trans h₁ h₂ (fun _ _ _ => LksFrame.trans)

omit [Scalar F] in
theorem pw_refl (ls : List (FLink F)) : PW LksFrame ls ls := PW.refl LksFrame.rfl' ls

omit [Scalar F] in
theorem pw_setAt (ls : List (FLink F)) (i : Nat) (l x : FLink F) (hl : ls[i]? = some l)
    (h : LksFrame l x) : PW LksFrame ls (setAt ls i x) := by
  refine ⟨by simp [setAt], ?_⟩
  intro j a b ha hb
  rw [getElem?_setAt, ha] at hb
  split at hb
  · rename_i hj; subst hj
    rw [hl] at ha; cases ha
    simp at hb; subst hb; exact h
  · cases hb; exact LksFrame.rfl' a

omit [Scalar F] in
theorem scb_lks (l : FLink F) (now : Nat) (fn : List Nat) :
    (sendConnectionBatch fa l now fn).1.lastKeepaliveSent = l.lastKeepaliveSent := by
  unfold sendConnectionBatch FLink.takeBatch
  dsimp only
  split <;> (try split) <;> (try split) <;> rfl

omit [Scalar F] in
/-- A queued packet followed by an optional flush (send failure ⇒ `mark_for_recovery`). -/
theorem queue_flush_frame (l : FLink F) (pkt : Sys.Bytes) (seq : Option Nat) (now : Nat) (fn : List Nat) :
    LksFrame l (l.queueDataPacket pkt seq now).1 ∧
    LksFrame l (sendConnectionBatch fa (l.queueDataPacket pkt seq now).1 now fn).1 ∧
    LksFrame l (sendConnectionBatch fa (l.queueDataPacket pkt seq now).1 now fn).1.markForRecovery :=
  ⟨Or.inl rfl, Or.inl (scb_lks _ now fn), Or.inr rfl⟩

omit [Scalar F] in
theorem forwardVia_frame (s : Sys F) (sel : Nat) (pkt : Sys.Bytes) (seq : Option Nat) (now : Nat) :
    PW LksFrame s.links (forwardVia s sel pkt seq now).1.links := by
  unfold forwardVia
  split
  · exact pw_refl _
  · rename_i l hl
    obtain ⟨q1, q2, q3⟩ := queue_flush_frame l pkt seq now s.failNext
    dsimp only
    split
    · dsimp only
      apply pw_setAt s.links sel l _ hl
      split
      · exact q2
      · exact q3
    · exact pw_setAt s.links sel l _ hl q1

omit [Scalar F] in
theorem stallProbesGo_frame (pkt : Sys.Bytes) (seq : Option Nat) (now sel : Nat) (ls : List (FLink F))
    (i : Nat) (fn : List Nat) : PW LksFrame ls (stallProbesGo fa pkt seq now sel ls i fn).1 := by
  induction ls generalizing i fn with
  | nil => simp [stallProbesGo]; exact PW.nil
  | cons l rest ih =>
    unfold stallProbesGo
    split
    · exact PW.cons (LksFrame.rfl' l) (ih _ _)
    · dsimp only
      have hd : LksFrame l l.stallProbeDue.1 := by
        unfold FLink.stallProbeDue; dsimp only; split <;> exact Or.inl rfl
      split
      · exact PW.cons hd (ih _ _)
      · obtain ⟨q1, q2, q3⟩ := queue_flush_frame l.stallProbeDue.1 pkt seq now fn
        split
        · dsimp only
          refine PW.cons ?_ (ih _ _)
          split
          · exact hd.trans q2
          · exact hd.trans q3
        · exact PW.cons (hd.trans q1) (ih _ _)

theorem runSelect_frame (s : Sys F) (now : Nat) : PW LksFrame s.links (runSelect s now).1.links := by
  unfold runSelect
  dsimp only
  obtain ⟨g, hg, -⟩ := Select.selectIdx_map (s.links.map FLink.toSLink) s.lastSelected now s.cfg
  rw [hg]
  refine ⟨by simp, ?_⟩
  intro j a b ha hb
  rw [List.getElem?_map] at hb
  cases hz : (s.links.zip ((s.links.map FLink.toSLink).map g))[j]? with
  | none => rw [hz] at hb; simp at hb
  | some p =>
    rw [hz] at hb
    simp only [Option.map_some, Option.some.injEq] at hb
    obtain ⟨h1, -⟩ := List.getElem?_zip_eq_some.mp hz
    rw [ha] at h1; cases h1
    subst hb
    exact Or.inl rfl

theorem handleSrtPacket_frame (s : Sys F) (pkt : Sys.Bytes) (now : Nat) :
    PW LksFrame s.links (handleSrtPacket s pkt now).1.links := by
  unfold handleSrtPacket
  split
  · exact pw_refl _
  · dsimp only
    split
    · split
      · exact forwardVia_frame s _ pkt _ now
      · exact pw_refl _
    · have hr := runSelect_frame s now
      split
      · rename_i i hi
        have hf := forwardVia_frame (runSelect s now).1 i pkt (Codec.getSrtSequenceNumberS pkt) now
        split
        · dsimp only
          exact pw_trans hr (pw_trans hf (stallProbesGo_frame pkt _ now i _ 0 _))
        · exact pw_trans hr hf
      · exact hr

omit [Scalar F] in
theorem flushGo_frame (now : Nat) (ls : List (FLink F)) (fn : List Nat) :
    PW LksFrame ls (flushGo fa now ls fn).1 := by
  induction ls generalizing fn with
  | nil => simp [flushGo]; exact PW.nil
  | cons l rest ih =>
    unfold flushGo
    split
    · dsimp only
      exact PW.cons (Or.inl (scb_lks l now fn)) (ih _)
    · exact PW.cons (LksFrame.rfl' l) (ih _)

omit [Scalar F] in
theorem flushAllBatches_frame (s : Sys F) (now : Nat) :
    PW LksFrame s.links (flushAllBatches s now).1.links := by
  unfold flushAllBatches
  split
  · exact pw_refl _
  · exact flushGo_frame now s.links s.failNext

theorem arrival_frame (l : FLink F) (idx : Nat) (reg : Reg.Reg) (ck : Bool) (data : Codec.Bytes) (now : Nat) :
    LksFrame l (arrival l idx reg ck data now) := by
  cases hpt : Codec.getPacketTypeS data with
  | none =>
    have : arrival l idx reg ck data now = l := by
      unfold arrival; rw [pupSpec_none l idx reg ck data now hpt]
    rw [this]; exact LksFrame.rfl' l
  | some pt =>
    rcases arrival_cases l idx reg ck data now pt hpt with
      ⟨-, h | h⟩ | ⟨-, h⟩ | ⟨-, h⟩ | ⟨-, h⟩ | ⟨-, h⟩ | ⟨-, -, -, -, -, h⟩ <;> rw [h]
    · exact Or.inl rfl
    · exact Or.inl rfl
    · exact Or.inl rfl
    · exact Or.inl rfl
    · exact Or.inr rfl
    · exact Or.inl (kaLink_spec l data now).2.2.2.2.2.1
    · exact Or.inl rfl

theorem handleUplinkPacket_frame (s : Sys F) (cid : Nat) (data : Codec.Bytes) (now : Nat) :
    PW LksFrame s.links (handleUplinkPacket s cid data now).1.links := by
  refine ⟨(handleUplinkPacket_length s cid data now).symm, ?_⟩
  intro j a b ha hb
  by_cases hne : data = []
  · subst hne
    have : (handleUplinkPacket s cid [] now).1 = s := by simp [handleUplinkPacket]
    rw [this, ha] at hb; cases hb; exact LksFrame.rfl' a
  cases hf : s.links.findIdx? (·.core.connId == cid) with
  | none =>
    rw [unknown_link s cid data now hf, ha] at hb; cases hb; exact LksFrame.rfl' a
  | some idx =>
    obtain ⟨l, hl, -⟩ := findIdx_get s.links cid idx hf
    obtain ⟨b', hb', hev⟩ := handleUplinkPacket_link s cid data now idx l hne hf hl j a ha
    rw [hb] at hb'; cases hb'
    have hsh := hev.shell
    unfold SameShell at hsh
    have hb2 : b.lastKeepaliveSent =
        (if j = idx then arrival l idx s.reg s.clientKnown data now else a).lastKeepaliveSent := by
      rw [hsh]
    unfold LksFrame
    rw [hb2]
    split
    · rename_i hj; subst hj
      rw [hl] at ha; cases ha
      exact arrival_frame a j s.reg s.clientKnown data now
    · exact Or.inl rfl

/-- Events other than a housekeeping tick. -/
def notHk : Ev → Bool
  | .hk _ => false
  | _ => true

theorem step_frame (s : Sys F) (e : Ev) (h : notHk e = true) (hnr : e.isReload = false) :
    PW LksFrame s.links (step s e).1.links := by
  cases e with
  | reload now addrs outs => cases hnr
  | client now pkt => exact handleSrtPacket_frame s pkt now
  | uplink now cid data => exact handleUplinkPacket_frame s cid data now
  | flush now => exact flushAllBatches_frame s now
  | hk now => simp [notHk] at h
  | setCfg cfg => exact pw_refl _
  | crit d => exact pw_refl _
  | failNext cid => exact pw_refl _
  | failAfter cid kfa => exact pw_refl _
  | failBind cid => exact pw_refl _
  | stamp idx weak ld ccb cct => exact pw_stampLink (R := LksFrame) LksFrame.rfl' (fun _ _ _ _ _ => Or.inl rfl) _ _ _ _ _ _
  | syncTimeout => exact pw_syncTimeout (R := LksFrame) _ (fun _ => Or.inl rfl) _

/-- The state after a list of events (outputs dropped). -/
def runEvs (s : Sys F) (evs : List Ev) : Sys F := evs.foldl (fun s e => (step s e).1) s

theorem runEvs_frame (s : Sys F) (evs : List Ev) (h : ∀ e ∈ evs, notHk e = true) (hnr : NoReload evs) :
    PW LksFrame s.links (runEvs s evs).links := by
  unfold runEvs
  induction evs generalizing s with
  | nil => exact pw_refl _
  | cons e es ih =>
    simp only [List.foldl_cons]
    exact pw_trans (step_frame s e (h e (by simp)) hnr.head) (ih _ (fun e' he' => h e' (by simp [he'])) hnr.tail)

end Srtla.KaTrace

/-! ## Appended (round 2): conn ids stay in place under EVERY event; stamps vs. the clock; wire history -/
namespace Srtla.KaTrace
open Srtla Srtla.Gen Srtla.Conn Srtla.Link Srtla.Sys Srtla.Rtt Srtla.Uplink Srtla.Keepalive

variable {F : Type} [Scalar F]

/-- The link keeps its connection id. -/
def IdFrame (l l' : FLink F) : Prop := l'.core.connId = l.core.connId

omit [Scalar F] in
theorem IdFrame.trans {a b c : FLink F} (h₁ : IdFrame a b) (h₂ : IdFrame b c) : IdFrame a c := by
  unfold IdFrame at *; rw [h₂, h₁]

omit [Scalar F] in
theorem id_trans {l₁ l₂ l₃ : List (FLink F)} (h₁ : PW IdFrame l₁ l₂) (h₂ : PW IdFrame l₂ l₃) :
    PW IdFrame l₁ l₃ := PW.trans h₁ h₂ (fun _ _ _ => IdFrame.trans)

omit [Scalar F] in
theorem IdFrame.rfl' (l : FLink F) : IdFrame l l := rfl

omit [Scalar F] in
theorem id_refl (ls : List (FLink F)) : PW IdFrame ls ls := PW.refl IdFrame.rfl' ls

omit [Scalar F] in
theorem id_setAt (ls : List (FLink F)) (i : Nat) (l x : FLink F) (hl : ls[i]? = some l)
    (h : IdFrame l x) : PW IdFrame ls (setAt ls i x) := by
  refine ⟨by simp [setAt], ?_⟩
  intro j a b ha hb
  rw [getElem?_setAt, ha] at hb
  split at hb
  · rename_i hj; subst hj
    rw [hl] at ha; cases ha
    simp at hb; subst hb; exact h
  · cases hb; exact rfl

theorem foldl_register_connId (q : List QItem) (c : Conn) :
    (q.foldl (fun c (it : QItem) =>
      match it.2.1 with
      | some s => c.register (toI32 s) it.2.2
      | none => c) c).connId = c.connId := by
  induction q generalizing c with
  | nil => rfl
  | cons it rest ih =>
    simp only [List.foldl_cons]
    rw [ih]
    split <;> rfl

omit [Scalar F] in
theorem scb_connId (l : FLink F) (now : Nat) (fn : List Nat) :
    (sendConnectionBatch fa l now fn).1.core.connId = l.core.connId := by
  have hq := foldl_register_connId l.queue l.core
  unfold sendConnectionBatch FLink.takeBatch
  dsimp only
  split <;> (try split) <;> (try split) <;> first | rfl | exact hq

omit [Scalar F] in
theorem mfr_connId (l : FLink F) : l.markForRecovery.core.connId = l.core.connId := rfl

omit [Scalar F] in
theorem forwardVia_id (s : Sys F) (sel : Nat) (pkt : Sys.Bytes) (seq : Option Nat) (now : Nat) :
    PW IdFrame s.links (forwardVia s sel pkt seq now).1.links := by
  unfold forwardVia
  split
  · exact id_refl _
  · rename_i l hl
    dsimp only
    split
    · dsimp only
      apply id_setAt s.links sel l _ hl
      unfold IdFrame
      split
      · exact scb_connId _ now _
      · rw [mfr_connId]; exact scb_connId _ now _
    · exact id_setAt s.links sel l _ hl rfl

omit [Scalar F] in
theorem stallProbesGo_id (pkt : Sys.Bytes) (seq : Option Nat) (now sel : Nat) (ls : List (FLink F))
    (i : Nat) (fn : List Nat) : PW IdFrame ls (stallProbesGo fa pkt seq now sel ls i fn).1 := by
  induction ls generalizing i fn with
  | nil => simp [stallProbesGo]; exact PW.nil
  | cons l rest ih =>
    unfold stallProbesGo
    split
    · exact PW.cons rfl (ih _ _)
    · dsimp only
      have hd : l.stallProbeDue.1.core.connId = l.core.connId := by
        unfold FLink.stallProbeDue; dsimp only; split <;> rfl
      split
      · exact PW.cons hd (ih _ _)
      · split
        · dsimp only
          refine PW.cons ?_ (ih _ _)
          unfold IdFrame
          split
          · rw [scb_connId]; exact hd
          · rw [mfr_connId, scb_connId]; exact hd
        · exact PW.cons hd (ih _ _)

/-- A selection pass keeps every link's accounting core, queue, RTT state and cadence clock. -/
theorem runSelect_core (s : Sys F) (now : Nat) :
    PW (fun (a b : FLink F) => b.core = a.core ∧ b.queue = a.queue ∧ b.rtt = a.rtt ∧
      b.lastKeepaliveSent = a.lastKeepaliveSent) s.links (runSelect s now).1.links := by
  unfold runSelect
  dsimp only
  obtain ⟨g, hg, -⟩ := Select.selectIdx_map (s.links.map FLink.toSLink) s.lastSelected now s.cfg
  rw [hg]
  refine ⟨by simp, ?_⟩
  intro j a b ha hb
  rw [List.getElem?_map] at hb
  cases hz : (s.links.zip ((s.links.map FLink.toSLink).map g))[j]? with
  | none => rw [hz] at hb; simp at hb
  | some p =>
    rw [hz] at hb
    simp only [Option.map_some, Option.some.injEq] at hb
    obtain ⟨h1, -⟩ := List.getElem?_zip_eq_some.mp hz
    rw [ha] at h1; cases h1
    subst hb
    exact ⟨rfl, rfl, rfl, rfl⟩

theorem runSelect_id (s : Sys F) (now : Nat) : PW IdFrame s.links (runSelect s now).1.links :=
  (runSelect_core s now).mono (fun a b h => by unfold IdFrame; rw [h.1])

theorem handleSrtPacket_id (s : Sys F) (pkt : Sys.Bytes) (now : Nat) :
    PW IdFrame s.links (handleSrtPacket s pkt now).1.links := by
  unfold handleSrtPacket
  split
  · exact id_refl _
  · dsimp only
    split
    · split
      · exact forwardVia_id s _ pkt _ now
      · exact id_refl _
    · have hr := runSelect_id s now
      split
      · rename_i i hi
        have hf := forwardVia_id (runSelect s now).1 i pkt (Codec.getSrtSequenceNumberS pkt) now
        split
        · dsimp only
          exact id_trans hr (id_trans hf (stallProbesGo_id pkt _ now i _ 0 _))
        · exact id_trans hr hf
      · exact hr

omit [Scalar F] in
theorem flushGo_id (now : Nat) (ls : List (FLink F)) (fn : List Nat) :
    PW IdFrame ls (flushGo fa now ls fn).1 := by
  induction ls generalizing fn with
  | nil => simp [flushGo]; exact PW.nil
  | cons l rest ih =>
    unfold flushGo
    split
    · dsimp only
      exact PW.cons (scb_connId l now fn) (ih _)
    · exact PW.cons rfl (ih _)

omit [Scalar F] in
theorem flushAllBatches_id (s : Sys F) (now : Nat) :
    PW IdFrame s.links (flushAllBatches s now).1.links := by
  unfold flushAllBatches
  split
  · exact id_refl _
  · exact flushGo_id now s.links s.failNext

theorem arrival_id (l : FLink F) (idx : Nat) (reg : Reg.Reg) (ck : Bool) (data : Codec.Bytes) (now : Nat) :
    IdFrame l (arrival l idx reg ck data now) := by
  cases hpt : Codec.getPacketTypeS data with
  | none =>
    have : arrival l idx reg ck data now = l := by
      unfold arrival; rw [pupSpec_none l idx reg ck data now hpt]
    rw [this]; exact rfl
  | some pt =>
    rcases arrival_cases l idx reg ck data now pt hpt with
      ⟨-, h | h⟩ | ⟨-, h⟩ | ⟨-, h⟩ | ⟨-, h⟩ | ⟨-, h⟩ | ⟨-, -, -, -, -, h⟩ <;> rw [h]
    · exact rfl
    · exact rfl
    · exact rfl
    · exact rfl
    · exact rfl
    · exact (kaLink_spec l data now).2.2.1
    · exact rfl

theorem handleUplinkPacket_id (s : Sys F) (cid : Nat) (data : Codec.Bytes) (now : Nat) :
    PW IdFrame s.links (handleUplinkPacket s cid data now).1.links := by
  refine ⟨(handleUplinkPacket_length s cid data now).symm, ?_⟩
  intro j a b ha hb
  by_cases hne : data = []
  · subst hne
    have : (handleUplinkPacket s cid [] now).1 = s := by simp [handleUplinkPacket]
    rw [this, ha] at hb; cases hb; exact rfl
  cases hf : s.links.findIdx? (·.core.connId == cid) with
  | none =>
    rw [unknown_link s cid data now hf, ha] at hb; cases hb; exact rfl
  | some idx =>
    obtain ⟨l, hl, -⟩ := findIdx_get s.links cid idx hf
    obtain ⟨b', hb', hev⟩ := handleUplinkPacket_link s cid data now idx l hne hf hl j a ha
    rw [hb] at hb'; cases hb'
    unfold IdFrame
    rw [hev.core.connId]
    split
    · rename_i hj; subst hj
      rw [hl] at ha; cases ha
      exact arrival_id a j s.reg s.clientKnown data now
    · rfl

/-- **Every event keeps every link in place with its conn id** (no uniqueness assumption). -/
theorem step_id (s : Sys F) (e : Ev) (hnr : e.isReload = false) : PW IdFrame s.links (step s e).1.links := by
  cases e with
  | reload now addrs outs => cases hnr
  | client now pkt => exact handleSrtPacket_id s pkt now
  | uplink now cid data => exact handleUplinkPacket_id s cid data now
  | flush now => exact flushAllBatches_id s now
  | hk now =>
    obtain ⟨h1, h2, -, -⟩ := handleHousekeeping_spec s now
    refine ⟨h1.symm, ?_⟩
    intro j a b ha hb
    obtain ⟨l', hl', hk⟩ := h2 j a ha
    have hb' : (handleHousekeeping s now).1.links[j]? = some b := hb
    rw [hl'] at hb'; cases hb'
    exact hk.connId
  | setCfg cfg => exact id_refl _
  | crit d => exact id_refl _
  | failNext cid => exact id_refl _
  | failAfter cid kfa => exact id_refl _
  | failBind cid => exact id_refl _
  | stamp idx weak ld ccb cct => exact pw_stampLink (R := IdFrame) IdFrame.rfl' (fun _ _ _ _ _ => rfl) _ _ _ _ _ _
  | syncTimeout => exact pw_syncTimeout (R := IdFrame) _ (fun _ => rfl) _

theorem runEvs_id (s : Sys F) (evs : List Ev) (hnr : NoReload evs) : PW IdFrame s.links (runEvs s evs).links := by
  unfold runEvs
  induction evs generalizing s with
  | nil => exact id_refl _
  | cons e es ih =>
    simp only [List.foldl_cons]
    exact id_trans (step_id s e hnr.head) (ih _ hnr.tail)

end Srtla.KaTrace

namespace Srtla.KaTrace
open Srtla Srtla.Gen Srtla.Conn Srtla.Link Srtla.Sys Srtla.Rtt Srtla.Uplink Srtla.Keepalive

variable {F : Type} [Scalar F]

/-! ### Stamps never run ahead of the housekeeping clock -/

/-- Every cadence clock of the shell is at most `T`. -/
def StampLe (T : Nat) (s : Sys F) : Prop :=
  ∀ l ∈ s.links, ∀ k, l.lastKeepaliveSent = some k → k ≤ T

omit [Scalar F] in
theorem StampLe.mono {T T' : Nat} {s : Sys F} (h : StampLe T s) (hT : T ≤ T') : StampLe T' s :=
  fun l hl k hk => Nat.le_trans (h l hl k hk) hT

omit [Scalar F] in
theorem stampLe_fresh (T : Nat) (s : Sys F) (h : ∀ l ∈ s.links, l.lastKeepaliveSent = none) :
    StampLe T s := fun l hl k hk => by rw [h l hl] at hk; cases hk

/-- What one event does to one cadence clock: kept, cleared, or — housekeeping at `now` only — set to
`now` with the link's frame on that tick's wire. -/
theorem step_lks (s : Sys F) (e : Ev) (hnr : e.isReload = false) (j : Nat) (l l' : FLink F) (hl : s.links[j]? = some l)
    (hl' : (step s e).1.links[j]? = some l') :
    l'.core.connId = l.core.connId ∧
    (l'.lastKeepaliveSent = l.lastKeepaliveSent ∨ l'.lastKeepaliveSent = none ∨
      ∃ now, e = .hk now ∧ l'.lastKeepaliveSent = some now ∧
        (l.core.connId, (l.keepalivePacket now).2) ∈ (step s e).2.wire) := by
  refine ⟨(step_id s e hnr).2 j l l' hl hl', ?_⟩
  by_cases hh : notHk e = true
  · rcases (step_frame s e hh hnr).2 j l l' hl hl' with h | h
    · exact Or.inl h
    · exact Or.inr (Or.inl h)
  · cases e with
    | hk now =>
      obtain ⟨-, h2, -, -⟩ := handleHousekeeping_spec s now
      obtain ⟨m, hm, hk⟩ := h2 j l hl
      have hl'' : (handleHousekeeping s now).1.links[j]? = some l' := hl'
      rw [hm] at hl''; cases hl''
      rcases hk.change with h | h | ⟨h, hw⟩
      · exact Or.inl h
      · exact Or.inr (Or.inl h)
      · exact Or.inr (Or.inr ⟨now, rfl, h, hw⟩)
    | _ => simp [notHk] at hh

theorem stampLe_step (T : Nat) (s : Sys F) (e : Ev) (h : StampLe T s) (ht : ∀ t, e = .hk t → t ≤ T) :
    StampLe T (step s e).1 := by
  intro l' hl' k hk
  cases hnr : e.isReload with
  | true =>
    -- a reload keeps the records of the retained links and appends fresh ones (no stamp)
    cases e with
    | reload now addrs outs =>
      rcases mem_reload hl' with ⟨h1, -⟩ | ⟨id, a, -, -, rfl⟩
      · exact h l' h1 k hk
      · cases hk
    | _ => cases hnr
  | false =>
  obtain ⟨j, hj⟩ := List.getElem?_of_mem hl'
  obtain ⟨l, hl, -⟩ := (step_id s e hnr).get' hj
  rcases (step_lks s e hnr j l l' hl hj).2 with h1 | h1 | ⟨now, he, h1, -⟩
  · exact h l (List.mem_of_getElem? hl) k (h1 ▸ hk)
  · rw [h1] at hk; cases hk
  · rw [h1] at hk; cases hk; exact ht _ he

/-- **Monotone clock ⇒ stamps are in the past.**  If every housekeeping tick of the run happened at a
time `≤ T`, then after the run every cadence clock is `≤ T`. -/
theorem stampLe_run (T : Nat) (s : Sys F) (evs : List Ev) (h : StampLe T s)
    (ht : ∀ e ∈ evs, ∀ t, e = .hk t → t ≤ T) : StampLe T (runEvs s evs) := by
  unfold runEvs
  induction evs generalizing s with
  | nil => exact h
  | cons e es ih =>
    simp only [List.foldl_cons]
    exact ih _ (stampLe_step T s e h (ht e (by simp))) (fun e' he' => ht e' (by simp [he']))

/-! ### The wire history of a run -/

/-- The clock value an event read (configuration events read none and emit nothing). -/
def evNow : Ev → Nat
  | .client now _ => now
  | .uplink now _ _ => now
  | .flush now => now
  | .hk now => now
  | _ => 0

/-- Everything one event put on uplink sockets, tagged with the event's clock: `(time, conn id, bytes)`. -/
def evWire (s : Sys F) (e : Ev) : List (Nat × Nat × Codec.Bytes) :=
  (step s e).2.wire.map fun x => (evNow e, x.1, x.2)

/-- The wire history of a run, in order. -/
def wireTrace (s : Sys F) : List Ev → List (Nat × Nat × Codec.Bytes)
  | [] => []
  | e :: es => evWire s e ++ wireTrace (step s e).1 es

theorem runEvs_cons (s : Sys F) (e : Ev) (es : List Ev) : runEvs s (e :: es) = runEvs (step s e).1 es := rfl

theorem runEvs_append (s : Sys F) (a b : List Ev) : runEvs s (a ++ b) = runEvs (runEvs s a) b := by
  simp [runEvs, List.foldl_append]

theorem wireTrace_append (s : Sys F) (a b : List Ev) :
    wireTrace s (a ++ b) = wireTrace s a ++ wireTrace (runEvs s a) b := by
  induction a generalizing s with
  | nil => rfl
  | cons e es ih =>
    simp only [List.cons_append, wireTrace, runEvs_cons, ih, List.append_assoc]

/-- Every cadence-clock value is the time of a keepalive frame in the wire history: a frame built by
`keepalive_packet(k)` from a state of that very link (same conn id), sent under its conn id. -/
def Witnessed (tr : List (Nat × Nat × Codec.Bytes)) (s : Sys F) : Prop :=
  ∀ (j : Nat) (l : FLink F) (k : Nat), s.links[j]? = some l → l.lastKeepaliveSent = some k →
    ∃ m : FLink F, m.core.connId = l.core.connId ∧ (k, l.core.connId, (m.keepalivePacket k).2) ∈ tr

theorem witnessed_fresh (s : Sys F) (h : ∀ l ∈ s.links, l.lastKeepaliveSent = none) :
    Witnessed ([] : List (Nat × Nat × Codec.Bytes)) s := by
  intro j l k hl hk
  rw [h l (List.mem_of_getElem? hl)] at hk; cases hk

theorem witnessed_step (tr : List (Nat × Nat × Codec.Bytes)) (s : Sys F) (e : Ev) (h : Witnessed tr s) :
    Witnessed (tr ++ evWire s e) (step s e).1 := by
  intro j l' k hl' hk
  cases hnr : e.isReload with
  | true =>
    cases e with
    | reload now addrs outs =>
      rcases mem_reload (List.mem_of_getElem? hl') with ⟨h1, -⟩ | ⟨id, a, -, -, rfl⟩
      · obtain ⟨j0, hj0⟩ := List.getElem?_of_mem h1
        obtain ⟨m, hm, hin⟩ := h j0 l' k hj0 hk
        exact ⟨m, hm, List.mem_append_left _ hin⟩
      · cases hk
    | _ => cases hnr
  | false =>
  obtain ⟨l, hl, -⟩ := (step_id s e hnr).get' hl'
  obtain ⟨hid, hch⟩ := step_lks s e hnr j l l' hl hl'
  rcases hch with h1 | h1 | ⟨now, he, h1, hw⟩
  · obtain ⟨m, hm, hin⟩ := h j l k hl (h1 ▸ hk)
    exact ⟨m, hm.trans hid.symm, List.mem_append_left _ (hid ▸ hin)⟩
  · rw [h1] at hk; cases hk
  · rw [h1] at hk; cases hk
    refine ⟨l, hid.symm, List.mem_append_right _ ?_⟩
    subst he
    simp only [evWire, evNow, List.mem_map]
    exact ⟨_, hw, by rw [hid]⟩

/-- **Every stamp has its frame on the wire** — for every run from a state without stamps (start-up:
`FLink.newRegistering`), whatever the events. -/
theorem witnessed_run (tr : List (Nat × Nat × Codec.Bytes)) (s : Sys F) (evs : List Ev)
    (h : Witnessed tr s) : Witnessed (tr ++ wireTrace s evs) (runEvs s evs) := by
  induction evs generalizing s tr with
  | nil => simpa [wireTrace, runEvs] using h
  | cons e es ih =>
    have := ih (tr ++ evWire s e) (step s e).1 (witnessed_step tr s e h)
    simpa [wireTrace, runEvs_cons, List.append_assoc] using this

end Srtla.KaTrace
