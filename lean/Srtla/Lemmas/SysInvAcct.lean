import Srtla.Lemmas.SysInv
/-!
# The accounting invariant of one link, and its closure under every per-link operation

`LinkInv l`: the packet log of `l` satisfies `LogInv` (no duplicate sequence numbers, every logged
number above the cumulative-ACK high-water mark, `in_flight_packets = packet_log.len()`), the
congestion window is in `[1000, 60000]`, the in-flight count is non-negative, and every sequence
number waiting in the batch queue is a 31-bit SRT data sequence number (so that `register_packet`
at drain time keeps `LogInv`).

`linkInv_closed : Closed now LinkInv` feeds the traversal theorem `step_all` (Lemmas/SysInv.lean).
Scalar-generic: holds at `Float`.
-/
set_option linter.unusedSectionVars false

namespace Srtla.SysInv
open Srtla Srtla.Gen Srtla.Conn Srtla.Select Srtla.Rtt Srtla.Link Srtla.Sys Scalar

variable {F : Type} [Scalar F]

/-- The accounting invariant of one link. -/
structure LinkInv (l : FLink F) : Prop where
  log : LogInv l.core
  wlo : 1000 ≤ l.core.window
  whi : l.core.window ≤ 60000
  inf : 0 ≤ l.core.inFlight
  queue : ∀ it ∈ l.queue, SeqOk it.2.1

/-- `LogInv` only reads the log, the high-water mark and the counter. -/
theorem logInv_congr {c c' : Conn} (h : LogInv c) (h1 : c'.log = c.log) (h2 : c'.highestAcked = c.highestAcked)
    (h3 : c'.inFlight = c.inFlight) : LogInv c' := by
  obtain ⟨a, b, d⟩ := h
  refine ⟨?_, ?_, ?_⟩
  · simpa only [keys_def, h1] using a
  · intro s hs
    rw [h2]
    exact b s (by simpa only [keys_def, h1] using hs)
  · rw [h3, d]; simp only [keys_def, h1]

theorem logInv_empty {c : Conn} (h1 : c.log = []) (h3 : c.inFlight = 0) : LogInv c :=
  ⟨by simp [h1], by simp [h1], by simp [h1, h3]⟩

theorem toI32_data (n : Nat) (h : n < 2147483648) : I32_MIN < toI32 n := by
  unfold toI32 I32_MIN
  dsimp only
  split <;> omega

theorem logInv_inFlight_nonneg {c : Conn} (h : LogInv c) : 0 ≤ c.inFlight := by
  rw [h.count]; exact Int.natCast_nonneg _

/-- Draining a queue of 31-bit sequence numbers into the log keeps `LogInv`. -/
theorem foldl_regFold_inv (q : List QItem) (c : Conn) (h : LogInv c) (hq : ∀ it ∈ q, SeqOk it.2.1) :
    LogInv (q.foldl Hk.regFold c) := by
  induction q generalizing c with
  | nil => exact h
  | cons it q ih =>
    simp only [List.foldl_cons]
    apply ih
    · unfold Hk.regFold
      split
      · rename_i s hs
        exact register_inv c _ _ h (toI32_data s (hq it List.mem_cons_self s hs))
      · exact h
    · exact fun x hx => hq x (List.mem_cons_of_mem _ hx)

theorem linkInv_soft (now : Nat) (l l' : FLink F) (hs : Soft now l l') (h : LinkInv l) : LinkInv l' :=
  ⟨logInv_congr h.log hs.log hs.hi hs.inFlight, by rw [hs.window]; exact h.wlo, by rw [hs.window]; exact h.whi,
   by rw [hs.inFlight]; exact h.inf, by rw [hs.queue]; exact h.queue⟩

theorem linkInv_queue (now : Nat) (l : FLink F) (pkt : Link.Bytes) (seq : Option Nat) (hs : SeqOk seq)
    (h : LinkInv l) : LinkInv (l.queueDataPacket pkt seq now).1 := by
  refine ⟨h.log, h.wlo, h.whi, h.inf, ?_⟩
  intro it hit
  have : it ∈ l.queue ++ [(pkt, seq, now)] := hit
  rcases List.mem_append.1 this with hm | hm
  · exact h.queue it hm
  · have : it = (pkt, seq, now) := by simpa using hm
    subst this
    exact hs

theorem linkInv_take (now : Nat) (l : FLink F) (h : LinkInv l) : LinkInv (l.takeBatch now).1 := by
  rw [Hk.takeBatch_eq]
  split
  · exact ⟨h.log, h.wlo, h.whi, h.inf, h.queue⟩
  · have hl := foldl_regFold_inv l.queue l.core h.log h.queue
    have hw := (Hk.foldl_register_frame l.queue l.core).2.2.2.1
    refine ⟨logInv_congr hl rfl rfl rfl, ?_, ?_, ?_, ?_⟩
    · show 1000 ≤ (l.queue.foldl Hk.regFold l.core).window
      rw [hw]; exact h.wlo
    · show (l.queue.foldl Hk.regFold l.core).window ≤ 60000
      rw [hw]; exact h.whi
    · show 0 ≤ (l.queue.foldl Hk.regFold l.core).inFlight
      exact logInv_inFlight_nonneg hl
    · intro it hit; cases hit

theorem linkInv_mark (l : FLink F) : LinkInv l.markForRecovery := by
  have hI := wconsts.2.2.1
  refine ⟨logInv_empty rfl rfl, ?_, ?_, Int.le_refl _, by intro it hit; cases hit⟩
  · show 1000 ≤ WINDOW_INIT
    omega
  · show WINDOW_INIT ≤ 60000
    omega

theorem linkInv_reconnect (now : Nat) (l : FLink F) : LinkInv (l.resetForReconnect now) := by
  have hI := wconsts.2.2.1
  refine ⟨logInv_empty rfl rfl, ?_, ?_, Int.le_refl _, by intro it hit; cases hit⟩
  · show 1000 ≤ WINDOW_INIT
    omega
  · show WINDOW_INIT ≤ 60000
    omega

theorem linkInv_reg3 (now : Nat) (l : FLink F) (h : LinkInv l) : LinkInv (l.clearPreRegistration now) :=
  ⟨logInv_empty rfl rfl, h.wlo, h.whi, Int.le_refl _, by intro it hit; cases hit⟩

theorem linkInv_recover (now : Nat) (l : FLink F) (h : LinkInv l) : LinkInv (l.performWindowRecovery now) := by
  unfold FLink.performWindowRecovery
  dsimp only
  have hw := recover_window l.core.cong l.core.window l.core.connected
    (gt l.rtt.kalman.v (lit CongEnh.RTT_VELOCITY_GATE_THRESHOLD_f CongEnh.RTT_VELOCITY_GATE_THRESHOLD_num
      CongEnh.RTT_VELOCITY_GATE_THRESHOLD_den)) now h.wlo h.whi
  exact ⟨logInv_congr h.log rfl rfl rfl, hw.1, hw.2.1, h.inf, h.queue⟩

theorem srtAck_window (c : Conn) (a : Int) (now : Nat) : (c.srtAck a now).1.window = c.window := by
  unfold Conn.srtAck
  split <;> rfl

theorem linkInv_srtAck (now : Nat) (l : FLink F) (a : Int) (h : LinkInv l) : LinkInv (l.srtAck a now) := by
  have hl := srtAck_inv l.core a now h.log
  have hc := Uplink.core_srtAck l a now
  have hq : (l.srtAck a now).queue = l.queue := by
    unfold FLink.srtAck; dsimp only; split <;> rfl
  refine ⟨by rw [hc]; exact hl, ?_, ?_, ?_, by rw [hq]; exact h.queue⟩
  · rw [hc, srtAck_window]; exact h.wlo
  · rw [hc, srtAck_window]; exact h.whi
  · rw [hc]; exact logInv_inFlight_nonneg hl

theorem srtlaAck_window (c : Conn) (seq : Int) (cl : Bool) (now : Nat) (h1 : 1000 ≤ c.window)
    (h2 : c.window ≤ 60000) :
    1000 ≤ (c.srtlaAck seq cl now).1.window ∧ (c.srtlaAck seq cl now).1.window ≤ 60000 := by
  unfold Conn.srtlaAck
  split
  · dsimp only
    split
    · have := ackClassic_bounds c.window ((logErase c.log seq).length : Int) h1 h2
      exact ⟨this.1, this.2.1⟩
    · have := ackClassic_bounds c.window ((logErase c.log seq).length : Int) h1 h2
      exact ⟨this.1, this.2.1⟩
  · exact ⟨h1, h2⟩

theorem linkInv_sack (now : Nat) (l : FLink F) (seq : Int) (cl : Bool) (h : LinkInv l) :
    LinkInv { l with core := (l.core.srtlaAck seq cl now).1 } := by
  have hl := srtlaAck_inv l.core seq cl now h.log
  have hw := srtlaAck_window l.core seq cl now h.wlo h.whi
  exact ⟨hl, hw.1, hw.2, logInv_inFlight_nonneg hl, h.queue⟩

theorem linkInv_gack (l : FLink F) (h : LinkInv l) : LinkInv { l with core := l.core.ackGlobal } := by
  have hC := wconsts.2.1
  have hl := (ackGlobal_keys l.core).2 h.log
  refine ⟨hl, ?_, ?_, logInv_inFlight_nonneg hl, h.queue⟩
  · show 1000 ≤ l.core.ackGlobal.window
    unfold Conn.ackGlobal
    have := h.wlo
    split
    · dsimp only; omega
    · exact this
  · show l.core.ackGlobal.window ≤ 60000
    unfold Conn.ackGlobal
    have := h.whi
    split
    · dsimp only; omega
    · exact this

theorem nak_window (c : Conn) (seq : Int) (now : Nat) (h1 : 1000 ≤ c.window) (h2 : c.window ≤ 60000) :
    1000 ≤ (c.nak seq now).1.window ∧ (c.nak seq now).1.window ≤ 60000 := by
  obtain ⟨hF, -, -, -, -, hD, -, -⟩ := wconsts
  unfold Conn.nak
  split
  · unfold Cong.handleNak
    dsimp only
    omega
  · exact ⟨h1, h2⟩

theorem linkInv_nak (now : Nat) (l : FLink F) (seq : Int) (h : LinkInv l) :
    LinkInv { l with core := (l.core.nak seq now).1 } := by
  have hl := nak_inv l.core seq now h.log
  have hw := nak_window l.core seq now h.wlo h.whi
  exact ⟨hl, hw.1, hw.2, logInv_inFlight_nonneg hl, h.queue⟩

/-- The selection write-back touches neither the accounting core nor the queue. -/
theorem linkInv_absorb (l : FLink F) (x : SLink F) (h : LinkInv l) : LinkInv (l.absorb x) :=
  ⟨h.log, h.wlo, h.whi, h.inf, h.queue⟩

/-- A link freshly constructed by a reload (`connect_uplink` → `new_registering`). -/
theorem linkInv_newUplink (connId addr now : Nat) : LinkInv (FLink.newUplink connId addr now : FLink F) := by
  have hI := wconsts.2.2.1
  refine ⟨logInv_empty rfl rfl, ?_, ?_, Int.le_refl _, by intro it hit; cases hit⟩
  · show 1000 ≤ WINDOW_INIT
    omega
  · show WINDOW_INIT ≤ 60000
    omega

/-- **`LinkInv` survives every per-link operation**, at every clock, in every arm and mode. -/
theorem linkInv_closed (now : Nat) (arm : Arm) (classic : Bool) : Closed now arm classic (LinkInv (F := F)) where
  soft := linkInv_soft now
  queue := fun _ l pkt seq hs h => linkInv_queue now l pkt seq hs h
  take := fun _ => linkInv_take now
  mark := fun _ l _ => linkInv_mark l
  reconnect := fun _ l _ => linkInv_reconnect now l
  reg3 := fun _ => linkInv_reg3 now
  recover := fun _ _ => linkInv_recover now
  srtAck := fun _ l a h => linkInv_srtAck now l a h
  sack := fun _ l seq h => linkInv_sack now l seq classic h
  gack := fun _ => linkInv_gack
  nak := fun _ l seq h => linkInv_nak now l seq h
  select := fun _ _ _ _ h p hp => linkInv_absorb p.1 p.2 (h p.1 (List.of_mem_zip hp).1)
  fresh := fun _ id a => linkInv_newUplink id a now

/-- A freshly constructed link (`SrtlaConnection::new_registering`). -/
theorem linkInv_new (connId now : Nat) : LinkInv (FLink.newRegistering connId now : FLink F) := by
  have hI := wconsts.2.2.1
  refine ⟨logInv_empty rfl rfl, ?_, ?_, Int.le_refl _, by intro it hit; cases hit⟩
  · show 1000 ≤ WINDOW_INIT
    omega
  · show WINDOW_INIT ≤ 60000
    omega

/-- **One event keeps the accounting invariant on every link** (every event constructor, `Ev.reload` included:
`Arm.reload`, `Closed.fresh`). -/
theorem linkInv_step (s : Sys F) (e : Ev) (h : All LinkInv s.links) : All LinkInv (step s e).1.links :=
  step_all s e (fun _ _ => linkInv_closed _ _ _) h

end Srtla.SysInv
