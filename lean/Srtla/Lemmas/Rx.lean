import Srtla.Model.Rx
import Srtla.Lemmas.ForwardStep
import Srtla.Lemmas.ReloadKeys
/-!
# Lemmas about the receive side (`Model/Rx.lean`): projection to `Sys.run`, channel FIFO, per-socket conservation
-/
namespace Srtla.Rx
open Srtla Srtla.Sys Srtla.Link

variable {F : Type} [Scalar F]

/-! ## `Sys.run` over an appended event list (both components) -/

theorem sysRun_append (s : Sys F) (a b : List Sys.Ev) :
    Sys.run s (a ++ b) = ((Sys.run (Sys.run s a).1 b).1, (Sys.run s a).2 ++ (Sys.run (Sys.run s a).1 b).2) := by
  induction a generalizing s with
  | nil => simp [Sys.run]
  | cons e es ih => simp only [List.cons_append, Sys.run, ih]

/-! ## The shell events of a drain -/

/-- The shell events a drain hands over for the channel entries `ch`, the first one reading clock `clk k`. -/
def drainEvs (clk : Nat → Nat) (k : Nat) : List (Nat × Sys.Bytes) → List Sys.Ev
  | [] => []
  | p :: ch => .uplink (clk k) p.1 p.2 :: drainEvs clk (k + 1) ch

theorem drainEvs_length (clk : Nat → Nat) (k : Nat) (ch : List (Nat × Sys.Bytes)) :
    (drainEvs clk k ch).length = ch.length := by
  induction ch generalizing k with
  | nil => rfl
  | cons p ch ih => simp [drainEvs, ih]

theorem drainEvs_getElem? (clk : Nat → Nat) (k : Nat) (ch : List (Nat × Sys.Bytes)) (j : Nat) :
    (drainEvs clk k ch)[j]? = ch[j]?.map fun p => Sys.Ev.uplink (clk (k + j)) p.1 p.2 := by
  induction ch generalizing k j with
  | nil => simp [drainEvs]
  | cons p ch ih =>
    cases j with
    | zero => simp [drainEvs]
    | succ j => simp only [drainEvs, List.getElem?_cons_succ, ih]; congr 2; funext p; congr 2; omega

theorem drainEvs_shift (clk : Nat → Nat) (k : Nat) (ch : List (Nat × Sys.Bytes)) :
    drainEvs (fun j => clk (j + 1)) k ch = drainEvs clk (k + 1) ch := by
  induction ch generalizing k with
  | nil => rfl
  | cons p ch ih => simp only [drainEvs, ih]

theorem drainGo_eq (clk : Nat → Nat) (fuel k : Nat) (s : Sys F) (ch : List (Nat × Sys.Bytes)) :
    drainGo clk fuel k s ch =
      ((Sys.run s (drainEvs clk k (ch.take fuel))).1, ch.drop fuel,
       (Sys.run s (drainEvs clk k (ch.take fuel))).2) := by
  induction fuel generalizing k s ch with
  | zero => simp [drainGo, drainEvs, Sys.run]
  | succ n ih =>
    cases ch with
    | nil => simp [drainGo, drainEvs, Sys.run]
    | cons p ch => simp only [drainGo, List.take_succ_cons, List.drop_succ_cons, drainEvs, Sys.run, ih]

/-! ## Every `Rx` event is a `Sys.run` -/

/-- The shell events ONE receive-side event runs. -/
def stepEvs (r : Rx F) : Ev → List Sys.Ev
  | .drain clk => drainEvs clk 0 (r.chan.take 64)
  | .recv clk => drainEvs clk 0 (r.chan.take 65)
  | .shell e => [e]
  | _ => []

/-- The shell events of a whole schedule. -/
def trace (r : Rx F) : List Ev → List Sys.Ev
  | [] => []
  | e :: es => stepEvs r e ++ trace (step r e).1 es

theorem drain_eq (r : Rx F) (clk : Nat → Nat) :
    drain r clk =
      ({ r with sys := (Sys.run r.sys (drainEvs clk 0 (r.chan.take 64))).1, chan := r.chan.drop 64 },
       (Sys.run r.sys (drainEvs clk 0 (r.chan.take 64))).2) := by
  simp only [drain, drainGo_eq, Gen.Pkt.MAX_DRAIN_PACKETS_eq]

theorem recvArm_eq (r : Rx F) (clk : Nat → Nat) :
    recvArm r clk =
      ({ r with sys := (Sys.run r.sys (drainEvs clk 0 (r.chan.take 65))).1, chan := r.chan.drop 65 },
       (Sys.run r.sys (drainEvs clk 0 (r.chan.take 65))).2) := by
  obtain ⟨sys, socks, chan⟩ := r
  cases chan with
  | nil => simp [recvArm, drainEvs, Sys.run]
  | cons p ch =>
    simp only [recvArm, drain_eq, drainEvs_shift, List.take_succ_cons, List.drop_succ_cons, drainEvs, Sys.run]

theorem step_projects (r : Rx F) (e : Ev) :
    (step r e).1.sys = (Sys.run r.sys (stepEvs r e)).1 ∧ (step r e).2 = (Sys.run r.sys (stepEvs r e)).2 := by
  cases e with
  | arrive cid d => simp [step, stepEvs, Sys.run]
  | read cid => simp [step, stepEvs, Sys.run]
  | rxErr cid => simp [step, stepEvs, Sys.run]
  | drain clk => simp [step, stepEvs, drain_eq]
  | recv clk => simp [step, stepEvs, recvArm_eq]
  | shell e => simp [step, stepEvs, Sys.run]

theorem run_projects (r : Rx F) (sched : List Ev) :
    (run r sched).1.sys = (Sys.run r.sys (trace r sched)).1 ∧ (run r sched).2 = (Sys.run r.sys (trace r sched)).2 := by
  induction sched generalizing r with
  | nil => simp [run, trace, Sys.run]
  | cons e es ih =>
    obtain ⟨h1, h2⟩ := step_projects r e
    obtain ⟨i1, i2⟩ := ih (step r e).1
    simp only [run, trace, sysRun_append]
    rw [← h1]
    exact ⟨i1, by rw [h2, i2]⟩

/-! ## The channel is FIFO and loses nothing -/

/-- How many packets an event takes off the head of the channel (at most). -/
def stepTaken : Ev → Nat
  | .drain _ => 64
  | .recv _ => 65
  | _ => 0

/-- What an event appends to the channel. -/
def stepEnq (r : Rx F) : Ev → List (Nat × Sys.Bytes)
  | .read cid => (readGo cid r.socks).2
  | .rxErr cid => errPackets r.socks cid
  | _ => []

/-- The packets handed to `handle_uplink_packet` OUT OF THE CHANNEL over a schedule, in order. -/
def handed (r : Rx F) : List Ev → List (Nat × Sys.Bytes)
  | [] => []
  | e :: es => r.chan.take (stepTaken e) ++ handed (step r e).1 es

/-- The packets the reader tasks put INTO the channel over a schedule, in order. -/
def enq (r : Rx F) : List Ev → List (Nat × Sys.Bytes)
  | [] => []
  | e :: es => stepEnq r e ++ enq (step r e).1 es

theorem step_chan (r : Rx F) (e : Ev) :
    (step r e).1.chan = (r.chan ++ stepEnq r e).drop (stepTaken e) := by
  cases e with
  | arrive cid d => simp [step, stepEnq, stepTaken]
  | read cid => simp [step, stepEnq, stepTaken]
  | rxErr cid => simp [step, stepEnq, stepTaken]
  | drain clk => simp [step, stepEnq, stepTaken, drain_eq]
  | recv clk => simp [step, stepEnq, stepTaken, recvArm_eq]
  | shell e => simp [step, stepEnq, stepTaken]

theorem stepEnq_or_taken (r : Rx F) (e : Ev) : stepEnq r e = [] ∨ stepTaken e = 0 := by
  cases e <;> simp [stepEnq, stepTaken]

/-- **Channel conservation**: what was in the channel plus what the readers put in = what was handed to the shell
plus what is still in the channel, as LISTS (order, multiplicity). -/
theorem fifo (r : Rx F) (sched : List Ev) :
    r.chan ++ enq r sched = handed r sched ++ (run r sched).1.chan := by
  induction sched generalizing r with
  | nil => simp [enq, handed, run]
  | cons e es ih =>
    have hi := ih (step r e).1
    simp only [enq, handed, run]
    rw [List.append_assoc, ← hi, step_chan]
    rcases stepEnq_or_taken r e with h | h
    · rw [h, List.append_nil, List.nil_append, ← List.append_assoc, List.take_append_drop]
    · rw [h]; simp

/-- The (conn id, bytes) of the uplink events of a shell event list. -/
def pktsOf : List Sys.Ev → List (Nat × Sys.Bytes)
  | [] => []
  | .uplink _ cid d :: es => (cid, d) :: pktsOf es
  | _ :: es => pktsOf es

theorem pktsOf_append (a b : List Sys.Ev) : pktsOf (a ++ b) = pktsOf a ++ pktsOf b := by
  induction a with
  | nil => rfl
  | cons e es ih => cases e <;> simp [pktsOf, ih]

theorem pktsOf_drainEvs (clk : Nat → Nat) (k : Nat) (ch : List (Nat × Sys.Bytes)) : pktsOf (drainEvs clk k ch) = ch := by
  induction ch generalizing k with
  | nil => rfl
  | cons p ch ih => simp [drainEvs, pktsOf, ih]

/-- No hand-built packet: every `shell` event of the schedule is an arm other than the uplink arm. -/
def NoDirect (sched : List Ev) : Prop := ∀ e ∈ sched, ∀ now cid d, e ≠ .shell (.uplink now cid d)

/-- No reader management during the schedule: no housekeeping pass (socket re-creation, `sync_readers`) and no reload. -/
def Quiet (sched : List Ev) : Prop := ∀ e ∈ sched, (∀ now, e ≠ .shell (.hk now)) ∧ ∀ now a o, e ≠ .shell (.reload now a o)

theorem pktsOf_stepEvs (r : Rx F) (e : Ev) (h : ∀ now cid d, e ≠ .shell (.uplink now cid d)) :
    pktsOf (stepEvs r e) = r.chan.take (stepTaken e) := by
  cases e with
  | arrive cid d => simp [stepEvs, stepTaken, pktsOf]
  | read cid => simp [stepEvs, stepTaken, pktsOf]
  | rxErr cid => simp [stepEvs, stepTaken, pktsOf]
  | drain clk => simp [stepEvs, stepTaken, pktsOf_drainEvs]
  | recv clk => simp [stepEvs, stepTaken, pktsOf_drainEvs]
  | shell e =>
    cases e with
    | uplink now cid d => exact absurd rfl (h now cid d)
    | _ => simp [stepEvs, stepTaken, pktsOf]

/-- **The uplink events the shell sees are exactly the packets taken out of the channel**, in order. -/
theorem pktsOf_trace (r : Rx F) (sched : List Ev) (h : NoDirect sched) : pktsOf (trace r sched) = handed r sched := by
  induction sched generalizing r with
  | nil => rfl
  | cons e es ih =>
    simp only [trace, handed, pktsOf_append]
    rw [pktsOf_stepEvs r e (h e List.mem_cons_self), ih _ fun e' he' => h e' (List.mem_cons_of_mem _ he')]

/-! ## Per socket: what arrived is read once, in order -/

/-- The receive queue of conn id `c`'s socket (first reader entry; none: empty). -/
def inboxOf (socks : List Sock) (c : Nat) : List Sys.Bytes :=
  match socks.find? (·.cid = c) with
  | some k => k.inbox
  | none => []

def hasSock (socks : List Sock) (c : Nat) : Bool := socks.any (·.cid = c)

/-- The non-empty datagrams (the reader skips empty ones). -/
def ne (l : List Sys.Bytes) : List Sys.Bytes := l.filter fun d => !d.isEmpty

/-- The non-sentinel payloads stamped with conn id `c`, in order. -/
def dataOf (c : Nat) (ps : List (Nat × Sys.Bytes)) : List Sys.Bytes :=
  (ps.filter fun p => p.1 = c && !p.2.isEmpty).map (·.2)

theorem dataOf_append (c : Nat) (a b : List (Nat × Sys.Bytes)) : dataOf c (a ++ b) = dataOf c a ++ dataOf c b := by
  simp [dataOf]

theorem ne_append (a b : List Sys.Bytes) : ne (a ++ b) = ne a ++ ne b := by simp [ne]

/-- What event `e` adds to the receive queue of conn id `c`'s socket. -/
def stepArr (r : Rx F) (c : Nat) : Ev → List Sys.Bytes
  | .arrive cid d => if cid = c ∧ hasSock r.socks c = true then [truncate d] else []
  | _ => []

/-- The datagrams that arrived at conn id `c`'s socket over a schedule (cut to `MTU`), in order. -/
def arrivedOn (r : Rx F) (c : Nat) : List Ev → List Sys.Bytes
  | [] => []
  | e :: es => stepArr r c e ++ arrivedOn (step r e).1 c es

theorem inboxOf_cons (k : Sock) (rest : List Sock) (c : Nat) :
    inboxOf (k :: rest) c = if k.cid = c then k.inbox else inboxOf rest c := by
  by_cases h : k.cid = c <;> simp [inboxOf, List.find?_cons, h]

theorem hasSock_cons (k : Sock) (rest : List Sock) (c : Nat) :
    hasSock (k :: rest) c = (decide (k.cid = c) || hasSock rest c) := by
  simp [hasSock]

theorem inboxOf_arrive (socks : List Sock) (cid c : Nat) (d : Sys.Bytes) :
    inboxOf (arrive socks cid d) c =
      inboxOf socks c ++ (if cid = c ∧ hasSock socks c = true then [truncate d] else []) := by
  induction socks with
  | nil => simp [arrive, inboxOf, hasSock]
  | cons k rest ih =>
    simp only [arrive, List.map_cons] at ih ⊢
    rw [inboxOf_cons, inboxOf_cons, hasSock_cons, ih]
    have h1 : (if k.cid = cid then { k with inbox := k.inbox ++ [truncate d] } else k).cid = k.cid := by
      split <;> rfl
    rw [h1]
    by_cases hk : k.cid = c
    · subst hk
      by_cases hc : k.cid = cid
      · simp [hc]
      · have : ¬ cid = k.cid := fun h => hc h.symm
        simp [hc, this]
    · simp [hk]

theorem readGo_same (socks : List Sock) (c : Nat) :
    inboxOf (readGo c socks).1 c = (inboxOf socks c).drop 32 ∧
    (readGo c socks).2 = batchPackets c ((inboxOf socks c).take 32) := by
  induction socks with
  | nil => simp [readGo, inboxOf, batchPackets]
  | cons k rest ih =>
    by_cases hk : k.cid = c
    · simp [readGo, hk, inboxOf_cons, Gen.BatchRecv.BATCH_RECV_SIZE_eq]
    · simp only [readGo, hk, if_false, inboxOf_cons]
      exact ih

theorem readGo_other (socks : List Sock) (cid c : Nat) (h : cid ≠ c) :
    inboxOf (readGo cid socks).1 c = inboxOf socks c ∧ dataOf c (readGo cid socks).2 = [] := by
  induction socks with
  | nil => simp [readGo, inboxOf, dataOf]
  | cons k rest ih =>
    by_cases hk : k.cid = cid
    · have hkc : ¬ k.cid = c := fun h' => h (hk ▸ h')
      simp only [readGo, hk, if_true, inboxOf_cons]
      refine ⟨by simp [hk ▸ hkc, h], ?_⟩
      simp only [dataOf, batchPackets, List.filter_map, List.map_map, List.map_eq_nil_iff, List.filter_eq_nil_iff]
      intro x _
      simp [Function.comp_def, h]
    · simp only [readGo, hk, if_false, inboxOf_cons]
      exact ⟨by rw [ih.1], ih.2⟩

theorem dataOf_batchPackets (c : Nat) (b : List Sys.Bytes) : dataOf c (batchPackets c b) = ne b := by
  simp [dataOf, batchPackets, ne, List.filter_map, List.filter_filter, Function.comp_def]

theorem dataOf_errPackets (socks : List Sock) (cid c : Nat) : dataOf c (errPackets socks cid) = [] := by
  unfold errPackets dataOf; split <;> simp

/-- One event that does no reader management: per conn id, what the reader put into the channel plus what is left in the
socket = what was in the socket plus what arrived. -/
theorem step_inbox (r : Rx F) (e : Ev) (c : Nat)
    (hq : (∀ now, e ≠ .shell (.hk now)) ∧ ∀ now a o, e ≠ .shell (.reload now a o)) :
    dataOf c (stepEnq r e) ++ ne (inboxOf (step r e).1.socks c) = ne (inboxOf r.socks c) ++ ne (stepArr r c e) := by
  cases e with
  | arrive cid d => simp [step, stepEnq, stepArr, dataOf, inboxOf_arrive, ne_append]
  | read cid =>
    by_cases h : cid = c
    · subst h
      obtain ⟨h1, h2⟩ := readGo_same r.socks cid
      simp only [step, stepEnq, stepArr, h1, h2, dataOf_batchPackets]
      rw [← ne_append, List.take_append_drop]; simp [ne]
    · obtain ⟨h1, h2⟩ := readGo_other r.socks cid c h
      simp [step, stepEnq, stepArr, h1, h2, ne]
  | rxErr cid => simp [step, stepEnq, stepArr, dataOf_errPackets, ne]
  | drain clk => simp [step, stepEnq, stepArr, drain_eq, dataOf, ne]
  | recv clk => simp [step, stepEnq, stepArr, recvArm_eq, dataOf, ne]
  | shell e =>
    cases e with
    | hk now => exact absurd rfl (hq.1 now)
    | reload now a o => exact absurd rfl (hq.2 now a o)
    | _ => simp [step, stepEnq, stepArr, dataOf, ne]

/-- **Socket conservation** over a schedule without reader management. -/
theorem inbox_conservation (r : Rx F) (sched : List Ev) (hq : Quiet sched) (c : Nat) :
    dataOf c (enq r sched) ++ ne (inboxOf (run r sched).1.socks c) =
      ne (inboxOf r.socks c) ++ ne (arrivedOn r c sched) := by
  induction sched generalizing r with
  | nil => simp [enq, run, arrivedOn, dataOf, ne]
  | cons e es ih =>
    have hi := ih (step r e).1 fun e' he' => hq e' (List.mem_cons_of_mem _ he')
    have hs := step_inbox r e c (hq e List.mem_cons_self)
    simp only [enq, run, arrivedOn, dataOf_append, ne_append]
    rw [List.append_assoc, hi, ← List.append_assoc, hs, List.append_assoc]

/-! ## Quiescence bounds -/

theorem reads_inbox (r : Rx F) (c n : Nat) :
    inboxOf (run r (List.replicate n (.read c))).1.socks c = (inboxOf r.socks c).drop (32 * n) := by
  induction n generalizing r with
  | zero => simp [run]
  | succ n ih =>
    simp only [List.replicate_succ, run]
    rw [ih]
    simp only [step, (readGo_same r.socks c).1, List.drop_drop]
    congr 1; omega

theorem drains_chan (r : Rx F) (clk : Nat → Nat) (m : Nat) :
    (run r (List.replicate m (.drain clk))).1.chan = r.chan.drop (64 * m) := by
  induction m generalizing r with
  | zero => simp [run]
  | succ m ih =>
    simp only [List.replicate_succ, run]
    rw [ih]
    simp only [step, drain_eq, List.drop_drop]
    congr 1; omega

/-! ## The trace of a quiet schedule holds no reload; the link keys stay -/

theorem trace_noReload (r : Rx F) (sched : List Ev) (hq : Quiet sched) : NoReload (trace r sched) := by
  induction sched generalizing r with
  | nil => intro e he; simp [trace] at he
  | cons e es ih =>
    intro x hx
    simp only [trace, List.mem_append] at hx
    rcases hx with hx | hx
    · cases e with
      | arrive cid d => simp [stepEvs] at hx
      | read cid => simp [stepEvs] at hx
      | rxErr cid => simp [stepEvs] at hx
      | drain clk =>
        simp only [stepEvs] at hx
        obtain ⟨j, hj⟩ := List.getElem?_of_mem hx
        rw [drainEvs_getElem?] at hj
        cases h : (List.take 64 r.chan)[j]? with
        | none => simp [h] at hj
        | some p => simp [h] at hj; subst hj; rfl
      | recv clk =>
        simp only [stepEvs] at hx
        obtain ⟨j, hj⟩ := List.getElem?_of_mem hx
        rw [drainEvs_getElem?] at hj
        cases h : (List.take 65 r.chan)[j]? with
        | none => simp [h] at hj
        | some p => simp [h] at hj; subst hj; rfl
      | shell e' =>
        simp only [stepEvs, List.mem_singleton] at hx
        subst hx
        cases x with
        | reload now a o => exact absurd rfl ((hq _ List.mem_cons_self).2 now a o)
        | _ => rfl
    · exact ih _ (fun e' he' => hq e' (List.mem_cons_of_mem _ he')) x hx

theorem keysRun_noReload (keys : List (Nat × Nat)) (evs : List Sys.Ev) (h : NoReload evs) : keysRun keys evs = keys := by
  induction evs generalizing keys with
  | nil => rfl
  | cons e es ih =>
    have he : e.isReload = false := h e List.mem_cons_self
    have : keysAfter keys e = keys := by cases e <;> first | rfl | cases he
    simp only [keysRun, this]
    exact ih keys fun e' he' => h e' (List.mem_cons_of_mem _ he')

/-! ## Reader management -/

theorem inboxOf_of_noSock (socks : List Sock) (c : Nat) (h : hasSock socks c = false) : inboxOf socks c = [] := by
  induction socks with
  | nil => rfl
  | cons k rest ih =>
    rw [hasSock_cons] at h
    simp only [Bool.or_eq_false_iff, decide_eq_false_iff_not] at h
    rw [inboxOf_cons, if_neg h.1, ih h.2]

theorem inboxOf_map_restart (socks : List Sock) (id c : Nat) :
    inboxOf (socks.map fun k => if k.cid = id then { k with gen := k.gen + 1, inbox := [] } else k) c =
      if id = c then [] else inboxOf socks c := by
  induction socks with
  | nil => simp [inboxOf]
  | cons k rest ih =>
    simp only [List.map_cons]
    rw [inboxOf_cons, inboxOf_cons, ih]
    have h1 : (if k.cid = id then ({ k with gen := k.gen + 1, inbox := [] } : Sock) else k).cid = k.cid := by
      split <;> rfl
    rw [h1]
    by_cases hk : k.cid = c
    · subst hk
      by_cases hc : k.cid = id
      · simp [hc]
      · have : ¬ id = k.cid := fun h => hc h.symm
        simp [hc, this]
    · simp [hk]

theorem inboxOf_append_fresh (socks : List Sock) (id c : Nat) :
    inboxOf (socks ++ [{ cid := id }]) c = inboxOf socks c := by
  induction socks with
  | nil => rw [List.nil_append, inboxOf_cons]; split <;> rfl
  | cons k rest ih => simp only [List.cons_append, inboxOf_cons, ih]

theorem inboxOf_restart_one (socks : List Sock) (id c : Nat) :
    inboxOf (if socks.any (·.cid = id) then
        socks.map fun k => if k.cid = id then { k with gen := k.gen + 1, inbox := [] } else k
      else socks ++ [{ cid := id }]) c = if id = c then [] else inboxOf socks c := by
  split
  · exact inboxOf_map_restart socks id c
  · rename_i h
    rw [inboxOf_append_fresh]
    by_cases hid : id = c
    · subst hid
      rw [if_pos rfl]
      exact inboxOf_of_noSock socks id (by simpa [hasSock] using h)
    · rw [if_neg hid]

/-- **Socket re-creation loses exactly the unread datagrams of the re-created sockets**: after `restart_reader_for` on the
conn ids `ids`, the receive queue of such a conn id is empty, every other one is untouched. -/
theorem inboxOf_restartReaders (socks : List Sock) (ids : List Nat) (c : Nat) :
    inboxOf (restartReaders socks ids) c = if c ∈ ids then [] else inboxOf socks c := by
  unfold restartReaders
  induction ids generalizing socks with
  | nil => simp
  | cons id rest ih =>
    simp only [List.foldl_cons]
    rw [ih, inboxOf_restart_one]
    by_cases h1 : c ∈ rest
    · simp [h1]
    · by_cases h2 : id = c
      · simp [h2]
      · have : ¬ c = id := fun h => h2 h.symm
        simp [h1, h2, this]

end Srtla.Rx
