import Srtla.Model.Select
import Srtla.Lemmas.SelGate
/-!
# Enhanced selector: decomposition of the scoring loop (any scalar instance)

`enhGo` is split into three independent folds over the list: the cache refresh (`upd`), the score
table (`entry`, `none` = skipped) with its running maximum (`bestGo`) and the score of the
previously selected index (`curGo`); the final hysteresis decision is `decideRes`.  Everything in
this file holds for an ARBITRARY `[Scalar F]` (comparisons are opaque Booleans), in particular for
the `Float` instance the compiled driver runs: re-running the pass at the same `now` recomputes the
same table, hence the same decision and the same state.
-/
namespace Srtla.SelLemmas
open Srtla.Gen Srtla.Conn Srtla Srtla.Select

variable {F : Type} [Scalar F]

/-! ## The three folds -/

/-- Running maximum with strict improvement (first maximal index wins). -/
def bestGo : List (Option F) → Nat → Option Nat → F → Option Nat × F
  | [], _, b, bs => (b, bs)
  | none :: t, i, b, bs => bestGo t (i + 1) b bs
  | some s :: t, i, b, bs =>
    if Scalar.gt s bs then bestGo t (i + 1) (some i) s else bestGo t (i + 1) b bs

/-- Score of index `last`, if that index is scored. -/
def curGo (last : Option Nat) : List (Option F) → Nat → Option F → Option F
  | [], _, cur => cur
  | none :: t, i, cur => curGo last t (i + 1) cur
  | some s :: t, i, cur => curGo last t (i + 1) (if some i == last then some s else cur)

/-- Table entry of a link: `none` if the loop skips it, else its score. -/
def entry (now : Nat) (quality anyUnc : Bool) (c : SLink F) : Option F :=
  if enhSkip c now anyUnc then none else some (enhScore c now quality anyUnc).2

/-- What the loop writes back (quality-cache refresh of scored links). -/
def upd (now : Nat) (quality anyUnc : Bool) (c : SLink F) : SLink F :=
  if enhSkip c now anyUnc then c else (enhScore c now quality anyUnc).1

/-- The hysteresis decision at the end of `enhanced::select_connection`. -/
def decideRes (last best : Option Nat) (bestScore : F) (current : Option F) : Option Nat :=
  match last with
  | none => best
  | some l =>
    if best != some l then
      match current with
      | some cur =>
        if Scalar.lt bestScore (Scalar.mul cur
            (Scalar.lit Enhanced.SWITCH_THRESHOLD_f Enhanced.SWITCH_THRESHOLD_num Enhanced.SWITCH_THRESHOLD_den))
        then some l else best
      | none => best
    else best

theorem enhGo_eq (now : Nat) (quality anyUnc : Bool) (last : Option Nat) (ls : List (SLink F)) :
    ∀ (i : Nat) (acc : EnhAcc F),
      enhGo now quality anyUnc last ls i acc =
        { out := (ls.map (upd now quality anyUnc)).reverse ++ acc.out
          best := (bestGo (ls.map (entry now quality anyUnc)) i acc.best acc.bestScore).1
          bestScore := (bestGo (ls.map (entry now quality anyUnc)) i acc.best acc.bestScore).2
          current := curGo last (ls.map (entry now quality anyUnc)) i acc.current } := by
  induction ls with
  | nil => intro i acc; rfl
  | cons c rest ih =>
    intro i acc
    unfold enhGo
    by_cases hs : enhSkip c now anyUnc = true
    · rw [if_pos hs, ih]
      simp [upd, entry, hs, bestGo, curGo]
    · rw [if_neg hs]
      dsimp only
      rw [ih]
      by_cases hg : Scalar.gt (enhScore c now quality anyUnc).2 acc.bestScore = true
      · simp [upd, entry, hs, bestGo, curGo, hg]
      · simp [upd, entry, hs, bestGo, curGo, hg]

theorem enhancedSelect_eq (ls : List (SLink F)) (last : Option Nat) (now : Nat) (quality : Bool) :
    enhancedSelect ls last now quality =
      (ls.map (upd now quality (anyUnconstrained ls now)),
       decideRes last
        (bestGo (ls.map (entry now quality (anyUnconstrained ls now))) 0 none (Scalar.lit (-1.0) (-1) 1)).1
        (bestGo (ls.map (entry now quality (anyUnconstrained ls now))) 0 none (Scalar.lit (-1.0) (-1) 1)).2
        (curGo last (ls.map (entry now quality (anyUnconstrained ls now))) 0 none)) := by
  unfold enhancedSelect
  simp only [enhGo_eq, List.append_nil, List.reverse_reverse]
  rfl

/-! ## The refresh only touches the quality cache; the table ignores it at equal time -/

theorem cachedQuality_stale (c : SLink F) (now : Nat) (h : now - c.qualAt ≥ Conn.QUALITY_CACHE_INTERVAL_MS) :
    cachedQuality c now = ({ c with qualMult := qualityMult c now, qualAt := now }, qualityMult c now) := by
  unfold cachedQuality; rw [if_pos h]

theorem cachedQuality_fresh (c : SLink F) (now : Nat) (h : ¬ now - c.qualAt ≥ Conn.QUALITY_CACHE_INTERVAL_MS) :
    cachedQuality c now = (c, c.qualMult) := by
  unfold cachedQuality; rw [if_neg h]

theorem enhScore_off (c : SLink F) (now : Nat) (u : Bool) :
    enhScore c now false u = (c, (enhScore c now false u).2) := rfl

theorem enhScore_on_fst (c : SLink F) (now : Nat) (u : Bool) :
    (enhScore c now true u).1 = (cachedQuality c now).1 := rfl

theorem upd_cases (now : Nat) (quality anyUnc : Bool) (c : SLink F) :
    upd now quality anyUnc c = c ∨
      (upd now quality anyUnc c = { c with qualMult := qualityMult c now, qualAt := now } ∧
        quality = true ∧ enhSkip c now anyUnc = false ∧ now - c.qualAt ≥ Conn.QUALITY_CACHE_INTERVAL_MS) := by
  unfold upd
  by_cases hs : enhSkip c now anyUnc = true
  · left; rw [if_pos hs]
  · rw [if_neg hs]
    cases quality
    · left; rfl
    · by_cases h50 : now - c.qualAt ≥ Conn.QUALITY_CACHE_INTERVAL_MS
      · right
        refine ⟨?_, rfl, by simpa using hs, h50⟩
        rw [enhScore_on_fst, cachedQuality_stale c now h50]
      · left
        rw [enhScore_on_fst, cachedQuality_fresh c now h50]

theorem upd_QOnly (now : Nat) (quality anyUnc : Bool) : QOnly (upd (F := F) now quality anyUnc) := by
  intro c
  rcases upd_cases now quality anyUnc c with h | ⟨h, -⟩
  · exact ⟨c.qualMult, c.qualAt, by rw [h]; rfl⟩
  · exact ⟨qualityMult c now, now, by rw [h]; rfl⟩

theorem enhSkip_setQG (q : F) (t : Nat) (c : SLink F) (now : Nat) (u : Bool) :
    enhSkip (setQG q t c.stallGated c) now u = enhSkip c now u := rfl

theorem enhSkip_upd (now : Nat) (quality anyUnc : Bool) (c : SLink F) (u : Bool) :
    enhSkip (upd now quality anyUnc c) now u = enhSkip c now u := by
  obtain ⟨q, t, h⟩ := upd_QOnly now quality anyUnc c
  rw [h]; rfl

theorem anyUnconstrained_map_upd (ls : List (SLink F)) (now : Nat) (quality anyUnc : Bool) :
    anyUnconstrained (ls.map (upd now quality anyUnc)) now = anyUnconstrained ls now := by
  unfold anyUnconstrained
  rw [List.any_map]
  congr 1
  funext c
  obtain ⟨q, t, h⟩ := upd_QOnly now quality anyUnc c
  simp only [Function.comp]
  rw [h]; rfl

/-- Scoring a link whose cache the pass has just refreshed gives the same score and leaves the
link alone (`now - now < 50`). -/
theorem enhScore_upd (now : Nat) (quality u : Bool) (c : SLink F) (hs : enhSkip c now u = false) :
    enhScore (upd now quality u c) now quality u = (upd now quality u c, (enhScore c now quality u).2) := by
  have h50 := Conn.QUALITY_CACHE_INTERVAL_MS_eq
  have hupd : upd now quality u c = (enhScore c now quality u).1 := by
    unfold upd; rw [hs]; rfl
  cases quality
  · rw [hupd]; rfl
  · by_cases h5 : now - c.qualAt ≥ Conn.QUALITY_CACHE_INTERVAL_MS
    · have h2 := cachedQuality_stale c now h5
      rw [hupd, enhScore_on_fst, h2]
      have hfresh : ¬ (now - now ≥ Conn.QUALITY_CACHE_INTERVAL_MS) := by omega
      have h1 := cachedQuality_fresh ({ c with qualMult := qualityMult c now, qualAt := now } : SLink F) now hfresh
      unfold enhScore
      simp only [h1, h2]
      rfl
    · have h2 := cachedQuality_fresh c now h5
      rw [hupd, enhScore_on_fst, h2]
      unfold enhScore
      simp only [h2]
      rfl

theorem entry_upd (now : Nat) (quality u : Bool) (c : SLink F) :
    entry now quality u (upd now quality u c) = entry now quality u c := by
  unfold entry
  rw [enhSkip_upd]
  by_cases hs : enhSkip c now u = true
  · simp [hs]
  · have hs' : enhSkip c now u = false := by simpa using hs
    rw [enhScore_upd now quality u c hs']

theorem upd_upd (now : Nat) (quality u : Bool) (c : SLink F) :
    upd now quality u (upd now quality u c) = upd now quality u c := by
  by_cases hs : enhSkip c now u = true
  · have : upd now quality u c = c := by unfold upd; rw [if_pos hs]
    rw [this, this]
  · have hs' : enhSkip c now u = false := by simpa using hs
    have hdef : ∀ x : SLink F, upd now quality u x =
        if enhSkip x now u then x else (enhScore x now quality u).1 := fun _ => rfl
    rw [hdef (upd now quality u c), enhSkip_upd, hs', enhScore_upd now quality u c hs']
    simp

/-! ## Idempotence and stability of the enhanced pass (any scalar instance) -/

theorem enhancedSelect_idem (ls : List (SLink F)) (last : Option Nat) (now : Nat) (quality : Bool) :
    enhancedSelect (enhancedSelect ls last now quality).1 last now quality =
      enhancedSelect ls last now quality := by
  rw [enhancedSelect_eq ls, enhancedSelect_eq]
  simp only [anyUnconstrained_map_upd, List.map_map]
  have h1 : (upd now quality (anyUnconstrained ls now)) ∘ (upd now quality (anyUnconstrained ls now)) =
      upd (F := F) now quality (anyUnconstrained ls now) := by
    funext c; exact upd_upd _ _ _ _
  have h2 : (entry now quality (anyUnconstrained ls now)) ∘ (upd now quality (anyUnconstrained ls now)) =
      entry (F := F) now quality (anyUnconstrained ls now) := by
    funext c; exact entry_upd _ _ _ _
  rw [h1, h2]

theorem decideRes_stable (last best : Option Nat) (bs : F) (cur : Option Nat → Option F) (r : Nat)
    (h : decideRes last best bs (cur last) = some r) :
    decideRes (some r) best bs (cur (some r)) = some r := by
  by_cases hb : best = some r
  · subst hb; simp [decideRes]
  · -- every branch but the hysteresis one returns `best`
    unfold decideRes at h
    split at h
    · exact absurd h hb
    · rename_i l
      have hl : l = r := by
        split at h
        · split at h
          · split at h
            · exact Option.some.inj h
            · exact absurd h hb
          · exact absurd h hb
        · exact absurd h hb
      subst hl
      unfold decideRes
      exact h

/-- The table, the running maximum and the refreshed state do not depend on `last`; re-running
with `last :=` the decision returns the decision. -/
theorem enhancedSelect_stable (ls : List (SLink F)) (last : Option Nat) (now : Nat) (quality : Bool) (r : Nat)
    (h : (enhancedSelect ls last now quality).2 = some r) :
    enhancedSelect (enhancedSelect ls last now quality).1 (some r) now quality =
      ((enhancedSelect ls last now quality).1, some r) := by
  have hst : enhancedSelect ls (some r) now quality = ((enhancedSelect ls last now quality).1, some r) := by
    rw [enhancedSelect_eq ls last] at h ⊢
    rw [enhancedSelect_eq ls (some r)]
    dsimp only at h ⊢
    congr 1
    exact decideRes_stable last _ _
      (fun l => curGo l (ls.map (entry now quality (anyUnconstrained ls now))) 0 none) r h
  have h1 : (enhancedSelect ls last now quality).1 = (enhancedSelect ls (some r) now quality).1 := by
    rw [hst]
  rw [h1, enhancedSelect_idem, hst]

/-- The decision is the running maximum or (hysteresis) the previous index, and the latter only
if that index is scored. -/
theorem decideRes_cases (last best : Option Nat) (bs : F) (cur : Option F) :
    decideRes last best bs cur = best ∨
      ∃ l c, last = some l ∧ cur = some c ∧ decideRes last best bs cur = some l := by
  unfold decideRes
  split
  · left; rfl
  · rename_i l
    split
    · split
      · rename_i c
        split
        · right; exact ⟨l, c, rfl, rfl, rfl⟩
        · left; rfl
      · left; rfl
    · left; rfl

/-! ## Index lemmas for the table and `curGo` -/

theorem entry_getElem? (ls : List (SLink F)) (now : Nat) (quality u : Bool) (k : Nat) (s : F) :
    (ls.map (entry now quality u))[k]? = some (some s) ↔
      ∃ c, ls[k]? = some c ∧ enhSkip c now u = false ∧ (enhScore c now quality u).2 = s := by
  rw [List.getElem?_map]
  constructor
  · intro h
    obtain ⟨c, hc, he⟩ := Option.map_eq_some_iff.1 h
    refine ⟨c, hc, ?_⟩
    unfold entry at he
    by_cases hs : enhSkip c now u = true
    · rw [if_pos hs] at he; cases he
    · rw [if_neg hs] at he
      exact ⟨by simpa using hs, Option.some.inj he⟩
  · rintro ⟨c, hc, hs, he⟩
    rw [hc]
    simp [entry, hs, he]

omit [Scalar F] in
theorem curGo_spec (l : Nat) (t : List (Option F)) :
    ∀ (i : Nat) (cur0 : Option F),
      curGo (some l) t i cur0 =
        if i ≤ l then (match t[l - i]? with | some (some s) => some s | _ => cur0) else cur0 := by
  induction t with
  | nil => intro i cur0; simp [curGo]
  | cons x t ih =>
    intro i cur0
    cases x with
    | none =>
      unfold curGo
      rw [ih]
      by_cases h1 : i + 1 ≤ l
      · have h2 : i ≤ l := by omega
        have h3 : l - i = (l - (i + 1)) + 1 := by omega
        rw [if_pos h1, if_pos h2, h3, List.getElem?_cons_succ]
      · rw [if_neg h1]
        by_cases h2 : i ≤ l
        · have h3 : l - i = 0 := by omega
          rw [if_pos h2, h3]; rfl
        · rw [if_neg h2]
    | some s =>
      unfold curGo
      rw [ih]
      by_cases h1 : i + 1 ≤ l
      · have h2 : i ≤ l := by omega
        have h3 : l - i = (l - (i + 1)) + 1 := by omega
        have h4 : (some i == some l) = false := by simp; omega
        rw [if_pos h1, if_pos h2, h3, List.getElem?_cons_succ, h4]
        rfl
      · rw [if_neg h1]
        by_cases h2 : i ≤ l
        · have h3 : l - i = 0 := by omega
          have h4 : i = l := by omega
          rw [if_pos h2, h3]; subst h4; simp
        · have h4 : (some i == some l) = false := by simp; omega
          rw [if_neg h2, h4]; rfl

omit [Scalar F] in
theorem curGo_zero (l : Nat) (t : List (Option F)) (s : F) :
    curGo (some l) t 0 none = some s ↔ t[l]? = some (some s) := by
  rw [curGo_spec]
  simp only [Nat.zero_le, if_true, Nat.sub_zero]
  split
  · rename_i s' h; rw [h]; simp
  · rename_i h
    constructor
    · intro h'; cases h'
    · intro h'; exact absurd h' (h s)

/-! ## `selectIdx`: idempotent at equal time and stable under `last := result` (any scalar instance) -/

theorem selectIdx_classic (ls : List (SLink F)) (last : Option Nat) (now : Nat) (cfg : Cfg)
    (h : cfg.classic = true) :
    selectIdx ls last now cfg = (applyStallGate ls now cfg, classicSelect (applyStallGate ls now cfg) now) := by
  unfold selectIdx; simp [h]

theorem selectIdx_enhanced (ls : List (SLink F)) (last : Option Nat) (now : Nat) (cfg : Cfg)
    (h : cfg.classic = false) :
    selectIdx ls last now cfg = enhancedSelect (applyStallGate ls now cfg) last now cfg.quality := by
  unfold selectIdx; simp [h]

theorem enhancedSelect_fst (ls : List (SLink F)) (last : Option Nat) (now : Nat) (quality : Bool) :
    (enhancedSelect ls last now quality).1 = ls.map (upd now quality (anyUnconstrained ls now)) := by
  rw [enhancedSelect_eq]

/-- The state after a select is a fixed point of the stall-guard pass at the same time. -/
theorem gate_selectIdx_fixed (ls : List (SLink F)) (last : Option Nat) (now : Nat) (cfg : Cfg) (h : 0 < now) :
    applyStallGate (selectIdx ls last now cfg).1 now cfg = (selectIdx ls last now cfg).1 := by
  cases hc : cfg.classic
  · rw [selectIdx_enhanced ls last now cfg hc, enhancedSelect_fst]
    exact gate_fixed_map _ now cfg _ (upd_QOnly _ _ _) (gate_idem ls now cfg h)
  · rw [selectIdx_classic ls last now cfg hc]
    exact gate_idem ls now cfg h

theorem selectIdx_idem (ls : List (SLink F)) (last : Option Nat) (now : Nat) (cfg : Cfg) (h : 0 < now) :
    selectIdx (selectIdx ls last now cfg).1 last now cfg = selectIdx ls last now cfg := by
  have hfix := gate_selectIdx_fixed ls last now cfg h
  cases hc : cfg.classic
  · rw [selectIdx_enhanced _ last now cfg hc, hfix, selectIdx_enhanced ls last now cfg hc]
    exact enhancedSelect_idem _ _ _ _
  · rw [selectIdx_classic _ last now cfg hc, hfix, selectIdx_classic ls last now cfg hc]

theorem selectIdx_stable (ls : List (SLink F)) (last : Option Nat) (now : Nat) (cfg : Cfg) (r : Nat)
    (h : 0 < now) (hr : (selectIdx ls last now cfg).2 = some r) :
    selectIdx (selectIdx ls last now cfg).1 (some r) now cfg = ((selectIdx ls last now cfg).1, some r) := by
  have hfix := gate_selectIdx_fixed ls last now cfg h
  cases hc : cfg.classic
  · rw [selectIdx_enhanced _ (some r) now cfg hc, hfix]
    rw [selectIdx_enhanced ls last now cfg hc] at hr ⊢
    exact enhancedSelect_stable _ _ _ _ r hr
  · rw [selectIdx_classic _ (some r) now cfg hc, hfix]
    rw [selectIdx_classic ls last now cfg hc] at hr ⊢
    dsimp only at hr ⊢
    rw [hr]

/-- Usability seen on the post-state of a select is usability of the input w.r.t. the configured
timeout (the monitors evaluate it on the post-state). -/
theorem selectIdx_usable_post (ls : List (SLink F)) (last : Option Nat) (now : Nat) (cfg : Cfg)
    (h : ∃ c' ∈ (selectIdx ls last now cfg).1, usable now c' = true) :
    ∃ c ∈ ls, usable now { c with connTimeoutMs := cfg.connTimeoutMs } = true := by
  apply gate_usable_post ls now cfg
  obtain ⟨c', hc', hu⟩ := h
  cases hc : cfg.classic
  · rw [selectIdx_enhanced ls last now cfg hc, enhancedSelect_fst] at hc'
    obtain ⟨x, hx, rfl⟩ := List.mem_map.1 hc'
    refine ⟨x, hx, ?_⟩
    obtain ⟨q, t, hq⟩ := upd_QOnly now cfg.quality (anyUnconstrained (applyStallGate ls now cfg) now) x
    rw [hq] at hu
    exact hu
  · rw [selectIdx_classic ls last now cfg hc] at hc'
    exact ⟨c', hc', hu⟩

end Srtla.SelLemmas

/-! ## Round 2 (C11): the selected index is a scored table entry — for ANY scalar instance

`EnhancedField.selected_scored` proves this over an ordered field through `bestGo_spec` (which also
needs the order to say "maximum").  That the running best is *an index of a scored entry* needs no
order at all, hence holds for the `Float` instance the driver runs. -/
namespace Srtla.SelLemmas
open Srtla.Gen Srtla.Conn Srtla Srtla.Select

variable {F : Type} [Scalar F]

theorem bestGo_index (t : List (Option F)) : ∀ (i : Nat) (b0 : Option Nat) (bs0 : F),
    (bestGo t i b0 bs0).1 = b0 ∨
      ∃ (k : Nat) (s : F), (bestGo t i b0 bs0).1 = some (i + k) ∧ t[k]? = some (some s) := by
  induction t with
  | nil => intro i b0 bs0; left; rfl
  | cons x t ih =>
    intro i b0 bs0
    cases x with
    | none =>
      simp only [bestGo]
      rcases ih (i + 1) b0 bs0 with h | ⟨k, s, h1, h2⟩
      · exact Or.inl h
      · exact Or.inr ⟨k + 1, s, by rw [h1]; congr 1; omega, by simpa using h2⟩
    | some s =>
      simp only [bestGo]
      split
      · rcases ih (i + 1) (some i) s with h | ⟨k, s', h1, h2⟩
        · exact Or.inr ⟨0, s, by rw [h]; rfl, rfl⟩
        · exact Or.inr ⟨k + 1, s', by rw [h1]; congr 1; omega, by simpa using h2⟩
      · rcases ih (i + 1) b0 bs0 with h | ⟨k, s', h1, h2⟩
        · exact Or.inl h
        · exact Or.inr ⟨k + 1, s', by rw [h1]; congr 1; omega, by simpa using h2⟩

/-- The index returned by the enhanced pass — the running best, or `last` through the hysteresis —
is a scored entry of the pass's table, for every scalar instance. -/
theorem selected_scored_any (ls : List (SLink F)) (last : Option Nat) (now : Nat) (quality : Bool) (i : Nat)
    (h : (enhancedSelect ls last now quality).2 = some i) :
    ∃ s : F, (ls.map (entry now quality (anyUnconstrained ls now)))[i]? = some (some s) := by
  rw [enhancedSelect_eq] at h
  dsimp only at h
  rcases decideRes_cases last
      (bestGo (ls.map (entry now quality (anyUnconstrained ls now))) 0 none (Scalar.lit (-1.0) (-1) 1)).1
      (bestGo (ls.map (entry now quality (anyUnconstrained ls now))) 0 none (Scalar.lit (-1.0) (-1) 1)).2
      (curGo last (ls.map (entry now quality (anyUnconstrained ls now))) 0 none) with hb | ⟨l, c, hl, hc, hr⟩
  · rw [hb] at h
    rcases bestGo_index (ls.map (entry now quality (anyUnconstrained ls now))) 0 none
        (Scalar.lit (-1.0) (-1) 1) with h3 | ⟨k, s, hk, hk2⟩
    · rw [h3] at h; cases h
    · rw [hk] at h
      have : 0 + k = i := Option.some.inj h
      have : k = i := by omega
      subst this
      exact ⟨s, hk2⟩
  · rw [hr] at h
    have : l = i := Option.some.inj h
    subst this
    subst hl
    exact ⟨c, (curGo_zero l _ c).1 hc⟩

end Srtla.SelLemmas
