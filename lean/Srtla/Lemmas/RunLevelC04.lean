import Srtla.Lemmas.ForwardRun
import Srtla.Lemmas.Keepalive
import Srtla.Lemmas.Uplink
import Srtla.Lemmas.Housekeeping
/-!
# C04, shell level: what an ineligible uplink can carry

(The property theorems of this file live in namespace `Srtla.Props.C04` but cannot be in
`Props/C04.lean`: `Lemmas/Forward.lean` imports `Props/C04.lean`, and these theorems need the
`Forward*` lemmas.  `tools/props/C04.json` lists this module under `extra_lean_modules`.)

Second sentence of C04: "An uplink that is registering, timed out or stall-gated carries at most
keepalives, handshake packets and the sparse duplicate probes."
* `hk_wire_ctl`, `uplink_wire_reg1`: everything the `hk` and `uplink` arms put on a socket is a frame the
  shell BUILDS (keepalive from the link's accounting state, REG1/REG2 from the session id) — never a
  queued datagram;
* `enqueue_ineligible`: in the `client` arm a copy enqueued on an ineligible link is a probe copy of a
  stall-gated connected link; `selectPreRegistration_not_timed_out` for the pre-registration path.
-/
namespace Srtla.Sys
open Srtla Srtla.Gen Srtla.Conn Srtla.Select Srtla.Rtt Srtla.Link Scalar

set_option linter.unusedSectionVars false

variable {F : Type} [Scalar F]

/-! ## (a) `hk` and `uplink` arms: only control frames -/

theorem keepaliveExt_length (info : Codec.ConnInfo) (now : Nat) : (Codec.createKeepaliveExt info now).length = 38 := by
  simp [Codec.createKeepaliveExt, Codec.toBE16, Codec.toBE64, Codec.toBE32]

theorem keepalivePacket_frame (l : FLink F) (now : Nat) :
    (l.keepalivePacket now).2.length = 38 ∧ Codec.getPacketTypeS (l.keepalivePacket now).2 = some 0x9000 := by
  rw [Keepalive.keepalivePacket_pkt]
  exact ⟨keepaliveExt_length _ _, Keepalive.keepalive_type _ _⟩

theorem clearPendingIfTimedOut_id (r : Reg.Reg) (now : Nat) : (Reg.clearPendingIfTimedOut r now).1.id = r.id := by
  unfold Reg.clearPendingIfTimedOut
  split
  · split <;> rfl
  · rfl

theorem checkProbingComplete_id (r : Reg.Reg) (now : Nat) : (Reg.checkProbingComplete r now).1.id = r.id := by
  unfold Reg.checkProbingComplete
  split
  · rfl
  · dsimp only
    split <;> rfl

theorem hkPre_id (s : Sys F) (now : Nat) : (Keepalive.hkPre s now).1.id = s.reg.id := by
  unfold Keepalive.hkPre
  split
  · split
    · split <;> simp only [checkProbingComplete_id, clearPendingIfTimedOut_id]
    · simp only [checkProbingComplete_id, clearPendingIfTimedOut_id]
  · exact clearPendingIfTimedOut_id _ _

theorem handleRegNgp_id (r : Reg.Reg) (idx now : Nat) : (Reg.handleRegNgp r idx now).id = r.id := by
  unfold Reg.handleRegNgp Reg.handleProbeResponse
  split
  · split <;> rfl
  · split <;> rfl

theorem reg1IfNgpImmediate_pkt (r : Reg.Reg) (idx now : Nat) (p : Bytes)
    (h : (Reg.reg1IfNgpImmediate r idx now).2 = some p) : p = Codec.createReg1 r.id := by
  unfold Reg.reg1IfNgpImmediate at h
  split at h
  · simp only [Reg.buildReg1For, Option.some.injEq] at h
    exact h.symm
  · cases h

/-- A frame the per-link pass of housekeeping may send for link `l`. -/
def HkFrame (id : Bytes) (now : Nat) (l : FLink F) (x : Nat × Bytes) : Prop :=
  x.1 = l.core.connId ∧
  ((x.2 = (l.keepalivePacket now).2 ∧ l.core.connected = true ∧ l.isTimedOut now = false) ∨
   (x.2 = Codec.createReg1 id ∧ l.isTimedOut now = true) ∨
   (x.2 = Codec.createReg2 id ∧ l.isTimedOut now = true))

theorem hkOne_frames (classic : Bool) (now : Nat) (l : FLink F) (i : Nat) (reg : Reg.Reg) (fb : List Nat) :
    (Keepalive.hkOne classic now l i reg fb).2.1.id = reg.id ∧
    ∀ x ∈ (Keepalive.hkOne classic now l i reg fb).2.2, HkFrame reg.id now l x := by
  unfold Keepalive.hkOne
  cases hto : l.isTimedOut now with
  | true =>
    simp only [if_true]
    split
    · split
      · split
        · refine ⟨rfl, fun x hx => ?_⟩
          simp only [List.mem_cons, List.not_mem_nil, or_false] at hx
          subst hx
          exact ⟨rfl, Or.inr (Or.inl ⟨rfl, hto⟩)⟩
        · exact ⟨rfl, by simp⟩
      · refine ⟨rfl, fun x hx => ?_⟩
        simp only [List.mem_cons, List.not_mem_nil, or_false] at hx
        subst hx
        exact ⟨rfl, Or.inr (Or.inr ⟨rfl, hto⟩)⟩
    · exact ⟨rfl, by simp⟩
  | false =>
    simp only [Bool.false_eq_true, if_false]
    refine ⟨by first | rfl | trivial, fun x hx => ?_⟩
    obtain ⟨-, -, h3, -⟩ := Keepalive.hkLive_spec classic now l
    obtain ⟨rfl, hc⟩ := h3 x hx
    exact ⟨rfl, Or.inl ⟨rfl, hc, hto⟩⟩

theorem hkLinksGo_frames (classic : Bool) (now : Nat) (ls : List (FLink F)) (i : Nat) (reg : Reg.Reg)
    (fb : List Nat) :
    (hkLinksGo classic now ls i reg fb).2.1.id = reg.id ∧
    ∀ x ∈ (hkLinksGo classic now ls i reg fb).2.2, ∃ l ∈ ls, HkFrame reg.id now l x := by
  induction ls generalizing i reg fb with
  | nil => simp [hkLinksGo]
  | cons l rest ih =>
    rw [Keepalive.hkLinksGo_cons]
    obtain ⟨o1, o2⟩ := hkOne_frames classic now l i reg fb
    obtain ⟨r1, r2⟩ := ih (i + 1) (Keepalive.hkOne classic now l i reg fb).2.1 (Keepalive.hkFbK now fb l)
    dsimp only
    refine ⟨by rw [r1, o1], fun x hx => ?_⟩
    rcases List.mem_append.1 hx with hx | hx
    · exact ⟨l, List.mem_cons_self, o2 x hx⟩
    · obtain ⟨m, hm, hf⟩ := r2 x hx
      rw [o1] at hf
      exact ⟨m, List.mem_cons_of_mem _ hm, hf⟩

theorem regDriver_frames (r : Reg.Reg) (now : Nat) :
    (∀ idx pkt, (Reg.regDriverPendingSends r now).2.reg1 = some (idx, pkt) → pkt = Codec.createReg1 r.id) ∧
    (∀ pkt, (Reg.regDriverPendingSends r now).2.broadcastReg2 = some pkt → pkt = Codec.createReg2 r.id) := by
  unfold Reg.regDriverPendingSends
  dsimp only
  have hid : (Reg.driverReg1 r now).1.id = r.id := by
    unfold Reg.driverReg1
    split
    · split
      · split <;> rfl
      · rfl
    · rfl
  constructor
  · intro idx pkt h
    unfold Reg.driverReg1 at h
    split at h
    · split at h
      · split at h
        · simp only [Option.some.injEq, Prod.mk.injEq] at h
          exact h.2.symm
        · simp at h
      · simp at h
    · simp at h
  · intro pkt h
    unfold Reg.driverBroadcast at h
    split at h
    · simp only [Option.some.injEq] at h
      rw [← h, hid]
    · simp at h

/-- The conn ids of the links after the per-link pass are those of the state. -/
theorem hkMid_ids (s : Sys F) (now : Nat) : ids (Keepalive.hkMid s now).1 = ids s.links := by
  obtain ⟨p1, p2⟩ := Keepalive.hkPre_spec s now
  obtain ⟨m1, m2, -, -⟩ :=
    Keepalive.hkLinksGo_spec s.cfg.classic now (Keepalive.hkPre s now).2 0 (Keepalive.hkPre s now).1 s.failBind
  apply ids_eq_of_get
  · show (Keepalive.hkMid s now).1.length = _
    unfold Keepalive.hkMid; rw [m1, p1]
  · intro j l hl
    obtain ⟨l0, hl0, hg⟩ := p2 j l hl
    obtain ⟨l1, hl1, hk⟩ := m2 j l0 hl0
    refine ⟨l1, hl1, ?_⟩
    rw [hk.connId]
    rcases hg with rfl | rfl <;> rfl

/-- **Everything a housekeeping tick puts on a socket is a control frame built by the shell**: for a conn
id carried by a link, either the extended keepalive of a connected, not timed out link (built from that
link's accounting state at the tick), or the REG1 or the REG2 frame of the session id. -/
theorem hk_wire_ctl (s : Sys F) (now : Nat) :
    ∀ x ∈ (handleHousekeeping s now).2.wire, x.1 ∈ ids s.links ∧
      ((∃ l ∈ s.links, x = (l.core.connId, (l.keepalivePacket now).2) ∧ l.core.connected = true ∧
          l.isTimedOut now = false) ∨
       x.2 = Codec.createReg1 s.reg.id ∨ x.2 = Codec.createReg2 s.reg.id) := by
  rw [Keepalive.handleHousekeeping_wire]
  obtain ⟨p1, p2⟩ := Keepalive.hkPre_spec s now
  obtain ⟨f1, f2⟩ := hkLinksGo_frames s.cfg.classic now (Keepalive.hkPre s now).2 0 (Keepalive.hkPre s now).1
    s.failBind
  rw [hkPre_id] at f1 f2
  have hmid := hkMid_ids s now
  have hdrv := regDriver_frames
    (Reg.updateActiveConnections (Keepalive.hkMid s now).2.1 ((Keepalive.hkMid s now).1.map (·.core.connected))) now
  have hid2 : (Reg.updateActiveConnections (Keepalive.hkMid s now).2.1
      ((Keepalive.hkMid s now).1.map (·.core.connected))).id = s.reg.id := f1
  rw [hid2] at hdrv
  generalize hsd : Keepalive.hkSends (Keepalive.hkMid s now).1 (Keepalive.hkMid s now).2.1 now = sends at *
  have hsd' : (Reg.regDriverPendingSends (Reg.updateActiveConnections (Keepalive.hkMid s now).2.1
      ((Keepalive.hkMid s now).1.map (·.core.connected))) now).2 = sends := hsd
  rw [hsd'] at hdrv
  intro x hx
  rcases List.mem_append.1 hx with hx | hx
  · rcases List.mem_append.1 hx with hx | hx
    · -- the per-link pass
      obtain ⟨l0, hl0, hc, hf⟩ := f2 x hx
      obtain ⟨j, hj⟩ := List.mem_iff_getElem?.1 hl0
      have hlt : j < s.links.length := by rw [← p1]; exact (List.getElem?_eq_some_iff.1 hj).1
      obtain ⟨l0', hl0', hg⟩ := p2 j s.links[j] (List.getElem?_eq_getElem hlt)
      rw [hj] at hl0'; cases hl0'
      have hcid : l0.core.connId = s.links[j].core.connId := by rcases hg with rfl | rfl <;> rfl
      refine ⟨by rw [hc, hcid]; exact List.mem_map.2 ⟨_, List.getElem_mem hlt, rfl⟩, ?_⟩
      rcases hf with ⟨h1, h2, h3⟩ | ⟨h1, -⟩ | ⟨h1, -⟩
      · left
        refine ⟨s.links[j], List.getElem_mem hlt, ?_⟩
        rcases hg with rfl | rfl
        · exact ⟨Prod.ext hc h1, h2, h3⟩
        · refine ⟨Prod.ext hc h1, h2, ?_⟩
          have hc' : (s.links[j]).core.connected = true := h2
          unfold FLink.isTimedOut Select.isTimedOut FLink.toSLink at h3 ⊢
          simp only [hc', Bool.not_true, Bool.false_eq_true, if_false] at h3 ⊢
          exact h3
      · exact Or.inr (Or.inl h1)
      · exact Or.inr (Or.inr h1)
    · -- the driver's REG1
      unfold Keepalive.hkLs2 at hx
      split at hx
      · rename_i idx pkt hs
        split at hx
        · rename_i l hl
          simp only [List.mem_cons, List.not_mem_nil, or_false] at hx
          subst hx
          refine ⟨?_, Or.inr (Or.inl (hdrv.1 idx pkt hs))⟩
          rw [← hmid]; exact List.mem_map.2 ⟨l, List.mem_of_getElem? hl, rfl⟩
        · cases hx
      · cases hx
  · -- the REG2 broadcast
    unfold Keepalive.hkLs3 at hx
    split at hx
    · rename_i pkt hs
      obtain ⟨l, hl, rfl⟩ := List.mem_map.1 hx
      refine ⟨?_, Or.inr (Or.inr (hdrv.2 pkt hs))⟩
      have hids2 : ids (Keepalive.hkLs2 (Keepalive.hkMid s now).1 now sends).1 = ids s.links := by
        rw [← hmid]
        obtain ⟨a1, a2, -⟩ := Keepalive.hkLs2_spec (Keepalive.hkMid s now).1 now sends
        exact ids_eq_of_get a1 fun j l hl => by
          obtain ⟨l', h1, h2⟩ := a2 j l hl
          exact ⟨l', h1, h2.2⟩
      rw [← hids2]; exact List.mem_map.2 ⟨l, hl, rfl⟩
    · cases hx

/-- **The only datagram an `uplink` event itself puts on a socket is a REG1**: the immediate answer to a
REG_NGP (type 0x9211), on the socket the REG_NGP came from, built from the session id. -/
theorem uplink_wire_reg1 (s : Sys F) (cid : Nat) (data : Bytes) (now : Nat) :
    (handleUplinkPacket s cid data now).2.wire.length ≤ 1 ∧
    ∀ x ∈ (handleUplinkPacket s cid data now).2.wire,
      x = (cid, Codec.createReg1 s.reg.id) ∧ Codec.getPacketTypeS data = some 0x9211 ∧ cid ∈ ids s.links := by
  by_cases hne : data = []
  · subst hne; simp [handleUplinkPacket]
  cases hf : s.links.findIdx? (·.core.connId == cid) with
  | none => rw [Uplink.unknown_link s cid data now hf]; simp
  | some idx =>
    obtain ⟨l, hl, hcid⟩ := Uplink.findIdx_get s.links cid idx hf
    have hmem : cid ∈ ids s.links := by
      rw [← hcid]; exact List.mem_map.2 ⟨l, List.mem_of_getElem? hl, rfl⟩
    rw [Uplink.handleUplinkPacket_eq s cid data now idx l hne hf hl]
    dsimp only
    cases hp : Codec.getPacketTypeS data with
    | none => rw [Uplink.pupSpec_none l idx s.reg s.clientKnown data now hp]; simp
    | some pt =>
      by_cases h1 : pt = 0x9211
      · subst h1
        have hr : (Uplink.pupSpec l idx s.reg s.clientKnown data now).2.2.reg1Send =
            (Reg.reg1IfNgpImmediate (Reg.handleRegNgp s.reg idx now) idx now).2 := by
          unfold Uplink.pupSpec; simp only [hp, if_true]
        rw [hr]
        cases hq : (Reg.reg1IfNgpImmediate (Reg.handleRegNgp s.reg idx now) idx now).2 with
        | none => simp
        | some p =>
          have := reg1IfNgpImmediate_pkt _ _ _ _ hq
          rw [handleRegNgp_id] at this
          subst this
          simp only [List.length_cons, List.length_nil, Nat.le_refl, List.mem_cons, List.not_mem_nil, or_false,
            forall_eq, true_and]
          exact hmem
      · obtain ⟨-, -, -, -, -, h6⟩ := Uplink.incoming_spec l idx s.reg s.clientKnown data now pt hp
        rw [h6 h1]; simp

/-! ## (b) `client` arm: a copy on an ineligible link is a probe copy -/

/-- Once the session is established, a copy enqueued on a link that — in the state this call's selection
pass left behind — is not connected, or registering, or timed out, or stall-gated, is NOT the unique copy
(the routing decision is another link): it is a probe copy, the datagram is an SRT data packet, and the
link is stall-gated AND connected with its 1-in-100 counter firing. -/
theorem enqueue_ineligible (s : Sys F) (pkt : Bytes) (now i : Nat) (l1 : FLink F)
    (hreg : s.reg.hasConnected = true) (hl1 : (routedLinks s now)[i]? = some l1)
    (happ : appended s (.client now pkt) i ≠ [])
    (hin : l1.core.connected = false ∨ l1.schedulable = false ∨ l1.isTimedOut now = true ∨ l1.stallGated = true) :
    (∃ sel, target s pkt now = some sel ∧ sel ≠ i) ∧ (Codec.getSrtSequenceNumberS pkt).isSome = true ∧
    l1.stallGated = true ∧ l1.core.connected = true ∧ l1.probeCounter + 1 ≥ 100 := by
  simp only [appended] at happ
  have hne : pkt ≠ [] := by
    intro h; subst h; unfold appendedClient at happ; simp at happ
  cases ht : target s pkt now with
  | none => unfold appendedClient at happ; rw [ht] at happ; simp at happ
  | some sel =>
    have h := appendedClient_eq s pkt now i sel l1 hne ht hl1
    by_cases his : i = sel
    · subst his
      have h1 : target s pkt now = selected s pkt now := by unfold target; simp [hreg]
      have h2 : routedLinks s now = (runSelect s now).1.links := by unfold routedLinks; simp [hreg]
      rw [h1] at ht; rw [h2] at hl1
      obtain ⟨l1', q1, q2, q3, q4, q5⟩ := selected_eligible s pkt now i ht
      rw [hl1] at q1; cases q1
      rcases hin with h | h | h | h
      · rw [q2] at h; cases h
      · rw [q3] at h; cases h
      · rw [q4] at h; cases h
      · rw [q5] at h; cases h
    · rw [if_neg his] at h
      split at h
      · rename_i hc
        exact ⟨⟨sel, rfl, fun h => his h.symm⟩, hc.2.1, hc.2.2.1, hc.2.2.2.1, hc.2.2.2.2⟩
      · exact absurd h happ

/-- Pre-registration routing (`select_pre_registration_connection`, before the session is established):
the chosen link exists and is not timed out. -/
theorem selectPreRegistration_not_timed_out (ls : List (FLink F)) (last : Option Nat) (now i : Nat)
    (h : selectPreRegistration ls last now = some i) :
    ∃ l, ls[i]? = some l ∧ l.isTimedOut now = false := by
  have hf : ∀ k, List.findIdx? (fun (c : FLink F) => !c.isTimedOut now) ls = some k →
      ∃ l, ls[k]? = some l ∧ l.isTimedOut now = false := by
    intro k hk
    obtain ⟨hlt, hp, -⟩ := List.findIdx?_eq_some_iff_getElem.1 hk
    exact ⟨ls[k], List.getElem?_eq_getElem hlt, by simpa using hp⟩
  unfold selectPreRegistration at h
  dsimp only at h
  cases last with
  | none => simp only [Bool.false_eq_true, if_false] at h; exact hf _ h
  | some k =>
    dsimp only at h
    cases hl : ls[k]? with
    | none => simp only [hl, Bool.false_eq_true, if_false] at h; exact hf _ h
    | some c =>
      simp only [hl] at h
      split at h
      · rename_i hc
        cases h
        simp only [Bool.and_eq_true, Bool.not_eq_true'] at hc
        exact ⟨c, hl, hc.2⟩
      · exact hf _ h

/-! ## (c) "has completed registration since its last reset", as history -/

/-- Event `e` delivers a REG3 (type 0x9202) on the socket of link `j`. -/
def Reg3On (s : Sys F) (e : Ev) (j : Nat) : Prop :=
  ∃ now cid data, e = .uplink now cid data ∧ s.links.findIdx? (·.core.connId == cid) = some j ∧
    Codec.getPacketTypeS data = some 0x9202

/-- Event `e` tears link `j` down (`reset_core_state`), in one of the three ways the shell has:
* `client`: a threshold flush on this link failed (a pending send failure for its conn id was consumed)
  and `mark_for_recovery` ran;
* `uplink`: a REG_ERR (type 0x9210) arrived on this link's socket — `mark_for_recovery`;
* `hk`: the link is timed out and due for a reconnect attempt — `reset_for_reconnect`, or
  `mark_for_recovery` when the socket re-creation fails. -/
def TearsDown (s : Sys F) (e : Ev) (j : Nat) : Prop :=
  ∃ l l', s.links[j]? = some l ∧ (step s e).1.links[j]? = some l' ∧
    ((∃ now pkt, e = .client now pkt ∧
        (step s e).1.failNext.count l.core.connId < s.failNext.count l.core.connId ∧
        l'.core.phase = .registering ∧ l'.core.connected = false) ∨
     (∃ now cid data, e = .uplink now cid data ∧ s.links.findIdx? (·.core.connId == cid) = some j ∧
        Codec.getPacketTypeS data = some 0x9210 ∧ l' = l.markForRecovery) ∨
     (∃ now, e = .hk now ∧ l.isTimedOut now = true ∧ l.shouldAttemptReconnect now = true ∧
        l'.lastAttemptMs = now ∧ l'.core.phase = .registering ∧ l'.core.connected = false))

theorem TearsDown.registering {s : Sys F} {e : Ev} {j : Nat} (h : TearsDown s e j) :
    ∃ l', (step s e).1.links[j]? = some l' ∧ l'.core.phase = .registering ∧ l'.core.connected = false := by
  obtain ⟨l, l', -, h2, h3 | h3 | h3⟩ := h
  · obtain ⟨_, _, -, -, a, b⟩ := h3; exact ⟨l', h2, a, b⟩
  · obtain ⟨_, _, _, -, -, -, rfl⟩ := h3; exact ⟨_, h2, rfl, rfl⟩
  · obtain ⟨_, -, -, -, -, a, b⟩ := h3; exact ⟨l', h2, a, b⟩

/-- **One event, one link, registration status.**  Exactly one of: *kept* (registering-ness and the
connected flag unchanged), *REG3* (the event is a REG3 on this link: phase `warming 0 now`, connected),
*torn down* (`TearsDown`: phase registering, not connected). -/
theorem phase_step (s : Sys F) (e : Ev) (hnr : e.isReload = false) (j : Nat) (l : FLink F)
    (hl : s.links[j]? = some l) :
    ∃ l', (step s e).1.links[j]? = some l' ∧ l'.core.connId = l.core.connId ∧
      (((l'.core.phase = .registering ↔ l.core.phase = .registering) ∧ l'.core.connected = l.core.connected ∧
          ¬ Reg3On s e j) ∨
       (Reg3On s e j ∧ (∃ now, l'.core.phase = .warming 0 now) ∧ l'.core.connected = true) ∨
       (TearsDown s e j ∧ l'.core.phase = .registering ∧ l'.core.connected = false)) := by
  have hgen : ∀ l', (step s e).1.links[j]? = some l' → Hk.LinkStep s e j l l' →
      (∀ now cid data, e = .uplink now cid data → False) →
      l'.core.connId = l.core.connId ∧
      (((l'.core.phase = .registering ↔ l.core.phase = .registering) ∧ l'.core.connected = l.core.connected ∧
          ¬ Reg3On s e j) ∨
       (Reg3On s e j ∧ (∃ now, l'.core.phase = .warming 0 now) ∧ l'.core.connected = true) ∨
       (TearsDown s e j ∧ l'.core.phase = .registering ∧ l'.core.connected = false)) := by
    intro l' hl' hs hnu
    have hn3 : ¬ Reg3On s e j := fun ⟨now, cid, data, he, _⟩ => hnu now cid data he
    cases hs with
    | evolves cto _ h => exact ⟨h.connId, Or.inl ⟨h.phaseReg, h.connected, hn3⟩⟩
    | sendFail now pkt he h hcons =>
      exact ⟨h.connId, Or.inr (Or.inr ⟨⟨l, l', hl, hl', Or.inl ⟨now, pkt, he, hcons, h.phase, h.clean.connected⟩⟩,
        h.phase, h.clean.connected⟩)⟩
    | reg3 now cid data he => exact absurd he (fun h => hnu now cid data h)
    | regErr now cid data he => exact absurd he (fun h => hnu now cid data h)
    | attempt now he hto hsa hx =>
      obtain ⟨t, rfl⟩ := hx
      obtain ⟨r1, -, -, -, r5, r6, -, -, -, r10⟩ := Hk.reconnectLink_fields l now
      exact ⟨r5, Or.inr (Or.inr ⟨⟨l, _, hl, hl', Or.inr (Or.inr ⟨now, he, hto, hsa, r1, r6, r10.connected⟩)⟩,
        r6, r10.connected⟩)⟩
    | attemptFailed now he hto hsa _ hx =>
      obtain ⟨t, rfl⟩ := hx
      obtain ⟨r1, -, -, -, r5, r6, -, -, r9⟩ := Hk.failedLink_fields l now
      exact ⟨r5, Or.inr (Or.inr ⟨⟨l, _, hl, hl', Or.inr (Or.inr ⟨now, he, hto, hsa, r1, r6, r9.connected⟩)⟩,
        r6, r9.connected⟩)⟩
  cases e with
  | uplink now cid data =>
    obtain ⟨h1, -⟩ := Hk.uplink_links s cid data now
    obtain ⟨l', hl', hs⟩ := h1 j l hl
    refine ⟨l', hl', ?_⟩
    cases hs with
    | evolves h hne =>
      refine ⟨h.connId, Or.inl ⟨h.phaseReg, h.connected, ?_⟩⟩
      rintro ⟨now', cid', data', he, hidx, hty⟩
      cases he
      have hd : data.isEmpty = false := by
        cases data with
        | nil => simp [Codec.getPacketTypeS] at hty
        | cons _ _ => rfl
      exact hne hidx hd ((Hk.regEvent_of_type s.reg j data now).2.2 hty)
    | reg3 hidx hev hl3 _ =>
      subst hl3
      exact ⟨rfl, Or.inr (Or.inl ⟨⟨now, cid, data, rfl, hidx, (Hk.regEvent_of_type s.reg j data now).2.1 hev⟩,
        ⟨now, rfl⟩, rfl⟩)⟩
    | regErr hidx hev hlE =>
      subst hlE
      exact ⟨rfl, Or.inr (Or.inr ⟨⟨l, _, hl, hl', Or.inr (Or.inl ⟨now, cid, data, rfl, hidx,
        (Hk.regEvent_of_type s.reg j data now).1.1 hev, rfl⟩)⟩, rfl, rfl⟩)⟩
  | client now pkt =>
    obtain ⟨l', hl', hs⟩ := (Hk.step_link s (.client now pkt) rfl).1 j l hl
    exact ⟨l', hl', hgen l' hl' hs (fun _ _ _ h => by cases h)⟩
  | flush now =>
    obtain ⟨l', hl', hs⟩ := (Hk.step_link s (.flush now) rfl).1 j l hl
    exact ⟨l', hl', hgen l' hl' hs (fun _ _ _ h => by cases h)⟩
  | hk now =>
    obtain ⟨l', hl', hs⟩ := (Hk.step_link s (.hk now) rfl).1 j l hl
    exact ⟨l', hl', hgen l' hl' hs (fun _ _ _ h => by cases h)⟩
  | setCfg c =>
    obtain ⟨l', hl', hs⟩ := (Hk.step_link s (.setCfg c) rfl).1 j l hl
    exact ⟨l', hl', hgen l' hl' hs (fun _ _ _ h => by cases h)⟩
  | crit d =>
    obtain ⟨l', hl', hs⟩ := (Hk.step_link s (.crit d) rfl).1 j l hl
    exact ⟨l', hl', hgen l' hl' hs (fun _ _ _ h => by cases h)⟩
  | failNext c =>
    obtain ⟨l', hl', hs⟩ := (Hk.step_link s (.failNext c) rfl).1 j l hl
    exact ⟨l', hl', hgen l' hl' hs (fun _ _ _ h => by cases h)⟩
  | failAfter c kfa =>
    obtain ⟨l', hl', hs⟩ := (Hk.step_link s (.failAfter c kfa) rfl).1 j l hl
    exact ⟨l', hl', hgen l' hl' hs (fun _ _ _ h => by cases h)⟩
  | failBind c =>
    obtain ⟨l', hl', hs⟩ := (Hk.step_link s (.failBind c) rfl).1 j l hl
    exact ⟨l', hl', hgen l' hl' hs (fun _ _ _ h => by cases h)⟩
  | syncTimeout =>
    obtain ⟨l', hl', hs⟩ := (Hk.step_link s (.syncTimeout) rfl).1 j l hl
    exact ⟨l', hl', hgen l' hl' hs (fun _ _ _ h => by cases h)⟩
  | stamp idx weak ld ccb cct =>
    obtain ⟨l', hl', hs⟩ := (Hk.step_link s (.stamp idx weak ld ccb cct) rfl).1 j l hl
    exact ⟨l', hl', hgen l' hl' hs (fun _ _ _ h => by cases h)⟩
  | reload rnow raddrs routs => cases hnr

/-- The registration status of link `j` as a fold over the history: set by a REG3 on the link, cleared by a
tear-down of the link, otherwise unchanged.  `g` is the status at the start. -/
def RegSince (j : Nat) : Sys F → List Ev → Prop → Prop
  | _, [], g => g
  | s, e :: evs, g => RegSince j (step s e).1 evs (Reg3On s e j ∨ (g ∧ ¬ TearsDown s e j))

theorem RegSince_congr (j : Nat) (s : Sys F) (evs : List Ev) {g g' : Prop} (h : g ↔ g') :
    RegSince j s evs g ↔ RegSince j s evs g' := by
  induction evs generalizing s g g' with
  | nil => exact h
  | cons e evs ih =>
    simp only [RegSince]
    exact ih _ (by rw [h])

/-- One event: the status after it. -/
theorem registered_step (s : Sys F) (e : Ev) (hnr : e.isReload = false) (j : Nat) (l l' : FLink F)
    (hl : s.links[j]? = some l) (hl' : (step s e).1.links[j]? = some l') :
    l'.core.phase ≠ .registering ↔ (Reg3On s e j ∨ (l.core.phase ≠ .registering ∧ ¬ TearsDown s e j)) := by
  obtain ⟨l'', h1, -, h2⟩ := phase_step s e hnr j l hl
  rw [hl'] at h1; cases h1
  rcases h2 with ⟨a, -, c⟩ | ⟨a, ⟨now, b⟩, -⟩ | ⟨a, b, -⟩
  · constructor
    · intro h
      refine Or.inr ⟨fun h0 => h (a.2 h0), fun ht => ?_⟩
      obtain ⟨lx, q1, q2, -⟩ := ht.registering
      rw [hl'] at q1; cases q1
      exact h q2
    · rintro (h | ⟨h, -⟩)
      · exact absurd h c
      · exact fun h0 => h (a.1 h0)
  · constructor
    · intro _; exact Or.inl a
    · intro _; rw [b]; exact fun h => by cases h
  · constructor
    · intro h; exact absurd b h
    · rintro (h | ⟨-, h⟩)
      · -- a REG3 and a tear-down of the same link in one event: impossible
        obtain ⟨now, cid, data, he, -, hty⟩ := h
        obtain ⟨lx, lx', -, -, q | q | q⟩ := a
        · obtain ⟨_, _, he', -⟩ := q; rw [he] at he'; cases he'
        · obtain ⟨_, _, _, he', -, hty', -⟩ := q
          rw [he] at he'; cases he'
          rw [hty] at hty'; cases hty'
        · obtain ⟨_, he', -⟩ := q; rw [he] at he'; cases he'
      · exact absurd a h

/-- **History-level reading**: along any run, link `j` is registered (phase ≠ registering) at the end iff
`RegSince` holds of the history, started from its status in the initial state. -/
theorem registered_iff_regSince (s : Sys F) (evs : List Ev) (hnr : NoReload evs) (j : Nat) (l0 lN : FLink F)
    (h0 : s.links[j]? = some l0) (hN : (run s evs).1.links[j]? = some lN) :
    lN.core.phase ≠ .registering ↔ RegSince j s evs (l0.core.phase ≠ .registering) := by
  induction evs generalizing s l0 with
  | nil => simp only [run] at hN; rw [h0] at hN; cases hN; exact Iff.rfl
  | cons e evs ih =>
    simp only [run] at hN
    obtain ⟨l1, h1, -⟩ := phase_step s e hnr.head j l0 h0
    rw [ih (step s e).1 hnr.tail l1 h1 hN]
    simp only [RegSince]
    exact RegSince_congr j _ evs (registered_step s e hnr.head j l0 l1 h0 h1)

/-- A registering link is not connected: an invariant of every run. -/
def RegOk (s : Sys F) : Prop := ∀ l ∈ s.links, l.core.phase = .registering → l.core.connected = false

theorem RegOk.step {s : Sys F} (h : RegOk s) (e : Ev) : RegOk (step s e).1 := by
  intro l' hl' hp
  cases hnr : e.isReload with
  | true =>
    -- a reload: retained links keep their record, fresh links are `new_registering` (not connected)
    cases e with
    | reload now addrs outs =>
      rcases mem_reload hl' with ⟨h1, -⟩ | ⟨id, a, -, -, rfl⟩
      · exact h l' h1 hp
      · rfl
    | _ => cases hnr
  | false =>
  obtain ⟨j, hj, hget⟩ := List.getElem_of_mem hl'
  have hlen := (Hk.step_link s e hnr).2.1
  have hj' : j < s.links.length := by omega
  obtain ⟨l'', h1, -, h2⟩ := phase_step s e hnr j s.links[j] (List.getElem?_eq_getElem hj')
  have : l'' = l' := by
    have := List.getElem?_eq_getElem hj
    rw [h1, hget] at this; exact Option.some.inj this
  subst this
  rcases h2 with ⟨a, b, -⟩ | ⟨-, ⟨now, b⟩, -⟩ | ⟨-, -, c⟩
  · rw [b]; exact h _ (List.getElem_mem hj') (a.1 hp)
  · rw [b] at hp; cases hp
  · exact c

theorem RegOk.run {s : Sys F} (h : RegOk s) (evs : List Ev) : RegOk (run s evs).1 := by
  induction evs generalizing s with
  | nil => exact h
  | cons e evs ih => exact ih (h.step e)

/-- No event of the run tears link `j` down. -/
def NoTear (j : Nat) : Sys F → List Ev → Prop
  | _, [] => True
  | s, e :: evs => ¬ TearsDown s e j ∧ NoTear j (step s e).1 evs

theorem run_cons_fst (s : Sys F) (e : Ev) (evs : List Ev) : (run s (e :: evs)).1 = (run (step s e).1 evs).1 := rfl

/-- `RegSince`, unfolded: either the link started registered and no event tore it down, or the history
splits as `pre ++ e :: post` where `e` is a REG3 on the link and nothing in `post` tears it down. -/
theorem regSince_iff (j : Nat) (s : Sys F) (evs : List Ev) (g : Prop) :
    RegSince j s evs g ↔
      ((g ∧ NoTear j s evs) ∨
       ∃ pre e post, evs = pre ++ e :: post ∧ Reg3On (run s pre).1 e j ∧ NoTear j (run s (pre ++ [e])).1 post) := by
  induction evs generalizing s g with
  | nil =>
    simp only [RegSince, NoTear, and_true]
    constructor
    · exact Or.inl
    · rintro (h | ⟨pre, e, post, h, -⟩)
      · exact h
      · cases pre <;> cases h
  | cons e evs ih =>
    simp only [RegSince, NoTear]
    rw [ih]
    constructor
    · rintro (⟨h1 | ⟨h1, h2⟩, h3⟩ | ⟨pre, e', post, h1, h2, h3⟩)
      · exact Or.inr ⟨[], e, evs, rfl, h1, h3⟩
      · exact Or.inl ⟨h1, h2, h3⟩
      · refine Or.inr ⟨e :: pre, e', post, by rw [h1]; rfl, ?_, ?_⟩
        · rw [run_cons_fst]; exact h2
        · rw [List.cons_append, run_cons_fst]; exact h3
    · rintro (⟨h1, h2, h3⟩ | ⟨pre, e', post, h1, h2, h3⟩)
      · exact Or.inl ⟨Or.inr ⟨h1, h2⟩, h3⟩
      · cases pre with
        | nil =>
          simp only [List.nil_append, List.cons.injEq] at h1
          obtain ⟨rfl, rfl⟩ := h1
          exact Or.inl ⟨Or.inl h2, h3⟩
        | cons e0 pre =>
          simp only [List.cons_append, List.cons.injEq] at h1
          obtain ⟨rfl, rfl⟩ := h1
          refine Or.inr ⟨pre, e', post, rfl, ?_, ?_⟩
          · rw [run_cons_fst] at h2; exact h2
          · rw [List.cons_append, run_cons_fst] at h3; exact h3

end Srtla.Sys

/-! # The property theorems (C04, shell level) -/
namespace Srtla.Props.C04
open Srtla Srtla.Sys Srtla.Link Srtla.Conn Srtla.Select

set_option linter.unusedSectionVars false

variable {F : Type} [Scalar F]

/-- **(a) The `hk` and `uplink` arms emit only control frames.**
* Every datagram a housekeeping tick puts on a socket goes to the conn id of a link and is either the
  38-byte extended keepalive (type 0x9000) of a CONNECTED, NOT TIMED OUT link, built from that link's
  accounting state at the tick, or the REG1 frame (type 0x9200 ++ session id) or the REG2 frame (type
  0x9201 ++ session id).
* An `uplink` event itself sends at most one datagram: the REG1 frame, on the socket the datagram came
  from, and only as the immediate answer to a REG_NGP (type 0x9211).  (`process_connection_events` sends
  nothing on uplinks.)
* `setCfg` / `crit` / `failNext` send nothing.
So no queued client datagram ever leaves in these arms: every frame is a function of the session id or of
one link's accounting fields (`C01_event_link`: in these events a queue is untouched or discarded).  A
registering or timed-out link therefore gets from them REG1/REG2 only, a stall-gated link keepalives
and REG frames only. -/
theorem C04_hk_uplink_emit_only_control (s : Sys F) (now : Nat) :
    (∀ x ∈ (step s (.hk now)).2.wire, x.1 ∈ ids s.links ∧
      ((x.2.length = 38 ∧ Codec.getPacketTypeS x.2 = some 0x9000 ∧
          ∃ l ∈ s.links, x = (l.core.connId, (l.keepalivePacket now).2) ∧ l.core.connected = true ∧
            l.isTimedOut now = false) ∨
       (x.2 = Codec.toBE16 0x9200 ++ s.reg.id ∧ Codec.getPacketTypeS x.2 = some 0x9200) ∨
       (x.2 = Codec.toBE16 0x9201 ++ s.reg.id ∧ Codec.getPacketTypeS x.2 = some 0x9201))) ∧
    (∀ cid data, (step s (.uplink now cid data)).2.wire.length ≤ 1 ∧
      ∀ x ∈ (step s (.uplink now cid data)).2.wire,
        x = (cid, Codec.toBE16 0x9200 ++ s.reg.id) ∧ Codec.getPacketTypeS data = some 0x9211 ∧
        cid ∈ ids s.links) ∧
    (∀ cfg d c, (step s (.setCfg cfg)).2.wire = [] ∧ (step s (.crit d)).2.wire = [] ∧
      (step s (.failNext c)).2.wire = []) := by
  refine ⟨fun x hx => ?_, fun cid data => uplink_wire_reg1 s cid data now, fun _ _ _ => ⟨rfl, rfl, rfl⟩⟩
  obtain ⟨h1, h2⟩ := hk_wire_ctl s now x hx
  refine ⟨h1, ?_⟩
  rcases h2 with ⟨l, hl, rfl, hc, hto⟩ | h | h
  · exact Or.inl ⟨(keepalivePacket_frame l now).1, (keepalivePacket_frame l now).2, l, hl, rfl, hc, hto⟩
  · exact Or.inr (Or.inl ⟨h, by rw [h]; exact Keepalive.reg1_type _⟩)
  · exact Or.inr (Or.inr ⟨h, by rw [h]; exact Keepalive.reg2_type _⟩)

/-- **(b) A copy enqueued on an ineligible link is a probe copy.**  Session established, client datagram
`pkt` at `now`; `l1` = link `i` in the state this call's selection pass left behind (what
`is_stall_gated()` / `is_timed_out(now)` answer when `forward_via_connection` / `send_stall_probes` run).
If anything is enqueued on link `i` while `l1` is not connected, or registering, or timed out, or
stall-gated, then link `i` is NOT the routing decision (the unique copy goes to another link `sel`), the
datagram is an SRT data packet, and `l1` is stall-gated AND connected with its 1-in-100 probe counter
firing: the copy is one of the sparse duplicate probes. -/
theorem C04_enqueue_on_ineligible_is_probe (s : Sys F) (pkt : List UInt8) (now i : Nat) (l1 : FLink F)
    (hreg : s.reg.hasConnected = true) (hl1 : (routedLinks s now)[i]? = some l1)
    (happ : appended s (.client now pkt) i ≠ [])
    (hin : l1.core.connected = false ∨ l1.core.phase = .registering ∨ l1.isTimedOut now = true ∨
      l1.stallGated = true) :
    (∃ sel, target s pkt now = some sel ∧ sel ≠ i) ∧ (Codec.getSrtSequenceNumberS pkt).isSome = true ∧
    l1.stallGated = true ∧ l1.core.connected = true ∧ l1.probeCounter + 1 ≥ 100 := by
  apply enqueue_ineligible s pkt now i l1 hreg hl1 happ
  rcases hin with h | h | h | h
  · exact Or.inl h
  · exact Or.inr (Or.inl (by simp [FLink.schedulable, h]))
  · exact Or.inr (Or.inr (Or.inl h))
  · exact Or.inr (Or.inr (Or.inr h))

/-- Consequences of (b), session established: a link that is not connected gets NOTHING enqueued; and in
every state in which registering links are not connected (`RegOk`: true of fresh links and preserved by
every event, `C04_registering_not_connected_run`) a registering link gets nothing enqueued either.  So
registering and disconnected (timed-out-and-reset) links carry no client data at all once the session is
established; a connected link that is timed out or stall-gated carries at most probe copies. -/
theorem C04_registering_gets_nothing (s : Sys F) (pkt : List UInt8) (now i : Nat) (l1 : FLink F)
    (hreg : s.reg.hasConnected = true) (hl1 : (routedLinks s now)[i]? = some l1) :
    (l1.core.connected = false → appended s (.client now pkt) i = []) ∧
    (RegOk s → l1.core.phase = .registering → appended s (.client now pkt) i = []) := by
  have h1 : l1.core.connected = false → appended s (.client now pkt) i = [] := by
    intro hc
    cases happ : appended s (.client now pkt) i with
    | nil => rfl
    | cons a t =>
      obtain ⟨-, -, -, h, -⟩ := C04_enqueue_on_ineligible_is_probe s pkt now i l1 hreg hl1
        (by rw [happ]; simp) (Or.inl hc)
      rw [hc] at h; cases h
  refine ⟨h1, fun hok hp => h1 ?_⟩
  have hlen : i < s.links.length := by
    have := (List.getElem?_eq_some_iff.1 hl1).1
    rw [routedLinks_length] at this; exact this
  obtain ⟨l1', r1, -, r3, -⟩ := routedLinks_getElem? s now i _ (List.getElem?_eq_getElem hlen)
  rw [hl1] at r1; cases r1
  rw [r3] at hp ⊢
  exact hok _ (List.getElem_mem hlen) hp

/-- Before the session is established the shell routes with `select_pre_registration_connection`; its
guarantee: the chosen link exists and is NOT TIMED OUT (it may be registering — that is the point of
pre-registration forwarding), and no probe copy is made (`C01_exactly_one_unique_copy`). -/
theorem C04_pre_registration_not_timed_out (s : Sys F) (pkt : List UInt8) (now i : Nat)
    (hreg : s.reg.hasConnected = false) (h : target s pkt now = some i) :
    ∃ l, s.links[i]? = some l ∧ l.isTimedOut now = false := by
  have : target s pkt now = selectPreRegistration s.links s.lastSelected now := by unfold target; simp [hreg]
  rw [this] at h
  exact selectPreRegistration_not_timed_out _ _ _ _ h

/-- **(c) One event, one link: registration status.**  For every event and every link `j` (`l` before, `l'`
after): either registering-ness and the connected flag are unchanged and the event is not a REG3 on this
link; or the event is a REG3 (type 0x9202) on this link's socket and the link is now `warming 0 now`,
connected; or the event tore the link down (`TearsDown`: failed threshold send + `mark_for_recovery` in a
`client` event, REG_ERR 0x9210 on this link's socket, housekeeping reconnect of the timed-out link) and the
link is now registering and not connected.  In particular `phase` leaves `registering` ONLY by a REG3 on
that link and enters it ONLY by a tear-down.
`hnr`: over events / runs that keep the link set (no `Ev.reload`); a reload keeps the whole record of every retained link
(`Props/SysReload.lean: reload_frame`) and the theorem applies again from the state after it. -/
theorem C04_registration_status_step (s : Sys F) (e : Ev) (hnr : e.isReload = false) (j : Nat) (l : FLink F)
    (hl : s.links[j]? = some l) :
    ∃ l', (step s e).1.links[j]? = some l' ∧ l'.core.connId = l.core.connId ∧
      (((l'.core.phase = .registering ↔ l.core.phase = .registering) ∧ l'.core.connected = l.core.connected ∧
          ¬ Reg3On s e j) ∨
       (Reg3On s e j ∧ (∃ now, l'.core.phase = .warming 0 now) ∧ l'.core.connected = true) ∨
       (TearsDown s e j ∧ l'.core.phase = .registering ∧ l'.core.connected = false)) :=
  phase_step s e hnr j l hl

/-- **(c) History-level reading of "has completed registration since its last reset".**  Along ANY run,
link `j` is registered at the end (`phase ≠ registering`, what eligibility tests) IFF
* it was registered at the start and NO event of the run tore it down, or
* the run splits as `pre ++ e :: post` where `e` delivers a REG3 (0x9202) on link `j`'s socket and NO event
  of `post` tears link `j` down
— i.e. iff a REG3 was processed on it after its last tear-down (`mark_for_recovery` after a failed send,
REG_ERR, `reset_for_reconnect`).  (`NoTear`, `TearsDown`, `Reg3On` are evaluated on the states the run
passes through.)
`hnr`: over events / runs that keep the link set (no `Ev.reload`); a reload keeps the whole record of every retained link
(`Props/SysReload.lean: reload_frame`) and the theorem applies again from the state after it. -/
theorem C04_registered_iff_reg3_since_teardown (s : Sys F) (evs : List Ev) (hnr : NoReload evs) (j : Nat)
    (l0 lN : FLink F)
    (h0 : s.links[j]? = some l0) (hN : (run s evs).1.links[j]? = some lN) :
    lN.core.phase ≠ .registering ↔
      ((l0.core.phase ≠ .registering ∧ NoTear j s evs) ∨
       ∃ pre e post, evs = pre ++ e :: post ∧ Reg3On (run s pre).1 e j ∧
         NoTear j (run s (pre ++ [e])).1 post) := by
  rw [registered_iff_regSince s evs hnr j l0 lN h0 hN, regSince_iff]

/-- The vocabulary of (c), spelled out. -/
theorem C04_history_vocabulary (s : Sys F) (e : Ev) (evs : List Ev) (j : Nat) :
    (Reg3On s e j ↔ ∃ now cid data, e = .uplink now cid data ∧
      s.links.findIdx? (·.core.connId == cid) = some j ∧ Codec.getPacketTypeS data = some 0x9202) ∧
    (TearsDown s e j ↔ ∃ l l', s.links[j]? = some l ∧ (step s e).1.links[j]? = some l' ∧
      ((∃ now pkt, e = .client now pkt ∧
          (step s e).1.failNext.count l.core.connId < s.failNext.count l.core.connId ∧
          l'.core.phase = .registering ∧ l'.core.connected = false) ∨
       (∃ now cid data, e = .uplink now cid data ∧ s.links.findIdx? (·.core.connId == cid) = some j ∧
          Codec.getPacketTypeS data = some 0x9210 ∧ l' = l.markForRecovery) ∨
       (∃ now, e = .hk now ∧ l.isTimedOut now = true ∧ l.shouldAttemptReconnect now = true ∧
          l'.lastAttemptMs = now ∧ l'.core.phase = .registering ∧ l'.core.connected = false))) ∧
    (NoTear j s [] ↔ True) ∧
    (NoTear j s (e :: evs) ↔ (¬ TearsDown s e j ∧ NoTear j (step s e).1 evs)) :=
  ⟨Iff.rfl, Iff.rfl, Iff.rfl, Iff.rfl⟩

/-- **A registering link is not connected** — in every state reachable from one where that holds (fresh
links: `new_registering` is registering and not connected).  Every event, `Ev.reload` included: a retained link keeps
its record, an added link is `new_registering`. -/
theorem C04_registering_not_connected_run (s : Sys F) (evs : List Ev)
    (h : ∀ l ∈ s.links, l.core.phase = .registering → l.core.connected = false) :
    ∀ l ∈ (run s evs).1.links, l.core.phase = .registering → l.core.connected = false :=
  RegOk.run h evs

/-! ## Non-vacuity -/

section examples

/-- Link 0 (conn id 1): live, connected, heard 10 ms before 5000.  Link 1 (conn id 3): fresh, registering. -/
def exA : FLink Int :=
  { (@FLink.newRegistering Int fixScalar 1 0) with
    core := { connId := 1, connected := true, phase := .live, lastReceived := some 4990 }, established := 1 }
def exB : FLink Int := @FLink.newRegistering Int fixScalar 3 0
def exShellS : Sys Int := { links := [exA, exB], reg := { (Reg.Reg.new [7, 7] []) with hasConnected := true } }

/-- (a): a tick at 5000 sends the 38-byte keepalive on conn id 1 only; a tick at 20000 (both links silent
for 15 s) reconnects both and sends REG2 = 0x9201 ++ id on both; a REG_NGP on conn id 3 is answered with
REG1 = 0x9200 ++ id on conn id 3. -/
example :
    (@step Int fixScalar exShellS (.hk 5000)).2.wire.map (fun x => (x.1, x.2.length, Codec.getPacketTypeS x.2)) =
      [(1, 38, some 0x9000)] ∧
    (@step Int fixScalar exShellS (.hk 20000)).2.wire = [(1, [0x92, 0x01, 7, 7]), (3, [0x92, 0x01, 7, 7])] ∧
    (@step Int fixScalar exShellS (.uplink 5000 3 [0x92, 0x11])).2.wire = [(3, [0x92, 0x00, 7, 7])] := by
  decide +kernel

/-- (c): REG3 on conn id 3 registers link 1 (`Reg3On`); a later tick keeps it; a REG_ERR on conn id 3 tears it
down (`TearsDown`); the tick at 20000 tears down link 0 (timed out, reconnect).  `RegOk` holds of the
example state. -/
example :
    ((@run Int fixScalar exShellS [.uplink 5000 3 [0x92, 0x02], .hk 5001]).1.links.map
        fun l => (l.core.connected, decide (l.core.phase = .registering))) = [(true, false), (true, false)] ∧
    ((@run Int fixScalar exShellS [.uplink 5000 3 [0x92, 0x02], .hk 5001, .uplink 5002 3 [0x92, 0x10]]).1.links.map
        fun l => (l.core.connected, decide (l.core.phase = .registering))) = [(true, false), (false, true)] ∧
    ((@step Int fixScalar exShellS (.hk 20000)).1.links.map
        fun l => (l.core.connected, decide (l.core.phase = .registering), l.lastAttemptMs)) =
      [(false, true, 20000), (false, true, 20000)] ∧
    exShellS.links.findIdx? (·.core.connId == 3) = some 1 ∧
    (∀ l ∈ exShellS.links, l.core.phase = .registering → l.core.connected = false) := by
  refine ⟨by decide +kernel, by decide +kernel, by decide +kernel, by decide +kernel, ?_⟩
  intro l hl
  simp only [exShellS, List.mem_cons, List.not_mem_nil, or_false] at hl
  rcases hl with rfl | rfl
  · intro h; simp [exA] at h
  · intro _; rfl

/-- Instances of the two history predicates on the example. -/
example : @Reg3On Int exShellS (.uplink 5000 3 [0x92, 0x02]) 1 := ⟨5000, 3, [0x92, 0x02], rfl, by decide +kernel, rfl⟩

example : @TearsDown Int fixScalar exShellS (.hk 20000) 0 :=
  ⟨exA, _, rfl, rfl, Or.inr (Or.inr ⟨20000, rfl, by decide +kernel, by decide +kernel, by decide +kernel,
    by decide +kernel, by decide +kernel⟩)⟩

end examples

end Srtla.Props.C04
