import Srtla.Model.Codec
/-! Helper lemmas for the codec model (core Lean only). -/
namespace Srtla.Codec
open Srtla.Gen

@[simp] theorem Chk.bind_ok {α β : Type} (a : α) (f : α → Chk β) : (Chk.ok a >>= f) = f a := rfl
@[simp] theorem Chk.bind_panic {α β : Type} (f : α → Chk β) : ((Chk.panic : Chk α) >>= f) = Chk.panic := rfl
@[simp] theorem Chk.pure_eq {α : Type} (a : α) : (pure a : Chk α) = Chk.ok a := rfl

theorem rd_ok (b : Bytes) (i : Nat) (h : i < b.length) : rd b i = .ok b[i] := by
  simp [rd, List.getElem?_eq_getElem h]

theorem rd16_ok (b : Bytes) (i : Nat) (h : i + 1 < b.length) :
    rd16 b i = .ok (be16 b[i] b[i+1]) := by
  simp [rd16, rd_ok b i (by omega), rd_ok b (i+1) h]

theorem rd32_ok (b : Bytes) (i : Nat) (h : i + 3 < b.length) :
    rd32 b i = .ok (be32 b[i] b[i+1] b[i+2] b[i+3]) := by
  simp [rd32, rd_ok b i (by omega), rd_ok b (i+1) (by omega), rd_ok b (i+2) (by omega), rd_ok b (i+3) h]

theorem rd32_isOk (b : Bytes) (i : Nat) (h : i + 3 < b.length) : ∃ w, rd32 b i = .ok w :=
  ⟨_, rd32_ok b i h⟩

theorem be32_lt (a b c d : UInt8) : be32 a b c d < 4294967296 := by
  have := a.toNat_lt; have := b.toNat_lt; have := c.toNat_lt; have := d.toNat_lt
  simp [be32]; omega

end Srtla.Codec

namespace Srtla.Codec
open Srtla.Gen

theorem getPacketType_eq (b : Bytes) : getPacketType b = .ok (getPacketTypeS b) := by
  match b with
  | [] => simp [getPacketType, getPacketTypeS]
  | [_] => simp [getPacketType, getPacketTypeS]
  | a :: c :: rest =>
    simp [getPacketType, getPacketTypeS, rd16, rd]

theorem getSrtSequenceNumber_eq (b : Bytes) :
    getSrtSequenceNumber b = .ok (getSrtSequenceNumberS b) := by
  match b with
  | [] => simp [getSrtSequenceNumber, getSrtSequenceNumberS]
  | [_] => simp [getSrtSequenceNumber, getSrtSequenceNumberS]
  | [_, _] => simp [getSrtSequenceNumber, getSrtSequenceNumberS]
  | [_, _, _] => simp [getSrtSequenceNumber, getSrtSequenceNumberS]
  | a :: c :: d :: e :: rest =>
    simp [getSrtSequenceNumber, getSrtSequenceNumberS, rd32, rd]
    omega

theorem isSrtDataRetransmit_eq (b : Bytes) :
    isSrtDataRetransmit b = .ok (isSrtDataRetransmitS b) := by
  match b with
  | [] => simp [isSrtDataRetransmit, isSrtDataRetransmitS]
  | [_] => simp [isSrtDataRetransmit, isSrtDataRetransmitS]
  | [_, _] => simp [isSrtDataRetransmit, isSrtDataRetransmitS]
  | [_, _, _] => simp [isSrtDataRetransmit, isSrtDataRetransmitS]
  | [_, _, _, _] => simp [isSrtDataRetransmit, isSrtDataRetransmitS]
  | [_, _, _, _, _] => simp [isSrtDataRetransmit, isSrtDataRetransmitS]
  | [_, _, _, _, _, _] => simp [isSrtDataRetransmit, isSrtDataRetransmitS]
  | [_, _, _, _, _, _, _] => simp [isSrtDataRetransmit, isSrtDataRetransmitS]
  | b0 :: _ :: _ :: _ :: b4 :: _ :: _ :: _ :: rest =>
    simp [isSrtDataRetransmit, isSrtDataRetransmitS, rd]
    split <;> simp_all

theorem tsLoop_ok (b : Bytes) (n i ts : Nat) (h : 2 + i + n ≤ b.length) :
    ∃ r, tsLoop b n i ts = .ok r := by
  induction n generalizing i ts with
  | zero => exact ⟨ts, rfl⟩
  | succ n ih =>
    simp only [tsLoop, rd_ok b (2 + i) (by omega), Chk.bind_ok]
    exact ih (i + 1) _ (by omega)

end Srtla.Codec

namespace Srtla.Codec
open Srtla.Gen

theorem expandLoop_length (f seq e : Nat) (out : List Nat) :
    (expandLoop f seq e out).length ≤ max out.length 1000 ∧
    out.length ≤ (expandLoop f seq e out).length := by
  induction f generalizing seq out with
  | zero => simp [expandLoop]; omega
  | succ f ih =>
    unfold expandLoop
    split
    · rename_i h
      have := ih ((seq + 1) % 4294967296) (out ++ [seq])
      simp only [Lit.SRT_NAK_MAX_EXPAND_eq, List.length_append, List.length_cons, List.length_nil] at this h ⊢
      omega
    · simp; omega

end Srtla.Codec

namespace Srtla.Codec
open Srtla.Gen

/-- `nakLoop` never indexes out of bounds, and its output obeys the length bound. -/
theorem nakLoop_ok (b : Bytes) (f i : Nat) (out : List Nat)
    (hi : i ≤ b.length) (hi4 : 4 ≤ i)
    (hout : out.length ≤ 1000 + (i - 4) / 4) :
    ∃ r, nakLoop b f i out = .ok r ∧ r.length ≤ 1000 + (b.length - 4) / 4 := by
  induction f generalizing i out with
  | zero => exact ⟨out, rfl, by omega⟩
  | succ f ih =>
    unfold nakLoop
    split
    · rename_i h
      obtain ⟨w, hw⟩ := rd32_isOk b i h
      simp only [hw, Chk.bind_ok]
      split
      · split
        · exact ⟨out, rfl, by omega⟩
        · rename_i h2
          obtain ⟨e, he⟩ := rd32_isOk b (i + 4) (by omega)
          simp only [he, Chk.bind_ok]
          have hl := (expandLoop_length Lit.SRT_NAK_MAX_EXPAND (w - 2147483648) e out).1
          apply ih
          · omega
          · omega
          · omega
      · apply ih
        · omega
        · omega
        · simp only [List.length_append, List.length_cons, List.length_nil]; omega
    · exact ⟨out, rfl, by omega⟩

theorem ackLoop_ok (b : Bytes) (f i : Nat) (out : List Nat) :
    ∃ r, ackLoop b f i out = .ok r := by
  induction f generalizing i out with
  | zero => exact ⟨out, rfl⟩
  | succ f ih =>
    unfold ackLoop
    split
    · rename_i h
      obtain ⟨w, hw⟩ := rd32_isOk b i h
      simp only [hw, Chk.bind_ok]
      exact ih _ _
    · exact ⟨out, rfl⟩

end Srtla.Codec

namespace Srtla.Codec
open Srtla.Gen

theorem be32_toBE32 (n : Nat) (h : n < 4294967296) :
    be32 (UInt8.ofNat (n / 16777216 % 256)) (UInt8.ofNat (n / 65536 % 256))
         (UInt8.ofNat (n / 256 % 256)) (UInt8.ofNat (n % 256)) = n := by
  simp only [be32, UInt8.toNat_ofNat']
  omega

theorem be16_toBE16 (n : Nat) (h : n < 65536) :
    be16 (UInt8.ofNat (n / 256 % 256)) (UInt8.ofNat (n % 256)) = n := by
  simp only [be16, UInt8.toNat_ofNat']
  omega

theorem u32ToI32_i32ToU32 (x : Int) (h1 : -2147483648 ≤ x) (h2 : x < 2147483648) :
    u32ToI32 (i32ToU32 x) = x := by
  unfold u32ToI32 i32ToU32
  split <;> omega

theorem i32ToU32_lt (x : Int) : i32ToU32 x < 4294967296 := by
  unfold i32ToU32; omega

end Srtla.Codec

namespace Srtla.Codec
open Srtla.Gen

theorem rd_append_right (p q : Bytes) (j : Nat) : rd (p ++ q) (p.length + j) = rd q j := by
  simp [rd, List.getElem?_append_right]

theorem rd32_append_right (p q : Bytes) (i : Nat) (h : p.length = i) :
    rd32 (p ++ q) i = rd32 q 0 := by
  subst h
  have h0 := rd_append_right p q 0
  have h1 := rd_append_right p q 1
  have h2 := rd_append_right p q 2
  have h3 := rd_append_right p q 3
  simp only [Nat.add_zero] at h0
  simp only [rd32, h0, h1, h2, h3, Nat.zero_add, Nat.add_assoc]

theorem rd16_append_right (p q : Bytes) (i : Nat) (h : p.length = i) :
    rd16 (p ++ q) i = rd16 q 0 := by
  subst h
  have h0 := rd_append_right p q 0
  have h1 := rd_append_right p q 1
  simp only [Nat.add_zero] at h0
  simp only [rd16, h0, h1, Nat.zero_add]

theorem rd32_toBE32 (n : Nat) (rest : Bytes) (h : n < 4294967296) :
    rd32 (toBE32 n ++ rest) 0 = .ok n := by
  simp [rd32, rd, toBE32, be32_toBE32 n h]

theorem rd16_toBE16 (n : Nat) (rest : Bytes) (h : n < 65536) :
    rd16 (toBE16 n ++ rest) 0 = .ok n := by
  simp [rd16, rd, toBE16, be16_toBE16 n h]

/-- Reading a 32-bit field that was written right after a prefix `p`. -/
theorem rd32_field (p rest : Bytes) (n i : Nat) (hp : p.length = i) (hn : n < 4294967296) :
    rd32 (p ++ (toBE32 n ++ rest)) i = .ok n := by
  rw [rd32_append_right p _ i hp, rd32_toBE32 n rest hn]

theorem rd16_field (p rest : Bytes) (n i : Nat) (hp : p.length = i) (hn : n < 65536) :
    rd16 (p ++ (toBE16 n ++ rest)) i = .ok n := by
  rw [rd16_append_right p _ i hp, rd16_toBE16 n rest hn]

@[simp] theorem toBE16_length (n : Nat) : (toBE16 n).length = 2 := rfl
@[simp] theorem toBE32_length (n : Nat) : (toBE32 n).length = 4 := rfl
@[simp] theorem toBE64_length (n : Nat) : (toBE64 n).length = 8 := rfl

theorem tsLoop_toBE64 (now : Nat) (rest : Bytes) (t : Bytes) (ht : t.length = 2)
    (h : now < 18446744073709551616) :
    tsLoop (t ++ (toBE64 now ++ rest)) 8 0 0 = .ok now := by
  match t, ht with
  | [a, b], _ =>
    simp [tsLoop, rd, toBE64, toBE32, UInt8.toNat_ofNat']
    omega

end Srtla.Codec

namespace Srtla.Codec
open Srtla.Gen

theorem flatten_toBE32_length (acks : List Nat) : ((acks.map toBE32).flatten).length = 4 * acks.length := by
  induction acks with
  | nil => rfl
  | cons a as ih => simp [ih]; omega

theorem ackLoop_roundtrip (acks : List Nat) (p : Bytes) (f i : Nat) (out : List Nat)
    (hp : p.length = i) (hf : acks.length + 1 ≤ f) (ha : ∀ a ∈ acks, a < 4294967296) :
    ackLoop (p ++ (acks.map toBE32).flatten) f i out = .ok (out ++ acks) := by
  induction acks generalizing p f i out with
  | nil =>
    match f, hf with
    | f + 1, _ =>
      unfold ackLoop
      simp [hp]
      omega
  | cons a as ih =>
    match f, hf with
    | f + 1, hf =>
      unfold ackLoop
      have hlen : i + 3 < (p ++ ((a :: as).map toBE32).flatten).length := by
        simp [hp]; omega
      rw [if_pos hlen]
      have hr : rd32 (p ++ ((a :: as).map toBE32).flatten) i = .ok a := by
        simp only [List.map_cons, List.flatten_cons]
        exact rd32_field p _ a i hp (ha a (by simp))
      simp only [hr, Chk.bind_ok]
      have e : p ++ ((a :: as).map toBE32).flatten = (p ++ toBE32 a) ++ (as.map toBE32).flatten := by
        simp [List.append_assoc]
      rw [e, ih (p ++ toBE32 a) f (i + 4) (out ++ [a]) (by simp [hp]) (by simp at hf; omega)
        (fun x hx => ha x (by simp [hx]))]
      simp

end Srtla.Codec
