import Srtla.Model.Codec
/-! Helper lemmas for the codec model (core Lean only). -/
namespace Srtla.Codec
open Srtla.Gen

@[simp] theorem Chk.bind_ok {α β : Type} (a : α) (f : α → Chk β) : (Chk.ok a >>= f) = f a := rfl
@[simp] theorem Chk.bind_panic {α β : Type} (f : α → Chk β) : ((Chk.panic : Chk α) >>= f) = Chk.panic := rfl
@[simp] theorem Chk.pure_eq {α : Type} (a : α) : (pure a : Chk α) = Chk.ok a := rfl

theorem rd_ok (b : Bytes) (i : Nat) (h : i < b.length) : rd b i = .ok b[i] := by
  simp [rd, List.getElem?_eq_getElem h]

theorem rd16_ok (b : Bytes) (i : Nat) (h : i + 1 < b.length) :
    rd16 b i = .ok (be16 b[i] b[i+1]) := by
  simp [rd16, rd_ok b i (by omega), rd_ok b (i+1) h]

theorem rd32_ok (b : Bytes) (i : Nat) (h : i + 3 < b.length) :
    rd32 b i = .ok (be32 b[i] b[i+1] b[i+2] b[i+3]) := by
  simp [rd32, rd_ok b i (by omega), rd_ok b (i+1) (by omega), rd_ok b (i+2) (by omega), rd_ok b (i+3) h]

theorem rd32_isOk (b : Bytes) (i : Nat) (h : i + 3 < b.length) : ∃ w, rd32 b i = .ok w :=
  ⟨_, rd32_ok b i h⟩

theorem be32_lt (a b c d : UInt8) : be32 a b c d < 4294967296 := by
  have := a.toNat_lt; have := b.toNat_lt; have := c.toNat_lt; have := d.toNat_lt
  simp [be32]; omega

end Srtla.Codec

namespace Srtla.Codec
open Srtla.Gen

theorem getPacketType_eq (b : Bytes) : getPacketType b = .ok (getPacketTypeS b) := by
  match b with
  | [] => simp [getPacketType, getPacketTypeS]
  | [_] => simp [getPacketType, getPacketTypeS]
  | a :: c :: rest =>
    simp [getPacketType, getPacketTypeS, rd16, rd]

theorem getSrtSequenceNumber_eq (b : Bytes) :
    getSrtSequenceNumber b = .ok (getSrtSequenceNumberS b) := by
  match b with
  | [] => simp [getSrtSequenceNumber, getSrtSequenceNumberS]
  | [_] => simp [getSrtSequenceNumber, getSrtSequenceNumberS]
  | [_, _] => simp [getSrtSequenceNumber, getSrtSequenceNumberS]
  | [_, _, _] => simp [getSrtSequenceNumber, getSrtSequenceNumberS]
  | a :: c :: d :: e :: rest =>
    simp [getSrtSequenceNumber, getSrtSequenceNumberS, rd32, rd]
    omega

theorem isSrtDataRetransmit_eq (b : Bytes) :
    isSrtDataRetransmit b = .ok (isSrtDataRetransmitS b) := by
  match b with
  | [] => simp [isSrtDataRetransmit, isSrtDataRetransmitS]
  | [_] => simp [isSrtDataRetransmit, isSrtDataRetransmitS]
  | [_, _] => simp [isSrtDataRetransmit, isSrtDataRetransmitS]
  | [_, _, _] => simp [isSrtDataRetransmit, isSrtDataRetransmitS]
  | [_, _, _, _] => simp [isSrtDataRetransmit, isSrtDataRetransmitS]
  | [_, _, _, _, _] => simp [isSrtDataRetransmit, isSrtDataRetransmitS]
  | [_, _, _, _, _, _] => simp [isSrtDataRetransmit, isSrtDataRetransmitS]
  | [_, _, _, _, _, _, _] => simp [isSrtDataRetransmit, isSrtDataRetransmitS]
  | b0 :: _ :: _ :: _ :: b4 :: _ :: _ :: _ :: rest =>
    simp [isSrtDataRetransmit, isSrtDataRetransmitS, rd]
    split <;> simp_all

theorem tsLoop_ok (b : Bytes) (n i ts : Nat) (h : 2 + i + n ≤ b.length) :
    ∃ r, tsLoop b n i ts = .ok r := by
  induction n generalizing i ts with
  | zero => exact ⟨ts, rfl⟩
  | succ n ih =>
    simp only [tsLoop, rd_ok b (2 + i) (by omega), Chk.bind_ok]
    exact ih (i + 1) _ (by omega)

end Srtla.Codec

namespace Srtla.Codec
open Srtla.Gen

theorem expandLoop_length (f seq e : Nat) (out : List Nat) :
    (expandLoop f seq e out).length ≤ max out.length 1000 ∧
    out.length ≤ (expandLoop f seq e out).length := by
  induction f generalizing seq out with
  | zero => simp [expandLoop]; omega
  | succ f ih =>
    unfold expandLoop
    split
    · rename_i h
      have := ih ((seq + 1) % 4294967296) (out ++ [seq])
      simp only [Lit.SRT_NAK_MAX_EXPAND_eq, List.length_append, List.length_cons, List.length_nil] at this h ⊢
      omega
    · simp; omega

end Srtla.Codec

namespace Srtla.Codec
open Srtla.Gen

/-- `nakLoop` never indexes out of bounds, and its output obeys the length bound. -/
theorem nakLoop_ok (b : Bytes) (f i : Nat) (out : List Nat)
    (hi : i ≤ b.length) (hi4 : 4 ≤ i)
    (hout : out.length ≤ 1000 + (i - 4) / 4) :
    ∃ r, nakLoop b f i out = .ok r ∧ r.length ≤ 1000 + (b.length - 4) / 4 := by
  induction f generalizing i out with
  | zero => exact ⟨out, rfl, by omega⟩
  | succ f ih =>
    unfold nakLoop
    split
    · rename_i h
      obtain ⟨w, hw⟩ := rd32_isOk b i h
      simp only [hw, Chk.bind_ok]
      split
      · split
        · exact ⟨out, rfl, by omega⟩
        · rename_i h2
          obtain ⟨e, he⟩ := rd32_isOk b (i + 4) (by omega)
          simp only [he, Chk.bind_ok]
          have hl := (expandLoop_length Lit.SRT_NAK_MAX_EXPAND (w - 2147483648) e out).1
          apply ih
          · omega
          · omega
          · omega
      · apply ih
        · omega
        · omega
        · simp only [List.length_append, List.length_cons, List.length_nil]; omega
    · exact ⟨out, rfl, by omega⟩

theorem ackLoop_ok (b : Bytes) (f i : Nat) (out : List Nat) :
    ∃ r, ackLoop b f i out = .ok r := by
  induction f generalizing i out with
  | zero => exact ⟨out, rfl⟩
  | succ f ih =>
    unfold ackLoop
    split
    · rename_i h
      obtain ⟨w, hw⟩ := rd32_isOk b i h
      simp only [hw, Chk.bind_ok]
      exact ih _ _
    · exact ⟨out, rfl⟩

end Srtla.Codec

namespace Srtla.Codec
open Srtla.Gen

theorem be32_toBE32 (n : Nat) (h : n < 4294967296) :
    be32 (UInt8.ofNat (n / 16777216 % 256)) (UInt8.ofNat (n / 65536 % 256))
         (UInt8.ofNat (n / 256 % 256)) (UInt8.ofNat (n % 256)) = n := by
  simp only [be32, UInt8.toNat_ofNat']
  omega

theorem be16_toBE16 (n : Nat) (h : n < 65536) :
    be16 (UInt8.ofNat (n / 256 % 256)) (UInt8.ofNat (n % 256)) = n := by
  simp only [be16, UInt8.toNat_ofNat']
  omega

theorem u32ToI32_i32ToU32 (x : Int) (h1 : -2147483648 ≤ x) (h2 : x < 2147483648) :
    u32ToI32 (i32ToU32 x) = x := by
  unfold u32ToI32 i32ToU32
  split <;> omega

theorem i32ToU32_lt (x : Int) : i32ToU32 x < 4294967296 := by
  unfold i32ToU32; omega

end Srtla.Codec

namespace Srtla.Codec
open Srtla.Gen

theorem rd_append_right (p q : Bytes) (j : Nat) : rd (p ++ q) (p.length + j) = rd q j := by
  simp [rd, List.getElem?_append_right]

theorem rd32_append_right (p q : Bytes) (i : Nat) (h : p.length = i) :
    rd32 (p ++ q) i = rd32 q 0 := by
  subst h
  have h0 := rd_append_right p q 0
  have h1 := rd_append_right p q 1
  have h2 := rd_append_right p q 2
  have h3 := rd_append_right p q 3
  simp only [Nat.add_zero] at h0
  simp only [rd32, h0, h1, h2, h3, Nat.zero_add, Nat.add_assoc]

theorem rd16_append_right (p q : Bytes) (i : Nat) (h : p.length = i) :
    rd16 (p ++ q) i = rd16 q 0 := by
  subst h
  have h0 := rd_append_right p q 0
  have h1 := rd_append_right p q 1
  simp only [Nat.add_zero] at h0
  simp only [rd16, h0, h1, Nat.zero_add]

theorem rd32_toBE32 (n : Nat) (rest : Bytes) (h : n < 4294967296) :
    rd32 (toBE32 n ++ rest) 0 = .ok n := by
  simp [rd32, rd, toBE32, be32_toBE32 n h]

theorem rd16_toBE16 (n : Nat) (rest : Bytes) (h : n < 65536) :
    rd16 (toBE16 n ++ rest) 0 = .ok n := by
  simp [rd16, rd, toBE16, be16_toBE16 n h]

/-- Reading a 32-bit field that was written right after a prefix `p`. -/
theorem rd32_field (p rest : Bytes) (n i : Nat) (hp : p.length = i) (hn : n < 4294967296) :
    rd32 (p ++ (toBE32 n ++ rest)) i = .ok n := by
  rw [rd32_append_right p _ i hp, rd32_toBE32 n rest hn]

theorem rd16_field (p rest : Bytes) (n i : Nat) (hp : p.length = i) (hn : n < 65536) :
    rd16 (p ++ (toBE16 n ++ rest)) i = .ok n := by
  rw [rd16_append_right p _ i hp, rd16_toBE16 n rest hn]

@[simp] theorem toBE16_length (n : Nat) : (toBE16 n).length = 2 := rfl
@[simp] theorem toBE32_length (n : Nat) : (toBE32 n).length = 4 := rfl
@[simp] theorem toBE64_length (n : Nat) : (toBE64 n).length = 8 := rfl

theorem tsLoop_toBE64 (now : Nat) (rest : Bytes) (t : Bytes) (ht : t.length = 2)
    (h : now < 18446744073709551616) :
    tsLoop (t ++ (toBE64 now ++ rest)) 8 0 0 = .ok now := by
  match t, ht with
  | [a, b], _ =>
    simp [tsLoop, rd, toBE64, toBE32, UInt8.toNat_ofNat']
    omega

end Srtla.Codec

namespace Srtla.Codec
open Srtla.Gen

theorem flatten_toBE32_length (acks : List Nat) : ((acks.map toBE32).flatten).length = 4 * acks.length := by
  induction acks with
  | nil => rfl
  | cons a as ih => simp [ih]; omega

theorem ackLoop_roundtrip (acks : List Nat) (p : Bytes) (f i : Nat) (out : List Nat)
    (hp : p.length = i) (hf : acks.length + 1 ≤ f) (ha : ∀ a ∈ acks, a < 4294967296) :
    ackLoop (p ++ (acks.map toBE32).flatten) f i out = .ok (out ++ acks) := by
  induction acks generalizing p f i out with
  | nil =>
    match f, hf with
    | f + 1, _ =>
      unfold ackLoop
      simp [hp]
      omega
  | cons a as ih =>
    match f, hf with
    | f + 1, hf =>
      unfold ackLoop
      have hlen : i + 3 < (p ++ ((a :: as).map toBE32).flatten).length := by
        simp [hp]; omega
      rw [if_pos hlen]
      have hr : rd32 (p ++ ((a :: as).map toBE32).flatten) i = .ok a := by
        simp only [List.map_cons, List.flatten_cons]
        exact rd32_field p _ a i hp (ha a (by simp))
      simp only [hr, Chk.bind_ok]
      have e : p ++ ((a :: as).map toBE32).flatten = (p ++ toBE32 a) ++ (as.map toBE32).flatten := by
        simp [List.append_assoc]
      rw [e, ih (p ++ toBE32 a) f (i + 4) (out ++ [a]) (by simp [hp]) (by simp at hf; omega)
        (fun x hx => ha x (by simp [hx]))]
      simp

end Srtla.Codec

namespace Srtla.Codec
open Srtla.Gen

/-! ## Round 2: decode-side specifications (word view, NAK content, fuel sufficiency)

`wordsOf`, `nakRange`, `nakWords` are SPECIFICATIONS: plain structural recursion over the byte
string / the word list, no fuel, no index arithmetic.  `nakLoop_spec` / `ackLoop_spec` /
`expandLoop_spec` show the fuelled, index-driven loops of `Model/Codec.lean` compute exactly them
whenever the fuel is at least the number of remaining words (in particular for the fuel
`b.length` the model passes), so no loop is ever stopped by its fuel. -/

/-- Word view: the complete big-endian 32-bit words of a byte string, in order; a trailing
fragment of 1–3 bytes is ignored. -/
def wordsOf : Bytes → List Nat
  | a :: b :: c :: d :: rest => be32 a b c d :: wordsOf rest
  | _ => []

/-- One range entry `lo ..= hi`, given that `have_` entries were already produced: the numbers
`lo, lo+1, …, hi` in order, cut off so that the whole output never exceeds 1000 entries. -/
def nakRange (lo hi have_ : Nat) : List Nat := (List.range' lo (hi + 1 - lo)).take (1000 - have_)

/-- NAK payload content over the word view: a word with clear top bit is one lost sequence number;
a word with the top bit set opens a range `w & 0x7fffffff ..= next word`; a range marker that is the
last complete word (truncated range) is dropped together with everything after it. -/
def nakWords : List Nat → List Nat → List Nat
  | [], out => out
  | [w], out => if w < 2147483648 then out ++ [w] else out
  | w :: e :: ws, out =>
    if w < 2147483648 then nakWords (e :: ws) (out ++ [w])
    else nakWords ws (out ++ nakRange (w &&& 0x7fffffff) e out.length)

theorem wordsOf_short (b : Bytes) (h : b.length < 4) : wordsOf b = [] := by
  match b, h with
  | [], _ => rfl
  | [_], _ => rfl
  | [_, _], _ => rfl
  | [_, _, _], _ => rfl

theorem drop_four (b : Bytes) (i : Nat) (h : i + 3 < b.length) :
    b.drop i = b[i] :: b[i+1] :: b[i+2] :: b[i+3] :: b.drop (i + 4) := by
  rw [List.drop_eq_getElem_cons (by omega : i < b.length),
      List.drop_eq_getElem_cons (by omega : i + 1 < b.length),
      List.drop_eq_getElem_cons (by omega : i + 2 < b.length),
      List.drop_eq_getElem_cons (by omega : i + 3 < b.length)]

theorem wordsOf_drop (b : Bytes) (i : Nat) (h : i + 3 < b.length) :
    wordsOf (b.drop i) = be32 b[i] b[i+1] b[i+2] b[i+3] :: wordsOf (b.drop (i + 4)) := by
  rw [drop_four b i h, wordsOf]

theorem wordsOf_drop_short (b : Bytes) (i : Nat) (h : ¬ i + 3 < b.length) : wordsOf (b.drop i) = [] :=
  wordsOf_short _ (by simp; omega)

/-- Entry `k` of the word view of `b` from offset `i` is the big-endian word at `i + 4k`. -/
theorem wordsOf_drop_getElem? (b : Bytes) (i k : Nat) (h : i + 4 * k + 3 < b.length) :
    (wordsOf (b.drop i))[k]? =
      some (be32 (b[i + 4 * k]'(by omega)) (b[i + 4 * k + 1]'(by omega)) (b[i + 4 * k + 2]'(by omega))
        (b[i + 4 * k + 3]'h)) := by
  induction k generalizing i with
  | zero => rw [wordsOf_drop b i (by omega)]; simp
  | succ k ih =>
    rw [wordsOf_drop b i (by omega), List.getElem?_cons_succ, ih (i + 4) (by omega)]
    have e : i + 4 + 4 * k = i + 4 * (k + 1) := by omega
    simp only [e]

theorem wordsOf_drop_length (b : Bytes) (i : Nat) : (wordsOf (b.drop i)).length = (b.length - i) / 4 := by
  generalize hn : (b.length - i) / 4 = n
  induction n generalizing i with
  | zero => rw [wordsOf_drop_short b i (by omega)]; rfl
  | succ n ih => rw [wordsOf_drop b i (by omega), List.length_cons, ih (i + 4) (by omega)]

/-! fuelled loops = specifications -/

theorem expandLoop_spec (f seq e : Nat) (out : List Nat)
    (hf : 1000 - out.length ≤ f) (hs : seq + f < 4294967296) :
    expandLoop f seq e out = out ++ nakRange seq e out.length := by
  induction f generalizing seq out with
  | zero =>
    have : 1000 - out.length = 0 := by omega
    simp [expandLoop, nakRange, this]
  | succ f ih =>
    unfold expandLoop
    have hc := Lit.SRT_NAK_MAX_EXPAND_eq
    by_cases h : seq ≤ e ∧ out.length < Lit.SRT_NAK_MAX_EXPAND
    · rw [if_pos h]
      have hm : (seq + 1) % 4294967296 = seq + 1 := Nat.mod_eq_of_lt (by omega)
      rw [hm, ih (seq + 1) (out ++ [seq]) (by simp; omega) (by omega)]
      have e1 : e + 1 - seq = (e + 1 - (seq + 1)) + 1 := by omega
      have e2 : 1000 - out.length = (1000 - (out ++ [seq]).length) + 1 := by simp; omega
      simp only [nakRange]
      rw [e1, e2, List.range'_succ, List.take_succ_cons]
      simp
    · rw [if_neg h]
      simp only [nakRange]
      by_cases h1 : seq ≤ e
      · have : 1000 - out.length = 0 := by omega
        simp [this]
      · have : e + 1 - seq = 0 := by omega
        simp [this]

theorem and_mask31 (w : Nat) (h1 : 2147483648 ≤ w) (h2 : w < 4294967296) :
    w &&& 0x7fffffff = w - 2147483648 := by
  have := Nat.and_two_pow_sub_one_eq_mod w 31
  simp only [Nat.reducePow, Nat.reduceSub] at this
  rw [this]; omega

theorem expandLoop_spec_max (seq e : Nat) (out : List Nat) (hs : seq < 2147483648) :
    expandLoop Lit.SRT_NAK_MAX_EXPAND seq e out = out ++ nakRange seq e out.length := by
  rw [Lit.SRT_NAK_MAX_EXPAND_eq]
  exact expandLoop_spec 1000 seq e out (by omega) (by omega)

theorem nakWords_single (w : Nat) (ws out : List Nat) (h : w < 2147483648) :
    nakWords (w :: ws) out = nakWords ws (out ++ [w]) := by
  cases ws with
  | nil => simp [nakWords, h]
  | cons e ws => simp [nakWords, h]

theorem nakWords_range (w e : Nat) (ws out : List Nat) (h : 2147483648 ≤ w) :
    nakWords (w :: e :: ws) out = nakWords ws (out ++ nakRange (w &&& 0x7fffffff) e out.length) := by
  have : ¬ w < 2147483648 := by omega
  simp [nakWords, this]

theorem nakWords_truncated (w : Nat) (out : List Nat) (h : 2147483648 ≤ w) :
    nakWords [w] out = out := by
  have : ¬ w < 2147483648 := by omega
  simp [nakWords, this]

theorem rd32_wordsOf (b : Bytes) (i : Nat) (h : i + 3 < b.length) :
    ∃ w, rd32 b i = .ok w ∧ w < 4294967296 ∧ wordsOf (b.drop i) = w :: wordsOf (b.drop (i + 4)) :=
  ⟨_, rd32_ok b i h, be32_lt _ _ _ _, wordsOf_drop b i h⟩

theorem nakLoop_spec (b : Bytes) (f i : Nat) (out : List Nat) (hf : b.length < i + 4 + 4 * f) :
    nakLoop b f i out = .ok (nakWords (wordsOf (b.drop i)) out) := by
  induction f generalizing i out with
  | zero => rw [wordsOf_drop_short b i (by omega)]; simp [nakLoop, nakWords]
  | succ f ih =>
    unfold nakLoop
    by_cases h : i + 3 < b.length
    · obtain ⟨w, hr, hw, hwo⟩ := rd32_wordsOf b i h
      rw [if_pos h, hr, hwo]
      simp only [Chk.bind_ok]
      by_cases hge : w ≥ 2147483648
      · rw [if_pos hge]
        by_cases h2 : i + 4 + 3 ≥ b.length
        · rw [if_pos h2, wordsOf_drop_short b (i + 4) (by omega), nakWords_truncated w out hge]
        · rw [if_neg h2]
          obtain ⟨e, hr2, -, hwo2⟩ := rd32_wordsOf b (i + 4) (by omega)
          rw [hr2, hwo2]
          simp only [Chk.bind_ok]
          rw [ih (i + 4 + 4) _ (by omega), expandLoop_spec_max _ _ _ (by omega),
            nakWords_range w _ _ out hge, and_mask31 w hge hw]
      · rw [if_neg hge, ih (i + 4) _ (by omega), nakWords_single w _ out (by omega)]
    · rw [if_neg h, wordsOf_drop_short b i h]; simp [nakWords]

theorem ackLoop_spec (b : Bytes) (f i : Nat) (out : List Nat) (hf : b.length < i + 4 + 4 * f) :
    ackLoop b f i out = .ok (out ++ wordsOf (b.drop i)) := by
  induction f generalizing i out with
  | zero => rw [wordsOf_drop_short b i (by omega)]; simp [ackLoop]
  | succ f ih =>
    unfold ackLoop
    by_cases h : i + 3 < b.length
    · obtain ⟨w, hr, -, hwo⟩ := rd32_wordsOf b i h
      rw [if_pos h, hr, hwo]
      simp only [Chk.bind_ok]
      rw [ih (i + 4) _ (by omega)]
      simp
    · rw [if_neg h, wordsOf_drop_short b i h]; simp

end Srtla.Codec
