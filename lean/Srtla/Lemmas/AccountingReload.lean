import Srtla.Lemmas.ProbeRateReload
import Srtla.Lemmas.RunLevelGhostReload
/-!
# The observational logs of C01 (accounting, intact-in-order) BY CONN ID across reloads

`run_accounting` / `run_sublist` (`Lemmas/ForwardRun.lean`, `C01_accounting` / `C01_intact_in_order`) read the queue,
the arrival log and the wire log of a link by its INDEX and carry `NoReload`.  Here they are read by conn id:

* `queueOfId s c` — the queue of the link with conn id `c` (`[]` while no link carries `c`);
* `arrivalsId s evs c` — what the events append to that link's queue, event by event at the index the link has in the
  state reached (nothing while absent);
* `wireLogId s evs c` (`Lemmas/RunLevelGhostReload.lean`) — the data-path output to conn id `c` while `c` names a
  present link.

The accounting equation then holds over ANY run: a retained link keeps its queue through a reload (no departure), a
REMOVED link's queue departs flagged `false` (discarded with the link — the additional discard cause), a created link
starts with the empty queue; if the id of a removed link is drawn again later the equation simply continues with the
new carrier (both sides are `[]` in between).

Only the interface lemmas `run_accounting` (one event), `step_ids`, `mem_reload`, `appendedClient_cases` are used.
-/
namespace Srtla.Sys
open Srtla Srtla.Gen Srtla.Conn Srtla.Link Srtla.Props.SysReload Srtla.Sys.Ghost

set_option linter.unusedSectionVars false

variable {F : Type} [Scalar F]

/-- The queue of the link with conn id `c` (`[]` while no link carries it). -/
def queueOfId (s : Sys F) (c : Nat) : List QItem :=
  match idxOfId s c with
  | some i => queueOf s i
  | none => []

/-- What one event appends to the queue of the link with conn id `c`. -/
def appendedId (s : Sys F) (ev : Ev) (c : Nat) : List QItem :=
  match idxOfId s c with
  | some i => appended s ev i
  | none => []

/-- **Arrival log** of conn id `c` over a run: everything appended to the queue of the link that carries `c`, in
order, read at the index the link has in the state reached. -/
def arrivalsId (s : Sys F) : List Ev → Nat → List QItem
  | [], _ => []
  | ev :: evs, c => appendedId s ev c ++ arrivalsId (step s ev).1 evs c

theorem idxOfId_of_not_mem {s : Sys F} {c : Nat} (h : c ∉ ids s.links) : idxOfId s c = none := by
  cases hi : idxOfId s c with
  | none => rfl
  | some i =>
    obtain ⟨l, -, hc, hm⟩ := idxOfId_some hi
    exact absurd (List.mem_map.2 ⟨l, hm, hc⟩) h

theorem queueOfId_of_mem {s : Sys F} (hnd : (ids s.links).Nodup) {l : FLink F} (hl : l ∈ s.links) :
    queueOfId s l.core.connId = l.queue := by
  unfold queueOfId
  cases h : idxOfId s l.core.connId with
  | none => exact absurd (List.mem_map.2 ⟨l, hl, rfl⟩) (idxOfId_none h)
  | some i =>
    obtain ⟨m, hm, hc, hmem⟩ := idxOfId_some h
    have : m = l := eq_of_mem_of_connId hnd hmem hl hc
    subst this
    simp [queueOf, hm]

/-- One event, by conn id: the queue before followed by what the event appends splits into the departed items (flag
`true` = on the wire, `false` = discarded) followed by the queue after; the event's data-path output to `c` (while `c`
names a present link) is exactly the `true` items. -/
theorem step_accounting_id (s : Sys F) (hinv : Inv s) (ev : Ev)
    (hf : ∀ now addrs outs, ev = .reload now addrs outs → FreshOuts s.links outs) (c : Nat) :
    ∃ dep : List (QItem × Bool),
      queueOfId s c ++ appendedId s ev c = dep.map (·.1) ++ queueOfId (step s ev).1 c ∧
      (if c ∈ ids s.links then dataWire ev (step s ev).2 c else []) = bytesOf ((dep.filter (·.2)).map (·.1)) := by
  have hnd := hinv.nodup
  cases hnr : ev.isReload with
  | false =>
    have hids := step_ids s ev hnd hnr
    have hidx : idxOfId (step s ev).1 c = idxOfId s c := by unfold idxOfId; rw [hids]
    unfold queueOfId appendedId
    rw [hidx]
    cases h : idxOfId s c with
    | none =>
      refine ⟨[], rfl, ?_⟩
      rw [if_neg (idxOfId_none h)]
      rfl
    | some i =>
      obtain ⟨l, hl, hc, hm⟩ := idxOfId_some h
      have hi : i < s.links.length := (List.getElem?_eq_some_iff.1 hl).1
      obtain ⟨dep, d1, d2⟩ := run_accounting s hinv [ev] (fun e he => by
        have : e = ev := by simpa using he
        rw [this]; exact hnr) i hi
      refine ⟨dep, ?_, ?_⟩
      · simpa [arrivals, run] using d1
      · have hmem : c ∈ ids s.links := List.mem_map.2 ⟨l, hm, hc⟩
        rw [if_pos hmem, ← d2]
        simp [wireLog, connIdOf_of_get hl, hc]
  | true =>
    cases ev with
    | reload now addrs outs =>
      have hinv' := Inv_step_reload s hinv now addrs outs (hf now addrs outs rfl)
      have happ : appendedId s (.reload now addrs outs) c = [] := by
        unfold appendedId; split <;> rfl
      have hw : (if c ∈ ids s.links then dataWire (.reload now addrs outs) (step s (.reload now addrs outs)).2 c
          else []) = [] := by split <;> rfl
      rw [happ, hw, List.append_nil]
      cases h' : idxOfId (step s (.reload now addrs outs)).1 c with
      | none =>
        refine ⟨(queueOfId s c).map fun x => (x, false), ?_, ?_⟩
        · have : queueOfId (step s (.reload now addrs outs)).1 c = [] := by unfold queueOfId; rw [h']
          rw [this, List.append_nil, List.map_map]
          simp [Function.comp_def]
        · rw [dep_false]; rfl
      | some i' =>
        obtain ⟨l', -, hc', hmem'⟩ := idxOfId_some h'
        have hL : queueOfId (step s (.reload now addrs outs)).1 c = l'.queue := by
          rw [← hc']; exact queueOfId_of_mem hinv'.nodup hmem'
        refine ⟨[], ?_, rfl⟩
        rw [hL]
        rcases mem_reload hmem' with ⟨hm, -⟩ | ⟨id, a, -, hid, rfl⟩
        · rw [← hc', queueOfId_of_mem hnd hm]; rfl
        · have hfresh : c ∉ ids s.links := by
            rw [← hc']; exact (hf now addrs outs rfl).2 id hid
          have : queueOfId s c = [] := by unfold queueOfId; rw [idxOfId_of_not_mem hfresh]
          rw [this]; rfl
    | _ => cases hnr

/-- **Exact accounting by conn id over ANY run**, reloads included (`Inv` of the start state, `FreshRun`). -/
theorem run_accounting_id (s : Sys F) (hinv : Inv s) (evs : List Ev) (hf : FreshRun s evs) (c : Nat) :
    ∃ dep : List (QItem × Bool),
      queueOfId s c ++ arrivalsId s evs c = dep.map (·.1) ++ queueOfId (run s evs).1 c ∧
      wireLogId s evs c = bytesOf ((dep.filter (·.2)).map (·.1)) := by
  induction evs generalizing s with
  | nil => exact ⟨[], by simp [arrivalsId, run], by simp [wireLogId]⟩
  | cons ev evs ih =>
    obtain ⟨dep1, a1, a2⟩ := step_accounting_id s hinv ev hf.1 c
    obtain ⟨dep, d1, d2⟩ := ih (step s ev).1 (Inv_step_fresh s hinv ev hf.1) hf.2
    refine ⟨dep1 ++ dep, ?_, ?_⟩
    · simp only [arrivalsId, run]
      rw [← List.append_assoc, a1, List.append_assoc, d1, List.map_append, List.append_assoc]
    · simp only [wireLogId]
      rw [a2, d2, List.filter_append, List.map_append, bytesOf_append]

/-- The arrival log of every conn id is a subsequence of the client datagrams of the run. -/
theorem arrivalsId_sublist (s : Sys F) (evs : List Ev) (c : Nat) : (arrivalsId s evs c).Sublist (clientItems evs) := by
  induction evs generalizing s with
  | nil => exact List.Sublist.refl _
  | cons ev evs ih =>
    cases ev with
    | client now pkt =>
      simp only [arrivalsId, clientItems]
      have : appendedId s (.client now pkt) c = [] ∨ appendedId s (.client now pkt) c = [clientItem pkt now] := by
        unfold appendedId
        split
        · exact appendedClient_cases s pkt now _
        · exact .inl rfl
      rcases this with h | h
      · rw [h, List.nil_append]; exact (ih _).cons _
      · rw [h]; exact (ih _).cons_cons _
    | _ =>
      simp only [arrivalsId, clientItems]
      have : ∀ e : Ev, (∀ now pkt, e ≠ .client now pkt) → appendedId s e c = [] := by
        intro e he
        unfold appendedId
        split
        · cases e <;> first | rfl | exact absurd rfl (he _ _)
        · rfl
      rw [this _ (fun _ _ h => by cases h), List.nil_append]
      exact ih _

/-- **Intact, in order, at most once per conn id over ANY run**: the wire log of conn id `c` followed by the queue the
link with conn id `c` holds at the end is a subsequence of the queue it held initially followed by the client
datagrams of the run. -/
theorem run_sublist_id (s : Sys F) (hinv : Inv s) (evs : List Ev) (hf : FreshRun s evs) (c : Nat) :
    (wireLogId s evs c ++ bytesOf (queueOfId (run s evs).1 c)).Sublist
      (bytesOf (queueOfId s c) ++ bytesOf (clientItems evs)) := by
  obtain ⟨dep, d1, d2⟩ := run_accounting_id s hinv evs hf c
  have e1 : bytesOf (queueOfId s c) ++ bytesOf (arrivalsId s evs c) =
      bytesOf (dep.map (·.1)) ++ bytesOf (queueOfId (run s evs).1 c) := by
    rw [← bytesOf_append, d1, bytesOf_append]
  have s1 : (bytesOf ((dep.filter (·.2)).map (·.1))).Sublist (bytesOf (dep.map (·.1))) := by
    unfold bytesOf
    exact (List.filter_sublist.map _).map _
  have s2 : (bytesOf (arrivalsId s evs c)).Sublist (bytesOf (clientItems evs)) := by
    unfold bytesOf; exact (arrivalsId_sublist s evs c).map _
  rw [d2]
  calc (bytesOf ((dep.filter (·.2)).map (·.1)) ++ bytesOf (queueOfId (run s evs).1 c)).Sublist
        (bytesOf (dep.map (·.1)) ++ bytesOf (queueOfId (run s evs).1 c)) := s1.append_right _
    _ = bytesOf (queueOfId s c) ++ bytesOf (arrivalsId s evs c) := e1.symm
    _ |>.Sublist (bytesOf (queueOfId s c) ++ bytesOf (clientItems evs)) := s2.append_left _

end Srtla.Sys
