import Srtla.Model.Conn
/-! Helper lemmas for the connection core (core Lean only). -/
namespace Srtla.Conn
open Srtla.Gen

/-- Values of the window constants as regenerated from the source. Proofs keep the constants
folded and feed these equations to `omega`. -/
theorem wconsts :
    WINDOW_FLOOR = 1000 ∧ WINDOW_CEIL = 60000 ∧ WINDOW_INIT = 20000 ∧ W_MULT = 1000 ∧
    W_INCR = 30 ∧ W_DECR = 100 ∧ FR_ENTER = 2000 ∧ FR_LEAVE = 12000 := by
  simp [WINDOW_FLOOR, WINDOW_CEIL, WINDOW_INIT, W_MULT, W_INCR, W_DECR, FR_ENTER, FR_LEAVE]

theorem recoverIncr_bounds (fast : Bool) (since : Option Nat) (v : Bool) :
    0 ≤ recoverIncr fast since v ∧ recoverIncr fast since v ≤ 120 := by
  obtain ⟨-, -, -, -, hI, -, -, -⟩ := wconsts
  unfold recoverIncr
  cases fast <;> cases v <;> simp only [hI] <;> (repeat' split) <;> omega

@[simp] theorem clearBurst_fastRecovery (c : Cong) (now : Nat) :
    (c.clearBurst now).fastRecovery = c.fastRecovery := by
  unfold Cong.clearBurst; split <;> rfl

theorem ackClassic_bounds (w inf : Int) (h1 : 1000 ≤ w) (h2 : w ≤ 60000) :
    1000 ≤ ackClassic w inf ∧ ackClassic w inf ≤ 60000 ∧ w ≤ ackClassic w inf ∧
    ackClassic w inf ≤ w + 29 := by
  obtain ⟨-, hC, -, -, hI, -, -, -⟩ := wconsts
  unfold ackClassic
  split <;> omega

theorem recover_window (c : Cong) (w : Int) (conn v : Bool) (now : Nat)
    (h1 : 1000 ≤ w) (h2 : w ≤ 60000) :
    1000 ≤ (c.recover w conn v now).2 ∧ (c.recover w conn v now).2 ≤ 60000 ∧
    w ≤ (c.recover w conn v now).2 := by
  obtain ⟨-, hC, -, -, -, -, -, -⟩ := wconsts
  unfold Cong.recover
  split
  · exact ⟨h1, h2, Int.le_refl _⟩
  · dsimp only
    split
    · have hb := recoverIncr_bounds (c.clearBurst now).fastRecovery ((c.clearBurst now).sinceNak now) v
      dsimp only
      omega
    · exact ⟨h1, h2, Int.le_refl _⟩

end Srtla.Conn

/-! ## Appended (round 2): connection ids are never changed by the ACK/NAK fan-out -/
namespace Srtla.Conn


theorem connId_register (c : Conn) (s : Int) (t : Nat) : (c.register s t).connId = c.connId := rfl
theorem connId_srtAck (c : Conn) (a : Int) (now : Nat) : (c.srtAck a now).1.connId = c.connId := by
  unfold Conn.srtAck; split <;> rfl
theorem connId_nak (c : Conn) (s : Int) (now : Nat) : (c.nak s now).1.connId = c.connId := by
  unfold Conn.nak; split <;> rfl
theorem connId_srtlaAck (c : Conn) (s : Int) (cl : Bool) (now : Nat) :
    (c.srtlaAck s cl now).1.connId = c.connId := by
  unfold Conn.srtlaAck; split
  · split <;> rfl
  · rfl
theorem connId_ackGlobal (c : Conn) : c.ackGlobal.connId = c.connId := by
  unfold Conn.ackGlobal; split <;> rfl

def idsOf (ls : Links) : List Nat := ls.map (·.connId)

theorem idsOf_updateAt (ls : Links) (i : Nat) (f : Conn → Conn)
    (hf : ∀ c, ls[i]? = some c → (f c).connId = c.connId) :
    idsOf (updateAt ls i f) = idsOf ls := by
  apply List.ext_getElem?
  intro j
  simp only [idsOf, updateAt, List.getElem?_map, List.getElem?_mapIdx]
  cases hj : ls[j]? with
  | none => rfl
  | some c =>
    simp only [Option.map_some]
    split
    · rename_i h; subst h; rw [hf c hj]
    · rfl

theorem idsOf_map (ls : Links) (f : Conn → Conn) (hf : ∀ c, (f c).connId = c.connId) :
    idsOf (ls.map f) = idsOf ls := by
  simp only [idsOf, List.map_map]
  apply List.map_congr_left
  intro c _
  exact hf c

theorem idsOf_others (ls : Links) (j skip : Nat) (s : Int) (cl : Bool) (now : Nat) :
    idsOf (srtlaAckOthers ls j skip s cl now) = idsOf ls := by
  induction ls generalizing j with
  | nil => rfl
  | cons c rest ih =>
    unfold srtlaAckOthers
    split
    · simp only [idsOf, List.map_cons] at ih ⊢; rw [ih]
    · dsimp only
      split
      · simp only [idsOf, List.map_cons, connId_srtlaAck]
      · simp only [idsOf, List.map_cons] at ih ⊢; rw [ih]

theorem idsOf_nakScan (ls : Links) (s : Int) (now : Nat) : idsOf (nakScan ls s now).1 = idsOf ls := by
  induction ls with
  | nil => rfl
  | cons c rest ih =>
    unfold nakScan
    dsimp only
    split
    · simp only [idsOf, List.map_cons, connId_nak]
    · simp only [idsOf, List.map_cons] at ih ⊢; rw [ih]

theorem idsOf_attributeNak (ls : Links) (trk : Tracker) (n now : Nat) :
    idsOf (attributeNak ls trk n now).1 = idsOf ls := by
  unfold attributeNak
  dsimp only
  split
  · split
    · split
      · try dsimp only
        split
        · rename_i _ c hc _
          exact idsOf_updateAt ls _ _ (fun d hd => by
            rw [hc] at hd; cases hd; exact connId_nak _ _ _)
        · rfl
      · rfl
    · exact idsOf_nakScan ls _ now
  · exact idsOf_nakScan ls _ now

theorem idsOf_evSrtlaAck (ls : Links) (idx : Nat) (s : Int) (cl : Bool) (now : Nat) :
    idsOf (evSrtlaAck ls idx s cl now) = idsOf ls := by
  unfold evSrtlaAck
  dsimp only
  rw [idsOf_map _ _ connId_ackGlobal]
  split
  · rfl
  · try dsimp only
    split
    · rename_i _ c hc _
      exact idsOf_updateAt ls _ _ (fun d hd => by
        rw [hc] at hd; cases hd; exact connId_srtlaAck _ _ _ _)
    · exact idsOf_others ls 0 idx s cl now

theorem findIdx_ids (ls : Links) (cid : Nat) :
    (idsOf ls).findIdx? (· == cid) = ls.findIdx? (·.connId == cid) := by
  induction ls with
  | nil => rfl
  | cons c rest ih =>
    simp only [idsOf, List.map_cons, List.findIdx?_cons] at ih ⊢
    split
    · rfl
    · rw [ih]


end Srtla.Conn
