import Srtla.Model.Conn
/-! Helper lemmas for the connection core (core Lean only). -/
namespace Srtla.Conn
open Srtla.Gen

/-- Values of the window constants as regenerated from the source. Proofs keep the constants
folded and feed these equations to `omega`. -/
theorem wconsts :
    WINDOW_FLOOR = 1000 ∧ WINDOW_CEIL = 60000 ∧ WINDOW_INIT = 20000 ∧ W_MULT = 1000 ∧
    W_INCR = 30 ∧ W_DECR = 100 ∧ FR_ENTER = 2000 ∧ FR_LEAVE = 12000 := by
  simp [WINDOW_FLOOR, WINDOW_CEIL, WINDOW_INIT, W_MULT, W_INCR, W_DECR, FR_ENTER, FR_LEAVE]

theorem recoverIncr_bounds (fast : Bool) (since : Option Nat) (v : Bool) :
    0 ≤ recoverIncr fast since v ∧ recoverIncr fast since v ≤ 120 := by
  obtain ⟨-, -, -, -, hI, -, -, -⟩ := wconsts
  unfold recoverIncr
  cases fast <;> cases v <;> simp only [hI] <;> (repeat' split) <;> omega

@[simp] theorem clearBurst_fastRecovery (c : Cong) (now : Nat) :
    (c.clearBurst now).fastRecovery = c.fastRecovery := by
  unfold Cong.clearBurst; split <;> rfl

theorem ackClassic_bounds (w inf : Int) (h1 : 1000 ≤ w) (h2 : w ≤ 60000) :
    1000 ≤ ackClassic w inf ∧ ackClassic w inf ≤ 60000 ∧ w ≤ ackClassic w inf ∧
    ackClassic w inf ≤ w + 29 := by
  obtain ⟨-, hC, -, -, hI, -, -, -⟩ := wconsts
  unfold ackClassic
  split <;> omega

theorem recover_window (c : Cong) (w : Int) (conn v : Bool) (now : Nat)
    (h1 : 1000 ≤ w) (h2 : w ≤ 60000) :
    1000 ≤ (c.recover w conn v now).2 ∧ (c.recover w conn v now).2 ≤ 60000 ∧
    w ≤ (c.recover w conn v now).2 := by
  obtain ⟨-, hC, -, -, -, -, -, -⟩ := wconsts
  unfold Cong.recover
  split
  · exact ⟨h1, h2, Int.le_refl _⟩
  · dsimp only
    split
    · have hb := recoverIncr_bounds (c.clearBurst now).fastRecovery ((c.clearBurst now).sinceNak now) v
      dsimp only
      omega
    · exact ⟨h1, h2, Int.le_refl _⟩

end Srtla.Conn
