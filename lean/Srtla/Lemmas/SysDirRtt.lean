import Srtla.Lemmas.SysDir
/-!
# What the per-link operations do to the RTT tracker (for C14 at shell level)

`SameFilter t t'`: the tracker `t'` is `t` except possibly the probe bookkeeping (`waiting`,
`last_keepalive_sent_ms`) — every field an RTT sample feeds (Kalman filter, jitter, minima, windows,
`last_rtt_measurement_ms`) is identical.

`rtt_run`: a sequence of per-link operations that contains neither a keepalive echo nor a cumulative
SRT ACK (the two sampling paths) leaves the filter state alone, or — if it contains housekeeping's
reconnect — leaves a freshly reset filter (`RttTracker::reset`).
-/
set_option linter.unusedSectionVars false
set_option linter.unusedVariables false

namespace Srtla.SysDir
open Srtla Srtla.Gen Srtla.Conn Srtla.Select Srtla.Rtt Srtla.Link Srtla.Sys Srtla.SysInv Scalar

variable {F : Type} [Scalar F]

/-- `t'` is `t` up to the probe bookkeeping. -/
def SameFilter (t t' : RttTracker F) : Prop :=
  t' = { t with lastKeepaliveSentMs := t'.lastKeepaliveSentMs, waiting := t'.waiting }

omit [Scalar F] in
theorem SameFilter.refl (t : RttTracker F) : SameFilter t t := by cases t; rfl

omit [Scalar F] in
theorem SameFilter.of_eq {t t' : RttTracker F} (h : t' = t) : SameFilter t t' := by rw [h]; exact .refl t

omit [Scalar F] in
theorem SameFilter.trans {a b c : RttTracker F} (h1 : SameFilter a b) (h2 : SameFilter b c) : SameFilter a c := by
  unfold SameFilter at *
  rw [h2, h1]

omit [Scalar F] in
theorem SameFilter.set (t : RttTracker F) (k : Nat) (w : Bool) :
    SameFilter t { t with lastKeepaliveSentMs := k, waiting := w } := rfl

omit [Scalar F] in
theorem SameFilter.setW (t : RttTracker F) (w : Bool) : SameFilter t { t with waiting := w } := by cases t; rfl

/-- The fields a sample feeds are equal. -/
theorem SameFilter.fields {t t' : RttTracker F} (h : SameFilter t t') :
    t'.kalman = t.kalman ∧ t'.lastRttMeasMs = t.lastRttMeasMs ∧ t'.rttMin = t.rttMin ∧
    t'.estimated = t.estimated ∧ t'.smooth = t.smooth := by
  unfold SameFilter at h
  rw [h]
  exact ⟨rfl, rfl, rfl, rfl, rfl⟩

theorem rtt_stallProbeDue (l : FLink F) : l.stallProbeDue.1.rtt = l.rtt := by
  unfold FLink.stallProbeDue
  dsimp only
  split <;> rfl

theorem rtt_takeBatch (l : FLink F) (now : Nat) : (l.takeBatch now).1.rtt = l.rtt := by
  rw [Hk.takeBatch_eq]
  split <;> rfl

theorem rtt_updatePhase (l : FLink F) (now : Nat) : (l.updatePhase now).rtt = l.rtt := by
  unfold FLink.updatePhase
  dsimp only
  split
  · split <;> rfl
  · split <;> rfl
  · split <;> rfl
  · rfl

theorem rtt_tickLink (l : FLink F) (now : Nat) : (tickLink l now).rtt = l.rtt := by
  unfold tickLink
  show (({ l with bitrate := l.bitrate.calculate now } : FLink F).updatePhase now).rtt = l.rtt
  rw [rtt_updatePhase]

theorem rtt_keepalivePacket (l : FLink F) (now : Nat) : SameFilter l.rtt (l.keepalivePacket now).1.rtt := by
  unfold FLink.keepalivePacket
  dsimp only
  split
  · exact SameFilter.set _ _ _
  · exact SameFilter.refl _

theorem rtt_reconnectLink (l : FLink F) (now : Nat) : (Hk.reconnectLink l now).rtt = RttTracker.new := rfl

/-- **The RTT tracker under a sequence of operations without a sampling path** (`kaEcho`, `srtAck`): the
filter state is untouched, or — only if the sequence contains housekeeping's reconnect — it is that of a
freshly reset tracker. -/
theorem rtt_run {now : Nat} {classic : Bool} {A : Op → Prop} {l l' : FLink F}
    (h : LinkRun now classic A l l') (hk : ¬ A .kaEcho) (hs : ¬ A .srtAck) :
    SameFilter l.rtt l'.rtt ∨ (A .reconnect ∧ SameFilter RttTracker.new l'.rtt) := by
  have keep : ∀ {a b : FLink F},
      (SameFilter l.rtt a.rtt ∨ (A .reconnect ∧ SameFilter RttTracker.new a.rtt)) → SameFilter a.rtt b.rtt →
      (SameFilter l.rtt b.rtt ∨ (A .reconnect ∧ SameFilter RttTracker.new b.rtt)) := by
    intro a b ih hab
    rcases ih with h | ⟨hr, h⟩
    · exact .inl (h.trans hab)
    · exact .inr ⟨hr, h.trans hab⟩
  induction h with
  | refl => exact .inl (.refl _)
  | sent _ _ ih => exact keep ih (.refl _)
  | heard _ _ ih => exact keep ih (.refl _)
  | grace _ _ ih => exact keep ih (.refl _)
  | probeDue _ _ ih => exact keep ih (.of_eq (rtt_stallProbeDue _))
  | queue pkt seq _ _ _ ih => exact keep ih (.refl _)
  | take _ _ ih => exact keep ih (.of_eq (rtt_takeBatch _ now))
  | mark _ _ ih => exact keep ih (SameFilter.set _ 0 false)
  | reconnect ha _ ih => exact .inr ⟨ha, .of_eq (rtt_reconnectLink _ now)⟩
  | @attemptFail a _ _ ih =>
    -- `record_attempt` keeps the tracker, `mark_for_recovery` only clears the probe bookkeeping
    have hra : (a.recordAttempt now).rtt = a.rtt := by unfold FLink.recordAttempt; split <;> rfl
    refine keep ih ?_
    have h : SameFilter (a.recordAttempt now).rtt (Hk.failedLink a now).rtt :=
      SameFilter.set (a.recordAttempt now).rtt 0 false
    rw [hra] at h
    exact h
  | reg3 _ _ ih => exact keep ih (.refl _)
  | kaSend _ _ ih => exact keep ih (rtt_keepalivePacket _ now)
  | recover _ _ ih => exact keep ih (.refl _)
  | tick _ _ ih => exact keep ih (.of_eq (rtt_tickLink _ now))
  | kaEcho data ha => exact absurd ha hk
  | srtAck x ha => exact absurd ha hs
  | sack seq _ _ ih => exact keep ih (.refl _)
  | gack _ _ ih => exact keep ih (.refl _)
  | nak seq _ _ ih => exact keep ih (.refl _)
  | select x _ _ ih => exact keep ih (.refl _)
  | stamp w ld ccb cct _ _ ih => exact keep ih (.refl _)
  | syncTimeout T _ _ ih => exact keep ih (.refl _)

end Srtla.SysDir
