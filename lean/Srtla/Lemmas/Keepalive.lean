import Srtla.Model.Sys
import Srtla.Lemmas.Codec
/-!
# Keepalive lemmas (C14): echo handling, frame construction, housekeeping cadence

Core Lean only; every statement holds for any `Scalar` instance (the float operations are opaque).
-/
namespace Srtla.Keepalive
open Srtla Srtla.Gen Srtla.Conn Srtla.Link Srtla.Sys Srtla.Rtt

variable {F : Type} [Scalar F]

/-! ## `handle_keepalive_response` -/

theorem unChk_some {α : Type} {x : Codec.Chk (Option α)} {a : α} (h : Codec.unChk none x = some a) :
    x = .ok (some a) := by
  cases x with
  | ok v => simpa [Codec.unChk] using h
  | panic => simp [Codec.unChk] at h

/-- A sample is returned only while a probe is outstanding, from a decodable echoed timestamp
whose age is in `(0, 10000]` ms; the post-state is the tracker fed with that sample, flag cleared. -/
theorem hkr_some (l : FLink F) (data : Codec.Bytes) (now r : Nat)
    (h : (l.handleKeepaliveResponse data now).2 = some r) :
    l.rtt.waiting = true ∧
    ∃ ts, Codec.extractKeepaliveTimestamp data = .ok (some ts) ∧ r = now - ts ∧ 0 < r ∧ r ≤ 10000 ∧
      (l.handleKeepaliveResponse data now).1 =
        { l with rtt := { (l.rtt.updateEstimate r now) with waiting := false } } := by
  have hmax := Lit.KEEPALIVE_RTT_MAX_MS_eq
  unfold FLink.handleKeepaliveResponse at h ⊢
  split at h
  · simp at h
  · rename_i hw
    simp only [Bool.not_eq_true, Bool.not_eq_false'] at hw
    simp only [hw, Bool.not_true, Bool.false_eq_true, if_false] at h ⊢
    split at h
    · rename_i ts hts
      split at h
      · rename_i hr
        simp only [Option.some.injEq] at h
        subst h
        refine ⟨trivial, ts, unChk_some hts, rfl, hr.1, by omega, ?_⟩
        simp only [hr, and_self, if_true]
      · simp at h
    · simp at h

/-- No sample: nothing but the outstanding-probe flag changes (and only if it was set). -/
theorem hkr_none (l : FLink F) (data : Codec.Bytes) (now : Nat)
    (h : (l.handleKeepaliveResponse data now).2 = none) :
    (l.handleKeepaliveResponse data now).1 =
      if l.rtt.waiting then { l with rtt := { l.rtt with waiting := false } } else l := by
  unfold FLink.handleKeepaliveResponse at h ⊢
  by_cases hw : l.rtt.waiting = true
  · simp only [hw, Bool.not_true, Bool.false_eq_true, if_false, if_true] at h ⊢
    split at h
    · rename_i ts hts
      split at h
      · simp at h
      · rename_i hr
        simp only [hr, if_false]
    · rfl
  · simp only [Bool.not_eq_true] at hw
    simp [hw]

/-- The flag clears on any reply that reaches this function. -/
theorem hkr_clears (l : FLink F) (data : Codec.Bytes) (now : Nat) :
    (l.handleKeepaliveResponse data now).1.rtt.waiting = false := by
  unfold FLink.handleKeepaliveResponse
  split
  · rename_i hw; simpa using hw
  · split
    · dsimp only
      split <;> rfl
    · rfl

/-- Only the RTT tracker of the link is touched. -/
theorem hkr_shell (l : FLink F) (data : Codec.Bytes) (now : Nat) :
    (l.handleKeepaliveResponse data now).1 =
      { l with rtt := (l.handleKeepaliveResponse data now).1.rtt } := by
  unfold FLink.handleKeepaliveResponse
  cases l
  dsimp only
  split
  · rfl
  · split
    · split <;> rfl
    · rfl

/-! ## `keepalive_packet` -/

/-- The telemetry the frame carries: read from the link state at the call. -/
def kaInfo (l : FLink F) : Codec.ConnInfo :=
  { connId := l.core.connId % 4294967296,
    window := l.core.window,
    inFlight := l.core.inFlight,
    rttMs := min (Scalar.toNatSat l.rtt.kalman.x) 4294967295,
    nakCount := Codec.i32ToU32 l.core.cong.nakCount,
    bitrate := min (Scalar.toNatSat (Scalar.div l.bitrate.current (Scalar.lit 8.0 8 1))) 4294967295 }

theorem keepalivePacket_pkt (l : FLink F) (now : Nat) :
    (l.keepalivePacket now).2 = Codec.createKeepaliveExt (kaInfo l) now := rfl

/-- What `keepalive_packet` does to the link: send stamps and (maybe) arming the RTT probe. -/
theorem keepalivePacket_link (l : FLink F) (now : Nat) :
    (l.keepalivePacket now).1 =
      { l with core := { l.core with lastSent := some now }, lastKeepaliveSent := some now,
               rtt := (l.keepalivePacket now).1.rtt } ∧
    (l.keepalivePacket now).1.rtt.kalman = l.rtt.kalman ∧
    (l.keepalivePacket now).1.rtt.lastRttMeasMs = l.rtt.lastRttMeasMs ∧
    ((l.keepalivePacket now).1.rtt = l.rtt ∨
     (l.rtt.waiting = false ∧
      (l.keepalivePacket now).1.rtt = { l.rtt with lastKeepaliveSentMs := now, waiting := true })) := by
  unfold FLink.keepalivePacket
  dsimp only
  refine ⟨rfl, ?_, ?_, ?_⟩
  · split <;> rfl
  · split <;> rfl
  · split
    · rename_i h
      right
      refine ⟨?_, rfl⟩
      simp only [Bool.and_eq_true, Bool.not_eq_true'] at h
      exact h.1
    · left; rfl

/-- A second frame built in the same tick carries the same bytes. -/
theorem keepalivePacket_twice (l : FLink F) (now : Nat) :
    ((l.keepalivePacket now).1.keepalivePacket now).2 = (l.keepalivePacket now).2 := by
  rw [keepalivePacket_pkt, keepalivePacket_pkt]
  have h := keepalivePacket_link l now
  unfold kaInfo
  rw [h.2.1]
  rw [h.1]

theorem keepalive_type (info : Codec.ConnInfo) (now : Nat) :
    Codec.getPacketTypeS (Codec.createKeepaliveExt info now) = some 0x9000 := by
  simp [Codec.createKeepaliveExt, Codec.toBE16, Codec.getPacketTypeS, Codec.be16]

theorem reg1_type (id : Codec.Bytes) : Codec.getPacketTypeS (Codec.createReg1 id) = some 0x9200 := by
  simp [Codec.createReg1, Codec.toBE16, Codec.getPacketTypeS, Codec.be16]

theorem reg2_type (id : Codec.Bytes) : Codec.getPacketTypeS (Codec.createReg2 id) = some 0x9201 := by
  simp [Codec.createReg2, Codec.toBE16, Codec.getPacketTypeS, Codec.be16]

/-! ## The per-link pass of `handle_housekeeping`, one link at a time -/

/-- A live (not timed out) link's housekeeping: keepalive if due, RTT probe if due, window recovery,
bitrate, phase, batch regime. -/
def hkLive (classic : Bool) (now : Nat) (l : FLink F) : FLink F × List (Nat × Codec.Bytes) :=
  let r1 : FLink F × List (Nat × Codec.Bytes) :=
    if l.needsKeepalive now then
      ((l.keepalivePacket now).1, [(l.core.connId, (l.keepalivePacket now).2)])
    else (l, [])
  let r2 : FLink F × List (Nat × Codec.Bytes) :=
    if r1.1.needsRttMeasurement now then
      ((r1.1.keepalivePacket now).1, [(l.core.connId, (r1.1.keepalivePacket now).2)])
    else (r1.1, [])
  let l3 := if !classic then r2.1.performWindowRecovery now else r2.1
  let l4 := { l3 with bitrate := l3.bitrate.calculate now }
  ((l4.updatePhase now).recomputeBatchRegime, r1.2 ++ r2.2)

/-- The link after the reconnect branch (before the REG1/REG2 send stamp). -/
def reconnected (l : FLink F) (now : Nat) : FLink F :=
  { ((l.recordAttempt now).resetForReconnect now) with
      failCount := 0, graceDeadline := now + Conn.STARTUP_GRACE_MS }

/-- One link of the pass: link, registration state, wire output. -/
def hkOne (classic : Bool) (now : Nat) (l : FLink F) (i : Nat) (reg : Reg.Reg) :
    FLink F × Reg.Reg × List (Nat × Codec.Bytes) :=
  if l.isTimedOut now then
    if l.shouldAttemptReconnect now then
      match reg.pending with
      | some p =>
        if p = i then
          ({ reconnected l now with core := { (reconnected l now).core with lastSent := some now } },
            (Reg.buildReg1For reg i now).1, [(l.core.connId, (Reg.buildReg1For reg i now).2)])
        else (reconnected l now, reg, [])
      | none =>
        ({ reconnected l now with core := { (reconnected l now).core with lastSent := some now } },
          reg, [(l.core.connId, Reg.buildReg2 reg)])
    else (l, reg, [])
  else ((hkLive classic now l).1, reg, (hkLive classic now l).2)

theorem hkLinksGo_cons (classic : Bool) (now : Nat) (l : FLink F) (rest : List (FLink F)) (i : Nat)
    (reg : Reg.Reg) :
    hkLinksGo classic now (l :: rest) i reg =
      ((hkOne classic now l i reg).1 :: (hkLinksGo classic now rest (i + 1) (hkOne classic now l i reg).2.1).1,
       (hkLinksGo classic now rest (i + 1) (hkOne classic now l i reg).2.1).2.1,
       (hkOne classic now l i reg).2.2 ++ (hkLinksGo classic now rest (i + 1) (hkOne classic now l i reg).2.1).2.2) := by
  rw [hkLinksGo]
  unfold hkOne
  cases hto : l.isTimedOut now with
  | true =>
    simp only [if_true]
    cases hra : l.shouldAttemptReconnect now with
    | true =>
      simp only [if_true]
      cases hp : reg.pending with
      | none => rfl
      | some p =>
        by_cases hpi : p = i
        · simp only [hpi, if_true]; rfl
        · simp only [hpi, if_false]; rfl
    | false => simp only [Bool.false_eq_true, if_false]; rfl
  | false =>
    simp only [Bool.false_eq_true, if_false]
    unfold hkLive
    cases h1 : l.needsKeepalive now with
    | true => simp only [if_true]
    | false => simp only [Bool.false_eq_true, if_false]

/-! ### Fields the tail of the live branch does not touch -/

section tail
variable (l : FLink F) (now : Nat)

@[simp] theorem pwr_lks : (l.performWindowRecovery now).lastKeepaliveSent = l.lastKeepaliveSent := rfl
@[simp] theorem pwr_connId : (l.performWindowRecovery now).core.connId = l.core.connId := rfl
@[simp] theorem pwr_connected : (l.performWindowRecovery now).core.connected = l.core.connected := rfl
@[simp] theorem rbr_lks : l.recomputeBatchRegime.lastKeepaliveSent = l.lastKeepaliveSent := rfl
@[simp] theorem rbr_core : l.recomputeBatchRegime.core = l.core := rfl
@[simp] theorem up_lks : (l.updatePhase now).lastKeepaliveSent = l.lastKeepaliveSent := by
  unfold FLink.updatePhase; dsimp only; split <;> (try split) <;> rfl
@[simp] theorem up_connId : (l.updatePhase now).core.connId = l.core.connId := by
  unfold FLink.updatePhase; dsimp only; split <;> (try split) <;> rfl
@[simp] theorem up_connected : (l.updatePhase now).core.connected = l.core.connected := by
  unfold FLink.updatePhase; dsimp only; split <;> (try split) <;> rfl

end tail

/-- The live branch, as far as the keepalive cadence is concerned. -/
theorem hkLive_spec (classic : Bool) (now : Nat) (l : FLink F) :
    (hkLive classic now l).1.core.connId = l.core.connId ∧
    (hkLive classic now l).1.core.connected = l.core.connected ∧
    (∀ x ∈ (hkLive classic now l).2,
      x = (l.core.connId, (l.keepalivePacket now).2) ∧ l.core.connected = true) ∧
    (hkLive classic now l).2.length ≤ 2 ∧
    ((hkLive classic now l).1.lastKeepaliveSent = l.lastKeepaliveSent ∨
      ((hkLive classic now l).1.lastKeepaliveSent = some now ∧
        (l.core.connId, (l.keepalivePacket now).2) ∈ (hkLive classic now l).2)) ∧
    (l.core.connected = true →
      ∃ t, (hkLive classic now l).1.lastKeepaliveSent = some t ∧ now - t < 1000) := by
  have hidle := Proto.IDLE_TIME_eq
  have hcK : l.needsKeepalive now = true → l.core.connected = true := by
    unfold FLink.needsKeepalive
    cases l.core.connected <;> simp
  have hcR : ∀ m : FLink F, m.needsRttMeasurement now = true → m.core.connected = true := by
    intro m
    unfold FLink.needsRttMeasurement
    split
    · simp
    · simp only [Bool.and_eq_true]; intro h; exact h.1.1
  have hK := keepalivePacket_link l now
  have hlk1 : (l.keepalivePacket now).1.lastKeepaliveSent = some now := by rw [hK.1]
  have hci1 : (l.keepalivePacket now).1.core.connId = l.core.connId := by rw [hK.1]
  have hcc1 : (l.keepalivePacket now).1.core.connected = l.core.connected := by rw [hK.1]
  unfold hkLive
  cases classic <;>
  · simp only [Bool.not_false, Bool.not_true, if_true, Bool.false_eq_true, if_false, rbr_lks, rbr_core,
      up_lks, up_connId, up_connected, pwr_lks, pwr_connId, pwr_connected]
    cases h1 : l.needsKeepalive now with
    | true =>
      have hc := hcK h1
      simp only [if_true]
      cases h2 : (l.keepalivePacket now).1.needsRttMeasurement now with
      | true =>
        simp only [if_true]
        have hK2 := keepalivePacket_link (l.keepalivePacket now).1 now
        refine ⟨by rw [hK2.1]; exact hci1, by rw [hK2.1]; exact hcc1, ?_, by simp, ?_, ?_⟩
        · intro x hx
          simp only [List.cons_append, List.nil_append, List.mem_cons, List.not_mem_nil, or_false] at hx
          rcases hx with rfl | rfl
          · exact ⟨rfl, hc⟩
          · exact ⟨by rw [keepalivePacket_twice], hc⟩
        · right; exact ⟨by rw [hK2.1], by simp⟩
        · intro _; exact ⟨now, by rw [hK2.1], by omega⟩
      | false =>
        simp only [Bool.false_eq_true, if_false]
        refine ⟨hci1, hcc1, ?_, by simp, ?_, ?_⟩
        · intro x hx
          simp only [List.append_nil, List.mem_cons, List.not_mem_nil, or_false] at hx
          subst hx; exact ⟨rfl, hc⟩
        · right; exact ⟨hlk1, by simp⟩
        · intro _; exact ⟨now, hlk1, by omega⟩
    | false =>
      simp only [Bool.false_eq_true, if_false]
      cases h2 : l.needsRttMeasurement now with
      | true =>
        have hc := hcR l h2
        simp only [if_true]
        refine ⟨hci1, hcc1, ?_, by simp, ?_, ?_⟩
        · intro x hx
          simp only [List.nil_append, List.mem_cons, List.not_mem_nil, or_false] at hx
          subst hx; exact ⟨rfl, hc⟩
        · right; exact ⟨hlk1, by simp⟩
        · intro _; exact ⟨now, hlk1, by omega⟩
      | false =>
        simp only [Bool.false_eq_true, if_false]
        refine ⟨trivial, trivial, by simp, by simp, Or.inl trivial, ?_⟩
        intro hc
        unfold FLink.needsKeepalive at h1
        simp only [hc, Bool.not_true, Bool.false_eq_true, if_false] at h1
        split at h1
        · simp at h1
        · rename_i last hlast
          refine ⟨last, hlast, ?_⟩
          simp only [decide_eq_false_iff_not] at h1
          omega

/-! ### One link, then the whole pass -/

/-- What the pass guarantees for the link `l` (→ `l'`); `w` is wire output that contains the link's
own contribution. -/
structure KaStep (now : Nat) (l l' : FLink F) (w : List (Nat × Codec.Bytes)) : Prop where
  connId : l'.core.connId = l.core.connId
  change : l'.lastKeepaliveSent = l.lastKeepaliveSent ∨
    (l'.lastKeepaliveSent = some now ∧ (l.core.connId, (l.keepalivePacket now).2) ∈ w)
  fresh : l.core.connected = true → l.isTimedOut now = false →
    ∃ t, l'.lastKeepaliveSent = some t ∧ now - t < 1000

theorem KaStep.mono {now : Nat} {l l' : FLink F} {w w' : List (Nat × Codec.Bytes)}
    (h : KaStep now l l' w) (hw : ∀ x ∈ w, x ∈ w') : KaStep now l l' w' :=
  ⟨h.connId, h.change.imp id (fun ⟨a, b⟩ => ⟨a, hw _ b⟩), h.fresh⟩

/-- The keepalive-typed datagrams for conn id `cid` in a wire list. -/
def kaCount (cid : Nat) (w : List (Nat × Codec.Bytes)) : Nat :=
  w.countP fun x => x.1 == cid && Codec.getPacketTypeS x.2 == some 0x9000

/-- Where a wire datagram of the per-link pass comes from. -/
def WireOrigin (now : Nat) (ls : List (FLink F)) (x : Nat × Codec.Bytes) : Prop :=
  (∃ l ∈ ls, x = (l.core.connId, (l.keepalivePacket now).2) ∧ l.core.connected = true ∧
    l.isTimedOut now = false) ∨
  Codec.getPacketTypeS x.2 = some 0x9200 ∨ Codec.getPacketTypeS x.2 = some 0x9201

theorem reconnected_lks (l : FLink F) (now : Nat) :
    (reconnected l now).lastKeepaliveSent = l.lastKeepaliveSent ∧
    (reconnected l now).core.connId = l.core.connId := by
  unfold reconnected FLink.resetForReconnect FLink.resetCoreState FLink.recordAttempt Conn.resetCore
  split <;> exact ⟨rfl, rfl⟩

theorem hkOne_spec (classic : Bool) (now : Nat) (l : FLink F) (i : Nat) (reg : Reg.Reg) :
    KaStep now l (hkOne classic now l i reg).1 (hkOne classic now l i reg).2.2 ∧
    (∀ x ∈ (hkOne classic now l i reg).2.2, WireOrigin now [l] x) ∧
    (∀ cid, kaCount cid (hkOne classic now l i reg).2.2 ≤ if l.core.connId == cid then 2 else 0) := by
  have hrl := reconnected_lks l now
  unfold hkOne
  cases hto : l.isTimedOut now with
  | true =>
    simp only [if_true]
    cases hra : l.shouldAttemptReconnect now with
    | true =>
      simp only [if_true]
      cases hp : reg.pending with
      | none =>
        dsimp only
        refine ⟨⟨hrl.2, Or.inl hrl.1, fun _ h => by simp [hto] at h⟩, ?_, ?_⟩
        · intro x hx
          simp only [List.mem_cons, List.not_mem_nil, or_false] at hx
          subst hx
          exact Or.inr (Or.inr (reg2_type _))
        · intro cid
          have : Codec.getPacketTypeS (Reg.buildReg2 reg) = some 0x9201 := reg2_type _
          simp [kaCount, this]
      | some p =>
        dsimp only
        by_cases hpi : p = i
        · simp only [hpi, if_true]
          refine ⟨⟨hrl.2, Or.inl hrl.1, fun _ h => by simp [hto] at h⟩, ?_, ?_⟩
          · intro x hx
            simp only [List.mem_cons, List.not_mem_nil, or_false] at hx
            subst hx
            exact Or.inr (Or.inl (reg1_type _))
          · intro cid
            have : Codec.getPacketTypeS (Reg.buildReg1For reg i now).2 = some 0x9200 := reg1_type _
            simp [kaCount, this]
        · simp only [hpi, if_false]
          exact ⟨⟨hrl.2, Or.inl hrl.1, fun _ h => by simp [hto] at h⟩, by simp, by simp [kaCount]⟩
    | false =>
      simp only [Bool.false_eq_true, if_false]
      exact ⟨⟨rfl, Or.inl rfl, fun _ h => by simp [hto] at h⟩, by simp, by simp [kaCount]⟩
  | false =>
    simp only [Bool.false_eq_true, if_false]
    obtain ⟨h1, -, h3, h4, h5, h6⟩ := hkLive_spec classic now l
    refine ⟨⟨h1, h5, fun hc _ => h6 hc⟩, ?_, ?_⟩
    · intro x hx
      obtain ⟨rfl, hc⟩ := h3 x hx
      exact Or.inl ⟨l, by simp, rfl, hc, hto⟩
    · intro cid
      by_cases hcid : l.core.connId = cid
      · simp only [hcid, beq_self_eq_true, if_true]
        exact Nat.le_trans List.countP_le_length h4
      · have : (l.core.connId == cid) = false := by simpa using hcid
        simp only [this, Bool.false_eq_true, if_false, Nat.le_zero, kaCount, List.countP_eq_zero]
        intro x hx
        obtain ⟨rfl, -⟩ := h3 x hx
        simp [hcid]

/-- **The per-link pass of housekeeping.** -/
theorem hkLinksGo_spec (classic : Bool) (now : Nat) (ls : List (FLink F)) (i : Nat) (reg : Reg.Reg) :
    (hkLinksGo classic now ls i reg).1.length = ls.length ∧
    (∀ (j : Nat) l, ls[j]? = some l → ∃ l', (hkLinksGo classic now ls i reg).1[j]? = some l' ∧
      KaStep now l l' (hkLinksGo classic now ls i reg).2.2) ∧
    (∀ x ∈ (hkLinksGo classic now ls i reg).2.2, WireOrigin now ls x) ∧
    (∀ cid, kaCount cid (hkLinksGo classic now ls i reg).2.2 ≤
      2 * ls.countP (·.core.connId == cid)) := by
  induction ls generalizing i reg with
  | nil => simp [hkLinksGo, kaCount]
  | cons l rest ih =>
    rw [hkLinksGo_cons]
    obtain ⟨o1, o2, o3⟩ := hkOne_spec classic now l i reg
    obtain ⟨r1, r2, r3, r4⟩ := ih (i + 1) (hkOne classic now l i reg).2.1
    dsimp only
    refine ⟨by simp [r1], ?_, ?_, ?_⟩
    · intro j a ha
      cases j with
      | zero =>
        simp only [List.getElem?_cons_zero, Option.some.injEq] at ha
        subst ha
        exact ⟨_, by simp, o1.mono (fun x hx => List.mem_append_left _ hx)⟩
      | succ j =>
        simp only [List.getElem?_cons_succ] at ha
        obtain ⟨l', hl', hk⟩ := r2 j a ha
        exact ⟨l', by simpa using hl', hk.mono (fun x hx => List.mem_append_right _ hx)⟩
    · intro x hx
      rcases List.mem_append.mp hx with hx | hx
      · rcases o2 x hx with ⟨m, hm, h⟩ | h
        · exact Or.inl ⟨m, by simp at hm; simp [hm], h⟩
        · exact Or.inr h
      · rcases r3 x hx with ⟨m, hm, h⟩ | h
        · exact Or.inl ⟨m, List.mem_cons_of_mem _ hm, h⟩
        · exact Or.inr h
    · intro cid
      have h1 := o3 cid
      have h2 := r4 cid
      simp only [kaCount, List.countP_append, List.countP_cons] at h1 h2 ⊢
      split at h1 <;> rename_i hc <;> simp only [hc, if_true, if_false, Bool.false_eq_true] <;> omega

end Srtla.Keepalive
