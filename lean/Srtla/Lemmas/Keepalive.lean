import Srtla.Model.Sys
import Srtla.Lemmas.Codec
/-!
# Keepalive lemmas (C14): echo handling, frame construction, housekeeping cadence

Core Lean only; every statement holds for any `Scalar` instance (the float operations are opaque).
-/
namespace Srtla.Keepalive
open Srtla Srtla.Gen Srtla.Conn Srtla.Link Srtla.Sys Srtla.Rtt

variable {F : Type} [Scalar F]

/-! ## `handle_keepalive_response` -/

theorem unChk_some {α : Type} {x : Codec.Chk (Option α)} {a : α} (h : Codec.unChk none x = some a) :
    x = .ok (some a) := by
  cases x with
  | ok v => simpa [Codec.unChk] using h
  | panic => simp [Codec.unChk] at h

/-- A sample is returned only while a probe is outstanding, from a decodable echoed timestamp
whose age is in `(0, 10000]` ms; the post-state is the tracker fed with that sample, flag cleared. -/
theorem hkr_some (l : FLink F) (data : Codec.Bytes) (now r : Nat)
    (h : (l.handleKeepaliveResponse data now).2 = some r) :
    l.rtt.waiting = true ∧
    ∃ ts, Codec.extractKeepaliveTimestamp data = .ok (some ts) ∧ r = now - ts ∧ 0 < r ∧ r ≤ 10000 ∧
      (l.handleKeepaliveResponse data now).1 =
        { l with rtt := { (l.rtt.updateEstimate r now) with waiting := false } } := by
  have hmax := Lit.KEEPALIVE_RTT_MAX_MS_eq
  unfold FLink.handleKeepaliveResponse at h ⊢
  split at h
  · simp at h
  · rename_i hw
    simp only [Bool.not_eq_true, Bool.not_eq_false'] at hw
    simp only [hw, Bool.not_true, Bool.false_eq_true, if_false] at h ⊢
    split at h
    · rename_i ts hts
      split at h
      · rename_i hr
        simp only [Option.some.injEq] at h
        subst h
        refine ⟨trivial, ts, unChk_some hts, rfl, hr.1, by omega, ?_⟩
        simp only [hr, and_self, if_true]
      · simp at h
    · simp at h

/-- No sample: nothing but the outstanding-probe flag changes (and only if it was set). -/
theorem hkr_none (l : FLink F) (data : Codec.Bytes) (now : Nat)
    (h : (l.handleKeepaliveResponse data now).2 = none) :
    (l.handleKeepaliveResponse data now).1 =
      if l.rtt.waiting then { l with rtt := { l.rtt with waiting := false } } else l := by
  unfold FLink.handleKeepaliveResponse at h ⊢
  by_cases hw : l.rtt.waiting = true
  · simp only [hw, Bool.not_true, Bool.false_eq_true, if_false, if_true] at h ⊢
    split at h
    · rename_i ts hts
      split at h
      · simp at h
      · rename_i hr
        simp only [hr, if_false]
    · rfl
  · simp only [Bool.not_eq_true] at hw
    simp [hw]

/-- The flag clears on any reply that reaches this function. -/
theorem hkr_clears (l : FLink F) (data : Codec.Bytes) (now : Nat) :
    (l.handleKeepaliveResponse data now).1.rtt.waiting = false := by
  unfold FLink.handleKeepaliveResponse
  split
  · rename_i hw; simpa using hw
  · split
    · dsimp only
      split <;> rfl
    · rfl

/-- Only the RTT tracker of the link is touched. -/
theorem hkr_shell (l : FLink F) (data : Codec.Bytes) (now : Nat) :
    (l.handleKeepaliveResponse data now).1 =
      { l with rtt := (l.handleKeepaliveResponse data now).1.rtt } := by
  unfold FLink.handleKeepaliveResponse
  cases l
  dsimp only
  split
  · rfl
  · split
    · split <;> rfl
    · rfl

/-! ## `keepalive_packet` -/

/-- The telemetry the frame carries: read from the link state at the call. -/
def kaInfo (l : FLink F) : Codec.ConnInfo :=
  { connId := l.core.connId % 4294967296,
    window := l.core.window,
    inFlight := l.core.inFlight,
    rttMs := min (Scalar.toNatSat l.rtt.kalman.x) 4294967295,
    nakCount := Codec.i32ToU32 l.core.cong.nakCount,
    bitrate := min (Scalar.toNatSat (Scalar.div l.bitrate.current (Scalar.lit 8.0 8 1))) 4294967295 }

theorem keepalivePacket_pkt (l : FLink F) (now : Nat) :
    (l.keepalivePacket now).2 = Codec.createKeepaliveExt (kaInfo l) now := rfl

/-- What `keepalive_packet` does to the link: send stamps and (maybe) arming the RTT probe. -/
theorem keepalivePacket_link (l : FLink F) (now : Nat) :
    (l.keepalivePacket now).1 =
      { l with core := { l.core with lastSent := some now }, lastKeepaliveSent := some now,
               rtt := (l.keepalivePacket now).1.rtt } ∧
    (l.keepalivePacket now).1.rtt.kalman = l.rtt.kalman ∧
    (l.keepalivePacket now).1.rtt.lastRttMeasMs = l.rtt.lastRttMeasMs ∧
    ((l.keepalivePacket now).1.rtt = l.rtt ∨
     (l.rtt.waiting = false ∧
      (l.keepalivePacket now).1.rtt = { l.rtt with lastKeepaliveSentMs := now, waiting := true })) := by
  unfold FLink.keepalivePacket
  dsimp only
  refine ⟨rfl, ?_, ?_, ?_⟩
  · split <;> rfl
  · split <;> rfl
  · split
    · rename_i h
      right
      refine ⟨?_, rfl⟩
      simp only [Bool.and_eq_true, Bool.not_eq_true'] at h
      exact h.1
    · left; rfl

/-- A second frame built in the same tick carries the same bytes. -/
theorem keepalivePacket_twice (l : FLink F) (now : Nat) :
    ((l.keepalivePacket now).1.keepalivePacket now).2 = (l.keepalivePacket now).2 := by
  rw [keepalivePacket_pkt, keepalivePacket_pkt]
  have h := keepalivePacket_link l now
  unfold kaInfo
  rw [h.2.1]
  rw [h.1]

theorem keepalive_type (info : Codec.ConnInfo) (now : Nat) :
    Codec.getPacketTypeS (Codec.createKeepaliveExt info now) = some 0x9000 := by
  simp [Codec.createKeepaliveExt, Codec.toBE16, Codec.getPacketTypeS, Codec.be16]

theorem reg1_type (id : Codec.Bytes) : Codec.getPacketTypeS (Codec.createReg1 id) = some 0x9200 := by
  simp [Codec.createReg1, Codec.toBE16, Codec.getPacketTypeS, Codec.be16]

theorem reg2_type (id : Codec.Bytes) : Codec.getPacketTypeS (Codec.createReg2 id) = some 0x9201 := by
  simp [Codec.createReg2, Codec.toBE16, Codec.getPacketTypeS, Codec.be16]

/-! ## The per-link pass of `handle_housekeeping`, one link at a time -/

/-- A live (not timed out) link's housekeeping: keepalive if due, RTT probe if due, window recovery,
bitrate, phase, batch regime. -/
def hkLive (classic : Bool) (now : Nat) (l : FLink F) : FLink F × List (Nat × Codec.Bytes) :=
  let r1 : FLink F × List (Nat × Codec.Bytes) :=
    if l.needsKeepalive now then
      ((l.keepalivePacket now).1, [(l.core.connId, (l.keepalivePacket now).2)])
    else (l, [])
  let r2 : FLink F × List (Nat × Codec.Bytes) :=
    if r1.1.needsRttMeasurement now then
      ((r1.1.keepalivePacket now).1, [(l.core.connId, (r1.1.keepalivePacket now).2)])
    else (r1.1, [])
  let l3 := if !classic then r2.1.performWindowRecovery now else r2.1
  let l4 := { l3 with bitrate := l3.bitrate.calculate now }
  ((l4.updatePhase now).recomputeBatchRegime, r1.2 ++ r2.2)

/-- The link after the reconnect branch (before the REG1/REG2 send stamp). -/
def reconnected (l : FLink F) (now : Nat) : FLink F :=
  { ((l.recordAttempt now).resetForReconnect now) with
      failCount := 0, graceDeadline := now + Conn.STARTUP_GRACE_MS }

/-- The link after the reconnect branch, the socket re-creation having failed (`mark_for_recovery`
fallback) or succeeded. -/
def attempted (fails : Bool) (l : FLink F) (now : Nat) : FLink F :=
  if fails then (l.recordAttempt now).markForRecovery else reconnected l now

/-- The bind-failure injections left after the link was handled. -/
def hkFbK (now : Nat) (fb : List Nat) (l : FLink F) : List Nat :=
  if l.isTimedOut now && l.shouldAttemptReconnect now && fb.contains l.core.connId then fb.erase l.core.connId
  else fb

/-- One link of the pass: link, registration state, wire output (`fb`: pending bind-failure injections). -/
def hkOne (classic : Bool) (now : Nat) (l : FLink F) (i : Nat) (reg : Reg.Reg) (fb : List Nat) :
    FLink F × Reg.Reg × List (Nat × Codec.Bytes) :=
  if l.isTimedOut now then
    if l.shouldAttemptReconnect now then
      match reg.pending with
      | some p =>
        if p = i then
          ({ attempted (fb.contains l.core.connId) l now with
               core := { (attempted (fb.contains l.core.connId) l now).core with lastSent := some now } },
            (Reg.buildReg1For reg i now).1, [(l.core.connId, (Reg.buildReg1For reg i now).2)])
        else (attempted (fb.contains l.core.connId) l now, reg, [])
      | none =>
        ({ attempted (fb.contains l.core.connId) l now with
             core := { (attempted (fb.contains l.core.connId) l now).core with lastSent := some now } },
          reg, [(l.core.connId, Reg.buildReg2 reg)])
    else (l, reg, [])
  else ((hkLive classic now l).1, reg, (hkLive classic now l).2)

theorem hkLinksGo_cons (classic : Bool) (now : Nat) (l : FLink F) (rest : List (FLink F)) (i : Nat)
    (reg : Reg.Reg) (fb : List Nat) :
    hkLinksGo classic now (l :: rest) i reg fb =
      ((hkOne classic now l i reg fb).1 ::
         (hkLinksGo classic now rest (i + 1) (hkOne classic now l i reg fb).2.1 (hkFbK now fb l)).1,
       (hkLinksGo classic now rest (i + 1) (hkOne classic now l i reg fb).2.1 (hkFbK now fb l)).2.1,
       (hkOne classic now l i reg fb).2.2 ++
         (hkLinksGo classic now rest (i + 1) (hkOne classic now l i reg fb).2.1 (hkFbK now fb l)).2.2) := by
  rw [hkLinksGo]
  unfold hkOne hkFbK attempted reconnected
  cases hto : l.isTimedOut now with
  | true =>
    simp only [if_true]
    cases hra : l.shouldAttemptReconnect now with
    | true =>
      simp only [if_true, Bool.true_and]
      cases hf : fb.contains l.core.connId <;> simp only [Bool.false_eq_true, if_false, if_true] <;>
      · cases hp : reg.pending with
        | none => rfl
        | some p =>
          by_cases hpi : p = i
          · simp only [hpi, if_true]; rfl
          · simp only [hpi, if_false]; rfl
    | false => simp only [Bool.false_eq_true, if_false, Bool.and_false, Bool.false_and]; rfl
  | false =>
    simp only [Bool.false_eq_true, if_false, Bool.false_and]
    unfold hkLive
    cases h1 : l.needsKeepalive now with
    | true => simp only [if_true]
    | false => simp only [Bool.false_eq_true, if_false]

/-! ### Fields the tail of the live branch does not touch -/

section tail
variable (l : FLink F) (now : Nat)

@[simp] theorem pwr_lks : (l.performWindowRecovery now).lastKeepaliveSent = l.lastKeepaliveSent := rfl
@[simp] theorem pwr_connId : (l.performWindowRecovery now).core.connId = l.core.connId := rfl
@[simp] theorem pwr_connected : (l.performWindowRecovery now).core.connected = l.core.connected := rfl
@[simp] theorem rbr_lks : l.recomputeBatchRegime.lastKeepaliveSent = l.lastKeepaliveSent := rfl
@[simp] theorem rbr_core : l.recomputeBatchRegime.core = l.core := rfl
@[simp] theorem up_lks : (l.updatePhase now).lastKeepaliveSent = l.lastKeepaliveSent := by
  unfold FLink.updatePhase; dsimp only; split <;> (try split) <;> rfl
@[simp] theorem up_connId : (l.updatePhase now).core.connId = l.core.connId := by
  unfold FLink.updatePhase; dsimp only; split <;> (try split) <;> rfl
@[simp] theorem up_connected : (l.updatePhase now).core.connected = l.core.connected := by
  unfold FLink.updatePhase; dsimp only; split <;> (try split) <;> rfl

end tail

/-- The live branch, as far as the keepalive cadence is concerned. -/
theorem hkLive_spec (classic : Bool) (now : Nat) (l : FLink F) :
    (hkLive classic now l).1.core.connId = l.core.connId ∧
    (hkLive classic now l).1.core.connected = l.core.connected ∧
    (∀ x ∈ (hkLive classic now l).2,
      x = (l.core.connId, (l.keepalivePacket now).2) ∧ l.core.connected = true) ∧
    (hkLive classic now l).2.length ≤ 2 ∧
    ((hkLive classic now l).1.lastKeepaliveSent = l.lastKeepaliveSent ∨
      ((hkLive classic now l).1.lastKeepaliveSent = some now ∧
        (l.core.connId, (l.keepalivePacket now).2) ∈ (hkLive classic now l).2)) ∧
    (l.core.connected = true →
      ∃ t, (hkLive classic now l).1.lastKeepaliveSent = some t ∧ now - t < 1000) := by
  have hidle := Proto.IDLE_TIME_eq
  have hcK : l.needsKeepalive now = true → l.core.connected = true := by
    unfold FLink.needsKeepalive
    cases l.core.connected <;> simp
  have hcR : ∀ m : FLink F, m.needsRttMeasurement now = true → m.core.connected = true := by
    intro m
    unfold FLink.needsRttMeasurement
    split
    · simp
    · simp only [Bool.and_eq_true]; intro h; exact h.1.1
  have hK := keepalivePacket_link l now
  have hlk1 : (l.keepalivePacket now).1.lastKeepaliveSent = some now := by rw [hK.1]
  have hci1 : (l.keepalivePacket now).1.core.connId = l.core.connId := by rw [hK.1]
  have hcc1 : (l.keepalivePacket now).1.core.connected = l.core.connected := by rw [hK.1]
  unfold hkLive
  cases classic <;>
  · simp only [Bool.not_false, Bool.not_true, if_true, Bool.false_eq_true, if_false, rbr_lks, rbr_core,
      up_lks, up_connId, up_connected, pwr_lks, pwr_connId, pwr_connected]
    cases h1 : l.needsKeepalive now with
    | true =>
      have hc := hcK h1
      simp only [if_true]
      cases h2 : (l.keepalivePacket now).1.needsRttMeasurement now with
      | true =>
        simp only [if_true]
        have hK2 := keepalivePacket_link (l.keepalivePacket now).1 now
        refine ⟨by rw [hK2.1]; exact hci1, by rw [hK2.1]; exact hcc1, ?_, by simp, ?_, ?_⟩
        · intro x hx
          simp only [List.cons_append, List.nil_append, List.mem_cons, List.not_mem_nil, or_false] at hx
          rcases hx with rfl | rfl
          · exact ⟨rfl, hc⟩
          · exact ⟨by rw [keepalivePacket_twice], hc⟩
        · right; exact ⟨by rw [hK2.1], by simp⟩
        · intro _; exact ⟨now, by rw [hK2.1], by omega⟩
      | false =>
        simp only [Bool.false_eq_true, if_false]
        refine ⟨hci1, hcc1, ?_, by simp, ?_, ?_⟩
        · intro x hx
          simp only [List.append_nil, List.mem_cons, List.not_mem_nil, or_false] at hx
          subst hx; exact ⟨rfl, hc⟩
        · right; exact ⟨hlk1, by simp⟩
        · intro _; exact ⟨now, hlk1, by omega⟩
    | false =>
      simp only [Bool.false_eq_true, if_false]
      cases h2 : l.needsRttMeasurement now with
      | true =>
        have hc := hcR l h2
        simp only [if_true]
        refine ⟨hci1, hcc1, ?_, by simp, ?_, ?_⟩
        · intro x hx
          simp only [List.nil_append, List.mem_cons, List.not_mem_nil, or_false] at hx
          subst hx; exact ⟨rfl, hc⟩
        · right; exact ⟨hlk1, by simp⟩
        · intro _; exact ⟨now, hlk1, by omega⟩
      | false =>
        simp only [Bool.false_eq_true, if_false]
        refine ⟨trivial, trivial, by simp, by simp, Or.inl trivial, ?_⟩
        intro hc
        unfold FLink.needsKeepalive at h1
        simp only [hc, Bool.not_true, Bool.false_eq_true, if_false] at h1
        split at h1
        · simp at h1
        · rename_i last hlast
          refine ⟨last, hlast, ?_⟩
          simp only [decide_eq_false_iff_not] at h1
          omega

/-! ### One link, then the whole pass -/

/-- What the pass guarantees for the link `l` (→ `l'`); `w` is wire output that contains the link's
own contribution. -/
structure KaStep (now : Nat) (l l' : FLink F) (w : List (Nat × Codec.Bytes)) : Prop where
  connId : l'.core.connId = l.core.connId
  change : l'.lastKeepaliveSent = l.lastKeepaliveSent ∨
    -- cleared: a timed-out link whose socket re-creation failed is marked for recovery
    l'.lastKeepaliveSent = none ∨
    (l'.lastKeepaliveSent = some now ∧ (l.core.connId, (l.keepalivePacket now).2) ∈ w)
  fresh : l.core.connected = true → l.isTimedOut now = false →
    ∃ t, l'.lastKeepaliveSent = some t ∧ now - t < 1000

theorem KaStep.mono {now : Nat} {l l' : FLink F} {w w' : List (Nat × Codec.Bytes)}
    (h : KaStep now l l' w) (hw : ∀ x ∈ w, x ∈ w') : KaStep now l l' w' :=
  ⟨h.connId, h.change.imp id (Or.imp id fun ⟨a, b⟩ => ⟨a, hw _ b⟩), h.fresh⟩

/-- The keepalive-typed datagrams for conn id `cid` in a wire list. -/
def kaCount (cid : Nat) (w : List (Nat × Codec.Bytes)) : Nat :=
  w.countP fun x => x.1 == cid && Codec.getPacketTypeS x.2 == some 0x9000

/-- Where a wire datagram of the per-link pass comes from. -/
def WireOrigin (now : Nat) (ls : List (FLink F)) (x : Nat × Codec.Bytes) : Prop :=
  (∃ l ∈ ls, x = (l.core.connId, (l.keepalivePacket now).2) ∧ l.core.connected = true ∧
    l.isTimedOut now = false) ∨
  Codec.getPacketTypeS x.2 = some 0x9200 ∨ Codec.getPacketTypeS x.2 = some 0x9201

theorem reconnected_lks (l : FLink F) (now : Nat) :
    (reconnected l now).lastKeepaliveSent = l.lastKeepaliveSent ∧
    (reconnected l now).core.connId = l.core.connId := by
  unfold reconnected FLink.resetForReconnect FLink.resetCoreState FLink.recordAttempt Conn.resetCore
  split <;> exact ⟨rfl, rfl⟩

theorem attempted_lks (fails : Bool) (l : FLink F) (now : Nat) :
    ((attempted fails l now).lastKeepaliveSent = l.lastKeepaliveSent ∨
      (attempted fails l now).lastKeepaliveSent = none) ∧
    (attempted fails l now).core.connId = l.core.connId := by
  cases fails
  · exact ⟨Or.inl (reconnected_lks l now).1, (reconnected_lks l now).2⟩
  · refine ⟨Or.inr rfl, ?_⟩
    unfold attempted FLink.recordAttempt
    simp only [if_true]
    split <;> rfl

theorem hkOne_spec (classic : Bool) (now : Nat) (l : FLink F) (i : Nat) (reg : Reg.Reg) (fb : List Nat) :
    KaStep now l (hkOne classic now l i reg fb).1 (hkOne classic now l i reg fb).2.2 ∧
    (∀ x ∈ (hkOne classic now l i reg fb).2.2, WireOrigin now [l] x) ∧
    (∀ cid, kaCount cid (hkOne classic now l i reg fb).2.2 ≤ if l.core.connId == cid then 2 else 0) := by
  have hrl : ((attempted (fb.contains l.core.connId) l now).lastKeepaliveSent = l.lastKeepaliveSent ∨
      (attempted (fb.contains l.core.connId) l now).lastKeepaliveSent = none ∨
      ((attempted (fb.contains l.core.connId) l now).lastKeepaliveSent = some now ∧
        (l.core.connId, (l.keepalivePacket now).2) ∈ ([] : List (Nat × Codec.Bytes)))) ∧
      (attempted (fb.contains l.core.connId) l now).core.connId = l.core.connId :=
    ⟨(attempted_lks _ l now).1.imp id Or.inl, (attempted_lks _ l now).2⟩
  unfold hkOne
  cases hto : l.isTimedOut now with
  | true =>
    simp only [if_true]
    cases hra : l.shouldAttemptReconnect now with
    | true =>
      simp only [if_true]
      cases hp : reg.pending with
      | none =>
        dsimp only
        refine ⟨⟨hrl.2, hrl.1.imp id (Or.imp id fun h => absurd h.2 (by simp)), fun _ h => by simp [hto] at h⟩, ?_, ?_⟩
        · intro x hx
          simp only [List.mem_cons, List.not_mem_nil, or_false] at hx
          subst hx
          exact Or.inr (Or.inr (reg2_type _))
        · intro cid
          have : Codec.getPacketTypeS (Reg.buildReg2 reg) = some 0x9201 := reg2_type _
          simp [kaCount, this]
      | some p =>
        dsimp only
        by_cases hpi : p = i
        · simp only [hpi, if_true]
          refine ⟨⟨hrl.2, hrl.1.imp id (Or.imp id fun h => absurd h.2 (by simp)), fun _ h => by simp [hto] at h⟩, ?_, ?_⟩
          · intro x hx
            simp only [List.mem_cons, List.not_mem_nil, or_false] at hx
            subst hx
            exact Or.inr (Or.inl (reg1_type _))
          · intro cid
            have : Codec.getPacketTypeS (Reg.buildReg1For reg i now).2 = some 0x9200 := reg1_type _
            simp [kaCount, this]
        · simp only [hpi, if_false]
          exact ⟨⟨hrl.2, hrl.1.imp id (Or.imp id fun h => absurd h.2 (by simp)), fun _ h => by simp [hto] at h⟩, by simp, by simp [kaCount]⟩
    | false =>
      simp only [Bool.false_eq_true, if_false]
      exact ⟨⟨rfl, Or.inl rfl, fun _ h => by simp [hto] at h⟩, by simp, by simp [kaCount]⟩
  | false =>
    simp only [Bool.false_eq_true, if_false]
    obtain ⟨h1, -, h3, h4, h5, h6⟩ := hkLive_spec classic now l
    refine ⟨⟨h1, h5.imp id Or.inr, fun hc _ => h6 hc⟩, ?_, ?_⟩
    · intro x hx
      obtain ⟨rfl, hc⟩ := h3 x hx
      exact Or.inl ⟨l, by simp, rfl, hc, hto⟩
    · intro cid
      by_cases hcid : l.core.connId = cid
      · simp only [hcid, beq_self_eq_true, if_true]
        exact Nat.le_trans List.countP_le_length h4
      · have : (l.core.connId == cid) = false := by simpa using hcid
        simp only [this, Bool.false_eq_true, if_false, Nat.le_zero, kaCount, List.countP_eq_zero]
        intro x hx
        obtain ⟨rfl, -⟩ := h3 x hx
        simp [hcid]

/-- **The per-link pass of housekeeping.** -/
theorem hkLinksGo_spec (classic : Bool) (now : Nat) (ls : List (FLink F)) (i : Nat) (reg : Reg.Reg)
    (fb : List Nat) :
    (hkLinksGo classic now ls i reg fb).1.length = ls.length ∧
    (∀ (j : Nat) l, ls[j]? = some l → ∃ l', (hkLinksGo classic now ls i reg fb).1[j]? = some l' ∧
      KaStep now l l' (hkLinksGo classic now ls i reg fb).2.2) ∧
    (∀ x ∈ (hkLinksGo classic now ls i reg fb).2.2, WireOrigin now ls x) ∧
    (∀ cid, kaCount cid (hkLinksGo classic now ls i reg fb).2.2 ≤
      2 * ls.countP (·.core.connId == cid)) := by
  induction ls generalizing i reg fb with
  | nil => simp [hkLinksGo, kaCount]
  | cons l rest ih =>
    rw [hkLinksGo_cons]
    obtain ⟨o1, o2, o3⟩ := hkOne_spec classic now l i reg fb
    obtain ⟨r1, r2, r3, r4⟩ := ih (i + 1) (hkOne classic now l i reg fb).2.1 (hkFbK now fb l)
    dsimp only
    refine ⟨by simp [r1], ?_, ?_, ?_⟩
    · intro j a ha
      cases j with
      | zero =>
        simp only [List.getElem?_cons_zero, Option.some.injEq] at ha
        subst ha
        exact ⟨_, by simp, o1.mono (fun x hx => List.mem_append_left _ hx)⟩
      | succ j =>
        simp only [List.getElem?_cons_succ] at ha
        obtain ⟨l', hl', hk⟩ := r2 j a ha
        exact ⟨l', by simpa using hl', hk.mono (fun x hx => List.mem_append_right _ hx)⟩
    · intro x hx
      rcases List.mem_append.mp hx with hx | hx
      · rcases o2 x hx with ⟨m, hm, h⟩ | h
        · exact Or.inl ⟨m, by simp at hm; simp [hm], h⟩
        · exact Or.inr h
      · rcases r3 x hx with ⟨m, hm, h⟩ | h
        · exact Or.inl ⟨m, List.mem_cons_of_mem _ hm, h⟩
        · exact Or.inr h
    · intro cid
      have h1 := o3 cid
      have h2 := r4 cid
      simp only [kaCount, List.countP_append, List.countP_cons] at h1 h2 ⊢
      split at h1 <;> rename_i hc <;> simp only [hc, if_true, if_false, Bool.false_eq_true] <;> omega

/-! ## `handle_housekeeping` around the per-link pass -/

/-- Links handed to the per-link pass: the probing-completion step may reset one grace window. -/
def hkPre (s : Sys F) (now : Nat) : Reg.Reg × List (FLink F) :=
  if Reg.isProbing (Reg.clearPendingIfTimedOut s.reg now).1 then
    if !Reg.isProbing (Reg.checkProbingComplete (Reg.clearPendingIfTimedOut s.reg now).1 now).1 then
      match (Reg.checkProbingComplete (Reg.clearPendingIfTimedOut s.reg now).1 now).1.target with
      | some idx =>
        ((Reg.checkProbingComplete (Reg.clearPendingIfTimedOut s.reg now).1 now).1,
          s.links.mapIdx fun j l => if j = idx then { l with graceDeadline := now + Conn.STARTUP_GRACE_MS } else l)
      | none => ((Reg.checkProbingComplete (Reg.clearPendingIfTimedOut s.reg now).1 now).1, s.links)
    else ((Reg.checkProbingComplete (Reg.clearPendingIfTimedOut s.reg now).1 now).1, s.links)
  else ((Reg.clearPendingIfTimedOut s.reg now).1, s.links)

def hkLs2 (ls1 : List (FLink F)) (now : Nat) (sends : Reg.DriverSends) :
    List (FLink F) × List (Nat × Codec.Bytes) :=
  match sends.reg1 with
  | some (idx, pkt) =>
    match ls1[idx]? with
    | some l => (setAt ls1 idx { l with core := { l.core with lastSent := some now } }, [(l.core.connId, pkt)])
    | none => (ls1, [])
  | none => (ls1, [])

def hkLs3 (ls2 : List (FLink F)) (now : Nat) (sends : Reg.DriverSends) :
    List (FLink F) × List (Nat × Codec.Bytes) :=
  match sends.broadcastReg2 with
  | some pkt => (ls2.map fun (l : FLink F) => { l with core := { l.core with lastSent := some now } },
                 ls2.map fun (l : FLink F) => (l.core.connId, pkt))
  | none => (ls2, [])

def hkSends (ls1 : List (FLink F)) (reg2 : Reg.Reg) (now : Nat) : Reg.DriverSends :=
  (Reg.regDriverPendingSends (Reg.updateActiveConnections reg2 (ls1.map (·.core.connected))) now).2


/-- The links and registration state after the per-link pass. -/
def hkMid (s : Sys F) (now : Nat) : List (FLink F) × Reg.Reg × List (Nat × Codec.Bytes) :=
  hkLinksGo s.cfg.classic now (hkPre s now).2 0 (hkPre s now).1 s.failBind

theorem handleHousekeeping_links (s : Sys F) (now : Nat) :
    (handleHousekeeping s now).1.links =
      (hkLs3 (hkLs2 (hkMid s now).1 now (hkSends (hkMid s now).1 (hkMid s now).2.1 now)).1 now
        (hkSends (hkMid s now).1 (hkMid s now).2.1 now)).1 := rfl

theorem handleHousekeeping_wire (s : Sys F) (now : Nat) :
    (handleHousekeeping s now).2.wire =
      (hkMid s now).2.2 ++ (hkLs2 (hkMid s now).1 now (hkSends (hkMid s now).1 (hkMid s now).2.1 now)).2 ++
      (hkLs3 (hkLs2 (hkMid s now).1 now (hkSends (hkMid s now).1 (hkMid s now).2.1 now)).1 now
        (hkSends (hkMid s now).1 (hkMid s now).2.1 now)).2 := rfl

/-- `l0` is `l` up to the start-up grace deadline. -/
def GraceOnly (now : Nat) (l l0 : FLink F) : Prop :=
  l0 = l ∨ l0 = { l with graceDeadline := now + Conn.STARTUP_GRACE_MS }

omit [Scalar F] in
theorem hkPre_spec (s : Sys F) (now : Nat) :
    (hkPre s now).2.length = s.links.length ∧
    ∀ (j : Nat) l, s.links[j]? = some l → ∃ l0, (hkPre s now).2[j]? = some l0 ∧ GraceOnly now l l0 := by
  unfold hkPre
  split
  · split
    · split
      · refine ⟨by simp, ?_⟩
        intro j l hl
        rw [List.getElem?_mapIdx, hl]
        simp only [Option.map_some]
        split
        · exact ⟨_, rfl, Or.inr rfl⟩
        · exact ⟨_, rfl, Or.inl rfl⟩
      · exact ⟨rfl, fun j l hl => ⟨l, hl, Or.inl rfl⟩⟩
    · exact ⟨rfl, fun j l hl => ⟨l, hl, Or.inl rfl⟩⟩
  · exact ⟨rfl, fun j l hl => ⟨l, hl, Or.inl rfl⟩⟩

theorem graceOnly_kaStep {now : Nat} {l l0 l' : FLink F} {w : List (Nat × Codec.Bytes)}
    (hg : GraceOnly now l l0) (h : KaStep now l0 l' w) : KaStep now l l' w := by
  rcases hg with rfl | rfl
  · exact h
  · refine ⟨h.connId, h.change, ?_⟩
    intro hc hto
    apply h.fresh hc
    unfold FLink.isTimedOut Select.isTimedOut FLink.toSLink at hto ⊢
    simp only [hc, Bool.not_true, Bool.false_eq_true, if_false] at hto ⊢
    exact hto

/-- Only `last_sent` may differ. -/
def SentOnly (l l' : FLink F) : Prop :=
  l'.lastKeepaliveSent = l.lastKeepaliveSent ∧ l'.core.connId = l.core.connId

omit [Scalar F] in
theorem getElem?_setAt' (ls : List (FLink F)) (i j : Nat) (x : FLink F) :
    (setAt ls i x)[j]? = if j = i then (ls[j]?).map (fun _ => x) else ls[j]? := by
  unfold setAt
  rw [List.getElem?_mapIdx]
  split
  · rfl
  · cases ls[j]? <;> rfl

omit [Scalar F] in
theorem hkLs2_spec (ls1 : List (FLink F)) (now : Nat) (sends : Reg.DriverSends) :
    (hkLs2 ls1 now sends).1.length = ls1.length ∧
    (∀ (j : Nat) l, ls1[j]? = some l → ∃ l', (hkLs2 ls1 now sends).1[j]? = some l' ∧ SentOnly l l') ∧
    (∀ x ∈ (hkLs2 ls1 now sends).2, ∃ idx, sends.reg1 = some (idx, x.2)) := by
  unfold hkLs2
  split
  · rename_i idx pkt hs
    split
    · rename_i l0 hl0
      refine ⟨by simp [setAt], ?_, ?_⟩
      · intro j l hl
        rw [getElem?_setAt', hl]
        split
        · rename_i hj; subst hj
          rw [hl0] at hl; cases hl
          exact ⟨_, rfl, rfl, rfl⟩
        · exact ⟨l, rfl, rfl, rfl⟩
      · intro x hx
        simp only [List.mem_cons, List.not_mem_nil, or_false] at hx
        subst hx
        exact ⟨idx, hs⟩
    · exact ⟨rfl, fun j l hl => ⟨l, hl, rfl, rfl⟩, by simp⟩
  · exact ⟨rfl, fun j l hl => ⟨l, hl, rfl, rfl⟩, by simp⟩

omit [Scalar F] in
theorem hkLs3_spec (ls2 : List (FLink F)) (now : Nat) (sends : Reg.DriverSends) :
    (hkLs3 ls2 now sends).1.length = ls2.length ∧
    (∀ (j : Nat) l, ls2[j]? = some l → ∃ l', (hkLs3 ls2 now sends).1[j]? = some l' ∧ SentOnly l l') ∧
    (∀ x ∈ (hkLs3 ls2 now sends).2, sends.broadcastReg2 = some x.2) := by
  unfold hkLs3
  split
  · rename_i pkt hs
    refine ⟨by simp, ?_, ?_⟩
    · intro j l hl
      rw [List.getElem?_map, hl]
      exact ⟨_, rfl, rfl, rfl⟩
    · intro x hx
      simp only [List.mem_map] at hx
      obtain ⟨l, -, rfl⟩ := hx
      exact hs
  · exact ⟨rfl, fun j l hl => ⟨l, hl, rfl, rfl⟩, by simp⟩

theorem regDriver_types (r : Reg.Reg) (now : Nat) :
    (∀ idx pkt, (Reg.regDriverPendingSends r now).2.reg1 = some (idx, pkt) →
      Codec.getPacketTypeS pkt = some 0x9200) ∧
    (∀ pkt, (Reg.regDriverPendingSends r now).2.broadcastReg2 = some pkt →
      Codec.getPacketTypeS pkt = some 0x9201) := by
  unfold Reg.regDriverPendingSends
  dsimp only
  constructor
  · intro idx pkt h
    unfold Reg.driverReg1 at h
    split at h
    · split at h
      · split at h
        · simp only [Option.some.injEq, Prod.mk.injEq] at h
          rw [← h.2]; exact reg1_type _
        · simp at h
      · simp at h
    · simp at h
  · intro pkt h
    unfold Reg.driverBroadcast at h
    split at h
    · simp only [Option.some.injEq] at h
      rw [← h]; exact reg2_type _
    · simp at h

/-- **Housekeeping tick, per link**: the links keep their positions; link `j` goes `l → l'` with the
cadence guarantees of `KaStep` against the tick's whole wire output; every keepalive-typed datagram
of the tick is the frame of a connected, not timed out link built from that link's state at the
tick; per conn id there are at most two of them per link carrying that id. -/
theorem handleHousekeeping_spec (s : Sys F) (now : Nat) :
    (handleHousekeeping s now).1.links.length = s.links.length ∧
    (∀ (j : Nat) l, s.links[j]? = some l → ∃ l', (handleHousekeeping s now).1.links[j]? = some l' ∧
      KaStep now l l' (handleHousekeeping s now).2.wire) ∧
    (∀ x ∈ (handleHousekeeping s now).2.wire, Codec.getPacketTypeS x.2 = some 0x9000 →
      ∃ l ∈ s.links, x = (l.core.connId, (l.keepalivePacket now).2) ∧ l.core.connected = true ∧
        l.isTimedOut now = false) ∧
    (∀ cid, kaCount cid (handleHousekeeping s now).2.wire ≤ 2 * s.links.countP (·.core.connId == cid)) := by
  rw [handleHousekeeping_links, handleHousekeeping_wire]
  obtain ⟨p1, p2⟩ := hkPre_spec s now
  obtain ⟨m1, m2, m3, m4⟩ := hkLinksGo_spec s.cfg.classic now (hkPre s now).2 0 (hkPre s now).1 s.failBind
  have ht := regDriver_types
    (Reg.updateActiveConnections (hkMid s now).2.1 ((hkMid s now).1.map (·.core.connected))) now
  generalize hsd : hkSends (hkMid s now).1 (hkMid s now).2.1 now = sends at *
  have hsd' : (Reg.regDriverPendingSends
      (Reg.updateActiveConnections (hkMid s now).2.1 ((hkMid s now).1.map (·.core.connected))) now).2 = sends := hsd
  rw [hsd'] at ht
  obtain ⟨a1, a2, a3⟩ := hkLs2_spec (hkMid s now).1 now sends
  obtain ⟨b1, b2, b3⟩ := hkLs3_spec (hkLs2 (hkMid s now).1 now sends).1 now sends
  change (hkMid s now).1.length = _ at m1
  have hnka2 : ∀ x ∈ (hkLs2 (hkMid s now).1 now sends).2, Codec.getPacketTypeS x.2 = some 0x9200 := by
    intro x hx; obtain ⟨idx, h⟩ := a3 x hx; exact ht.1 idx x.2 h
  have hnka3 : ∀ x ∈ (hkLs3 (hkLs2 (hkMid s now).1 now sends).1 now sends).2,
      Codec.getPacketTypeS x.2 = some 0x9201 := by
    intro x hx; exact ht.2 x.2 (b3 x hx)
  refine ⟨by rw [b1, a1, m1, p1], ?_, ?_, ?_⟩
  · intro j l hl
    obtain ⟨l0, hl0, hg⟩ := p2 j l hl
    obtain ⟨l1, hl1, hk⟩ := m2 j l0 hl0
    obtain ⟨l2, hl2, hs2⟩ := a2 j l1 hl1
    obtain ⟨l3, hl3, hs3⟩ := b2 j l2 hl2
    refine ⟨l3, hl3, ?_⟩
    have hk' := graceOnly_kaStep hg hk
    refine ⟨by rw [hs3.2, hs2.2]; exact hk'.connId, ?_, ?_⟩
    · rw [hs3.1, hs2.1]
      refine hk'.change.imp id (Or.imp id fun ⟨h1, h2⟩ => ⟨h1, ?_⟩)
      exact List.mem_append_left _ (List.mem_append_left _ h2)
    · intro hc hto
      rw [hs3.1, hs2.1]
      exact hk'.fresh hc hto
  · intro x hx hty
    rcases List.mem_append.mp hx with hx | hx
    · rcases List.mem_append.mp hx with hx | hx
      · rcases m3 x hx with ⟨l0, hl0, rfl, hc, hto⟩ | h | h
        · obtain ⟨j, hj⟩ := List.mem_iff_getElem?.mp hl0
          obtain ⟨hlt, -⟩ := List.getElem?_eq_some_iff.mp hj
          have hlt' : j < s.links.length := by omega
          obtain ⟨l0', hl0', hg⟩ := p2 j s.links[j] (List.getElem?_eq_getElem hlt')
          rw [hj] at hl0'; cases hl0'
          refine ⟨s.links[j], List.getElem_mem hlt', ?_⟩
          rcases hg with rfl | rfl
          · exact ⟨rfl, hc, hto⟩
          · refine ⟨rfl, hc, ?_⟩
            have hc' : (s.links[j]).core.connected = true := hc
            unfold FLink.isTimedOut Select.isTimedOut FLink.toSLink at hto ⊢
            simp only [hc', Bool.not_true, Bool.false_eq_true, if_false] at hto ⊢
            exact hto
        · rw [h] at hty; simp at hty
        · rw [h] at hty; simp at hty
      · rw [hnka2 x hx] at hty; simp at hty
    · rw [hnka3 x hx] at hty; simp at hty
  · intro cid
    have h0 : kaCount cid (hkLs2 (hkMid s now).1 now sends).2 = 0 := by
      simp only [kaCount, List.countP_eq_zero]
      intro x hx; simp [hnka2 x hx]
    have h1 : kaCount cid (hkLs3 (hkLs2 (hkMid s now).1 now sends).1 now sends).2 = 0 := by
      simp only [kaCount, List.countP_eq_zero]
      intro x hx; simp [hnka3 x hx]
    have h2 := m4 cid
    have h3 : (hkPre s now).2.countP (·.core.connId == cid) = s.links.countP (·.core.connId == cid) := by
      have : (hkPre s now).2.map (·.core.connId) = s.links.map (·.core.connId) := by
        apply List.ext_getElem?
        intro j
        rw [List.getElem?_map, List.getElem?_map]
        cases hj : s.links[j]? with
        | none =>
          have : (hkPre s now).2[j]? = none := by
            rw [List.getElem?_eq_none_iff] at hj ⊢; omega
          rw [this]
        | some l =>
          obtain ⟨l0, hl0, hg⟩ := p2 j l hj
          rw [hl0]
          rcases hg with rfl | rfl <;> rfl
      have e : ∀ ls : List (FLink F), ls.countP (·.core.connId == cid) =
          (ls.map (·.core.connId)).countP (· == cid) := by
        intro ls; rw [List.countP_map]; rfl
      rw [e, e, this]
    simp only [kaCount, List.countP_append] at h0 h1 h2 ⊢
    change List.countP _ (hkMid s now).2.2 ≤ _ at h2
    omega

end Srtla.Keepalive
