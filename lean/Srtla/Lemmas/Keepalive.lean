import Srtla.Model.Sys
import Srtla.Lemmas.Codec
/-!
# Keepalive lemmas (C14): echo handling, frame construction, housekeeping cadence

Core Lean only; every statement holds for any `Scalar` instance (the float operations are opaque).
-/
namespace Srtla.Keepalive
open Srtla Srtla.Gen Srtla.Conn Srtla.Link Srtla.Sys Srtla.Rtt

variable {F : Type} [Scalar F]

/-! ## `handle_keepalive_response` -/

theorem unChk_some {α : Type} {x : Codec.Chk (Option α)} {a : α} (h : Codec.unChk none x = some a) :
    x = .ok (some a) := by
  cases x with
  | ok v => simpa [Codec.unChk] using h
  | panic => simp [Codec.unChk] at h

/-- A sample is returned only while a probe is outstanding, from a decodable echoed timestamp
whose age is in `(0, 10000]` ms; the post-state is the tracker fed with that sample, flag cleared. -/
theorem hkr_some (l : FLink F) (data : Codec.Bytes) (now r : Nat)
    (h : (l.handleKeepaliveResponse data now).2 = some r) :
    l.rtt.waiting = true ∧
    ∃ ts, Codec.extractKeepaliveTimestamp data = .ok (some ts) ∧ r = now - ts ∧ 0 < r ∧ r ≤ 10000 ∧
      (l.handleKeepaliveResponse data now).1 =
        { l with rtt := { (l.rtt.updateEstimate r now) with waiting := false } } := by
  have hmax := Lit.KEEPALIVE_RTT_MAX_MS_eq
  unfold FLink.handleKeepaliveResponse at h ⊢
  split at h
  · simp at h
  · rename_i hw
    simp only [Bool.not_eq_true, Bool.not_eq_false'] at hw
    simp only [hw, Bool.not_true, Bool.false_eq_true, if_false] at h ⊢
    split at h
    · rename_i ts hts
      split at h
      · rename_i hr
        simp only [Option.some.injEq] at h
        subst h
        refine ⟨trivial, ts, unChk_some hts, rfl, hr.1, by omega, ?_⟩
        simp only [hr, and_self, if_true]
      · simp at h
    · simp at h

/-- No sample: nothing but the outstanding-probe flag changes (and only if it was set). -/
theorem hkr_none (l : FLink F) (data : Codec.Bytes) (now : Nat)
    (h : (l.handleKeepaliveResponse data now).2 = none) :
    (l.handleKeepaliveResponse data now).1 =
      if l.rtt.waiting then { l with rtt := { l.rtt with waiting := false } } else l := by
  unfold FLink.handleKeepaliveResponse at h ⊢
  by_cases hw : l.rtt.waiting = true
  · simp only [hw, Bool.not_true, Bool.false_eq_true, if_false, if_true] at h ⊢
    split at h
    · rename_i ts hts
      split at h
      · simp at h
      · rename_i hr
        simp only [hr, if_false]
    · rfl
  · simp only [Bool.not_eq_true] at hw
    simp [hw]

/-- The flag clears on any reply that reaches this function. -/
theorem hkr_clears (l : FLink F) (data : Codec.Bytes) (now : Nat) :
    (l.handleKeepaliveResponse data now).1.rtt.waiting = false := by
  unfold FLink.handleKeepaliveResponse
  split
  · rename_i hw; simpa using hw
  · split
    · dsimp only
      split <;> rfl
    · rfl

/-- Only the RTT tracker of the link is touched. -/
theorem hkr_shell (l : FLink F) (data : Codec.Bytes) (now : Nat) :
    (l.handleKeepaliveResponse data now).1 =
      { l with rtt := (l.handleKeepaliveResponse data now).1.rtt } := by
  unfold FLink.handleKeepaliveResponse
  cases l
  dsimp only
  split
  · rfl
  · split
    · split <;> rfl
    · rfl

end Srtla.Keepalive
