import Srtla.Model.Classifier
/-!
# Lemmas for the weak-link classifier model (core Lean only)

One-step facts about the integer/boolean decision skeleton `linkStep`, facts about the
association-list state (`lookupLast`, `nextState`), and the inductive invariants over histories.
The float front end (`delaySignal`, `sharePermille`, `bypass`, …) is never unfolded: every lemma
holds for whatever values those functions return.
-/
namespace Srtla.Classifier
open Srtla.Gen

def Reason.isDelay (r : Reason) : Prop := r = .HighRtt ∨ r = .QueueBuilding
def Reason.isShare (r : Reason) : Prop := r = .LowShare ∨ r = .NoTraffic

instance (r : Reason) : Decidable r.isDelay := by unfold Reason.isDelay; infer_instance
instance (r : Reason) : Decidable r.isShare := by unfold Reason.isShare; infer_instance

/-- The delay signal is `None`, `HighRtt` or `QueueBuilding` — nothing else. -/
def Sig.wf (sg : Sig) : Prop :=
  sg.delay = none ∨ sg.delay = some .HighRtt ∨ sg.delay = some .QueueBuilding

theorem delaySignal_cases (t : Tick) (l : LinkIn) :
    delaySignal t l = none ∨ delaySignal t l = some .HighRtt ∨ delaySignal t l = some .QueueBuilding := by
  unfold delaySignal
  split
  · simp
  · split <;> simp

theorem sigOf_wf (t : Tick) (l : LinkIn) : (sigOf t l).wf := by
  unfold Sig.wf sigOf
  exact delaySignal_cases t l

theorem satInc_ge_two {x : Nat} (h : satInc x ≥ 2) : x ≥ 1 := by
  unfold satInc at h
  split at h <;> omega

theorem satInc_pos (x : Nat) : satInc x ≥ 1 := by
  unfold satInc
  split <;> omega

theorem satInc_small {x : Nat} (h : x ≤ 14) : satInc x = x + 1 := by
  unfold satInc
  split <;> omega

/-! ## One-step facts about `preVerdict` and `linkStep` -/

section step
variable (e lv : Nat) (m : Mem) (sg : Sig)

theorem delayStreakOf_pos (h : delayStreakOf m sg ≥ 1) : sg.delay.isSome = true := by
  unfold delayStreakOf at h
  split at h
  · assumption
  · omega

theorem delayStreakOf_ge_two (h : delayStreakOf m sg ≥ 2) : sg.delay.isSome = true ∧ m.delayStreak ≥ 1 := by
  unfold delayStreakOf at h
  split at h
  · exact ⟨by assumption, satInc_ge_two h⟩
  · omega

theorem preVerdict_no_panic : (preVerdict e lv m sg).2.2 = false := by
  unfold preVerdict
  simp only [Classifier.WEAK_SUSTAIN_TICKS_eq]
  by_cases hds : delayStreakOf m sg ≥ 2
  · have := (delayStreakOf_ge_two m sg hds).1
    cases hd : sg.delay <;> simp_all
  · by_cases hbz : sg.bpsZero = true <;> cases hpw : m.prevWeak <;> by_cases hsl : sg.share < lv <;>
      by_cases hse : sg.share < e <;> simp [*]

theorem preVerdict_delay (hw : sg.wf) (_h : (preVerdict e lv m sg).1 = true)
    (hr : (preVerdict e lv m sg).2.1.isDelay) :
    sg.delay = some (preVerdict e lv m sg).2.1 ∧ m.delayStreak ≥ 1 := by
  unfold Reason.isDelay at hr
  unfold preVerdict at hr ⊢
  simp only [Classifier.WEAK_SUSTAIN_TICKS_eq] at hr ⊢
  by_cases hds : delayStreakOf m sg ≥ 2
  · have h2 := delayStreakOf_ge_two m sg hds
    refine ⟨?_, h2.2⟩
    rcases hw with hd | hd | hd <;> simp_all
  · by_cases hbz : sg.bpsZero = true <;> cases hpw : m.prevWeak <;> by_cases hsl : sg.share < lv <;>
      by_cases hse : sg.share < e <;> simp [*] at hr

theorem preVerdict_reason (hw : sg.wf) :
    ((preVerdict e lv m sg).1 = false → (preVerdict e lv m sg).2.1 = .Healthy) ∧
    ((preVerdict e lv m sg).1 = true →
      (preVerdict e lv m sg).2.1.isDelay ∨ (preVerdict e lv m sg).2.1.isShare) := by
  unfold Reason.isDelay Reason.isShare preVerdict
  simp only [Classifier.WEAK_SUSTAIN_TICKS_eq]
  by_cases hds : delayStreakOf m sg ≥ 2
  · have h2 := (delayStreakOf_ge_two m sg hds).1
    rcases hw with hd | hd | hd <;> simp_all
  · by_cases hbz : sg.bpsZero = true <;> cases hpw : m.prevWeak <;> by_cases hsl : sg.share < lv <;>
      by_cases hse : sg.share < e <;> simp [*]

theorem preVerdict_lowshare (hw : sg.wf) (hr : (preVerdict e lv m sg).2.1 = .LowShare) :
    (m.prevWeak = false → sg.share < e) ∧ (m.prevWeak = true → sg.share < lv) := by
  unfold preVerdict at hr
  simp only [Classifier.WEAK_SUSTAIN_TICKS_eq] at hr
  by_cases hds : delayStreakOf m sg ≥ 2
  · have h2 := (delayStreakOf_ge_two m sg hds).1
    rcases hw with hd | hd | hd <;> simp_all
  · by_cases hbz : sg.bpsZero = true <;> cases hpw : m.prevWeak <;> by_cases hsl : sg.share < lv <;>
      by_cases hse : sg.share < e <;> simp [*] at hr ⊢

theorem preVerdict_stays_weak (hpw : m.prevWeak = true) (hs : sg.share < lv) :
    (preVerdict e lv m sg).1 = true := by
  unfold preVerdict
  simp only [Classifier.WEAK_SUSTAIN_TICKS_eq]
  by_cases hds : delayStreakOf m sg ≥ 2
  · cases hd : sg.delay <;> simp [*]
  · by_cases hbz : sg.bpsZero = true <;> simp [*]

theorem preVerdict_no_traffic (hb : sg.bpsZero = true) : (preVerdict e lv m sg).1 = true := by
  unfold preVerdict
  simp only [Classifier.WEAK_SUSTAIN_TICKS_eq]
  by_cases hds : delayStreakOf m sg ≥ 2
  · cases hd : sg.delay <;> simp [*]
  · simp [*]
def thrOf (e lv : Nat) (m : Mem) : Nat := if m.prevWeak then lv else e

theorem linkStep_cases :
    (m.probation > 0 ∧ linkStep e lv m sg =
      ({ prevWeak := false, delayStreak := delayStreakOf m sg, weakStreak := 0, probation := m.probation - 1 },
       { weak := false, reason := .Healthy, threshold := thrOf e lv m, panicked := (preVerdict e lv m sg).2.2 })) ∨
    (m.probation = 0 ∧ shareWeakOf (preVerdict e lv m sg) = true ∧ satInc m.weakStreak ≥ 15 ∧
      linkStep e lv m sg =
      ({ prevWeak := (preVerdict e lv m sg).1, delayStreak := delayStreakOf m sg, weakStreak := 0, probation := 3 },
       { weak := (preVerdict e lv m sg).1, reason := (preVerdict e lv m sg).2.1, threshold := thrOf e lv m,
         panicked := (preVerdict e lv m sg).2.2 })) ∨
    (m.probation = 0 ∧ shareWeakOf (preVerdict e lv m sg) = true ∧ satInc m.weakStreak < 15 ∧
      linkStep e lv m sg =
      ({ prevWeak := (preVerdict e lv m sg).1, delayStreak := delayStreakOf m sg,
         weakStreak := satInc m.weakStreak, probation := 0 },
       { weak := (preVerdict e lv m sg).1, reason := (preVerdict e lv m sg).2.1, threshold := thrOf e lv m,
         panicked := (preVerdict e lv m sg).2.2 })) ∨
    (m.probation = 0 ∧ shareWeakOf (preVerdict e lv m sg) = false ∧
      linkStep e lv m sg =
      ({ prevWeak := (preVerdict e lv m sg).1, delayStreak := delayStreakOf m sg, weakStreak := 0, probation := 0 },
       { weak := (preVerdict e lv m sg).1, reason := (preVerdict e lv m sg).2.1, threshold := thrOf e lv m,
         panicked := (preVerdict e lv m sg).2.2 })) := by
  unfold linkStep thrOf
  simp only [Classifier.PROBATION_INTERVAL_TICKS_eq, Classifier.PROBATION_WINDOW_TICKS_eq]
  by_cases hp : m.probation > 0
  · left; simp [hp]
  · right
    have hp0 : m.probation = 0 := by omega
    by_cases hsw : shareWeakOf (preVerdict e lv m sg) = true
    · by_cases hs : satInc m.weakStreak ≥ 15
      · left; simp [hp0, hsw, hs]
      · right; left; simp [hp0, hsw, hs]; omega
    · right; right; simp [hp0, hsw]

theorem shareWeakOf_iff (pre : Bool × Reason × Bool) :
    shareWeakOf pre = true ↔ (pre.1 = true ∧ pre.2.1.isShare) := by
  unfold shareWeakOf Reason.isShare
  simp

/-- Outside probation the verdict is the pre-verdict. -/
theorem linkStep_verdict_eq (hp : m.probation = 0) :
    (linkStep e lv m sg).2.weak = (preVerdict e lv m sg).1 ∧
    (linkStep e lv m sg).2.reason = (preVerdict e lv m sg).2.1 := by
  rcases linkStep_cases e lv m sg with ⟨h, _⟩ | ⟨_, _, _, heq⟩ | ⟨_, _, _, heq⟩ | ⟨_, _, heq⟩
  · omega
  all_goals rw [heq]; exact ⟨rfl, rfl⟩

/-- While the probation counter is positive the verdict is not-weak and the counter counts down. -/
theorem linkStep_probation (h : m.probation > 0) :
    (linkStep e lv m sg).2.weak = false ∧ (linkStep e lv m sg).2.reason = .Healthy ∧
    (linkStep e lv m sg).1.probation = m.probation - 1 ∧
    (linkStep e lv m sg).1.weakStreak = 0 ∧ (linkStep e lv m sg).1.prevWeak = false := by
  rcases linkStep_cases e lv m sg with ⟨_, heq⟩ | ⟨h0, _⟩ | ⟨h0, _⟩ | ⟨h0, _⟩
  · rw [heq]; exact ⟨rfl, rfl, rfl, rfl, rfl⟩
  all_goals omega

theorem linkStep_weak_no_probation (h : (linkStep e lv m sg).2.weak = true) : m.probation = 0 := by
  rcases Nat.eq_zero_or_pos m.probation with h0 | h0
  · exact h0
  · have := (linkStep_probation e lv m sg h0).1
    rw [this] at h
    exact absurd h (by simp)

theorem linkStep_no_panic : (linkStep e lv m sg).2.panicked = false := by
  have := preVerdict_no_panic e lv m sg
  rcases linkStep_cases e lv m sg with ⟨_, heq⟩ | ⟨_, _, _, heq⟩ | ⟨_, _, _, heq⟩ | ⟨_, _, heq⟩ <;>
    rw [heq] <;> exact this

/-- The new `prev_weak` is the verdict just given. -/
theorem linkStep_prevWeak : (linkStep e lv m sg).1.prevWeak = (linkStep e lv m sg).2.weak := by
  rcases linkStep_cases e lv m sg with ⟨_, heq⟩ | ⟨_, _, _, heq⟩ | ⟨_, _, _, heq⟩ | ⟨_, _, heq⟩ <;>
    rw [heq]

/-- The reported threshold is the leaving one iff the link was weak. -/
theorem linkStep_threshold :
    (linkStep e lv m sg).2.threshold = if m.prevWeak then lv else e := by
  rcases linkStep_cases e lv m sg with ⟨_, heq⟩ | ⟨_, _, _, heq⟩ | ⟨_, _, _, heq⟩ | ⟨_, _, heq⟩ <;>
    rw [heq] <;> rfl

theorem linkStep_delayStreak : (linkStep e lv m sg).1.delayStreak = delayStreakOf m sg := by
  rcases linkStep_cases e lv m sg with ⟨_, heq⟩ | ⟨_, _, _, heq⟩ | ⟨_, _, _, heq⟩ | ⟨_, _, heq⟩ <;>
    rw [heq]

/-- New delay streak is positive only if the signal is present now. -/
theorem linkStep_delayStreak_pos (h : (linkStep e lv m sg).1.delayStreak ≥ 1) : sg.delay.isSome = true := by
  rw [linkStep_delayStreak] at h
  exact delayStreakOf_pos m sg h

/-- A delay verdict: the signal is present now with that reason, and the stored streak was ≥ 1. -/
theorem linkStep_delay_verdict (hw : sg.wf) (h : (linkStep e lv m sg).2.weak = true)
    (hr : (linkStep e lv m sg).2.reason.isDelay) :
    sg.delay = some (linkStep e lv m sg).2.reason ∧ m.delayStreak ≥ 1 := by
  have hp := linkStep_weak_no_probation e lv m sg h
  have ⟨h1, h2⟩ := linkStep_verdict_eq e lv m sg hp
  rw [h1] at h
  rw [h2] at hr ⊢
  exact preVerdict_delay e lv m sg hw h hr

/-- A share-weak verdict (LowShare / NoTraffic): the link was not in probation; either the streak
reached 15 and the 3-tick window is armed, or the streak grew by one. -/
theorem linkStep_share_verdict (hs : m.weakStreak ≤ 14)
    (h : (linkStep e lv m sg).2.weak = true) (hr : (linkStep e lv m sg).2.reason.isShare) :
    m.probation = 0 ∧
    ((m.weakStreak = 14 ∧ (linkStep e lv m sg).1.probation = 3 ∧ (linkStep e lv m sg).1.weakStreak = 0) ∨
     (m.weakStreak < 14 ∧ (linkStep e lv m sg).1.weakStreak = m.weakStreak + 1 ∧
       (linkStep e lv m sg).1.probation = 0)) := by
  have hp := linkStep_weak_no_probation e lv m sg h
  refine ⟨hp, ?_⟩
  have ⟨h1, h2⟩ := linkStep_verdict_eq e lv m sg hp
  rw [h1] at h
  rw [h2] at hr
  have hsw : shareWeakOf (preVerdict e lv m sg) = true := (shareWeakOf_iff _).mpr ⟨h, hr⟩
  have hsi := satInc_small hs
  rcases linkStep_cases e lv m sg with ⟨h0, _⟩ | ⟨_, _, h15, heq⟩ | ⟨_, _, h15, heq⟩ | ⟨_, hn, _⟩
  · omega
  · left; rw [heq]; exact ⟨by omega, rfl, rfl⟩
  · right; rw [heq]; exact ⟨by omega, hsi, rfl⟩
  · rw [hsw] at hn; exact absurd hn (by simp)

/-- A verdict that is not share-weak resets the share-weak streak. -/
theorem linkStep_streak_reset
    (h : ¬ ((linkStep e lv m sg).2.weak = true ∧ (linkStep e lv m sg).2.reason.isShare)) :
    (linkStep e lv m sg).1.weakStreak = 0 := by
  rcases linkStep_cases e lv m sg with ⟨_, heq⟩ | ⟨_, _, _, heq⟩ | ⟨_, hsw, _, heq⟩ | ⟨_, _, heq⟩
  · rw [heq]
  · rw [heq]
  · rw [heq] at h
    exact absurd ((shareWeakOf_iff _).mp hsw) h
  · rw [heq]

/-- Counter bounds are preserved. -/
theorem linkStep_bounds (hs : m.weakStreak ≤ 14) (hp : m.probation ≤ 3) :
    (linkStep e lv m sg).1.weakStreak ≤ 14 ∧ (linkStep e lv m sg).1.probation ≤ 3 := by
  have hsi := satInc_small hs
  rcases linkStep_cases e lv m sg with ⟨_, heq⟩ | ⟨_, _, _, heq⟩ | ⟨_, _, h15, heq⟩ | ⟨_, _, heq⟩ <;>
    rw [heq] <;> simp <;> omega

/-- The probation counter after a step is positive only if it was already (then it counted down)
or the step armed it (share-weak verdict with the streak at 14). -/
theorem linkStep_probation_after (hs : m.weakStreak ≤ 14) (h : (linkStep e lv m sg).1.probation > 0) :
    (m.probation > 0 ∧ (linkStep e lv m sg).1.probation = m.probation - 1) ∨
    (m.probation = 0 ∧ m.weakStreak = 14 ∧ (linkStep e lv m sg).1.probation = 3 ∧
      (linkStep e lv m sg).2.weak = true ∧ (linkStep e lv m sg).2.reason.isShare) := by
  have hsi := satInc_small hs
  rcases linkStep_cases e lv m sg with ⟨hp, heq⟩ | ⟨hp, hsw, h15, heq⟩ | ⟨_, _, _, heq⟩ | ⟨_, _, heq⟩
  · left; rw [heq]; exact ⟨hp, rfl⟩
  · right
    have := (shareWeakOf_iff _).mp hsw
    rw [heq]; exact ⟨hp, by omega, rfl, this.1, this.2⟩
  · rw [heq] at h; simp at h
  · rw [heq] at h; simp at h

/-- LowShare: share below the entering threshold if the link was not weak, below the leaving one if it was. -/
theorem linkStep_lowshare (hw : sg.wf) (h : (linkStep e lv m sg).2.weak = true)
    (hr : (linkStep e lv m sg).2.reason = .LowShare) :
    (m.prevWeak = false → sg.share < e) ∧ (m.prevWeak = true → sg.share < lv) := by
  have hp := linkStep_weak_no_probation e lv m sg h
  have ⟨_, h2⟩ := linkStep_verdict_eq e lv m sg hp
  rw [h2] at hr
  exact preVerdict_lowshare e lv m sg hw hr

/-- Leaving needs the leaving threshold: was weak, no probation, share under it ⇒ still weak. -/
theorem linkStep_stays_weak (hpw : m.prevWeak = true) (hp : m.probation = 0)
    (hs : sg.share < lv) : (linkStep e lv m sg).2.weak = true := by
  rw [(linkStep_verdict_eq e lv m sg hp).1]
  exact preVerdict_stays_weak e lv m sg hpw hs

/-- Not weak ⇒ reason Healthy; weak ⇒ one of the four weak reasons. -/
theorem linkStep_reason (hw : sg.wf) :
    ((linkStep e lv m sg).2.weak = false → (linkStep e lv m sg).2.reason = .Healthy) ∧
    ((linkStep e lv m sg).2.weak = true →
      (linkStep e lv m sg).2.reason.isDelay ∨ (linkStep e lv m sg).2.reason.isShare) := by
  rcases Nat.eq_zero_or_pos m.probation with hp | hp
  · have ⟨h1, h2⟩ := linkStep_verdict_eq e lv m sg hp
    rw [h1, h2]
    exact preVerdict_reason e lv m sg hw
  · have ⟨h1, h2, _⟩ := linkStep_probation e lv m sg hp
    rw [h1, h2]
    simp

end step

/-! ## The association-list state -/

theorem lookupLast_mem {id : Nat} {m : Mem} : ∀ {s : State}, lookupLast id s = some m → (id, m) ∈ s
  | [], h => by simp [lookupLast] at h
  | (k, m0) :: rest, h => by
    unfold lookupLast at h
    split at h
    · rename_i m' hm'
      simp only [Option.some.injEq] at h
      subst h
      exact List.mem_cons_of_mem _ (lookupLast_mem hm')
    · split at h
      · rename_i hk
        simp only [Option.some.injEq] at h
        subst h; subst hk
        exact List.mem_cons_self
      · simp at h

theorem lookupLast_none {id : Nat} : ∀ {s : State}, (∀ e ∈ s, e.1 ≠ id) → lookupLast id s = none
  | [], _ => by simp [lookupLast]
  | (k, m0) :: rest, h => by
    unfold lookupLast
    have hr : lookupLast id rest = none :=
      lookupLast_none (fun e he => h e (List.mem_cons_of_mem _ he))
    rw [hr]
    have : k ≠ id := h (k, m0) List.mem_cons_self
    simp [this]

theorem lookupLast_nodup {id : Nat} {m : Mem} :
    ∀ {s : State}, (s.map (·.1)).Nodup → (id, m) ∈ s → lookupLast id s = some m
  | [], _, h => by simp at h
  | (k, m0) :: rest, hn, h => by
    simp only [List.map_cons, List.nodup_cons] at hn
    unfold lookupLast
    rcases List.mem_cons.mp h with heq | hin
    · have hk : k = id := by simpa using (congrArg Prod.fst heq).symm
      have hm : m0 = m := by simpa using (congrArg Prod.snd heq).symm
      have hr : lookupLast id rest = none := by
        apply lookupLast_none
        intro e he hid
        apply hn.1
        rw [hk, ← hid]
        exact List.mem_map_of_mem he
      rw [hr]; simp [hk, hm]
    · rw [lookupLast_nodup hn.2 hin]

theorem lookupLast_isSome_of_key {id : Nat} :
    ∀ {s : State}, (∃ r ∈ s, r.1 = id) → ∃ m, lookupLast id s = some m
  | [], h => by simp at h
  | (k, m0) :: rest, h => by
    unfold lookupLast
    cases hr : lookupLast id rest with
    | some m' => exact ⟨m', rfl⟩
    | none =>
      by_cases hk : k = id
      · exact ⟨m0, by simp [hk]⟩
      · obtain ⟨r, hr1, hr2⟩ := h
        rcases List.mem_cons.mp hr1 with heq | hin
        · subst heq; exact absurd hr2 hk
        · obtain ⟨m, hm⟩ := lookupLast_isSome_of_key (s := rest) ⟨r, hin, hr2⟩
          rw [hm] at hr; exact absurd hr (by simp)

/-- If every row keyed `id` carries the same value and there is one, that is the value read. -/
theorem lookupLast_const {id : Nat} {v : Mem} {s : State}
    (hall : ∀ r ∈ s, r.1 = id → r.2 = v) (hex : ∃ r ∈ s, r.1 = id) : lookupLast id s = some v := by
  obtain ⟨m, hm⟩ := lookupLast_isSome_of_key hex
  have := hall (id, m) (lookupLast_mem hm) rfl
  simp at this
  rw [hm, this]

theorem memOf_nil (id : Nat) : memOf [] id = {} := by simp [memOf, lookupLast]

theorem memOf_no_key {s : State} {id : Nat} (h : ∀ r ∈ s, r.1 ≠ id) : memOf s id = {} := by
  unfold memOf
  rw [lookupLast_none h]
  rfl

/-- The row a link of a classified tick inserts (if any). -/
def rowOf (s : State) (t : Tick) (l : LinkIn) : Option (Nat × Mem) :=
  if l.connected then some (l.id, (stepOf s t l).1)
  else if (memOf s l.id).probation > 1 then some (l.id, probRow ((memOf s l.id).probation - 1))
  else none

theorem nextRows_eq (s : State) (t : Tick) : nextRows s t = t.filterMap (rowOf s t) := rfl

theorem rowOf_key {s : State} {t : Tick} {l : LinkIn} {r : Nat × Mem} (h : rowOf s t l = some r) :
    r.1 = l.id := by
  unfold rowOf at h
  split at h
  · simp at h; rw [← h]
  · split at h
    · simp at h; rw [← h]
    · simp at h

theorem filterMap_keys_sublist (f : LinkIn → Option (Nat × Mem))
    (hf : ∀ l r, f l = some r → r.1 = l.id) :
    ∀ t : Tick, ((t.filterMap f).map (·.1)).Sublist (t.map (·.id))
  | [] => by simp
  | l :: rest => by
    simp only [List.filterMap_cons, List.map_cons]
    cases hfl : f l with
    | none => exact List.Sublist.cons _ (filterMap_keys_sublist f hf rest)
    | some r =>
      simp only [List.map_cons]
      rw [hf l r hfl]
      exact List.Sublist.cons_cons _ (filterMap_keys_sublist f hf rest)

theorem nodup_map_inj {t : Tick} (hn : (t.map (·.id)).Nodup) {a b : LinkIn}
    (ha : a ∈ t) (hb : b ∈ t) (hid : a.id = b.id) : a = b := by
  induction t with
  | nil => simp at ha
  | cons x rest ih =>
    simp only [List.map_cons, List.nodup_cons] at hn
    rcases List.mem_cons.mp ha with ha | ha <;> rcases List.mem_cons.mp hb with hb | hb
    · rw [ha, hb]
    · exfalso; apply hn.1; rw [← ha, hid]; exact List.mem_map_of_mem hb
    · exfalso; apply hn.1; rw [← hb, ← hid]; exact List.mem_map_of_mem ha
    · exact ih hn.2 ha hb

/-- Keys of the rows inserted by a tick are a sub-list of the tick's ids. -/
theorem nextRows_keys_sublist (s : State) (t : Tick) :
    ((nextRows s t).map (·.1)).Sublist (t.map (·.id)) := by
  rw [nextRows_eq]
  exact filterMap_keys_sublist (rowOf s t) (fun _ _ h => rowOf_key h) t

theorem mem_nextRows {s : State} {t : Tick} {r : Nat × Mem} :
    r ∈ nextRows s t ↔ ∃ l ∈ t, rowOf s t l = some r := by
  rw [nextRows_eq]
  simp [List.mem_filterMap]

/-- Bypass: every probation counter `> 1` survives minus one; everything else is forgotten. -/
theorem memOf_bypassRows (s : State) (id : Nat) :
    memOf (bypassRows s) id =
      if (memOf s id).probation > 1 then probRow ((memOf s id).probation - 1) else {} := by
  have hmem : ∀ r, r ∈ bypassRows s ↔
      ∃ r0 ∈ s, (memOf s r0.1).probation - 1 > 0 ∧ r = (r0.1, probRow ((memOf s r0.1).probation - 1)) := by
    intro r
    unfold bypassRows
    simp only [List.mem_filterMap]
    constructor
    · rintro ⟨r0, h0, h⟩
      split at h
      · rename_i hp
        simp only [Option.some.injEq] at h
        exact ⟨r0, h0, hp, h.symm⟩
      · simp at h
    · rintro ⟨r0, h0, hp, h⟩
      exact ⟨r0, h0, by simp [hp, h]⟩
  split
  · rename_i hp
    -- `id` must be a key of `s`
    have hkey : ∃ r ∈ s, r.1 = id := by
      apply Classical.byContradiction
      intro hno
      have : memOf s id = {} := memOf_no_key (fun r hr hid => hno ⟨r, hr, hid⟩)
      rw [this] at hp
      simp at hp
    unfold memOf
    rw [lookupLast_const (v := probRow ((memOf s id).probation - 1))]
    · rfl
    · intro r hr hid
      obtain ⟨r0, _, _, heq⟩ := (hmem r).mp hr
      rw [heq] at hid ⊢
      simp at hid
      simp [hid]
    · obtain ⟨r0, h0, hid⟩ := hkey
      exact ⟨(r0.1, probRow ((memOf s r0.1).probation - 1)),
        (hmem _).mpr ⟨r0, h0, by rw [hid]; omega, rfl⟩, hid⟩
  · rename_i hp
    apply memOf_no_key
    intro r hr hid
    obtain ⟨r0, _, hp0, heq⟩ := (hmem r).mp hr
    rw [heq] at hid
    simp at hid
    rw [hid] at hp0
    omega

theorem memOf_nextState_bypass {s : State} {t : Tick} (hb : bypass t = true) (id : Nat) :
    memOf (nextState s t) id =
      if (memOf s id).probation > 1 then probRow ((memOf s id).probation - 1) else {} := by
  unfold nextState
  simp only [hb, ↓reduceIte]
  exact memOf_bypassRows s id

/-- What a row of the next state can be: the default (no row); or the new row of a connected link
of this (non-bypassed) tick carrying that id; or a carried-over probation counter. -/
theorem memOf_nextState_cases (s : State) (t : Tick) (id : Nat) :
    memOf (nextState s t) id = {} ∨
    (bypass t = false ∧ ∃ l ∈ t, l.connected = true ∧ l.id = id ∧
      memOf (nextState s t) id = (stepOf s t l).1) ∨
    ((memOf s id).probation > 1 ∧
      memOf (nextState s t) id = probRow ((memOf s id).probation - 1)) := by
  cases hb : bypass t
  · unfold nextState
    simp only [hb, Bool.false_eq_true, ↓reduceIte]
    cases hl : lookupLast id (nextRows s t) with
    | none => left; unfold memOf; rw [hl]; rfl
    | some m =>
      have hmo : memOf (nextRows s t) id = m := by unfold memOf; rw [hl]; rfl
      rw [hmo]
      obtain ⟨l, hl1, hrow⟩ := mem_nextRows.mp (lookupLast_mem hl)
      have hid : l.id = id := by have := rowOf_key hrow; simpa using this.symm
      unfold rowOf at hrow
      split at hrow
      · rename_i hc
        simp only [Option.some.injEq, Prod.mk.injEq] at hrow
        right; left
        exact ⟨trivial, l, hl1, hc, hid, hrow.2.symm⟩
      · split at hrow
        · rename_i hp
          simp only [Option.some.injEq, Prod.mk.injEq] at hrow
          right; right
          rw [hid] at hp hrow
          exact ⟨hp, hrow.2.symm⟩
        · simp at hrow
  · rw [memOf_nextState_bypass hb]
    split
    · rename_i hp
      right; right; exact ⟨hp, rfl⟩
    · left; rfl

/-- With distinct ids in a classified tick, a link in the slice leaves exactly its own row. -/
theorem memOf_nextState_of_mem {s : State} {t : Tick} {l : LinkIn}
    (hn : (t.map (·.id)).Nodup) (hb : bypass t = false) (hl : l ∈ t) :
    memOf (nextState s t) l.id = match rowOf s t l with | some r => r.2 | none => {} := by
  unfold nextState
  simp only [hb, Bool.false_eq_true, ↓reduceIte]
  have hnd : ((nextRows s t).map (·.1)).Nodup := (nextRows_keys_sublist s t).nodup hn
  cases hrow : rowOf s t l with
  | some r =>
    have hk := rowOf_key hrow
    have hmem : (l.id, r.2) ∈ nextRows s t := by
      rw [← hk]; exact mem_nextRows.mpr ⟨l, hl, hrow⟩
    unfold memOf
    rw [lookupLast_nodup hnd hmem]
    rfl
  | none =>
    apply memOf_no_key
    intro r hr hid
    obtain ⟨l', hl', hrow'⟩ := mem_nextRows.mp hr
    have hk := rowOf_key hrow'
    -- l' has the same id as l, so l' = l by Nodup
    have hsame : l' = l := by
      have hid' : l'.id = l.id := by rw [← hk, hid]
      exact nodup_map_inj hn hl' hl hid'
    rw [hsame, hrow] at hrow'
    simp at hrow'

theorem memOf_nextState_connected {s : State} {t : Tick} {l : LinkIn}
    (hn : (t.map (·.id)).Nodup) (hb : bypass t = false) (hl : l ∈ t) (hc : l.connected = true) :
    memOf (nextState s t) l.id = (stepOf s t l).1 := by
  rw [memOf_nextState_of_mem hn hb hl]
  simp [rowOf, hc]

theorem memOf_nextState_disconnected {s : State} {t : Tick} {l : LinkIn}
    (hn : (t.map (·.id)).Nodup) (hb : bypass t = false) (hl : l ∈ t) (hc : l.connected = false) :
    memOf (nextState s t) l.id =
      if (memOf s l.id).probation > 1 then probRow ((memOf s l.id).probation - 1) else {} := by
  rw [memOf_nextState_of_mem hn hb hl]
  simp only [rowOf, hc, Bool.false_eq_true, ↓reduceIte]
  by_cases hp : (memOf s l.id).probation > 1 <;> simp [hp]

/-- A link that is not in the slice of a classified tick has no row afterwards. -/
theorem memOf_nextState_absent {s : State} {t : Tick} {id : Nat}
    (hb : bypass t = false) (h : ∀ l ∈ t, l.id ≠ id) : memOf (nextState s t) id = {} := by
  unfold nextState
  simp only [hb, Bool.false_eq_true, ↓reduceIte]
  apply memOf_no_key
  intro r hr hid
  obtain ⟨l, hl, hrow⟩ := mem_nextRows.mp hr
  exact h l hl (by rw [← rowOf_key hrow, hid])

/-- A positive probation counter always counts down by exactly one over a tick in which the link is
in the slice (connected or not) or which is bypassed. -/
theorem probation_countdown {s : State} {t : Tick} {id : Nat}
    (hn : (t.map (·.id)).Nodup) (hp : (memOf s id).probation > 0)
    (h : bypass t = true ∨ ∃ l ∈ t, l.id = id) :
    (memOf (nextState s t) id).probation = (memOf s id).probation - 1 := by
  cases hb : bypass t
  · rcases h with h | ⟨l, hl, hid⟩
    · rw [hb] at h; exact absurd h (by simp)
    · subst hid
      cases hc : l.connected
      · rw [memOf_nextState_disconnected hn hb hl hc]
        split
        · rfl
        · show 0 = _; omega
      · rw [memOf_nextState_connected hn hb hl hc]
        exact (linkStep_probation _ _ _ _ hp).2.2.1
  · rw [memOf_nextState_bypass hb]
    split
    · rfl
    · show 0 = _; omega

/-! ## Verdict of a classified link -/

theorem verdictOf_classified {s : State} {t : Tick} {l : LinkIn}
    (hb : bypass t = false) (hc : l.connected = true) :
    (verdictOf s t l).weak = (stepOf s t l).2.weak ∧
    (verdictOf s t l).reason = (stepOf s t l).2.reason ∧
    (verdictOf s t l).threshold = (stepOf s t l).2.threshold ∧
    (verdictOf s t l).share = sharePermille t l ∧
    (verdictOf s t l).id = l.id := by
  unfold verdictOf
  simp [hb, hc]

theorem verdictOf_weak_classified {s : State} {t : Tick} {l : LinkIn}
    (h : (verdictOf s t l).weak = true) : bypass t = false ∧ l.connected = true := by
  unfold verdictOf at h
  split at h
  · simp at h
  · split at h
    · simp at h
    · rename_i hb hc
      exact ⟨by simpa using hb, by simpa using hc⟩

theorem verdictOf_id (s : State) (t : Tick) (l : LinkIn) : (verdictOf s t l).id = l.id := by
  unfold verdictOf
  (repeat' split) <;> rfl

/-! ## Invariant over histories: counter bounds -/

theorem stateAt_bounds (h : Nat → Tick) (k : Nat) (id : Nat) :
    (memOf (stateAt h k) id).weakStreak ≤ 14 ∧ (memOf (stateAt h k) id).probation ≤ 3 := by
  induction k generalizing id with
  | zero => simp [stateAt, State.init, memOf_nil]
  | succ k ih =>
    simp only [stateAt]
    rcases memOf_nextState_cases (stateAt h k) (h k) id with h0 | ⟨_, l, _, _, _, hm⟩ | ⟨_, hm⟩
    · rw [h0]; simp
    · rw [hm]
      unfold stepOf
      exact linkStep_bounds _ _ _ _ (ih l.id).1 (ih l.id).2
    · rw [hm]
      have := (ih id).2
      simp [probRow]
      omega

end Srtla.Classifier
