import Srtla.Model.Classifier
/-!
# Lemmas for the weak-link classifier model (core Lean only)

One-step facts about the integer/boolean decision skeleton `linkStep`, facts about the
association-list state (`lookupLast`, `nextState`), and the inductive invariants over histories.
The float front end (`delaySignal`, `sharePermille`, `bypass`, …) is never unfolded: every lemma
holds for whatever values those functions return.
-/
namespace Srtla.Classifier
open Srtla.Gen

def Reason.isDelay (r : Reason) : Prop := r = .HighRtt ∨ r = .QueueBuilding
def Reason.isShare (r : Reason) : Prop := r = .LowShare ∨ r = .NoTraffic

instance (r : Reason) : Decidable r.isDelay := by unfold Reason.isDelay; infer_instance
instance (r : Reason) : Decidable r.isShare := by unfold Reason.isShare; infer_instance

/-- The delay signal is `None`, `HighRtt` or `QueueBuilding` — nothing else. -/
def Sig.wf (sg : Sig) : Prop :=
  sg.delay = none ∨ sg.delay = some .HighRtt ∨ sg.delay = some .QueueBuilding

theorem delaySignal_cases (t : Tick) (l : LinkIn) :
    delaySignal t l = none ∨ delaySignal t l = some .HighRtt ∨ delaySignal t l = some .QueueBuilding := by
  unfold delaySignal
  split
  · simp
  · split <;> simp

theorem sigOf_wf (t : Tick) (l : LinkIn) : (sigOf t l).wf := by
  unfold Sig.wf sigOf
  exact delaySignal_cases t l

theorem satInc_ge_two {x : Nat} (h : satInc x ≥ 2) : x ≥ 1 := by
  unfold satInc at h
  split at h <;> omega

theorem satInc_pos (x : Nat) : satInc x ≥ 1 := by
  unfold satInc
  split <;> omega

theorem satInc_small {x : Nat} (h : x ≤ 14) : satInc x = x + 1 := by
  unfold satInc
  split <;> omega

/-! ## One-step facts about `preVerdict` and `linkStep` -/

section step
variable (e lv : Nat) (m : Mem) (sg : Sig)

theorem delayStreakOf_pos (h : delayStreakOf m sg ≥ 1) : sg.delay.isSome = true := by
  unfold delayStreakOf at h
  split at h
  · assumption
  · omega

theorem delayStreakOf_ge_two (h : delayStreakOf m sg ≥ 2) : sg.delay.isSome = true ∧ m.delayStreak ≥ 1 := by
  unfold delayStreakOf at h
  split at h
  · exact ⟨by assumption, satInc_ge_two h⟩
  · omega

theorem preVerdict_no_panic : (preVerdict e lv m sg).2.2 = false := by
  unfold preVerdict
  simp only [Classifier.WEAK_SUSTAIN_TICKS_eq]
  by_cases hds : delayStreakOf m sg ≥ 2
  · have := (delayStreakOf_ge_two m sg hds).1
    cases hd : sg.delay <;> simp_all
  · by_cases hbz : sg.bpsZero = true <;> cases hpw : m.prevWeak <;> by_cases hsl : sg.share < lv <;>
      by_cases hse : sg.share < e <;> simp [*]

theorem preVerdict_delay (hw : sg.wf) (_h : (preVerdict e lv m sg).1 = true)
    (hr : (preVerdict e lv m sg).2.1.isDelay) :
    sg.delay = some (preVerdict e lv m sg).2.1 ∧ m.delayStreak ≥ 1 := by
  unfold Reason.isDelay at hr
  unfold preVerdict at hr ⊢
  simp only [Classifier.WEAK_SUSTAIN_TICKS_eq] at hr ⊢
  by_cases hds : delayStreakOf m sg ≥ 2
  · have h2 := delayStreakOf_ge_two m sg hds
    refine ⟨?_, h2.2⟩
    rcases hw with hd | hd | hd <;> simp_all
  · by_cases hbz : sg.bpsZero = true <;> cases hpw : m.prevWeak <;> by_cases hsl : sg.share < lv <;>
      by_cases hse : sg.share < e <;> simp [*] at hr

theorem preVerdict_reason (hw : sg.wf) :
    ((preVerdict e lv m sg).1 = false → (preVerdict e lv m sg).2.1 = .Healthy) ∧
    ((preVerdict e lv m sg).1 = true →
      (preVerdict e lv m sg).2.1.isDelay ∨ (preVerdict e lv m sg).2.1.isShare) := by
  unfold Reason.isDelay Reason.isShare preVerdict
  simp only [Classifier.WEAK_SUSTAIN_TICKS_eq]
  by_cases hds : delayStreakOf m sg ≥ 2
  · have h2 := (delayStreakOf_ge_two m sg hds).1
    rcases hw with hd | hd | hd <;> simp_all
  · by_cases hbz : sg.bpsZero = true <;> cases hpw : m.prevWeak <;> by_cases hsl : sg.share < lv <;>
      by_cases hse : sg.share < e <;> simp [*]

theorem preVerdict_lowshare (hw : sg.wf) (hr : (preVerdict e lv m sg).2.1 = .LowShare) :
    (m.prevWeak = false → sg.share < e) ∧ (m.prevWeak = true → sg.share < lv) := by
  unfold preVerdict at hr
  simp only [Classifier.WEAK_SUSTAIN_TICKS_eq] at hr
  by_cases hds : delayStreakOf m sg ≥ 2
  · have h2 := (delayStreakOf_ge_two m sg hds).1
    rcases hw with hd | hd | hd <;> simp_all
  · by_cases hbz : sg.bpsZero = true <;> cases hpw : m.prevWeak <;> by_cases hsl : sg.share < lv <;>
      by_cases hse : sg.share < e <;> simp [*] at hr ⊢

theorem preVerdict_stays_weak (hpw : m.prevWeak = true) (hs : sg.share < lv) :
    (preVerdict e lv m sg).1 = true := by
  unfold preVerdict
  simp only [Classifier.WEAK_SUSTAIN_TICKS_eq]
  by_cases hds : delayStreakOf m sg ≥ 2
  · cases hd : sg.delay <;> simp [*]
  · by_cases hbz : sg.bpsZero = true <;> simp [*]

theorem preVerdict_no_traffic (hb : sg.bpsZero = true) : (preVerdict e lv m sg).1 = true := by
  unfold preVerdict
  simp only [Classifier.WEAK_SUSTAIN_TICKS_eq]
  by_cases hds : delayStreakOf m sg ≥ 2
  · cases hd : sg.delay <;> simp [*]
  · simp [*]
def thrOf (e lv : Nat) (m : Mem) : Nat := if m.prevWeak then lv else e

theorem linkStep_cases :
    (m.probation > 0 ∧ linkStep e lv m sg =
      ({ prevWeak := false, delayStreak := delayStreakOf m sg, weakStreak := 0, probation := m.probation - 1 },
       { weak := false, reason := .Healthy, threshold := thrOf e lv m, panicked := (preVerdict e lv m sg).2.2 })) ∨
    (m.probation = 0 ∧ shareWeakOf (preVerdict e lv m sg) = true ∧ satInc m.weakStreak ≥ 15 ∧
      linkStep e lv m sg =
      ({ prevWeak := (preVerdict e lv m sg).1, delayStreak := delayStreakOf m sg, weakStreak := 0, probation := 3 },
       { weak := (preVerdict e lv m sg).1, reason := (preVerdict e lv m sg).2.1, threshold := thrOf e lv m,
         panicked := (preVerdict e lv m sg).2.2 })) ∨
    (m.probation = 0 ∧ shareWeakOf (preVerdict e lv m sg) = true ∧ satInc m.weakStreak < 15 ∧
      linkStep e lv m sg =
      ({ prevWeak := (preVerdict e lv m sg).1, delayStreak := delayStreakOf m sg,
         weakStreak := satInc m.weakStreak, probation := 0 },
       { weak := (preVerdict e lv m sg).1, reason := (preVerdict e lv m sg).2.1, threshold := thrOf e lv m,
         panicked := (preVerdict e lv m sg).2.2 })) ∨
    (m.probation = 0 ∧ shareWeakOf (preVerdict e lv m sg) = false ∧
      linkStep e lv m sg =
      ({ prevWeak := (preVerdict e lv m sg).1, delayStreak := delayStreakOf m sg, weakStreak := 0, probation := 0 },
       { weak := (preVerdict e lv m sg).1, reason := (preVerdict e lv m sg).2.1, threshold := thrOf e lv m,
         panicked := (preVerdict e lv m sg).2.2 })) := by
  unfold linkStep thrOf
  simp only [Classifier.PROBATION_INTERVAL_TICKS_eq, Classifier.PROBATION_WINDOW_TICKS_eq]
  by_cases hp : m.probation > 0
  · left; simp [hp]
  · right
    have hp0 : m.probation = 0 := by omega
    by_cases hsw : shareWeakOf (preVerdict e lv m sg) = true
    · by_cases hs : satInc m.weakStreak ≥ 15
      · left; simp [hp0, hsw, hs]
      · right; left; simp [hp0, hsw, hs]; omega
    · right; right; simp [hp0, hsw]

theorem shareWeakOf_iff (pre : Bool × Reason × Bool) :
    shareWeakOf pre = true ↔ (pre.1 = true ∧ pre.2.1.isShare) := by
  unfold shareWeakOf Reason.isShare
  simp

/-- Outside probation the verdict is the pre-verdict. -/
theorem linkStep_verdict_eq (hp : m.probation = 0) :
    (linkStep e lv m sg).2.weak = (preVerdict e lv m sg).1 ∧
    (linkStep e lv m sg).2.reason = (preVerdict e lv m sg).2.1 := by
  rcases linkStep_cases e lv m sg with ⟨h, _⟩ | ⟨_, _, _, heq⟩ | ⟨_, _, _, heq⟩ | ⟨_, _, heq⟩
  · omega
  all_goals rw [heq]; exact ⟨rfl, rfl⟩

/-- While the probation counter is positive the verdict is not-weak and the counter counts down. -/
theorem linkStep_probation (h : m.probation > 0) :
    (linkStep e lv m sg).2.weak = false ∧ (linkStep e lv m sg).2.reason = .Healthy ∧
    (linkStep e lv m sg).1.probation = m.probation - 1 ∧
    (linkStep e lv m sg).1.weakStreak = 0 ∧ (linkStep e lv m sg).1.prevWeak = false := by
  rcases linkStep_cases e lv m sg with ⟨_, heq⟩ | ⟨h0, _⟩ | ⟨h0, _⟩ | ⟨h0, _⟩
  · rw [heq]; exact ⟨rfl, rfl, rfl, rfl, rfl⟩
  all_goals omega

theorem linkStep_weak_no_probation (h : (linkStep e lv m sg).2.weak = true) : m.probation = 0 := by
  rcases Nat.eq_zero_or_pos m.probation with h0 | h0
  · exact h0
  · have := (linkStep_probation e lv m sg h0).1
    rw [this] at h
    exact absurd h (by simp)

theorem linkStep_no_panic : (linkStep e lv m sg).2.panicked = false := by
  have := preVerdict_no_panic e lv m sg
  rcases linkStep_cases e lv m sg with ⟨_, heq⟩ | ⟨_, _, _, heq⟩ | ⟨_, _, _, heq⟩ | ⟨_, _, heq⟩ <;>
    rw [heq] <;> exact this

/-- The new `prev_weak` is the verdict just given. -/
theorem linkStep_prevWeak : (linkStep e lv m sg).1.prevWeak = (linkStep e lv m sg).2.weak := by
  rcases linkStep_cases e lv m sg with ⟨_, heq⟩ | ⟨_, _, _, heq⟩ | ⟨_, _, _, heq⟩ | ⟨_, _, heq⟩ <;>
    rw [heq]

/-- The reported threshold is the leaving one iff the link was weak. -/
theorem linkStep_threshold :
    (linkStep e lv m sg).2.threshold = if m.prevWeak then lv else e := by
  rcases linkStep_cases e lv m sg with ⟨_, heq⟩ | ⟨_, _, _, heq⟩ | ⟨_, _, _, heq⟩ | ⟨_, _, heq⟩ <;>
    rw [heq] <;> rfl

theorem linkStep_delayStreak : (linkStep e lv m sg).1.delayStreak = delayStreakOf m sg := by
  rcases linkStep_cases e lv m sg with ⟨_, heq⟩ | ⟨_, _, _, heq⟩ | ⟨_, _, _, heq⟩ | ⟨_, _, heq⟩ <;>
    rw [heq]

/-- New delay streak is positive only if the signal is present now. -/
theorem linkStep_delayStreak_pos (h : (linkStep e lv m sg).1.delayStreak ≥ 1) : sg.delay.isSome = true := by
  rw [linkStep_delayStreak] at h
  exact delayStreakOf_pos m sg h

/-- A delay verdict: the signal is present now with that reason, and the stored streak was ≥ 1. -/
theorem linkStep_delay_verdict (hw : sg.wf) (h : (linkStep e lv m sg).2.weak = true)
    (hr : (linkStep e lv m sg).2.reason.isDelay) :
    sg.delay = some (linkStep e lv m sg).2.reason ∧ m.delayStreak ≥ 1 := by
  have hp := linkStep_weak_no_probation e lv m sg h
  have ⟨h1, h2⟩ := linkStep_verdict_eq e lv m sg hp
  rw [h1] at h
  rw [h2] at hr ⊢
  exact preVerdict_delay e lv m sg hw h hr

/-- A share-weak verdict (LowShare / NoTraffic): the link was not in probation; either the streak
reached 15 and the 3-tick window is armed, or the streak grew by one. -/
theorem linkStep_share_verdict (hs : m.weakStreak ≤ 14)
    (h : (linkStep e lv m sg).2.weak = true) (hr : (linkStep e lv m sg).2.reason.isShare) :
    m.probation = 0 ∧
    ((m.weakStreak = 14 ∧ (linkStep e lv m sg).1.probation = 3 ∧ (linkStep e lv m sg).1.weakStreak = 0) ∨
     (m.weakStreak < 14 ∧ (linkStep e lv m sg).1.weakStreak = m.weakStreak + 1 ∧
       (linkStep e lv m sg).1.probation = 0)) := by
  have hp := linkStep_weak_no_probation e lv m sg h
  refine ⟨hp, ?_⟩
  have ⟨h1, h2⟩ := linkStep_verdict_eq e lv m sg hp
  rw [h1] at h
  rw [h2] at hr
  have hsw : shareWeakOf (preVerdict e lv m sg) = true := (shareWeakOf_iff _).mpr ⟨h, hr⟩
  have hsi := satInc_small hs
  rcases linkStep_cases e lv m sg with ⟨h0, _⟩ | ⟨_, _, h15, heq⟩ | ⟨_, _, h15, heq⟩ | ⟨_, hn, _⟩
  · omega
  · left; rw [heq]; exact ⟨by omega, rfl, rfl⟩
  · right; rw [heq]; exact ⟨by omega, hsi, rfl⟩
  · rw [hsw] at hn; exact absurd hn (by simp)

/-- A verdict that is not share-weak resets the share-weak streak. -/
theorem linkStep_streak_reset
    (h : ¬ ((linkStep e lv m sg).2.weak = true ∧ (linkStep e lv m sg).2.reason.isShare)) :
    (linkStep e lv m sg).1.weakStreak = 0 := by
  rcases linkStep_cases e lv m sg with ⟨_, heq⟩ | ⟨_, _, _, heq⟩ | ⟨_, hsw, _, heq⟩ | ⟨_, _, heq⟩
  · rw [heq]
  · rw [heq]
  · rw [heq] at h
    exact absurd ((shareWeakOf_iff _).mp hsw) h
  · rw [heq]

/-- Counter bounds are preserved. -/
theorem linkStep_bounds (hs : m.weakStreak ≤ 14) (hp : m.probation ≤ 3) :
    (linkStep e lv m sg).1.weakStreak ≤ 14 ∧ (linkStep e lv m sg).1.probation ≤ 3 := by
  have hsi := satInc_small hs
  rcases linkStep_cases e lv m sg with ⟨_, heq⟩ | ⟨_, _, _, heq⟩ | ⟨_, _, h15, heq⟩ | ⟨_, _, heq⟩ <;>
    rw [heq] <;> simp <;> omega

/-- The probation counter after a step is positive only if it was already (then it counted down)
or the step armed it (share-weak verdict with the streak at 14). -/
theorem linkStep_probation_after (hs : m.weakStreak ≤ 14) (h : (linkStep e lv m sg).1.probation > 0) :
    (m.probation > 0 ∧ (linkStep e lv m sg).1.probation = m.probation - 1) ∨
    (m.probation = 0 ∧ m.weakStreak = 14 ∧ (linkStep e lv m sg).1.probation = 3 ∧
      (linkStep e lv m sg).2.weak = true ∧ (linkStep e lv m sg).2.reason.isShare) := by
  have hsi := satInc_small hs
  rcases linkStep_cases e lv m sg with ⟨hp, heq⟩ | ⟨hp, hsw, h15, heq⟩ | ⟨_, _, _, heq⟩ | ⟨_, _, heq⟩
  · left; rw [heq]; exact ⟨hp, rfl⟩
  · right
    have := (shareWeakOf_iff _).mp hsw
    rw [heq]; exact ⟨hp, by omega, rfl, this.1, this.2⟩
  · rw [heq] at h; simp at h
  · rw [heq] at h; simp at h

/-- LowShare: share below the entering threshold if the link was not weak, below the leaving one if it was. -/
theorem linkStep_lowshare (hw : sg.wf) (h : (linkStep e lv m sg).2.weak = true)
    (hr : (linkStep e lv m sg).2.reason = .LowShare) :
    (m.prevWeak = false → sg.share < e) ∧ (m.prevWeak = true → sg.share < lv) := by
  have hp := linkStep_weak_no_probation e lv m sg h
  have ⟨_, h2⟩ := linkStep_verdict_eq e lv m sg hp
  rw [h2] at hr
  exact preVerdict_lowshare e lv m sg hw hr

/-- Leaving needs the leaving threshold: was weak, no probation, share under it ⇒ still weak. -/
theorem linkStep_stays_weak (hpw : m.prevWeak = true) (hp : m.probation = 0)
    (hs : sg.share < lv) : (linkStep e lv m sg).2.weak = true := by
  rw [(linkStep_verdict_eq e lv m sg hp).1]
  exact preVerdict_stays_weak e lv m sg hpw hs

/-- Not weak ⇒ reason Healthy; weak ⇒ one of the four weak reasons. -/
theorem linkStep_reason (hw : sg.wf) :
    ((linkStep e lv m sg).2.weak = false → (linkStep e lv m sg).2.reason = .Healthy) ∧
    ((linkStep e lv m sg).2.weak = true →
      (linkStep e lv m sg).2.reason.isDelay ∨ (linkStep e lv m sg).2.reason.isShare) := by
  rcases Nat.eq_zero_or_pos m.probation with hp | hp
  · have ⟨h1, h2⟩ := linkStep_verdict_eq e lv m sg hp
    rw [h1, h2]
    exact preVerdict_reason e lv m sg hw
  · have ⟨h1, h2, _⟩ := linkStep_probation e lv m sg hp
    rw [h1, h2]
    simp

end step

/-! ## The association-list state -/

theorem lookupLast_mem {id : Nat} {m : Mem} : ∀ {s : State}, lookupLast id s = some m → (id, m) ∈ s
  | [], h => by simp [lookupLast] at h
  | (k, m0) :: rest, h => by
    unfold lookupLast at h
    split at h
    · rename_i m' hm'
      simp only [Option.some.injEq] at h
      subst h
      exact List.mem_cons_of_mem _ (lookupLast_mem hm')
    · split at h
      · rename_i hk
        simp only [Option.some.injEq] at h
        subst h; subst hk
        exact List.mem_cons_self
      · simp at h

theorem lookupLast_none {id : Nat} : ∀ {s : State}, (∀ e ∈ s, e.1 ≠ id) → lookupLast id s = none
  | [], _ => by simp [lookupLast]
  | (k, m0) :: rest, h => by
    unfold lookupLast
    have hr : lookupLast id rest = none :=
      lookupLast_none (fun e he => h e (List.mem_cons_of_mem _ he))
    rw [hr]
    have : k ≠ id := h (k, m0) List.mem_cons_self
    simp [this]

theorem lookupLast_nodup {id : Nat} {m : Mem} :
    ∀ {s : State}, (s.map (·.1)).Nodup → (id, m) ∈ s → lookupLast id s = some m
  | [], _, h => by simp at h
  | (k, m0) :: rest, hn, h => by
    simp only [List.map_cons, List.nodup_cons] at hn
    unfold lookupLast
    rcases List.mem_cons.mp h with heq | hin
    · have hk : k = id := by simpa using (congrArg Prod.fst heq).symm
      have hm : m0 = m := by simpa using (congrArg Prod.snd heq).symm
      have hr : lookupLast id rest = none := by
        apply lookupLast_none
        intro e he hid
        apply hn.1
        rw [hk, ← hid]
        exact List.mem_map_of_mem he
      rw [hr]; simp [hk, hm]
    · rw [lookupLast_nodup hn.2 hin]

theorem memOf_nil (id : Nat) : memOf [] id = {} := by simp [memOf, lookupLast]

/-- Keys of the rows inserted by a tick are a sub-list of the tick's ids. -/
theorem nextRows_keys_sublist (s : State) (t : Tick) :
    ((nextRows s t).map (·.1)).Sublist (t.map (·.id)) := by
  unfold nextRows
  induction t with
  | nil => simp
  | cons l rest ih =>
    simp only [List.filterMap_cons, List.map_cons]
    split
    · rename_i hnone
      exact List.Sublist.cons _ ih
    · rename_i b hb
      split at hb
      · simp only [Option.some.injEq] at hb
        subst hb
        simp only [List.map_cons]
        exact List.Sublist.cons₂ _ ih
      · simp at hb

theorem mem_nextRows {s : State} {t : Tick} {id : Nat} {m : Mem} :
    (id, m) ∈ nextRows s t ↔ ∃ l ∈ t, l.connected = true ∧ l.id = id ∧ m = (stepOf s t l).1 := by
  unfold nextRows
  simp only [List.mem_filterMap]
  constructor
  · rintro ⟨l, hl, h⟩
    split at h
    · rename_i hc
      simp only [Option.some.injEq, Prod.mk.injEq] at h
      exact ⟨l, hl, hc, h.1, h.2.symm⟩
    · simp at h
  · rintro ⟨l, hl, hc, hid, hm⟩
    exact ⟨l, hl, by simp [hc, hid, hm]⟩

/-- What a row of the next state can be: the default (no row), or the new row of a connected link
of this (non-bypassed) tick carrying that id. -/
theorem memOf_nextState_cases (s : State) (t : Tick) (id : Nat) :
    memOf (nextState s t) id = {} ∨
    (bypass t = false ∧ ∃ l ∈ t, l.connected = true ∧ l.id = id ∧
      memOf (nextState s t) id = (stepOf s t l).1) := by
  unfold nextState
  split
  · left; exact memOf_nil id
  · rename_i hb
    unfold memOf
    cases hl : lookupLast id (nextRows s t) with
    | none => left; rfl
    | some m =>
      right
      refine ⟨by simpa using hb, ?_⟩
      obtain ⟨l, hl1, hc, hid, hm⟩ := mem_nextRows.mp (lookupLast_mem hl)
      exact ⟨l, hl1, hc, hid, by simp [hm]⟩

/-- With distinct ids in the tick, the next state holds exactly the new row of each connected link. -/
theorem memOf_nextState_of_mem {s : State} {t : Tick} {l : LinkIn}
    (hn : (t.map (·.id)).Nodup) (hb : bypass t = false) (hl : l ∈ t) (hc : l.connected = true) :
    memOf (nextState s t) l.id = (stepOf s t l).1 := by
  unfold nextState memOf
  simp only [hb, Bool.false_eq_true, ↓reduceIte]
  have hmem : (l.id, (stepOf s t l).1) ∈ nextRows s t := mem_nextRows.mpr ⟨l, hl, hc, rfl, rfl⟩
  have hnd : ((nextRows s t).map (·.1)).Nodup := (nextRows_keys_sublist s t).nodup hn
  rw [lookupLast_nodup hnd hmem]
  rfl

/-- A link that is not classified in a tick has no row afterwards. -/
theorem memOf_nextState_unclassified {s : State} {t : Tick} {id : Nat}
    (h : bypass t = true ∨ ∀ l ∈ t, l.id = id → l.connected = false) :
    memOf (nextState s t) id = {} := by
  rcases memOf_nextState_cases s t id with h0 | ⟨hb, l, hl, hc, hid, _⟩
  · exact h0
  · rcases h with h | h
    · rw [hb] at h; exact absurd h (by simp)
    · have := h l hl hid
      rw [hc] at this; exact absurd this (by simp)

/-! ## Verdict of a classified link -/

theorem verdictOf_classified {s : State} {t : Tick} {l : LinkIn}
    (hb : bypass t = false) (hc : l.connected = true) :
    (verdictOf s t l).weak = (stepOf s t l).2.weak ∧
    (verdictOf s t l).reason = (stepOf s t l).2.reason ∧
    (verdictOf s t l).threshold = (stepOf s t l).2.threshold ∧
    (verdictOf s t l).share = sharePermille t l ∧
    (verdictOf s t l).id = l.id := by
  unfold verdictOf
  simp [hb, hc]

theorem verdictOf_weak_classified {s : State} {t : Tick} {l : LinkIn}
    (h : (verdictOf s t l).weak = true) : bypass t = false ∧ l.connected = true := by
  unfold verdictOf at h
  split at h
  · simp at h
  · split at h
    · simp at h
    · rename_i hb hc
      exact ⟨by simpa using hb, by simpa using hc⟩

theorem verdictOf_id (s : State) (t : Tick) (l : LinkIn) : (verdictOf s t l).id = l.id := by
  unfold verdictOf
  (repeat' split) <;> rfl

/-! ## Invariant over histories: counter bounds -/

theorem stateAt_bounds (h : Nat → Tick) (k : Nat) (id : Nat) :
    (memOf (stateAt h k) id).weakStreak ≤ 14 ∧ (memOf (stateAt h k) id).probation ≤ 3 := by
  induction k generalizing id with
  | zero => simp [stateAt, State.init, memOf_nil]
  | succ k ih =>
    simp only [stateAt]
    rcases memOf_nextState_cases (stateAt h k) (h k) id with h0 | ⟨_, l, _, _, _, hm⟩
    · rw [h0]; simp
    · rw [hm]
      unfold stepOf
      exact linkStep_bounds _ _ _ _ (ih l.id).1 (ih l.id).2

end Srtla.Classifier
