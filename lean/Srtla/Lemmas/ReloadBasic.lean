import Srtla.Model.Sys
/-!
# `Ev.reload` (`apply_connection_changes`) inside the shell model: the basic facts

The reload event is the only event that changes the link SET.  Everything the run-level machinery needs to
know about it is here, core Lean only, scalar-generic:

* `mem_reload`: a link of the post-state is a link of the pre-state (its whole record unchanged) or a fresh
  `FLink.newUplink` record;
* `reload_links`: the post-state's list is `retained ++ createConnections …` (definitional), retained links
  in their relative order (`retained_sublist`);
* the fields the real function does not touch (`reload_reg`, `reload_cfg`, …);
* `NoReload`: the hypothesis of the theorems that follow ONE link through a run by its INDEX.

`mem_createConnections` / `mem_reload` are the SOUNDNESS direction only (what a link of the post-state can be).  The
converse and the closed forms — which addresses are attempted (`mem_neededAddrs_iff`, `neededAddrs_nodup`,
`neededAddrs_firstOcc`, `neededAddrs_unique`), which attempt yields which link (`createConnections_eq`,
`mem_createConnections_iff`) — are in `Lemmas/ReloadExact.lean`; the property-level statements in
`Props/SysReload.lean` (`reload_exact`, `mem_reload_iff`, `reload_adds`).
-/
namespace Srtla.Sys
open Srtla Srtla.Link Srtla.Conn

variable {F : Type} [Scalar F]

/-- No event of the list is a reload: the link set (number of links, index of every link) is fixed. -/
def NoReload (evs : List Ev) : Prop := ∀ e ∈ evs, e.isReload = false

theorem NoReload.nil : NoReload [] := fun _ h => nomatch h

theorem NoReload.head {e : Ev} {es : List Ev} (h : NoReload (e :: es)) : e.isReload = false :=
  h e List.mem_cons_self

theorem NoReload.tail {e : Ev} {es : List Ev} (h : NoReload (e :: es)) : NoReload es :=
  fun x hx => h x (List.mem_cons_of_mem _ hx)

theorem NoReload.append {a b : List Ev} (ha : NoReload a) (hb : NoReload b) : NoReload (a ++ b) := by
  intro e he
  rcases List.mem_append.1 he with h | h
  · exact ha e h
  · exact hb e h

theorem NoReload.left {a b : List Ev} (h : NoReload (a ++ b)) : NoReload a :=
  fun e he => h e (List.mem_append_left _ he)

theorem NoReload.right {a b : List Ev} (h : NoReload (a ++ b)) : NoReload b :=
  fun e he => h e (List.mem_append_right _ he)

instance (evs : List Ev) : Decidable (NoReload evs) := by unfold NoReload; exact inferInstance

/-! ## The link list -/

theorem reload_links (s : Sys F) (now : Nat) (addrs : List Nat) (outs : List (Option Nat)) :
    (step s (.reload now addrs outs)).1.links =
      retained s.links addrs ++ createConnections now (neededAddrs s.links addrs) outs := rfl

theorem reload_out (s : Sys F) (now : Nat) (addrs : List Nat) (outs : List (Option Nat)) :
    (step s (.reload now addrs outs)).2 = {} := rfl

/-- Every created link is a fresh `newUplink` record for one of the attempted addresses, with one of the
drawn ids. -/
theorem mem_createConnections {now : Nat} {as : List Nat} {outs : List (Option Nat)} {l : FLink F}
    (h : l ∈ createConnections now as outs) : ∃ id a, a ∈ as ∧ some id ∈ outs ∧ l = FLink.newUplink id a now := by
  induction as generalizing outs with
  | nil => simp [createConnections] at h
  | cons a rest ih =>
    unfold createConnections at h
    split at h
    · rename_i id hid
      have hmem : some id ∈ outs := by
        cases outs with
        | nil => simp at hid
        | cons o os =>
          simp only [List.head?_cons, Option.join_some] at hid
          subst hid; exact List.mem_cons_self
      rcases List.mem_cons.1 h with rfl | h
      · exact ⟨id, a, List.mem_cons_self, hmem, rfl⟩
      · obtain ⟨id', a', ha', hid', rfl⟩ := ih h
        exact ⟨id', a', List.mem_cons_of_mem _ ha', List.mem_of_mem_tail hid', rfl⟩
    · obtain ⟨id', a', ha', hid', rfl⟩ := ih h
      exact ⟨id', a', List.mem_cons_of_mem _ ha', List.mem_of_mem_tail hid', rfl⟩

omit [Scalar F] in
theorem retained_sublist (ls : List (FLink F)) (addrs : List Nat) : (retained ls addrs).Sublist ls :=
  List.filter_sublist

omit [Scalar F] in
theorem mem_retained {ls : List (FLink F)} {addrs : List Nat} {l : FLink F} :
    l ∈ retained ls addrs ↔ l ∈ ls ∧ addrs.contains l.addr = true := by
  unfold retained; exact List.mem_filter

/-- **Membership through a reload**: a link of the post-state is a link of the pre-state — with its WHOLE
record — whose address is still desired, or a freshly constructed registering link. -/
theorem mem_reload {s : Sys F} {now : Nat} {addrs : List Nat} {outs : List (Option Nat)} {l : FLink F}
    (h : l ∈ (step s (.reload now addrs outs)).1.links) :
    (l ∈ s.links ∧ addrs.contains l.addr = true) ∨
    ∃ id a, a ∈ neededAddrs s.links addrs ∧ some id ∈ outs ∧ l = FLink.newUplink id a now := by
  rw [reload_links] at h
  rcases List.mem_append.1 h with h | h
  · exact .inl (mem_retained.1 h)
  · exact .inr (mem_createConnections h)

/-- A predicate that holds of every link and of every fresh record holds of every link after a reload. -/
theorem reload_all {P : FLink F → Prop} {s : Sys F} (now : Nat) (addrs : List Nat) (outs : List (Option Nat))
    (h : ∀ l ∈ s.links, P l) (hnew : ∀ id a, P (FLink.newUplink id a now)) :
    ∀ l ∈ (step s (.reload now addrs outs)).1.links, P l := by
  intro l hl
  rcases mem_reload hl with ⟨h1, -⟩ | ⟨id, a, -, -, rfl⟩
  · exact h l h1
  · exact hnew id a

/-! ## What the real function does not touch -/

theorem reload_reg (s : Sys F) (now : Nat) (addrs : List Nat) (outs : List (Option Nat)) :
    (step s (.reload now addrs outs)).1.reg = s.reg := rfl
theorem reload_cfg (s : Sys F) (now : Nat) (addrs : List Nat) (outs : List (Option Nat)) :
    (step s (.reload now addrs outs)).1.cfg = s.cfg := rfl
theorem reload_clientKnown (s : Sys F) (now : Nat) (addrs : List Nat) (outs : List (Option Nat)) :
    (step s (.reload now addrs outs)).1.clientKnown = s.clientKnown := rfl
theorem reload_critDeadline (s : Sys F) (now : Nat) (addrs : List Nat) (outs : List (Option Nat)) :
    (step s (.reload now addrs outs)).1.critDeadline = s.critDeadline := rfl
theorem reload_allFailedAt (s : Sys F) (now : Nat) (addrs : List Nat) (outs : List (Option Nat)) :
    (step s (.reload now addrs outs)).1.allFailedAt = s.allFailedAt := rfl
theorem reload_failNext (s : Sys F) (now : Nat) (addrs : List Nat) (outs : List (Option Nat)) :
    (step s (.reload now addrs outs)).1.failNext = s.failNext := rfl
theorem reload_failBind (s : Sys F) (now : Nat) (addrs : List Nat) (outs : List (Option Nat)) :
    (step s (.reload now addrs outs)).1.failBind = s.failBind := rfl

end Srtla.Sys
