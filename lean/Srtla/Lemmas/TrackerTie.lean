import Srtla.Lemmas.ForwardClient
import Srtla.Lemmas.KeepaliveTrace
/-!
# The sequence tracker in the shell (C05 tie to routing)

`Model/Conn.lean` `attributeNak` reads the ring; who WRITES it lives in `Model/Sys.lean`:
`forwardVia` (= `forward_via_connection`) inserts `(seq, conn id of the link it was called for, now)`
for a data packet, `stallProbesGo` (= `send_stall_probes`) does not even receive the ring, and no other
arm of the event loop touches it.  Here: those facts as theorems about `handleSrtPacket` / `step`,
phrased with C01's `target` (the link that gets the unique copy), and the shell-level invariant
"every remembered id is the id of a link" (the shell model has no link removal; removal + purge is
covered by `Props/C05.lean` `C05_tracker_ids_present`).
-/
namespace Srtla.TrackerTie
open Srtla Srtla.Gen Srtla.Conn Srtla.Link Srtla.Sys Srtla.Uplink Srtla.KaTrace

set_option linter.unusedSectionVars false

variable {F : Type} [Scalar F]

/-- What `forward_via_connection` does to the ring and to `last_selected_idx`. -/
theorem forwardVia_trk (s : Sys F) (sel : Nat) (pkt : Sys.Bytes) (seq : Option Nat) (now : Nat)
    (l : FLink F) (hl : s.links[sel]? = some l) :
    (forwardVia s sel pkt seq now).1.trk =
      (match seq with
       | some sq => s.trk.insert sq l.core.connId now
       | none => s.trk) ∧
    (forwardVia s sel pkt seq now).1.lastSelected = some sel := by
  unfold forwardVia
  simp only [hl]
  split <;> exact ⟨rfl, rfl⟩

/-- `send_stall_probes` cannot write the ring: `routeTo` (forward + probes) leaves it as
`forward_via_connection` left it. -/
theorem routeTo_trk (s1 : Sys F) (sel : Nat) (pkt : Sys.Bytes) (seq : Option Nat) (now : Nat) (probes : Bool) :
    (routeTo s1 sel pkt seq now probes).1.trk = (forwardVia s1 sel pkt seq now).1.trk ∧
    (routeTo s1 sel pkt seq now probes).1.lastSelected = (forwardVia s1 sel pkt seq now).1.lastSelected := by
  unfold routeTo
  dsimp only
  split <;> exact ⟨rfl, rfl⟩

theorem runSelect_trk (s : Sys F) (now : Nat) :
    (runSelect s now).1.trk = s.trk ∧ (runSelect s now).1.lastSelected = s.lastSelected := ⟨rfl, rfl⟩

/-- **One client datagram and the ring.**  With `target` the link that receives the unique copy
(`Lemmas/ForwardClient.lean`, C01):
* an empty datagram, or no usable link (`target = none`): the ring is unchanged;
* `target = some sel`: `sel` names a link `l`, `last_selected_idx` becomes `sel`, and the ring is the
  old ring with exactly ONE slot written — `(seq, l.conn_id, now)` — if the datagram is an SRT data
  packet (`seq = some sq`), and unchanged otherwise (control packets are not tracked).
Stall-probe copies queued on other links by the same event write nothing. -/
theorem handleSrtPacket_trk (s : Sys F) (pkt : Sys.Bytes) (now : Nat) :
    ((pkt.isEmpty = true ∨ target s pkt now = none) → (handleSrtPacket s pkt now).1.trk = s.trk) ∧
    (∀ sel, pkt.isEmpty = false → target s pkt now = some sel →
      ∃ l, s.links[sel]? = some l ∧ (handleSrtPacket s pkt now).1.lastSelected = some sel ∧
        (handleSrtPacket s pkt now).1.trk =
          (match Codec.getSrtSequenceNumberS pkt with
           | some sq => s.trk.insert sq l.core.connId now
           | none => s.trk)) := by
  cases hne : pkt.isEmpty with
  | true =>
    have hr : handleSrtPacket s pkt now = (s, {}) := by unfold handleSrtPacket; rw [if_pos hne]
    refine ⟨fun _ => by rw [hr], fun sel h => by cases h⟩
  | false =>
    rw [handleSrtPacket_eq s pkt now hne]
    unfold target
    cases hreg : s.reg.hasConnected with
    | true =>
      simp only [if_true]
      refine ⟨?_, ?_⟩
      · rintro (h | h)
        · cases h
        · rw [h]; rfl
      · intro sel _ hsel
        rw [hsel]
        dsimp only
        have hlt := selected_in_range s pkt now sel hsel
        obtain ⟨l1, hl1, -, hcore, -, -⟩ :=
          routedLinks_getElem? s now sel s.links[sel] (List.getElem?_eq_getElem hlt)
        have hrl : routedLinks s now = (runSelect s now).1.links := by unfold routedLinks; simp [hreg]
        rw [hrl] at hl1
        obtain ⟨r1, r2⟩ := routeTo_trk (runSelect s now).1 sel pkt (Codec.getSrtSequenceNumberS pkt) now
          (Codec.getSrtSequenceNumberS pkt).isSome
        obtain ⟨f1, f2⟩ := forwardVia_trk (runSelect s now).1 sel pkt (Codec.getSrtSequenceNumberS pkt) now
          l1 hl1
        refine ⟨s.links[sel], List.getElem?_eq_getElem hlt, r2.trans f2, ?_⟩
        rw [r1, f1, hcore]
        rfl
    | false =>
      simp only [Bool.false_eq_true, if_false]
      refine ⟨?_, ?_⟩
      · rintro (h | h)
        · cases h
        · rw [h]
      · intro sel _ hsel
        rw [hsel]
        dsimp only
        have hlt := selectPreRegistration_in_range _ _ _ _ hsel
        obtain ⟨r1, r2⟩ := routeTo_trk s sel pkt (Codec.getSrtSequenceNumberS pkt) now false
        obtain ⟨f1, f2⟩ := forwardVia_trk s sel pkt (Codec.getSrtSequenceNumberS pkt) now
          s.links[sel] (List.getElem?_eq_getElem hlt)
        exact ⟨s.links[sel], List.getElem?_eq_getElem hlt, r2.trans f2, r1.trans f1⟩

/-- No other arm of the event loop writes the ring (a reload RESETS the entries of the removed conn ids:
`reload_trk_ent`). -/
theorem step_trk_other (s : Sys F) (e : Ev) (h : ∀ now pkt, e ≠ .client now pkt) (hnr : e.isReload = false) :
    (step s e).1.trk = s.trk := by
  cases e with
  | reload rnow raddrs routs => cases hnr
  | client now pkt => exact absurd rfl (h now pkt)
  | uplink now cid data =>
    simp only [step]
    unfold handleUplinkPacket
    split
    · rfl
    · split
      · rfl
      · split
        · rfl
        · rfl
  | flush now =>
    simp only [step]
    unfold flushAllBatches
    split <;> rfl
  | hk now => rfl
  | setCfg cfg => rfl
  | crit d => rfl
  | failNext cid => rfl
  | failAfter cid kfa => rfl
  | failBind cid => rfl
  | stamp idx weak ld ccb cct => rfl
  | syncTimeout => rfl

/-! ## Shell invariant: remembered ids are ids of links -/

/-- Every id in the ring is 0 (empty slot) or the conn id of a link of the shell. -/
def TrkSubSys (s : Sys F) : Prop :=
  ∀ i, (s.trk.ent i).connId = 0 ∨ ∃ l ∈ s.links, l.core.connId = (s.trk.ent i).connId

/-- `remove_connection` for a list of ids, slot by slot: an entry naming one of the ids is reset to the
all-zero default, every other entry is untouched. -/
theorem foldl_removeConnection_ent (ids : List Nat) (t : Tracker) (i : Nat) :
    (ids.foldl Tracker.removeConnection t).ent i = if (t.ent i).connId ∈ ids then {} else t.ent i := by
  induction ids generalizing t with
  | nil => simp
  | cons c rest ih =>
    rw [List.foldl_cons, ih]
    show (if ((if (t.ent i).connId = c then ({} : TrkEntry) else t.ent i)).connId ∈ rest then ({} : TrkEntry)
        else (if (t.ent i).connId = c then ({} : TrkEntry) else t.ent i)) = _
    by_cases hc : (t.ent i).connId = c
    · rw [if_pos hc, if_pos (show (t.ent i).connId ∈ c :: rest by rw [hc]; exact List.mem_cons_self)]
      split <;> rfl
    · rw [if_neg hc]
      by_cases hr : (t.ent i).connId ∈ rest
      · rw [if_pos hr, if_pos (List.mem_cons_of_mem _ hr)]
      · rw [if_neg hr, if_neg (by intro h; rcases List.mem_cons.1 h with h | h; exact hc h; exact hr h)]

/-- **The ring after a reload, slot by slot**: if at least one link was removed, an entry naming a removed
conn id is reset to the all-zero default; every other entry is untouched. -/
theorem reload_trk_ent (s : Sys F) (now : Nat) (addrs : List Nat) (outs : List (Option Nat)) (i : Nat) :
    ((step s (.reload now addrs outs)).1.trk.ent i) =
      if (retained s.links addrs).length ≠ s.links.length ∧ (s.trk.ent i).connId ∈ removedIds s.links addrs
      then {} else s.trk.ent i := by
  show ((if ((retained s.links addrs).length != s.links.length) = true
      then (removedIds s.links addrs).foldl Tracker.removeConnection s.trk else s.trk).ent i) = _
  by_cases hch : (retained s.links addrs).length = s.links.length
  · have : ((retained s.links addrs).length != s.links.length) = false := by simp [hch]
    rw [this]
    simp [hch]
  · have : ((retained s.links addrs).length != s.links.length) = true := by simp [hch]
    rw [this, if_pos rfl, foldl_removeConnection_ent]
    simp [hch]

/-- A link that is not retained makes the retained list shorter. -/
theorem removed_changes {ls : List (FLink F)} {addrs : List Nat} {l : FLink F} (hl : l ∈ ls)
    (hr : addrs.contains l.addr = false) : (retained ls addrs).length ≠ ls.length := by
  have : (retained ls addrs).length < ls.length := by
    unfold retained
    exact List.length_filter_lt_length_iff_exists.2 ⟨l, hl, by rw [hr]; simp⟩
  omega

theorem ids_stable (s : Sys F) (e : Ev) (hnr : e.isReload = false) (cid : Nat) (h : ∃ l ∈ s.links, l.core.connId = cid) :
    ∃ l ∈ (step s e).1.links, l.core.connId = cid := by
  obtain ⟨l, hl, hc⟩ := h
  obtain ⟨j, hj⟩ := List.getElem?_of_mem hl
  obtain ⟨b, hb, hab⟩ := (step_id s e hnr).get hj
  exact ⟨b, List.mem_of_getElem? hb, (show b.core.connId = l.core.connId from hab).trans hc⟩

theorem trkSubSys_step (s : Sys F) (e : Ev) (h : TrkSubSys s) : TrkSubSys (step s e).1 := by
  intro i
  cases hnr : e.isReload with
  | true =>
    -- a reload purges exactly the entries that name a removed link
    cases e with
    | reload now addrs outs =>
      rw [reload_trk_ent]
      split
      · exact Or.inl rfl
      · rename_i hno
        rcases h i with h0 | ⟨l, hl, hid⟩
        · exact Or.inl h0
        · cases hr : addrs.contains l.addr with
          | true =>
            exact Or.inr ⟨l, by rw [reload_links]; exact List.mem_append_left _ (mem_retained.2 ⟨hl, hr⟩), hid⟩
          | false =>
            exfalso
            apply hno
            refine ⟨removed_changes hl hr, ?_⟩
            rw [← hid]
            unfold removedIds
            exact List.mem_map.2 ⟨l, List.mem_filter.2 ⟨hl, by rw [hr]; rfl⟩, rfl⟩
    | _ => cases hnr
  | false =>
  by_cases hc : ∃ now pkt, e = .client now pkt
  · obtain ⟨now, pkt, rfl⟩ := hc
    obtain ⟨h1, h2⟩ := handleSrtPacket_trk s pkt now
    have hold : (s.trk.ent i).connId = 0 ∨
        ∃ l ∈ (step s (.client now pkt)).1.links, l.core.connId = (s.trk.ent i).connId := by
      rcases h i with h0 | hm
      · exact Or.inl h0
      · exact Or.inr (ids_stable s _ rfl _ hm)
    cases hne : pkt.isEmpty with
    | true =>
      have := h1 (Or.inl hne)
      simp only [step]
      rw [this]; exact hold
    | false =>
      cases ht : target s pkt now with
      | none =>
        have := h1 (Or.inr ht)
        simp only [step]
        rw [this]; exact hold
      | some sel =>
        obtain ⟨l, hl, -, htrk⟩ := h2 sel hne ht
        simp only [step]
        rw [htrk]
        cases hs : Codec.getSrtSequenceNumberS pkt with
        | none => exact hold
        | some sq =>
          dsimp only
          simp only [Tracker.insert]
          split
          · right
            exact ids_stable s (.client now pkt) rfl _ ⟨l, List.mem_of_getElem? hl, rfl⟩
          · exact hold
  · have hne : ∀ now pkt, e ≠ .client now pkt := fun now pkt he => hc ⟨now, pkt, he⟩
    rw [step_trk_other s e hne hnr]
    rcases h i with h0 | hm
    · exact Or.inl h0
    · exact Or.inr (ids_stable s e hnr _ hm)

theorem trkSubSys_run (s : Sys F) (evs : List Ev) (h : TrkSubSys s) : TrkSubSys (runEvs s evs) := by
  unfold runEvs
  induction evs generalizing s with
  | nil => exact h
  | cons e es ih => simp only [List.foldl_cons]; exact ih _ (trkSubSys_step s e h)

end Srtla.TrackerTie
