import Srtla.Lemmas.ForwardRun
import Srtla.Lemmas.Enhanced
import Srtla.Lemmas.SysInvQual
/-!
# The shell's scheduling step is idempotent / stable; the quality cache along `Sys.run` (C11 at shell level)

* `runSelect_view`: the selection views of the links `runSelect` leaves behind ARE the links
  `select_connection_idx` returned (write-back then read-back is the identity on the pass's output);
* `runSelect_idem` / `runSelect_stable`: `C11_idempotent` / `C11_stable` lifted to `runSelect` on the full
  connection records (any scalar instance, `Float` included);
* `qualRange_run`: the cached quality multiplier of every link stays in `[0.35, 1.1·1.03]` along every
  `Sys.run` (the same induction as `SysLevel.QualInv_run`, which `Props/C11.lean` cannot import).
-/
set_option linter.unusedSectionVars false

namespace Srtla.SelShell
open Srtla Srtla.Gen Srtla.Conn Srtla.Select Srtla.Rtt Srtla.Link Srtla.Sys Scalar

section generic
variable {F : Type} [Scalar F]

/-- `FLink.absorb` link by link (the write-back of `runSelect`). -/
def writeBack (ls : List (FLink F)) (sl : List (SLink F)) : List (FLink F) :=
  (ls.zip sl).map fun p => p.1.absorb p.2

theorem runSelect_eq (s : Sys F) (now : Nat) :
    runSelect s now =
      ({ s with links := writeBack s.links (selectIdx (s.links.map FLink.toSLink) s.lastSelected now s.cfg).1 },
       (selectIdx (s.links.map FLink.toSLink) s.lastSelected now s.cfg).2) := rfl

/-- Reading the selection view back after the write-back gives what `select_connection_idx` returned. -/
theorem runSelect_view (s : Sys F) (now : Nat) :
    (runSelect s now).1.links.map FLink.toSLink =
      (selectIdx (s.links.map FLink.toSLink) s.lastSelected now s.cfg).1 := by
  obtain ⟨g, h1, h2, -, h4⟩ := Hk.runSelect_links s now
  rw [h1, h4, List.map_map, List.map_map]
  apply List.map_congr_left
  intro l _
  exact Sys.toSLink_absorb l (g l.toSLink) (h2 l.toSLink)

theorem absorb_absorb (l : FLink F) (x : SLink F) : (l.absorb x).absorb x = l.absorb x := rfl

theorem zip_absorb_again (ls : List (FLink F)) (g : SLink F → SLink F) :
    ((ls.map fun l => l.absorb (g l.toSLink)).zip (ls.map fun l => g l.toSLink)).map
      (fun p => p.1.absorb p.2) = ls.map fun l => l.absorb (g l.toSLink) := by
  induction ls with
  | nil => rfl
  | cons a as ih =>
    simp only [List.map_cons, List.zip_cons_cons]
    rw [ih]
    rfl

/-- Writing the pass's own output into the links it left behind changes nothing. -/
theorem runSelect_absorb_again (s : Sys F) (now : Nat) :
    writeBack (runSelect s now).1.links (selectIdx (s.links.map FLink.toSLink) s.lastSelected now s.cfg).1 =
      (runSelect s now).1.links := by
  obtain ⟨g, h1, -, -, h4⟩ := Hk.runSelect_links s now
  rw [h1, h4, List.map_map]
  exact zip_absorb_again s.links g

/-- **`runSelect` is idempotent** at equal `now > 0`: same decision, same state. -/
theorem runSelect_idem (s : Sys F) (now : Nat) (h : 0 < now) :
    runSelect (runSelect s now).1 now = runSelect s now := by
  have hv := runSelect_view s now
  have ha := runSelect_absorb_again s now
  have hi := SelLemmas.selectIdx_idem (s.links.map FLink.toSLink) s.lastSelected now s.cfg h
  rw [runSelect_eq (runSelect s now).1 now]
  have hl : (runSelect s now).1.lastSelected = s.lastSelected := rfl
  have hc : (runSelect s now).1.cfg = s.cfg := rfl
  rw [hv, hl, hc, hi, ha]
  rfl

/-- **`runSelect` is stable**: feeding the decision back as the previous pick (what `forward_via_connection`
does) returns the decision and leaves the state alone. -/
theorem runSelect_stable (s : Sys F) (now r : Nat) (h : 0 < now) (hr : (runSelect s now).2 = some r) :
    runSelect { (runSelect s now).1 with lastSelected := some r } now =
      ({ (runSelect s now).1 with lastSelected := some r }, some r) := by
  have hv := runSelect_view s now
  have ha := runSelect_absorb_again s now
  have hr' : (selectIdx (s.links.map FLink.toSLink) s.lastSelected now s.cfg).2 = some r := hr
  have hi := SelLemmas.selectIdx_stable (s.links.map FLink.toSLink) s.lastSelected now s.cfg r h hr'
  rw [runSelect_eq { (runSelect s now).1 with lastSelected := some r } now]
  have hl : ({ (runSelect s now).1 with lastSelected := some r } : Sys F).links = (runSelect s now).1.links := rfl
  have hls : ({ (runSelect s now).1 with lastSelected := some r } : Sys F).lastSelected = some r := rfl
  have hc : ({ (runSelect s now).1 with lastSelected := some r } : Sys F).cfg = s.cfg := rfl
  rw [hl, hls, hc, hv, hi]
  dsimp only
  rw [ha]
  rfl

end generic

section field
variable {K : Type} [Field K] [LinearOrder K] [IsStrictOrderedRing K] [FloorRing K] (e : K → K) (ninf : K)
open Srtla.SysInv

/-- The cached quality multiplier of every link stays in `[0.35, 1.1·1.03]` along every run. -/
theorem qualRange_run (he : ExpLaw e) (s : Sys K) (evs : List Ev)
    (h : ∀ l ∈ s.links, QualRange l.qualMult) :
    ∀ l ∈ (@run K (fieldScalar K e ninf) s evs).1.links, QualRange l.qualMult := by
  induction evs generalizing s with
  | nil => exact h
  | cons ev evs ih =>
    exact ih _ (@step_all K (fieldScalar K e ninf) (fun l => QualRange l.qualMult) s ev
      (fun _ _ => qualRange_closed e ninf he _ _ _) h)

end field

end Srtla.SelShell
