import Srtla.Lemmas.SelShellStep
import Srtla.Lemmas.ReconnectLive
import Srtla.Lemmas.Audit2BHk
/-!
# Audit round 2 (P-B), C08: frame lemmas for the FIRST registration of a link

A never-established link (`connection_established_ms = 0`) is paced by its start-up grace deadline, which
`Hk.Evolves` does not track.  Here: who writes `startup_grace_deadline_ms` (`step_grace_nonhk`: outside
housekeeping nobody, except the tear-down, which zeroes it), what a tick does to a link in terms of `hkDue`
(`hk_not_due_grace`), and the REG2 a due tick puts on the wire for ANY link, established or not
(`hk_wire_reg2_due`).
-/
namespace Srtla.Audit2B
open Srtla Srtla.Gen Srtla.Conn Srtla.Select Srtla.Link Srtla.Sys

set_option linter.unusedSectionVars false
set_option linter.unusedVariables false

variable {F : Type} [Scalar F]
variable {fa : List (Nat × Nat)}

/-! ## 1. Who writes the grace deadline -/

theorem takeBatch_grace (l : FLink F) (now : Nat) : (l.takeBatch now).1.graceDeadline = l.graceDeadline := by
  rw [Hk.takeBatch_eq]
  split <;> rfl

theorem fwdLink_grace (l : FLink F) (pkt : Link.Bytes) (seq : Option Nat) (now : Nat) (fn : List Nat) :
    (Hk.fwdLink fa l pkt seq now fn).1.graceDeadline = l.graceDeadline ∨
    (Hk.fwdLink fa l pkt seq now fn).1.graceDeadline = 0 := by
  unfold Hk.fwdLink
  split
  · dsimp only
    rw [(Hk.sendBatch_cases _ now fn).1]
    split
    · left; exact takeBatch_grace _ now
    · right; rfl
  · left; rfl

theorem probeLink_grace (l : FLink F) (pkt : Link.Bytes) (seq : Option Nat) (now : Nat) (fn : List Nat) :
    (Hk.probeLink fa l pkt seq now fn).1.graceDeadline = l.graceDeadline ∨
    (Hk.probeLink fa l pkt seq now fn).1.graceDeadline = 0 := by
  have hp : l.stallProbeDue.1.graceDeadline = l.graceDeadline := by
    unfold FLink.stallProbeDue
    dsimp only
    split <;> rfl
  unfold Hk.probeLink
  split
  · left; exact hp
  · rcases fwdLink_grace l.stallProbeDue.1 pkt seq now fn with h | h
    · left; exact h.trans hp
    · right; exact h

theorem kaLink_grace (l : FLink F) (data : Codec.Bytes) (now : Nat) :
    (Uplink.kaLink l data now).graceDeadline = l.graceDeadline := by
  have hk : ∀ x : FLink F, (x.handleKeepaliveResponse data now).1.graceDeadline = x.graceDeadline := by
    intro x
    unfold FLink.handleKeepaliveResponse
    split
    · rfl
    · split
      · dsimp only
        split <;> rfl
      · rfl
  have hr : ∀ x : FLink F, x.recordRttProbe.graceDeadline = x.graceDeadline := by
    intro x
    unfold FLink.recordRttProbe
    split
    · split <;> rfl
    · rfl
  unfold Uplink.kaLink
  split
  · show (((Uplink.stamp l now).handleKeepaliveResponse data now).1.recordRttProbe).graceDeadline = _
    rw [hr, hk]; rfl
  · rw [hk]; rfl

theorem aliveLink_grace (classic : Bool) (now : Nat) (l : FLink F) :
    (Hk.aliveLink classic now l).graceDeadline = l.graceDeadline := by
  unfold Hk.aliveLink
  dsimp only
  have e1 : (if l.needsKeepalive now then (l.keepalivePacket now).1 else l).graceDeadline = l.graceDeadline := by
    split <;> rfl
  generalize (if l.needsKeepalive now then (l.keepalivePacket now).1 else l) = l1 at e1 ⊢
  have e2 : (if l1.needsRttMeasurement now then (l1.keepalivePacket now).1 else l1).graceDeadline = l1.graceDeadline := by
    split <;> rfl
  generalize (if l1.needsRttMeasurement now then (l1.keepalivePacket now).1 else l1) = l2 at e2 ⊢
  have e3 : (if !classic then l2.performWindowRecovery now else l2).graceDeadline = l2.graceDeadline := by
    split <;> rfl
  generalize (if !classic then l2.performWindowRecovery now else l2) = l3 at e3 ⊢
  have e4 : (({ l3 with bitrate := l3.bitrate.calculate now } : FLink F).updatePhase now).graceDeadline
      = l3.graceDeadline := by
    unfold FLink.updatePhase
    dsimp only
    split
    · split <;> rfl
    · split <;> rfl
    · split <;> rfl
    · rfl
  show (({ l3 with bitrate := l3.bitrate.calculate now } : FLink F).updatePhase now).recomputeBatchRegime.graceDeadline = _
  have e5 : ∀ x : FLink F, x.recomputeBatchRegime.graceDeadline = x.graceDeadline := fun _ => rfl
  rw [e5, e4, e3, e2, e1]

/-- **Outside housekeeping nobody writes the start-up grace deadline, except a tear-down, which zeroes it.** -/
theorem step_grace_nonhk (s : Sys F) (e : Ev) (j : Nat) (l : FLink F) (hl : s.links[j]? = some l)
    (hne : ∀ now, e ≠ .hk now) (hnr : e.isReload = false) :
    ∃ l', (step s e).1.links[j]? = some l' ∧
      (l'.graceDeadline = l.graceDeadline ∨ l'.graceDeadline = 0) := by
  cases e with
  | reload now addrs outs => cases hnr
  | hk now => exact absurd rfl (hne now)
  | client now pkt =>
    obtain ⟨m, hm, hcase⟩ := SelShell.passLinks_get s pkt now j l hl
    have hml : m.graceDeadline = l.graceDeadline := by
      rcases hcase with ⟨-, rfl⟩ | ⟨-, hr⟩
      · rfl
      · obtain ⟨g, h1, -, -, -⟩ := Hk.runSelect_links s now
        rw [h1, List.getElem?_map, hl] at hr
        simp only [Option.map_some, Option.some.injEq] at hr
        rw [← hr]; rfl
    obtain ⟨x, hx, hfx⟩ := SelShell.client_link s pkt now j m hm
    refine ⟨x, hx, ?_⟩
    cases hfx with
    | idle _ h => left; rw [h]; exact hml
    | target _ h =>
      rw [h]
      rcases fwdLink_grace m pkt (Codec.getSrtSequenceNumberS pkt) now s.failNext with h' | h'
      · left; exact h'.trans hml
      · right; exact h'
    | probe _ _ _ _ _ _ h =>
      obtain ⟨fn, rfl⟩ := h
      rcases probeLink_grace m pkt (Codec.getSrtSequenceNumberS pkt) now fn with h' | h'
      · left; exact h'.trans hml
      · right; exact h'
  | uplink now cid data =>
    obtain ⟨l', a, sacks, acks, h1, hev, ha⟩ := SelShell.uplink_link s cid data now j l hl
    refine ⟨l', h1, ?_⟩
    have hsh := hev.shell
    unfold Uplink.SameShell at hsh
    have hg : l'.graceDeadline = a.graceDeadline := by rw [hsh]
    rw [hg]
    rcases ha with rfl | ⟨-, -, rfl⟩
    · left; rfl
    · rcases SelShell.arrival_shape l j s.reg s.clientKnown data now with h | h | h | ⟨-, h⟩ | ⟨-, h⟩ | h
      · left; rw [h]
      · left; rw [h]
      · left; rw [h]; rfl
      · right; rw [h]; rfl
      · left; rw [h]; exact kaLink_grace l data now
      · left; rw [h]; rfl
  | flush now =>
    obtain ⟨l', h1, h2⟩ := SelShell.flush_link s now j l hl
    refine ⟨l', h1, Or.inl ?_⟩
    rcases h2 with rfl | rfl
    · rfl
    · exact takeBatch_grace l now
  | setCfg cfg => exact ⟨l, hl, Or.inl rfl⟩
  | crit d => exact ⟨l, hl, Or.inl rfl⟩
  | failNext cid => exact ⟨l, hl, Or.inl rfl⟩
  | failAfter cid kfa => exact ⟨l, hl, Or.inl rfl⟩
  | failBind cid => exact ⟨l, hl, Or.inl rfl⟩
  | stamp idx weak ld ccb cct =>
    refine ⟨Hk.stampOne idx weak ld ccb cct j l, ?_, Or.inl ?_⟩
    · show (stampLink s.links idx weak ld ccb cct)[j]? = _
      rw [Hk.stampLink_get, hl]; rfl
    · unfold Hk.stampOne
      split <;> rfl
  | syncTimeout =>
    refine ⟨{ l with connTimeoutMs := s.cfg.connTimeoutMs }, ?_, Or.inl rfl⟩
    show (s.links.map fun l => ({ l with connTimeoutMs := s.cfg.connTimeoutMs } : FLink F))[j]? = _
    rw [List.getElem?_map, hl]; rfl

/-! ## 2. A tick, in terms of `hkDue` -/

/-- A link that is not due keeps its attempt stamp and its grace deadline — up to the re-arm of the one link the
completing start-up probing chose. -/
theorem hk_not_due_grace (s : Sys F) (now j : Nat) (l : FLink F) (hl : s.links[j]? = some l)
    (hd : hkDue s now j l = false) :
    ∃ l', (handleHousekeeping s now).1.links[j]? = some l' ∧ Hk.Evolves s.reg.hasConnected none l l' ∧
      l'.graceDeadline = (Hk.graceFix (Hk.hkGraceIdx s now) now j l).graceDeadline := by
  obtain ⟨l', h1, h2⟩ := hk_not_due_link s now j l hl hd
  refine ⟨l', h1, h2, ?_⟩
  obtain ⟨τ, h⟩ := Hk.hk_links s now
  rw [h, List.getElem?_mapIdx, hl] at h1
  simp only [Option.map_some, Option.some.injEq] at h1
  rw [← h1]
  have hn : ¬ ((Hk.graceFix (Hk.hkGraceIdx s now) now j l).isTimedOut now = true ∧
      (Hk.graceFix (Hk.hkGraceIdx s now) now j l).shouldAttemptReconnect now = true) := by
    intro hv
    rw [(hkDue_iff_view s now j l).2 hv] at hd
    cases hd
  show (Hk.hkLink s.cfg.classic now (Hk.hkP1 s now).1.pending (Hk.hkFails s now j l.core.connId) j
      (Hk.graceFix (Hk.hkGraceIdx s now) now j l)).graceDeadline = _
  unfold Hk.hkLink
  split
  · rename_i hto
    split
    · rename_i hsa
      exact absurd ⟨hto, hsa⟩ hn
    · rfl
  · exact aliveLink_grace _ now _

/-- **A due tick puts a REG2 with the group id on the link's wire** — for ANY link the tick attempts,
established before or not, whether or not the socket re-creation succeeds — provided no uplink is awaiting
REG2. -/
theorem hk_wire_reg2_due (s : Sys F) (now j : Nat) (l : FLink F) (hl : s.links[j]? = some l)
    (hpend : s.reg.pending = none) (hd : hkDue s now j l = true) :
    (l.core.connId, Codec.createReg2 s.reg.id) ∈ (handleHousekeeping s now).2.wire := by
  rw [(Hk.hk_eq s now).2.2.1]
  apply List.mem_append_left
  apply List.mem_append_left
  obtain ⟨-, r2, r3⟩ := Hk.hkP1_reg s now
  have hget : (Hk.hkP1 s now).2[j]? = some (Hk.graceFix (Hk.hkGraceIdx s now) now j l) := by
    rw [Hk.hkP1_links, List.getElem?_mapIdx, hl]; rfl
  obtain ⟨hto', hsa'⟩ := (hkDue_iff_view s now j l).1 hd
  have := Hk.hkLinksGo_wire_reg2 s.cfg.classic now (Hk.hkP1 s now).2 0 (Hk.hkP1 s now).1 s.failBind (r2 hpend) j _
    hget hto' hsa'
  unfold Reg.buildReg2 at this
  rw [r3, Hk.graceFix_connId] at this
  exact this

/-- With the registration manager at rest there is no grace re-arm: `hkDue` is "timed out and due". -/
theorem hkDue_idle (s : Sys F) (now j : Nat) (l : FLink F) (h : Hk.RegIdle s.reg) :
    hkDue s now j l = true ↔ (l.isTimedOut now = true ∧ l.shouldAttemptReconnect now = true) := by
  rw [hkDue_iff, Hk.hkGraceIdx_none s now h.2.2]
  constructor
  · rintro ⟨a, b, -⟩; exact ⟨a, b⟩
  · rintro ⟨a, b⟩; exact ⟨a, b, fun h => by cases h.1⟩

theorem graceFix_idle (s : Sys F) (now j : Nat) (l : FLink F) (h : Hk.RegIdle s.reg) :
    Hk.graceFix (Hk.hkGraceIdx s now) now j l = l := by
  rw [Hk.hkGraceIdx_none s now h.2.2]
  unfold Hk.graceFix
  simp

end Srtla.Audit2B
