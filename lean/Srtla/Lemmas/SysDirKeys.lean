import Srtla.Lemmas.SysDir
/-!
# What the per-link operations do to the packet-log key list (for C02 at shell level)

`KOp` / `kstep`: the per-link set machine of C02 ("sent and not yet retired"): a send inserts once, a
cumulative ACK removes everything at or below it, an SRTLA ACK / NAK handled by THIS link removes that
number, a reset empties the set.

`keys_run`: from a link that satisfies the accounting invariant, every sequence of per-link operations of
the shell (`SysDir.LinkRun`) acts on the key list as a history of that machine, using only the set
operations the shell operations allow (`kopOk`): sends ONLY by `take_batch` (the numbers are registered when
a batch is DRAINED — threshold or periodic flush — not when they are queued), cumulative ACKs only by
`handle_srt_ack`, single retirements only by `handle_srtla_ack_specific` / `handle_nak`, resets only by
`mark_for_recovery` / `reset_for_reconnect` / REG3.  The invariant is preserved.
-/
set_option linter.unusedSectionVars false
set_option linter.unusedVariables false

namespace Srtla.SysDir
open Srtla Srtla.Gen Srtla.Conn Srtla.Select Srtla.Rtt Srtla.Link Srtla.Sys Srtla.SysInv Scalar

variable {F : Type} [Scalar F]

/-- Operations of the per-link set machine. -/
inductive KOp where
  | send (seq : Int)
  | cumAck (a : Int)
  | retire (seq : Int)
  | reset

/-- The per-link set machine (C02's spec, one link). -/
def kstep (k : List Int) : KOp → List Int
  | .send s => specRegister k s
  | .cumAck a => specCumAck k a
  | .retire s => specErase k s
  | .reset => []

/-- The set operations a sequence of shell operations drawn from `A` can perform. -/
def kopOk (A : Op → Prop) : KOp → Prop
  | .send _ => A .take
  | .cumAck _ => A .srtAck
  | .retire _ => A .sack ∨ A .nak
  | .reset => A .mark ∨ A .reconnect ∨ A .reg3

/-- The sequence numbers a drained batch registers, in queue order (control packets carry none). -/
def batchSeqs (q : List QItem) : List Int := q.filterMap fun it => it.2.1.map toI32

theorem keys_foldl_regFold (q : List QItem) (c : Conn) :
    (q.foldl Hk.regFold c).keys = (batchSeqs q).foldl specRegister c.keys := by
  induction q generalizing c with
  | nil => rfl
  | cons it q ih =>
    rw [List.foldl_cons, ih]
    cases h : it.2.1 with
    | none =>
      have e1 : Hk.regFold c it = c := by unfold Hk.regFold; rw [h]
      have e2 : batchSeqs (it :: q) = batchSeqs q := by
        unfold batchSeqs; rw [List.filterMap_cons, h]; rfl
      rw [e1, e2]
    | some s =>
      have e1 : Hk.regFold c it = c.register (toI32 s) it.2.2 := by unfold Hk.regFold; rw [h]
      have e2 : batchSeqs (it :: q) = toI32 s :: batchSeqs q := by
        unfold batchSeqs; rw [List.filterMap_cons, h]; rfl
      rw [e1, e2, List.foldl_cons, register_keys]

/-- `take_batch` registers exactly the queued sequence numbers, in queue order. -/
theorem keys_takeBatch (l : FLink F) (now : Nat) :
    (l.takeBatch now).1.core.keys = (batchSeqs l.queue).foldl specRegister l.core.keys := by
  rw [Hk.takeBatch_eq]
  split
  · rename_i hq
    have : l.queue = [] := by simpa using hq
    rw [this]
    rfl
  · exact keys_foldl_regFold l.queue l.core

/-- The key-list relation: invariant preserved, and the new key list is a history of the set machine over
the old one. -/
def KeysRel (A : Op → Prop) (l a : FLink F) : Prop :=
  LinkInv l → LinkInv a ∧ ∃ kops : List KOp, (∀ k ∈ kops, kopOk A k) ∧ a.core.keys = kops.foldl kstep l.core.keys

theorem KeysRel.snoc {A : Op → Prop} {l a b : FLink F} (h : KeysRel A l a) (hb : LinkInv a → LinkInv b)
    (ks : List KOp) (hok : ∀ k ∈ ks, kopOk A k) (hk : LinkInv a → b.core.keys = ks.foldl kstep a.core.keys) :
    KeysRel A l b := by
  intro hl
  obtain ⟨ha, kops, h1, h2⟩ := h hl
  refine ⟨hb ha, kops ++ ks, ?_, ?_⟩
  · intro k hk'
    rcases List.mem_append.1 hk' with h | h
    · exact h1 k h
    · exact hok k h
  · rw [List.foldl_append, ← h2]
    exact hk ha

theorem keys_congr {c c' : Conn} (h : c'.log = c.log) : c'.keys = c.keys := by
  simp only [keys_def, h]

/-- **Keys under every sequence of shell operations.** -/
theorem keys_run {now : Nat} {classic : Bool} {A : Op → Prop} {l l' : FLink F}
    (h : LinkRun now classic A l l') : KeysRel A l l' := by
  have hR : StepRel now classic A (KeysRel (F := F) A) :=
    { refl := fun l hl => ⟨hl, [], by simp, rfl⟩
      soft := fun l a b hs h =>
        h.snoc (linkInv_soft now a b hs) [] (by simp) (fun _ => keys_congr hs.log)
      queue := fun _ l a pkt seq hs h =>
        h.snoc (linkInv_queue now a pkt seq hs) [] (by simp) (fun _ => rfl)
      take := fun ha l a h => by
        refine h.snoc (linkInv_take now a) ((batchSeqs a.queue).map KOp.send) ?_ (fun _ => ?_)
        · intro k hk
          obtain ⟨s, -, rfl⟩ := List.mem_map.1 hk
          exact ha
        · rw [keys_takeBatch, List.foldl_map]
          rfl
      mark := fun ha l a h =>
        h.snoc (fun _ => linkInv_mark a) [.reset] (by intro k hk; simp at hk; subst hk; exact .inl ha) (fun _ => rfl)
      reconnect := fun ha l a h =>
        h.snoc (fun _ => linkInv_reconnect now a) [.reset]
          (by intro k hk; simp at hk; subst hk; exact .inr (.inl ha)) (fun _ => rfl)
      reg3 := fun ha l a h =>
        h.snoc (linkInv_reg3 now a) [.reset]
          (by intro k hk; simp at hk; subst hk; exact .inr (.inr ha)) (fun _ => rfl)
      recover := fun _ l a h => h.snoc (linkInv_recover now a) [] (by simp) (fun _ => rfl)
      srtAck := fun ha l a x h => by
        refine h.snoc (linkInv_srtAck now a x) [.cumAck x] (by intro k hk; simp at hk; subst hk; exact ha) (fun hi => ?_)
        rw [Uplink.core_srtAck]
        exact srtAck_keys a.core x now hi.log
      sack := fun ha l a seq h =>
        h.snoc (linkInv_sack now a seq classic) [.retire seq]
          (by intro k hk; simp at hk; subst hk; exact .inl ha) (fun _ => srtlaAck_keys a.core seq classic now)
      gack := fun _ l a h => h.snoc (linkInv_gack a) [] (by simp) (fun _ => (ackGlobal_keys a.core).1)
      nak := fun ha l a seq h =>
        h.snoc (linkInv_nak now a seq) [.retire seq]
          (by intro k hk; simp at hk; subst hk; exact .inr ha) (fun _ => nak_keys a.core seq now)
      select := fun _ l a x h => h.snoc (linkInv_absorb a x) [] (by simp) (fun _ => rfl) }
  exact hR.of_run h

/-- The conn id of a link never changes. -/
theorem connId_run {now : Nat} {classic : Bool} {A : Op → Prop} {l l' : FLink F}
    (h : LinkRun now classic A l l') : l'.core.connId = l.core.connId := by
  have hR : StepRel now classic A (fun (l a : FLink F) => a.core.connId = l.core.connId) :=
    { refl := fun _ => rfl
      soft := fun l a b hs h => hs.connId.trans h
      queue := fun _ l a pkt seq _ h => h
      take := fun _ l a h => (Hk.ev_takeBatch false none a now).connId.trans h
      mark := fun _ l a h => h
      reconnect := fun _ l a h => h
      reg3 := fun _ l a h => h
      recover := fun _ l a h => h
      srtAck := fun _ l a x h => by
        rw [Uplink.core_srtAck]
        exact (connId_srtAck a.core x now).trans h
      sack := fun _ l a seq h => (connId_srtlaAck a.core seq classic now).trans h
      gack := fun _ l a h => (connId_ackGlobal a.core).trans h
      nak := fun _ l a seq h => (connId_nak a.core seq now).trans h
      select := fun _ l a x h => h }
  exact hR.of_run h

end Srtla.SysDir
