import Srtla.Lemmas.SysDir
/-!
# What the per-link operations do to the packet-log key list (for C02 at shell level)

`KOp` / `kstep`: the per-link set machine of C02 ("sent and not yet retired"): a send inserts once, a
cumulative ACK removes everything at or below it, an SRTLA ACK / NAK handled by THIS link removes that
number, a reset empties the set.

`keys_run`: from a link that satisfies the accounting invariant, every sequence of per-link operations of
the shell (`SysDir.LinkRun`) acts on the key list as a history of that machine, using only the set
operations the shell operations allow (`kopOk`): sends ONLY by `take_batch` (the numbers are registered when
a batch is DRAINED — threshold or periodic flush — not when they are queued), cumulative ACKs only by
`handle_srt_ack`, single retirements only by `handle_srtla_ack_specific` / `handle_nak`, resets only by
`mark_for_recovery` / `reset_for_reconnect` / REG3.  The invariant is preserved.
-/
set_option linter.unusedSectionVars false
set_option linter.unusedVariables false

namespace Srtla.SysDir
open Srtla Srtla.Gen Srtla.Conn Srtla.Select Srtla.Rtt Srtla.Link Srtla.Sys Srtla.SysInv Scalar

variable {F : Type} [Scalar F]
variable {fa : List (Nat × Nat)}

/-- Operations of the per-link set machine. -/
inductive KOp where
  | send (seq : Int)
  | cumAck (a : Int)
  | retire (seq : Int)
  | reset

/-- The per-link set machine (C02's spec, one link). -/
def kstep (k : List Int) : KOp → List Int
  | .send s => specRegister k s
  | .cumAck a => specCumAck k a
  | .retire s => specErase k s
  | .reset => []

/-- The set operations a sequence of shell operations drawn from `A` can perform. -/
def kopOk (A : Op → Prop) : KOp → Prop
  | .send _ => A .take
  | .cumAck _ => A .srtAck
  | .retire _ => A .sack ∨ A .nak
  | .reset => A .mark ∨ A .reconnect ∨ A .reg3

/-- The sequence numbers a drained batch registers, in queue order (control packets carry none). -/
def batchSeqs (q : List QItem) : List Int := q.filterMap fun it => it.2.1.map toI32

theorem keys_foldl_regFold (q : List QItem) (c : Conn) :
    (q.foldl Hk.regFold c).keys = (batchSeqs q).foldl specRegister c.keys := by
  induction q generalizing c with
  | nil => rfl
  | cons it q ih =>
    rw [List.foldl_cons, ih]
    cases h : it.2.1 with
    | none =>
      have e1 : Hk.regFold c it = c := by unfold Hk.regFold; rw [h]
      have e2 : batchSeqs (it :: q) = batchSeqs q := by
        unfold batchSeqs; rw [List.filterMap_cons, h]; rfl
      rw [e1, e2]
    | some s =>
      have e1 : Hk.regFold c it = c.register (toI32 s) it.2.2 := by unfold Hk.regFold; rw [h]
      have e2 : batchSeqs (it :: q) = toI32 s :: batchSeqs q := by
        unfold batchSeqs; rw [List.filterMap_cons, h]; rfl
      rw [e1, e2, List.foldl_cons, register_keys]

/-- `take_batch` registers exactly the queued sequence numbers, in queue order. -/
theorem keys_takeBatch (l : FLink F) (now : Nat) :
    (l.takeBatch now).1.core.keys = (batchSeqs l.queue).foldl specRegister l.core.keys := by
  rw [Hk.takeBatch_eq]
  split
  · rename_i hq
    have : l.queue = [] := by simpa using hq
    rw [this]
    rfl
  · exact keys_foldl_regFold l.queue l.core

/-- The key-list relation: invariant preserved, and the new key list is a history of the set machine over
the old one. -/
def KeysRel (A : Op → Prop) (l a : FLink F) : Prop :=
  LinkInv l → LinkInv a ∧ ∃ kops : List KOp, (∀ k ∈ kops, kopOk A k) ∧ a.core.keys = kops.foldl kstep l.core.keys

theorem KeysRel.snoc {A : Op → Prop} {l a b : FLink F} (h : KeysRel A l a) (hb : LinkInv a → LinkInv b)
    (ks : List KOp) (hok : ∀ k ∈ ks, kopOk A k) (hk : LinkInv a → b.core.keys = ks.foldl kstep a.core.keys) :
    KeysRel A l b := by
  intro hl
  obtain ⟨ha, kops, h1, h2⟩ := h hl
  refine ⟨hb ha, kops ++ ks, ?_, ?_⟩
  · intro k hk'
    rcases List.mem_append.1 hk' with h | h
    · exact h1 k h
    · exact hok k h
  · rw [List.foldl_append, ← h2]
    exact hk ha

theorem keys_congr {c c' : Conn} (h : c'.log = c.log) : c'.keys = c.keys := by
  simp only [keys_def, h]

/-- **Keys under every sequence of shell operations.** -/
theorem keys_run {now : Nat} {classic : Bool} {A : Op → Prop} {l l' : FLink F}
    (h : LinkRun now classic A l l') : KeysRel A l l' := by
  have hR : StepRel now classic A (KeysRel (F := F) A) :=
    { refl := fun l hl => ⟨hl, [], by simp, rfl⟩
      soft := fun l a b hs h =>
        h.snoc (linkInv_soft now a b hs) [] (by simp) (fun _ => keys_congr hs.log)
      queue := fun _ l a pkt seq hs h =>
        h.snoc (linkInv_queue now a pkt seq hs) [] (by simp) (fun _ => rfl)
      take := fun ha l a h => by
        refine h.snoc (linkInv_take now a) ((batchSeqs a.queue).map KOp.send) ?_ (fun _ => ?_)
        · intro k hk
          obtain ⟨s, -, rfl⟩ := List.mem_map.1 hk
          exact ha
        · rw [keys_takeBatch, List.foldl_map]
          rfl
      mark := fun ha l a h =>
        h.snoc (fun _ => linkInv_mark a) [.reset] (by intro k hk; simp at hk; subst hk; exact .inl ha) (fun _ => rfl)
      reconnect := fun ha l a h =>
        h.snoc (fun _ => linkInv_reconnect now a) [.reset]
          (by intro k hk; simp at hk; subst hk; exact .inr (.inl ha)) (fun _ => rfl)
      reg3 := fun ha l a h =>
        h.snoc (linkInv_reg3 now a) [.reset]
          (by intro k hk; simp at hk; subst hk; exact .inr (.inr ha)) (fun _ => rfl)
      recover := fun _ l a h => h.snoc (linkInv_recover now a) [] (by simp) (fun _ => rfl)
      srtAck := fun ha l a x h => by
        refine h.snoc (linkInv_srtAck now a x) [.cumAck x] (by intro k hk; simp at hk; subst hk; exact ha) (fun hi => ?_)
        rw [Uplink.core_srtAck]
        exact srtAck_keys a.core x now hi.log
      sack := fun ha l a seq h =>
        h.snoc (linkInv_sack now a seq classic) [.retire seq]
          (by intro k hk; simp at hk; subst hk; exact .inl ha) (fun _ => srtlaAck_keys a.core seq classic now)
      gack := fun _ l a h => h.snoc (linkInv_gack a) [] (by simp) (fun _ => (ackGlobal_keys a.core).1)
      nak := fun ha l a seq h =>
        h.snoc (linkInv_nak now a seq) [.retire seq]
          (by intro k hk; simp at hk; subst hk; exact .inr ha) (fun _ => nak_keys a.core seq now)
      select := fun _ l a x h => h.snoc (linkInv_absorb a x) [] (by simp) (fun _ => rfl) }
  exact hR.of_run h

/-- The conn id of a link never changes. -/
theorem connId_run {now : Nat} {classic : Bool} {A : Op → Prop} {l l' : FLink F}
    (h : LinkRun now classic A l l') : l'.core.connId = l.core.connId := by
  have hR : StepRel now classic A (fun (l a : FLink F) => a.core.connId = l.core.connId) :=
    { refl := fun _ => rfl
      soft := fun l a b hs h => hs.connId.trans h
      queue := fun _ l a pkt seq _ h => h
      take := fun _ l a h => (Hk.ev_takeBatch false none a now).connId.trans h
      mark := fun _ l a h => h
      reconnect := fun _ l a h => h
      reg3 := fun _ l a h => h
      recover := fun _ l a h => h
      srtAck := fun _ l a x h => by
        rw [Uplink.core_srtAck]
        exact (connId_srtAck a.core x now).trans h
      sack := fun _ l a seq h => (connId_srtlaAck a.core seq classic now).trans h
      gack := fun _ l a h => (connId_ackGlobal a.core).trans h
      nak := fun _ l a seq h => (connId_nak a.core seq now).trans h
      select := fun _ l a x h => h }
  exact hR.of_run h

/-! ## The client event, exactly (audit round 2) -/

deriving instance DecidableEq for KOp

/-- **The block of set operations a `client` event performs on link `j`, as a FUNCTION of the pre-state** (conn ids
pairwise distinct).  With `app = appended s (.client now pkt) j` — what the event appends to link `j`'s batch
queue: the unique copy on the chosen link, a probe copy on a stall-gated connected link whose 1-in-100 counter
fires, nothing on any other link (`C01_exactly_one_unique_copy` is its closed form) —
* nothing appended: no operation;
* appended, the queue stays below the regime threshold (4 / 16 / 32): no operation (queued, NOT registered);
* threshold reached and an injected send failure is pending for the link's conn id: the batch is drained, the send
  fails (the injection is consumed), `mark_for_recovery` — one `reset`;
* threshold reached, no injected failure: the batch is drained and sent — one `send` per queued data packet
  (old queue content first, then the new datagram), in queue order. -/
def clientBlock (s : Sys F) (now : Nat) (pkt : Sys.Bytes) (j : Nat) : List KOp :=
  match s.links[j]? with
  | none => []
  | some l =>
    if (appended s (.client now pkt) j).isEmpty then []
    else if (l.queue ++ appended s (.client now pkt) j).length < l.regime.batchSize then []
    else if l.core.connId ∈ s.failNext then [.reset]
    else (batchSeqs (l.queue ++ appended s (.client now pkt) j)).map .send

theorem foldl_sends (q : List Int) (k : List Int) : (q.map KOp.send).foldl kstep k = q.foldl specRegister k := by
  rw [List.foldl_map]; rfl

/-- The keys after `Hk.fwdLink`, by the case table. -/
theorem keys_fwdLink (l : FLink F) (pkt : Sys.Bytes) (seq : Option Nat) (now : Nat) (fn : List Nat) :
    (Hk.fwdLink fa l pkt seq now fn).1.core.keys =
      (if (l.queue ++ [(pkt, seq, now)]).length < l.regime.batchSize then l.core.keys
       else if l.core.connId ∈ fn then []
       else (batchSeqs (l.queue ++ [(pkt, seq, now)])).foldl specRegister l.core.keys) ∧
    (¬ (l.queue ++ [(pkt, seq, now)]).length < l.regime.batchSize → l.core.connId ∈ fn →
      (Hk.fwdLink fa l pkt seq now fn).2.2.count l.core.connId < fn.count l.core.connId) := by
  obtain ⟨hq1, -, hq3, -, -, -⟩ := queueDataPacket_spec l pkt seq now
  have hlen : (l.queue ++ [(pkt, seq, now)]).length = l.queue.length + 1 := by simp
  rw [hlen]
  rcases fwdLink_cases l pkt seq now fn with h | h | h
  · refine ⟨?_, fun hn => absurd h.1 hn⟩
    rw [if_pos h.1, h.2.1, hq3]
  · refine ⟨?_, fun _ hc => absurd hc h.2.1⟩
    rw [if_neg (by omega), if_neg h.2.1, h.2.2.1, keys_takeBatch, hq1, hq3]
  · refine ⟨?_, fun _ _ => ?_⟩
    · rw [if_neg (by omega), if_pos h.2.1, h.2.2.1]
      rfl
    · rw [h.2.2.2.2]
      exact Hk.count_erase_lt fn _ (by simpa using h.2.1)

/-- **A client event on link `j`, exactly**: the key list afterwards is the fold of the per-link set machine over
`clientBlock s now pkt j`; and in the `reset` case the event consumed an injected send failure for the link's conn
id (its multiplicity in `failNext` went down). -/
theorem client_keys_exact (s : Sys F) (now : Nat) (pkt : Sys.Bytes) (hnd : (ids s.links).Nodup) (j : Nat)
    (l : FLink F) (hl : s.links[j]? = some l) :
    ∃ l', (step s (.client now pkt)).1.links[j]? = some l' ∧
      l'.core.keys = (clientBlock s now pkt j).foldl kstep l.core.keys ∧
      (clientBlock s now pkt j = [.reset] →
        (step s (.client now pkt)).1.failNext.count l.core.connId < s.failNext.count l.core.connId) := by
  show ∃ l', (handleSrtPacket s pkt now).1.links[j]? = some l' ∧ _ ∧
    (_ → (handleSrtPacket s pkt now).1.failNext.count l.core.connId < _)
  unfold clientBlock
  rw [hl]
  dsimp only
  have happdef : appended s (.client now pkt) j = appendedClient s pkt now j := rfl
  rw [happdef]
  by_cases hnone : pkt.isEmpty = true ∨ target s pkt now = none
  · -- empty datagram / no target: nothing appended, nothing changes
    obtain ⟨-, l', h1, h2, -, -⟩ := client_none s pkt now hnone j l hl
    have happ : appendedClient s pkt now j = [] := by
      unfold appendedClient
      rcases hnone with h | h
      · rw [if_pos h]
      · rw [h]; split <;> rfl
    refine ⟨l', h1, ?_, ?_⟩
    · rw [happ]; simp only [List.isEmpty_nil, if_true, List.foldl_nil]; rw [h2]
    · rw [happ]; simp
  · have hpe : pkt.isEmpty = false := by
      cases h : pkt.isEmpty
      · rfl
      · exact absurd (Or.inl h) hnone
    obtain ⟨sel, ht⟩ : ∃ sel, target s pkt now = some sel := by
      cases h : target s pkt now with
      | none => exact absurd (Or.inr h) hnone
      | some sel => exact ⟨sel, rfl⟩
    obtain ⟨l1, r1, rq, rc, rp, rr⟩ := routedLinks_getElem? s now j l hl
    have happ : appendedClient s pkt now j =
        clientApp (clientItem pkt now) (s.reg.hasConnected && (Codec.getSrtSequenceNumberS pkt).isSome) sel j l1 := by
      unfold appendedClient
      rw [if_neg (by simp [hpe]), ht, r1]
    obtain ⟨hfle, hx⟩ := client_exact s pkt now sel hpe ht
    -- the common end: `fwdLink` on a record `m` that agrees with `l` on queue, core and regime
    have fin : ∀ (m : FLink F) (fn0 : List Nat), m.queue = l.queue → m.core = l.core → m.regime = l.regime →
        (l.core.connId ∈ fn0 ↔ l.core.connId ∈ s.failNext) → Hk.FnLe s.failNext fn0 →
        Hk.FnLe (Hk.fwdLink s.failAfter m pkt (Codec.getSrtSequenceNumberS pkt) now fn0).2.2 (handleSrtPacket s pkt now).1.failNext →
        appendedClient s pkt now j = [clientItem pkt now] →
        (Hk.fwdLink s.failAfter m pkt (Codec.getSrtSequenceNumberS pkt) now fn0).1.core.keys =
          (if (appendedClient s pkt now j).isEmpty = true then []
            else if (l.queue ++ appendedClient s pkt now j).length < l.regime.batchSize then []
            else if l.core.connId ∈ s.failNext then [KOp.reset]
            else (batchSeqs (l.queue ++ appendedClient s pkt now j)).map KOp.send).foldl kstep l.core.keys ∧
        ((if (appendedClient s pkt now j).isEmpty = true then []
            else if (l.queue ++ appendedClient s pkt now j).length < l.regime.batchSize then []
            else if l.core.connId ∈ s.failNext then [KOp.reset]
            else (batchSeqs (l.queue ++ appendedClient s pkt now j)).map KOp.send) = [KOp.reset] →
          (handleSrtPacket s pkt now).1.failNext.count l.core.connId < s.failNext.count l.core.connId) := by
      intro m fn0 hmq hmc hmr hmem h0 e2 ha
      obtain ⟨k1, k2⟩ := keys_fwdLink m pkt (Codec.getSrtSequenceNumberS pkt) now fn0
      rw [hmq, hmc, hmr] at k1 k2
      rw [ha]
      simp only [List.isEmpty_cons, Bool.false_eq_true, if_false]
      have hci : clientItem pkt now = (pkt, Codec.getSrtSequenceNumberS pkt, now) := rfl
      rw [hci]
      refine ⟨?_, fun hr => ?_⟩
      · rw [k1]
        split
        · rfl
        · by_cases hc : l.core.connId ∈ s.failNext
          · rw [if_pos (hmem.2 hc), if_pos hc]; rfl
          · rw [if_neg (fun h => hc (hmem.1 h)), if_neg hc, foldl_sends]
      · split at hr
        · cases hr
        · rename_i hthr
          by_cases hc : l.core.connId ∈ s.failNext
          · exact Nat.lt_of_le_of_lt (e2 _) (Nat.lt_of_lt_of_le (k2 hthr (hmem.2 hc)) (h0 _))
          · rw [if_neg hc] at hr
            -- a block of sends equal to `[reset]`: impossible
            cases hb : batchSeqs (l.queue ++ [(pkt, Codec.getSrtSequenceNumberS pkt, now)]) with
            | nil => rw [hb] at hr; cases hr
            | cons a t => rw [hb] at hr; cases hr
    rcases hx j l1 r1 with ⟨hi, e1, e2, -⟩ | ⟨hi, hnp, e1⟩ | ⟨hi, hp, hpc, fnk, f1, f2, e1, e2, -⟩
    · -- the chosen link
      refine ⟨_, e1, ?_⟩
      exact fin l1 s.failNext rq rc rr Iff.rfl (Hk.FnLe.refl _) e2
        (by rw [happ]; unfold clientApp; rw [if_pos hi])
    · -- another link, `stall_probe_due` not consulted
      have ha : appendedClient s pkt now j = [] := by
        rw [happ]
        unfold clientApp probeApp
        rw [if_neg hi]
        split
        · rename_i hpp
          rw [if_neg (fun h => hnp ⟨hpp, h.1⟩)]
        · rfl
      refine ⟨l1, e1, ?_, ?_⟩
      · rw [ha]; simp only [List.isEmpty_nil, if_true, List.foldl_nil]; rw [rc]
      · rw [ha]; simp
    · -- a probe link
      have hcnt := f2 hnd
      rw [rc] at hcnt
      have hmem : l.core.connId ∈ fnk ↔ l.core.connId ∈ s.failNext := by
        rw [← List.count_pos_iff, ← List.count_pos_iff, hcnt]
      obtain ⟨-, -, d3, d4, d5⟩ := stallProbeDue_spec l1
      rcases probeLink_cases l1 pkt (Codec.getSrtSequenceNumberS pkt) now fnk with ⟨hlt, hpl⟩ | ⟨hge, hpl⟩
      · have ha : appendedClient s pkt now j = [] := by
          rw [happ]
          unfold clientApp probeApp
          rw [if_neg hi, if_pos hp, if_neg (fun h => by omega)]
        rw [hpl] at e1
        refine ⟨_, e1, ?_, ?_⟩
        · rw [ha]; simp only [List.isEmpty_nil, if_true, List.foldl_nil]; rw [d4, rc]
        · rw [ha]; simp
      · rw [hpl] at e1 e2
        refine ⟨_, e1, ?_⟩
        exact fin l1.stallProbeDue.1 fnk (by rw [d3, rq]) (by rw [d4, rc]) (by rw [d5, rr]) hmem f1 e2
          (by rw [happ]; unfold clientApp probeApp; rw [if_neg hi, if_pos hp, if_pos ⟨hpc, hge⟩])

/-- The block of a `flush` event on link `j`: one `send` per queued data packet, in queue order
(`C02_shell_flush_exact`). -/
def flushBlock (s : Sys F) (j : Nat) : List KOp :=
  match s.links[j]? with
  | none => []
  | some l => (batchSeqs l.queue).map .send

end Srtla.SysDir
