import Srtla.Model.Sys
import Srtla.Props.C04
import Srtla.Props.C12
/-!
# Data-path lemmas for the sender shell (C01)

Building blocks (`takeBatch`, `sendConnectionBatch`, `queueDataPacket`, `stallProbeDue`, resets), the
per-link effect relation `LinkFx`, the positional combinator `Par` for the two list passes that put
queued datagrams on the wire (`stallProbesGo`, `flushGo`), and the master per-event theorem
`step_link`.  Everything is generic in the scalar type `F` with an arbitrary `[Scalar F]`:
selection decisions are opaque.
-/
namespace Srtla.Sys
open Srtla Srtla.Gen Srtla.Conn Srtla.Select Srtla.Rtt Srtla.Link Scalar

set_option linter.unusedSectionVars false

variable {F : Type} [Scalar F]
variable {fa : List (Nat × Nat)}

/-- The payload bytes of queued items. -/
def bytesOf (q : List QItem) : List Bytes := q.map (·.1)

@[simp] theorem bytesOf_nil : bytesOf [] = [] := rfl
@[simp] theorem bytesOf_append (a b : List QItem) : bytesOf (a ++ b) = bytesOf a ++ bytesOf b := by
  simp [bytesOf]

/-- The datagrams of `w` that were put on the socket of conn id `c`, in order. -/
def wireOf (c : Nat) (w : List (Nat × Bytes)) : List Bytes := (w.filter fun x => x.1 == c).map (·.2)

@[simp] theorem wireOf_nil (c : Nat) : wireOf c [] = [] := rfl
@[simp] theorem wireOf_append (c : Nat) (a b : List (Nat × Bytes)) :
    wireOf c (a ++ b) = wireOf c a ++ wireOf c b := by simp [wireOf]

theorem wireOf_tag_self (c : Nat) (b : List Bytes) : wireOf c (b.map fun x => (c, x)) = b := by
  induction b with
  | nil => rfl
  | cons x xs ih => simp_all [wireOf]

theorem wireOf_tag_other (c d : Nat) (b : List Bytes) (h : d ≠ c) : wireOf c (b.map fun x => (d, x)) = [] := by
  induction b with
  | nil => rfl
  | cons x xs ih => simp_all [wireOf]

theorem wireOf_eq_nil_of_tags (c : Nat) (w : List (Nat × Bytes)) (h : ∀ x ∈ w, x.1 ≠ c) : wireOf c w = [] := by
  induction w with
  | nil => rfl
  | cons x xs ih =>
    have hx : x.1 ≠ c := h x (by simp)
    have h2 := ih fun y hy => h y (by simp [hy])
    unfold wireOf at h2 ⊢
    rw [List.filter_cons_of_neg (by simpa using hx)]
    exact h2

/-! ## Link-level building blocks -/

theorem register_connId (c : Conn) (s : Int) (t : Nat) : (c.register s t).connId = c.connId := rfl
theorem register_connected (c : Conn) (s : Int) (t : Nat) : (c.register s t).connected = c.connected := rfl
theorem register_phase (c : Conn) (s : Int) (t : Nat) : (c.register s t).phase = c.phase := rfl

/-- The fold of `take_batch` over the queue touches only the packet log of the core. -/
theorem takeFold_frame (q : List QItem) (c : Conn) :
    let c' := q.foldl (fun c (it : QItem) =>
      match it.2.1 with
      | some s => c.register (toI32 s) it.2.2
      | none => c) c
    c'.connId = c.connId ∧ c'.connected = c.connected ∧ c'.phase = c.phase := by
  induction q generalizing c with
  | nil => exact ⟨rfl, rfl, rfl⟩
  | cons it rest ih =>
    simp only [List.foldl_cons]
    cases h : it.2.1 with
    | none => simpa using ih c
    | some s =>
      have := ih (c.register (toI32 s) it.2.2)
      simp only [register_connId, register_connected, register_phase] at this
      simpa using this

/-- **`take_batch`** returns exactly the queue, in order, and empties it; conn id, connection flag,
stall-gate flag, probe counter and batch regime are not touched. -/
theorem takeBatch_spec (l : FLink F) (now : Nat) :
    (l.takeBatch now).2 = l.queue ∧ (l.takeBatch now).1.queue = [] ∧
    (l.takeBatch now).1.core.connId = l.core.connId ∧
    (l.takeBatch now).1.core.connected = l.core.connected ∧
    (l.takeBatch now).1.stallGated = l.stallGated ∧
    (l.takeBatch now).1.probeCounter = l.probeCounter ∧
    (l.takeBatch now).1.regime = l.regime := by
  unfold FLink.takeBatch
  dsimp only
  split
  · rename_i h
    have : l.queue = [] := by simpa using h
    simp [this]
  · have := takeFold_frame l.queue l.core
    dsimp only at this
    exact ⟨rfl, rfl, this.1, this.2.1, rfl, rfl, rfl⟩

/-- **`send_connection_batch`**: the wire receives exactly the queued datagrams, in queue order, each
tagged with the link's conn id and byte-for-byte unchanged — or only a PREFIX of them (`failPrefix`: the
datagrams `send_all_datagrams` got out before the failing call; none for a plain `failNext` injection), and that
only when a send failure was pending for this conn id (which is then consumed).  The queue is empty afterwards in
every case. -/
theorem sendConnectionBatch_spec (l : FLink F) (now : Nat) (fn : List Nat) :
    let r := sendConnectionBatch fa l now fn
    r.1.queue = [] ∧ r.1.core.connId = l.core.connId ∧ r.1.probeCounter = l.probeCounter ∧
    r.1.regime = l.regime ∧ r.1.stallGated = l.stallGated ∧ r.1.core.connected = l.core.connected ∧
    ((r.2.1 = (bytesOf l.queue).map (fun x => (l.core.connId, x)) ∧ r.2.2.1 = true ∧ r.2.2.2 = fn) ∨
     (r.2.1 = ((bytesOf l.queue).take (failPrefix fa l.core.connId (fn.count l.core.connId))).map
          (fun x => (l.core.connId, x)) ∧
        r.2.2.1 = false ∧ l.queue ≠ [] ∧ l.core.connId ∈ fn ∧ r.2.2.2 = fn.erase l.core.connId)) := by
  have ht := takeBatch_spec l now
  unfold sendConnectionBatch
  dsimp only
  rcases hb : l.takeBatch now with ⟨l1, batch⟩
  rw [hb] at ht
  dsimp only at ht ⊢
  obtain ⟨h1, h2, h3, h4, h5, h6, h7⟩ := ht
  subst h1
  split
  · rename_i he
    have : l.queue = [] := by simpa using he
    simp [h2, h3, h4, h5, h6, h7, this, bytesOf]
  · rename_i he
    have hne : l.queue ≠ [] := by simpa using he
    split
    · rename_i hc
      have : l.core.connId ∈ fn := by simpa using hc
      simp [h2, h3, h4, h5, h6, h7, hne, this, bytesOf, List.map_take, List.map_map, Function.comp_def]
    · simp [h2, h3, h4, h5, h6, h7, bytesOf, List.map_map, Function.comp_def]

theorem sendConnectionBatch_fn_subset (l : FLink F) (now : Nat) (fn : List Nat) :
    ∀ x ∈ (sendConnectionBatch fa l now fn).2.2.2, x ∈ fn := by
  have := sendConnectionBatch_spec (fa := fa) l now fn
  dsimp only at this
  rcases this.2.2.2.2.2.2 with h | h
  · rw [h.2.2]; exact fun _ hx => hx
  · rw [h.2.2.2.2]; exact fun _ hx => List.mem_of_mem_erase hx

/-- **`queue_data_packet`** appends exactly `(pkt, seq, now)` at the END of this link's queue and
reports whether the regime's batch threshold is reached. -/
theorem queueDataPacket_spec (l : FLink F) (pkt : Bytes) (seq : Option Nat) (t : Nat) :
    (l.queueDataPacket pkt seq t).1.queue = l.queue ++ [(pkt, seq, t)] ∧
    (l.queueDataPacket pkt seq t).2 = decide (l.queue.length + 1 ≥ l.regime.batchSize) ∧
    (l.queueDataPacket pkt seq t).1.core = l.core ∧
    (l.queueDataPacket pkt seq t).1.probeCounter = l.probeCounter ∧
    (l.queueDataPacket pkt seq t).1.regime = l.regime ∧
    (l.queueDataPacket pkt seq t).1.stallGated = l.stallGated := by
  simp [FLink.queueDataPacket]

theorem batchSize_le (r : Regime) : r.batchSize ≤ 32 := by
  cases r <;> simp [Regime.batchSize]

theorem batchSize_pos (r : Regime) : 4 ≤ r.batchSize := by
  cases r <;> simp [Regime.batchSize]

/-- **`stall_probe_due`**: a 1-in-100 counter. -/
theorem stallProbeDue_spec (l : FLink F) :
    l.stallProbeDue.2 = decide (l.probeCounter + 1 ≥ 100) ∧
    l.stallProbeDue.1.probeCounter = (if l.probeCounter + 1 ≥ 100 then 0 else l.probeCounter + 1) ∧
    l.stallProbeDue.1.queue = l.queue ∧ l.stallProbeDue.1.core = l.core ∧
    l.stallProbeDue.1.regime = l.regime := by
  unfold FLink.stallProbeDue
  simp only [Cfg.STALL_PROBE_ONE_IN_N_eq]
  by_cases h : l.probeCounter + 1 ≥ 100
  · simp only [if_pos h]; simp [h]
  · simp only [if_neg h]; simp [h]

theorem markForRecovery_spec (l : FLink F) :
    l.markForRecovery.queue = [] ∧ l.markForRecovery.core.connId = l.core.connId ∧
    l.markForRecovery.probeCounter = 0 ∧ l.markForRecovery.core.connected = false ∧
    l.markForRecovery.core.phase = .registering ∧ l.markForRecovery.regime = l.regime :=
  ⟨rfl, rfl, rfl, rfl, rfl, rfl⟩

theorem resetForReconnect_spec (l : FLink F) (now : Nat) :
    (l.resetForReconnect now).queue = [] ∧ (l.resetForReconnect now).core.connId = l.core.connId ∧
    (l.resetForReconnect now).probeCounter = 0 ∧ (l.resetForReconnect now).core.connected = false ∧
    (l.resetForReconnect now).core.phase = .registering ∧ (l.resetForReconnect now).lastAttemptMs = now :=
  ⟨rfl, rfl, rfl, rfl, rfl, rfl⟩

theorem clearPreRegistration_spec (l : FLink F) (now : Nat) :
    (l.clearPreRegistration now).queue = [] ∧ (l.clearPreRegistration now).core.connId = l.core.connId ∧
    (l.clearPreRegistration now).probeCounter = l.probeCounter :=
  ⟨rfl, rfl, rfl⟩

/-! ## The per-link effect of a pass -/

/-- Effect of one pass (or one whole event) on one link's batch queue.  `app` = the items appended at
the END of the queue, `b` = the bytes this pass put on the link's socket, `cause` = what must hold if
queued items are discarded.  Exactly three shapes: *held* (queue grows by `app`, nothing sent; if something was appended the queue stays below the
link's regime threshold, hence below 32),
*sent* (the whole queue incl. `app` goes on the wire, in order, byte for byte), *discarded* (the queue is
emptied and only a PREFIX of it - possibly none of it, possibly all - went on the wire: a send that failed part-way,
or a reset that sent nothing). -/
def LinkFx (cause : Prop) (app : List QItem) (l l' : FLink F) (b : List Bytes) : Prop :=
  l'.core.connId = l.core.connId ∧
  ((l'.queue = l.queue ++ app ∧ b = [] ∧
      (app = [] ∨ (l'.queue.length < l'.regime.batchSize ∧ l'.queue.length < 32))) ∨
   (l'.queue = [] ∧ b = bytesOf (l.queue ++ app)) ∨
   (l'.queue = [] ∧ (∃ k, b = (bytesOf (l.queue ++ app)).take k) ∧ cause))

/-- Effect on the probe counter: when `stall_probe_due` was consulted (`called`) the counter advances
modulo 100; otherwise it is unchanged or zeroed by a reset. -/
def ProbeFx (called : Prop) [Decidable called] (l l' : FLink F) : Prop :=
  if called then l'.probeCounter = (if l.probeCounter + 1 ≥ 100 then 0 else l.probeCounter + 1)
  else (l'.probeCounter = l.probeCounter ∨ l'.probeCounter = 0)

theorem LinkFx.refl (cause : Prop) (l : FLink F) : LinkFx cause [] l l [] :=
  ⟨rfl, Or.inl ⟨by simp, rfl, Or.inl rfl⟩⟩

theorem LinkFx.mono {c1 c2 : Prop} {app : List QItem} {l l' : FLink F} {b : List Bytes}
    (h : LinkFx c1 app l l' b) (hc : c1 → c2) : LinkFx c2 app l l' b := by
  obtain ⟨h1, h2 | h2 | h2⟩ := h
  · exact ⟨h1, Or.inl h2⟩
  · exact ⟨h1, Or.inr (Or.inl h2)⟩
  · exact ⟨h1, Or.inr (Or.inr ⟨h2.1, h2.2.1, hc h2.2.2⟩)⟩

/-- The link was reset by `mark_for_recovery` after a failed send. -/
def FailedSendReset (fn0 : List Nat) (l l' : FLink F) : Prop :=
  l.core.connId ∈ fn0 ∧ l'.core.connected = false ∧ l'.core.phase = .registering

/-- Append one item, flush if the regime threshold is reached, reset the link if that send fails:
the common tail of `forward_via_connection` and `send_stall_probes`. -/
theorem queueThenFlush_fx (l : FLink F) (x : QItem) (now : Nat) (fn fn0 : List Nat)
    (hfn : ∀ y ∈ fn, y ∈ fn0) :
    let q := l.queueDataPacket x.1 x.2.1 now
    (q.2 = false → LinkFx (FailedSendReset fn0 l q.1) [(x.1, x.2.1, now)] l q.1 [] ∧
        q.1.probeCounter = l.probeCounter) ∧
    (q.2 = true →
      let r := sendConnectionBatch fa q.1 now fn
      let l3 := if r.2.2.1 then r.1 else r.1.markForRecovery
      ∃ b, r.2.1 = b.map (fun y => (l.core.connId, y)) ∧
        LinkFx (FailedSendReset fn0 l l3) [(x.1, x.2.1, now)] l l3 b ∧
        (l3.probeCounter = l.probeCounter ∨ l3.probeCounter = 0) ∧ ∀ y ∈ r.2.2.2, y ∈ fn0) := by
  have hq := queueDataPacket_spec l x.1 x.2.1 now
  obtain ⟨hq1, hq2, hq3, hq4, hq5, hq6⟩ := hq
  dsimp only
  constructor
  · intro hf
    rw [hq2] at hf
    have hlt : ¬ (l.queue.length + 1 ≥ l.regime.batchSize) := by simpa using hf
    have := batchSize_le l.regime
    refine ⟨⟨by rw [hq3], Or.inl ⟨hq1, rfl, Or.inr ?_⟩⟩, hq4⟩
    rw [hq1, hq5]; simp; omega
  · intro _
    have hs := sendConnectionBatch_spec (fa := fa) (l.queueDataPacket x.1 x.2.1 now).1 now fn
    dsimp only at hs
    obtain ⟨s1, s2, s3, s4, s5, s6, s7⟩ := hs
    rw [hq3] at s2 s6 s7
    rw [hq1] at s7
    rcases s7 with ⟨w1, w2, w3⟩ | ⟨w1, w2, w3, w4, w5⟩
    · refine ⟨bytesOf (l.queue ++ [(x.1, x.2.1, now)]), w1, ?_, ?_, ?_⟩
      · rw [w2]; exact ⟨s2, Or.inr (Or.inl ⟨s1, rfl⟩)⟩
      · rw [w2]; left; rw [if_pos rfl, s3, hq4]
      · rw [w3]; exact hfn
    · refine ⟨_, w1, ?_, ?_, ?_⟩
      · simp only [w2, Bool.false_eq_true, if_false]
        exact ⟨s2, Or.inr (Or.inr ⟨rfl, ⟨_, rfl⟩, hfn _ w4, rfl, rfl⟩)⟩
      · simp only [w2, Bool.false_eq_true, if_false]; right; rfl
      · rw [w5]; exact fun y hy => hfn y (List.mem_of_mem_erase hy)

/-! ## Positional combinator for list passes that put queued datagrams on the wire -/

/-- `Par R i ls ls' w`: the pass maps `ls` to `ls'` link by link (link at offset `j` has index
`i + j`), and its wire output `w` is the concatenation, in list order, of what each link sent (`b`),
tagged with that link's conn id. -/
inductive Par (R : Nat → FLink F → FLink F → List Bytes → Prop) :
    Nat → List (FLink F) → List (FLink F) → List (Nat × Bytes) → Prop
  | nil (i : Nat) : Par R i [] [] []
  | cons {i : Nat} {l l' : FLink F} {b : List Bytes} {ls ls' : List (FLink F)} {w : List (Nat × Bytes)} :
      R i l l' b → Par R (i + 1) ls ls' w →
      Par R i (l :: ls) (l' :: ls') (b.map (fun x => (l.core.connId, x)) ++ w)

/-- The conn ids of a list of links. -/
def ids (ls : List (FLink F)) : List Nat := ls.map (·.core.connId)

theorem Par.length_eq {R : Nat → FLink F → FLink F → List Bytes → Prop} {i ls ls' w}
    (h : Par R i ls ls' w) : ls'.length = ls.length := by
  induction h with
  | nil => rfl
  | cons _ _ ih => simp [ih]

theorem Par.tags {R : Nat → FLink F → FLink F → List Bytes → Prop} {i ls ls' w}
    (h : Par R i ls ls' w) : ∀ x ∈ w, x.1 ∈ ids ls := by
  induction h with
  | nil => simp
  | cons _ _ ih =>
    intro x hx
    rcases List.mem_append.1 hx with hx | hx
    · obtain ⟨y, -, rfl⟩ := List.mem_map.1 hx
      simp [ids]
    · have := ih x hx
      simp only [ids, List.map_cons, List.mem_cons] at this ⊢
      exact Or.inr this

/-- Link `j` of a `Par` pass: its successor, its relation, and — when conn ids are distinct — the
wire output filtered by its conn id is exactly what it sent. -/
theorem Par.get {R : Nat → FLink F → FLink F → List Bytes → Prop} {i ls ls' w}
    (h : Par R i ls ls' w) (j : Nat) (l : FLink F) (hl : ls[j]? = some l) :
    ∃ l' b, ls'[j]? = some l' ∧ R (i + j) l l' b ∧ ((ids ls).Nodup → wireOf l.core.connId w = b) := by
  induction h generalizing j with
  | nil => simp at hl
  | @cons i l0 l0' b0 ls ls' w hr hp ih =>
    cases j with
    | zero =>
      simp only [List.getElem?_cons_zero, Option.some.injEq] at hl
      subst hl
      refine ⟨l0', b0, rfl, hr, fun hnd => ?_⟩
      simp only [ids, List.map_cons, List.nodup_cons] at hnd
      rw [wireOf_append, wireOf_tag_self, wireOf_eq_nil_of_tags _ w, List.append_nil]
      intro x hx heq
      exact hnd.1 (heq ▸ hp.tags x hx)
    | succ j =>
      simp only [List.getElem?_cons_succ] at hl
      obtain ⟨l', b, h1, h2, h3⟩ := ih j hl
      refine ⟨l', b, by simpa using h1, by rwa [Nat.add_assoc, Nat.add_comm 1 j] at h2, fun hnd => ?_⟩
      simp only [ids, List.map_cons, List.nodup_cons] at hnd
      have hne : l0.core.connId ≠ l.core.connId := by
        intro heq
        apply hnd.1
        rw [heq]
        exact List.mem_map.2 ⟨l, List.mem_of_getElem? hl, rfl⟩
      rw [wireOf_append, wireOf_tag_other _ _ _ hne, List.nil_append]
      exact h3 hnd.2

theorem Par.mono {R R' : Nat → FLink F → FLink F → List Bytes → Prop} {i ls ls' w}
    (h : Par R i ls ls' w) (hi : ∀ i l l' b, R i l l' b → R' i l l' b) : Par R' i ls ls' w := by
  induction h with
  | nil => exact .nil _
  | cons hr _ ih => exact .cons (hi _ _ _ _ hr) ih

theorem Par.ids_eq {R : Nat → FLink F → FLink F → List Bytes → Prop} {i ls ls' w}
    (h : Par R i ls ls' w) (hid : ∀ i l l' b, R i l l' b → l'.core.connId = l.core.connId) :
    ids ls' = ids ls := by
  induction h with
  | nil => rfl
  | cons hr _ ih => simp only [ids, List.map_cons] at ih ⊢; rw [hid _ _ _ _ hr, ih]

end Srtla.Sys
