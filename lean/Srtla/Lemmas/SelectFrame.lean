import Srtla.Model.Select
/-!
# Frame / non-interference lemmas for the selection pass (C12, C04)

Everything here is stated for an arbitrary scalar type `F` with an arbitrary `[Scalar F]`
instance: float comparisons stay opaque Booleans, so the lemmas hold for the `Float` instance the
compiled driver runs with, as well as for any ordered-field instance used elsewhere.
-/
namespace Srtla.Select
open Srtla.Gen Srtla.Conn Srtla

variable {F : Type}

/-! ## The frame: everything a routing decision must not touch -/

/-- All fields of a link except the guard-private ones (`connTimeoutMs, stallGated, latchedSince,
recoverySince, gateEvents, silencePulled, pullMark, silencePulls`) and the quality cache
(`qualMult, qualAt`). -/
structure Frame (F : Type) where
  connId : Nat
  connected : Bool
  phase : Phase
  window : Int
  inFlight : Int
  queued : Int
  lastReceived : Option Nat
  lastSent : Option Nat
  proofMs : Nat
  established : Nat
  graceDeadline : Nat
  probeCounter : Nat
  weak : Bool
  lossDegraded : Bool
  ccTarget : Nat
  srttPos : Bool
  srttTrunc : Nat
  srtt : F
  rttMin : F
  bitrate : F
  nakCount : Int
  lastNakMs : Nat
  nakBurst : Int

def frame (c : SLink F) : Frame F :=
  { connId := c.connId, connected := c.connected, phase := c.phase, window := c.window,
    inFlight := c.inFlight, queued := c.queued, lastReceived := c.lastReceived, lastSent := c.lastSent,
    proofMs := c.proofMs, established := c.established, graceDeadline := c.graceDeadline,
    probeCounter := c.probeCounter, weak := c.weak, lossDegraded := c.lossDegraded,
    ccTarget := c.ccTarget, srttPos := c.srttPos, srttTrunc := c.srttTrunc, srtt := c.srtt,
    rttMin := c.rttMin, bitrate := c.bitrate, nakCount := c.nakCount, lastNakMs := c.lastNakMs,
    nakBurst := c.nakBurst }

/-! ## Stall guard: per-link updates -/

theorem frame_updateSilencePull (c : SLink F) (now : Nat) (m : Int) (ce : Nat) :
    frame (updateSilencePull c now m ce) = frame c := by
  unfold updateSilencePull
  dsimp only
  repeat' split
  all_goals rfl

theorem frame_updateStallLatch (c : SLink F) (now : Nat) (m : Int) (ce : Nat) :
    frame (updateStallLatch c now m ce) = frame c := by
  unfold updateStallLatch
  dsimp only
  repeat' split
  all_goals rfl

theorem gateEvents_updateSilencePull (c : SLink F) (now : Nat) (m : Int) (ce : Nat) :
    (updateSilencePull c now m ce).gateEvents = c.gateEvents := by
  unfold updateSilencePull
  dsimp only
  repeat' split
  all_goals rfl

theorem silencePulls_updateSilencePull (c : SLink F) (now : Nat) (m : Int) (ce : Nat) :
    c.silencePulls ≤ (updateSilencePull c now m ce).silencePulls := by
  unfold updateSilencePull
  dsimp only
  repeat' split
  all_goals simp

theorem silencePulls_updateStallLatch (c : SLink F) (now : Nat) (m : Int) (ce : Nat) :
    (updateStallLatch c now m ce).silencePulls = c.silencePulls := by
  unfold updateStallLatch
  dsimp only
  repeat' split
  all_goals rfl

theorem gateEvents_updateStallLatch (c : SLink F) (now : Nat) (m : Int) (ce : Nat) :
    c.gateEvents ≤ (updateStallLatch c now m ce).gateEvents := by
  unfold updateStallLatch
  dsimp only
  repeat' split
  all_goals simp

/-! ## Stall guard: the pass as a composition of maps -/

/-- Per-link part of the guard-on pass (config stamp, silence pull, latch). -/
def guardStep (now : Nat) (cfg : Cfg) (c : SLink F) : SLink F :=
  updateStallLatch
    (updateSilencePull { c with connTimeoutMs := cfg.connTimeoutMs } now cfg.stallMinInFlight cfg.stallCeilingMs)
    now cfg.stallMinInFlight cfg.stallCeilingMs

/-- Per-link guard-off pass. -/
def guardOff (cfg : Cfg) (c : SLink F) : SLink F :=
  { c with connTimeoutMs := cfg.connTimeoutMs, stallGated := false, silencePulled := false,
           latchedSince := 0, recoverySince := 0 }

/-- The "healthy alternative" predicate of `apply_stall_gate`. -/
def healthy (now : Nat) (c : SLink F) : Bool :=
  c.connected && !isTimedOut c now && schedulable c && !latched c && !c.silencePulled

def setGated (any : Bool) (c : SLink F) : SLink F :=
  { c with stallGated := any && (latched c || c.silencePulled) }

theorem applyStallGate_off (ls : List (SLink F)) (now : Nat) (cfg : Cfg) (h : cfg.stallDeselect = false) :
    applyStallGate ls now cfg = ls.map (guardOff cfg) := by
  unfold applyStallGate
  simp only [h, Bool.not_false, if_true, List.map_map]
  rfl

theorem applyStallGate_on (ls : List (SLink F)) (now : Nat) (cfg : Cfg) (h : cfg.stallDeselect = true) :
    applyStallGate ls now cfg =
      (ls.map (guardStep now cfg)).map (setGated ((ls.map (guardStep now cfg)).any (healthy now))) := by
  unfold applyStallGate
  simp only [h, Bool.not_true, List.map_map]
  rfl

theorem frame_guardStep (now : Nat) (cfg : Cfg) (c : SLink F) : frame (guardStep now cfg c) = frame c := by
  unfold guardStep
  rw [frame_updateStallLatch, frame_updateSilencePull]
  rfl

theorem frame_applyStallGate (ls : List (SLink F)) (now : Nat) (cfg : Cfg) :
    (applyStallGate ls now cfg).map frame = ls.map frame := by
  cases h : cfg.stallDeselect
  · rw [applyStallGate_off ls now cfg h, List.map_map]
    exact List.map_congr_left fun c _ => rfl
  · rw [applyStallGate_on ls now cfg h, List.map_map, List.map_map]
    exact List.map_congr_left fun c _ => frame_guardStep now cfg c

/-! ## Liveness predicates do not read the quality cache -/

/-- "Same link up to the quality cache". -/
def cacheEq (c' c : SLink F) : Prop := ∃ q t, c' = { c with qualMult := q, qualAt := t }

theorem cacheEq_refl (c : SLink F) : cacheEq c c := ⟨c.qualMult, c.qualAt, rfl⟩

theorem cacheEq.frame {c' c : SLink F} (h : cacheEq c' c) : frame c' = frame c := by
  obtain ⟨q, t, rfl⟩ := h; rfl

theorem cacheEq.isTimedOut {c' c : SLink F} (h : cacheEq c' c) (now : Nat) :
    isTimedOut c' now = isTimedOut c now := by
  obtain ⟨q, t, rfl⟩ := h; rfl

theorem cacheEq.schedulable {c' c : SLink F} (h : cacheEq c' c) : schedulable c' = schedulable c := by
  obtain ⟨q, t, rfl⟩ := h; rfl

theorem cacheEq.stallGated {c' c : SLink F} (h : cacheEq c' c) : c'.stallGated = c.stallGated := by
  obtain ⟨q, t, rfl⟩ := h; rfl

theorem cacheEq.connected {c' c : SLink F} (h : cacheEq c' c) : c'.connected = c.connected := by
  obtain ⟨q, t, rfl⟩ := h; rfl

/-! ## Enhanced selector: what the loop does to the list and which indices it can return -/

section scalar
variable [Scalar F]
open Scalar

theorem cacheEq_cachedQuality (c : SLink F) (now : Nat) : cacheEq (cachedQuality c now).1 c := by
  unfold cachedQuality
  split
  · exact ⟨_, _, rfl⟩
  · exact cacheEq_refl c

theorem cacheEq_enhScore (c : SLink F) (now : Nat) (q a : Bool) : cacheEq (enhScore c now q a).1 c := by
  unfold enhScore
  dsimp only
  split
  · exact cacheEq_refl c
  · exact cacheEq_cachedQuality c now

/-- What one iteration of the enhanced loop does to the link it visits. -/
def enhStep (now : Nat) (quality anyUnc : Bool) (c : SLink F) : SLink F :=
  if enhSkip c now anyUnc then c else (enhScore c now quality anyUnc).1

theorem cacheEq_enhStep (now : Nat) (q a : Bool) (c : SLink F) : cacheEq (enhStep now q a c) c := by
  unfold enhStep
  split
  · exact cacheEq_refl c
  · exact cacheEq_enhScore c now q a

/-- The loop rewrites the list link by link, in order. -/
theorem enhGo_out (now : Nat) (q a : Bool) (last : Option Nat) (ls : List (SLink F)) (i : Nat) (acc : EnhAcc F) :
    (enhGo now q a last ls i acc).out = (ls.map (enhStep now q a)).reverse ++ acc.out := by
  induction ls generalizing i acc with
  | nil => simp [enhGo]
  | cons c rest ih =>
    unfold enhGo
    split
    · rename_i hs
      rw [ih]
      simp [enhStep, hs]
    · rename_i hs
      dsimp only
      rw [ih]
      simp [enhStep, hs]

/-- `best` is either the incoming one or an index of a link that was scored (not skipped). -/
theorem enhGo_best (now : Nat) (q a : Bool) (last : Option Nat) (ls : List (SLink F)) (i : Nat) (acc : EnhAcc F) :
    (enhGo now q a last ls i acc).best = acc.best ∨
    ∃ j c, (enhGo now q a last ls i acc).best = some (i + j) ∧ ls[j]? = some c ∧ enhSkip c now a = false := by
  induction ls generalizing i acc with
  | nil => left; simp [enhGo]
  | cons c rest ih =>
    unfold enhGo
    split
    · rename_i hs
      rcases ih (i + 1) { acc with out := c :: acc.out } with h | ⟨j, d, h1, h2, h3⟩
      · left; exact h
      · right; exact ⟨j + 1, d, by rw [h1]; congr 1; omega, by simpa using h2, h3⟩
    · rename_i hs
      dsimp only
      generalize hacc : ({ out := _, best := _, bestScore := _, current := _ } : EnhAcc F) = acc'
      rcases ih (i + 1) acc' with h | ⟨j, d, h1, h2, h3⟩
      · rw [h, ← hacc]
        dsimp only
        split
        · right; exact ⟨0, c, rfl, rfl, by simpa using hs⟩
        · left; rfl
      · right; exact ⟨j + 1, d, by rw [h1]; congr 1; omega, by simpa using h2, h3⟩

/-- `current` is either the incoming one or `last` is the index of a link that was scored. -/
theorem enhGo_current (now : Nat) (q a : Bool) (last : Option Nat) (ls : List (SLink F)) (i : Nat) (acc : EnhAcc F) :
    (enhGo now q a last ls i acc).current = acc.current ∨
    ∃ j c, last = some (i + j) ∧ ls[j]? = some c ∧ enhSkip c now a = false := by
  induction ls generalizing i acc with
  | nil => left; simp [enhGo]
  | cons c rest ih =>
    unfold enhGo
    split
    · rename_i hs
      rcases ih (i + 1) { acc with out := c :: acc.out } with h | ⟨j, d, h1, h2, h3⟩
      · left; exact h
      · right; exact ⟨j + 1, d, by rw [h1]; congr 1; omega, by simpa using h2, h3⟩
    · rename_i hs
      dsimp only
      generalize hacc : ({ out := _, best := _, bestScore := _, current := _ } : EnhAcc F) = acc'
      rcases ih (i + 1) acc' with h | ⟨j, d, h1, h2, h3⟩
      · rw [h, ← hacc]
        dsimp only
        split
        · rename_i hl
          right; exact ⟨0, c, (by simpa using hl : some i = last).symm, rfl, by simpa using hs⟩
        · left; rfl
      · right; exact ⟨j + 1, d, by rw [h1]; congr 1; omega, by simpa using h2, h3⟩

/-- The post-state of the enhanced selector is the input list with `enhStep` applied link by link. -/
theorem enhancedSelect_fst (ls : List (SLink F)) (last : Option Nat) (now : Nat) (q : Bool) :
    (enhancedSelect ls last now q).1 = ls.map (enhStep now q (anyUnconstrained ls now)) := by
  unfold enhancedSelect
  dsimp only
  rw [enhGo_out]
  simp

/-- Every index the enhanced selector returns — the best score, or `last` through hysteresis — is
the index of a link the loop scored (did not skip). -/
theorem enhancedSelect_scored (ls : List (SLink F)) (last : Option Nat) (now : Nat) (q : Bool) (i : Nat)
    (h : (enhancedSelect ls last now q).2 = some i) :
    ∃ c, ls[i]? = some c ∧ enhSkip c now (anyUnconstrained ls now) = false := by
  unfold enhancedSelect at h
  dsimp only at h
  generalize hacc0 : ({ out := [], best := none, bestScore := lit (-1.0) (-1) 1, current := none } : EnhAcc F) = acc0 at h
  have hb := enhGo_best now q (anyUnconstrained ls now) last ls 0 acc0
  have hc := enhGo_current now q (anyUnconstrained ls now) last ls 0 acc0
  have hbest : ∀ i, (enhGo now q (anyUnconstrained ls now) last ls 0 acc0).best = some i →
      ∃ c, ls[i]? = some c ∧ enhSkip c now (anyUnconstrained ls now) = false := by
    intro i hi
    rcases hb with hb | ⟨j, c, h1, h2, h3⟩
    · rw [hb, ← hacc0] at hi; cases hi
    · rw [h1] at hi
      have : i = j := by simpa using hi.symm
      subst this; exact ⟨c, h2, h3⟩
  split at h
  · exact hbest i h
  · rename_i l
    split at h
    · split at h
      · rename_i cur hcur
        split at h
        · -- hysteresis: `last` is returned; it was scored because `current` is set
          rcases hc with hc | ⟨j, c, h1, h2, h3⟩
          · rw [hc, ← hacc0] at hcur; cases hcur
          · have hl : l = j := by simpa using h1
            have hi : l = i := by simpa using h
            subst hl; subst hi; exact ⟨c, h2, h3⟩
        · exact hbest i h
      · exact hbest i h
    · exact hbest i h

end scalar

/-! ## Classic selector -/

theorem score_gt_connected (c : SLink F) (h : score c > -1) : c.connected = true := by
  unfold score at h
  split at h
  · omega
  · simpa using ‹¬(!c.connected) = true›

theorem classicGo_inv (ls : List (SLink F)) (i now : Nat) (best : Option Nat) (bs : Int) (hbs : -1 ≤ bs) :
    classicGo ls i now best bs = best ∨
    ∃ j c, classicGo ls i now best bs = some (i + j) ∧ ls[j]? = some c ∧
      (isTimedOut c now || !schedulable c || c.stallGated) = false ∧ score c > -1 := by
  induction ls generalizing i best bs with
  | nil => left; simp [classicGo]
  | cons c rest ih =>
    unfold classicGo
    split
    · rcases ih (i + 1) best bs hbs with h | ⟨j, d, h1, h2, h3⟩
      · left; exact h
      · right; exact ⟨j + 1, d, by rw [h1]; congr 1; omega, by simpa using h2, h3⟩
    · rename_i hs
      dsimp only
      split
      · rename_i hgt
        rcases ih (i + 1) (some i) (score c) (by omega) with h | ⟨j, d, h1, h2, h3⟩
        · right; exact ⟨0, c, h, rfl, by simpa using hs, by omega⟩
        · right; exact ⟨j + 1, d, by rw [h1]; congr 1; omega, by simpa using h2, h3⟩
      · rcases ih (i + 1) best bs hbs with h | ⟨j, d, h1, h2, h3⟩
        · left; exact h
        · right; exact ⟨j + 1, d, by rw [h1]; congr 1; omega, by simpa using h2, h3⟩

theorem classicSelect_eligible (ls : List (SLink F)) (now i : Nat) (h : classicSelect ls now = some i) :
    ∃ c, ls[i]? = some c ∧ (isTimedOut c now || !schedulable c || c.stallGated) = false ∧ c.connected = true := by
  unfold classicSelect at h
  rcases classicGo_inv ls 0 now none (-1) (by omega) with h0 | ⟨j, c, h1, h2, h3, h4⟩
  · rw [h0] at h; cases h
  · rw [h1] at h
    have : i = j := by simpa using h.symm
    subst this
    exact ⟨c, h2, h3, score_gt_connected c h4⟩

/-! ## Best-quality override filter -/

section scalar2
variable [Scalar F]
open Scalar

theorem bestQualityGo_inv (now : Nat) (ls : List (SLink F)) (i : Nat) (best : Option Nat) (bq : F) :
    bestQualityGo now ls i best bq = best ∨
    ∃ j c, bestQualityGo now ls i best bq = some (i + j) ∧ ls[j]? = some c ∧
      (!c.connected || !schedulable c || isTimedOut c now || c.stallGated) = false := by
  induction ls generalizing i best bq with
  | nil => left; simp [bestQualityGo]
  | cons c rest ih =>
    unfold bestQualityGo
    split
    · rcases ih (i + 1) best bq with h | ⟨j, d, h1, h2, h3⟩
      · left; exact h
      · right; exact ⟨j + 1, d, by rw [h1]; congr 1; omega, by simpa using h2, h3⟩
    · rename_i hs
      split
      · rcases ih (i + 1) (some i) c.qualMult with h | ⟨j, d, h1, h2, h3⟩
        · right; exact ⟨0, c, h, rfl, by simpa using hs⟩
        · right; exact ⟨j + 1, d, by rw [h1]; congr 1; omega, by simpa using h2, h3⟩
      · rcases ih (i + 1) best bq with h | ⟨j, d, h1, h2, h3⟩
        · left; exact h
        · right; exact ⟨j + 1, d, by rw [h1]; congr 1; omega, by simpa using h2, h3⟩

end scalar2

/-! ## The whole pass as a link-by-link map -/

section scalar3
variable [Scalar F]
open Scalar

/-- `select_connection_idx` leaves behind the gate's output, up to refreshed quality caches. -/
theorem selectIdx_fst (ls : List (SLink F)) (last : Option Nat) (now : Nat) (cfg : Cfg) :
    ∃ f : SLink F → SLink F, (∀ c, cacheEq (f c) c) ∧
      (selectIdx ls last now cfg).1 = (applyStallGate ls now cfg).map f := by
  unfold selectIdx
  dsimp only
  split
  · exact ⟨id, cacheEq_refl, by simp⟩
  · exact ⟨_, cacheEq_enhStep now _ _, enhancedSelect_fst _ _ _ _⟩

/-! ## The selectors never read the stall counters, the probe counter or the heard-mark -/

/-- Zero the fields that only the guard's bookkeeping (and the probe scheduler) read. -/
def forget (c : SLink F) : SLink F :=
  { c with gateEvents := 0, probeCounter := 0, pullMark := none, silencePulls := 0 }

/-- A link with no stall history at all. -/
def eraseStall (c : SLink F) : SLink F :=
  { c with stallGated := false, latchedSince := 0, recoverySince := 0, gateEvents := 0, probeCounter := 0,
           silencePulled := false, pullMark := none, silencePulls := 0 }

omit [Scalar F] in
theorem guardOff_eraseStall (cfg : Cfg) (c : SLink F) :
    guardOff cfg (eraseStall c) = forget (guardOff cfg c) := rfl

omit [Scalar F] in
theorem classicGo_forget (ls : List (SLink F)) (i now : Nat) (best : Option Nat) (bs : Int) :
    classicGo (ls.map forget) i now best bs = classicGo ls i now best bs := by
  induction ls generalizing i best bs with
  | nil => rfl
  | cons c rest ih =>
    simp only [List.map_cons]
    unfold classicGo
    have h1 : isTimedOut (forget c) now = isTimedOut c now := rfl
    have h2 : schedulable (forget c) = schedulable c := rfl
    have h3 : (forget c).stallGated = c.stallGated := rfl
    have h4 : score (forget c) = score c := rfl
    simp only [h1, h2, h3, h4, ih]

theorem anyUnconstrained_forget (ls : List (SLink F)) (now : Nat) :
    anyUnconstrained (ls.map forget) now = anyUnconstrained ls now := by
  unfold anyUnconstrained
  rw [List.any_map]
  rfl

theorem cachedQuality_forget (c : SLink F) (now : Nat) :
    cachedQuality (forget c) now = (forget (cachedQuality c now).1, (cachedQuality c now).2) := by
  unfold cachedQuality
  have h1 : (forget c).qualAt = c.qualAt := rfl
  rw [h1]
  split <;> rfl

theorem enhScore_forget (c : SLink F) (now : Nat) (q a : Bool) :
    enhScore (forget c) now q a = (forget (enhScore c now q a).1, (enhScore c now q a).2) := by
  unfold enhScore
  dsimp only
  split
  · rfl
  · rw [cachedQuality_forget]; rfl

theorem enhSkip_forget (c : SLink F) (now : Nat) (a : Bool) : enhSkip (forget c) now a = enhSkip c now a := rfl

def EnhAcc.mapOut (g : SLink F → SLink F) (acc : EnhAcc F) : EnhAcc F := { acc with out := acc.out.map g }

/-- One iteration of the enhanced loop on the accumulator. -/
def enhAccStep (now : Nat) (q a : Bool) (last : Option Nat) (i : Nat) (acc : EnhAcc F) (c : SLink F) : EnhAcc F :=
  if enhSkip c now a then { acc with out := c :: acc.out }
  else
    { out := (enhScore c now q a).1 :: acc.out,
      best := if gt (enhScore c now q a).2 acc.bestScore then some i else acc.best,
      bestScore := if gt (enhScore c now q a).2 acc.bestScore then (enhScore c now q a).2 else acc.bestScore,
      current := if some i == last then some (enhScore c now q a).2 else acc.current }

theorem enhGo_cons (now : Nat) (q a : Bool) (last : Option Nat) (c : SLink F) (rest : List (SLink F)) (i : Nat)
    (acc : EnhAcc F) :
    enhGo now q a last (c :: rest) i acc = enhGo now q a last rest (i + 1) (enhAccStep now q a last i acc c) := by
  rw [enhGo]
  unfold enhAccStep
  split
  · rfl
  · generalize enhScore c now q a = r
    obtain ⟨c', s⟩ := r
    dsimp only
    split <;> rfl

theorem enhAccStep_forget (now : Nat) (q a : Bool) (last : Option Nat) (i : Nat) (acc : EnhAcc F) (c : SLink F) :
    enhAccStep now q a last i (acc.mapOut forget) (forget c) = (enhAccStep now q a last i acc c).mapOut forget := by
  unfold enhAccStep
  rw [enhSkip_forget, enhScore_forget]
  split <;> rfl

theorem enhGo_forget (now : Nat) (q a : Bool) (last : Option Nat) (ls : List (SLink F)) (i : Nat) (acc : EnhAcc F) :
    enhGo now q a last (ls.map forget) i (acc.mapOut forget) = (enhGo now q a last ls i acc).mapOut forget := by
  induction ls generalizing i acc with
  | nil => rfl
  | cons c rest ih =>
    simp only [List.map_cons]
    rw [enhGo_cons, enhGo_cons, enhAccStep_forget, ih]

theorem enhancedSelect_forget (ls : List (SLink F)) (last : Option Nat) (now : Nat) (q : Bool) :
    enhancedSelect (ls.map forget) last now q =
      ((enhancedSelect ls last now q).1.map forget, (enhancedSelect ls last now q).2) := by
  unfold enhancedSelect
  dsimp only
  rw [anyUnconstrained_forget]
  have h := enhGo_forget now q (anyUnconstrained ls now) last ls 0
    { out := [], best := none, bestScore := lit (-1.0) (-1) 1, current := none }
  have h' : (EnhAcc.mapOut forget { out := [], best := none, bestScore := lit (-1.0) (-1) 1, current := none } : EnhAcc F)
      = { out := [], best := none, bestScore := lit (-1.0) (-1) 1, current := none } := rfl
  rw [h'] at h
  rw [h]
  generalize enhGo now q (anyUnconstrained ls now) last ls 0 _ = X
  refine Prod.ext ?_ rfl
  simp [EnhAcc.mapOut]

end scalar3

/-! ## Idempotence of the stall gate at equal time -/

def pullRelease (c : SLink F) (now : Nat) (ce : Nat) : Bool :=
  (c.lastReceived != c.pullMark &&
    (match c.lastReceived with | some lr => decide (now - lr < pullWindow c ce) | none => false)) || !c.connected

theorem updateSilencePull_eq (c : SLink F) (now : Nat) (m : Int) (ce : Nat) :
    updateSilencePull c now m ce =
      if brieflySilent c now m ce then
        if !c.silencePulled then
          { c with silencePulls := c.silencePulls + 1, pullMark := c.lastReceived, silencePulled := true }
        else c
      else if !c.silencePulled then c
      else if pullRelease c now ce then { c with silencePulled := false } else c := rfl

theorem updateSilencePull_cases (c : SLink F) (now : Nat) (m : Int) (ce : Nat) :
    updateSilencePull c now m ce = c ∨
    (brieflySilent c now m ce = true ∧ updateSilencePull c now m ce =
      { c with silencePulls := c.silencePulls + 1, pullMark := c.lastReceived, silencePulled := true }) ∨
    (brieflySilent c now m ce = false ∧ updateSilencePull c now m ce = { c with silencePulled := false }) := by
  rw [updateSilencePull_eq]
  cases hb : brieflySilent c now m ce <;> cases hp : c.silencePulled
  · left; simp
  · cases hs : pullRelease c now ce
    · left; simp
    · right; right; simp
  · right; left; simp
  · left; simp

theorem updateSilencePull_idem (c : SLink F) (now : Nat) (m : Int) (ce : Nat) :
    updateSilencePull (updateSilencePull c now m ce) now m ce = updateSilencePull c now m ce := by
  rcases updateSilencePull_cases c now m ce with h | ⟨hb, h⟩ | ⟨hb, h⟩
  · rw [h]; exact h
  · rw [h]
    have hb' : brieflySilent ({ c with silencePulls := c.silencePulls + 1, pullMark := c.lastReceived, silencePulled := true }) now m ce = true := hb
    simp [updateSilencePull, hb']
  · rw [h]
    have hb' : brieflySilent ({ c with silencePulled := false }) now m ce = false := hb
    simp [updateSilencePull, hb']

def latchTrigger (c : SLink F) (now : Nat) (m : Int) (ce : Nat) : Bool :=
  isStalled c now m ce || (c.silencePulled && (decide (c.proofMs ≠ 0) && decide (now - c.proofMs ≥ effStale c ce)))

def proofFresh (c : SLink F) (now : Nat) (ce : Nat) : Bool :=
  decide (c.proofMs ≠ 0) && decide (now - c.proofMs < effStale c ce)

theorem updateStallLatch_eq (c : SLink F) (now : Nat) (m : Int) (ce : Nat) :
    updateStallLatch c now m ce =
      if latchTrigger c now m ce then
        if c.latchedSince == 0 then
          { c with latchedSince := now, gateEvents := c.gateEvents + 1, recoverySince := 0 }
        else { c with recoverySince := 0 }
      else if c.latchedSince == 0 then c
      else if !proofFresh c now ce then { c with recoverySince := 0 }
      else if now - (if c.recoverySince == 0 then now else c.recoverySince) ≥ effStale c ce * Cfg.STALL_REJOIN_DWELL_MULT then
        { c with latchedSince := 0, recoverySince := 0 }
      else { c with recoverySince := if c.recoverySince == 0 then now else c.recoverySince } := rfl

theorem updateStallLatch_idem (c : SLink F) (now : Nat) (m : Int) (ce : Nat) (hnow : 0 < now) :
    updateStallLatch (updateStallLatch c now m ce) now m ce = updateStallLatch c now m ce := by
  have hn0 : (now == 0) = false := by simp; omega
  cases ht : latchTrigger c now m ce
  · cases hl : (c.latchedSince == 0)
    · cases hf : proofFresh c now ce
      · have e : updateStallLatch c now m ce = { c with recoverySince := 0 } := by
          rw [updateStallLatch_eq]; simp [ht, hl, hf]
        rw [e]
        have ht' : latchTrigger ({ c with recoverySince := 0 }) now m ce = false := ht
        have hf' : proofFresh ({ c with recoverySince := 0 }) now ce = false := hf
        rw [updateStallLatch_eq]; simp [ht', hl, hf']
      · generalize hrs : (if c.recoverySince == 0 then now else c.recoverySince) = rs
        have hrs0 : (rs == 0) = false := by
          rw [← hrs]; split
          · exact hn0
          · simpa using ‹¬(c.recoverySince == 0) = true›
        by_cases hd : now - rs ≥ effStale c ce * Cfg.STALL_REJOIN_DWELL_MULT
        · have e : updateStallLatch c now m ce = { c with latchedSince := 0, recoverySince := 0 } := by
            rw [updateStallLatch_eq]; simp only [ht, hl, hf, hrs, Bool.false_eq_true, ↓reduceIte, Bool.not_true, hd]
          rw [e]
          have ht' : latchTrigger ({ c with latchedSince := 0, recoverySince := 0 }) now m ce = false := ht
          rw [updateStallLatch_eq]; simp [ht']
        · have e : updateStallLatch c now m ce = { c with recoverySince := rs } := by
            rw [updateStallLatch_eq]; simp only [ht, hl, hf, hrs, Bool.false_eq_true, ↓reduceIte, Bool.not_true, hd]
          rw [e]
          have ht' : latchTrigger ({ c with recoverySince := rs }) now m ce = false := ht
          have hf' : proofFresh ({ c with recoverySince := rs }) now ce = true := hf
          have hs' : effStale ({ c with recoverySince := rs }) ce = effStale c ce := rfl
          rw [updateStallLatch_eq]; simp only [ht', hl, hf', hrs0, hs', Bool.false_eq_true, ↓reduceIte, Bool.not_true, hd]
    · have e : updateStallLatch c now m ce = c := by
        rw [updateStallLatch_eq]; simp [ht, hl]
      rw [e]; exact e
  · cases hl : (c.latchedSince == 0)
    · have e : updateStallLatch c now m ce = { c with recoverySince := 0 } := by
        rw [updateStallLatch_eq]; simp [ht, hl]
      rw [e]
      have ht' : latchTrigger ({ c with recoverySince := 0 }) now m ce = true := ht
      rw [updateStallLatch_eq]; simp [ht', hl]
    · have e : updateStallLatch c now m ce =
          { c with latchedSince := now, gateEvents := c.gateEvents + 1, recoverySince := 0 } := by
        rw [updateStallLatch_eq]; simp [ht, hl]
      rw [e]
      have ht' : latchTrigger ({ c with latchedSince := now, gateEvents := c.gateEvents + 1, recoverySince := 0 }) now m ce = true := ht
      rw [updateStallLatch_eq]; simp [ht', hn0]

/-! commutation with fields the guard neither reads nor writes -/

theorem updateSilencePull_latchFields (d : SLink F) (now : Nat) (m : Int) (ce : Nat) (a g r : Nat) :
    updateSilencePull { d with latchedSince := a, gateEvents := g, recoverySince := r } now m ce =
      { updateSilencePull d now m ce with latchedSince := a, gateEvents := g, recoverySince := r } := by
  have h1 : brieflySilent ({ d with latchedSince := a, gateEvents := g, recoverySince := r }) now m ce
      = brieflySilent d now m ce := rfl
  have h2 : pullRelease ({ d with latchedSince := a, gateEvents := g, recoverySince := r }) now ce
      = pullRelease d now ce := rfl
  rw [updateSilencePull_eq, updateSilencePull_eq, h1, h2]
  cases brieflySilent d now m ce <;> cases hp : d.silencePulled <;> cases pullRelease d now ce <;> simp [hp]

theorem updateSilencePull_other (d : SLink F) (now : Nat) (m : Int) (ce : Nat) (x : Nat) (y : Bool) :
    updateSilencePull { d with connTimeoutMs := x, stallGated := y } now m ce =
      { updateSilencePull d now m ce with connTimeoutMs := x, stallGated := y } := by
  have h1 : brieflySilent ({ d with connTimeoutMs := x, stallGated := y }) now m ce
      = brieflySilent d now m ce := rfl
  have h2 : pullRelease ({ d with connTimeoutMs := x, stallGated := y }) now ce
      = pullRelease d now ce := rfl
  rw [updateSilencePull_eq, updateSilencePull_eq, h1, h2]
  cases brieflySilent d now m ce <;> cases hp : d.silencePulled <;> cases pullRelease d now ce <;> simp [hp]

theorem updateStallLatch_other (d : SLink F) (now : Nat) (m : Int) (ce : Nat) (x : Nat) (y : Bool) :
    updateStallLatch { d with connTimeoutMs := x, stallGated := y } now m ce =
      { updateStallLatch d now m ce with connTimeoutMs := x, stallGated := y } := by
  have h1 : latchTrigger ({ d with connTimeoutMs := x, stallGated := y }) now m ce = latchTrigger d now m ce := rfl
  have h2 : proofFresh ({ d with connTimeoutMs := x, stallGated := y }) now ce = proofFresh d now ce := rfl
  have h3 : effStale ({ d with connTimeoutMs := x, stallGated := y }) ce = effStale d ce := rfl
  rw [updateStallLatch_eq, updateStallLatch_eq, h1, h2, h3]
  dsimp only
  repeat' split
  all_goals rfl

theorem updateStallLatch_shape (d : SLink F) (now : Nat) (m : Int) (ce : Nat) :
    updateStallLatch d now m ce =
      { d with latchedSince := (updateStallLatch d now m ce).latchedSince,
               gateEvents := (updateStallLatch d now m ce).gateEvents,
               recoverySince := (updateStallLatch d now m ce).recoverySince } := by
  rw [updateStallLatch_eq]
  repeat' split
  all_goals rfl

/-- Pull update followed by latch update (the per-link core of the guard-on pass). -/
def guardCore (now : Nat) (m : Int) (ce : Nat) (c : SLink F) : SLink F :=
  updateStallLatch (updateSilencePull c now m ce) now m ce

theorem guardStep_eq (now : Nat) (cfg : Cfg) (c : SLink F) :
    guardStep now cfg c =
      guardCore now cfg.stallMinInFlight cfg.stallCeilingMs { c with connTimeoutMs := cfg.connTimeoutMs } := rfl

theorem guardCore_other (now : Nat) (m : Int) (ce : Nat) (d : SLink F) (x : Nat) (y : Bool) :
    guardCore now m ce { d with connTimeoutMs := x, stallGated := y } =
      { guardCore now m ce d with connTimeoutMs := x, stallGated := y } := by
  unfold guardCore
  rw [updateSilencePull_other, updateStallLatch_other]

theorem guardCore_idem (now : Nat) (m : Int) (ce : Nat) (d : SLink F) (hnow : 0 < now) :
    guardCore now m ce (guardCore now m ce d) = guardCore now m ce d := by
  unfold guardCore
  generalize he : updateSilencePull d now m ce = e
  have hpe : updateSilencePull e now m ce = e := by rw [← he]; exact updateSilencePull_idem d now m ce
  have hpu : updateSilencePull (updateStallLatch e now m ce) now m ce = updateStallLatch e now m ce := by
    have sh := updateStallLatch_shape e now m ce
    generalize updateStallLatch e now m ce = ue at sh ⊢
    rw [sh, updateSilencePull_latchFields, hpe]
  rw [hpu, updateStallLatch_idem e now m ce hnow]

theorem guardStep_idem (now : Nat) (cfg : Cfg) (c : SLink F) (hnow : 0 < now) :
    guardStep now cfg (guardStep now cfg c) = guardStep now cfg c := by
  rw [guardStep_eq now cfg (guardStep now cfg c)]
  have e : ({ guardStep now cfg c with connTimeoutMs := cfg.connTimeoutMs } : SLink F) = guardStep now cfg c := by
    rw [guardStep_eq]
    have := guardCore_other now cfg.stallMinInFlight cfg.stallCeilingMs c cfg.connTimeoutMs c.stallGated
    rw [show ({ c with connTimeoutMs := cfg.connTimeoutMs } : SLink F) =
      { c with connTimeoutMs := cfg.connTimeoutMs, stallGated := c.stallGated } from rfl, this]
  rw [e, guardStep_eq, guardCore_idem _ _ _ _ hnow]

theorem guardStep_stallGated (now : Nat) (cfg : Cfg) (d : SLink F) (y : Bool) :
    guardStep now cfg { d with stallGated := y } = { guardStep now cfg d with stallGated := y } := by
  have h1 : guardStep now cfg { d with stallGated := y } =
      { guardCore now cfg.stallMinInFlight cfg.stallCeilingMs d with
          connTimeoutMs := cfg.connTimeoutMs, stallGated := y } :=
    guardCore_other now cfg.stallMinInFlight cfg.stallCeilingMs d cfg.connTimeoutMs y
  have h2 : guardStep now cfg d =
      { guardCore now cfg.stallMinInFlight cfg.stallCeilingMs d with
          connTimeoutMs := cfg.connTimeoutMs, stallGated := d.stallGated } :=
    guardCore_other now cfg.stallMinInFlight cfg.stallCeilingMs d cfg.connTimeoutMs d.stallGated
  rw [h1, h2]

theorem guardStep_setGated (now : Nat) (cfg : Cfg) (any : Bool) (d : SLink F)
    (hd : guardStep now cfg d = d) : guardStep now cfg (setGated any d) = setGated any d := by
  unfold setGated
  rw [guardStep_stallGated, hd]

/-- **Idempotence of the stall gate at equal time** (`0 < now`): a second pass over the state the
first one left changes nothing. -/
theorem applyStallGate_idem (ls : List (SLink F)) (now : Nat) (cfg : Cfg) (hnow : 0 < now) :
    applyStallGate (applyStallGate ls now cfg) now cfg = applyStallGate ls now cfg := by
  cases hs : cfg.stallDeselect
  · rw [applyStallGate_off _ _ _ hs, applyStallGate_off _ _ _ hs, List.map_map]
    exact List.map_congr_left fun c _ => rfl
  · rw [applyStallGate_on ls now cfg hs]
    have hfix : ∀ d ∈ ls.map (guardStep now cfg), guardStep now cfg d = d := by
      intro d hd
      obtain ⟨c, -, rfl⟩ := List.mem_map.1 hd
      exact guardStep_idem now cfg c hnow
    generalize ls.map (guardStep now cfg) = ls1 at hfix ⊢
    generalize hany : ls1.any (healthy now) = any
    rw [applyStallGate_on _ now cfg hs]
    have h1 : (ls1.map (setGated any)).map (guardStep now cfg) = ls1.map (setGated any) := by
      rw [List.map_map]
      exact List.map_congr_left fun d hd => guardStep_setGated now cfg any d (hfix d hd)
    rw [h1]
    have h2 : (ls1.map (setGated any)).any (healthy now) = any := by
      rw [List.any_map, ← hany]; rfl
    rw [h2, List.map_map]
    exact List.map_congr_left fun d _ => rfl

/-! ## Whole-pass consequences used by C12 -/

theorem cacheEq.gateEvents {c' c : SLink F} (h : cacheEq c' c) : c'.gateEvents = c.gateEvents := by
  obtain ⟨q, t, rfl⟩ := h; rfl

theorem cacheEq.silencePulls {c' c : SLink F} (h : cacheEq c' c) : c'.silencePulls = c.silencePulls := by
  obtain ⟨q, t, rfl⟩ := h; rfl

/-- The gate is a link-by-link map that keeps the frame and never lowers the two counters. -/
theorem applyStallGate_map (ls : List (SLink F)) (now : Nat) (cfg : Cfg) :
    ∃ g : SLink F → SLink F, applyStallGate ls now cfg = ls.map g ∧
      ∀ c, frame (g c) = frame c ∧ c.gateEvents ≤ (g c).gateEvents ∧ c.silencePulls ≤ (g c).silencePulls := by
  cases hs : cfg.stallDeselect
  · exact ⟨guardOff cfg, applyStallGate_off ls now cfg hs, fun c => ⟨rfl, Nat.le_refl _, Nat.le_refl _⟩⟩
  · refine ⟨fun c => setGated ((ls.map (guardStep now cfg)).any (healthy now)) (guardStep now cfg c), ?_, ?_⟩
    · rw [applyStallGate_on ls now cfg hs, List.map_map]; rfl
    · intro c
      refine ⟨frame_guardStep now cfg c, ?_, ?_⟩
      · show c.gateEvents ≤ (guardStep now cfg c).gateEvents
        unfold guardStep
        refine Nat.le_trans ?_ (gateEvents_updateStallLatch _ _ _ _)
        rw [gateEvents_updateSilencePull]
        exact Nat.le_refl _
      · show c.silencePulls ≤ (guardStep now cfg c).silencePulls
        unfold guardStep
        rw [silencePulls_updateStallLatch]
        exact silencePulls_updateSilencePull { c with connTimeoutMs := cfg.connTimeoutMs } _ _ _

section scalar4
variable [Scalar F]

/-- The whole pass is a link-by-link map that keeps the frame and never lowers the two counters. -/
theorem selectIdx_map (ls : List (SLink F)) (last : Option Nat) (now : Nat) (cfg : Cfg) :
    ∃ g : SLink F → SLink F, (selectIdx ls last now cfg).1 = ls.map g ∧
      ∀ c, frame (g c) = frame c ∧ c.gateEvents ≤ (g c).gateEvents ∧ c.silencePulls ≤ (g c).silencePulls := by
  obtain ⟨f, hf, e⟩ := selectIdx_fst ls last now cfg
  obtain ⟨g, hg, hp⟩ := applyStallGate_map ls now cfg
  refine ⟨fun c => f (g c), by rw [e, hg, List.map_map]; rfl, fun c => ?_⟩
  obtain ⟨h1, h2, h3⟩ := hp c
  exact ⟨(hf (g c)).frame.trans h1, by rw [(hf (g c)).gateEvents]; exact h2,
    by rw [(hf (g c)).silencePulls]; exact h3⟩

/-- Guard off: running on the history-free clone gives the same decision, and the same state up to
the counters / probe counter / heard-mark (`forget`). -/
theorem selectIdx_off_erase (ls : List (SLink F)) (last : Option Nat) (now : Nat) (cfg : Cfg)
    (h : cfg.stallDeselect = false) :
    selectIdx (ls.map eraseStall) last now cfg =
      ((selectIdx ls last now cfg).1.map forget, (selectIdx ls last now cfg).2) := by
  unfold selectIdx
  dsimp only
  rw [applyStallGate_off _ now cfg h, applyStallGate_off _ now cfg h]
  have e : (ls.map eraseStall).map (guardOff cfg) = (ls.map (guardOff cfg)).map forget := by
    rw [List.map_map, List.map_map]
    exact List.map_congr_left fun c _ => guardOff_eraseStall cfg c
  rw [e]
  split
  · unfold classicSelect
    rw [classicGo_forget]
  · exact enhancedSelect_forget _ last now _

end scalar4

/-! ## A toy scalar for `example`s -/

/-- Fixed-point (1/1000) integer arithmetic.  Used ONLY to exhibit concrete states that meet the
hypotheses of the property theorems (which are proved for EVERY `Scalar` instance, `Float` included);
it makes `decide` able to run the enhanced selector. -/
@[instance_reducible] def fixScalar : Scalar Int where
  lit _ n d := n * 1000 / d
  ofNat n := n * 1000
  ofInt i := i * 1000
  add a b := a + b
  sub a b := a - b
  mul a b := a * b / 1000
  div a b := if b = 0 then 0 else a * 1000 / b
  neg a := -a
  lt a b := decide (a < b)
  le a b := decide (a ≤ b)
  fmax a b := max a b
  fmin a b := min a b
  exp _ := 1000
  floor a := a / 1000 * 1000
  toNatSat a := (a / 1000).toNat
  isFinite _ := true
  negInf := -1000000000000

end Srtla.Select

/-! ## Round 2 (C13 rotation clauses): what `stall_gated` means after a guard-on pass -/
namespace Srtla.Select

variable {F : Type}

theorem cacheEq.latchedSince {c' c : SLink F} (h : cacheEq c' c) : c'.latchedSince = c.latchedSince := by
  obtain ⟨q, t, rfl⟩ := h; rfl

theorem cacheEq.silencePulled {c' c : SLink F} (h : cacheEq c' c) : c'.silencePulled = c.silencePulled := by
  obtain ⟨q, t, rfl⟩ := h; rfl

theorem cacheEq.healthy {c' c : SLink F} (h : cacheEq c' c) (now : Nat) : healthy now c' = healthy now c := by
  obtain ⟨q, t, rfl⟩ := h; rfl

theorem cacheEq.latched {c' c : SLink F} (h : cacheEq c' c) : latched c' = latched c := by
  obtain ⟨q, t, rfl⟩ := h; rfl

/-- Guard on: after `apply_stall_gate`, `stall_gated = any_healthy && (latched || pulled)` where
`any_healthy` can be read off the list the pass leaves behind. -/
theorem applyStallGate_on_gated (ls : List (SLink F)) (now : Nat) (cfg : Cfg) (h : cfg.stallDeselect = true) :
    ∀ c ∈ applyStallGate ls now cfg,
      c.stallGated = ((applyStallGate ls now cfg).any (healthy now) && (latched c || c.silencePulled)) := by
  rw [applyStallGate_on ls now cfg h]
  generalize ls.map (guardStep now cfg) = ls1
  have hany : (ls1.map (setGated (ls1.any (healthy now)))).any (healthy now) = ls1.any (healthy now) := by
    rw [List.any_map]; rfl
  intro c hc
  obtain ⟨x, -, rfl⟩ := List.mem_map.1 hc
  rw [hany]; rfl

section scalar5
variable [Scalar F]

/-- The same on the state `select_connection_idx` leaves behind (either mode). -/
theorem selectIdx_on_gated (ls : List (SLink F)) (last : Option Nat) (now : Nat) (cfg : Cfg)
    (h : cfg.stallDeselect = true) :
    ∀ c ∈ (selectIdx ls last now cfg).1,
      c.stallGated = ((selectIdx ls last now cfg).1.any (healthy now) && (latched c || c.silencePulled)) := by
  obtain ⟨f, hf, e⟩ := selectIdx_fst ls last now cfg
  rw [e]
  have hany : ((applyStallGate ls now cfg).map f).any (healthy now) = (applyStallGate ls now cfg).any (healthy now) := by
    rw [List.any_map]
    congr 1
    funext c
    exact (hf c).healthy now
  intro c hc
  obtain ⟨x, hx, rfl⟩ := List.mem_map.1 hc
  rw [hany, (hf x).stallGated, (hf x).latched, (hf x).silencePulled]
  exact applyStallGate_on_gated ls now cfg h x hx

end scalar5

end Srtla.Select
