import Srtla.Lemmas.SysInv
import Srtla.Props.C06
/-!
# The shell refines C06's window machine, link by link

`Props/C06.lean` proves the window clauses (range, direction, fast-recovery entry / exit, resets) about
an abstract single-link machine (`WS`, `Op`, `applyOp`, `run`).  Here: what ANY event of the shell
(`Sys.step`) does to the window view `C06.proj l.core = (window, congestion state, connected, heard)`
of ANY link is a finite sequence of `C06.Op`s — and only of ops which the event's arm and the configured
mode allow (`OpOk`: e.g. the time-based recovery only in housekeeping and only in enhanced mode, NAK
charges and ACK rules only on uplink datagrams, `mark_for_recovery` never in a flush; in housekeeping only as the fallback of a failed socket re-creation).  So every C06 theorem about `applyOp` / `run` is a theorem about the shell.

`WFrom ok Src l'`: the window view of `l'` is reachable by `ok`-ops from a source view that `Src`
relates to `l'`'s conn id.  `wfrom_closed`: this survives every per-link operation (`Closed`), hence
(`step_all`) every event.  Scalar-generic.
-/
set_option linter.unusedSectionVars false

namespace Srtla.SysInv
open Srtla Srtla.Gen Srtla.Conn Srtla.Select Srtla.Rtt Srtla.Link Srtla.Sys Scalar Srtla.Props

variable {F : Type} [Scalar F]

/-- The ops an arm of the event loop can apply in the configured mode: liveness flags change anywhere;
`mark_for_recovery` only on the data path of a client datagram (failed send), on an uplink datagram
(REG_ERR) or in housekeeping (fallback of a failed socket re-creation); `reset_for_reconnect` and the time-based recovery only in housekeeping, the latter only in
enhanced mode; REG3, NAK charges and the ACK rules only on an uplink datagram, the classic ACK rule only
in classic mode and the enhanced one only in enhanced mode. -/
def OpOk (arm : Arm) (classic : Bool) : C06.Op → Prop
  | .setLink _ _ => True
  | .resetRecovery => arm = .client ∨ arm = .uplink ∨ arm = .hk
  | .resetReconnect => arm = .hk
  | .reg3 => arm = .uplink
  | .recover _ _ => arm = .hk ∧ classic = false
  | .nak _ => arm = .uplink
  | .ackClassic _ => arm = .uplink ∧ classic = true
  | .ackEnhanced _ => arm = .uplink ∧ classic = false
  | .ackGlobal => arm = .uplink

/-- The ops an event can apply: those of its arm; none for the three configuration events. -/
def OpOkEv (e : Ev) (classic : Bool) (op : C06.Op) : Prop := ∃ arm, evArm e = some arm ∧ OpOk arm classic op

/-- `b` is reachable from `a` by a finite sequence of `ok`-ops of the C06 machine. -/
def WReach (ok : C06.Op → Prop) (a b : C06.WS) : Prop := ∃ ops, (∀ op ∈ ops, ok op) ∧ b = C06.run a ops

theorem WReach.refl (ok : C06.Op → Prop) (a : C06.WS) : WReach ok a a := ⟨[], by simp, rfl⟩

theorem WReach.trans {ok : C06.Op → Prop} {a b c : C06.WS} (h1 : WReach ok a b) (h2 : WReach ok b c) :
    WReach ok a c := by
  obtain ⟨o1, k1, rfl⟩ := h1
  obtain ⟨o2, k2, rfl⟩ := h2
  refine ⟨o1 ++ o2, ?_, ?_⟩
  · intro op hop
    rcases List.mem_append.1 hop with h | h
    · exact k1 op h
    · exact k2 op h
  · simp [C06.run, List.foldl_append]

theorem WReach.one {ok : C06.Op → Prop} (a : C06.WS) (op : C06.Op) (h : ok op) : WReach ok a (C06.applyOp a op) :=
  ⟨[op], by simpa using h, rfl⟩

theorem WReach.step {ok : C06.Op → Prop} {a b c : C06.WS} (h : WReach ok a b) (op : C06.Op) (hok : ok op)
    (hc : c = C06.applyOp b op) : WReach ok a c := by
  subst hc
  exact h.trans (WReach.one b op hok)

/-- Liveness flags are environment: a view with the same window and congestion state is one
`setLink` away. -/
theorem WReach.flags {ok : C06.Op → Prop} (hs : ∀ c h, ok (.setLink c h)) {a b : C06.WS} (hw : b.w = a.w)
    (hc : b.cong = a.cong) : WReach ok a b := by
  refine ⟨[.setLink b.connected b.heard], by simpa using hs _ _, ?_⟩
  cases b
  simp only at hw hc
  subst hw hc
  rfl

/-- The window view of `l'` is reachable by `ok`-ops from a view `a` which `Src` relates to the conn
id of `l'`. -/
def WFrom (ok : C06.Op → Prop) (Src : C06.WS → Nat → Prop) (l' : FLink F) : Prop :=
  ∃ a, Src a l'.core.connId ∧ WReach ok a (C06.proj l'.core)

theorem srtAck_cid (c : Conn) (a : Int) (now : Nat) : (c.srtAck a now).1.connId = c.connId := by
  unfold Conn.srtAck; split <;> rfl

theorem srtlaAck_cid (c : Conn) (a : Int) (cl : Bool) (now : Nat) : (c.srtlaAck a cl now).1.connId = c.connId := by
  unfold Conn.srtlaAck
  split
  · dsimp only; split <;> rfl
  · rfl

theorem nak_cid (c : Conn) (a : Int) (now : Nat) : (c.nak a now).1.connId = c.connId := by
  unfold Conn.nak; split <;> rfl

theorem ackGlobal_cid (c : Conn) : c.ackGlobal.connId = c.connId := by
  unfold Conn.ackGlobal; split <;> rfl

section ops
variable {ok : C06.Op → Prop} {Src : C06.WS → Nat → Prop}

/-- The one way `WFrom` is propagated: same conn id, and the new view reachable from the old one. -/
theorem WFrom.next {l l' : FLink F} (h : WFrom ok Src l) (hid : l'.core.connId = l.core.connId)
    (hr : WReach ok (C06.proj l.core) (C06.proj l'.core)) : WFrom ok Src l' := by
  obtain ⟨a, ha, hra⟩ := h
  exact ⟨a, by rw [hid]; exact ha, hra.trans hr⟩

theorem proj_regFold (q : List QItem) (c : Conn) :
    (q.foldl Hk.regFold c).connId = c.connId ∧ C06.proj (q.foldl Hk.regFold c) = C06.proj c := by
  obtain ⟨h1, h2, -, h4, h5, h6⟩ := Hk.foldl_register_frame q c
  refine ⟨h2, ?_⟩
  unfold C06.proj
  rw [h1, h4, h5, h6]

/-- **Every per-link operation of the shell is a finite sequence of allowed C06 ops on the window view**
(and keeps the conn id).  `hfresh`: in the reload arm the source relation accepts C06's `fresh` view for every conn
id (a freshly constructed link has no predecessor). -/
theorem wfrom_closed (now : Nat) (arm : Arm) (classic : Bool) (hok : ∀ op, OpOk arm classic op → ok op)
    (hfresh : arm = .reload → ∀ id, Src C06.fresh id) :
    Closed now arm classic (WFrom (F := F) ok Src) := by
  have hs : ∀ c h, ok (.setLink c h) := fun c h => hok _ trivial
  refine
    { soft := ?_, queue := ?_, take := ?_, mark := ?_, reconnect := ?_, reg3 := ?_, recover := ?_, srtAck := ?_,
      sack := ?_, gack := ?_, nak := ?_, select := ?_,
      fresh := fun harm id _ => ⟨C06.fresh, hfresh harm id, WReach.refl _ _⟩ }
  · intro l l' hsoft h
    exact h.next hsoft.connId (WReach.flags hs hsoft.window hsoft.cong)
  · intro _ l pkt seq _ h
    exact h.next rfl (WReach.refl _ _)
  · intro _ l h
    rw [Hk.takeBatch_eq]
    split
    · exact h.next rfl (WReach.refl _ _)
    · obtain ⟨h1, h2⟩ := proj_regFold l.queue l.core
      refine h.next h1 ?_
      have : C06.proj { l.queue.foldl Hk.regFold l.core with lastSent := some now } = C06.proj l.core := h2
      show WReach ok (C06.proj l.core) (C06.proj { l.queue.foldl Hk.regFold l.core with lastSent := some now })
      rw [this]
      exact WReach.refl _ _
  · intro harm l h
    exact h.next rfl (WReach.one _ .resetRecovery (hok _ harm))
  · intro harm l h
    exact h.next rfl (WReach.one _ .resetReconnect (hok _ harm))
  · intro harm l h
    -- `clear_pre_registration_state` alone: congestion state cleared, flags as they were
    refine h.next rfl ?_
    exact (WReach.one _ .reg3 (hok _ harm)).step (.setLink l.core.connected l.core.lastReceived.isSome)
      (hs _ _) rfl
  · intro harm hcl l h
    refine h.next rfl ?_
    exact WReach.one _ (.recover _ now) (hok _ ⟨harm, hcl⟩)
  · intro _ l a h
    have hc := Uplink.core_srtAck l a now
    refine h.next (by rw [hc]; exact srtAck_cid _ _ _) ?_
    rw [hc, (C06.C06_ops_are_conn_ops l.core a now false).2.2.2.2.1]
    exact WReach.refl _ _
  · intro harm l seq h
    refine h.next (srtlaAck_cid _ _ _ _) ?_
    cases classic
    · rcases (C06.C06_ops_are_conn_ops l.core seq now false).2.2.1 with e | ⟨inf, e⟩
      · rw [show C06.proj (l.core.srtlaAck seq false now).1 = C06.proj l.core from e]; exact WReach.refl _ _
      · rw [show C06.proj (l.core.srtlaAck seq false now).1 = _ from e]
        exact WReach.one _ _ (hok _ ⟨harm, rfl⟩)
    · rcases (C06.C06_ops_are_conn_ops l.core seq now false).2.1 with e | ⟨inf, e⟩
      · rw [show C06.proj (l.core.srtlaAck seq true now).1 = C06.proj l.core from e]; exact WReach.refl _ _
      · rw [show C06.proj (l.core.srtlaAck seq true now).1 = _ from e]
        exact WReach.one _ _ (hok _ ⟨harm, rfl⟩)
  · intro harm l h
    refine h.next (ackGlobal_cid _) ?_
    rw [show C06.proj l.core.ackGlobal = _ from (C06.C06_ops_are_conn_ops l.core 0 now false).2.2.2.1]
    exact WReach.one _ _ (hok _ harm)
  · intro harm l seq h
    refine h.next (nak_cid _ _ _) ?_
    rcases (C06.C06_ops_are_conn_ops l.core seq now false).1 with e | e
    · rw [show C06.proj (l.core.nak seq now).1 = C06.proj l.core from e]; exact WReach.refl _ _
    · rw [show C06.proj (l.core.nak seq now).1 = _ from e]
      exact WReach.one _ _ (hok _ harm)
  · intro _ ls last cfg h p hp
    exact (h p.1 (List.of_mem_zip hp).1).next rfl (WReach.refl _ _)

end ops

/-- The source relation of the one-event theorem: the view of a link of `ls0` with that conn id. -/
def SrcOf (ls0 : List (FLink F)) (a : C06.WS) (id : Nat) : Prop :=
  ∃ l ∈ ls0, l.core.connId = id ∧ a = C06.proj l.core

/-- **One event** (every constructor): the window view of every link after the event is reachable, by
C06 ops which the event's arm and the configured mode allow, from the window view of a link with the same
conn id before it — or, after a reload (`Ev.reload`) only, the link is freshly constructed and its view is C06's
`fresh` (a retained link keeps its whole record: the empty op sequence). -/
theorem win_step (s : Sys F) (e : Ev) :
    ∀ l' ∈ (step s e).1.links, (∃ l ∈ s.links, l.core.connId = l'.core.connId ∧
      WReach (OpOkEv e s.cfg.classic) (C06.proj l.core) (C06.proj l'.core)) ∨
      (e.isReload = true ∧ C06.proj l'.core = C06.fresh) := by
  intro l' hl'
  cases hnr : e.isReload with
  | true =>
    cases e with
    | reload now addrs outs =>
      rcases mem_reload hl' with ⟨h1, -⟩ | ⟨id, a, -, -, rfl⟩
      · exact .inl ⟨l', h1, rfl, WReach.refl _ _⟩
      · exact .inr ⟨rfl, rfl⟩
    | _ => cases hnr
  | false =>
    have h0 : All (WFrom (OpOkEv e s.cfg.classic) (SrcOf s.links)) s.links :=
      fun l hl => ⟨_, ⟨l, hl, rfl, rfl⟩, WReach.refl _ _⟩
    obtain ⟨a, ⟨l, hl, hid, rfl⟩, hr⟩ :=
      step_all s e (fun arm harm => wfrom_closed (evNow e) arm s.cfg.classic (fun op hop => ⟨arm, harm, hop⟩)
        (fun hr => by subst hr; cases e <;> first | (cases harm; done) | (cases hnr; done)))
        h0 l' hl'
    exact .inl ⟨l, hl, hid, hr⟩

/-- A fresh link's window view is C06's `fresh`. -/
theorem proj_new (connId now : Nat) : C06.proj (FLink.newRegistering connId now : FLink F).core = C06.fresh := rfl

end Srtla.SysInv
