import Srtla.Lemmas.ClassicRef
import Srtla.Lemmas.Log
import Srtla.Lemmas.SysInvAcct
/-!
# C10: the shell model in lock-step with the reference machine

`Spec/ClassicRef.lean` (import-free) defines the reference `srtla_send` as a state machine (`RState`,
`REv`, `rstep`, `rrun`).  This file defines the abstraction of a shell state to a machine state and
proves, event by event, that the model's step is the machine's step(s) on the abstraction: same chosen
link, same window vector afterwards.  The property theorems are in `Props/C10.lean` (§4).

Two readings of the reference's `in_flight_pkts` are needed, because the implementation registers a
packet when its BATCH is put on the socket (`take_batch`), whereas the reference registers it when it is
routed (`reg_pkt`):
* `absRoute` — in-flight = logged + queued (what `select_conn` must see: the property's first sentence);
* `absSent`  — in-flight = logged only (what the `+29` test and the ACK / NAK attribution read).
They coincide whenever every batch queue is empty.  The difference is a real one: see
`C10_observation_*` in `Props/C10.lean` for concrete runs (observations, not violations of C10 as worded).

Everything is scalar-generic (classic mode reads no scalar).
-/
namespace Srtla.ClassicRun
open Srtla Srtla.Gen Srtla.Conn Srtla.Select Srtla.Link Srtla.Sys Srtla.Spec.ClassicRef Srtla.ClassicRef Srtla.SysInv

set_option linter.unusedSectionVars false
set_option linter.unusedVariables false

/-! ## 1. The reference machine, pointwise -/

theorem getElem?_modifyAt (f : RLink → RLink) (st : RState) (k j : Nat) :
    (modifyAt f st k)[j]? = if j = k then (st[j]?).map f else st[j]? := by
  induction st generalizing k j with
  | nil => cases k <;> simp [modifyAt]
  | cons l rest ih =>
    cases k with
    | zero =>
      cases j with
      | zero => simp [modifyAt]
      | succ j => simp [modifyAt]
    | succ k =>
      cases j with
      | zero => simp [modifyAt]
      | succ j =>
        simp only [modifyAt, List.getElem?_cons_succ, ih]
        by_cases h : j = k
        · simp [h]
        · simp [h]

theorem length_modifyAt (f : RLink → RLink) (st : RState) (k : Nat) : (modifyAt f st k).length = st.length := by
  induction st generalizing k with
  | nil => cases k <;> rfl
  | cons l rest ih =>
    cases k with
    | zero => rfl
    | succ k => simp only [modifyAt, List.length_cons, ih]

/-- One SRTLA-acknowledged number, link by link. -/
theorem getElem?_rSackOne (st : RState) (onLink : Nat) (seq : Int) (j : Nat) :
    (rSackOne st onLink seq)[j]? =
      (st[j]?).map fun l => globalInc (if holder st onLink seq = some j then earn seq l else l) := by
  unfold rSackOne
  dsimp only
  rw [List.getElem?_map]
  cases h : holder st onLink seq with
  | none => simp
  | some k =>
    dsimp only
    rw [getElem?_modifyAt]
    by_cases hj : j = k
    · subst hj; cases st[j]? <;> simp
    · have : ¬ (some k = some j) := fun e => hj (Option.some.inj e).symm
      simp [hj, this]

theorem getElem?_rNak (st : RState) (seq : Int) (rem : Option Nat) (j : Nat) :
    (rNak st seq rem)[j]? =
      (st[j]?).map fun l => if nakTarget st seq rem = some j then charge seq l else l := by
  unfold rNak
  cases h : nakTarget st seq rem with
  | none => simp
  | some k =>
    dsimp only
    rw [getElem?_modifyAt]
    by_cases hj : j = k
    · subst hj; simp
    · have : ¬ (some k = some j) := fun e => hj (Option.some.inj e).symm
      simp [hj, this]

/-! ## 2. The model's fan-out, pointwise -/

/-- The link's packet log holds the number. -/
def holdsM (c : Conn) (seq : Int) : Bool := c.log.any (·.1 == seq)

theorem holdsM_iff (c : Conn) (seq : Int) : holdsM c seq = true ↔ seq ∈ c.keys :=
  any_iff_mem_keys c.log seq

/-- First link, in list order, whose log holds the number. -/
def firstHolderM (cs : Links) (seq : Int) : Option Nat := cs.findIdx? fun c => holdsM c seq

/-- The link that earns an SRTLA ACK in `process_connection_events`: arrival link first. -/
def holderM (cs : Links) (idx : Nat) (seq : Int) : Option Nat :=
  match cs[idx]? with
  | some c => if holdsM c seq then some idx else firstHolderM cs seq
  | none => none

theorem srtlaAck_fst_of_not (c : Conn) (seq : Int) (cl : Bool) (now : Nat) (h : holdsM c seq = false) :
    (c.srtlaAck seq cl now).1 = c := by
  rw [srtlaAck_notfound c seq cl now h]

theorem getElem?_srtlaAckOthers (cs : Links) (j skip : Nat) (seq : Int) (cl : Bool) (now : Nat)
    (hskip : ∀ (p : Nat) c, cs[p]? = some c → j + p = skip → holdsM c seq = false) (p : Nat) :
    (srtlaAckOthers cs j skip seq cl now)[p]? =
      (cs[p]?).map fun c => if firstHolderM cs seq = some p then (c.srtlaAck seq cl now).1 else c := by
  induction cs generalizing j p with
  | nil => simp [srtlaAckOthers]
  | cons c rest ih =>
    have hrest : ∀ (q : Nat) d, rest[q]? = some d → (j + 1) + q = skip → holdsM d seq = false := by
      intro q d hq he
      exact hskip (q + 1) d (by simpa using hq) (by omega)
    unfold srtlaAckOthers firstHolderM
    rw [List.findIdx?_cons]
    by_cases hj : j = skip
    · have hc : holdsM c seq = false := hskip 0 c rfl (by omega)
      rw [if_pos hj, hc]
      cases p with
      | zero => simp
      | succ p =>
        simp only [List.getElem?_cons_succ, Bool.false_eq_true, if_false]
        rw [ih (j + 1) hrest p]
        unfold firstHolderM
        cases rest.findIdx? (fun c => holdsM c seq) <;> simp
    · rw [if_neg hj]
      have hsnd := srtlaAck_snd c seq cl now
      generalize hr : c.srtlaAck seq cl now = r at hsnd
      obtain ⟨c', found⟩ := r
      dsimp only at hsnd ⊢
      subst hsnd
      have hfst : c' = (c.srtlaAck seq cl now).1 := by rw [hr]
      cases hc : holdsM c seq
      · have hc' : c.log.any (·.1 == seq) = false := hc
        simp only [hc', Bool.false_eq_true, if_false]
        cases p with
        | zero => simp
        | succ p =>
          simp only [List.getElem?_cons_succ]
          rw [ih (j + 1) hrest p]
          unfold firstHolderM
          cases rest.findIdx? (fun c => holdsM c seq) <;> simp
      · have hc' : c.log.any (·.1 == seq) = true := hc
        simp only [hc', if_true]
        cases p with
        | zero => simp [hfst]
        | succ p => simp

theorem getElem?_updateAt (cs : Links) (i : Nat) (f : Conn → Conn) (p : Nat) :
    (updateAt cs i f)[p]? = (cs[p]?).map fun c => if p = i then f c else c := by
  unfold updateAt
  rw [List.getElem?_mapIdx]

theorem holderM_none (cs : Links) (idx : Nat) (seq : Int) (h : cs[idx]? = none) : holderM cs idx seq = none := by
  unfold holderM; rw [h]

theorem holderM_pos (cs : Links) (idx : Nat) (seq : Int) (c : Conn) (h : cs[idx]? = some c)
    (hc : holdsM c seq = true) : holderM cs idx seq = some idx := by
  unfold holderM; rw [h]; dsimp only; rw [if_pos hc]

theorem holderM_neg (cs : Links) (idx : Nat) (seq : Int) (c : Conn) (h : cs[idx]? = some c)
    (hc : holdsM c seq = false) : holderM cs idx seq = firstHolderM cs seq := by
  unfold holderM; rw [h]; dsimp only; rw [if_neg (by simp [hc])]

/-- `evSrtlaAck`, link by link, with the holder named. -/
theorem getElem?_evSrtlaAck (cs : Links) (idx : Nat) (seq : Int) (cl : Bool) (now : Nat) (p : Nat) :
    (evSrtlaAck cs idx seq cl now)[p]? =
      (cs[p]?).map fun c => Conn.ackGlobal (if holderM cs idx seq = some p then (c.srtlaAck seq cl now).1 else c) := by
  cases hi : cs[idx]? with
  | none =>
    rw [holderM_none cs idx seq hi]
    unfold evSrtlaAck
    rw [hi]
    simp
  | some c =>
    have hsnd := srtlaAck_snd c seq cl now
    by_cases hc : holdsM c seq = true
    · rw [holderM_pos cs idx seq c hi hc]
      unfold evSrtlaAck
      rw [hi]
      dsimp only
      rw [List.getElem?_map]
      generalize hr : c.srtlaAck seq cl now = r at hsnd
      obtain ⟨c', found⟩ := r
      dsimp only at hsnd ⊢
      have hfst : c' = (c.srtlaAck seq cl now).1 := by rw [hr]
      have hf : found = true := by rw [hsnd]; exact hc
      rw [if_pos hf, getElem?_updateAt]
      cases hp : cs[p]? with
      | none => simp
      | some d =>
        by_cases hpi : p = idx
        · subst hpi
          have : d = c := by rw [hi] at hp; exact (Option.some.inj hp).symm
          subst this
          simp [hfst]
        · have : ¬ (some idx = some p) := fun e => hpi (Option.some.inj e).symm
          simp [hpi, this]
    · have hcf : holdsM c seq = false := by simpa using hc
      rw [holderM_neg cs idx seq c hi hcf]
      unfold evSrtlaAck
      rw [hi]
      dsimp only
      rw [List.getElem?_map]
      generalize hr : c.srtlaAck seq cl now = r at hsnd
      obtain ⟨c', found⟩ := r
      dsimp only at hsnd ⊢
      have hf : ¬ found = true := by rw [hsnd]; exact hc
      rw [if_neg hf]
      rw [getElem?_srtlaAckOthers cs 0 idx seq cl now (fun q d hq he => by
        have : q = idx := by omega
        subst this; rw [hi] at hq; cases hq; exact hcf) p]
      cases cs[p]? <;> simp

theorem getElem?_nakScan (cs : Links) (seq : Int) (now : Nat) (p : Nat) :
    (nakScan cs seq now).1[p]? =
      (cs[p]?).map fun c => if firstHolderM cs seq = some p then (c.nak seq now).1 else c := by
  induction cs generalizing p with
  | nil => simp [nakScan]
  | cons c rest ih =>
    unfold nakScan firstHolderM
    rw [List.findIdx?_cons]
    dsimp only
    rw [nak_snd]
    cases hc : holdsM c seq
    · have hc' : c.log.any (·.1 == seq) = false := hc
      simp only [hc', Bool.false_eq_true, if_false]
      cases p with
      | zero => simp
      | succ p =>
        simp only [List.getElem?_cons_succ]
        rw [ih p]
        unfold firstHolderM
        cases rest.findIdx? (fun c => holdsM c seq) <;> simp
    · have hc' : c.log.any (·.1 == seq) = true := hc
      simp only [hc', if_true]
      cases p with
      | zero => simp
      | succ p => simp

theorem nakScan_snd (cs : Links) (seq : Int) (now : Nat) : (nakScan cs seq now).2 = firstHolderM cs seq := by
  induction cs with
  | nil => rfl
  | cons c rest ih =>
    unfold nakScan firstHolderM
    rw [List.findIdx?_cons]
    dsimp only
    rw [nak_snd]
    cases hc : holdsM c seq
    · have hc' : c.log.any (·.1 == seq) = false := hc
      simp only [hc', Bool.false_eq_true, if_false]
      rw [ih]; rfl
    · have hc' : c.log.any (·.1 == seq) = true := hc
      simp only [hc', if_true]

/-- What the sender's sequence tracker remembers about a NAKed number: the index of the link whose conn
id it recorded within the last 5000 ms, if that link is still there. -/
def rememberedM (cs : Links) (trk : Tracker) (nak now : Nat) : Option Nat :=
  match trk.get nak now with
  | some cid => cs.findIdx? (·.connId == cid)
  | none => none

/-- The link `attribute_nak` charges. -/
def nakTargetM (cs : Links) (trk : Tracker) (nak now : Nat) : Option Nat :=
  match rememberedM cs trk nak now with
  | some k =>
    match cs[k]? with
    | some c => if holdsM c (toI32 nak) then some k else none
    | none => none
  | none => firstHolderM cs (toI32 nak)

theorem attributeNak_eq (cs : Links) (trk : Tracker) (nak now : Nat) :
    attributeNak cs trk nak now =
      match rememberedM cs trk nak now with
      | some pos =>
        match cs[pos]? with
        | some c => if holdsM c (toI32 nak) then (updateAt cs pos fun _ => (c.nak (toI32 nak) now).1, some pos) else (cs, none)
        | none => (cs, none)
      | none => nakScan cs (toI32 nak) now := by
  unfold attributeNak rememberedM
  dsimp only
  cases hg : trk.get nak now with
  | none => rfl
  | some cid =>
    dsimp only
    cases hf : cs.findIdx? (·.connId == cid) with
    | none => rfl
    | some pos =>
      dsimp only
      cases hp : cs[pos]? with
      | none => rfl
      | some c =>
        dsimp only
        rw [nak_snd]
        rfl

theorem attributeNak_snd (cs : Links) (trk : Tracker) (nak now : Nat) :
    (attributeNak cs trk nak now).2 = nakTargetM cs trk nak now := by
  rw [attributeNak_eq]
  unfold nakTargetM
  cases rememberedM cs trk nak now with
  | none => exact nakScan_snd _ _ _
  | some pos =>
    dsimp only
    cases cs[pos]? with
    | none => rfl
    | some c =>
      dsimp only
      by_cases hc : holdsM c (toI32 nak) = true
      · rw [if_pos hc, if_pos hc]
      · rw [if_neg hc, if_neg hc]

theorem getElem?_attributeNak (cs : Links) (trk : Tracker) (nak now : Nat) (p : Nat) :
    (attributeNak cs trk nak now).1[p]? =
      (cs[p]?).map fun c => if nakTargetM cs trk nak now = some p then (c.nak (toI32 nak) now).1 else c := by
  have ht : nakTargetM cs trk nak now = match rememberedM cs trk nak now with
      | some k =>
        match cs[k]? with
        | some c => if holdsM c (toI32 nak) then some k else none
        | none => none
      | none => firstHolderM cs (toI32 nak) := rfl
  rw [attributeNak_eq]
  cases hrem : rememberedM cs trk nak now with
  | none =>
    rw [hrem] at ht
    rw [ht]
    exact getElem?_nakScan _ _ _ _
  | some pos =>
    rw [hrem] at ht
    dsimp only at ht ⊢
    cases hpos : cs[pos]? with
    | none =>
      rw [hpos] at ht
      rw [ht]
      simp
    | some c =>
      rw [hpos] at ht
      dsimp only at ht ⊢
      by_cases hc : holdsM c (toI32 nak) = true
      · rw [if_pos hc] at ht
        rw [ht, if_pos hc]
        dsimp only
        rw [getElem?_updateAt]
        cases hp : cs[p]? with
        | none => simp
        | some d =>
          by_cases hpi : p = pos
          · subst hpi
            have : d = c := by rw [hpos] at hp; exact (Option.some.inj hp).symm
            subst this
            simp
          · have : ¬ (some pos = some p) := fun e => hpi (Option.some.inj e).symm
            simp [hpi, this]
      · rw [if_neg hc] at ht
        rw [ht, if_neg hc]
        simp

/-! ## 3. Abstraction of connection cores, and the three rules on it -/

/-- What the reference machine sees of one connection core (`u`: the link is usable). -/
def absC (u : Bool) (c : Conn) : RLink :=
  { usable := u, live := live c, window := c.window, inFlight := c.inFlight, out := c.keys }

/-- Abstraction of a list of cores; `u k` = link `k` is usable; `j` = index of the head. -/
def absFrom (u : Nat → Bool) : Nat → Links → RState
  | _, [] => []
  | j, c :: cs => absC (u j) c :: absFrom u (j + 1) cs

theorem getElem?_absFrom (u : Nat → Bool) (j : Nat) (cs : Links) (p : Nat) :
    (absFrom u j cs)[p]? = (cs[p]?).map (absC (u (j + p))) := by
  induction cs generalizing j p with
  | nil => simp [absFrom]
  | cons c rest ih =>
    cases p with
    | zero => simp [absFrom]
    | succ p =>
      simp only [absFrom, List.getElem?_cons_succ, ih]
      congr 3; omega

theorem length_absFrom (u : Nat → Bool) (j : Nat) (cs : Links) : (absFrom u j cs).length = cs.length := by
  induction cs generalizing j with
  | nil => rfl
  | cons c rest ih => simp only [absFrom, List.length_cons, ih]

/-- The invariant of a connection core the simulation needs (part of `SysInv`). -/
def CoreInv (c : Conn) : Prop := LogInv c ∧ 1000 ≤ c.window ∧ c.window ≤ 60000

theorem contains_keys (u : Bool) (c : Conn) (seq : Int) : (absC u c).out.contains seq = holdsM c seq := by
  rw [Bool.eq_iff_iff, List.contains_iff_mem, holdsM_iff]
  rfl

theorem firstHolder_absFrom (u : Nat → Bool) (j : Nat) (cs : Links) (seq : Int) :
    firstHolder (absFrom u j cs) seq = firstHolderM cs seq := by
  induction cs generalizing j with
  | nil => rfl
  | cons c rest ih =>
    unfold firstHolder firstHolderM
    simp only [absFrom, List.findIdx?_cons, contains_keys]
    have := ih (j + 1)
    unfold firstHolder firstHolderM at this
    rw [this]

theorem firstHolderM_holds (cs : Links) (seq : Int) (p : Nat) (h : firstHolderM cs seq = some p) :
    ∃ c, cs[p]? = some c ∧ holdsM c seq = true := by
  induction cs generalizing p with
  | nil => cases h
  | cons c rest ih =>
    unfold firstHolderM at h
    rw [List.findIdx?_cons] at h
    by_cases hc : holdsM c seq = true
    · rw [if_pos hc] at h
      cases h
      exact ⟨c, rfl, hc⟩
    · rw [if_neg hc] at h
      cases hr : rest.findIdx? (fun c => holdsM c seq) with
      | none => rw [hr] at h; cases h
      | some q =>
        rw [hr] at h
        have : q + 1 = p := by simpa using h
        subst this
        obtain ⟨d, hd, hh⟩ := ih q hr
        exact ⟨d, by simpa using hd, hh⟩

theorem holderM_holds (cs : Links) (idx : Nat) (seq : Int) (p : Nat) (h : holderM cs idx seq = some p) :
    ∃ c, cs[p]? = some c ∧ holdsM c seq = true := by
  cases hi : cs[idx]? with
  | none => rw [holderM_none cs idx seq hi] at h; cases h
  | some c =>
    by_cases hc : holdsM c seq = true
    · rw [holderM_pos cs idx seq c hi hc] at h
      cases h
      exact ⟨c, hi, hc⟩
    · rw [holderM_neg cs idx seq c hi (by simpa using hc)] at h
      exact firstHolderM_holds cs seq p h

theorem holder_absFrom (u : Nat → Bool) (j : Nat) (cs : Links) (idx : Nat) (seq : Int) (hidx : idx < cs.length) :
    holder (absFrom u j cs) idx seq = holderM cs idx seq := by
  have hi : cs[idx]? = some cs[idx] := List.getElem?_eq_getElem hidx
  unfold holder
  rw [getElem?_absFrom, hi]
  dsimp only [Option.map]
  rw [contains_keys, firstHolder_absFrom]
  by_cases hc : holdsM cs[idx] seq = true
  · rw [if_pos hc, holderM_pos cs idx seq _ hi hc]
  · rw [if_neg hc, holderM_neg cs idx seq _ hi (by simpa using hc)]

theorem filter_ne_length (k : List Int) (s : Int) (hn : k.Nodup) (hs : s ∈ k) :
    (k.filter (· != s)).length + 1 = k.length := by
  induction k with
  | nil => cases hs
  | cons x rest ih =>
    have hn' := List.nodup_cons.mp hn
    by_cases hx : x = s
    · subst hx
      have : rest.filter (· != x) = rest := by
        apply List.filter_eq_self.mpr
        intro y hy
        simp only [bne_iff_ne, ne_eq]
        intro hyx; subst hyx; exact hn'.1 hy
      simp [this]
    · have hs' : s ∈ rest := by
        rcases List.mem_cons.mp hs with h | h
        · exact absurd h.symm hx
        · exact h
      have := ih hn'.2 hs'
      simp [hx, this]

theorem logErase_length (c : Conn) (seq : Int) (h : LogInv c) (hh : holdsM c seq = true) :
    ((logErase c.log seq).length : Int) = c.inFlight - 1 := by
  have h1 : (logErase c.log seq).length = (specErase c.keys seq).length := by
    have := congrArg List.length (keys_logErase c.log seq)
    rw [List.length_map] at this
    exact this
  have h2 := filter_ne_length c.keys seq h.nodup ((holdsM_iff c seq).1 hh)
  have h3 := h.count
  unfold specErase at h1
  omega

theorem absC_ackGlobal (u : Bool) (c : Conn) : absC u c.ackGlobal = globalInc (absC u c) := by
  rw [ackGlobal_eq]
  unfold globalInc absC
  by_cases hl : live c = true
  · rw [if_pos hl]
    dsimp only
    rw [if_pos hl]
    rfl
  · rw [if_neg hl]
    dsimp only
    rw [if_neg hl]

/-- The earned SRTLA ACK on the holder is the reference's `earn`: the in-flight count the `+29` test
reads is the count AFTER the acknowledged packet was removed, on both sides. -/
theorem absC_srtlaAck (u : Bool) (c : Conn) (seq : Int) (now : Nat) (h : CoreInv c) (hh : holdsM c seq = true) :
    absC u (c.srtlaAck seq true now).1 = earn seq (absC u c) := by
  obtain ⟨hl, h1, h2⟩ := h
  rw [srtlaAck_classic_found c seq now hh (by omega)]
  unfold earn absC
  dsimp only
  rw [logErase_length c seq hl hh]
  congr 1
  show (logErase c.log seq).map Prod.fst = _
  rw [keys_logErase]
  rfl

theorem absC_nak (u : Bool) (c : Conn) (seq : Int) (now : Nat) (h : CoreInv c) (hh : holdsM c seq = true) :
    absC u (c.nak seq now).1 = charge seq (absC u c) := by
  obtain ⟨hl, h1, h2⟩ := h
  obtain ⟨-, n2, n3, n4, n5, n6⟩ := nak_found c seq now hh
  unfold charge absC live
  rw [n2, n3, n4, n6, logErase_length c seq hl hh]
  congr 1
  show ((c.nak seq now).1.log).map Prod.fst = _
  rw [n5, keys_logErase]
  rfl

theorem absC_srtAck (u : Bool) (c : Conn) (a : Int) (now : Nat) (h : LogInv c) :
    absC u (c.srtAck a now).1 = cumAckLink a (absC u c) := by
  obtain ⟨f1, f2, -⟩ := srtAck_frame c a now
  have hk := srtAck_keys c a now h
  have hc := (srtAck_inv c a now h).count
  unfold cumAckLink absC
  dsimp only
  rw [f1, f2, hc, hk]
  rfl

/-! ### Invariant preservation by the fan-out -/

theorem coreInv_srtlaAck (c : Conn) (seq : Int) (cl : Bool) (now : Nat) (h : CoreInv c) :
    CoreInv (c.srtlaAck seq cl now).1 :=
  ⟨srtlaAck_inv c seq cl now h.1, srtlaAck_window c seq cl now h.2.1 h.2.2⟩

theorem coreInv_nak (c : Conn) (seq : Int) (now : Nat) (h : CoreInv c) : CoreInv (c.nak seq now).1 :=
  ⟨nak_inv c seq now h.1, nak_window c seq now h.2.1 h.2.2⟩

theorem coreInv_srtAck (c : Conn) (a : Int) (now : Nat) (h : CoreInv c) : CoreInv (c.srtAck a now).1 :=
  ⟨srtAck_inv c a now h.1, by rw [srtAck_window]; exact h.2⟩

theorem coreInv_ackGlobal (c : Conn) (h : CoreInv c) : CoreInv c.ackGlobal := by
  have hC := wconsts.2.1
  refine ⟨(ackGlobal_keys c).2 h.1, ?_⟩
  unfold Conn.ackGlobal
  have := h.2
  split
  · dsimp only; omega
  · exact this

def AllCore (cs : Links) : Prop := ∀ c ∈ cs, CoreInv c

theorem allCore_of_getElem? (cs cs' : Links) (h : AllCore cs)
    (hp : ∀ (p : Nat) c', cs'[p]? = some c' → ∃ c, cs[p]? = some c ∧ (CoreInv c → CoreInv c')) : AllCore cs' := by
  intro c' hc'
  obtain ⟨p, hlt, e⟩ := List.getElem_of_mem hc'
  obtain ⟨c, hc, hi⟩ := hp p c' (by rw [List.getElem?_eq_getElem hlt, e])
  exact hi (h c (List.mem_of_getElem? hc))

theorem allCore_evSrtlaAck (cs : Links) (idx : Nat) (seq : Int) (cl : Bool) (now : Nat) (h : AllCore cs) :
    AllCore (evSrtlaAck cs idx seq cl now) := by
  apply allCore_of_getElem? cs _ h
  intro p c' hc'
  rw [getElem?_evSrtlaAck] at hc'
  cases hp : cs[p]? with
  | none => rw [hp] at hc'; cases hc'
  | some c =>
    rw [hp] at hc'
    refine ⟨c, rfl, fun hi => ?_⟩
    have : c' = _ := (Option.some.inj hc').symm
    subst this
    apply coreInv_ackGlobal
    split
    · exact coreInv_srtlaAck c seq cl now hi
    · exact hi

theorem allCore_attributeNak (cs : Links) (trk : Tracker) (nak now : Nat) (h : AllCore cs) :
    AllCore (attributeNak cs trk nak now).1 := by
  apply allCore_of_getElem? cs _ h
  intro p c' hc'
  rw [getElem?_attributeNak] at hc'
  cases hp : cs[p]? with
  | none => rw [hp] at hc'; cases hc'
  | some c =>
    rw [hp] at hc'
    refine ⟨c, rfl, fun hi => ?_⟩
    have : c' = _ := (Option.some.inj hc').symm
    subst this
    split
    · exact coreInv_nak c _ now hi
    · exact hi

/-! ### The three rules on the abstraction -/

/-- One SRTLA-acknowledged number (classic mode) IS the reference's `register_srtla_ack` on the
abstraction — full machine state: windows, in-flight counts, outstanding sets. -/
theorem absFrom_evSrtlaAck (u : Nat → Bool) (j : Nat) (cs : Links) (idx : Nat) (seq : Int) (now : Nat)
    (h : AllCore cs) (hidx : idx < cs.length) :
    absFrom u j (evSrtlaAck cs idx seq true now) = rSackOne (absFrom u j cs) idx seq := by
  apply List.ext_getElem?
  intro p
  rw [getElem?_absFrom, getElem?_evSrtlaAck, getElem?_rSackOne, getElem?_absFrom, holder_absFrom u j cs idx seq hidx]
  cases hp : cs[p]? with
  | none => rfl
  | some c =>
    dsimp only [Option.map]
    congr 1
    rw [absC_ackGlobal]
    congr 1
    by_cases hh : holderM cs idx seq = some p
    · rw [if_pos hh, if_pos hh]
      obtain ⟨d, hd, hhd⟩ := holderM_holds cs idx seq p hh
      have : d = c := by rw [hp] at hd; exact (Option.some.inj hd).symm
      subst this
      exact absC_srtlaAck _ d seq now (h d (List.mem_of_getElem? hp)) hhd
    · rw [if_neg hh, if_neg hh]

theorem nakTargetM_holds (cs : Links) (trk : Tracker) (nak now p : Nat) (h : nakTargetM cs trk nak now = some p) :
    ∃ c, cs[p]? = some c ∧ holdsM c (toI32 nak) = true := by
  unfold nakTargetM at h
  cases hr : rememberedM cs trk nak now with
  | none => rw [hr] at h; exact firstHolderM_holds cs _ p h
  | some k =>
    rw [hr] at h
    dsimp only at h
    cases hk : cs[k]? with
    | none => rw [hk] at h; cases h
    | some c =>
      rw [hk] at h
      dsimp only at h
      by_cases hc : holdsM c (toI32 nak) = true
      · rw [if_pos hc] at h
        cases h
        exact ⟨c, hk, hc⟩
      · rw [if_neg hc] at h; cases h

theorem nakTarget_absFrom (u : Nat → Bool) (j : Nat) (cs : Links) (trk : Tracker) (nak now : Nat) :
    nakTarget (absFrom u j cs) (toI32 nak) (rememberedM cs trk nak now) = nakTargetM cs trk nak now := by
  unfold nakTarget nakTargetM
  cases rememberedM cs trk nak now with
  | none => exact firstHolder_absFrom u j cs _
  | some k =>
    dsimp only
    rw [getElem?_absFrom]
    cases cs[k]? with
    | none => rfl
    | some c =>
      dsimp only [Option.map]
      rw [contains_keys]

/-- One NAKed number IS the reference's `register_nak` on the abstraction, where `remembered` is what the
sender's sequence tracker says (`none`: the reference's own scan). -/
theorem absFrom_attributeNak (u : Nat → Bool) (j : Nat) (cs : Links) (trk : Tracker) (nak now : Nat)
    (h : AllCore cs) :
    absFrom u j (attributeNak cs trk nak now).1 =
      rNak (absFrom u j cs) (toI32 nak) (rememberedM cs trk nak now) := by
  apply List.ext_getElem?
  intro p
  rw [getElem?_absFrom, getElem?_attributeNak, getElem?_rNak, getElem?_absFrom, nakTarget_absFrom]
  cases hp : cs[p]? with
  | none => rfl
  | some c =>
    dsimp only [Option.map]
    congr 1
    by_cases hh : nakTargetM cs trk nak now = some p
    · rw [if_pos hh, if_pos hh]
      obtain ⟨d, hd, hhd⟩ := nakTargetM_holds cs trk nak now p hh
      have : d = c := by rw [hp] at hd; exact (Option.some.inj hd).symm
      subst this
      exact absC_nak _ d _ now (h d (List.mem_of_getElem? hp)) hhd
    · rw [if_neg hh, if_neg hh]

/-- A cumulative SRT ACK on every link IS the reference's `cumAck`. -/
theorem absFrom_srtAck (u : Nat → Bool) (j : Nat) (cs : Links) (a : Int) (now : Nat) (h : AllCore cs) :
    absFrom u j (cs.map fun c => (c.srtAck a now).1) = (absFrom u j cs).map (cumAckLink a) := by
  induction cs generalizing j with
  | nil => rfl
  | cons c rest ih =>
    simp only [List.map_cons, absFrom]
    rw [absC_srtAck _ c a now (h c List.mem_cons_self).1, ih (j + 1) fun d hd => h d (List.mem_cons_of_mem _ hd)]

/-! ## 4. `process_connection_events` = a list of reference events -/

theorem rememberedM_ids (cs cs0 : Links) (trk : Tracker) (nak now : Nat) (h : idsOf cs = idsOf cs0) :
    rememberedM cs trk nak now = rememberedM cs0 trk nak now := by
  unfold rememberedM
  cases trk.get nak now with
  | none => rfl
  | some cid =>
    dsimp only
    rw [← findIdx_ids cs cid, ← findIdx_ids cs0 cid, h]

theorem length_of_ids (cs cs0 : Links) (h : idsOf cs = idsOf cs0) : cs.length = cs0.length := by
  have := congrArg List.length h
  simpa [idsOf] using this

theorem allCore_map_srtAck (cs : Links) (a : Int) (now : Nat) (h : AllCore cs) :
    AllCore (cs.map fun c => (c.srtAck a now).1) := by
  intro c' hc'
  obtain ⟨c, hc, rfl⟩ := List.mem_map.1 hc'
  exact coreInv_srtAck c a now (h c hc)

theorem rrun_append (st : RState) (a b : List REv) : rrun st (a ++ b) = rrun (rrun st a) b := by
  unfold rrun; rw [List.foldl_append]

theorem rrun_cons (st : RState) (e : REv) (es : List REv) : rrun st (e :: es) = rrun (rstep st e).1 es := rfl

/-- The cumulative ACKs of the datagram, on cores. -/
theorem acks_sim (u : Nat → Bool) (j : Nat) (acks : List Nat) (cs : Links) (now : Nat) (h : AllCore cs) :
    let cs' := acks.foldl (fun cs a => cs.map fun c => (c.srtAck (toI32 a) now).1) cs
    absFrom u j cs' = rrun (absFrom u j cs) (acks.map fun a => REv.cumAck (toI32 a)) ∧ AllCore cs' ∧
      idsOf cs' = idsOf cs := by
  induction acks generalizing cs with
  | nil => exact ⟨rfl, h, rfl⟩
  | cons a rest ih =>
    simp only [List.foldl_cons, List.map_cons]
    obtain ⟨e1, e2, e3⟩ := ih (cs.map fun c => (c.srtAck (toI32 a) now).1) (allCore_map_srtAck cs _ now h)
    refine ⟨?_, e2, ?_⟩
    · rw [e1, rrun_cons, absFrom_srtAck u j cs _ now h]; rfl
    · rw [e3]; exact idsOf_map _ _ (fun c => connId_srtAck c _ now)

/-- The SRTLA-acknowledged numbers of the datagram. -/
theorem sacks_sim (u : Nat → Bool) (j : Nat) (sacks : List Nat) (cs : Links) (idx now : Nat) (h : AllCore cs)
    (hidx : idx < cs.length) :
    let cs' := sacks.foldl (fun cs a => evSrtlaAck cs idx (toI32 a) true now) cs
    absFrom u j cs' = (sacks.map toI32).foldl (fun s a => rSackOne s idx a) (absFrom u j cs) ∧ AllCore cs' ∧
      idsOf cs' = idsOf cs := by
  induction sacks generalizing cs with
  | nil => exact ⟨rfl, h, rfl⟩
  | cons a rest ih =>
    simp only [List.foldl_cons, List.map_cons]
    have hids := idsOf_evSrtlaAck cs idx (toI32 a) true now
    obtain ⟨e1, e2, e3⟩ := ih (evSrtlaAck cs idx (toI32 a) true now) (allCore_evSrtlaAck cs idx _ true now h)
      (by rw [length_of_ids _ _ hids]; exact hidx)
    refine ⟨?_, e2, ?_⟩
    · rw [e1, absFrom_evSrtlaAck u j cs idx _ now h hidx]
    · rw [e3, hids]

/-- The NAKed numbers of the datagram; `cs0` = any list of cores with the same conn ids (the tracker
lookup only reads conn ids, which the fan-out never changes). -/
theorem naks_sim (u : Nat → Bool) (j : Nat) (naks : List Nat) (cs cs0 : Links) (trk : Tracker) (now : Nat)
    (h : AllCore cs) (hids : idsOf cs = idsOf cs0) :
    let cs' := naks.foldl (fun cs n => (attributeNak cs trk n now).1) cs
    absFrom u j cs' =
      rrun (absFrom u j cs) (naks.map fun n => REv.nak (toI32 n) (rememberedM cs0 trk n now)) ∧ AllCore cs' ∧
      idsOf cs' = idsOf cs := by
  induction naks generalizing cs with
  | nil => exact ⟨rfl, h, rfl⟩
  | cons n rest ih =>
    simp only [List.foldl_cons, List.map_cons]
    have hi := idsOf_attributeNak cs trk n now
    obtain ⟨e1, e2, e3⟩ := ih (attributeNak cs trk n now).1 (allCore_attributeNak cs trk n now h) (hi.trans hids)
    refine ⟨?_, e2, e3.trans hi⟩
    rw [e1, rrun_cons, absFrom_attributeNak u j cs trk n now h, rememberedM_ids cs cs0 trk n now hids]
    rfl

/-- The reference events of the ACK / NAK fan-out of one uplink datagram that arrived on link `idx`:
one `cumAck` per cumulative SRT ACK, ONE `srtlaAck` event carrying the datagram's numbers in order, one
`nak` per NAKed number with what the sequence tracker remembers about it. -/
def fanEvents (cs0 : Links) (trk : Tracker) (idx : Nat) (inc : Incoming) (now : Nat) : List REv :=
  (inc.acks.map fun a => REv.cumAck (toI32 a)) ++ [REv.srtlaAck (inc.sacks.map toI32) idx] ++
    (inc.naks.map fun n => REv.nak (toI32 n) (rememberedM cs0 trk n now))

section scalar
variable {F : Type} [Scalar F]
variable {fa : List (Nat × Nat)}

theorem cores_acks_fold (acks : List Nat) (ls : List (FLink F)) (now : Nat) :
    cores (acks.foldl (fun ls a => ls.map fun l => l.srtAck (toI32 a) now) ls) =
      acks.foldl (fun cs a => cs.map fun c => (c.srtAck (toI32 a) now).1) (cores ls) := by
  induction acks generalizing ls with
  | nil => rfl
  | cons a rest ih =>
    simp only [List.foldl_cons]
    rw [ih]
    congr 1
    unfold cores
    rw [List.map_map, List.map_map]
    apply List.map_congr_left
    intro l _
    exact flink_srtAck_core l _ now

/-- **`process_connection_events` in classic mode is the reference machine run on `fanEvents`**, full
machine state (windows, in-flight counts, outstanding sets, live flags), from any state whose cores
satisfy the accounting invariant. -/
theorem processConnectionEvents_sim (u : Nat → Bool) (s : Sys F) (idx : Nat) (inc : Incoming) (now : Nat)
    (hc : s.cfg.classic = true) (h : AllCore (cores s.links)) (hidx : idx < s.links.length) :
    absFrom u 0 (cores (processConnectionEvents s idx inc now).1.links) =
      rrun (absFrom u 0 (cores s.links)) (fanEvents (cores s.links) s.trk idx inc now) ∧
    AllCore (cores (processConnectionEvents s idx inc now).1.links) ∧
    idsOf (cores (processConnectionEvents s idx inc now).1.links) = idsOf (cores s.links) := by
  unfold processConnectionEvents fanEvents
  dsimp only
  rw [hc]
  generalize hls1 : inc.acks.foldl (fun ls a => ls.map fun l => l.srtAck (toI32 a) now) s.links = ls1
  have hcs1 := cores_acks_fold inc.acks s.links now
  rw [hls1] at hcs1
  obtain ⟨a1, a2, a3⟩ := acks_sim u 0 inc.acks (cores s.links) now h
  try dsimp only at a1 a2 a3
  rw [← hcs1] at a1 a2 a3
  have hlen1 : idx < (cores ls1).length := by
    rw [length_of_ids _ _ a3, length_cores]; exact hidx
  obtain ⟨b1, b2, b3⟩ := sacks_sim u 0 inc.sacks (cores ls1) idx now a2 hlen1
  try dsimp only at b1 b2 b3
  generalize inc.sacks.foldl (fun cs a => evSrtlaAck cs idx (toI32 a) true now) (cores ls1) = cs2 at b1 b2 b3
  obtain ⟨c1, c2, c3⟩ := naks_sim u 0 inc.naks cs2 (cores s.links) s.trk now b2 (b3.trans a3)
  try dsimp only at c1 c2 c3
  generalize inc.naks.foldl (fun cs n => (attributeNak cs s.trk n now).1) cs2 = cs3 at c1 c2 c3
  have hlen : cs3.length = ls1.length := by
    rw [length_of_ids _ _ c3, length_of_ids _ _ b3, length_cores]
  rw [cores_withCores ls1 cs3 hlen]
  refine ⟨?_, c2, c3.trans (b3.trans a3)⟩
  rw [c1, b1, a1, rrun_append, rrun_append]
  rfl

end scalar

/-! ## 5. Abstraction of a shell state -/

section scalar
variable {F : Type} [Scalar F]

/-- The link is usable in the reference's sense: connected, registration completed, not timed out under
the configured timeout `T` (the same expression as in `refView`). -/
def usableL (T now : Nat) (l : FLink F) : Bool :=
  l.core.connected && l.core.phase != .registering &&
    !timedOutAt l.core.connected l.established l.graceDeadline l.core.lastReceived T now

/-- The sequence numbers waiting in a batch queue (control datagrams carry none). -/
def queuedSeqs (q : List QItem) : List Int := q.filterMap fun it => it.2.1.map toI32

/-- **Abstraction for the window rules**: in-flight = what has been put on the socket and not retired
(`in_flight_packets` = the packet-log length); outstanding = the logged numbers. -/
def absSentL (T now : Nat) (l : FLink F) : RLink := absC (usableL T now l) l.core

def absSent (s : Sys F) (now : Nat) : RState := s.links.map (absSentL s.cfg.connTimeoutMs now)

/-- **Abstraction for the selector**: in-flight = logged + still waiting in the batch queue (the
reference counts a packet from the moment it is routed); outstanding = logged ++ queued numbers. -/
def absRouteL (T now : Nat) (l : FLink F) : RLink :=
  { usable := usableL T now l, live := live l.core, window := l.core.window,
    inFlight := l.core.inFlight + (l.queue.length : Int), out := l.core.keys ++ queuedSeqs l.queue }

def absRoute (s : Sys F) (now : Nat) : RState := s.links.map (absRouteL s.cfg.connTimeoutMs now)

/-- The windows of a shell state. -/
def windowsOf (s : Sys F) : List Int := s.links.map (·.core.window)

theorem absRoute_view (s : Sys F) (now : Nat) : (absRoute s now).map RLink.view = refView s now := by
  unfold absRoute refView
  rw [List.map_map]
  rfl

theorem rWindows_absRoute (s : Sys F) (now : Nat) : rWindows (absRoute s now) = windowsOf s := by
  unfold rWindows absRoute windowsOf; rw [List.map_map]; rfl

theorem rWindows_absSent (s : Sys F) (now : Nat) : rWindows (absSent s now) = windowsOf s := by
  unfold rWindows absSent windowsOf; rw [List.map_map]; rfl

/-- The two abstractions coincide on a link whose batch queue is empty. -/
theorem absRouteL_eq_absSentL (T now : Nat) (l : FLink F) (h : l.queue = []) : absRouteL T now l = absSentL T now l := by
  unfold absRouteL absSentL absC queuedSeqs
  rw [h]
  simp

theorem absFrom_cores (T now : Nat) (u : Nat → Bool) (j : Nat) (ls : List (FLink F))
    (hu : ∀ (p : Nat) l, ls[p]? = some l → u (j + p) = usableL T now l) :
    absFrom u j (cores ls) = ls.map (absSentL T now) := by
  induction ls generalizing j with
  | nil => rfl
  | cons l rest ih =>
    show absC (u j) l.core :: absFrom u (j + 1) (cores rest) = absSentL T now l :: rest.map (absSentL T now)
    rw [ih (j + 1) (fun p x hx => by
      have := hu (p + 1) x (by simpa using hx)
      rw [← this]; congr 1; omega)]
    have := hu 0 l rfl
    rw [Nat.add_zero] at this
    unfold absSentL
    rw [this]

/-- The usable flags of the links of a state, as a function of the index. -/
def usableAt (T now : Nat) (ls : List (FLink F)) (k : Nat) : Bool :=
  match ls[k]? with
  | some l => usableL T now l
  | none => false

theorem absSent_eq_absFrom (s : Sys F) (now : Nat) :
    absSent s now = absFrom (usableAt s.cfg.connTimeoutMs now s.links) 0 (cores s.links) := by
  unfold absSent
  rw [absFrom_cores s.cfg.connTimeoutMs now _ 0 s.links]
  intro p l hl
  unfold usableAt
  rw [Nat.zero_add, hl]

/-! ### The usable flag is not touched by the ACK / NAK fan-out -/

/-- What `usable` reads of a core. -/
def ukey (c : Conn) : Bool × Phase × Option Nat := (c.connected, c.phase, c.lastReceived)

theorem ukey_srtAck (c : Conn) (a : Int) (now : Nat) : ukey (c.srtAck a now).1 = ukey c := by
  unfold Conn.srtAck; split <;> rfl

theorem ukey_srtlaAck (c : Conn) (seq : Int) (cl : Bool) (now : Nat) : ukey (c.srtlaAck seq cl now).1 = ukey c := by
  unfold Conn.srtlaAck; split
  · split <;> rfl
  · rfl

theorem ukey_nak (c : Conn) (seq : Int) (now : Nat) : ukey (c.nak seq now).1 = ukey c := by
  unfold Conn.nak; split <;> rfl

theorem ukey_ackGlobal (c : Conn) : ukey c.ackGlobal = ukey c := by
  unfold Conn.ackGlobal; split <;> rfl

theorem ukeys_evSrtlaAck (cs : Links) (idx : Nat) (seq : Int) (cl : Bool) (now : Nat) :
    (evSrtlaAck cs idx seq cl now).map ukey = cs.map ukey := by
  apply List.ext_getElem?
  intro p
  rw [List.getElem?_map, List.getElem?_map, getElem?_evSrtlaAck]
  cases cs[p]? with
  | none => rfl
  | some c =>
    dsimp only [Option.map]
    rw [ukey_ackGlobal]
    split
    · rw [ukey_srtlaAck]
    · rfl

theorem ukeys_attributeNak (cs : Links) (trk : Tracker) (nak now : Nat) :
    (attributeNak cs trk nak now).1.map ukey = cs.map ukey := by
  apply List.ext_getElem?
  intro p
  rw [List.getElem?_map, List.getElem?_map, getElem?_attributeNak]
  cases cs[p]? with
  | none => rfl
  | some c =>
    dsimp only [Option.map]
    split
    · rw [ukey_nak]
    · rfl

theorem ukeys_pCE (s : Sys F) (idx : Nat) (inc : Incoming) (now : Nat) :
    (cores (processConnectionEvents s idx inc now).1.links).map ukey = (cores s.links).map ukey := by
  have h1 : ∀ (acks : List Nat) (cs : Links),
      (acks.foldl (fun cs a => cs.map fun c => (c.srtAck (toI32 a) now).1) cs).map ukey = cs.map ukey := by
    intro acks
    induction acks with
    | nil => intro cs; rfl
    | cons a rest ih =>
      intro cs
      simp only [List.foldl_cons]
      rw [ih, List.map_map]
      apply List.map_congr_left
      intro c _
      exact ukey_srtAck c _ now
  have h2 : ∀ (sacks : List Nat) (cs : Links),
      (sacks.foldl (fun cs a => evSrtlaAck cs idx (toI32 a) s.cfg.classic now) cs).map ukey = cs.map ukey := by
    intro sacks
    induction sacks with
    | nil => intro cs; rfl
    | cons a rest ih => intro cs; simp only [List.foldl_cons]; rw [ih, ukeys_evSrtlaAck]
  have h3 : ∀ (naks : List Nat) (cs : Links),
      (naks.foldl (fun cs n => (attributeNak cs s.trk n now).1) cs).map ukey = cs.map ukey := by
    intro naks
    induction naks with
    | nil => intro cs; rfl
    | cons a rest ih => intro cs; simp only [List.foldl_cons]; rw [ih, ukeys_attributeNak]
  unfold processConnectionEvents
  dsimp only
  generalize hls1 : inc.acks.foldl (fun ls a => ls.map fun l => l.srtAck (toI32 a) now) s.links = ls1
  have hcs1 := cores_acks_fold inc.acks s.links now
  rw [hls1] at hcs1
  have hlen : (inc.naks.foldl (fun cs n => (attributeNak cs s.trk n now).1)
      (inc.sacks.foldl (fun cs a => evSrtlaAck cs idx (toI32 a) s.cfg.classic now) (cores ls1))).length = ls1.length := by
    have := congrArg List.length ((h3 inc.naks _).trans (h2 inc.sacks (cores ls1)))
    simpa [cores] using this
  rw [cores_withCores ls1 _ hlen, h3, h2, hcs1, h1]

/-- `usable` of every link is the same before and after `process_connection_events`. -/
theorem usableAt_pCE (T : Nat) (s : Sys F) (idx : Nat) (inc : Incoming) (now : Nat) :
    usableAt T now (processConnectionEvents s idx inc now).1.links = usableAt T now s.links := by
  funext k
  unfold usableAt
  have hpw := Uplink.pCE_links s idx inc now
  have hk := congrArg (fun (x : List (Bool × Phase × Option Nat)) => x[k]?) (ukeys_pCE s idx inc now)
  simp only [cores, List.map_map, List.getElem?_map] at hk
  cases hl : s.links[k]? with
  | none =>
    have : (processConnectionEvents s idx inc now).1.links[k]? = none := by
      apply List.getElem?_eq_none
      rw [← hpw.1]
      exact List.getElem?_eq_none_iff.1 hl
    rw [this]
  | some l =>
    obtain ⟨l', hl', hst⟩ := hpw.get hl
    rw [hl']
    rw [hl, hl'] at hk
    have hk' : ukey l'.core = ukey l.core := by simpa using hk
    have hsh := hst.shell
    unfold Uplink.SameShell at hsh
    have he : l'.established = l.established := by rw [hsh]
    have hg : l'.graceDeadline = l.graceDeadline := by rw [hsh]
    unfold ukey at hk'
    have hc : l'.core.connected = l.core.connected := congrArg Prod.fst hk'
    have hp : l'.core.phase = l.core.phase := congrArg (fun x => x.2.1) hk'
    have hr : l'.core.lastReceived = l.core.lastReceived := congrArg (fun x => x.2.2) hk'
    show usableL T now l' = usableL T now l
    unfold usableL
    rw [hc, hp, hr, he, hg]

end scalar

/-! ## 6. The uplink arm -/

section scalar
variable {F : Type} [Scalar F]

theorem map_setAt_eq_modifyAt (ls : List (FLink F)) (idx : Nat) (l a : FLink F) (f : FLink F → RLink)
    (g : RLink → RLink) (hl : ls[idx]? = some l) (hg : g (f l) = f a) :
    (setAt ls idx a).map f = modifyAt g (ls.map f) idx := by
  apply List.ext_getElem?
  intro j
  rw [List.getElem?_map, ClassicRef.getElem?_setAt, getElem?_modifyAt, List.getElem?_map]
  by_cases hj : j = idx
  · subst hj
    rw [if_pos rfl, if_pos rfl, hl]
    simp [hg]
  · rw [if_neg hj, if_neg hj]

theorem rWv_congr (st st' : RState) (h : st.length = st'.length)
    (hp : ∀ (j : Nat) a b, st[j]? = some a → st'[j]? = some b → a.window = b.window ∧ a.live = b.live) :
    rWv st = rWv st' := by
  apply List.ext_getElem?
  intro j
  unfold rWv
  rw [List.getElem?_map, List.getElem?_map]
  cases ha : st[j]? with
  | none =>
    have : st'[j]? = none := by
      apply List.getElem?_eq_none
      rw [← h]
      exact List.getElem?_eq_none_iff.1 ha
    rw [this]
  | some a =>
    have hlt : j < st'.length := by rw [← h]; exact (List.getElem?_eq_some_iff.1 ha).1
    have hb : st'[j]? = some st'[j] := List.getElem?_eq_getElem hlt
    rw [hb]
    obtain ⟨h1, h2⟩ := hp j a _ ha hb
    simp [h1, h2]

theorem rWv_absFrom (u u' : Nat → Bool) (j : Nat) (cs : Links) : rWv (absFrom u j cs) = rWv (absFrom u' j cs) := by
  induction cs generalizing j with
  | nil => rfl
  | cons c rest ih =>
    unfold rWv at ih ⊢
    simp only [absFrom, List.map_cons, ih]
    rfl

theorem linkInv_coreInv (l : FLink F) (h : LinkInv l) : CoreInv l.core := ⟨h.log, h.wlo, h.whi⟩

theorem allCore_cores (ls : List (FLink F)) (h : All LinkInv ls) : AllCore (cores ls) := by
  intro c hc
  obtain ⟨l, hl, rfl⟩ := List.mem_map.1 hc
  exact linkInv_coreInv l (h l hl)

theorem linkInv_stamp (l : FLink F) (now : Nat) (h : LinkInv l) : LinkInv (Uplink.stamp l now) :=
  ⟨logInv_congr h.log rfl rfl rfl, h.wlo, h.whi, h.inf, h.queue⟩

/-- The fan-out with nothing to fan out leaves the links alone. -/
theorem pCE_nothing (s : Sys F) (idx : Nat) (inc : Incoming) (now : Nat) (h1 : inc.acks = []) (h2 : inc.sacks = [])
    (h3 : inc.naks = []) : (processConnectionEvents s idx inc now).1 = s := by
  unfold processConnectionEvents
  simp only [h1, h2, h3, List.foldl_nil, Uplink.withCores_self]

theorem fanEvents_nothing (cs : Links) (trk : Tracker) (idx : Nat) (inc : Incoming) (now : Nat) (st : RState)
    (h1 : inc.acks = []) (h2 : inc.sacks = []) (h3 : inc.naks = []) :
    rrun st (fanEvents cs trk idx inc now) = st := by
  unfold fanEvents
  rw [h1, h2, h3]
  rfl

/-- The arrival link's own arm, as a reference environment event. -/
def IsEnv (idx : Nat) (env : REv) : Prop := env = .linkReset idx ∨ ∃ u lv, env = .linkState idx u lv

theorem absSentL_mark (T now : Nat) (l : FLink F) : absSentL T now l.markForRecovery = resetLink (absSentL T now l) := by
  have hI := wconsts.2.2.1
  unfold absSentL absC resetLink usableL live
  show _ = _
  simp only [FLink.markForRecovery, FLink.resetCoreState, Conn.resetCore, Conn.keys]
  rw [hI]
  simp

/-- The uplink arm against the reference machine, for a known arrival link (flat form). -/
theorem uplink_sim_at (s : Sys F) (cid : Nat) (data : List UInt8) (now : Nat)
    (hclassic : s.cfg.classic = true) (hinv : All LinkInv s.links) (hne : data ≠ []) (idx : Nat) (l : FLink F)
    (hf : s.links.findIdx? (·.core.connId == cid) = some idx) (hl : s.links[idx]? = some l) :
    ∃ env, IsEnv idx env ∧
      rWv (absSent (handleUplinkPacket s cid data now).1 now) =
        rWv (rrun (absSent s now)
          (env :: fanEvents (cores s.links) s.trk idx (Uplink.pupSpec l idx s.reg s.clientKnown data now).2.2 now)) ∧
      (((Uplink.pupSpec l idx s.reg s.clientKnown data now).2.2.acks ≠ [] ∨
        (Uplink.pupSpec l idx s.reg s.clientKnown data now).2.2.sacks ≠ [] ∨
        (Uplink.pupSpec l idx s.reg s.clientKnown data now).2.2.naks ≠ []) →
        absSent (handleUplinkPacket s cid data now).1 now =
          rrun (absSent s now)
            (env :: fanEvents (cores s.links) s.trk idx (Uplink.pupSpec l idx s.reg s.clientKnown data now).2.2 now)) := by
    have hidx : idx < s.links.length := (List.getElem?_eq_some_iff.1 hl).1
    rw [Uplink.handleUplinkPacket_eq s cid data now idx l hne hf hl]
    dsimp only
    generalize hinc : (Uplink.pupSpec l idx s.reg s.clientKnown data now).2.2 = inc
    generalize hreg : (Uplink.pupSpec l idx s.reg s.clientKnown data now).2.1 = reg1
    generalize ha : Uplink.arrival l idx s.reg s.clientKnown data now = a
    -- the two shapes of the arrival arm
    have hshape : (inc.acks = [] ∧ inc.sacks = [] ∧ inc.naks = [] ∧
          (a.core.window = l.core.window ∨ a = l.markForRecovery)) ∨ a = Uplink.stamp l now := by
      cases hpt : Codec.getPacketTypeS data with
      | none =>
        left
        have hp := Uplink.pupSpec_none l idx s.reg s.clientKnown data now hpt
        have : a = l := by rw [← ha]; unfold Uplink.arrival; rw [hp]
        rw [← hinc, hp, this]
        exact ⟨rfl, rfl, rfl, Or.inl rfl⟩
      | some pt =>
        obtain ⟨-, -, i3, i4, i5, -⟩ := Uplink.incoming_spec l idx s.reg s.clientKnown data now pt hpt
        rw [hinc] at i3 i4 i5
        rcases Uplink.arrival_cases l idx s.reg s.clientKnown data now pt hpt with
          ⟨e, h | h⟩ | ⟨e, h⟩ | ⟨e, h⟩ | ⟨e, h⟩ | ⟨e, h⟩ | ⟨-, -, -, -, -, h⟩
        · left; rw [ha] at h; subst e
          exact ⟨by rw [i4]; rfl, by rw [i3]; rfl, by rw [i5]; rfl, Or.inl (by rw [h])⟩
        · left; rw [ha] at h; subst e
          exact ⟨by rw [i4]; rfl, by rw [i3]; rfl, by rw [i5]; rfl, Or.inl (by rw [h])⟩
        · left; rw [ha] at h; subst e
          exact ⟨by rw [i4]; rfl, by rw [i3]; rfl, by rw [i5]; rfl, Or.inl (by rw [h])⟩
        · left; rw [ha] at h; subst e
          exact ⟨by rw [i4]; rfl, by rw [i3]; rfl, by rw [i5]; rfl, Or.inl (by rw [h]; rfl)⟩
        · left; rw [ha] at h; subst e
          exact ⟨by rw [i4]; rfl, by rw [i3]; rfl, by rw [i5]; rfl, Or.inr h⟩
        · left; rw [ha] at h; subst e
          refine ⟨by rw [i4]; rfl, by rw [i3]; rfl, by rw [i5]; rfl, Or.inl ?_⟩
          rw [h]
          unfold Uplink.kaLink
          have key := handleKeepaliveResponse_core (Uplink.stamp l now) data now
          generalize (Uplink.stamp l now).handleKeepaliveResponse data now = r at key
          obtain ⟨l2, sample⟩ := r
          dsimp only at key ⊢
          cases sample with
          | none => dsimp only; rw [key]; rfl
          | some x =>
            dsimp only
            rw [(recordRttProbe_window l2).1, key]; rfl
        · right; rw [ha] at h; exact h
    rcases hshape with ⟨h1, h2, h3, hw⟩ | hst
    · -- nothing to fan out: only the arrival link's own arm
      rw [pCE_nothing _ idx inc now h1 h2 h3]
      rcases hw with hw | hm
      · refine ⟨.linkState idx (usableL s.cfg.connTimeoutMs now a) (live a.core),
          Or.inr ⟨_, _, rfl⟩, ?_, fun h => ?_⟩
        · rw [rrun_cons, fanEvents_nothing _ _ _ _ _ _ h1 h2 h3]
          show rWv ((setAt s.links idx a).map (absSentL s.cfg.connTimeoutMs now)) = _
          apply rWv_congr
          · show ((setAt s.links idx a).map _).length = (modifyAt _ (s.links.map _) idx).length
            rw [length_modifyAt, List.length_map, List.length_map, length_setAt]
          · intro j x y hx hy
            change (modifyAt _ (s.links.map (absSentL s.cfg.connTimeoutMs now)) idx)[j]? = some y at hy
            rw [List.getElem?_map, ClassicRef.getElem?_setAt] at hx
            rw [getElem?_modifyAt, List.getElem?_map] at hy
            by_cases hj : j = idx
            · subst hj
              rw [if_pos rfl, hl] at hx hy
              cases hx; cases hy
              exact ⟨hw, rfl⟩
            · rw [if_neg hj] at hx hy
              rw [hx] at hy; cases hy
              exact ⟨rfl, rfl⟩
        · rcases h with h | h | h
          · exact absurd h1 h
          · exact absurd h2 h
          · exact absurd h3 h
      · subst hm
        refine ⟨.linkReset idx, Or.inl rfl, ?_, fun h => ?_⟩
        · rw [rrun_cons, fanEvents_nothing _ _ _ _ _ _ h1 h2 h3]
          show rWv ((setAt s.links idx l.markForRecovery).map (absSentL s.cfg.connTimeoutMs now)) = _
          rw [map_setAt_eq_modifyAt s.links idx l l.markForRecovery _ resetLink hl (absSentL_mark _ _ l).symm]
          rfl
        · rcases h with h | h | h
          · exact absurd h1 h
          · exact absurd h2 h
          · exact absurd h3 h
    · -- a plain datagram: the arrival link is stamped, then the fan-out
      subst hst
      have hfull :
          absSent (processConnectionEvents
              ({ s with links := setAt s.links idx (Uplink.stamp l now), reg := reg1 } : Sys F) idx inc now).1 now =
            rrun (absSent s now)
              (.linkState idx (usableL s.cfg.connTimeoutMs now (Uplink.stamp l now)) (live (Uplink.stamp l now).core) ::
                fanEvents (cores s.links) s.trk idx inc now) := by
        have hinv1 : All LinkInv (setAt s.links idx (Uplink.stamp l now)) := by
          intro x hx
          rcases mem_setAt _ _ _ _ hx with rfl | hm
          · exact linkInv_stamp l now (hinv l (List.mem_of_getElem? hl))
          · exact hinv x hm
        have hids : idsOf (cores (setAt s.links idx (Uplink.stamp l now))) = idsOf (cores s.links) := by
          apply List.ext_getElem?
          intro j
          unfold idsOf cores
          rw [List.map_map, List.map_map, List.getElem?_map, List.getElem?_map, ClassicRef.getElem?_setAt]
          by_cases hj : j = idx
          · subst hj; rw [if_pos rfl, hl]; rfl
          · rw [if_neg hj]
        obtain ⟨e1, -, -⟩ := processConnectionEvents_sim
          (usableAt s.cfg.connTimeoutMs now (setAt s.links idx (Uplink.stamp l now)))
          ({ s with links := setAt s.links idx (Uplink.stamp l now), reg := reg1 } : Sys F) idx inc now hclassic
          (allCore_cores _ hinv1) (by rw [length_setAt]; exact hidx)
        dsimp only at e1
        have hu := usableAt_pCE s.cfg.connTimeoutMs
          ({ s with links := setAt s.links idx (Uplink.stamp l now), reg := reg1 } : Sys F) idx inc now
        dsimp only at hu
        rw [absSent_eq_absFrom]
        show absFrom (usableAt s.cfg.connTimeoutMs now _) 0 _ = _
        rw [hu, e1, rrun_cons]
        have hs1 := absSent_eq_absFrom
          ({ s with links := setAt s.links idx (Uplink.stamp l now), reg := reg1 } : Sys F) now
        dsimp only at hs1
        rw [← hs1]
        have hfan : fanEvents (cores (setAt s.links idx (Uplink.stamp l now))) s.trk idx inc now =
            fanEvents (cores s.links) s.trk idx inc now := by
          unfold fanEvents
          congr 1
          apply List.map_congr_left
          intro n _
          rw [rememberedM_ids _ _ s.trk n now hids]
        rw [hfan]
        congr 1
        show (setAt s.links idx (Uplink.stamp l now)).map (absSentL s.cfg.connTimeoutMs now) = _
        exact map_setAt_eq_modifyAt s.links idx l (Uplink.stamp l now) _ _ hl rfl
      exact ⟨_, Or.inr ⟨_, _, rfl⟩, by rw [hfull], fun _ => hfull⟩


/-- **The uplink arm against the reference machine.**  Either nothing changes (empty datagram, unknown
link), or, with `idx` the arrival link and `inc` what `process_uplink_packet` parsed: the window/live
vector after the event is that of the reference machine run from `absSent s now` on one environment
event for the arrival link (`linkReset` for REG_ERR, otherwise `linkState`) followed by `fanEvents`;
and for a datagram that carries cumulative ACKs, SRTLA ACKs or NAKs the WHOLE machine state agrees. -/
theorem uplink_sim (s : Sys F) (cid : Nat) (data : List UInt8) (now : Nat)
    (hclassic : s.cfg.classic = true) (hinv : All LinkInv s.links) :
    (handleUplinkPacket s cid data now).1 = s ∨
    ∃ idx l env, s.links.findIdx? (·.core.connId == cid) = some idx ∧ s.links[idx]? = some l ∧ IsEnv idx env ∧
      rWv (absSent (handleUplinkPacket s cid data now).1 now) =
        rWv (rrun (absSent s now)
          (env :: fanEvents (cores s.links) s.trk idx (processUplinkPacket l idx s.reg s.clientKnown data now).2.2 now)) ∧
      (((processUplinkPacket l idx s.reg s.clientKnown data now).2.2.acks ≠ [] ∨
        (processUplinkPacket l idx s.reg s.clientKnown data now).2.2.sacks ≠ [] ∨
        (processUplinkPacket l idx s.reg s.clientKnown data now).2.2.naks ≠ []) →
        absSent (handleUplinkPacket s cid data now).1 now =
          rrun (absSent s now)
            (env :: fanEvents (cores s.links) s.trk idx (processUplinkPacket l idx s.reg s.clientKnown data now).2.2 now)) := by
  by_cases hne : data = []
  · left; subst hne; simp [handleUplinkPacket]
  cases hf : s.links.findIdx? (·.core.connId == cid) with
  | none => left; rw [Uplink.unknown_link s cid data now hf]
  | some idx =>
    right
    obtain ⟨l, hl, -⟩ := Uplink.findIdx_get s.links cid idx hf
    obtain ⟨env, h1, h2, h3⟩ := uplink_sim_at s cid data now hclassic hinv hne idx l hf hl
    refine ⟨idx, l, env, rfl, hl, h1, ?_, ?_⟩
    · rw [Uplink.processUplinkPacket_eq]; exact h2
    · rw [Uplink.processUplinkPacket_eq]; exact h3

end scalar

/-! ## 7. Windows under environment resets; the client, flush and housekeeping arms -/

theorem rstep_tick (st : RState) : (rstep st .tick).1 = st := by
  show st.map (fun l => { l with window := refTick l.window }) = st
  have : (fun l : RLink => ({ l with window := refTick l.window } : RLink)) = id := rfl
  rw [this, List.map_id]

theorem rWindows_regPkt (st : RState) (sq : Int) (i : Nat) : rWindows (modifyAt (regPkt sq) st i) = rWindows st := by
  apply List.ext_getElem?
  intro j
  unfold rWindows
  rw [List.getElem?_map, List.getElem?_map, getElem?_modifyAt]
  by_cases hj : j = i
  · rw [if_pos hj]
    cases st[j]? with
    | none => rfl
    | some l =>
      dsimp only [Option.map]
      congr 1
      unfold regPkt
      split <;> rfl
  · rw [if_neg hj]

/-- `route` outputs `select_conn`'s choice and moves no window. -/
theorem rstep_route (st : RState) (seq : Option Int) :
    (rstep st (.route seq)).2 = refSelect (st.map RLink.view) ∧
    rWindows (rstep st (.route seq)).1 = rWindows st := by
  show (match refSelect (st.map RLink.view) with
    | some i => ((match seq with | some sq => modifyAt (regPkt sq) st i | none => st), some i)
    | none => (st, none)).2 = _ ∧ rWindows (match refSelect (st.map RLink.view) with
    | some i => ((match seq with | some sq => modifyAt (regPkt sq) st i | none => st), some i)
    | none => (st, none)).1 = _
  cases refSelect (st.map RLink.view) with
  | none => exact ⟨rfl, rfl⟩
  | some i =>
    cases seq with
    | none => exact ⟨rfl, rfl⟩
    | some sq => exact ⟨rfl, rWindows_regPkt st sq i⟩

theorem getElem?_rWindows_resets (js : List Nat) (st : RState) (p : Nat) :
    (rWindows (rrun st (js.map REv.linkReset)))[p]? =
      (st[p]?).map fun l => if p ∈ js then 20000 else l.window := by
  induction js generalizing st with
  | nil => unfold rWindows rrun; simp
  | cons j rest ih =>
    rw [List.map_cons, rrun_cons]
    show (rWindows (rrun (modifyAt resetLink st j) (rest.map REv.linkReset)))[p]? = _
    rw [ih, getElem?_modifyAt]
    by_cases hp : p = j
    · subst hp
      rw [if_pos rfl]
      cases st[p]? with
      | none => rfl
      | some l =>
        dsimp only [Option.map]
        congr 1
        have : p ∈ p :: rest := List.mem_cons_self
        rw [if_pos this]
        split <;> rfl
    · rw [if_neg hp]
      cases st[p]? with
      | none => rfl
      | some l =>
        dsimp only [Option.map]
        congr 1
        by_cases hr : p ∈ rest
        · rw [if_pos hr, if_pos (List.mem_cons_of_mem _ hr)]
        · have : ¬ p ∈ j :: rest := by
            intro h
            rcases List.mem_cons.1 h with h | h
            · exact hp h
            · exact hr h
          rw [if_neg hr, if_neg this]

theorem getElem?_rWindows_reset (st : RState) (i j : Nat) :
    (rWindows (rstep st (.linkReset i)).1)[j]? =
      if j = i then ((rWindows st)[j]?).map (fun _ => 20000) else (rWindows st)[j]? := by
  show (rWindows (modifyAt resetLink st i))[j]? = _
  unfold rWindows
  rw [List.getElem?_map, List.getElem?_map, getElem?_modifyAt]
  by_cases hj : j = i
  · rw [if_pos hj, if_pos hj]
    cases st[j]? <;> rfl
  · rw [if_neg hj, if_neg hj]

/-- A window vector that differs from the machine's only by links that went to the initial window 20000
is the machine's after `linkReset` environment events on exactly those links. -/
theorem exists_resets (st : RState) (ws' : List Int) (Q : Nat → Prop) (hlen : ws'.length = st.length)
    (h : ∀ (j : Nat) l w', st[j]? = some l → ws'[j]? = some w' → w' = l.window ∨ (w' = 20000 ∧ Q j)) :
    ∃ resets : List Nat, (∀ j ∈ resets, j < st.length ∧ Q j) ∧
      ws' = rWindows (rrun st (resets.map REv.linkReset)) := by
  obtain ⟨R, hR⟩ : ∃ R : List Nat, ∀ j, j ∈ R ↔ (j < st.length ∧ ws'[j]? ≠ (st[j]?).map (·.window)) :=
    ⟨(List.range st.length).filter (fun j => ws'[j]? != (st[j]?).map (·.window)), fun j => by
      rw [List.mem_filter, List.mem_range]; simp⟩
  refine ⟨R, ?_, ?_⟩
  · intro j hj
    obtain ⟨hlt, hne⟩ := (hR j).1 hj
    refine ⟨hlt, ?_⟩
    have h1 : st[j]? = some st[j] := List.getElem?_eq_getElem hlt
    have h2 : ws'[j]? = some (ws'[j]'(by omega)) := List.getElem?_eq_getElem (by omega)
    rcases h j _ _ h1 h2 with e | ⟨-, q⟩
    · rw [h1, h2, e] at hne; simp at hne
    · exact q
  · apply List.ext_getElem?
    intro p
    rw [getElem?_rWindows_resets]
    cases hp : st[p]? with
    | none =>
      apply List.getElem?_eq_none
      rw [hlen]
      exact List.getElem?_eq_none_iff.1 hp
    | some l =>
      have hlt : p < st.length := (List.getElem?_eq_some_iff.1 hp).1
      have h2 : ws'[p]? = some (ws'[p]'(by omega)) := List.getElem?_eq_getElem (by omega)
      rw [h2]
      dsimp only [Option.map]
      congr 1
      by_cases hm : p ∈ R
      · rw [if_pos hm]
        have hne := ((hR p).1 hm).2
        rcases h p _ _ hp h2 with e | ⟨e, -⟩
        · rw [hp, h2, e] at hne; simp at hne
        · exact e
      · rw [if_neg hm]
        have : ¬ (ws'[p]? ≠ (st[p]?).map (·.window)) := fun hne => hm ((hR p).2 ⟨hlt, hne⟩)
        rw [hp, h2] at this
        simpa using this

section scalar
variable {F : Type} [Scalar F]

theorem length_absSent (s : Sys F) (now : Nat) : (absSent s now).length = s.links.length := by
  unfold absSent; exact List.length_map _

theorem getElem?_absSent (s : Sys F) (now : Nat) (j : Nat) :
    (absSent s now)[j]? = (s.links[j]?).map (absSentL s.cfg.connTimeoutMs now) := by
  unfold absSent; exact List.getElem?_map

/-- Bridge from a position-wise statement about the links to the machine's window vector. -/
theorem windows_resets_of_pw (s : Sys F) (now : Nat) (ls' : List (FLink F)) (Q : Nat → Prop)
    (hlen : ls'.length = s.links.length)
    (h : ∀ (j : Nat) l, s.links[j]? = some l → ∃ l', ls'[j]? = some l' ∧
      (l'.core.window = l.core.window ∨ (l'.core.window = 20000 ∧ Q j))) :
    ∃ resets : List Nat, (∀ j ∈ resets, j < s.links.length ∧ Q j) ∧
      ls'.map (·.core.window) = rWindows (rrun (absSent s now) (resets.map REv.linkReset)) := by
  have := exists_resets (absSent s now) (ls'.map (·.core.window)) Q
    (by rw [List.length_map, length_absSent, hlen]) (by
      intro j rl w' hrl hw'
      rw [getElem?_absSent] at hrl
      cases hl : s.links[j]? with
      | none => rw [hl] at hrl; cases hrl
      | some l =>
        rw [hl] at hrl
        obtain ⟨l', hl', hw⟩ := h j l hl
        rw [List.getElem?_map, hl'] at hw'
        cases hrl; cases hw'
        exact hw)
  rw [length_absSent] at this
  exact this

/-- **The periodic flush against the reference machine**: no reference event; no window moves. -/
theorem flush_sim (s : Sys F) (now : Nat) :
    windowsOf (flushAllBatches s now).1 = rWindows (rrun (absSent s now) []) := by
  obtain ⟨hlen, hpw⟩ := flushAllBatches_PW s now
  show _ = rWindows (absSent s now)
  rw [rWindows_absSent]
  apply List.ext_getElem?
  intro j
  unfold windowsOf
  rw [List.getElem?_map, List.getElem?_map]
  cases hl : s.links[j]? with
  | none =>
    have : (flushAllBatches s now).1.links[j]? = none := by
      apply List.getElem?_eq_none
      rw [← hlen]
      exact List.getElem?_eq_none_iff.1 hl
    rw [this]
  | some l =>
    obtain ⟨l', hl', hw, -⟩ := hpw j l hl
    rw [hl']
    simp [hw]

/-- **A housekeeping tick against the reference machine** (classic mode): the reference's `tick` does
nothing; the only windows that move are those of links torn down for a reconnect attempt (environment
`linkReset`: window 20000, disconnected, registering). -/
theorem hk_sim (s : Sys F) (now : Nat) (hc : s.cfg.classic = true) :
    ∃ resets : List Nat,
      (∀ j ∈ resets, j < s.links.length ∧ ∃ l', (handleHousekeeping s now).1.links[j]? = some l' ∧
        l'.core.window = 20000 ∧ l'.core.connected = false ∧ l'.core.phase = .registering) ∧
      windowsOf (handleHousekeeping s now).1 =
        rWindows (rrun (absSent s now) (.tick :: resets.map REv.linkReset)) := by
  obtain ⟨hlen, hpw⟩ := handleHousekeeping_PW s now hc
  obtain ⟨resets, h1, h2⟩ := windows_resets_of_pw s now (handleHousekeeping s now).1.links
    (fun j => ∃ l', (handleHousekeeping s now).1.links[j]? = some l' ∧
        l'.core.window = 20000 ∧ l'.core.connected = false ∧ l'.core.phase = .registering) hlen.symm (by
      intro j l hl
      obtain ⟨l', hl', hr⟩ := hpw j l hl
      refine ⟨l', hl', ?_⟩
      rcases hr with ⟨hw, -⟩ | ⟨hw, hcn, hph, -, -⟩
      · exact Or.inl hw
      · exact Or.inr ⟨hw, l', hl', hw, hcn, hph⟩)
  refine ⟨resets, h1, ?_⟩
  rw [rrun_cons, rstep_tick]
  exact h2

/-- **A client datagram against the reference machine** (classic mode, guard off, registered, score
domain): the machine's `route` on `absRoute` outputs `refSelect (refView s now)` — which is where the
shell puts the datagram (`Props.C10.C10_choice`) — and the windows afterwards are the machine's, or —
only when the batch flush this datagram triggered on the chosen link hit the injected socket error — the
machine's after the environment tears that link down. -/
theorem client_sim (s : Sys F) (pkt : List UInt8) (now : Nat)
    (hclassic : s.cfg.classic = true) (hguard : s.cfg.stallDeselect = false)
    (hreg : s.reg.hasConnected = true) (hpkt : pkt ≠ [])
    (hdom : ∀ l ∈ s.links, 0 ≤ l.core.inFlight ∧ l.core.inFlight + l.queue.length + 1 ≤ 2147483647) :
    (rstep (absRoute s now) (.route ((Codec.getSrtSequenceNumberS pkt).map toI32))).2 = refSelect (refView s now) ∧
    classicSelect ((s.links.map FLink.toSLink).map (guardOff s.cfg)) now = refSelect (refView s now) ∧
    (windowsOf (handleSrtPacket s pkt now).1 =
        rWindows (rstep (absRoute s now) (.route ((Codec.getSrtSequenceNumberS pkt).map toI32))).1 ∨
     ∃ i l, refSelect (refView s now) = some i ∧ s.links[i]? = some l ∧
       l.regime.batchSize ≤ l.queue.length + 1 ∧ s.failNext.contains l.core.connId = true ∧
       windowsOf (handleSrtPacket s pkt now).1 =
         rWindows (rstep (rstep (absRoute s now) (.route ((Codec.getSrtSequenceNumberS pkt).map toI32))).1
           (.linkReset i)).1) := by
  obtain ⟨r1, r2⟩ := rstep_route (absRoute s now) ((Codec.getSrtSequenceNumberS pkt).map toI32)
  rw [absRoute_view] at r1
  have hdom' : ∀ c ∈ (s.links.map FLink.toSLink).map (guardOff s.cfg), ScoreDom c.inFlight c.queued := by
    intro c hc
    rw [List.map_map] at hc
    obtain ⟨l, hl, rfl⟩ := List.mem_map.1 hc
    obtain ⟨h0, h1⟩ := hdom l hl
    exact ⟨h0, Int.natCast_nonneg _, h1⟩
  have hsel : classicSelect ((s.links.map FLink.toSLink).map (guardOff s.cfg)) now = refSelect (refView s now) := by
    rw [classicSelect_eq_refSelect _ _ hdom']
    congr 1
    rw [List.map_map, List.map_map]
    exact List.map_congr_left fun l _ => toRef_guardOff s.cfg now l
  refine ⟨r1, hsel, ?_⟩
  have hstep := handleSrtPacket_classic s pkt now hclassic hguard hreg hpkt
  rw [hsel] at hstep
  have hwin0 : (s.links.map (clearGuard s.cfg)).map (·.core.window) = windowsOf s := by
    unfold windowsOf; rw [List.map_map]; rfl
  have r2' := r2.trans (rWindows_absRoute s now)
  rw [r2']
  cases hsl : refSelect (refView s now) with
  | none =>
    left
    rw [hsl] at hstep
    rw [hstep]
    exact hwin0
  | some i =>
    rw [hsl] at hstep
    try dsimp only at hstep
    cases hli : s.links[i]? with
    | none =>
      left
      have hl' : (s.links.map (clearGuard s.cfg))[i]? = none := by rw [List.getElem?_map, hli]; rfl
      have e : forwardVia { s with links := s.links.map (clearGuard s.cfg) } i pkt
          (Codec.getSrtSequenceNumberS pkt) now = ({ s with links := s.links.map (clearGuard s.cfg) }, {}) := by
        unfold forwardVia; simp only [hl']
      rw [hstep, e]
      exact hwin0
    | some l =>
      have hl' : (s.links.map (clearGuard s.cfg))[i]? = some (clearGuard s.cfg l) := by
        rw [List.getElem?_map, hli]; rfl
      obtain ⟨l', wire, fn, trk, e, hland, -⟩ :=
        forwardVia_cases { s with links := s.links.map (clearGuard s.cfg) } i pkt
          (Codec.getSrtSequenceNumberS pkt) now _ hl'
      rw [hstep, e]
      show (setAt (s.links.map (clearGuard s.cfg)) i l').map (·.core.window) = _ ∨
        ∃ i0 l0, _ ∧ _ ∧ _ ∧ _ ∧ (setAt (s.links.map (clearGuard s.cfg)) i l').map (·.core.window) = _
      have hsame : l'.core.window = l.core.window →
          (setAt (s.links.map (clearGuard s.cfg)) i l').map (·.core.window) = windowsOf s := by
        intro hw
        rw [← hwin0]
        apply List.ext_getElem?
        intro j
        rw [List.getElem?_map, List.getElem?_map, ClassicRef.getElem?_setAt]
        by_cases hj : j = i
        · subst hj; rw [if_pos rfl, hl']; simp [hw, clearGuard]
        · rw [if_neg hj]
      rcases hland with ⟨-, -, hc, -⟩ | ⟨-, -, -, hw, -, -⟩ | ⟨hb, hfail, -, hw, -, -, -⟩
      · left; exact hsame (by rw [hc]; rfl)
      · left; exact hsame (by rw [hw]; rfl)
      · right
        refine ⟨i, l, rfl, hli, by simpa [clearGuard] using hb, hfail, ?_⟩
        apply List.ext_getElem?
        intro j
        rw [getElem?_rWindows_reset, r2']
        unfold windowsOf
        rw [List.getElem?_map, List.getElem?_map, ClassicRef.getElem?_setAt]
        by_cases hj : j = i
        · subst hj
          rw [if_pos rfl, if_pos rfl, hl', hli]
          simp [hw]
        · rw [if_neg hj, if_neg hj, List.getElem?_map]
          cases s.links[j]? <;> rfl

end scalar

/-! ## 8. What holds along every classic run: invariant, mode, registration, score domain -/

section scalar
variable {F : Type} [Scalar F]

/-- The accounting invariant together with a bound on what the selector's divisor can be:
logged in-flight + queued `≤ B`. -/
def PotInv (B : Nat) (l : FLink F) : Prop :=
  LinkInv l ∧ l.core.inFlight + (l.queue.length : Int) ≤ (B : Int)

theorem specRegister_length (k : List Int) (s : Int) : (specRegister k s).length ≤ k.length + 1 := by
  unfold specRegister
  split
  · omega
  · simp

theorem foldl_regFold_keys_length (q : List QItem) (c : Conn) :
    (q.foldl Hk.regFold c).keys.length ≤ c.keys.length + q.length := by
  induction q generalizing c with
  | nil => simp
  | cons it rest ih =>
    simp only [List.foldl_cons, List.length_cons]
    have h1 := ih (Hk.regFold c it)
    have h2 : (Hk.regFold c it).keys.length ≤ c.keys.length + 1 := by
      unfold Hk.regFold
      split
      · rw [register_keys]; exact specRegister_length _ _
      · omega
    omega

theorem potInv_take (B : Nat) (now : Nat) (l : FLink F) (h : PotInv B l) : PotInv B (l.takeBatch now).1 := by
  obtain ⟨hi, hb⟩ := h
  have hi' := linkInv_take now l hi
  refine ⟨hi', ?_⟩
  have hc' := hi'.log.count
  have hc := hi.log.count
  rw [Hk.takeBatch_eq] at hc' ⊢
  split
  · rename_i he
    exact hb
  · rename_i he
    rw [if_neg he] at hc'
    have hc'' : (l.queue.foldl Hk.regFold l.core).inFlight =
        ((l.queue.foldl Hk.regFold l.core).keys.length : Int) := hc'
    show (l.queue.foldl Hk.regFold l.core).inFlight + ((([] : List QItem).length : Nat) : Int) ≤ B
    have := foldl_regFold_keys_length l.queue l.core
    simp only [List.length_nil]
    omega

theorem filter_length_le_int (k : List Int) (p : Int → Bool) : ((k.filter p).length : Int) ≤ (k.length : Int) := by
  have := List.length_filter_le p k
  omega

theorem potInv_core_le (B : Nat) (l : FLink F) (c' : Conn) (h : PotInv B l)
    (hi' : LinkInv ({ l with core := c' } : FLink F)) (hk : c'.keys.length ≤ l.core.keys.length) :
    PotInv B ({ l with core := c' } : FLink F) := by
  refine ⟨hi', ?_⟩
  have h1 := hi'.log.count
  have h2 := h.1.log.count
  have h3 := h.2
  show c'.inFlight + (l.queue.length : Int) ≤ B
  have : c'.inFlight = (c'.keys.length : Int) := h1
  omega

/-- `PotInv B` survives every per-link operation of the uplink, flush and housekeeping arms (every arm
but `client`, whose `queue_data_packet` is what raises the bound). -/
theorem potInv_closed (B : Nat) (now : Nat) (arm : Arm) (classic : Bool) (hne : arm ≠ .client) :
    Closed now arm classic (PotInv (F := F) B) where
  soft := fun l l' hs h => ⟨linkInv_soft now l l' hs h.1, by rw [hs.inFlight, hs.queue]; exact h.2⟩
  queue := fun ha => absurd ha hne
  take := fun _ l h => potInv_take B now l h
  mark := fun _ l _ => ⟨linkInv_mark l, by
    show (0 : Int) + ((([] : List QItem).length : Nat) : Int) ≤ B
    simp⟩
  reconnect := fun _ l _ => ⟨linkInv_reconnect now l, by
    show (0 : Int) + ((([] : List QItem).length : Nat) : Int) ≤ B
    simp⟩
  reg3 := fun _ l h => ⟨linkInv_reg3 now l h.1, by
    show (0 : Int) + ((([] : List QItem).length : Nat) : Int) ≤ B
    simp⟩
  recover := fun _ _ l h => ⟨linkInv_recover now l h.1, h.2⟩
  srtAck := fun _ l a h => by
    have hi' := linkInv_srtAck now l a h.1
    refine ⟨hi', ?_⟩
    have hc := Uplink.core_srtAck l a now
    have hq : (l.srtAck a now).queue = l.queue := by
      unfold FLink.srtAck; dsimp only; split <;> rfl
    have h1 := hi'.log.count
    rw [hc] at h1
    rw [hc, hq, h1, srtAck_keys l.core a now h.1.log]
    have h2 := h.1.log.count
    have h3 := h.2
    have := filter_length_le_int l.core.keys (fun s => decide (s > a))
    unfold specCumAck
    omega
  sack := fun _ l seq h => by
    apply potInv_core_le B l _ h (linkInv_sack now l seq classic h.1)
    rw [srtlaAck_keys]
    exact List.length_filter_le _ _
  gack := fun _ l h => by
    apply potInv_core_le B l _ h (linkInv_gack l h.1)
    rw [(ackGlobal_keys l.core).1]
    exact Nat.le_refl _
  nak := fun _ l seq h => by
    apply potInv_core_le B l _ h (linkInv_nak now l seq h.1)
    rw [nak_keys]
    exact List.length_filter_le _ _
  select := fun ha => absurd ha hne
  fresh := fun _ id a => ⟨linkInv_newUplink id a now, by
    show (0 : Int) + ((([] : List QItem).length : Nat) : Int) ≤ B
    simp⟩

theorem potInv_mono {B B' : Nat} (hB : B ≤ B') (l : FLink F) (h : PotInv B l) : PotInv B' l :=
  ⟨h.1, by have := h.2; omega⟩

/-- One datagram forwarded on a link raises the bound by at most one. -/
theorem potInv_fwdLink (B : Nat) (now : Nat) (l : FLink F) (pkt : List UInt8) (seq : Option Nat) (fn : List Nat)
    (hs : SeqOk seq) (h : PotInv B l) : PotInv (B + 1) (Hk.fwdLink fa l pkt seq now fn).1 := by
  have h1 : PotInv (B + 1) (l.queueDataPacket pkt seq now).1 := by
    refine ⟨linkInv_queue now l pkt seq hs h.1, ?_⟩
    show l.core.inFlight + (((l.queue ++ [(pkt, seq, now)]).length : Nat) : Int) ≤ ((B + 1 : Nat) : Int)
    have := h.2
    simp only [List.length_append, List.length_cons, List.length_nil]
    omega
  unfold Hk.fwdLink
  split
  · dsimp only
    rw [(Hk.sendBatch_cases _ now fn).1]
    split
    · exact potInv_take (B + 1) now _ h1
    · exact ⟨linkInv_mark _, by
        show (0 : Int) + ((([] : List QItem).length : Nat) : Int) ≤ ((B + 1 : Nat) : Int)
        simp; omega⟩
  · exact h1

theorem potInv_clearGuard (B : Nat) (cfg : Select.Cfg) (l : FLink F) (h : PotInv B l) : PotInv B (clearGuard cfg l) :=
  ⟨⟨h.1.log, h.1.wlo, h.1.whi, h.1.inf, h.1.queue⟩, h.2⟩

/-- A classic-mode client event raises the bound by at most one. -/
theorem potInv_client (B : Nat) (s : Sys F) (pkt : List UInt8) (now : Nat)
    (hclassic : s.cfg.classic = true) (hguard : s.cfg.stallDeselect = false) (hreg : s.reg.hasConnected = true)
    (h : All (PotInv B) s.links) : All (PotInv (B + 1)) (handleSrtPacket s pkt now).1.links := by
  by_cases hpkt : pkt = []
  · subst hpkt
    have : handleSrtPacket s [] now = (s, {}) := by unfold handleSrtPacket; simp
    rw [this]
    exact fun l hl => potInv_mono (Nat.le_succ B) l (h l hl)
  have hcg : All (PotInv B) (s.links.map (clearGuard s.cfg)) := by
    intro l hl
    obtain ⟨x, hx, rfl⟩ := List.mem_map.1 hl
    exact potInv_clearGuard B s.cfg x (h x hx)
  rw [handleSrtPacket_classic s pkt now hclassic hguard hreg hpkt]
  cases classicSelect ((s.links.map FLink.toSLink).map (guardOff s.cfg)) now with
  | none => exact fun l hl => potInv_mono (Nat.le_succ B) l (hcg l hl)
  | some i =>
    show All (PotInv (B + 1)) (forwardVia { s with links := s.links.map (clearGuard s.cfg) } i pkt
      (Codec.getSrtSequenceNumberS pkt) now).1.links
    cases hl : (s.links.map (clearGuard s.cfg))[i]? with
    | none =>
      rw [Hk.forwardVia_none _ i pkt _ now hl]
      exact fun l hl => potInv_mono (Nat.le_succ B) l (hcg l hl)
    | some l =>
      rw [(Hk.forwardVia_eq _ i pkt _ now l hl).1]
      intro x hx
      rcases mem_setAt _ _ _ _ hx with rfl | hm
      · exact potInv_fwdLink B now l pkt _ _ (seqOk_packet pkt) (hcg l (List.mem_of_getElem? hl))
      · exact potInv_mono (Nat.le_succ B) x (hcg x hm)

/-- What a classic run keeps: the accounting invariant, the bound `B` on logged + queued, the mode, and
`has_connected`. -/
structure RunInv (B : Nat) (s : Sys F) : Prop where
  pot : All (PotInv B) s.links
  classic : s.cfg.classic = true
  guard : s.cfg.stallDeselect = false
  reg : s.reg.hasConnected = true

/-- The event does not switch the mode: a configuration reload keeps classic mode with the guard off. -/
def KeepsMode : Ev → Prop
  | .setCfg cfg => cfg.classic = true ∧ cfg.stallDeselect = false
  | _ => True

theorem runInv_step (B : Nat) (s : Sys F) (e : Ev) (h : RunInv B s) (hm : KeepsMode e) :
    RunInv (B + 1) (step s e).1 := by
  have hup : All (PotInv B) (step s e).1.links → All (PotInv (B + 1)) (step s e).1.links :=
    fun hh l hl => potInv_mono (Nat.le_succ B) l (hh l hl)
  cases e with
  | client now pkt =>
    obtain ⟨-, hr, hc⟩ := Hk.client_pw s pkt now
    exact ⟨potInv_client B s pkt now h.classic h.guard h.reg h.pot, by show (handleSrtPacket s pkt now).1.cfg.classic = true; rw [hc]; exact h.classic,
      by show (handleSrtPacket s pkt now).1.cfg.stallDeselect = false; rw [hc]; exact h.guard,
      by show (handleSrtPacket s pkt now).1.reg.hasConnected = true; rw [hr]; exact h.reg⟩
  | uplink now cid data =>
    obtain ⟨-, -, hr, -, hc⟩ := Hk.uplink_links s cid data now
    refine ⟨hup (step_all s _ (fun arm ha => potInv_closed B _ arm _ (by cases ha; decide)) h.pot), ?_, ?_, hr h.reg⟩
    · show (handleUplinkPacket s cid data now).1.cfg.classic = true; rw [hc]; exact h.classic
    · show (handleUplinkPacket s cid data now).1.cfg.stallDeselect = false; rw [hc]; exact h.guard
  | flush now =>
    obtain ⟨-, hr, hc⟩ := Hk.flush_pw false none s now
    refine ⟨hup (step_all s _ (fun arm ha => potInv_closed B _ arm _ (by cases ha; decide)) h.pot), ?_, ?_, ?_⟩
    · show (flushAllBatches s now).1.cfg.classic = true; rw [hc]; exact h.classic
    · show (flushAllBatches s now).1.cfg.stallDeselect = false; rw [hc]; exact h.guard
    · show (flushAllBatches s now).1.reg.hasConnected = true; rw [hr]; exact h.reg
  | hk now =>
    have hc := (Hk.hk_eq s now).2.2.2.1
    refine ⟨hup (step_all s _ (fun arm ha => potInv_closed B _ arm _ (by cases ha; decide)) h.pot), ?_, ?_, ?_⟩
    · show (handleHousekeeping s now).1.cfg.classic = true; rw [hc]; exact h.classic
    · show (handleHousekeeping s now).1.cfg.stallDeselect = false; rw [hc]; exact h.guard
    · show (handleHousekeeping s now).1.reg.hasConnected = true; rw [Hk.hk_hasConnected]; exact h.reg
  | setCfg cfg => exact ⟨hup h.pot, hm.1, hm.2, h.reg⟩
  | crit d => exact ⟨hup h.pot, h.classic, h.guard, h.reg⟩
  | failNext c => exact ⟨hup h.pot, h.classic, h.guard, h.reg⟩
  | failAfter c kfa => exact ⟨hup h.pot, h.classic, h.guard, h.reg⟩
  | failBind c => exact ⟨hup h.pot, h.classic, h.guard, h.reg⟩
  | stamp idx weak ld ccb cct =>
    -- the verdict stamps are outside the accounting view; the hk arm's `Closed.soft` carries them
    exact ⟨hup (step_all s _ (fun arm ha => potInv_closed B _ arm _ (by cases ha; decide)) h.pot),
      h.classic, h.guard, h.reg⟩
  | syncTimeout =>
    exact ⟨hup (step_all s _ (fun arm ha => potInv_closed B _ arm _ (by cases ha; decide)) h.pot),
      h.classic, h.guard, h.reg⟩
  | reload now addrs outs =>
    -- retained links keep their record, new links start with an empty log and queue
    exact ⟨hup (step_all s _ (fun arm ha => potInv_closed B _ arm _ (by cases ha; decide)) h.pot),
      h.classic, h.guard, h.reg⟩

/-- The states of a run: the left fold of `step` (`Sys.run … .1` is this fold: `SysLevel.run_eq_foldl`). -/
def runS (s : Sys F) (evs : List Ev) : Sys F := evs.foldl (fun s e => (step s e).1) s

theorem runS_append (s : Sys F) (a b : List Ev) : runS s (a ++ b) = runS (runS s a) b := by
  unfold runS; rw [List.foldl_append]

theorem runInv_run (B : Nat) (s : Sys F) (evs : List Ev) (h : RunInv B s) (hm : ∀ e ∈ evs, KeepsMode e) :
    RunInv (B + evs.length) (runS s evs) := by
  induction evs generalizing s B with
  | nil => exact h
  | cons e rest ih =>
    have := ih (B + 1) (step s e).1 (runInv_step B s e h (hm e List.mem_cons_self))
      (fun x hx => hm x (List.mem_cons_of_mem _ hx))
    have e1 : B + (e :: rest).length = B + 1 + rest.length := by simp; omega
    rw [e1]
    exact this

/-- The score domain of `C10_choice` from the run invariant. -/
theorem runInv_dom (B : Nat) (s : Sys F) (h : RunInv B s) (hB : B + 1 ≤ 2147483647) :
    ∀ l ∈ s.links, 0 ≤ l.core.inFlight ∧ l.core.inFlight + l.queue.length + 1 ≤ 2147483647 := by
  intro l hl
  obtain ⟨hi, hb⟩ := h.pot l hl
  exact ⟨hi.inf, by omega⟩

end scalar

/-! ## 9. The machine's window vector in the `refSackEvent` / `refNakEvent` vocabulary: who earns, who is charged -/

/-- The `earned` argument of `refSackEvent` for one SRTLA-acknowledged number: the holder (arrival link
first, otherwise the first holder in list order) together with its in-flight count AFTER the
acknowledged packet is removed; `none` if no link holds the number. -/
def earnedOf (st : RState) (onLink : Nat) (seq : Int) : Option (Nat × Int) :=
  match holder st onLink seq with
  | some k =>
    match st[k]? with
    | some l => some (k, l.inFlight - 1)
    | none => none
  | none => none

/-- The `earned` arguments of a whole SRTLA ACK datagram, number by number, each computed in the state
the previous numbers left. -/
def sackEs (onLink : Nat) : RState → List Int → List (Option (Nat × Int))
  | _, [] => []
  | st, a :: rest => earnedOf st onLink a :: sackEs onLink (rSackOne st onLink a) rest

/-- The links charged by a list of NAKs (`(number, what the sender remembers)`), in order; a NAK nobody is
charged for contributes nothing. -/
def nakNs : RState → List (Int × Option Nat) → List Nat
  | _, [] => []
  | st, (a, r) :: rest =>
    match nakTarget st a r with
    | some k => k :: nakNs (rNak st a r) rest
    | none => nakNs (rNak st a r) rest

theorem rWv_modifyAt (f : RLink → RLink) (g : Int → Int) (st : RState) (k : Nat)
    (h : ∀ l, st[k]? = some l → (f l).window = g l.window ∧ (f l).live = l.live) :
    rWv (modifyAt f st k) = applyAt g (rWv st) k := by
  induction st generalizing k with
  | nil => cases k <;> rfl
  | cons l rest ih =>
    cases k with
    | zero =>
      obtain ⟨h1, h2⟩ := h l rfl
      show ((f l).window, (f l).live) :: rWv rest = (g l.window, l.live) :: rWv rest
      rw [h1, h2]
    | succ k =>
      show (l.window, l.live) :: rWv (modifyAt f rest k) = (l.window, l.live) :: applyAt g (rWv rest) k
      rw [ih k (fun x hx => h x (by simpa using hx))]

theorem rWv_map_globalInc (st : RState) :
    rWv (st.map globalInc) = (rWv st).map fun p => if p.2 then (refGlobal p.1, p.2) else p := by
  unfold rWv
  rw [List.map_map, List.map_map]
  apply List.map_congr_left
  intro l _
  simp only [Function.comp]
  unfold globalInc
  by_cases hl : l.live = true
  · rw [if_pos hl]; simp [hl]
  · rw [if_neg hl]; simp [hl]

/-- One SRTLA-acknowledged number on the machine IS one `refSackEvent` on its window vector, with the
holder named by `earnedOf`. -/
theorem rWv_rSackOne (st : RState) (onLink : Nat) (seq : Int) :
    rWv (rSackOne st onLink seq) = refSackEvent (rWv st) (earnedOf st onLink seq) := by
  unfold rSackOne refSackEvent earnedOf
  dsimp only
  rw [rWv_map_globalInc]
  congr 1
  cases holder st onLink seq with
  | none => rfl
  | some k =>
    dsimp only
    cases hk : st[k]? with
    | none =>
      dsimp only
      congr 1
      apply List.ext_getElem?
      intro j
      rw [getElem?_modifyAt]
      by_cases hj : j = k
      · subst hj; rw [if_pos rfl, hk]; rfl
      · rw [if_neg hj]
    | some l =>
      dsimp only
      exact rWv_modifyAt (earn seq) (fun w => refAck w (l.inFlight - 1)) st k (fun x hx => by
        rw [hk] at hx; cases hx; exact ⟨rfl, rfl⟩)

/-- One NAK on the machine is one `refNakEvent` on the charged link, or nothing. -/
theorem rWv_rNak (st : RState) (seq : Int) (rem : Option Nat) :
    rWv (rNak st seq rem) =
      match nakTarget st seq rem with
      | some k => refNakEvent (rWv st) k
      | none => rWv st := by
  unfold rNak
  cases nakTarget st seq rem with
  | none => rfl
  | some k =>
    dsimp only
    exact rWv_modifyAt (charge seq) refNak st k (fun x _ => ⟨rfl, rfl⟩)

theorem rWv_sacks (onLink : Nat) (seqs : List Int) (st : RState) :
    rWv (seqs.foldl (fun s a => rSackOne s onLink a) st) = (sackEs onLink st seqs).foldl refSackEvent (rWv st) ∧
    (sackEs onLink st seqs).length = seqs.length := by
  induction seqs generalizing st with
  | nil => exact ⟨rfl, rfl⟩
  | cons a rest ih =>
    obtain ⟨h1, h2⟩ := ih (rSackOne st onLink a)
    refine ⟨?_, by simp [sackEs, h2]⟩
    simp only [List.foldl_cons, sackEs]
    rw [h1, rWv_rSackOne]

theorem rWv_naks (naks : List (Int × Option Nat)) (st : RState) :
    rWv (naks.foldl (fun s p => rNak s p.1 p.2) st) = (nakNs st naks).foldl refNakEvent (rWv st) ∧
    (nakNs st naks).length ≤ naks.length := by
  induction naks generalizing st with
  | nil => exact ⟨rfl, Nat.le_refl _⟩
  | cons p rest ih =>
    obtain ⟨a, r⟩ := p
    obtain ⟨h1, h2⟩ := ih (rNak st a r)
    simp only [List.foldl_cons, nakNs, List.length_cons]
    have hw := rWv_rNak st a r
    cases hn : nakTarget st a r with
    | none =>
      rw [hn] at hw
      dsimp only at hw ⊢
      rw [h1, hw]
      exact ⟨rfl, by omega⟩
    | some k =>
      rw [hn] at hw
      dsimp only at hw ⊢
      rw [h1, hw]
      exact ⟨rfl, by simp; omega⟩

theorem rWv_cumAck (st : RState) (ack : Int) : rWv (st.map (cumAckLink ack)) = rWv st := by
  unfold rWv
  rw [List.map_map]
  rfl

theorem rWv_cumAcks (acks : List Int) (st : RState) : rWv (rrun st (acks.map REv.cumAck)) = rWv st := by
  induction acks generalizing st with
  | nil => rfl
  | cons a rest ih =>
    rw [List.map_cons, rrun_cons, ih]
    exact rWv_cumAck st a

theorem rWv_absFrom_eq_wv (u : Nat → Bool) (j : Nat) (cs : Links) : rWv (absFrom u j cs) = wv cs := by
  induction cs generalizing j with
  | nil => rfl
  | cons c rest ih =>
    show (c.window, live c) :: rWv (absFrom u (j + 1) rest) = (c.window, live c) :: wv rest
    rw [ih]

theorem rrun_naks (st : RState) (naks : List (Int × Option Nat)) :
    rrun st (naks.map fun p => REv.nak p.1 p.2) = naks.foldl (fun s p => rNak s p.1 p.2) st := by
  induction naks generalizing st with
  | nil => rfl
  | cons p rest ih => rw [List.map_cons, rrun_cons, ih]; rfl

section scalar
variable {F : Type} [Scalar F]

/-- **`C10_windows_uplink` with the holders named.**  The `es` / `ns` of `C10_windows_uplink` are not
just some lists: they are the ones the reference machine computes on the abstraction —
`es = sackEs idx st₁ sacks` (per SRTLA-acknowledged number, in datagram order: the arrival link if it
holds the number, otherwise the first holder in list order, with its post-removal in-flight count; `none`
if nobody holds it), `ns = nakNs st₂ naks` (per NAKed number the link `nakTarget` names), where `st₁` /
`st₂` are the machine states after the datagram's cumulative ACKs / SRTLA ACKs. -/
theorem pCE_wv_named (u : Nat → Bool) (s : Sys F) (idx : Nat) (inc : Incoming) (now : Nat)
    (hc : s.cfg.classic = true) (h : AllCore (cores s.links)) (hidx : idx < s.links.length) :
    let st0 := absFrom u 0 (cores s.links)
    let st1 := rrun st0 (inc.acks.map fun a => REv.cumAck (toI32 a))
    let st2 := (inc.sacks.map toI32).foldl (fun s a => rSackOne s idx a) st1
    let es := sackEs idx st1 (inc.sacks.map toI32)
    let ns := nakNs st2 (inc.naks.map fun n => (toI32 n, rememberedM (cores s.links) s.trk n now))
    es.length = inc.sacks.length ∧ ns.length ≤ inc.naks.length ∧
    wv (cores (processConnectionEvents s idx inc now).1.links) =
      ns.foldl refNakEvent (es.foldl refSackEvent (wv (cores s.links))) := by
  intro st0 st1 st2 es ns
  obtain ⟨e1, -, -⟩ := processConnectionEvents_sim u s idx inc now hc h hidx
  have hw := congrArg rWv e1
  rw [rWv_absFrom_eq_wv] at hw
  unfold fanEvents at hw
  rw [rrun_append, rrun_append] at hw
  have hs1 : rrun (rrun st0 (inc.acks.map fun a => REv.cumAck (toI32 a))) [REv.srtlaAck (inc.sacks.map toI32) idx] = st2 := rfl
  rw [hs1] at hw
  have hn : (inc.naks.map fun n => REv.nak (toI32 n) (rememberedM (cores s.links) s.trk n now)) =
      (inc.naks.map fun n => (toI32 n, rememberedM (cores s.links) s.trk n now)).map fun p => REv.nak p.1 p.2 := by
    rw [List.map_map]; rfl
  rw [hn, rrun_naks] at hw
  obtain ⟨n1, n2⟩ := rWv_naks (inc.naks.map fun n => (toI32 n, rememberedM (cores s.links) s.trk n now)) st2
  obtain ⟨s1, s2⟩ := rWv_sacks idx (inc.sacks.map toI32) st1
  have hc0 : rWv st1 = wv (cores s.links) := by
    have : (inc.acks.map fun a => REv.cumAck (toI32 a)) = (inc.acks.map toI32).map REv.cumAck := by
      rw [List.map_map]; rfl
    show rWv (rrun st0 _) = _
    rw [this, rWv_cumAcks]
    exact rWv_absFrom_eq_wv u 0 _
  refine ⟨by rw [s2, List.length_map], by rw [List.length_map] at n2; exact n2, ?_⟩
  rw [hw, n1]
  show (nakNs st2 _).foldl refNakEvent (rWv st2) = _
  rw [show rWv st2 = _ from s1, hc0]

end scalar

/-! ## 10. Who the holder is -/

theorem firstHolder_spec (st : RState) (seq : Int) (k : Nat) :
    firstHolder st seq = some k ↔
      ∃ l, st[k]? = some l ∧ l.out.contains seq = true ∧
        ∀ (j : Nat) l', j < k → st[j]? = some l' → l'.out.contains seq = false := by
  unfold firstHolder
  rw [List.findIdx?_eq_some_iff_getElem]
  constructor
  · rintro ⟨hlt, hp, hmin⟩
    refine ⟨st[k], List.getElem?_eq_getElem hlt, hp, ?_⟩
    intro j l' hj hl'
    have hjl : j < st.length := by omega
    have : st[j] = l' := by
      have := List.getElem?_eq_getElem hjl
      rw [hl'] at this; exact (Option.some.inj this).symm
    have := hmin j hj
    rw [← ‹st[j] = l'›]
    simpa using this
  · rintro ⟨l, hl, hp, hmin⟩
    obtain ⟨hlt, e⟩ := List.getElem?_eq_some_iff.1 hl
    refine ⟨hlt, by rw [e]; exact hp, ?_⟩
    intro j hj
    have hjl : j < st.length := by omega
    have := hmin j st[j] hj (List.getElem?_eq_getElem hjl)
    rw [this]; simp

theorem firstHolder_none (st : RState) (seq : Int) :
    firstHolder st seq = none ↔ ∀ l ∈ st, l.out.contains seq = false := by
  unfold firstHolder
  rw [List.findIdx?_eq_none_iff]

/-- **Who earns an SRTLA ACK**: link `k` iff it is the arrival link and holds the number, or the arrival
link does not hold it (or there is no such link) and `k` is the first link in list order that does. -/
theorem holder_spec (st : RState) (onLink : Nat) (seq : Int) (k : Nat) :
    holder st onLink seq = some k ↔
      (k = onLink ∧ ∃ l, st[onLink]? = some l ∧ l.out.contains seq = true) ∨
      ((∀ l, st[onLink]? = some l → l.out.contains seq = false) ∧
        ∃ l, st[k]? = some l ∧ l.out.contains seq = true ∧
          ∀ (j : Nat) l', j < k → st[j]? = some l' → l'.out.contains seq = false) := by
  unfold holder
  cases ho : st[onLink]? with
  | none =>
    dsimp only
    rw [firstHolder_spec]
    constructor
    · intro h; exact Or.inr ⟨fun l hl => (by cases hl), h⟩
    · intro h
      rcases h with ⟨-, l, hl, -⟩ | ⟨-, h⟩
      · cases hl
      · exact h
  | some lo =>
    dsimp only
    by_cases hc : lo.out.contains seq = true
    · rw [if_pos hc]
      constructor
      · intro h
        have : onLink = k := by simpa using h
        subst this
        exact Or.inl ⟨rfl, lo, rfl, hc⟩
      · rintro (⟨e, -⟩ | ⟨h, -⟩)
        · rw [e]
        · have := h lo rfl
          rw [hc] at this; cases this
    · rw [if_neg hc, firstHolder_spec]
      constructor
      · intro h; exact Or.inr ⟨fun l hl => (by cases hl; simpa using hc), h⟩
      · rintro (⟨-, l, hl, hl2⟩ | ⟨-, h⟩)
        · cases hl; exact absurd hl2 hc
        · exact h

/-- Nobody earns it iff nobody holds the number. -/
theorem holder_none (st : RState) (onLink : Nat) (seq : Int) :
    holder st onLink seq = none ↔ ∀ l ∈ st, l.out.contains seq = false := by
  unfold holder
  cases ho : st[onLink]? with
  | none => exact firstHolder_none st seq
  | some lo =>
    dsimp only
    by_cases hc : lo.out.contains seq = true
    · rw [if_pos hc]
      constructor
      · intro h; cases h
      · intro h
        have := h lo (List.mem_of_getElem? ho)
        rw [hc] at this; cases this
    · rw [if_neg hc]; exact firstHolder_none st seq

/-- When at most one link holds the number, the arrival link is irrelevant: the holder is the one the
reference's plain list-order scan finds. -/
theorem holder_eq_firstHolder_of_unique (st : RState) (onLink : Nat) (seq : Int)
    (huniq : ∀ (i j : Nat) a b, st[i]? = some a → st[j]? = some b → a.out.contains seq = true →
      b.out.contains seq = true → i = j) :
    holder st onLink seq = firstHolder st seq := by
  unfold holder
  cases ho : st[onLink]? with
  | none => rfl
  | some lo =>
    dsimp only
    by_cases hc : lo.out.contains seq = true
    · rw [if_pos hc]
      symm
      rw [firstHolder_spec]
      refine ⟨lo, ho, hc, ?_⟩
      intro j l' hj hl'
      cases hh : l'.out.contains seq with
      | false => rfl
      | true =>
        have := huniq j onLink l' lo hl' ho hh hc
        omega
    · rw [if_neg hc]

end Srtla.ClassicRun
