import Srtla.Model.Sys
import Srtla.Lemmas.Housekeeping
/-!
# Frame lemmas for the run-level liveness clause of C08

What every event of the shell does to (a) the bind-failure injections `Sys.failBind`, (b) the conn id
stored at a link index (hence to the dispatch of uplink datagrams by conn id), and the REG2 a
reconnect attempt of a previously established link puts on the wire.  Everything for an arbitrary
scalar type.
-/
namespace Srtla.Hk
open Srtla Srtla.Gen Srtla.Conn Srtla.Select Srtla.Rtt Srtla.Link Srtla.Sys Scalar

set_option linter.unusedSectionVars false
set_option linter.unusedVariables false

variable {F : Type} [Scalar F]

/-! ## 1. Who touches the bind-failure injections -/

theorem forwardVia_failBind (s : Sys F) (sel : Nat) (pkt : Sys.Bytes) (seq : Option Nat) (now : Nat) :
    (forwardVia s sel pkt seq now).1.failBind = s.failBind := by
  unfold forwardVia
  split
  · rfl
  · dsimp only
    split <;> rfl

theorem client_failBind (s : Sys F) (pkt : Sys.Bytes) (now : Nat) :
    (handleSrtPacket s pkt now).1.failBind = s.failBind := by
  cases hne : pkt.isEmpty
  case true =>
    have : handleSrtPacket s pkt now = (s, {}) := by unfold handleSrtPacket; simp [hne]
    rw [this]
  case false =>
  cases hc : s.reg.hasConnected
  case false =>
    rw [handleSrtPacket_pre s pkt now hne hc]
    split
    · exact forwardVia_failBind s _ pkt _ now
    · rfl
  case true =>
  cases hsel : clientSel s pkt now with
  | none => rw [handleSrtPacket_none s pkt now hne hc hsel]; rfl
  | some i =>
    rw [handleSrtPacket_some s pkt now i hne hc hsel]
    unfold clientFwd
    dsimp only
    split
    · exact forwardVia_failBind (runSelect s now).1 i pkt _ now
    · exact forwardVia_failBind (runSelect s now).1 i pkt _ now

theorem flush_failBind (s : Sys F) (now : Nat) : (flushAllBatches s now).1.failBind = s.failBind := by
  unfold flushAllBatches
  split <;> rfl

theorem uplink_failBind (s : Sys F) (cid : Nat) (data : Sys.Bytes) (now : Nat) :
    (handleUplinkPacket s cid data now).1.failBind = s.failBind := by
  unfold handleUplinkPacket
  split
  · rfl
  · split
    · rfl
    · split
      · rfl
      · rfl

/-- Only an injection event adds to the bind-failure list (housekeeping only consumes). -/
theorem step_failBind_mem (s : Sys F) (e : Ev) (a : Nat) (h : a ∈ (step s e).1.failBind) :
    a ∈ s.failBind ∨ e = .failBind a := by
  cases e with
  | client now pkt => left; rw [← client_failBind s pkt now]; exact h
  | uplink now cid data => left; rw [← uplink_failBind s cid data now]; exact h
  | flush now => left; rw [← flush_failBind s now]; exact h
  | hk now =>
    left
    have h' : a ∈ (handleHousekeeping s now).1.failBind := h
    rw [(hk_eq s now).2.2.2.2.2] at h'
    exact hkBindLeft_mem now _ _ a h'
  | setCfg cfg => left; exact h
  | crit d => left; exact h
  | failNext cid => left; exact h
  | failAfter cid kfa => left; exact h
  | failBind cid =>
    have h' : a ∈ cid :: s.failBind := h
    rcases List.mem_cons.1 h' with e | e
    · right; rw [e]
    · left; exact e
  | stamp idx weak ld ccb cct => left; exact h
  | syncTimeout => left; exact h
  | reload now addrs outs => left; exact h

/-! ## 2. Conn ids stay where they are -/

theorem LinkStep.connId {s : Sys F} {e : Ev} {j : Nat} {l l' : FLink F} (h : LinkStep s e j l l') :
    l'.core.connId = l.core.connId := by
  cases h with
  | evolves cto _ h => exact h.connId
  | sendFail now pkt _ h _ => exact h.connId
  | reg3 now cid data _ _ _ hl _ => rw [hl]; rfl
  | regErr now cid data _ _ _ hl => rw [hl]; rfl
  | attempt now _ _ _ hl => obtain ⟨t, ht⟩ := hl; rw [ht]; exact (reconnectLink_fields l now).2.2.2.2.1
  | attemptFailed now _ _ _ _ hl => obtain ⟨t, ht⟩ := hl; rw [ht]; exact (failedLink_fields l now).2.2.2.2.1

theorem step_ids (s : Sys F) (e : Ev) (hnr : e.isReload = false) :
    (step s e).1.links.map (·.core.connId) = s.links.map (·.core.connId) := by
  obtain ⟨h1, h2, -⟩ := step_link s e hnr
  apply List.ext_getElem?
  intro k
  rw [List.getElem?_map, List.getElem?_map]
  cases hk : s.links[k]? with
  | none =>
    have : (step s e).1.links[k]? = none := by
      rw [List.getElem?_eq_none_iff] at hk ⊢
      omega
    rw [this]
  | some l =>
    obtain ⟨l', hl', hs⟩ := h1 k l hk
    rw [hl']
    simp only [Option.map_some]
    rw [hs.connId]

/-- Uplink datagrams for conn id `cid` are dispatched to the same link index after any event. -/
theorem step_findIdx (s : Sys F) (e : Ev) (hnr : e.isReload = false) (cid : Nat) :
    (step s e).1.links.findIdx? (·.core.connId == cid) = s.links.findIdx? (·.core.connId == cid) := by
  have h : ∀ ls : List (FLink F),
      ls.findIdx? (·.core.connId == cid) = (ls.map (·.core.connId)).findIdx? (· == cid) := by
    intro ls
    rw [List.findIdx?_map]
    rfl
  rw [h, h, step_ids s e hnr]

theorem findIdx_hit (ls : List (FLink F)) (cid j : Nat) (l : FLink F)
    (h : ls.findIdx? (·.core.connId == cid) = some j) (hl : ls[j]? = some l) : l.core.connId = cid := by
  rw [List.findIdx?_eq_some_iff_getElem] at h
  obtain ⟨hj, hp, -⟩ := h
  have : ls[j]? = some ls[j] := List.getElem?_eq_getElem hj
  rw [this] at hl
  cases hl
  simpa using hp

/-! ## 3. The REG2 a reconnect attempt of an established link puts on the wire -/

/-- A tick in which a previously established link attempts a reconnect while no uplink is awaiting REG2
puts a REG2 carrying the group id on that link's wire — whether or not the socket re-creation succeeds
(the re-send uses the old socket then), and also in the tick in which start-up probing completes. -/
theorem hk_wire_reg2 (s : Sys F) (now j : Nat) (l : FLink F) (hl : s.links[j]? = some l)
    (hpend : s.reg.pending = none) (hest : l.established ≠ 0)
    (hto : l.isTimedOut now = true) (hsa : l.shouldAttemptReconnect now = true) :
    (l.core.connId, Codec.createReg2 s.reg.id) ∈ (handleHousekeeping s now).2.wire := by
  rw [(hk_eq s now).2.2.1]
  apply List.mem_append_left
  apply List.mem_append_left
  obtain ⟨-, r2, r3⟩ := hkP1_reg s now
  have hget : (hkP1 s now).2[j]? = some (graceFix (hkGraceIdx s now) now j l) := by
    rw [hkP1_links, List.getElem?_mapIdx, hl]; rfl
  have hto' : (graceFix (hkGraceIdx s now) now j l).isTimedOut now = true := by
    rcases graceFix_cases (hkGraceIdx s now) now j l with e | ⟨-, e⟩ <;> rw [e]
    · exact hto
    · rw [isTimedOut_grace l _ now hest]; exact hto
  have hsa' : (graceFix (hkGraceIdx s now) now j l).shouldAttemptReconnect now = true := by
    rcases graceFix_cases (hkGraceIdx s now) now j l with e | ⟨-, e⟩ <;> rw [e]
    · exact hsa
    · rw [shouldAttempt_grace l _ now hest]; exact hsa
  have := hkLinksGo_wire_reg2 s.cfg.classic now (hkP1 s now).2 0 (hkP1 s now).1 s.failBind (r2 hpend) j _
    hget hto' hsa'
  unfold Reg.buildReg2 at this
  rw [r3, graceFix_connId] at this
  exact this

/-! ## 4. The registration manager at rest stays at rest (unless the receiver forgets the group) -/

/-- The registration manager is at rest: no uplink is awaiting REG2, no REG1 target is chosen,
start-up probing is over (or was never started). -/
def RegIdle (r : Reg.Reg) : Prop := r.pending = none ∧ r.target = none ∧ Reg.isProbing r = false

theorem procReg_ngp (r : Reg.Reg) (idx : Nat) (buf : Reg.Bytes) (now : Nat)
    (h : (Reg.processRegistrationPacket r idx buf now).2 = some .regNgp) :
    Codec.getPacketTypeS buf = some 37393 := by
  unfold Reg.processRegistrationPacket at h
  simp only [Proto.SRTLA_TYPE_REG_NGP_eq, Proto.SRTLA_TYPE_REG2_eq, Proto.SRTLA_TYPE_REG3_eq,
    Proto.SRTLA_TYPE_REG_ERR_eq] at h
  cases ht : Codec.getPacketTypeS buf with
  | none => rw [ht] at h; simp at h
  | some t =>
    rw [ht] at h
    dsimp only at h
    by_cases h1 : t = 37393
    · rw [h1]
    by_cases h2 : t = 37377
    · simp [h2] at h
    by_cases h3 : t = 37378
    · simp [h3] at h
    by_cases h4 : t = 37392
    · simp [h4] at h
    simp [h1, h2, h3, h4] at h

/-- Every registration datagram other than REG_NGP (0x9211 = 37393) leaves a manager at rest at rest. -/
theorem procReg_idle (r : Reg.Reg) (idx : Nat) (buf : Reg.Bytes) (now : Nat) (h : RegIdle r)
    (hn : Codec.getPacketTypeS buf ≠ some 37393) : RegIdle (Reg.processRegistrationPacket r idx buf now).1 := by
  obtain ⟨h1, h2, h3⟩ := h
  unfold Reg.processRegistrationPacket
  simp only [Proto.SRTLA_TYPE_REG_NGP_eq, Proto.SRTLA_TYPE_REG2_eq, Proto.SRTLA_TYPE_REG3_eq,
    Proto.SRTLA_TYPE_REG_ERR_eq]
  cases ht : Codec.getPacketTypeS buf with
  | none => exact ⟨h1, h2, h3⟩
  | some t =>
    dsimp only
    have hne : t ≠ 37393 := fun e => hn (by rw [ht, e])
    simp only [hne, ↓reduceIte]
    by_cases h2' : t = 37377
    · simp only [h2', ↓reduceIte]
      unfold Reg.handleReg2
      split
      · exact ⟨h1, h2, h3⟩
      · split
        · rename_i hp; rw [h1] at hp; cases hp
        · exact ⟨h1, h2, h3⟩
    simp only [h2', ↓reduceIte]
    by_cases h3' : t = 37378
    · simp only [h3', ↓reduceIte]
      exact ⟨h1, h2, h3⟩
    simp only [h3', ↓reduceIte]
    by_cases h4' : t = 37392
    · simp only [h4', ↓reduceIte]
      exact ⟨rfl, rfl, h3⟩
    simp only [h4', ↓reduceIte]
    exact ⟨h1, h2, h3⟩

theorem procUplink_reg_idle (l : FLink F) (idx : Nat) (reg : Reg.Reg) (ck : Bool) (data : Sys.Bytes) (now : Nat)
    (h : RegIdle reg) (hn : Codec.getPacketTypeS data ≠ some 37393) :
    RegIdle (processUplinkPacket l idx reg ck data now).2.1 := by
  have h1 := procReg_idle reg idx data now h hn
  have h2 := procReg_ngp reg idx data now
  unfold processUplinkPacket
  split
  · exact h
  · generalize Reg.processRegistrationPacket reg idx data now = pr at h1 h2
    obtain ⟨reg1, ev⟩ := pr
    dsimp only at h1 h2 ⊢
    cases ev with
    | none =>
      dsimp only
      repeat' split
      all_goals exact h1
    | some x =>
      cases x with
      | regNgp => exact absurd (h2 rfl) hn
      | reg2 => exact h1
      | reg3 => exact h1
      | regErr => exact h1

theorem uplink_reg_idle (s : Sys F) (cid : Nat) (data : Sys.Bytes) (now : Nat) (h : RegIdle s.reg)
    (hn : Codec.getPacketTypeS data ≠ some 37393) : RegIdle (handleUplinkPacket s cid data now).1.reg := by
  unfold handleUplinkPacket
  split
  · exact h
  · split
    · exact h
    · split
      · exact h
      · have key : ∀ (l : FLink F) (idx : Nat),
            RegIdle (processUplinkPacket l idx s.reg s.clientKnown data now).2.1 :=
          fun l idx => procUplink_reg_idle l idx s.reg s.clientKnown data now h hn
        rename_i _ _ idx _ _ l _
        have := key l idx
        generalize processUplinkPacket l idx s.reg s.clientKnown data now = r at this
        obtain ⟨l1, reg1, inc⟩ := r
        dsimp only at this ⊢
        split <;> exact this

theorem hkLinksGo_reg_idle (classic : Bool) (now : Nat) (ls : List (FLink F)) (i : Nat) (reg : Reg.Reg)
    (fb : List Nat) (hp : reg.pending = none) : (hkLinksGo classic now ls i reg fb).2.1 = reg := by
  induction ls generalizing i fb with
  | nil => rfl
  | cons x rest ih =>
    rw [hkLinksGo_cons]
    have hreg : hkReg now reg i x = reg := by
      unfold hkReg; rw [hp]; simp
    rw [hreg]
    exact ih (i + 1) _

theorem hkP1_idle (s : Sys F) (now : Nat) (h : RegIdle s.reg) : (hkP1 s now).1 = s.reg := by
  obtain ⟨h1, -, h3⟩ := h
  have hc := (clearPending_fields s.reg now).2.2.2 h1
  unfold hkP1
  dsimp only
  rw [hc, h3]
  rfl

theorem driver_idle (r : Reg.Reg) (now : Nat) (h : RegIdle r) : RegIdle (Reg.regDriverPendingSends r now).1 := by
  obtain ⟨h1, h2, h3⟩ := h
  unfold Reg.regDriverPendingSends Reg.driverReg1 Reg.driverBroadcast
  dsimp only
  rw [h2]
  split <;> dsimp only <;> split <;> exact ⟨h1, h2, h3⟩

theorem hk_reg_idle (s : Sys F) (now : Nat) (h : RegIdle s.reg) : RegIdle (handleHousekeeping s now).1.reg := by
  rw [(hk_eq s now).2.1]
  unfold hkP4
  apply driver_idle
  have h2 : (hkP2 s now).2.1 = s.reg := by
    unfold hkP2
    rw [hkLinksGo_reg_idle _ _ _ _ _ _ (by rw [hkP1_idle s now h]; exact h.1), hkP1_idle s now h]
  rw [h2]
  exact h

/-- Every event other than an uplink datagram of type REG_NGP leaves a manager at rest at rest. -/
theorem step_reg_idle (s : Sys F) (e : Ev) (h : RegIdle s.reg)
    (hn : ∀ now cid data, e = .uplink now cid data → Codec.getPacketTypeS data ≠ some 37393) :
    RegIdle (step s e).1.reg := by
  cases e with
  | client now pkt =>
    have : (handleSrtPacket s pkt now).1.reg = s.reg := (client_pw s pkt now).2.1
    show RegIdle (handleSrtPacket s pkt now).1.reg
    rw [this]; exact h
  | uplink now cid data => exact uplink_reg_idle s cid data now h (hn now cid data rfl)
  | flush now =>
    have : (flushAllBatches s now).1.reg = s.reg := (flush_pw false none s now).2.1
    show RegIdle (flushAllBatches s now).1.reg
    rw [this]; exact h
  | hk now => exact hk_reg_idle s now h
  | setCfg cfg => exact h
  | crit d => exact h
  | failNext cid => exact h
  | failAfter cid kfa => exact h
  | failBind cid => exact h
  | stamp idx weak ld ccb cct => exact h
  | syncTimeout => exact h
  | reload now addrs outs => exact h

end Srtla.Hk
