import Srtla.Lemmas.SysDir
/-!
# What each per-link operation does to the window view (for C06 at shell level)

Raw-field facts about the operations of `SysDir.LinkRun` on `(window, congestion state)`:
* `Neutral` operations (stamps, queue, drain, keepalives, tick, echo, cumulative SRT ACK, selection
  write-back) leave window and congestion state untouched (`neutral_run`);
* the cores of the composite operations (`markForRecovery`, `Hk.reconnectLink`, `Uplink.reg3Link`,
  `performWindowRecovery`) as `Conn`-level expressions.

`Props/C06.lean` turns these into "every event of `Sys.step` is, on every link, a finite sequence of the
abstract machine's `Op`s that the event allows" and transfers the abstract theorems.
-/
set_option linter.unusedSectionVars false
set_option linter.unusedVariables false

namespace Srtla.SysDir
open Srtla Srtla.Gen Srtla.Conn Srtla.Select Srtla.Rtt Srtla.Link Srtla.Sys Srtla.SysInv Scalar

variable {F : Type} [Scalar F]

/-- Operations that touch neither the window nor the congestion state. -/
def Neutral : Op → Prop := fun op =>
  op ≠ .mark ∧ op ≠ .reconnect ∧ op ≠ .reg3 ∧ op ≠ .recover ∧ op ≠ .sack ∧ op ≠ .gack ∧ op ≠ .nak

theorem srtAck_cong (c : Conn) (a : Int) (now : Nat) : (c.srtAck a now).1.cong = c.cong := by
  unfold Conn.srtAck
  split <;> rfl

theorem srtAck_connected (c : Conn) (a : Int) (now : Nat) : (c.srtAck a now).1.connected = c.connected := by
  unfold Conn.srtAck
  split <;> rfl

/-- Window, congestion state and the `connected` flag agree. -/
def SameW (a b : FLink F) : Prop :=
  b.core.window = a.core.window ∧ b.core.cong = a.core.cong ∧ b.core.connected = a.core.connected

omit [Scalar F] in
theorem SameW.trans {a b c : FLink F} (h1 : SameW a b) (h2 : SameW b c) : SameW a c :=
  ⟨h2.1.trans h1.1, h2.2.1.trans h1.2.1, h2.2.2.trans h1.2.2⟩

theorem sameW_probeDue (a : FLink F) : SameW a a.stallProbeDue.1 := by
  have hc := Hk.stallProbeDue_core a
  exact ⟨by rw [hc], by rw [hc], by rw [hc]⟩

theorem sameW_take (a : FLink F) (now : Nat) : SameW a (a.takeBatch now).1 := by
  obtain ⟨h1, h2, -⟩ := Hk.takeBatch_window a now
  refine ⟨h1, h2, ?_⟩
  exact (Hk.ev_takeBatch false none a now).connected

theorem sameW_tick (a : FLink F) (now : Nat) : SameW a (tickLink a now) := by
  have h := Hk.ev_updatePhase false none ({ a with bitrate := a.bitrate.calculate now } : FLink F) now
  have hs := soft_updatePhase now ({ a with bitrate := a.bitrate.calculate now } : FLink F)
  exact ⟨hs.window, hs.cong, h.connected⟩

theorem sameW_kaEcho (a : FLink F) (data : Codec.Bytes) (now : Nat) : SameW a (Uplink.kaLink a data now) := by
  have h1 := soft_lastReceived now a
  have h2 := soft_handleKeepaliveResponse now (Uplink.stamp a now) data
  refine ⟨?_, ?_, (Uplink.kaLink_spec a data now).2.2.2.1⟩
  · unfold Uplink.kaLink
    split
    · exact (soft_proofMs now _).window.trans ((soft_recordRttProbe now _).window.trans (h2.window.trans h1.window))
    · exact h2.window.trans h1.window
  · unfold Uplink.kaLink
    split
    · exact (soft_proofMs now _).cong.trans ((soft_recordRttProbe now _).cong.trans (h2.cong.trans h1.cong))
    · exact h2.cong.trans h1.cong

theorem sameW_srtAck (a : FLink F) (x : Int) (now : Nat) : SameW a (a.srtAck x now) := by
  unfold SameW
  rw [Uplink.core_srtAck]
  exact ⟨srtAck_window _ _ _, srtAck_cong _ _ _, srtAck_connected _ _ _⟩

/-- `Neutral` operations leave window, congestion state and the `connected` flag untouched. -/
theorem neutral_run {now : Nat} {classic : Bool} {A : Op → Prop} {l l' : FLink F}
    (h : LinkRun now classic A l l') (hA : ∀ op, A op → Neutral op) : SameW l l' := by
  induction h with
  | refl => exact ⟨rfl, rfl, rfl⟩
  | sent _ _ ih => exact ih
  | heard _ _ ih => exact ih
  | grace _ _ ih => exact ih
  | @probeDue a _ _ ih =>
    have hc := Hk.stallProbeDue_core a
    exact ih.trans ⟨by rw [hc], by rw [hc], by rw [hc]⟩
  | queue pkt seq _ _ _ ih => exact ih
  | take _ _ ih => exact ih.trans (sameW_take _ now)
  | mark ha => exact absurd rfl (hA _ ha).1
  | reconnect ha => exact absurd rfl (hA _ ha).2.1
  | attemptFail ha => exact absurd rfl (hA _ ha).1
  | reg3 ha => exact absurd rfl (hA _ ha).2.2.1
  | kaSend _ _ ih => exact ih
  | recover ha => exact absurd rfl (hA _ ha).2.2.2.1
  | tick _ _ ih => exact ih.trans (sameW_tick _ now)
  | kaEcho data _ _ ih => exact ih.trans (sameW_kaEcho _ data now)
  | srtAck x _ _ ih => exact ih.trans (sameW_srtAck _ x now)
  | sack seq ha => exact absurd rfl (hA _ ha).2.2.2.2.1
  | gack ha => exact absurd rfl (hA _ ha).2.2.2.2.2.1
  | nak seq ha => exact absurd rfl (hA _ ha).2.2.2.2.2.2
  | select x _ _ ih => exact ih
  | stamp w ld ccb cct _ _ ih => exact ih
  | syncTimeout T _ _ ih => exact ih

/-- One neutral operation. -/
theorem neutral_one {now : Nat} {classic : Bool} {a b : FLink F} (op : Op) (hop : Neutral op)
    (h : LinkRun now classic (fun o => o = op) a b) : SameW a b :=
  neutral_run h (fun o ho => by rw [ho]; exact hop)

/-! ## The cores of the non-neutral composites -/

omit [Scalar F] in
theorem markForRecovery_core (l : FLink F) : l.markForRecovery.core = l.core.markForRecovery := rfl

theorem reconnectLink_core (l : FLink F) (now : Nat) : (Hk.reconnectLink l now).core = l.core.resetForReconnect := by
  have h := (Hk.recordAttempt_fields l now).2.2.1
  show ({ (l.recordAttempt now).core.resetCore with lastReceived := none, cong := {}, lastRttMeasMs := 0 } : Conn) = _
  rw [h]
  rfl

theorem reg3Link_core (l : FLink F) (now : Nat) :
    (Uplink.reg3Link l now).core =
      { l.core.clearPreRegistration now with connected := true, lastReceived := some now } := rfl

theorem recover_core (l : FLink F) (now : Nat) :
    ∃ v : Bool, (l.performWindowRecovery now).core =
      { l.core with cong := (l.core.cong.recover l.core.window l.core.connected v now).1,
                    window := (l.core.cong.recover l.core.window l.core.connected v now).2 } :=
  ⟨_, rfl⟩

end Srtla.SysDir
