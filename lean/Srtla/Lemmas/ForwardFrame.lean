import Srtla.Lemmas.ForwardClient
/-!
# The other arms of the event loop, seen from the batch queues (C01)

`flush_all_batches` drains every queue; `handle_uplink_packet` and `handle_housekeeping` never move a
queued datagram: they leave every queue untouched or discard it as part of a link reset
(REG3 `clear_pre_registration_state`, REG_ERR `mark_for_recovery`, housekeeping reconnect).
-/
namespace Srtla.Sys
open Srtla Srtla.Gen Srtla.Conn Srtla.Select Srtla.Rtt Srtla.Link Scalar

set_option linter.unusedSectionVars false

variable {F : Type} [Scalar F]

/-! ## `flush_all_batches` -/

theorem flush_links (s : Sys F) (now : Nat) (hnd : (ids s.links).Nodup) :
    let r := flushAllBatches s now
    r.1.links.length = s.links.length ∧ r.1.reg = s.reg ∧ r.1.cfg = s.cfg ∧
    (∀ y ∈ r.1.failNext, y ∈ s.failNext) ∧ r.1.lastSelected = s.lastSelected ∧ r.2.client = [] ∧
    ∀ (i : Nat) (l : FLink F), s.links[i]? = some l → ∃ l', r.1.links[i]? = some l' ∧
      LinkFx (l.core.connId ∈ s.failNext) [] l l' (wireOf l.core.connId r.2.wire) ∧
      l'.queue = [] ∧ l'.probeCounter = l.probeCounter := by
  dsimp only
  unfold flushAllBatches
  by_cases hany : (s.links.any fun l => !l.queue.isEmpty || l.needsBatchFlush now) = true
  · rw [if_neg (by simp [hany])]
    dsimp only
    obtain ⟨hp, hfn⟩ := flushGo_par now s.failNext s.links 0 s.failNext (fun _ h => h)
    refine ⟨hp.length_eq, rfl, rfl, hfn, rfl, rfl, ?_⟩
    intro i l hl
    obtain ⟨l', b, g1, g2, g3⟩ := hp.get i l hl
    obtain ⟨g2a, g2b, g2c⟩ := g2
    exact ⟨l', g1, by rw [g3 hnd]; exact g2a, g2b, g2c⟩
  · rw [if_pos (by simp [hany])]
    refine ⟨rfl, rfl, rfl, fun _ h => h, rfl, rfl, ?_⟩
    intro i l hl
    have hq : l.queue = [] := by
      have hmem := List.mem_of_getElem? hl
      have : ¬ ((!l.queue.isEmpty || l.needsBatchFlush now) = true) := fun h =>
        hany (List.any_eq_true.2 ⟨l, hmem, h⟩)
      cases hqq : l.queue with
      | nil => rfl
      | cons a t => rw [hqq] at this; simp at this
    exact ⟨l, hl, LinkFx.refl _ l, hq, rfl⟩

/-! ## A pointwise relation between two link lists -/

inductive Pw (R : FLink F → FLink F → Prop) : List (FLink F) → List (FLink F) → Prop
  | nil : Pw R [] []
  | cons {l l' : FLink F} {ls ls' : List (FLink F)} : R l l' → Pw R ls ls' → Pw R (l :: ls) (l' :: ls')

theorem Pw.length_eq {R : FLink F → FLink F → Prop} {ls ls' : List (FLink F)} (h : Pw R ls ls') :
    ls'.length = ls.length := by
  induction h with
  | nil => rfl
  | cons _ _ ih => simp [ih]

theorem Pw.get {R : FLink F → FLink F → Prop} {ls ls' : List (FLink F)} (h : Pw R ls ls')
    (j : Nat) (l : FLink F) (hl : ls[j]? = some l) : ∃ l', ls'[j]? = some l' ∧ R l l' := by
  induction h generalizing j with
  | nil => simp at hl
  | cons hr _ ih =>
    cases j with
    | zero =>
      simp only [List.getElem?_cons_zero, Option.some.injEq] at hl
      subst hl
      exact ⟨_, rfl, hr⟩
    | succ j =>
      simp only [List.getElem?_cons_succ] at hl
      obtain ⟨l', h1, h2⟩ := ih j hl
      exact ⟨l', by simpa using h1, h2⟩

theorem Pw.of_map {R : FLink F → FLink F → Prop} (f : FLink F → FLink F) (hf : ∀ l, R l (f l))
    (ls : List (FLink F)) : Pw R ls (ls.map f) := by
  induction ls with
  | nil => exact .nil
  | cons l rest ih => exact .cons (hf l) ih

/-- The data-path view of a link: conn id, queue, probe counter. -/
def dview (l : FLink F) : Nat × List QItem × Nat := (l.core.connId, l.queue, l.probeCounter)

/-! ## `process_connection_events`: ACK / NAK fan-out never touches a queue -/

theorem srtAck_connId (c : Conn) (a : Int) (now : Nat) : (c.srtAck a now).1.connId = c.connId := by
  unfold Conn.srtAck; split <;> rfl

theorem srtlaAck_connId (c : Conn) (a : Int) (cl : Bool) (now : Nat) :
    (c.srtlaAck a cl now).1.connId = c.connId := by
  unfold Conn.srtlaAck; split
  · dsimp only; split <;> rfl
  · rfl

theorem nak_connId (c : Conn) (a : Int) (now : Nat) : (c.nak a now).1.connId = c.connId := by
  unfold Conn.nak; split <;> rfl

theorem ackGlobal_connId (c : Conn) : c.ackGlobal.connId = c.connId := by
  unfold Conn.ackGlobal; split <;> rfl

def cids (cs : Links) : List Nat := cs.map (·.connId)

theorem updateAt_cids (cs : Links) (i : Nat) (f : Conn → Conn) (hf : ∀ c, (f c).connId = c.connId) :
    cids (updateAt cs i f) = cids cs := by
  apply List.ext_getElem?
  intro j
  simp only [cids, updateAt, List.getElem?_map, List.getElem?_mapIdx]
  cases cs[j]? with
  | none => rfl
  | some c => by_cases hj : j = i <;> simp [hj, hf]

theorem updateAt_const_cids (cs : Links) (i : Nat) (c0 c' : Conn) (h0 : cs[i]? = some c0)
    (hc : c'.connId = c0.connId) : cids (updateAt cs i (fun _ => c')) = cids cs := by
  apply List.ext_getElem?
  intro j
  simp only [cids, updateAt, List.getElem?_map, List.getElem?_mapIdx]
  by_cases hj : j = i
  · subst hj; simp [h0, hc]
  · cases cs[j]? <;> simp [hj]

theorem srtlaAckOthers_cids (cs : Links) (j skip : Nat) (a : Int) (cl : Bool) (now : Nat) :
    cids (srtlaAckOthers cs j skip a cl now) = cids cs := by
  induction cs generalizing j with
  | nil => rfl
  | cons c rest ih =>
    unfold srtlaAckOthers
    split
    · simp only [cids, List.map_cons] at ih ⊢; rw [ih]
    · dsimp only
      split
      · simp only [cids, List.map_cons, srtlaAck_connId]
      · simp only [cids, List.map_cons] at ih ⊢; rw [ih]

theorem evSrtlaAck_cids (cs : Links) (idx : Nat) (a : Int) (cl : Bool) (now : Nat) :
    cids (evSrtlaAck cs idx a cl now) = cids cs := by
  unfold evSrtlaAck
  dsimp only
  have hmap : ∀ xs : Links, cids (xs.map Conn.ackGlobal) = cids xs := by
    intro xs; simp [cids, List.map_map, Function.comp_def, ackGlobal_connId]
  rw [hmap]
  split
  · rfl
  · rename_i c hc
    split
    · exact updateAt_const_cids cs idx c _ hc (srtlaAck_connId c a cl now)
    · exact srtlaAckOthers_cids cs 0 idx a cl now

theorem nakScan_cids (cs : Links) (a : Int) (now : Nat) : cids (nakScan cs a now).1 = cids cs := by
  induction cs with
  | nil => rfl
  | cons c rest ih =>
    unfold nakScan
    dsimp only
    split
    · simp only [cids, List.map_cons, nak_connId]
    · simp only [cids, List.map_cons] at ih ⊢; rw [ih]

theorem attributeNak_cids (cs : Links) (trk : Tracker) (n now : Nat) :
    cids (attributeNak cs trk n now).1 = cids cs := by
  unfold attributeNak
  dsimp only
  split
  · split
    · split
      · rename_i c hc
        split
        · exact updateAt_const_cids cs _ c _ hc (nak_connId c _ now)
        · rfl
      · rfl
    · exact nakScan_cids cs _ now
  · exact nakScan_cids cs _ now

theorem withCores_dview (ls : List (FLink F)) (cs : Links) (h : cids cs = ids ls) :
    (withCores ls cs).map dview = ls.map dview := by
  induction ls generalizing cs with
  | nil => simp [withCores]
  | cons l rest ih =>
    cases cs with
    | nil => simp [cids, ids] at h
    | cons c cs' =>
      simp only [cids, ids, List.map_cons, List.cons.injEq] at h
      have := ih cs' h.2
      simp only [withCores, List.zip_cons_cons, List.map_cons, List.cons.injEq] at this ⊢
      exact ⟨by simp [dview, h.1], this⟩

theorem flink_srtAck_dview (l : FLink F) (a : Int) (now : Nat) : dview (l.srtAck a now) = dview l := by
  unfold FLink.srtAck
  dsimp only
  split <;> simp [dview, srtAck_connId]

theorem dview_ids (ls ls' : List (FLink F)) (h : ls'.map dview = ls.map dview) : ids ls' = ids ls := by
  have := congrArg (List.map (·.1)) h
  simpa [ids, dview, List.map_map, Function.comp_def] using this

theorem processConnectionEvents_dview (s : Sys F) (idx : Nat) (inc : Incoming) (now : Nat) :
    (processConnectionEvents s idx inc now).1.links.map dview = s.links.map dview ∧
    (processConnectionEvents s idx inc now).1.failNext = s.failNext ∧
    (processConnectionEvents s idx inc now).1.reg = s.reg ∧
    (processConnectionEvents s idx inc now).1.cfg = s.cfg ∧
    (processConnectionEvents s idx inc now).1.lastSelected = s.lastSelected := by
  refine ⟨?_, rfl, rfl, rfl, rfl⟩
  unfold processConnectionEvents
  dsimp only
  have h1 : ∀ (acks : List Nat) (ls : List (FLink F)),
      (acks.foldl (fun ls a => ls.map fun l => l.srtAck (toI32 a) now) ls).map dview = ls.map dview := by
    intro acks
    induction acks with
    | nil => intro ls; rfl
    | cons a rest ih =>
      intro ls
      simp only [List.foldl_cons]
      rw [ih, List.map_map]
      exact List.map_congr_left fun l _ => flink_srtAck_dview l _ now
  have h2 : ∀ (sacks : List Nat) (cs : Links),
      cids (sacks.foldl (fun cs a => evSrtlaAck cs idx (toI32 a) s.cfg.classic now) cs) = cids cs := by
    intro sacks
    induction sacks with
    | nil => intro cs; rfl
    | cons a rest ih => intro cs; simp only [List.foldl_cons]; rw [ih, evSrtlaAck_cids]
  have h3 : ∀ (naks : List Nat) (cs : Links),
      cids (naks.foldl (fun cs n => (attributeNak cs s.trk n now).1) cs) = cids cs := by
    intro naks
    induction naks with
    | nil => intro cs; rfl
    | cons a rest ih => intro cs; simp only [List.foldl_cons]; rw [ih, attributeNak_cids]
  rw [withCores_dview, h1]
  rw [h3, h2]
  simp only [cids, cores, ids, List.map_map, Function.comp_def]

/-! ## `handle_uplink_packet` -/

theorem handleKeepaliveResponse_dview (l : FLink F) (data : Bytes) (now : Nat) :
    dview (l.handleKeepaliveResponse data now).1 = dview l := by
  unfold FLink.handleKeepaliveResponse
  split
  · rfl
  · split
    · dsimp only; split <;> rfl
    · rfl

theorem recordRttProbe_dview (l : FLink F) : dview l.recordRttProbe = dview l := by
  unfold FLink.recordRttProbe
  split
  · split <;> rfl
  · rfl

/-- `process_uplink_packet` leaves the link's queue alone, except that REG3
(`clear_pre_registration_state`) and REG_ERR (`mark_for_recovery`) discard it. -/
theorem processUplinkPacket_fx (l : FLink F) (idx : Nat) (reg : Reg.Reg) (ck : Bool) (data : Bytes) (now : Nat) :
    let l1 := (processUplinkPacket l idx reg ck data now).1
    l1.core.connId = l.core.connId ∧
    ((l1.queue = l.queue ∧ l1.probeCounter = l.probeCounter) ∨
     (l1.queue = [] ∧ (l1.probeCounter = l.probeCounter ∨ l1.probeCounter = 0) ∧
       ((Reg.processRegistrationPacket reg idx data now).2 = some .reg3 ∨
        (Reg.processRegistrationPacket reg idx data now).2 = some .regErr))) := by
  dsimp only
  unfold processUplinkPacket
  split
  · exact ⟨rfl, Or.inl ⟨rfl, rfl⟩⟩
  · dsimp only
    split
    · exact ⟨rfl, Or.inl ⟨rfl, rfl⟩⟩
    · rename_i h; exact ⟨rfl, Or.inr ⟨rfl, Or.inl rfl, Or.inl h⟩⟩
    · rename_i h; exact ⟨rfl, Or.inr ⟨rfl, Or.inr rfl, Or.inr h⟩⟩
    · exact ⟨rfl, Or.inl ⟨rfl, rfl⟩⟩
    · split
      · exact ⟨rfl, Or.inl ⟨rfl, rfl⟩⟩
      · split
        · exact ⟨rfl, Or.inl ⟨rfl, rfl⟩⟩
        · split
          · exact ⟨rfl, Or.inl ⟨rfl, rfl⟩⟩
          · split
            · have hk := handleKeepaliveResponse_dview
                { l with core := { l.core with lastReceived := some now } } data now
              split
              · have hr := recordRttProbe_dview
                  ({ l with core := { l.core with lastReceived := some now } }.handleKeepaliveResponse data now).1
                simp only [dview, Prod.mk.injEq] at hk hr
                exact ⟨by simp [hr.1, hk.1], Or.inl ⟨by simp [hr.2.1, hk.2.1], by simp [hr.2.2, hk.2.2]⟩⟩
              · simp only [dview, Prod.mk.injEq] at hk
                exact ⟨hk.1, Or.inl ⟨hk.2.1, hk.2.2⟩⟩
            · exact ⟨rfl, Or.inl ⟨rfl, rfl⟩⟩

/-- A reset of link `i` by an uplink packet: the packet arrived on this link's socket and is a REG3
or a REG_ERR. -/
def UplinkReset (s : Sys F) (i cid : Nat) (data : Bytes) (now : Nat) (l : FLink F) : Prop :=
  cid = l.core.connId ∧
  ((Reg.processRegistrationPacket s.reg i data now).2 = some .reg3 ∨
   (Reg.processRegistrationPacket s.reg i data now).2 = some .regErr)

theorem uplink_core (s : Sys F) (cid : Nat) (data : Bytes) (now idx : Nat) (l0 l2 : FLink F) (reg1 : Reg.Reg)
    (inc : Incoming) (hidx : s.links.findIdx? (·.core.connId == cid) = some idx) (hl0 : s.links[idx]? = some l0)
    (hc : l2.core.connId = l0.core.connId)
    (hq : (l2.queue = l0.queue ∧ l2.probeCounter = l0.probeCounter) ∨
      (l2.queue = [] ∧ (l2.probeCounter = l0.probeCounter ∨ l2.probeCounter = 0) ∧
        ((Reg.processRegistrationPacket s.reg idx data now).2 = some .reg3 ∨
         (Reg.processRegistrationPacket s.reg idx data now).2 = some .regErr))) :
    let r := processConnectionEvents { s with links := setAt s.links idx l2, reg := reg1 } idx inc now
    r.1.links.length = s.links.length ∧ r.1.failNext = s.failNext ∧ r.1.cfg = s.cfg ∧
    r.1.lastSelected = s.lastSelected ∧
    ∀ (i : Nat) (l : FLink F), s.links[i]? = some l → ∃ l', r.1.links[i]? = some l' ∧
      l'.core.connId = l.core.connId ∧
      ((l'.queue = l.queue ∧ l'.probeCounter = l.probeCounter) ∨
       (l'.queue = [] ∧ (l'.probeCounter = l.probeCounter ∨ l'.probeCounter = 0) ∧
         UplinkReset s i cid data now l)) := by
  dsimp only
  obtain ⟨hd, hf, _, hcf, hls⟩ := processConnectionEvents_dview
    { s with links := setAt s.links idx l2, reg := reg1 } idx inc now
  dsimp only at hd hf hcf hls
  have hlen := congrArg List.length hd
  simp only [List.length_map, setAt_length] at hlen
  refine ⟨hlen, hf, hcf, hls, ?_⟩
  intro i l hl
  have hget := congrArg (fun (x : List (Nat × List QItem × Nat)) => x[i]?) hd
  simp only [List.getElem?_map, setAt_getElem?] at hget
  have hi : i < s.links.length := (List.getElem?_eq_some_iff.1 hl).1
  obtain ⟨l', hl'⟩ : ∃ l', (processConnectionEvents
      { s with links := setAt s.links idx l2, reg := reg1 } idx inc now).1.links[i]? = some l' :=
    ⟨_, List.getElem?_eq_getElem (by rw [hlen]; exact hi)⟩
  rw [hl'] at hget
  refine ⟨l', hl', ?_⟩
  by_cases hii : i = idx
  · subst hii
    rw [hl0] at hl; cases hl
    simp only [if_true, hl0, Option.map_some, Option.some.injEq] at hget
    simp only [dview, Prod.mk.injEq] at hget
    obtain ⟨e1, e2, e3⟩ := hget
    have hcid : cid = l0.core.connId := by
      obtain ⟨hlt, hp, -⟩ := List.findIdx?_eq_some_iff_getElem.1 hidx
      have hli : s.links[i] = l0 := by
        have := List.getElem?_eq_getElem hlt
        rw [hl0] at this; exact (Option.some.inj this).symm
      rw [hli] at hp
      exact (by simpa using hp : l0.core.connId = cid).symm
    refine ⟨by rw [e1, hc], ?_⟩
    rcases hq with h | h
    · exact Or.inl ⟨by rw [e2, h.1], by rw [e3, h.2]⟩
    · refine Or.inr ⟨by rw [e2, h.1], ?_, hcid, h.2.2⟩
      rw [e3]; exact h.2.1
  · simp only [if_neg hii, hl, Option.map_some, Option.some.injEq] at hget
    simp only [dview, Prod.mk.injEq] at hget
    exact ⟨hget.1, Or.inl ⟨hget.2.1, hget.2.2⟩⟩

theorem uplink_links (s : Sys F) (cid : Nat) (data : Bytes) (now : Nat) :
    let r := handleUplinkPacket s cid data now
    r.1.links.length = s.links.length ∧ r.1.failNext = s.failNext ∧ r.1.cfg = s.cfg ∧
    r.1.lastSelected = s.lastSelected ∧
    ∀ (i : Nat) (l : FLink F), s.links[i]? = some l → ∃ l', r.1.links[i]? = some l' ∧
      l'.core.connId = l.core.connId ∧
      ((l'.queue = l.queue ∧ l'.probeCounter = l.probeCounter) ∨
       (l'.queue = [] ∧ (l'.probeCounter = l.probeCounter ∨ l'.probeCounter = 0) ∧
         UplinkReset s i cid data now l)) := by
  dsimp only
  have hsame : (s.links.length = s.links.length ∧ s.failNext = s.failNext ∧ s.cfg = s.cfg ∧
      s.lastSelected = s.lastSelected ∧
      ∀ (i : Nat) (l : FLink F), s.links[i]? = some l → ∃ l', s.links[i]? = some l' ∧
        l'.core.connId = l.core.connId ∧
        ((l'.queue = l.queue ∧ l'.probeCounter = l.probeCounter) ∨
         (l'.queue = [] ∧ (l'.probeCounter = l.probeCounter ∨ l'.probeCounter = 0) ∧
           UplinkReset s i cid data now l))) :=
    ⟨rfl, rfl, rfl, rfl, fun i l hl => ⟨l, hl, rfl, Or.inl ⟨rfl, rfl⟩⟩⟩
  unfold handleUplinkPacket
  split
  · exact hsame
  · split
    · exact hsame
    · rename_i idx hidx
      split
      · exact hsame
      · rename_i l0 hl0
        have hfx := processUplinkPacket_fx l0 idx s.reg s.clientKnown data now
        dsimp only at hfx
        cases hreg1 : (processUplinkPacket l0 idx s.reg s.clientKnown data now).2.2.reg1Send with
        | none =>
          simp only [hreg1]
          exact uplink_core s cid data now idx l0 _ _ _ hidx hl0 hfx.1 hfx.2
        | some p =>
          simp only [hreg1]
          exact uplink_core s cid data now idx l0 _ _ _ hidx hl0 hfx.1 hfx.2

end Srtla.Sys
