import Srtla.Lemmas.ForwardRun
import Srtla.Props.SysReload
/-!
# The 1-in-100 probe RATE bound of C01, BY CONN ID across reloads

`run_probe_rate` (`Lemmas/ForwardRun.lean`, `C01_probe_rate`) counts by link INDEX and carries `NoReload`.  Here the
three quantities are read by conn id — at every event at the index the link with that conn id has THEN, and `0` while
no link carries the id — so that the bound spans reloads:

* a reload consults no probe counter and queues no probe copy;
* a retained link keeps its whole record, its probe counter included, wherever its index moves;
* a created link starts with counter 0; a removed link stops counting.

Only the interface lemmas `run_probe_rate` (one event), `step_ids`, `mem_reload` are used.
-/
namespace Srtla.Sys
open Srtla Srtla.Gen Srtla.Conn Srtla.Link Srtla.Props.SysReload

set_option linter.unusedSectionVars false

variable {F : Type} [Scalar F]

/-- The index of the (first) link that carries conn id `c`. -/
def idxOfId (s : Sys F) (c : Nat) : Option Nat := (ids s.links).findIdx? (· == c)

/-- The probe counter of the link with conn id `c` (`0` while no link carries it). -/
def probeCounterId (s : Sys F) (c : Nat) : Nat :=
  match idxOfId s c with
  | some i => probeCounterOf s i
  | none => 0

/-- Probe copies queued on the link with conn id `c` along a run: per event, read at the index the link has in the
state reached. -/
def probeCopiesId (s : Sys F) : List Ev → Nat → Nat
  | [], _ => 0
  | ev :: evs, c =>
    (match idxOfId s c with
     | some i => probeCopies s [ev] i
     | none => 0) + probeCopiesId (step s ev).1 evs c

/-- Data packets routed to another link while the link with conn id `c` was stall-gated and connected. -/
def gatedRoutedId (s : Sys F) : List Ev → Nat → Nat
  | [], _ => 0
  | ev :: evs, c =>
    (match idxOfId s c with
     | some i => gatedRouted s [ev] i
     | none => 0) + gatedRoutedId (step s ev).1 evs c

theorem idxOfId_some {s : Sys F} {c i : Nat} (h : idxOfId s c = some i) :
    ∃ l, s.links[i]? = some l ∧ l.core.connId = c ∧ l ∈ s.links := by
  unfold idxOfId at h
  obtain ⟨hi, hp, -⟩ := List.findIdx?_eq_some_iff_getElem.1 h
  have hi' : i < s.links.length := by simpa [ids] using hi
  refine ⟨s.links[i], List.getElem?_eq_getElem hi', ?_, List.getElem_mem hi'⟩
  have : (ids s.links)[i] = c := by simpa using hp
  simpa [ids] using this

theorem idxOfId_none {s : Sys F} {c : Nat} (h : idxOfId s c = none) : c ∉ ids s.links := by
  unfold idxOfId at h
  intro hc
  have := List.findIdx?_eq_none_iff.1 h c hc
  simp at this

theorem probeCounterId_of_mem {s : Sys F} (hnd : (ids s.links).Nodup) {l : FLink F} (hl : l ∈ s.links) :
    probeCounterId s l.core.connId = l.probeCounter := by
  unfold probeCounterId
  cases h : idxOfId s l.core.connId with
  | none => exact absurd (List.mem_map.2 ⟨l, hl, rfl⟩) (idxOfId_none h)
  | some i =>
    obtain ⟨m, hm, hc, hmem⟩ := idxOfId_some h
    have : m = l := eq_of_mem_of_connId hnd hmem hl hc
    subst this
    simp [probeCounterOf, hm]

/-- One event. -/
theorem step_probe_rate_id (s : Sys F) (hinv : Inv s) (ev : Ev)
    (hf : ∀ now addrs outs, ev = .reload now addrs outs → FreshOuts s.links outs) (c : Nat) :
    100 * (match idxOfId s c with | some i => probeCopies s [ev] i | none => 0) + probeCounterId (step s ev).1 c ≤
      (match idxOfId s c with | some i => gatedRouted s [ev] i | none => 0) + probeCounterId s c := by
  have hnd := hinv.nodup
  cases hnr : ev.isReload with
  | false =>
    have hids := step_ids s ev hnd hnr
    have hidx : idxOfId (step s ev).1 c = idxOfId s c := by unfold idxOfId; rw [hids]
    unfold probeCounterId
    rw [hidx]
    cases h : idxOfId s c with
    | none => exact Nat.le_refl _
    | some i =>
      obtain ⟨l, hl, -, -⟩ := idxOfId_some h
      have hi : i < s.links.length := (List.getElem?_eq_some_iff.1 hl).1
      have := run_probe_rate s hnd [ev] (fun e he => by
        have : e = ev := by simpa using he
        rw [this]; exact hnr) i hi
      exact this
  | true =>
    cases ev with
    | reload now addrs outs =>
      have h0 : ∀ i, probeCopies s [.reload now addrs outs] i = 0 := fun i => by
        simp [probeCopies, consulted]
      have h1 : (match idxOfId s c with | some i => probeCopies s [.reload now addrs outs] i | none => 0) = 0 := by
        split
        · exact h0 _
        · rfl
      rw [h1]
      suffices hle : probeCounterId (step s (.reload now addrs outs)).1 c ≤ probeCounterId s c by omega
      have hinv' := Inv_step_reload s hinv now addrs outs (hf now addrs outs rfl)
      cases h' : idxOfId (step s (.reload now addrs outs)).1 c with
      | none =>
        have : probeCounterId (step s (.reload now addrs outs)).1 c = 0 := by unfold probeCounterId; rw [h']
        rw [this]; exact Nat.zero_le _
      | some i' =>
        obtain ⟨l', -, hc', hmem'⟩ := idxOfId_some h'
        have hL : probeCounterId (step s (.reload now addrs outs)).1 c = l'.probeCounter := by
          rw [← hc']; exact probeCounterId_of_mem hinv'.nodup hmem'
        rw [hL]
        rcases mem_reload hmem' with ⟨hm, -⟩ | ⟨id, a, -, -, rfl⟩
        · rw [← hc', probeCounterId_of_mem hinv.nodup hm]
          exact Nat.le_refl _
        · exact Nat.zero_le _
    | _ => cases hnr

/-- **Probe rate by conn id over ANY run**, reloads included (`Inv` of the start state, `FreshRun`). -/
theorem run_probe_rate_id (s : Sys F) (hinv : Inv s) (evs : List Ev) (hf : FreshRun s evs) (c : Nat) :
    100 * probeCopiesId s evs c + probeCounterId (run s evs).1 c ≤ gatedRoutedId s evs c + probeCounterId s c := by
  induction evs generalizing s with
  | nil => simp [probeCopiesId, gatedRoutedId, run]
  | cons ev evs ih =>
    have h1 := step_probe_rate_id s hinv ev hf.1 c
    have h2 := ih (step s ev).1 (Inv_step_fresh s hinv ev hf.1) hf.2
    simp only [probeCopiesId, gatedRoutedId, run]
    omega

end Srtla.Sys
