import Srtla.Gen.Constants
/-!
# `send_all_datagrams` (src/net/mod.rs): the chunked `sendmmsg` loop

In `Model/Sys.lean` a batch send either succeeds whole or fails after a PREFIX of the batch went out (`failNext`:
nothing went out; `failAfter cid k`: the first `min k len` datagrams - round 8); how many is an input of the model.
The real function loops:
it offers at most `chunk` (= `BATCH_SEND_SIZE`) datagrams per `sendmmsg`, the kernel accepts a prefix
of what was offered (possibly short), `Ok(0)` and `Err` abort.  Here the loop is transcribed by hand
with the kernel's answers as a parameter (`oracle`), and it is proved that
* whatever the kernel answers, what went out is a PREFIX of the offered batch (same bytes, same
  order, each datagram once);
* if the function returns `Ok(())` what went out is exactly the offered batch;
* fuel = batch length is enough (the loop makes progress on every iteration).
This file is proof-side only: SHORT kernel answers (`sendmmsg` accepting fewer than offered without an error) are not
exercised by the harness; a failure after the first `k` datagrams is (ops `failafter`, hook `verif_fail::fail_after`).
-/
namespace Srtla.SendAll

abbrev Bytes := List UInt8

/-- Answer of one `sendmmsg` call: accepted the first `n` of the offered datagrams, or an error. -/
inductive SendRes where
  | ok (n : Nat)
  | err
deriving Repr, DecidableEq

inductive Outcome where
  | okAll       -- `Ok(())`
  | failed      -- `Err(_)` (kernel error or `Ok(0)`: WriteZero)
  | outOfFuel   -- model artefact; proved unreachable with fuel = batch length
deriving Repr, DecidableEq

/-- The `while sent < total` loop. `rest` = `bufs[sent..]`, `acc` = what the kernel accepted so far. -/
def go (chunk : Nat) : Nat → List SendRes → List Bytes → List Bytes → Outcome × List Bytes
  | _, _, [], acc => (.okAll, acc)
  | 0, _, _ :: _, acc => (.outOfFuel, acc)
  | _ + 1, [], _ :: _, acc => (.failed, acc)
  | _ + 1, .err :: _, _ :: _, acc => (.failed, acc)
  | fuel + 1, .ok n :: os, b :: bs, acc =>
    let take := min (b :: bs).length chunk
    let n' := min n take            -- the kernel cannot accept more than it was offered
    if n' = 0 then (.failed, acc)
    else go chunk fuel os ((b :: bs).drop n') (acc ++ (b :: bs).take n')

/-- `send_all_datagrams(socket, bufs)` with the kernel's answers `oracle`. -/
def sendAll (chunk : Nat) (oracle : List SendRes) (bufs : List Bytes) : Outcome × List Bytes :=
  go chunk bufs.length oracle bufs []

theorem go_spec (chunk : Nat) :
    ∀ (fuel : Nat) (oracle : List SendRes) (rest acc : List Bytes), rest.length ≤ fuel →
      ∃ k, (go chunk fuel oracle rest acc).2 = acc ++ rest.take k ∧
        (go chunk fuel oracle rest acc).1 ≠ .outOfFuel ∧
        ((go chunk fuel oracle rest acc).1 = .okAll → (go chunk fuel oracle rest acc).2 = acc ++ rest) := by
  intro fuel
  induction fuel with
  | zero =>
    intro oracle rest acc h
    cases rest with
    | nil => exact ⟨0, by simp [go], by simp [go], by simp [go]⟩
    | cons b bs => simp at h
  | succ fuel ih =>
    intro oracle rest acc h
    cases rest with
    | nil => exact ⟨0, by simp [go], by simp [go], by simp [go]⟩
    | cons b bs =>
      cases oracle with
      | nil => exact ⟨0, by simp [go], by simp [go], by simp [go]⟩
      | cons o os =>
        cases o with
        | err => exact ⟨0, by simp [go], by simp [go], by simp [go]⟩
        | ok n =>
          simp only [go]
          split
          · exact ⟨0, by simp, by simp, by simp⟩
          · rename_i hn
            have hlen : ((b :: bs).drop (min n (min (b :: bs).length chunk))).length ≤ fuel := by
              simp only [List.length_drop, List.length_cons] at h ⊢; omega
            obtain ⟨k, h1, h2, h3⟩ := ih os _ (acc ++ (b :: bs).take (min n (min (b :: bs).length chunk))) hlen
            refine ⟨min n (min (b :: bs).length chunk) + k, ?_, h2, ?_⟩
            · rw [h1, List.append_assoc, List.take_add]
            · intro hok
              rw [h3 hok, List.append_assoc, List.take_append_drop]

/-- **`send_all_complete`**: if `send_all_datagrams` returns `Ok(())`, the datagrams the kernel
accepted are exactly the offered ones, in order, each once.  Whatever it returns, the accepted
datagrams are a prefix of the offered ones (nothing reordered, duplicated or altered), and the loop
never needs more iterations than there are datagrams. -/
theorem send_all_complete (chunk : Nat) (oracle : List SendRes) (bufs : List Bytes) :
    ((sendAll chunk oracle bufs).1 = .okAll → (sendAll chunk oracle bufs).2 = bufs) ∧
    (sendAll chunk oracle bufs).2 <+: bufs ∧
    (sendAll chunk oracle bufs).1 ≠ .outOfFuel := by
  obtain ⟨k, h1, h2, h3⟩ := go_spec chunk bufs.length oracle bufs [] (Nat.le_refl _)
  unfold sendAll
  refine ⟨fun h => by simpa using h3 h, ?_, h2⟩
  rw [h1, List.nil_append]
  exact List.take_prefix _ _

/-- A kernel that accepts everything it is offered, three datagrams, chunks of two: two calls. -/
example : sendAll 2 [.ok 2, .ok 1] [[1], [2], [3]] = (.okAll, [[1], [2], [3]]) := by decide
/-- A short send followed by an error: a prefix went out. -/
example : sendAll 2 [.ok 1, .err] [[1], [2], [3]] = (.failed, [[1]]) := by decide

end Srtla.SendAll
