import Srtla.Model.Hub
/-!
# Lemmas for the subscription hub (C20): inductive invariants of the small-step semantics
-/
namespace Srtla.Hub

/-- Case analysis of `step s t = some s'` into its 20 leaves, with `s'` substituted. -/
macro "step_cases" h:ident : tactic => `(tactic| (
  unfold step at $h:ident
  split at $h:ident
  all_goals (try split at $h:ident)
  all_goals (try split at $h:ident)
  all_goals (try simp only [Option.some.injEq, reduceCtorEq] at $h:ident)
  all_goals (try subst $h:ident)))

/-! ## Reachability -/

/-- Reachable from a fresh system under SOME schedule; theorems quantify over all of them. -/
def Reachable (s : Sys) : Prop := ∃ caps progs sched, s = exec (init caps progs) sched

theorem exec_append (s : Sys) (a b : List Nat) : exec s (a ++ b) = exec (exec s a) b := by
  simp [exec, List.foldl_append]

theorem exec_cons (s : Sys) (t : Nat) (l : List Nat) : exec s (t :: l) = exec (stepOrStay s t) l := rfl

theorem inv_exec {P : Sys → Prop} (hs : ∀ s t s', P s → step s t = some s' → P s')
    (sched : List Nat) : ∀ s, P s → P (exec s sched) := by
  induction sched with
  | nil => intro s h; exact h
  | cons t l ih =>
    intro s h
    rw [exec_cons]
    apply ih
    unfold stepOrStay
    cases hst : step s t with
    | none => simpa using h
    | some s' => simpa using hs s t s' h hst

theorem reach_induct {P : Sys → Prop} (h0 : ∀ caps progs, P (init caps progs))
    (hs : ∀ s t s', P s → step s t = some s' → P s') : ∀ s, Reachable s → P s := by
  rintro s ⟨caps, progs, sched, rfl⟩
  exact inv_exec hs sched _ (h0 caps progs)

theorem Reachable.next {s s' : Sys} {t : Nat} (h : Reachable s) (hst : step s t = some s') :
    Reachable s' := by
  obtain ⟨caps, progs, sched, rfl⟩ := h
  refine ⟨caps, progs, sched ++ [t], ?_⟩
  rw [exec_append, exec_cons]
  show s' = stepOrStay _ t
  unfold stepOrStay
  rw [hst]; rfl

theorem Reachable.exec {s : Sys} (h : Reachable s) (sched : List Nat) : Reachable (exec s sched) := by
  obtain ⟨caps, progs, sched0, rfl⟩ := h
  exact ⟨caps, progs, sched0 ++ sched, by rw [exec_append]⟩

/-! ## Mutex discipline -/

/-- A task is inside a critical section iff the mutex records it as the holder. -/
def LockInv (s : Sys) : Prop := ∀ t, (s.tasks t).pc.holds = true ↔ s.lock = some t

theorem lockInv_init (caps progs) : LockInv (init caps progs) := by
  intro t; simp [init, Pc.holds]

theorem lockInv_step {s s' : Sys} {t : Nat} (hi : LockInv s) (h : step s t = some s') : LockInv s' := by
  have ht := hi t
  intro t'
  have ht' := hi t'
  step_cases h
  all_goals (simp [Sys.setPc, Sys.finish, Sys.setHub, Sys.setLock, upd_apply, Pc.holds] at *)
  all_goals grind

/-! ## Ids -/

theorem mem_removeId {es : List Entry} {k : Nat} {e : Entry} :
    e ∈ removeId es k ↔ e ∈ es ∧ e.id ≠ k := by
  simp [removeId]

theorem mem_pruneEntries {es : List Entry} {pr : List Nat} {e : Entry} :
    e ∈ pruneEntries es pr ↔ e ∈ es ∧ e.id ∉ pr := by
  simp [pruneEntries]

theorem removeId_sublist (es : List Entry) (k : Nat) : (removeId es k).Sublist es := by
  unfold removeId; exact List.filter_sublist

theorem pruneEntries_sublist (es : List Entry) (pr : List Nat) : (pruneEntries es pr).Sublist es := by
  unfold pruneEntries; exact List.filter_sublist

/-- Ids in the table are pairwise distinct and below the counter; an id that has been fetched but
not yet pushed is below the counter, not in the table, and fetched by exactly one task. -/
def IdInv (s : Sys) : Prop :=
  (s.hub.entries.map (·.id)).Nodup ∧
  (∀ e ∈ s.hub.entries, e.id < s.hub.nextId) ∧
  (∀ t k, (s.tasks t).pc.pendingId = some k → k < s.hub.nextId ∧ ∀ e ∈ s.hub.entries, e.id ≠ k) ∧
  (∀ t t' k, (s.tasks t).pc.pendingId = some k → (s.tasks t').pc.pendingId = some k → t = t')

theorem idInv_init (caps progs) : IdInv (init caps progs) := by
  simp [IdInv, init, emptyHub, Pc.pendingId]

set_option maxHeartbeats 1000000 in
theorem idInv_step {s s' : Sys} {t : Nat} (hi : IdInv s) (h : step s t = some s') : IdInv s' := by
  obtain ⟨h1, h2, h3, h4⟩ := hi
  have h3t := h3 t
  have h4t := h4 t
  step_cases h
  all_goals (simp only [IdInv, Sys.setPc, Sys.finish, Sys.setHub, Sys.setLock])
  all_goals (refine ⟨?_, ?_, ?_, ?_⟩)
  all_goals (try assumption)
  all_goals (try (grind [Pc.pendingId, mem_removeId, mem_pruneEntries, upd_apply]))
  · exact List.Nodup.sublist ((removeId_sublist _ _).map _) h1
  · exact List.Nodup.sublist ((pruneEntries_sublist _ _).map _) h1

/-! ## Issued records -/

/-- The record a `subscribe` in progress has been issued but has not pushed yet. -/
def Pc.subRec : Pc → Option Entry
  | .subId topic chan id | .subLocked topic chan id => some { id := id, topic := topic, chan := chan }
  | _ => none

/-- `issued` lists every id below the counter exactly once; table entries and entries about to be
pushed are issued records (so the topic and channel of an id never change). -/
def IssuedInv (s : Sys) : Prop :=
  s.issued.map (·.id) = List.range s.hub.nextId ∧
  (∀ e ∈ s.hub.entries, e ∈ s.issued) ∧
  (∀ t e, (s.tasks t).pc.subRec = some e → e ∈ s.issued)

theorem issuedInv_init (caps progs) : IssuedInv (init caps progs) := by
  simp [IssuedInv, init, emptyHub, Pc.subRec]

set_option maxHeartbeats 1000000 in
theorem issuedInv_step {s s' : Sys} {t : Nat} (hi : IssuedInv s) (h : step s t = some s') :
    IssuedInv s' := by
  obtain ⟨h1, h2, h3⟩ := hi
  have h3t := h3 t
  step_cases h
  all_goals (simp only [IssuedInv, Sys.setPc, Sys.finish, Sys.setHub, Sys.setLock])
  all_goals (refine ⟨?_, ?_, ?_⟩)
  all_goals (try assumption)
  all_goals (try (grind [Pc.subRec, mem_removeId, mem_pruneEntries, upd_apply, List.range_succ]))

/-! ## The loop body -/

/-- The message `publish(topic, payload)` builds for entry `e`. -/
def mkMsg (topic : Topic) (payload seq : Nat) (e : Entry) : Msg :=
  { topic := topic, sub := e.id, payload := payload, seq := seq }

/-- The loop body enqueues. -/
def Delivers (chans : Nat → Chan) (topic : Topic) (e : Entry) : Prop :=
  e.topic = topic ∧ (chans e.chan).closed = false ∧ (chans e.chan).queue.length < (chans e.chan).cap

instance (chans : Nat → Chan) (topic : Topic) (e : Entry) : Decidable (Delivers chans topic e) := by
  unfold Delivers; infer_instance

theorem sendTo_chans (chans : Nat → Chan) (prune : List Nat) (topic : Topic) (p seq : Nat) (e : Entry) :
    (sendTo chans prune topic p seq e).1 =
      if Delivers chans topic e then
        upd chans e.chan { chans e.chan with
          queue := (chans e.chan).queue ++ [mkMsg topic p seq e]
          sent := (chans e.chan).sent ++ [mkMsg topic p seq e] }
      else chans := by
  unfold sendTo trySend Delivers mkMsg
  by_cases h1 : e.topic = topic <;> by_cases h2 : (chans e.chan).closed = true <;>
    by_cases h3 : (chans e.chan).cap ≤ (chans e.chan).queue.length <;> simp [h1, h2, h3] <;> omega

theorem sendTo_prune (chans : Nat → Chan) (prune : List Nat) (topic : Topic) (p seq : Nat) (e : Entry) :
    (sendTo chans prune topic p seq e).2 =
      if e.topic = topic ∧ (chans e.chan).closed = true then prune ++ [e.id] else prune := by
  unfold sendTo trySend
  by_cases h1 : e.topic = topic <;> by_cases h2 : (chans e.chan).closed = true <;>
    by_cases h3 : (chans e.chan).cap ≤ (chans e.chan).queue.length <;> simp [h1, h2, h3]

/-! ## Small facts -/

theorem holder_unique {s : Sys} (hl : LockInv s) {a b : Nat} (ha : (s.tasks a).pc.holds = true)
    (hb : (s.tasks b).pc.holds = true) : a = b := by
  have h1 := (hl a).mp ha
  have h2 := (hl b).mp hb
  rw [h1] at h2
  exact Option.some.inj h2

theorem getElem?_lt {α : Type} {l : List α} {i : Nat} {x : α} (h : l[i]? = some x) : i < l.length :=
  (List.getElem?_eq_some_iff.mp h).1

theorem entry_idx_inj {es : List Entry} {i j : Nat} {a b : Entry} (hn : (es.map (·.id)).Nodup)
    (hi : es[i]? = some a) (hj : es[j]? = some b) (h : a.id = b.id) : i = j := by
  have hi' : (es.map (·.id))[i]? = some a.id := by simp [hi]
  have hj' : (es.map (·.id))[j]? = some a.id := by simp [hj, h]
  have hlt : i < (es.map (·.id)).length := getElem?_lt hi'
  exact (List.getElem?_inj hlt hn).mp (hi'.trans hj'.symm)

@[simp] theorem recvChan_sent (ch : Chan) : (recvChan ch).1.sent = ch.sent := by
  unfold recvChan; split <;> rfl
@[simp] theorem recvChan_closed (ch : Chan) : (recvChan ch).1.closed = ch.closed := by
  unfold recvChan; split <;> rfl
@[simp] theorem recvChan_cap (ch : Chan) : (recvChan ch).1.cap = ch.cap := by
  unfold recvChan; split <;> rfl
@[simp] theorem recvChan_stream (ch : Chan) :
    (recvChan ch).1.got ++ (recvChan ch).1.queue = ch.got ++ ch.queue := by
  unfold recvChan; split <;> simp_all

/-! ## Messages -/

/-- Everything ever enqueued: carries an issued id with that id's topic on that id's channel, is an
entry of the publish log, and per id the log positions strictly increase.  What the receiver took
out is a prefix of what was enqueued.  While a publish is inside its loop at index `i`, it is the
last log entry and no entry at position `≥ i` has got its message yet. -/
def MsgInv (s : Sys) : Prop :=
  s.log.length = s.hub.pubs ∧
  (∀ c m, m ∈ (s.hub.chans c).sent →
    (∃ e ∈ s.issued, e.id = m.sub ∧ e.topic = m.topic ∧ e.chan = c) ∧
    s.log[m.seq]? = some (m.topic, m.payload)) ∧
  (∀ c, (s.hub.chans c).sent.Pairwise (fun a b => a.sub = b.sub → a.seq < b.seq)) ∧
  (∀ c, (s.hub.chans c).closed = false →
    (s.hub.chans c).got ++ (s.hub.chans c).queue = (s.hub.chans c).sent) ∧
  (∀ c, (s.hub.chans c).closed = true →
    (s.hub.chans c).queue = [] ∧ (s.hub.chans c).got <+: (s.hub.chans c).sent) ∧
  (∀ t topic p seq i prune must, (s.tasks t).pc = .pubIter topic p seq i prune must →
    seq + 1 = s.log.length ∧ s.log[seq]? = some (topic, p) ∧
    ∀ j e, i ≤ j → s.hub.entries[j]? = some e →
      ∀ m ∈ (s.hub.chans e.chan).sent, m.sub = e.id → m.seq < seq)

theorem msgInv_init (caps progs) : MsgInv (init caps progs) := by
  simp [MsgInv, init, emptyHub, freshChan]

set_option maxHeartbeats 2000000 in
theorem msgInv_step {s s' : Sys} {t : Nat} (hl : LockInv s) (hid : IdInv s) (his : IssuedInv s)
    (hi : MsgInv s) (h : step s t = some s') : MsgInv s' := by
  obtain ⟨h1, h2, h3, h4, h5, h6⟩ := hi
  have h6t := h6 t
  have hlt := hl t
  have hu := @holder_unique s hl
  have hlk : ∀ c m, m ∈ (s.hub.chans c).sent → m.seq < s.log.length := fun c m hm =>
    getElem?_lt (h2 c m hm).2
  have hinj := @entry_idx_inj s.hub.entries
  have hnd := hid.1
  have hiss := his.2.1
  step_cases h
  all_goals (simp only [MsgInv, Sys.setPc, Sys.finish, Sys.setHub, Sys.setLock, sendTo_chans, sendTo_prune])
  all_goals (refine ⟨?_, ?_, ?_, ?_, ?_, ?_⟩)
  all_goals (try assumption)
  case h_4.isFalse.refine_6 =>
    rename_i x1 hpc x2 topic p tl hprog hfree
    intro t1 topic' p' seq' i' prune' must'
    simp only [upd_apply]
    split
    · intro heq
      simp only [Pc.pubIter.injEq] at heq
      obtain ⟨rfl, rfl, rfl, rfl, rfl, rfl⟩ := heq
      refine ⟨by simp [h1], by simp [← h1], ?_⟩
      intro j e _ _ m hm _
      rw [← h1]; exact hlk _ m hm
    · intro heq
      have := (hl t1).mp (by rw [heq]; rfl)
      rw [this] at hfree; simp at hfree
  case h_1.refine_3 =>
    rename_i x1 topic p seq i prune must hpc x2 e he
    obtain ⟨hs1, hs2, hs3⟩ := h6t _ _ _ _ _ _ hpc
    intro c
    split
    · simp only [upd_apply]
      split
      · rename_i hc; subst hc
        simp only []
        rw [List.pairwise_append]
        refine ⟨h3 _, by simp, ?_⟩
        intro a ha b hb hab
        simp only [List.mem_singleton] at hb
        subst hb
        simp only [mkMsg] at hab ⊢
        exact hs3 i e (Nat.le_refl _) he a ha hab
      · exact h3 c
    · exact h3 c
  case h_1.refine_6 =>
    rename_i x1 topic p seq i prune must hpc x2 e he
    obtain ⟨hs1, hs2, hs3⟩ := h6t _ _ _ _ _ _ hpc
    intro t1 topic' p' seq' i' prune' must'
    simp only [upd_apply]
    split
    · intro heq
      simp only [Pc.pubIter.injEq] at heq
      obtain ⟨rfl, rfl, rfl, rfl, _, rfl⟩ := heq
      refine ⟨hs1, hs2, ?_⟩
      intro j e' hj hej m hm hsub
      split at hm
      · simp only [upd_apply] at hm
        split at hm
        · simp only [List.mem_append, List.mem_singleton] at hm
          rcases hm with hm | rfl
          · rename_i hc
            exact hs3 j e' (by omega) hej m (hc ▸ hm) hsub
          · simp only [mkMsg] at hsub
            have := hinj hnd he hej hsub
            omega
        · exact hs3 j e' (by omega) hej m hm hsub
      · exact hs3 j e' (by omega) hej m hm hsub
    · intro heq
      have h1' : (s.tasks t1).pc.holds = true := by rw [heq]; rfl
      have h2' : (s.tasks t).pc.holds = true := by rw [hpc]; rfl
      have := hu h1' h2'
      contradiction
  all_goals (grind [upd_apply, Pc.holds, recvChan_sent, recvChan_closed, recvChan_stream, closeChan,
    List.prefix_append, List.pairwise_append, Delivers, mkMsg])

/-! ## Ids that are gone for good -/

/-- `k` has been issued and its `push` has happened (or `k` was never going to be pushed). -/
def Settled (s : Sys) (k : Nat) : Prop :=
  k < s.hub.nextId ∧ ∀ t, (s.tasks t).pc.pendingId ≠ some k

/-- `k` is not in the table and can never enter it again. -/
def Dead (s : Sys) (k : Nat) : Prop := Settled s k ∧ ∀ e ∈ s.hub.entries, e.id ≠ k

set_option maxHeartbeats 1000000 in
theorem settled_step {s s' : Sys} {t k : Nat} (hs : Settled s k) (h : step s t = some s') :
    Settled s' k := by
  obtain ⟨h1, h2⟩ := hs
  have h2t := h2 t
  step_cases h
  all_goals (simp only [Settled, Sys.setPc, Sys.finish, Sys.setHub, Sys.setLock])
  all_goals (refine ⟨?_, ?_⟩)
  all_goals (try assumption)
  all_goals (grind [Pc.pendingId, upd_apply])

set_option maxHeartbeats 1000000 in
theorem dead_step {s s' : Sys} {t k : Nat} (hd : Dead s k) (h : step s t = some s') : Dead s' k := by
  refine ⟨settled_step hd.1 h, ?_⟩
  obtain ⟨⟨h1, h2⟩, h3⟩ := hd
  have h2t := h2 t
  step_cases h
  all_goals (simp only [Sys.setPc, Sys.finish, Sys.setHub, Sys.setLock])
  all_goals (try assumption)
  all_goals (grind [Pc.pendingId, upd_apply, mem_removeId, mem_pruneEntries])

theorem entry_eq_of_id {es : List Entry} {a b : Entry} (hn : (es.map (·.id)).Nodup) (ha : a ∈ es)
    (hb : b ∈ es) (h : a.id = b.id) : a = b := by
  obtain ⟨i, hi⟩ := List.getElem?_of_mem ha
  obtain ⟨j, hj⟩ := List.getElem?_of_mem hb
  have := entry_idx_inj hn hi hj h
  subst this
  rw [hi] at hj
  exact Option.some.inj hj

theorem removeId_length_ne {es : List Entry} {k : Nat} (h : (removeId es k).length ≠ es.length) :
    ∃ e ∈ es, e.id = k := by
  apply Classical.byContradiction
  intro hne
  apply h
  unfold removeId
  rw [List.filter_eq_self.mpr]
  intro e he
  have : e.id ≠ k := fun hk => hne ⟨e, he, hk⟩
  simpa using this

theorem mem_mustOf {h : Hub} {topic : Topic} {k : Nat} :
    k ∈ mustOf h topic ↔ ∃ e ∈ h.entries, (e.topic = topic ∧ (h.chans e.chan).closed = true) ∧ e.id = k := by
  simp [mustOf, and_assoc]

/-! ## Mutex waits only; critical sections are short -/

/-- Steps the holder still has to take before it releases the mutex. -/
def csRemaining (s : Sys) (t : Nat) : Nat :=
  match (s.tasks t).pc with
  | .subLocked .. => 2
  | .subPushed .. => 1
  | .unsubLocked .. => 2
  | .unsubDone .. => 1
  | .pubIter _ _ _ i _ _ => (s.hub.entries.length - i) + 1
  | .pubPruneLocked .. => 2
  | .pubPruned .. => 1
  | .lenLocked => 1
  | _ => 0

/-- The only guard in `step` is the mutex (or an empty program). -/
theorem step_none_iff (s : Sys) (t : Nat) :
    step s t = none ↔
      ((s.tasks t).pc = .idle ∧ (s.tasks t).prog = []) ∨
      (s.lock.isSome = true ∧ (s.tasks t).pc.holds = false ∧
        ¬ ((s.tasks t).pc = .idle ∧ ∃ r, (s.tasks t).prog = r ∧
          match r with | .sub .. :: _ | .recv .. :: _ | .close .. :: _ | [] => True | _ => False)) := by
  unfold step
  split
  all_goals (try split)
  all_goals (try split)
  all_goals (simp_all [Pc.holds])

/-- Replacing every channel by anything else does not change whether a step is enabled. -/
theorem step_enabled_indep_of_chans (s : Sys) (t : Nat) (chans' : Nat → Chan) :
    (step s t).isSome = (step { s with hub := { s.hub with chans := chans' } } t).isSome := by
  unfold step
  simp only []
  split
  all_goals (try split)
  all_goals (try split)
  all_goals (try rfl)
  all_goals (try split)
  all_goals (try rfl)

theorem holder_enabled {s : Sys} {t : Nat} (hl : LockInv s) (h : s.lock = some t) :
    ∃ s', step s t = some s' := by
  have hh := (hl t).mpr h
  unfold step
  revert hh
  cases hpc : (s.tasks t).pc <;> simp [Pc.holds]
  · split
    · exact ⟨_, rfl⟩
    · split <;> exact ⟨_, rfl⟩

/-- A step of the holder either releases the mutex or strictly decreases `csRemaining`. -/
theorem holder_progress {s s' : Sys} {t : Nat} (hl : LockInv s) (h : s.lock = some t)
    (hst : step s t = some s') : s'.lock = none ∨ (s'.lock = some t ∧ csRemaining s' t < csRemaining s t) := by
  have hh := (hl t).mpr h
  step_cases hst
  all_goals (simp_all [Pc.holds, csRemaining, Sys.setPc, Sys.finish, Sys.setHub, Sys.setLock])
  rename_i i _ _ _ _ _ he
  have := getElem?_lt he
  omega

theorem csRemaining_pos {s : Sys} {t : Nat} (hl : LockInv s) (h : s.lock = some t) :
    0 < csRemaining s t := by
  have hh := (hl t).mpr h
  unfold csRemaining
  revert hh
  cases (s.tasks t).pc <;> simp [Pc.holds]

/-- Whatever any other task does while `t` holds the mutex — subscriber steps included — it neither
takes the mutex away nor changes what `t` has left to do. -/
theorem others_cannot_delay {s s' : Sys} {t t' : Nat} (hl : LockInv s) (h : s.lock = some t)
    (hne : t' ≠ t) (hst : step s t' = some s') :
    s'.lock = some t ∧ s'.tasks t = s.tasks t ∧ s'.hub.entries = s.hub.entries := by
  have hh : (s.tasks t').pc.holds = false := by
    cases hb : (s.tasks t').pc.holds
    · rfl
    · have := (hl t').mp hb
      rw [h] at this
      exact absurd (Option.some.inj this).symm hne
  have hne' : t ≠ t' := fun e => hne e.symm
  step_cases hst
  all_goals (simp_all [Pc.holds, Sys.setPc, Sys.finish, Sys.setHub, Sys.setLock, upd_apply])

theorem csRemaining_congr {s s' : Sys} {t : Nat} (h1 : s'.tasks t = s.tasks t)
    (h2 : s'.hub.entries = s.hub.entries) : csRemaining s' t = csRemaining s t := by
  unfold csRemaining; rw [h1, h2]

/-- **Bounded critical sections under every schedule.**  If `t` holds the mutex, then in any schedule
that gives `t` at least `csRemaining s t` turns the mutex has been released after at most that many
of `t`'s own turns, no matter which other tasks run in between and what they do. -/
theorem cs_bounded : ∀ (sched : List Nat) {s : Sys} {t : Nat}, LockInv s → s.lock = some t →
    csRemaining s t ≤ sched.count t →
    ∃ pre suf, sched = pre ++ suf ∧ (exec s pre).lock ≠ some t ∧ pre.count t ≤ csRemaining s t := by
  intro sched
  induction sched with
  | nil =>
    intro s t hl h hc
    have := csRemaining_pos hl h
    simp at hc; omega
  | cons x l ih =>
    intro s t hl h hc
    by_cases hx : x = t
    · subst hx
      obtain ⟨s1, hs1⟩ := holder_enabled hl h
      have hl1 := lockInv_step hl hs1
      rcases holder_progress hl h hs1 with hrel | ⟨hk, hlt⟩
      · refine ⟨[x], l, rfl, ?_, ?_⟩
        · simp [exec, stepOrStay, hs1, hrel]
        · have := csRemaining_pos hl h; simp; omega
      · have hc' : csRemaining s1 x ≤ l.count x := by simp at hc; omega
        obtain ⟨pre, suf, rfl, hp1, hp2⟩ := ih hl1 hk hc'
        refine ⟨x :: pre, suf, rfl, ?_, ?_⟩
        · rw [exec_cons]; simpa [stepOrStay, hs1] using hp1
        · simp; omega
    · cases hst : step s x with
      | none =>
        have hc' : csRemaining s t ≤ l.count t := by
          rw [List.count_cons_of_ne hx] at hc; exact hc
        obtain ⟨pre, suf, rfl, hp1, hp2⟩ := ih hl h hc'
        refine ⟨x :: pre, suf, rfl, ?_, ?_⟩
        · rw [exec_cons]; simpa [stepOrStay, hst] using hp1
        · rw [List.count_cons_of_ne hx]; exact hp2
      | some s1 =>
        obtain ⟨hk, htk, hen⟩ := others_cannot_delay hl h hx hst
        have hl1 := lockInv_step hl hst
        have hcs := csRemaining_congr htk hen
        have hc' : csRemaining s1 t ≤ l.count t := by
          rw [List.count_cons_of_ne hx] at hc; omega
        obtain ⟨pre, suf, rfl, hp1, hp2⟩ := ih hl1 hk hc'
        refine ⟨x :: pre, suf, rfl, ?_, ?_⟩
        · rw [exec_cons]; simpa [stepOrStay, hst] using hp1
        · rw [List.count_cons_of_ne hx]; omega

end Srtla.Hub
