import Srtla.Model.Hub
/-!
# Lemmas for the subscription hub (C20): inductive invariants of the small-step semantics
-/
namespace Srtla.Hub

/-- Case analysis of `step s t = some s'` into its 20 leaves, with `s'` substituted. -/
macro "step_cases" h:ident : tactic => `(tactic| (
  unfold step at $h:ident
  split at $h:ident
  all_goals (try split at $h:ident)
  all_goals (try split at $h:ident)
  all_goals (try simp only [Option.some.injEq, reduceCtorEq] at $h:ident)
  all_goals (try subst $h:ident)))

/-! ## Reachability -/

/-- Reachable from a fresh system under SOME schedule; theorems quantify over all of them. -/
def Reachable (s : Sys) : Prop := ∃ caps progs sched, s = exec (init caps progs) sched

theorem exec_append (s : Sys) (a b : List Nat) : exec s (a ++ b) = exec (exec s a) b := by
  simp [exec, List.foldl_append]

theorem exec_cons (s : Sys) (t : Nat) (l : List Nat) : exec s (t :: l) = exec (stepOrStay s t) l := rfl

theorem inv_exec {P : Sys → Prop} (hs : ∀ s t s', P s → step s t = some s' → P s')
    (sched : List Nat) : ∀ s, P s → P (exec s sched) := by
  induction sched with
  | nil => intro s h; exact h
  | cons t l ih =>
    intro s h
    rw [exec_cons]
    apply ih
    unfold stepOrStay
    cases hst : step s t with
    | none => simpa using h
    | some s' => simpa using hs s t s' h hst

theorem reach_induct {P : Sys → Prop} (h0 : ∀ caps progs, P (init caps progs))
    (hs : ∀ s t s', P s → step s t = some s' → P s') : ∀ s, Reachable s → P s := by
  rintro s ⟨caps, progs, sched, rfl⟩
  exact inv_exec hs sched _ (h0 caps progs)

theorem Reachable.next {s s' : Sys} {t : Nat} (h : Reachable s) (hst : step s t = some s') :
    Reachable s' := by
  obtain ⟨caps, progs, sched, rfl⟩ := h
  refine ⟨caps, progs, sched ++ [t], ?_⟩
  rw [exec_append, exec_cons]
  show s' = stepOrStay _ t
  unfold stepOrStay
  rw [hst]; rfl

theorem Reachable.exec {s : Sys} (h : Reachable s) (sched : List Nat) : Reachable (exec s sched) := by
  obtain ⟨caps, progs, sched0, rfl⟩ := h
  exact ⟨caps, progs, sched0 ++ sched, by rw [exec_append]⟩

/-! ## Mutex discipline -/

/-- A task is inside a critical section iff the mutex records it as the holder. -/
def LockInv (s : Sys) : Prop := ∀ t, (s.tasks t).pc.holds = true ↔ s.lock = some t

theorem lockInv_init (caps progs) : LockInv (init caps progs) := by
  intro t; simp [init, Pc.holds]

theorem lockInv_step {s s' : Sys} {t : Nat} (hi : LockInv s) (h : step s t = some s') : LockInv s' := by
  have ht := hi t
  intro t'
  have ht' := hi t'
  step_cases h
  all_goals (simp [Sys.setPc, Sys.finish, Sys.setHub, Sys.setLock, upd_apply, Pc.holds] at *)
  all_goals grind

/-! ## Ids -/

theorem mem_removeId {es : List Entry} {k : Nat} {e : Entry} :
    e ∈ removeId es k ↔ e ∈ es ∧ e.id ≠ k := by
  simp [removeId]

theorem mem_pruneEntries {es : List Entry} {pr : List Nat} {e : Entry} :
    e ∈ pruneEntries es pr ↔ e ∈ es ∧ e.id ∉ pr := by
  simp [pruneEntries]

theorem removeId_sublist (es : List Entry) (k : Nat) : (removeId es k).Sublist es := by
  unfold removeId; exact List.filter_sublist

theorem pruneEntries_sublist (es : List Entry) (pr : List Nat) : (pruneEntries es pr).Sublist es := by
  unfold pruneEntries; exact List.filter_sublist

/-- Ids in the table are pairwise distinct and below the counter; an id that has been fetched but
not yet pushed is below the counter, not in the table, and fetched by exactly one task. -/
def IdInv (s : Sys) : Prop :=
  (s.hub.entries.map (·.id)).Nodup ∧
  (∀ e ∈ s.hub.entries, e.id < s.hub.nextId) ∧
  (∀ t k, (s.tasks t).pc.pendingId = some k → k < s.hub.nextId ∧ ∀ e ∈ s.hub.entries, e.id ≠ k) ∧
  (∀ t t' k, (s.tasks t).pc.pendingId = some k → (s.tasks t').pc.pendingId = some k → t = t')

theorem idInv_init (caps progs) : IdInv (init caps progs) := by
  simp [IdInv, init, emptyHub, Pc.pendingId]

set_option maxHeartbeats 1000000 in
theorem idInv_step {s s' : Sys} {t : Nat} (hi : IdInv s) (h : step s t = some s') : IdInv s' := by
  obtain ⟨h1, h2, h3, h4⟩ := hi
  have h3t := h3 t
  have h4t := h4 t
  step_cases h
  all_goals (simp only [IdInv, Sys.setPc, Sys.finish, Sys.setHub, Sys.setLock])
  all_goals (refine ⟨?_, ?_, ?_, ?_⟩)
  all_goals (try assumption)
  all_goals (try (grind [Pc.pendingId, mem_removeId, mem_pruneEntries, upd_apply]))
  · exact List.Nodup.sublist ((removeId_sublist _ _).map _) h1
  · exact List.Nodup.sublist ((pruneEntries_sublist _ _).map _) h1

/-! ## Issued records -/

/-- The record a `subscribe` in progress has been issued but has not pushed yet. -/
def Pc.subRec : Pc → Option Entry
  | .subId topic chan id | .subLocked topic chan id => some { id := id, topic := topic, chan := chan }
  | _ => none

/-- `issued` lists every id below the counter exactly once; table entries and entries about to be
pushed are issued records (so the topic and channel of an id never change). -/
def IssuedInv (s : Sys) : Prop :=
  s.issued.map (·.id) = List.range s.hub.nextId ∧
  (∀ e ∈ s.hub.entries, e ∈ s.issued) ∧
  (∀ t e, (s.tasks t).pc.subRec = some e → e ∈ s.issued)

theorem issuedInv_init (caps progs) : IssuedInv (init caps progs) := by
  simp [IssuedInv, init, emptyHub, Pc.subRec]

set_option maxHeartbeats 1000000 in
theorem issuedInv_step {s s' : Sys} {t : Nat} (hi : IssuedInv s) (h : step s t = some s') :
    IssuedInv s' := by
  obtain ⟨h1, h2, h3⟩ := hi
  have h3t := h3 t
  step_cases h
  all_goals (simp only [IssuedInv, Sys.setPc, Sys.finish, Sys.setHub, Sys.setLock])
  all_goals (refine ⟨?_, ?_, ?_⟩)
  all_goals (try assumption)
  all_goals (try (grind [Pc.subRec, mem_removeId, mem_pruneEntries, upd_apply, List.range_succ]))

/-! ## The loop body -/

/-- The message `publish(topic, payload)` builds for entry `e`. -/
def mkMsg (topic : Topic) (payload seq : Nat) (e : Entry) : Msg :=
  { topic := topic, sub := e.id, payload := payload, seq := seq }

/-- The loop body enqueues. -/
def Delivers (chans : Nat → Chan) (topic : Topic) (e : Entry) : Prop :=
  e.topic = topic ∧ (chans e.chan).closed = false ∧ (chans e.chan).queue.length < (chans e.chan).cap

instance (chans : Nat → Chan) (topic : Topic) (e : Entry) : Decidable (Delivers chans topic e) := by
  unfold Delivers; infer_instance

theorem sendTo_chans (chans : Nat → Chan) (prune : List Nat) (topic : Topic) (p seq : Nat) (e : Entry) :
    (sendTo chans prune topic p seq e).1 =
      if Delivers chans topic e then
        upd chans e.chan { chans e.chan with
          queue := (chans e.chan).queue ++ [mkMsg topic p seq e]
          sent := (chans e.chan).sent ++ [mkMsg topic p seq e] }
      else chans := by
  unfold sendTo trySend Delivers mkMsg
  by_cases h1 : e.topic = topic <;> by_cases h2 : (chans e.chan).closed = true <;>
    by_cases h3 : (chans e.chan).cap ≤ (chans e.chan).queue.length <;> simp [h1, h2, h3] <;> omega

theorem sendTo_prune (chans : Nat → Chan) (prune : List Nat) (topic : Topic) (p seq : Nat) (e : Entry) :
    (sendTo chans prune topic p seq e).2 =
      if e.topic = topic ∧ (chans e.chan).closed = true then prune ++ [e.id] else prune := by
  unfold sendTo trySend
  by_cases h1 : e.topic = topic <;> by_cases h2 : (chans e.chan).closed = true <;>
    by_cases h3 : (chans e.chan).cap ≤ (chans e.chan).queue.length <;> simp [h1, h2, h3]

/-! ## Small facts -/

theorem holder_unique {s : Sys} (hl : LockInv s) {a b : Nat} (ha : (s.tasks a).pc.holds = true)
    (hb : (s.tasks b).pc.holds = true) : a = b := by
  have h1 := (hl a).mp ha
  have h2 := (hl b).mp hb
  rw [h1] at h2
  exact Option.some.inj h2

theorem getElem?_lt {α : Type} {l : List α} {i : Nat} {x : α} (h : l[i]? = some x) : i < l.length :=
  (List.getElem?_eq_some_iff.mp h).1

theorem entry_idx_inj {es : List Entry} {i j : Nat} {a b : Entry} (hn : (es.map (·.id)).Nodup)
    (hi : es[i]? = some a) (hj : es[j]? = some b) (h : a.id = b.id) : i = j := by
  have hi' : (es.map (·.id))[i]? = some a.id := by simp [hi]
  have hj' : (es.map (·.id))[j]? = some a.id := by simp [hj, h]
  have hlt : i < (es.map (·.id)).length := getElem?_lt hi'
  exact (List.getElem?_inj hlt hn).mp (hi'.trans hj'.symm)

@[simp] theorem recvChan_sent (ch : Chan) : (recvChan ch).1.sent = ch.sent := by
  unfold recvChan; split <;> rfl
@[simp] theorem recvChan_closed (ch : Chan) : (recvChan ch).1.closed = ch.closed := by
  unfold recvChan; split <;> rfl
@[simp] theorem recvChan_cap (ch : Chan) : (recvChan ch).1.cap = ch.cap := by
  unfold recvChan; split <;> rfl
@[simp] theorem recvChan_stream (ch : Chan) :
    (recvChan ch).1.got ++ (recvChan ch).1.queue = ch.got ++ ch.queue := by
  unfold recvChan; split <;> simp_all

/-! ## Messages -/

/-- Everything ever enqueued: carries an issued id with that id's topic on that id's channel, is an
entry of the publish log, and per id the log positions strictly increase.  What the receiver took
out is a prefix of what was enqueued.  While a publish is inside its loop at index `i`, it is the
last log entry and no entry at position `≥ i` has got its message yet. -/
def MsgInv (s : Sys) : Prop :=
  s.log.length = s.hub.pubs ∧
  (∀ c m, m ∈ (s.hub.chans c).sent →
    (∃ e ∈ s.issued, e.id = m.sub ∧ e.topic = m.topic ∧ e.chan = c) ∧
    s.log[m.seq]? = some (m.topic, m.payload)) ∧
  (∀ c, (s.hub.chans c).sent.Pairwise (fun a b => a.sub = b.sub → a.seq < b.seq)) ∧
  (∀ c, (s.hub.chans c).closed = false →
    (s.hub.chans c).got ++ (s.hub.chans c).queue = (s.hub.chans c).sent) ∧
  (∀ c, (s.hub.chans c).closed = true →
    ((s.hub.chans c).got ++ (s.hub.chans c).queue) <+: (s.hub.chans c).sent) ∧
  (∀ t topic p seq i prune must, (s.tasks t).pc = .pubIter topic p seq i prune must →
    seq + 1 = s.log.length ∧ s.log[seq]? = some (topic, p) ∧
    ∀ j e, i ≤ j → s.hub.entries[j]? = some e →
      ∀ m ∈ (s.hub.chans e.chan).sent, m.sub = e.id → m.seq < seq)

theorem msgInv_init (caps progs) : MsgInv (init caps progs) := by
  simp [MsgInv, init, emptyHub, freshChan]

set_option maxHeartbeats 2000000 in
theorem msgInv_step {s s' : Sys} {t : Nat} (hl : LockInv s) (hid : IdInv s) (his : IssuedInv s)
    (hi : MsgInv s) (h : step s t = some s') : MsgInv s' := by
  obtain ⟨h1, h2, h3, h4, h5, h6⟩ := hi
  have h6t := h6 t
  have hlt := hl t
  have hu := @holder_unique s hl
  have hlk : ∀ c m, m ∈ (s.hub.chans c).sent → m.seq < s.log.length := fun c m hm =>
    getElem?_lt (h2 c m hm).2
  have hinj := @entry_idx_inj s.hub.entries
  have hnd := hid.1
  have hiss := his.2.1
  step_cases h
  all_goals (simp only [MsgInv, Sys.setPc, Sys.finish, Sys.setHub, Sys.setLock, sendTo_chans, sendTo_prune])
  all_goals (refine ⟨?_, ?_, ?_, ?_, ?_, ?_⟩)
  all_goals (try assumption)
  case h_4.isFalse.refine_6 =>
    rename_i x1 hpc x2 topic p tl hprog hfree
    intro t1 topic' p' seq' i' prune' must'
    simp only [upd_apply]
    split
    · intro heq
      simp only [Pc.pubIter.injEq] at heq
      obtain ⟨rfl, rfl, rfl, rfl, rfl, rfl⟩ := heq
      refine ⟨by simp [h1], by simp [← h1], ?_⟩
      intro j e _ _ m hm _
      rw [← h1]; exact hlk _ m hm
    · intro heq
      have := (hl t1).mp (by rw [heq]; rfl)
      rw [this] at hfree; simp at hfree
  case h_1.refine_3 =>
    rename_i x1 topic p seq i prune must hpc x2 e he
    obtain ⟨hs1, hs2, hs3⟩ := h6t _ _ _ _ _ _ hpc
    intro c
    split
    · simp only [upd_apply]
      split
      · rename_i hc; subst hc
        simp only []
        rw [List.pairwise_append]
        refine ⟨h3 _, by simp, ?_⟩
        intro a ha b hb hab
        simp only [List.mem_singleton] at hb
        subst hb
        simp only [mkMsg] at hab ⊢
        exact hs3 i e (Nat.le_refl _) he a ha hab
      · exact h3 c
    · exact h3 c
  case h_1.refine_6 =>
    rename_i x1 topic p seq i prune must hpc x2 e he
    obtain ⟨hs1, hs2, hs3⟩ := h6t _ _ _ _ _ _ hpc
    intro t1 topic' p' seq' i' prune' must'
    simp only [upd_apply]
    split
    · intro heq
      simp only [Pc.pubIter.injEq] at heq
      obtain ⟨rfl, rfl, rfl, rfl, _, rfl⟩ := heq
      refine ⟨hs1, hs2, ?_⟩
      intro j e' hj hej m hm hsub
      split at hm
      · simp only [upd_apply] at hm
        split at hm
        · simp only [List.mem_append, List.mem_singleton] at hm
          rcases hm with hm | rfl
          · rename_i hc
            exact hs3 j e' (by omega) hej m (hc ▸ hm) hsub
          · simp only [mkMsg] at hsub
            have := hinj hnd he hej hsub
            omega
        · exact hs3 j e' (by omega) hej m hm hsub
      · exact hs3 j e' (by omega) hej m hm hsub
    · intro heq
      have h1' : (s.tasks t1).pc.holds = true := by rw [heq]; rfl
      have h2' : (s.tasks t).pc.holds = true := by rw [hpc]; rfl
      have := hu h1' h2'
      contradiction
  all_goals (grind [upd_apply, Pc.holds, recvChan_sent, recvChan_closed, recvChan_stream, closeChan, shutChan,
    List.prefix_append, List.prefix_refl, Delivers, mkMsg])

/-! ## Ids that are gone for good -/

/-- `k` has been issued and its `push` has happened (or `k` was never going to be pushed). -/
def Settled (s : Sys) (k : Nat) : Prop :=
  k < s.hub.nextId ∧ ∀ t, (s.tasks t).pc.pendingId ≠ some k

/-- `k` is not in the table and can never enter it again. -/
def Dead (s : Sys) (k : Nat) : Prop := Settled s k ∧ ∀ e ∈ s.hub.entries, e.id ≠ k

set_option maxHeartbeats 1000000 in
theorem settled_step {s s' : Sys} {t k : Nat} (hs : Settled s k) (h : step s t = some s') :
    Settled s' k := by
  obtain ⟨h1, h2⟩ := hs
  have h2t := h2 t
  step_cases h
  all_goals (simp only [Settled, Sys.setPc, Sys.finish, Sys.setHub, Sys.setLock])
  all_goals (refine ⟨?_, ?_⟩)
  all_goals (try assumption)
  all_goals (grind [Pc.pendingId, upd_apply])

set_option maxHeartbeats 1000000 in
theorem dead_step {s s' : Sys} {t k : Nat} (hd : Dead s k) (h : step s t = some s') : Dead s' k := by
  refine ⟨settled_step hd.1 h, ?_⟩
  obtain ⟨⟨h1, h2⟩, h3⟩ := hd
  have h2t := h2 t
  step_cases h
  all_goals (simp only [Sys.setPc, Sys.finish, Sys.setHub, Sys.setLock])
  all_goals (try assumption)
  all_goals (grind [Pc.pendingId, upd_apply, mem_removeId, mem_pruneEntries])

theorem entry_eq_of_id {es : List Entry} {a b : Entry} (hn : (es.map (·.id)).Nodup) (ha : a ∈ es)
    (hb : b ∈ es) (h : a.id = b.id) : a = b := by
  obtain ⟨i, hi⟩ := List.getElem?_of_mem ha
  obtain ⟨j, hj⟩ := List.getElem?_of_mem hb
  have := entry_idx_inj hn hi hj h
  subst this
  rw [hi] at hj
  exact Option.some.inj hj

theorem removeId_length_ne {es : List Entry} {k : Nat} (h : (removeId es k).length ≠ es.length) :
    ∃ e ∈ es, e.id = k := by
  apply Classical.byContradiction
  intro hne
  apply h
  unfold removeId
  rw [List.filter_eq_self.mpr]
  intro e he
  have : e.id ≠ k := fun hk => hne ⟨e, he, hk⟩
  simpa using this

theorem mem_mustOf {h : Hub} {topic : Topic} {k : Nat} :
    k ∈ mustOf h topic ↔ ∃ e ∈ h.entries, (e.topic = topic ∧ (h.chans e.chan).closed = true) ∧ e.id = k := by
  simp [mustOf, and_assoc]

/-! ## Mutex waits only; critical sections are short -/

/-- Steps the holder still has to take before it releases the mutex. -/
def csRemaining (s : Sys) (t : Nat) : Nat :=
  match (s.tasks t).pc with
  | .subLocked .. => 2
  | .subPushed .. => 1
  | .unsubLocked .. => 2
  | .unsubDone .. => 1
  | .pubIter _ _ _ i _ _ => (s.hub.entries.length - i) + 1
  | .pubPruneLocked .. => 2
  | .pubPruned .. => 1
  | .lenLocked => 1
  | _ => 0

/-- The only guard in `step` is the mutex (or an empty program). -/
theorem step_none_iff (s : Sys) (t : Nat) :
    step s t = none ↔
      ((s.tasks t).pc = .idle ∧ (s.tasks t).prog = []) ∨
      (s.lock.isSome = true ∧ (s.tasks t).pc.holds = false ∧
        ¬ ((s.tasks t).pc = .idle ∧ ∃ r, (s.tasks t).prog = r ∧
          match r with | .sub .. :: _ | .recv .. :: _ | .close .. :: _ | .shut .. :: _ | [] => True | _ => False)) := by
  unfold step
  split
  all_goals (try split)
  all_goals (try split)
  all_goals (simp_all [Pc.holds])

/-- Replacing every channel by anything else does not change whether a step is enabled. -/
theorem step_enabled_indep_of_chans (s : Sys) (t : Nat) (chans' : Nat → Chan) :
    (step s t).isSome = (step { s with hub := { s.hub with chans := chans' } } t).isSome := by
  unfold step
  simp only []
  split
  all_goals (try split)
  all_goals (try split)
  all_goals (try rfl)
  all_goals (try split)
  all_goals (try rfl)

theorem holder_enabled {s : Sys} {t : Nat} (hl : LockInv s) (h : s.lock = some t) :
    ∃ s', step s t = some s' := by
  have hh := (hl t).mpr h
  unfold step
  revert hh
  cases hpc : (s.tasks t).pc <;> simp [Pc.holds]
  · split
    · exact ⟨_, rfl⟩
    · split <;> exact ⟨_, rfl⟩

/-- A step of the holder either releases the mutex or strictly decreases `csRemaining`. -/
theorem holder_progress {s s' : Sys} {t : Nat} (hl : LockInv s) (h : s.lock = some t)
    (hst : step s t = some s') : s'.lock = none ∨ (s'.lock = some t ∧ csRemaining s' t < csRemaining s t) := by
  have hh := (hl t).mpr h
  step_cases hst
  all_goals (simp_all [Pc.holds, csRemaining, Sys.setPc, Sys.finish, Sys.setHub, Sys.setLock])
  rename_i i _ _ _ _ _ he
  have := getElem?_lt he
  omega

theorem csRemaining_pos {s : Sys} {t : Nat} (hl : LockInv s) (h : s.lock = some t) :
    0 < csRemaining s t := by
  have hh := (hl t).mpr h
  unfold csRemaining
  revert hh
  cases (s.tasks t).pc <;> simp [Pc.holds]

/-- Whatever any other task does while `t` holds the mutex — subscriber steps included — it neither
takes the mutex away nor changes what `t` has left to do. -/
theorem others_cannot_delay {s s' : Sys} {t t' : Nat} (hl : LockInv s) (h : s.lock = some t)
    (hne : t' ≠ t) (hst : step s t' = some s') :
    s'.lock = some t ∧ s'.tasks t = s.tasks t ∧ s'.hub.entries = s.hub.entries := by
  have hh : (s.tasks t').pc.holds = false := by
    cases hb : (s.tasks t').pc.holds
    · rfl
    · have := (hl t').mp hb
      rw [h] at this
      exact absurd (Option.some.inj this).symm hne
  have hne' : t ≠ t' := fun e => hne e.symm
  step_cases hst
  all_goals (simp_all [Pc.holds, Sys.setPc, Sys.finish, Sys.setHub, upd_apply])

theorem csRemaining_congr {s s' : Sys} {t : Nat} (h1 : s'.tasks t = s.tasks t)
    (h2 : s'.hub.entries = s.hub.entries) : csRemaining s' t = csRemaining s t := by
  unfold csRemaining; rw [h1, h2]

/-- **Bounded critical sections under every schedule.**  If `t` holds the mutex, then in any schedule
that gives `t` at least `csRemaining s t` turns the mutex has been released after at most that many
of `t`'s own turns, no matter which other tasks run in between and what they do. -/
theorem cs_bounded : ∀ (sched : List Nat) {s : Sys} {t : Nat}, LockInv s → s.lock = some t →
    csRemaining s t ≤ sched.count t →
    ∃ pre suf, sched = pre ++ suf ∧ (exec s pre).lock ≠ some t ∧ pre.count t ≤ csRemaining s t := by
  intro sched
  induction sched with
  | nil =>
    intro s t hl h hc
    have := csRemaining_pos hl h
    simp at hc; omega
  | cons x l ih =>
    intro s t hl h hc
    by_cases hx : x = t
    · subst hx
      obtain ⟨s1, hs1⟩ := holder_enabled hl h
      have hl1 := lockInv_step hl hs1
      rcases holder_progress hl h hs1 with hrel | ⟨hk, hlt⟩
      · refine ⟨[x], l, rfl, ?_, ?_⟩
        · simp [exec, stepOrStay, hs1, hrel]
        · have := csRemaining_pos hl h; simp; omega
      · have hc' : csRemaining s1 x ≤ l.count x := by simp at hc; omega
        obtain ⟨pre, suf, rfl, hp1, hp2⟩ := ih hl1 hk hc'
        refine ⟨x :: pre, suf, rfl, ?_, ?_⟩
        · rw [exec_cons]; simpa [stepOrStay, hs1] using hp1
        · simp; omega
    · cases hst : step s x with
      | none =>
        have hc' : csRemaining s t ≤ l.count t := by
          rw [List.count_cons_of_ne hx] at hc; exact hc
        obtain ⟨pre, suf, rfl, hp1, hp2⟩ := ih hl h hc'
        refine ⟨x :: pre, suf, rfl, ?_, ?_⟩
        · rw [exec_cons]; simpa [stepOrStay, hst] using hp1
        · rw [List.count_cons_of_ne hx]; exact hp2
      | some s1 =>
        obtain ⟨hk, htk, hen⟩ := others_cannot_delay hl h hx hst
        have hl1 := lockInv_step hl hst
        have hcs := csRemaining_congr htk hen
        have hc' : csRemaining s1 t ≤ l.count t := by
          rw [List.count_cons_of_ne hx] at hc; omega
        obtain ⟨pre, suf, rfl, hp1, hp2⟩ := ih hl1 hk hc'
        refine ⟨x :: pre, suf, rfl, ?_, ?_⟩
        · rw [exec_cons]; simpa [stepOrStay, hst] using hp1
        · rw [List.count_cons_of_ne hx]; omega

/-! ## Strictly increasing log positions = subsequence of the log -/

theorem sublist_of_increasing {α : Type} (f : Msg → α) :
    ∀ (log : List α) (off : Nat) (l : List Msg),
      (∀ m ∈ l, off ≤ m.seq ∧ log[m.seq - off]? = some (f m)) →
      l.Pairwise (fun a b => a.seq < b.seq) → (l.map f).Sublist log := by
  intro log
  induction log with
  | nil =>
    intro off l h _
    cases l with
    | nil => simp
    | cons m ms => have := (h m (by simp)).2; simp at this
  | cons x xs ih =>
    intro off l h hp
    cases l with
    | nil => simp
    | cons m ms =>
      have hm := h m (by simp)
      rw [List.pairwise_cons] at hp
      by_cases heq : m.seq = off
      · have hx : f m = x := by
          have := hm.2; rw [heq] at this; simp at this; exact this.symm
        rw [List.map_cons, hx]
        apply List.Sublist.cons_cons
        apply ih (off + 1) ms _ hp.2
        intro m' hm'
        have h1 := hp.1 m' hm'
        have h2 := h m' (by simp [hm'])
        refine ⟨by omega, ?_⟩
        have : m'.seq - off = (m'.seq - (off + 1)) + 1 := by omega
        rw [this, List.getElem?_cons_succ] at h2
        exact h2.2
      · apply List.Sublist.cons
        apply ih (off + 1) (m :: ms) _ (List.pairwise_cons.mpr hp)
        intro m' hm'
        have h2 := h m' hm'
        have hge : off + 1 ≤ m'.seq := by
          rcases List.mem_cons.mp hm' with rfl | hin
          · omega
          · have := hp.1 m' hin; omega
        refine ⟨hge, ?_⟩
        have : m'.seq - off = (m'.seq - (off + 1)) + 1 := by omega
        rw [this, List.getElem?_cons_succ] at h2
        exact h2.2

theorem got_sublist_sent {s : Sys} (hm : MsgInv s) (c : Nat) :
    (s.hub.chans c).got.Sublist (s.hub.chans c).sent := by
  obtain ⟨_, _, _, h4, h5, _⟩ := hm
  cases hc : (s.hub.chans c).closed
  · rw [← h4 c hc]; exact List.sublist_append_left _ _
  · exact (List.sublist_append_left _ _).trans (h5 c hc).sublist

theorem queue_subset_sent {s : Sys} (hm : MsgInv s) (c : Nat) :
    ∀ m ∈ (s.hub.chans c).queue, m ∈ (s.hub.chans c).sent := by
  obtain ⟨_, _, _, h4, h5, _⟩ := hm
  intro m hq
  cases hc : (s.hub.chans c).closed
  · rw [← h4 c hc]; exact List.mem_append_right _ hq
  · exact (h5 c hc).subset (List.mem_append_right _ hq)

/-! ## Frame and inversion facts about one step -/

theorem step_other {s s' : Sys} {t t1 : Nat} (h : step s t = some s') (hne : t1 ≠ t) :
    s'.tasks t1 = s.tasks t1 := by
  step_cases h
  all_goals (simp [Sys.setPc, Sys.finish, Sys.setHub, Sys.setLock, upd_apply, hne])

theorem step_log {s s' : Sys} {t : Nat} (h : step s t = some s') : s.log.length ≤ s'.log.length := by
  step_cases h
  all_goals (simp [Sys.setPc, Sys.finish, Sys.setHub, Sys.setLock])

/-- A message that is new in some channel history was built by the loop body for a table entry. -/
theorem step_sent {s s' : Sys} {t : Nat} (h : step s t = some s') (c : Nat) (m : Msg)
    (hm : m ∈ (s'.hub.chans c).sent) :
    m ∈ (s.hub.chans c).sent ∨ ∃ e ∈ s.hub.entries, m.sub = e.id := by
  step_cases h
  all_goals (simp only [Sys.setPc, Sys.finish, Sys.setHub, Sys.setLock, sendTo_chans] at hm)
  all_goals (try (exact Or.inl hm))
  all_goals (try (simp only [upd_apply] at hm; split at hm <;> simp_all [closeChan, shutChan]; done))
  · rename_i e he
    split at hm
    · simp only [upd_apply] at hm
      split at hm
      · simp only [List.mem_append, List.mem_singleton] at hm
        rcases hm with hm | rfl
        · rename_i hc; exact Or.inl (hc ▸ hm)
        · exact Or.inr ⟨e, List.mem_of_getElem? he, rfl⟩
      · exact Or.inl hm
    · exact Or.inl hm

theorem step_unsubAt {s s' : Sys} {t : Nat} (h : step s t = some s') (k n : Nat)
    (hm : (k, n) ∈ s'.unsubAt) :
    (k, n) ∈ s.unsubAt ∨ ((s.tasks t).pc = .unsubDone k true ∧ n = s.log.length) := by
  step_cases h
  all_goals (simp only [Sys.setPc, Sys.finish, Sys.setHub, Sys.setLock] at hm)
  all_goals (try (exact Or.inl hm))
  rename_i x id r hpc hr
  subst hr
  simp only [List.mem_append, List.mem_singleton, Prod.mk.injEq] at hm
  rcases hm with hm | ⟨rfl, rfl⟩
  · exact Or.inl hm
  · exact Or.inr ⟨hpc, rfl⟩

/-! ## Nothing after unsubscribe -/

/-- An `unsubscribe(k)` that found `k` leaves it dead; every `unsubAt` record `(k, n)` names a dead id
whose channel histories contain no message of publish number `≥ n`. -/
def UnsubInv (s : Sys) : Prop :=
  (∀ t k, (s.tasks t).pc = .unsubDone k true → Dead s k) ∧
  (∀ k n, (k, n) ∈ s.unsubAt → Dead s k ∧ n ≤ s.log.length ∧
    ∀ c m, m ∈ (s.hub.chans c).sent → m.sub = k → m.seq < n)

theorem unsubInv_init (caps progs) : UnsubInv (init caps progs) := by
  simp [UnsubInv, init, emptyHub]

set_option maxHeartbeats 1000000 in
theorem unsubInv_step {s s' : Sys} {t : Nat} (hid : IdInv s) (hm : MsgInv s) (hi : UnsubInv s)
    (h : step s t = some s') : UnsubInv s' := by
  obtain ⟨h1, h2⟩ := hi
  have hlk : ∀ c m, m ∈ (s.hub.chans c).sent → m.seq < s.log.length := fun c m hm' =>
    getElem?_lt (hm.2.1 c m hm').2
  constructor
  · intro t1 k hpc
    by_cases ht : t1 = t
    · subst ht
      obtain ⟨hnd, hlt, hpend, _⟩ := hid
      have hrem := @removeId_length_ne s.hub.entries
      step_cases h
      all_goals (simp only [Sys.setPc, Sys.finish, Sys.setHub, Sys.setLock, upd_same] at hpc)
      all_goals (try (simp at hpc; done))
      simp only [Pc.unsubDone.injEq, bne_iff_ne, ne_eq] at hpc
      obtain ⟨hk, hr⟩ := hpc
      subst hk
      have hr' := hr
      obtain ⟨e, he, hek⟩ := hrem hr'
      refine ⟨⟨?_, ?_⟩, ?_⟩
      · simp only [Sys.setPc, Sys.setHub]; rw [← hek]; exact hlt e he
      · intro t2
        simp only [Sys.setPc, Sys.setHub, upd_apply]
        split
        · simp [Pc.pendingId]
        · intro hp; exact (hpend t2 _ hp).2 e he hek
      · intro e' he'
        simp only [Sys.setPc, Sys.setHub] at he'
        exact (mem_removeId.mp he').2
    · rw [step_other h ht] at hpc
      exact dead_step (h1 t1 k hpc) h
  · intro k n hkn
    have hll := step_log h
    rcases step_unsubAt h k n hkn with hold | ⟨hpc, rfl⟩
    · obtain ⟨hd, hn, hmsg⟩ := h2 k n hold
      refine ⟨dead_step hd h, by omega, ?_⟩
      intro c m hmem hsub
      rcases step_sent h c m hmem with ho | ⟨e, he, hme⟩
      · exact hmsg c m ho hsub
      · exact absurd (hme.symm.trans hsub) (hd.2 e he)
    · have hd := h1 t k hpc
      refine ⟨dead_step hd h, hll, ?_⟩
      intro c m hmem hsub
      rcases step_sent h c m hmem with ho | ⟨e, he, hme⟩
      · exact hlk c m ho
      · exact absurd (hme.symm.trans hsub) (hd.2 e he)

/-! ## Pruning -/

theorem step_entries_nonholder {s s' : Sys} {t : Nat} (hh : (s.tasks t).pc.holds = false)
    (h : step s t = some s') : s'.hub.entries = s.hub.entries := by
  step_cases h
  all_goals (simp_all [Pc.holds, Sys.setPc, Sys.finish, Sys.setHub, Sys.setLock])

theorem step_closed_mono {s s' : Sys} {t : Nat} (h : step s t = some s') (c : Nat)
    (hc : (s.hub.chans c).closed = true) : (s'.hub.chans c).closed = true := by
  step_cases h
  all_goals (simp only [Sys.setPc, Sys.finish, Sys.setHub, Sys.setLock, sendTo_chans])
  all_goals (try (exact hc))
  all_goals (try (simp only [upd_apply]; split <;> simp_all [closeChan, shutChan]; done))
  · split
    · simp only [upd_apply]; split <;> simp_all
    · exact hc

/-- The `must` list of a publish in progress (ghost: ids of the entries of its topic whose receiver
was gone when it took the mutex) names table entries, all of which the loop collects into
`to_prune` as it passes them; they are settled while the publish waits for the mutex again, and
dead once the prune has run and forever after the publish has returned. -/
def PruneInv (s : Sys) : Prop :=
  (∀ t topic p seq i prune must, (s.tasks t).pc = .pubIter topic p seq i prune must →
    (∀ k ∈ must, ∃ e ∈ s.hub.entries, e.id = k) ∧
    (∀ j e, j < i → s.hub.entries[j]? = some e → e.id ∈ must → e.id ∈ prune) ∧
    (∀ e ∈ s.hub.entries, e.id ∈ must → e.topic = topic ∧ (s.hub.chans e.chan).closed = true)) ∧
  (∀ t prune must, (s.tasks t).pc = .pubWant prune must ∨ (s.tasks t).pc = .pubPruneLocked prune must →
    ∀ k ∈ must, k ∈ prune ∧ Settled s k) ∧
  (∀ t must, (s.tasks t).pc = .pubPruned must → ∀ k ∈ must, Dead s k) ∧
  (∀ t must, Obs.published must ∈ (s.tasks t).out → ∀ k ∈ must, Dead s k)

theorem pruneInv_init (caps progs) : PruneInv (init caps progs) := by
  simp [PruneInv, init, emptyHub]

theorem settled_of_mem {s : Sys} (hid : IdInv s) {e : Entry} (he : e ∈ s.hub.entries) :
    Settled s e.id :=
  ⟨hid.2.1 e he, fun t hp => (hid.2.2.1 t e.id hp).2 e he rfl⟩

set_option maxHeartbeats 2000000 in
theorem pruneInv_step {s s' : Sys} {t : Nat} (hl : LockInv s) (hid : IdInv s) (hi : PruneInv s)
    (h : step s t = some s') : PruneInv s' := by
  obtain ⟨h3, h4, h5, h6⟩ := hi
  have hsettled := @settled_of_mem s hid
  refine ⟨?_, ?_, ?_, ?_⟩
  · -- loop invariant
    intro t1 topic p seq i prune must hpc
    by_cases ht : t1 = t
    · subst ht
      have h3t := h3 t1
      have hnd := hid.1
      have heq := @entry_eq_of_id s.hub.entries
      step_cases h
      all_goals (simp only [Sys.setPc, Sys.finish, Sys.setHub, Sys.setLock, upd_same, sendTo_chans,
        sendTo_prune] at hpc ⊢)
      all_goals (try (simp at hpc; done))
      · -- acquisition
        simp only [Pc.pubIter.injEq] at hpc
        obtain ⟨rfl, rfl, rfl, rfl, rfl, rfl⟩ := hpc
        refine ⟨?_, ?_, ?_⟩
        · intro k hk
          obtain ⟨e, he, _, hek⟩ := mem_mustOf.mp hk
          exact ⟨e, he, hek⟩
        · intro j e hj; omega
        · intro e he hk
          obtain ⟨e', he', hp, hek⟩ := mem_mustOf.mp hk
          have := heq hnd he' he hek
          subst this
          exact hp
      · -- loop body
        rename_i x topic0 p0 seq0 i0 prune0 must0 hpc0 x2 e0 he0
        simp only [Pc.pubIter.injEq] at hpc
        obtain ⟨rfl, rfl, rfl, rfl, rfl, rfl⟩ := hpc
        obtain ⟨ha, hb, hc⟩ := h3t _ _ _ _ _ _ hpc0
        refine ⟨ha, ?_, ?_⟩
        · intro j e hj hje hm
          by_cases hji : j < i0
          · have := hb j e hji hje hm
            split <;> simp [this]
          · have hji' : j = i0 := by omega
            subst hji'
            rw [he0] at hje
            have := Option.some.inj hje
            subst this
            have := hc e0 (List.mem_of_getElem? he0) hm
            simp [this]
        · intro e he hm
          obtain ⟨h1, h2⟩ := hc e he hm
          refine ⟨h1, ?_⟩
          split
          · simp only [upd_apply]; split <;> simp_all
          · exact h2
    · have hpc' := hpc
      rw [step_other h ht] at hpc'
      have hh1 : (s.tasks t1).pc.holds = true := by rw [hpc']; rfl
      have hh : (s.tasks t).pc.holds = false := by
        cases hb : (s.tasks t).pc.holds
        · rfl
        · exact absurd (holder_unique hl hh1 hb) ht
      have hent := step_entries_nonholder hh h
      obtain ⟨ha, hb, hc⟩ := h3 t1 _ _ _ _ _ _ hpc'
      rw [hent]
      refine ⟨ha, hb, ?_⟩
      intro e he hm
      exact ⟨(hc e he hm).1, step_closed_mono h _ (hc e he hm).2⟩
  · -- between the two sections
    intro t1 prune must hpc k hk
    by_cases ht : t1 = t
    · subst ht
      have h3t := h3 t1
      have h4t := h4 t1
      have hS : ∀ k, Settled s k → Settled s' k := fun k hk => settled_step hk h
      step_cases h
      all_goals (simp only [Sys.setPc, Sys.finish, Sys.setHub, Sys.setLock, upd_same] at hpc)
      all_goals (try (simp at hpc; done))
      · -- loop exit with a non-empty to_prune
        rename_i x topic0 p0 seq0 i0 prune0 must0 hpc0 x2 hnone hne
        simp only [Pc.pubWant.injEq, reduceCtorEq, or_false] at hpc
        obtain ⟨rfl, rfl⟩ := hpc
        obtain ⟨ha, hb, hc⟩ := h3t _ _ _ _ _ _ hpc0
        obtain ⟨e, he, rfl⟩ := ha k hk
        obtain ⟨j, hj⟩ := List.getElem?_of_mem he
        have hlen : s.hub.entries.length ≤ i0 := by
          rcases Nat.lt_or_ge i0 s.hub.entries.length with hlt | hge
          · rw [List.getElem?_eq_getElem hlt] at hnone; simp at hnone
          · exact hge
        have hji : j < i0 := by have := getElem?_lt hj; omega
        exact ⟨hb j e hji hj hk, hS _ (hsettled he)⟩
      · -- second acquisition
        rename_i x prune0 must0 hpc0 hfree
        simp only [Pc.pubPruneLocked.injEq, reduceCtorEq, false_or] at hpc
        obtain ⟨rfl, rfl⟩ := hpc
        obtain ⟨hp, hs⟩ := h4t _ _ (Or.inl hpc0) k hk
        exact ⟨hp, hS _ hs⟩
    · rw [step_other h ht] at hpc
      obtain ⟨hp, hs⟩ := h4 t1 prune must hpc k hk
      exact ⟨hp, settled_step hs h⟩
  · -- pruned
    intro t1 must hpc k hk
    by_cases ht : t1 = t
    · subst ht
      have h4t := h4 t1
      have hS : ∀ k, Settled s k → Settled s' k := fun k hk => settled_step hk h
      step_cases h
      all_goals (simp only [Sys.setPc, Sys.finish, Sys.setHub, Sys.setLock, upd_same] at hpc)
      all_goals (try (simp at hpc; done))
      rename_i x prune0 must0 hpc0
      simp only [Pc.pubPruned.injEq] at hpc
      subst hpc
      obtain ⟨hp, hs⟩ := h4t _ _ (Or.inr hpc0) k hk
      refine ⟨hS _ hs, ?_⟩
      intro e he
      simp only [Sys.setPc, Sys.setHub] at he
      have := (mem_pruneEntries.mp he).2
      intro hek; subst hek; exact this hp
    · rw [step_other h ht] at hpc
      exact dead_step (h5 t1 must hpc k hk) h
  · -- returned
    intro t1 must hout k hk
    by_cases ht : t1 = t
    · subst ht
      have h3t := h3 t1
      have h5t := h5 t1
      have h6t := h6 t1
      have hD : ∀ k, Dead s k → Dead s' k := fun k hk => dead_step hk h
      step_cases h
      all_goals (simp only [Sys.setPc, Sys.finish, Sys.setHub, Sys.setLock, upd_same, List.mem_append,
        List.mem_singleton, Obs.published.injEq, reduceCtorEq, or_false] at hout)
      all_goals (try (exact hD _ (h6t must hout k hk)))
      · -- loop exit with an empty to_prune: `must` is empty
        rename_i x topic0 p0 seq0 i0 prune0 must0 hpc0 x2 hnone hempty
        rcases hout with hout | rfl
        · exact hD _ (h6t must hout k hk)
        · exfalso
          obtain ⟨ha, hb, hc⟩ := h3t _ _ _ _ _ _ hpc0
          obtain ⟨e, he, rfl⟩ := ha k hk
          obtain ⟨j, hj⟩ := List.getElem?_of_mem he
          have hlen : s.hub.entries.length ≤ i0 := by
            rcases Nat.lt_or_ge i0 s.hub.entries.length with hlt | hge
            · rw [List.getElem?_eq_getElem hlt] at hnone; simp at hnone
            · exact hge
          have hji : j < i0 := by have := getElem?_lt hj; omega
          have := hb j e hji hj hk
          simp [List.isEmpty_iff.mp hempty] at this
      · -- return after the prune
        rename_i x must0 hpc0
        rcases hout with hout | rfl
        · exact hD _ (h6t must hout k hk)
        · exact hD _ (h5t _ hpc0 k hk)
    · rw [step_other h ht] at hout
      exact dead_step (h6 t1 must hout k hk) h

/-! ## Refinement: the atomic-op layer is the small-step semantics under run-to-completion schedules -/

/-- `s'` is `s` after task `t` has run its head call `op` as ONE atomic operation of layer 1. -/
def Completes (s s' : Sys) (t : Nat) (op : Op) : Prop :=
  s'.hub = (apply s.hub op).1 ∧ s'.lock = none ∧
  (s'.tasks t).pc = .idle ∧ (s'.tasks t).prog = (s.tasks t).prog.tail ∧
  (s'.tasks t).out = (s.tasks t).out ++ [(apply s.hub op).2] ∧
  ∀ t', t' ≠ t → s'.tasks t' = s.tasks t'

theorem exec_step {s s1 : Sys} {t : Nat} (h : step s t = some s1) (l : List Nat) :
    exec s (t :: l) = exec s1 l := by
  rw [exec_cons]; simp [stepOrStay, h]

theorem pubIter_run (t : Nat) (topic : Topic) (p seq : Nat) (must : List Nat) :
    ∀ (n : Nat) (s : Sys) (i : Nat) (prune : List Nat),
    (s.tasks t).pc = .pubIter topic p seq i prune must → i + n = s.hub.entries.length →
    (exec s (List.replicate n t)).hub =
        { s.hub with chans := (fanout topic p seq (s.hub.entries.drop i) s.hub.chans prune).1 } ∧
    (exec s (List.replicate n t)).lock = s.lock ∧
    ((exec s (List.replicate n t)).tasks t).pc = .pubIter topic p seq s.hub.entries.length
        (fanout topic p seq (s.hub.entries.drop i) s.hub.chans prune).2 must ∧
    ((exec s (List.replicate n t)).tasks t).prog = (s.tasks t).prog ∧
    ((exec s (List.replicate n t)).tasks t).out = (s.tasks t).out ∧
    ∀ t', t' ≠ t → (exec s (List.replicate n t)).tasks t' = s.tasks t' := by
  intro n
  induction n with
  | zero =>
    intro s i prune hpc hi
    have : s.hub.entries.drop i = [] := by apply List.drop_eq_nil_of_le; omega
    have hi' : i = s.hub.entries.length := by omega
    subst hi'
    simp [exec, this, fanout, hpc]
  | succ n ih =>
    intro s i prune hpc hi
    have hlt : i < s.hub.entries.length := by omega
    have he : s.hub.entries[i]? = some s.hub.entries[i] := List.getElem?_eq_getElem hlt
    obtain ⟨s1, hs1⟩ : ∃ s1, s1 = ((s.setPc t (.pubIter topic p seq (i + 1)
        (sendTo s.hub.chans prune topic p seq s.hub.entries[i]).2 must)).setHub
        { s.hub with chans := (sendTo s.hub.chans prune topic p seq s.hub.entries[i]).1 }) := ⟨_, rfl⟩
    have hst : step s t = some s1 := by
      unfold step; rw [hpc, hs1]; simp only [he]
    rw [List.replicate_succ, exec_step hst]
    have hd : s.hub.entries.drop i = s.hub.entries[i] :: s.hub.entries.drop (i + 1) :=
      List.drop_eq_getElem_cons hlt
    rw [hd]
    simp only [fanout]
    have hpc1 : (s1.tasks t).pc = .pubIter topic p seq (i + 1)
        (sendTo s.hub.chans prune topic p seq s.hub.entries[i]).2 must := by
      rw [hs1]; simp [Sys.setPc, Sys.setHub]
    have hen1 : s1.hub.entries = s.hub.entries := by rw [hs1]; simp [Sys.setPc, Sys.setHub]
    have hch1 : s1.hub.chans = (sendTo s.hub.chans prune topic p seq s.hub.entries[i]).1 := by
      rw [hs1]; simp [Sys.setPc, Sys.setHub]
    have hh1 : s1.hub.nextId = s.hub.nextId ∧ s1.hub.pubs = s.hub.pubs ∧ s1.lock = s.lock ∧
        (s1.tasks t).prog = (s.tasks t).prog ∧ (s1.tasks t).out = (s.tasks t).out ∧
        ∀ t', t' ≠ t → s1.tasks t' = s.tasks t' := by
      rw [hs1]; simp [Sys.setPc, Sys.setHub]
      intro t' ht'; exact upd_other _ _ _ _ ht'
    obtain ⟨h1, h2, h3, h4, h5, h6⟩ := ih s1 (i + 1) _ hpc1 (by rw [hen1]; omega)
    rw [hen1, hch1] at h1 h3
    obtain ⟨g1, g2, g3, g4, g5, g6⟩ := hh1
    refine ⟨?_, h2.trans g3, h3, h4.trans g4, h5.trans g5, fun t' ht' => (h6 t' ht').trans (g6 t' ht')⟩
    rw [h1]
    simp only [g1, g2, hen1]


theorem atomic_refines_simple {s : Sys} {t : Nat} {op : Op} {rest : List Op}
    (hlock : s.lock = none) (hpc : (s.tasks t).pc = .idle) (hprog : (s.tasks t).prog = op :: rest)
    (hop : ∀ topic p, op ≠ .pub topic p) :
    ∃ n, Completes s (exec s (List.replicate n t)) t op := by
  cases op with
  | pub topic p => exact absurd rfl (hop topic p)
  | sub topic chan =>
    refine ⟨4, ?_⟩
    simp [Completes, exec, List.replicate, stepOrStay, step, hpc, hprog, hlock, Sys.setPc, Sys.finish,
      Sys.setHub, Sys.setLock, apply, subscribe, upd_same]
    intro t' ht'; simp [upd_apply, ht']
  | unsub id =>
    refine ⟨3, ?_⟩
    simp [Completes, exec, List.replicate, stepOrStay, step, hpc, hprog, hlock, Sys.setPc, Sys.finish,
      Sys.setHub, Sys.setLock, apply, unsubscribe, upd_same]
    intro t' ht'; simp [upd_apply, ht']
  | len =>
    refine ⟨2, ?_⟩
    simp [Completes, exec, List.replicate, stepOrStay, step, hpc, hprog, hlock, Sys.setPc, Sys.finish,
      Sys.setLock, apply, upd_same]
    intro t' ht'; simp [upd_apply, ht']
  | recv c =>
    refine ⟨1, ?_⟩
    simp only [Completes, exec, List.replicate, List.foldl, stepOrStay, step, hpc, hprog, apply]
    split <;> simp [Sys.finish, Sys.setHub, hlock, hprog] <;> (intro t' ht'; simp [upd_apply, ht'])
  | close c =>
    refine ⟨1, ?_⟩
    simp only [Completes, exec, List.replicate, List.foldl, stepOrStay, step, hpc, hprog, apply]
    split <;> simp [Sys.finish, Sys.setHub, hlock, hprog] <;> (intro t' ht'; simp [upd_apply, ht'])
  | shut c =>
    refine ⟨1, ?_⟩
    simp only [Completes, exec, List.replicate, List.foldl, stepOrStay, step, hpc, hprog, apply]
    split <;> simp [Sys.finish, Sys.setHub, hlock, hprog] <;> (intro t' ht'; simp [upd_apply, ht'])


theorem pub_exit {s : Sys} {t : Nat} {topic : Topic} {p seq : Nat} {prune must : List Nat}
    (hpc : (s.tasks t).pc = .pubIter topic p seq s.hub.entries.length prune must) :
    ∃ k, (exec s (List.replicate k t)).hub =
        { s.hub with entries := if prune.isEmpty then s.hub.entries else pruneEntries s.hub.entries prune } ∧
      (exec s (List.replicate k t)).lock = none ∧
      ((exec s (List.replicate k t)).tasks t).pc = .idle ∧
      ((exec s (List.replicate k t)).tasks t).prog = (s.tasks t).prog.tail ∧
      ((exec s (List.replicate k t)).tasks t).out = (s.tasks t).out ++ [.published must] ∧
      ∀ t', t' ≠ t → (exec s (List.replicate k t)).tasks t' = s.tasks t' := by
  by_cases hp : prune.isEmpty = true
  · refine ⟨1, ?_⟩
    simp [exec, List.replicate, stepOrStay, step, hpc, hp, Sys.finish, Sys.setLock]
    intro t' ht'; simp [upd_apply, ht']
  · refine ⟨4, ?_⟩
    simp [exec, List.replicate, stepOrStay, step, hpc, hp, Sys.finish, Sys.setLock, Sys.setPc, Sys.setHub]
    intro t' ht'; simp [upd_apply, ht']

theorem atomic_refines {s : Sys} {t : Nat} {op : Op} {rest : List Op}
    (hlock : s.lock = none) (hpc : (s.tasks t).pc = .idle) (hprog : (s.tasks t).prog = op :: rest) :
    ∃ n, Completes s (exec s (List.replicate n t)) t op := by
  by_cases hop : ∀ topic p, op ≠ .pub topic p
  · exact atomic_refines_simple hlock hpc hprog hop
  · have : ∃ topic p, op = .pub topic p := by
      apply Classical.byContradiction
      intro hne
      exact hop (fun topic p h => hne ⟨topic, p, h⟩)
    obtain ⟨topic, p, rfl⟩ := this
    -- 1: take the mutex
    obtain ⟨s1, hs1⟩ : ∃ s1, s1 = ({ s.setPc t (.pubIter topic p s.hub.pubs 0 [] (mustOf s.hub topic)) with
        lock := some t
        hub := { s.hub with pubs := s.hub.pubs + 1 }
        log := s.log ++ [(topic, p)] } : Sys) := ⟨_, rfl⟩
    have hst1 : step s t = some s1 := by
      unfold step; rw [hpc, hprog, hs1]; simp [hlock]
    have f1 : (s1.tasks t).pc = .pubIter topic p s.hub.pubs 0 [] (mustOf s.hub topic) ∧
        s1.hub.entries = s.hub.entries ∧ s1.hub.chans = s.hub.chans ∧ s1.hub.nextId = s.hub.nextId ∧
        s1.hub.pubs = s.hub.pubs + 1 ∧ (s1.tasks t).prog = (s.tasks t).prog ∧
        (s1.tasks t).out = (s.tasks t).out ∧ ∀ t', t' ≠ t → s1.tasks t' = s.tasks t' := by
      rw [hs1]; simp [Sys.setPc]
      intro t' ht'; exact upd_other _ _ _ _ ht'
    obtain ⟨a1, a2, a3, a4, a5, a6, a7, a8⟩ := f1
    -- 2: the loop
    obtain ⟨b1, b2, b3, b4, b5, b6⟩ := pubIter_run t topic p s.hub.pubs (mustOf s.hub topic)
      s1.hub.entries.length s1 0 [] a1 (by omega)
    -- 3: release (and prune)
    obtain ⟨k, c1, c2, c3, c4, c5, c6⟩ := @pub_exit (exec s1 (List.replicate s1.hub.entries.length t)) t
      topic p s.hub.pubs _ (mustOf s.hub topic) (by rw [b3, b1])
    refine ⟨1 + (s1.hub.entries.length + k), ?_⟩
    have hex : exec s (List.replicate (1 + (s1.hub.entries.length + k)) t) =
        exec (exec s1 (List.replicate s1.hub.entries.length t)) (List.replicate k t) := by
      rw [← List.replicate_append_replicate, ← List.replicate_append_replicate, exec_append, exec_append]
      congr 1
      congr 1
      simp [exec, stepOrStay, hst1]
    rw [hex]
    refine ⟨?_, c2, c3, ?_, ?_, ?_⟩
    · rw [c1, b1]
      simp only [apply, publish, a2, a3, a4, a5, List.drop_zero]
    · rw [c4, b4, a6]
    · rw [c5, b5, a7]; simp [apply]
    · intro t' ht'; rw [c6 t' ht', b6 t' ht', a8 t' ht']


/-- Layer 1 over a list of calls `(task, op)`: final hub and the observation of every call. -/
def runCalls : Hub → List (Nat × Op) → Hub × List (Nat × Obs)
  | h, [] => (h, [])
  | h, c :: cs => ((runCalls (apply h c.2).1 cs).1, (c.1, (apply h c.2).2) :: (runCalls (apply h c.2).1 cs).2)

/-- The program of task `t` in a list of calls. -/
def progOf (calls : List (Nat × Op)) (t : Nat) : List Op := (calls.filter (fun c => c.1 = t)).map (·.2)

theorem atomic_refines_list : ∀ (calls : List (Nat × Op)) (s : Sys), s.lock = none →
    (∀ t, (s.tasks t).pc = .idle) → (∀ t, (s.tasks t).prog = progOf calls t) →
    ∃ sched, (exec s sched).hub = (runCalls s.hub calls).1 ∧ (exec s sched).lock = none ∧
      ∀ t, ((exec s sched).tasks t).pc = .idle ∧ ((exec s sched).tasks t).prog = [] ∧
        ((exec s sched).tasks t).out =
          (s.tasks t).out ++ (((runCalls s.hub calls).2.filter (fun o => o.1 = t)).map (·.2)) := by
  intro calls
  induction calls with
  | nil =>
    intro s hl hpc hprog
    refine ⟨[], rfl, hl, fun t => ⟨hpc t, ?_, ?_⟩⟩
    · show (s.tasks t).prog = []
      simpa [progOf] using hprog t
    · simp [runCalls, exec]
  | cons c cs ih =>
    intro s hl hpc hprog
    obtain ⟨t, op⟩ := c
    have hp : (s.tasks t).prog = op :: progOf cs t := by
      rw [hprog t]; simp [progOf]
    obtain ⟨n, h1, h2, h3, h4, h5, h6⟩ := atomic_refines hl (hpc t) hp
    obtain ⟨sched, g1, g2, g3⟩ := ih (exec s (List.replicate n t)) h2
      (by
        intro t'
        by_cases ht : t' = t
        · subst ht; exact h3
        · rw [h6 t' ht]; exact hpc t')
      (by
        intro t'
        by_cases ht : t' = t
        · subst ht; rw [h4, hp]; rfl
        · rw [h6 t' ht, hprog t']
          have : ¬ t = t' := fun e => ht e.symm
          simp [progOf, this])
    refine ⟨List.replicate n t ++ sched, ?_, ?_, ?_⟩
    · rw [exec_append, g1, h1]; rfl
    · rw [exec_append]; exact g2
    · intro t'
      rw [exec_append]
      obtain ⟨k1, k2, k3⟩ := g3 t'
      refine ⟨k1, k2, ?_⟩
      rw [k3, h1]
      by_cases ht : t' = t
      · subst ht
        rw [h5]
        simp [runCalls]
      · rw [h6 t' ht]
        have : ¬ t = t' := fun e => ht e.symm
        simp [runCalls, this]

/-- From a fresh system: any list of calls run atomically (layer 1, what the driver executes and the
correspondence compares with the real code) is what the small-step semantics computes under the
schedule that runs each call to completion in that order. -/
theorem atomic_is_small_step (caps : Nat → Nat) (calls : List (Nat × Op)) :
    ∃ sched, (exec (init caps (progOf calls)) sched).hub = (runCalls (emptyHub caps) calls).1 ∧
      ∀ t, ((exec (init caps (progOf calls)) sched).tasks t).out =
        ((runCalls (emptyHub caps) calls).2.filter (fun o => o.1 = t)).map (·.2) := by
  obtain ⟨sched, h1, _, h3⟩ := atomic_refines_list calls (init caps (progOf calls)) rfl
    (fun _ => rfl) (fun _ => rfl)
  exact ⟨sched, h1, fun t => by simpa [init] using (h3 t).2.2⟩

end Srtla.Hub

/-! ## Appended (round 2): temporal form of nothing-after-unsubscribe -/
namespace Srtla.Hub

/-- The enqueue history of channel `c` restricted to subscription id `k`. -/
def sentOf (s : Sys) (c k : Nat) : List Msg := (s.hub.chans c).sent.filter (fun m => m.sub = k)

/-- One step enqueues only messages tagged with the id of a table entry: for an id without a table
entry every channel's enqueue history restricted to that id is unchanged. -/
theorem step_sentOf {s s' : Sys} {t : Nat} (h : step s t = some s') (k : Nat)
    (hk : ∀ e ∈ s.hub.entries, e.id ≠ k) (c : Nat) : sentOf s' c k = sentOf s c k := by
  unfold sentOf
  step_cases h
  all_goals (simp only [Sys.setPc, Sys.finish, Sys.setHub, Sys.setLock, sendTo_chans])
  all_goals (try rfl)
  all_goals (try (simp only [upd_apply]; split <;> simp_all [closeChan, shutChan]; done))
  · rename_i e he
    split
    · simp only [upd_apply]
      split
      · rename_i hc
        subst hc
        have hne : e.id ≠ k := hk e (List.mem_of_getElem? he)
        simp [List.filter_append, mkMsg, hne]
      · rfl
    · rfl

theorem dead_exec {s : Sys} {k : Nat} (hd : Dead s k) (sched : List Nat) : Dead (exec s sched) k :=
  inv_exec (P := fun s => Dead s k) (fun _ _ _ hd h => dead_step hd h) sched s hd

/-- **Frozen.**  Once `k` is dead (not in the table, not pending, already issued), then along EVERY
continuation — any schedule, any number of further publishes, by any tasks — no channel's enqueue
history gains a message tagged `k`. -/
theorem sentOf_frozen {s : Sys} {k : Nat} (hd : Dead s k) (sched : List Nat) (c : Nat) :
    sentOf (exec s sched) c k = sentOf s c k := by
  induction sched generalizing s with
  | nil => rfl
  | cons t l ih =>
    rw [exec_cons]
    unfold stepOrStay
    cases hst : step s t with
    | none => simpa using ih hd
    | some s' =>
      simp only [Option.getD_some]
      rw [ih (dead_step hd hst), step_sentOf hst k hd.2 c]

/-- While the mutex is free nobody is inside a publish loop (or any other critical section). -/
theorem no_section_when_free {s : Sys} (hl : LockInv s) (hfree : s.lock = none) (t : Nat) :
    (s.tasks t).pc.holds = false := by
  cases hb : (s.tasks t).pc.holds
  · rfl
  · have := (hl t).mp hb; rw [hfree] at this; cases this

theorem removeId_length_eq {es : List Entry} {k : Nat} (h : ∀ e ∈ es, e.id ≠ k) :
    (removeId es k).length = es.length := by
  unfold removeId
  rw [List.filter_eq_self.mpr]
  intro e he
  simpa using h e he

/-- What the `retain` step of `unsubscribe(k)` does: `k` is out of the table afterwards; the flag is
`true` exactly when `k` was in it. -/
theorem unsub_retain {s : Sys} {t k : Nat} (hpc : (s.tasks t).pc = .unsubLocked k) :
    ∃ s' r, step s t = some s' ∧ (s'.tasks t).pc = .unsubDone k r ∧
      (r = true ↔ ∃ e ∈ s.hub.entries, e.id = k) ∧
      s'.hub.entries = removeId s.hub.entries k ∧ (∀ e ∈ s'.hub.entries, e.id ≠ k) ∧
      s'.hub.nextId = s.hub.nextId ∧ s'.hub.chans = s.hub.chans ∧ s'.lock = s.lock ∧
      ∀ t', t' ≠ t → s'.tasks t' = s.tasks t' := by
  refine ⟨((s.setPc t (.unsubDone k ((removeId s.hub.entries k).length != s.hub.entries.length))).setHub
      { s.hub with entries := removeId s.hub.entries k }),
    ((removeId s.hub.entries k).length != s.hub.entries.length),
    by unfold step; rw [hpc], by simp [Sys.setPc, Sys.setHub], ?_, by simp [Sys.setPc, Sys.setHub],
    ?_, by simp [Sys.setPc, Sys.setHub], by simp [Sys.setPc, Sys.setHub], by simp [Sys.setPc, Sys.setHub],
    fun t' ht' => by simp [Sys.setPc, Sys.setHub, upd_apply, ht']⟩
  · constructor
    · intro h
      exact removeId_length_ne (by simpa using h)
    · rintro ⟨e, he, hek⟩
      have : (removeId s.hub.entries k).length ≠ s.hub.entries.length := by
        intro heq
        have hsub := removeId_sublist s.hub.entries k
        have := hsub.eq_of_length heq
        have hmem : e ∈ removeId s.hub.entries k := by rw [this]; exact he
        exact (mem_removeId.mp hmem).2 hek
      simpa using this
  · intro e he
    simp only [Sys.setPc, Sys.setHub] at he
    exact (mem_removeId.mp he).2

end Srtla.Hub
