import Srtla.Gen.Constants
/-!
# Model of `crates/srtla-core/src/selection/link_cc.rs` (per-link CC soft cap, loss latch, GC)

Written once over a scalar class `Scalar F`:

* `instance : Scalar Float` — what the compiled driver runs; bit-exact with the Rust `f64` code
  (same literals, `Float.exp`, Rust-semantics `fmax`/`fmin`/`clamp`, saturating `as u64`).
* `ratScalar e : Scalar Rat` (in `Srtla/Lemmas/LinkCc.lean`) — exact rational arithmetic with
  `as u64 = ⌊·⌋` (saturating), `exp := e` arbitrary; what the arithmetic clauses of C16 are proved over.

Integers: `u64/u32` are `Nat` with explicit saturation where the Rust code saturates; `i32` NAK
counters are `Int` with explicit `saturating_sub`.  Time is `Nat` ms.
-/
namespace Srtla.LinkCc
open Srtla.Gen.LinkCc

/-- The `f64` operations the Rust code uses. -/
class Scalar (F : Type) where
  /-- `n as f64` for an unsigned integer `n < 2^64`. -/
  ofNat : Nat → F
  /-- A source literal: its `f64` value and the exact decimal ratio it denotes. -/
  lit : Float → Int → Nat → F
  add : F → F → F
  sub : F → F → F
  mul : F → F → F
  div : F → F → F
  neg : F → F
  abs : F → F
  exp : F → F
  lt : F → F → Bool
  le : F → F → Bool
  beq : F → F → Bool
  isNaN : F → Bool
  isFinite : F → Bool
  /-- Rust `x as u64`: truncate, saturate, NaN ↦ 0. -/
  toU64 : F → Nat
  /-- `f64::INFINITY` -/
  inf : F

def u64Max : Nat := 18446744073709551615
def u32Max : Nat := 4294967295

instance : Scalar Float where
  ofNat n := (UInt64.ofNat n).toFloat
  lit f _ _ := f
  add a b := a + b
  sub a b := a - b
  mul a b := a * b
  div a b := a / b
  neg a := -a
  abs a := a.abs
  exp a := a.exp
  lt a b := decide (a < b)
  le a b := decide (a ≤ b)
  beq a b := a == b
  isNaN a := a.isNaN
  isFinite a := a.isFinite
  toU64 a := a.toUInt64.toNat
  inf := 1.0 / 0.0

section
variable {F : Type} [Scalar F]
open Scalar

def zero : F := ofNat 0
def one : F := ofNat 1

/-- Rust `f64::max` (returns the non-NaN operand). -/
def fmax (a b : F) : F := if isNaN a then b else if isNaN b then a else if lt a b then b else a
/-- Rust `f64::min`. -/
def fmin (a b : F) : F := if isNaN a then b else if isNaN b then a else if lt b a then b else a
/-- Rust `f64::clamp(0.0, 1.0)`. -/
def clamp01 (x : F) : F := if lt x zero then zero else if lt one x then one else x

/-- Rust `u64::clamp(lo, hi)` -/
def clampNat (x lo hi : Nat) : Nat := if x < lo then lo else if x > hi then hi else x

inductive CcState | bootstrap | climbing | holding | backingOff | drain
  deriving DecidableEq, Repr, Inhabited

inductive ClimbMode | normal | hai | fastRecovery
  deriving DecidableEq, Repr, Inhabited

def CcState.str : CcState → String
  | .bootstrap => "bootstrap" | .climbing => "climbing" | .holding => "holding"
  | .backingOff => "backing_off" | .drain => "drain"

def ClimbMode.str : ClimbMode → String
  | .normal => "normal" | .hai => "hai" | .fastRecovery => "fast_recovery"

structure LossSample where
  ts : Nat
  lost : Nat
  sent : Nat

/-- `LinkCongestionState` -/
structure St (F : Type) where
  state : CcState
  climbMode : ClimbMode
  target : Nat
  rttEwma : F
  rttVar : F
  rttMin : F
  rttMinStamp : Nat
  lastRttUpdate : Nat
  samples : List LossSample
  windowLost : Nat
  windowSent : Nat
  fastRecovery : Nat
  prevBytes : Nat
  prevNak : Int
  baselineSet : Bool
  lossEwma : F
  lossEwmaLast : Nat
  lossHighSince : Nat
  lossDegraded : Bool
  backoffTicks : Nat
  backoffEntryLossPm : Nat
  lossUncongestive : Bool
  uncongestiveTicks : Nat

/-- `LinkCongestionState::default()` -/
def St.default : St F :=
  { state := .bootstrap, climbMode := .normal, target := MIN_TARGET_BPS,
    rttEwma := zero, rttVar := zero, rttMin := inf, rttMinStamp := 0, lastRttUpdate := 0,
    samples := [], windowLost := 0, windowSent := 0, fastRecovery := 0,
    prevBytes := 0, prevNak := 0, baselineSet := false,
    lossEwma := zero, lossEwmaLast := 0, lossHighSince := 0, lossDegraded := false,
    backoffTicks := 0, backoffEntryLossPm := 0, lossUncongestive := false, uncongestiveTicks := 0 }

/-! ## RTT -/

/-- `update_rtt_min` -/
def updateRttMin (s : St F) (rtt : F) (now : Nat) : St F :=
  let stale := now - s.rttMinStamp > CC_RTT_MIN_WINDOW_MS
  if !isFinite s.rttMin || lt rtt s.rttMin || stale then
    { s with rttMin := rtt, rttMinStamp := now }
  else s

/-- The guard of `record_rtt`: the sample is used iff finite and `> 0`. -/
def rttAccepted (rtt : F) : Bool := isFinite rtt && !le rtt zero

/-- `record_rtt` -/
def recordRtt (s : St F) (rtt : F) (now : Nat) : St F :=
  if !rttAccepted rtt then s
  else
    let age := now - s.lastRttUpdate
    if beq s.rttEwma zero || decide (age ≥ 2000) then
      updateRttMin { s with rttEwma := rtt, rttVar := zero, lastRttUpdate := now } rtt now
    else
      let wOld : F :=
        if age ≥ 1000 then ofNat 1 else if age ≥ 500 then ofNat 4
        else if age ≥ 250 then ofNat 8 else ofNat 16
      let wNew : F := ofNat 1
      let denom := add wNew wOld
      let prev := s.rttEwma
      let ewma := div (add (mul rtt wNew) (mul prev wOld)) denom
      let dev := abs (sub rtt prev)
      let var := div (add (mul dev (ofNat 1)) (mul s.rttVar (ofNat 3))) (ofNat 4)
      let s1 := updateRttMin { s with rttEwma := ewma, rttVar := var } rtt now
      { s1 with lastRttUpdate := now }

/-! ## Loss window -/

def satAdd32 (a b : Nat) : Nat := if a + b > u32Max then u32Max else a + b

/-- the `while` loop of `evict_expired` (front of the vector = head of the list) -/
def evictGo (cutoff : Nat) : List LossSample → Nat → Nat → List LossSample × Nat × Nat
  | [], ws, wl => ([], ws, wl)
  | x :: xs, ws, wl =>
    if x.ts < cutoff then evictGo cutoff xs (ws - x.sent) (wl - x.lost) else (x :: xs, ws, wl)

/-- `evict_expired` -/
def evictExpired (s : St F) (now : Nat) : St F :=
  let r := evictGo (now - LOSS_WINDOW_MS) s.samples s.windowSent s.windowLost
  { s with samples := r.1, windowSent := r.2.1, windowLost := r.2.2 }

/-- `record_loss` -/
def recordLoss (s : St F) (sent lost now : Nat) : St F :=
  evictExpired
    { s with samples := s.samples ++ [{ ts := now, sent := sent, lost := lost }],
             windowSent := satAdd32 s.windowSent sent,
             windowLost := satAdd32 s.windowLost lost } now

/-- `i32::saturating_sub` -/
def satSubI32 (a b : Int) : Int :=
  let d := a - b
  if d > 2147483647 then 2147483647 else if d < -2147483648 then -2147483648 else d

/-- `observe_traffic` -/
def observeTraffic (s : St F) (bytes : Nat) (nak : Int) (now : Nat) : St F :=
  if !s.baselineSet then
    { s with prevBytes := bytes, prevNak := nak, baselineSet := true }
  else
    let deltaBytes := bytes - s.prevBytes
    let d := satSubI32 nak s.prevNak
    let deltaNak : Nat := if d < 0 then 0 else d.toNat
    let s1 := { s with prevBytes := bytes, prevNak := nak }
    if deltaBytes == 0 && deltaNak == 0 then s1
    else
      let sent0 := if deltaBytes / ASSUMED_SRT_PAYLOAD_BYTES > u32Max then u32Max
                   else deltaBytes / ASSUMED_SRT_PAYLOAD_BYTES
      let sent := if deltaNak > 0 then (if sent0 < 1 then 1 else sent0) else sent0
      recordLoss s1 sent deltaNak now

/-- `loss_permille` -/
def lossPermille (s : St F) : Nat :=
  if s.windowSent == 0 then 0
  else
    let p := s.windowLost * 1000 / s.windowSent
    if p > 1000000 then 1000000 else p

/-! ## Back-off efficacy latch -/

/-- `update_backoff_efficacy` (reads the *previous* tick's `state`) -/
def updateBackoffEfficacy (s : St F) (lossHigh : Bool) (lossPm : Nat) : St F :=
  if !lossHigh then
    { s with backoffTicks := 0, backoffEntryLossPm := 0, lossUncongestive := false,
             uncongestiveTicks := 0 }
  else if s.lossUncongestive then
    let u := s.uncongestiveTicks + 1
    if u ≥ LOSS_UNCONGESTIVE_RETEST_TICKS then
      { s with lossUncongestive := false, uncongestiveTicks := 0, backoffTicks := 0,
               backoffEntryLossPm := lossPm }
    else { s with uncongestiveTicks := u }
  else if s.state ≠ .backingOff then
    { s with backoffTicks := 0, backoffEntryLossPm := lossPm }
  else
    let b := s.backoffTicks + 1
    if b < BACKOFF_EFFICACY_TICKS then { s with backoffTicks := b }
    else
      let improved := lossPm * 1000 < s.backoffEntryLossPm * BACKOFF_EFFICACY_IMPROVEMENT_PERMILLE
      if improved then { s with backoffTicks := 0, backoffEntryLossPm := lossPm }
      else { s with backoffTicks := b, lossUncongestive := true, uncongestiveTicks := 0 }

/-! ## Loss EWMA and the degraded latch -/

def cEnter : F := lit LOSS_DEGRADE_ENTER_f LOSS_DEGRADE_ENTER_num LOSS_DEGRADE_ENTER_den
def cClear : F := lit LOSS_DEGRADE_CLEAR_f LOSS_DEGRADE_CLEAR_num LOSS_DEGRADE_CLEAR_den
def cTau : F := lit LOSS_EWMA_TAU_MS_f LOSS_EWMA_TAU_MS_num LOSS_EWMA_TAU_MS_den
def cDrain : F := lit DRAIN_RTT_INFLATION_f DRAIN_RTT_INFLATION_num DRAIN_RTT_INFLATION_den
def cHold : F := lit RTT_HOLD_FACTOR_f RTT_HOLD_FACTOR_num RTT_HOLD_FACTOR_den
def cHaiFrac : F := lit HAI_VARIANCE_FRACTION_f HAI_VARIANCE_FRACTION_num HAI_VARIANCE_FRACTION_den
def cOutlier : F := lit CC_OUTLIER_FACTOR_f CC_OUTLIER_FACTOR_num CC_OUTLIER_FACTOR_den

/-- the new value of `loss_ewma` -/
def nextLossEwma (s : St F) (lossPm now : Nat) : F :=
  let inst := clamp01 (div (ofNat lossPm) (ofNat 1000))
  if s.lossEwmaLast == 0 then inst
  else
    let dt : F := ofNat (now - s.lossEwmaLast)
    let alpha := sub one (exp (div (neg dt) cTau))
    add s.lossEwma (mul (sub inst s.lossEwma) alpha)

/-- `update_loss_ewma` -/
def updateLossEwma (s : St F) (lossPm now : Nat) : St F :=
  let ew := nextLossEwma s lossPm now
  let s1 := { s with lossEwma := ew, lossEwmaLast := now }
  if lt cEnter ew then
    if s1.lossHighSince == 0 then { s1 with lossHighSince := now }
    else if now - s1.lossHighSince ≥ LOSS_DEGRADE_SUSTAIN_MS then { s1 with lossDegraded := true }
    else s1
  else
    let s2 := { s1 with lossHighSince := 0 }
    if lt ew cClear then { s2 with lossDegraded := false } else s2

/-! ## tick -/

/-- `pick_climb_mode` with the (already armed) fast-recovery budget -/
def pickClimbMode (fr : Nat) (rttEwma rttVar : F) : ClimbMode :=
  if fr > 0 then .fastRecovery
  else if lt zero rttEwma && le rttVar (mul rttEwma cHaiFrac) then .hai
  else .normal

def stepPermille : ClimbMode → Nat
  | .normal => AI_STEP_PERMILLE
  | .hai => HAI_STEP_PERMILLE
  | .fastRecovery => FAST_RECOVERY_STEP_PERMILLE

/-- the bootstrap test of `tick`: no usable RTT estimate -/
def noRtt (s : St F) : Bool := !isFinite s.rttEwma || beq s.rttEwma zero

/-- `rtt_inflation` -/
def rttInflation (s : St F) : F :=
  if isFinite s.rttMin && lt zero s.rttMin then div s.rttEwma s.rttMin else one

/-- `sane_observed`: the outlier-clamped throughput sample -/
def saneObserved (target observed : Nat) : Nat :=
  let baseline : F := ofNat (max target INITIAL_TARGET_BPS)
  toU64 (fmin (ofNat observed : F) (mul cOutlier baseline))

/-- the seed assigned on the first non-bootstrap tick -/
def seedTarget (so : Nat) : Nat :=
  clampNat (if so < INITIAL_TARGET_BPS then INITIAL_TARGET_BPS else so) MIN_TARGET_BPS MAX_TARGET_BPS

/-- state choice -/
def chooseState (lossHigh loaded uncongestive : Bool) (infl : F) : CcState :=
  if lossHigh && loaded && !uncongestive then .backingOff
  else if le cDrain infl then .drain
  else if lt cHold infl then .holding
  else .climbing

/-- the `f64` value `next` computed by the `match next_state` of `tick` -/
def nextRate (next prevState : CcState) (mode : ClimbMode) (t so : Nat) : F :=
  let prev : F := ofNat t
  match next with
  | .bootstrap => prev
  | .climbing =>
    let step := div (mul prev (ofNat (stepPermille mode))) (ofNat 1000)
    let measuredCap := mul (ofNat so) (ofNat 2)
    if so > 0 then
      add (fmax prev (ofNat MIN_TARGET_BPS)) (fmax (fmin step (sub measuredCap prev)) zero)
    else prev
  | .holding => prev
  | .backingOff =>
    let decreased := div (mul prev (ofNat BACKOFF_PERMILLE)) (ofNat 1000)
    let deliveredFloor := fmin (ofNat so) prev
    fmax decreased deliveredFloor
  | .drain =>
    if prevState ≠ .drain then div (mul prev (ofNat DRAIN_PERMILLE)) (ofNat 1000) else prev

/-- the new `target_bps` of a non-bootstrap tick (`t` = target after seeding) -/
def tickTarget (next prevState : CcState) (mode : ClimbMode) (t so : Nat) : Nat :=
  clampNat (toU64 (nextRate (F := F) next prevState mode t so)) MIN_TARGET_BPS MAX_TARGET_BPS

/-- `tick` -/
def tick (s : St F) (observed now : Nat) : St F :=
  let s0 := evictExpired s now
  if noRtt s0 then
    { s0 with state := .bootstrap, climbMode := .normal, target := MIN_TARGET_BPS }
  else
    let lossPm := lossPermille s0
    let s1 := updateLossEwma s0 lossPm now
    let infl := rttInflation s1
    let so := saneObserved (F := F) s1.target observed
    let t0 := if s1.state = .bootstrap then seedTarget so else s1.target
    let loaded := decide (so * 1000 ≥ t0 * BACKOFF_MIN_LOAD_PERMILLE)
    let lossHigh := decide (lossPm > LOSS_BACKOFF_PERMILLE)
    let s2 := updateBackoffEfficacy s1 lossHigh lossPm
    let prevState := s2.state
    let next := chooseState lossHigh loaded s2.lossUncongestive infl
    let fr := if (prevState = .backingOff ∨ prevState = .drain) ∧ next = .climbing
              then FAST_RECOVERY_TICKS else s2.fastRecovery
    let mode := if next = .climbing then pickClimbMode fr s2.rttEwma s2.rttVar else .normal
    let t' := tickTarget (F := F) next prevState mode t0 so
    { s2 with state := next, climbMode := mode, target := t',
              fastRecovery := if next = .climbing then fr - 1 else 0 }

/-! ## Snapshot -/

structure Snapshot (F : Type) where
  state : CcState
  climbMode : ClimbMode
  target : Nat
  rttEwma : F
  rttVar : F
  rttMin : F
  lossPermille : Nat
  lossEwma : F
  lossDegraded : Bool

/-- `snapshot` -/
def snapshot (s : St F) : Snapshot F :=
  { state := s.state, climbMode := s.climbMode, target := s.target, rttEwma := s.rttEwma,
    rttVar := s.rttVar, rttMin := if isFinite s.rttMin then s.rttMin else zero,
    lossPermille := lossPermille s, lossEwma := s.lossEwma, lossDegraded := s.lossDegraded }

/-! ## Histories of one link -/

inductive Op (F : Type)
  | rtt (x : F) (now : Nat)
  | traffic (bytes : Nat) (nak : Int) (now : Nat)
  | loss (sent lost now : Nat)
  | tick (observed now : Nat)

def apply (s : St F) : Op F → St F
  | .rtt x now => recordRtt s x now
  | .traffic b n now => observeTraffic s b n now
  | .loss sent lost now => recordLoss s sent lost now
  | .tick o now => tick s o now

def run (ops : List (Op F)) : St F := ops.foldl apply St.default

/-! ## `LinkCcController::tick_all` (map of links, garbage collection) -/

/-- what `tick_all` reads from one `SrtlaConnection` -/
structure ConnIn (F : Type) where
  id : Nat
  smoothRtt : F     -- `get_smooth_rtt_ms()`
  bytesTotal : Nat  -- `bitrate.bytes_sent_total`
  nakTotal : Int    -- `total_nak_count()`
  bitrate : F       -- `bitrate.current_bitrate_bps`

/-- the body of the `for conn in connections` loop on that link's entry -/
def connStep (s : St F) (c : ConnIn F) (now : Nat) : St F :=
  let s1 := if lt zero c.smoothRtt then recordRtt s c.smoothRtt now else s
  let s2 := observeTraffic s1 c.bytesTotal c.nakTotal now
  tick s2 (toU64 (fmax c.bitrate zero)) now

abbrev Ctl (F : Type) := List (Nat × St F)

def Ctl.get (m : Ctl F) (id : Nat) : Option (St F) := (m.find? (·.1 == id)).map (·.2)

def Ctl.set (m : Ctl F) (id : Nat) (s : St F) : Ctl F :=
  match m with
  | [] => [(id, s)]
  | (k, v) :: rest => if k == id then (k, s) :: rest else (k, v) :: Ctl.set rest id s

/-- the `for` loop: `entry(conn_id).or_default()` then the per-link step -/
def tickLoop (m : Ctl F) (now : Nat) : List (ConnIn F) → Ctl F
  | [] => m
  | c :: cs => tickLoop (m.set c.id (connStep ((m.get c.id).getD St.default) c now)) now cs

/-- `tick_all`: loop, then `retain` only the ids seen in this call -/
def tickAll (m : Ctl F) (conns : List (ConnIn F)) (now : Nat) : Ctl F :=
  (tickLoop m now conns).filter fun e => conns.any (·.id == e.1)

end
end Srtla.LinkCc
