import Srtla.Model.Sys
import Srtla.Model.Classifier
import Srtla.Model.LinkCc
/-!
# The housekeeping ARM of the event loop as ONE function of the model

Rust: `src/sender/mod.rs`, the `housekeeping_timer.tick()` arm of `run_sender_with_config`, from its first
statement up to and including the stamping loop:

```
sync_conn_timeout(&mut connections, &config.snapshot());
handle_housekeeping(&mut connections, …, now_ms(), …);
let classification    = weak_link_filter.classify(&connections);
let link_cc_snapshots = link_cc_controller.tick_all(&connections, now_ms());
for conn in connections.iter_mut() {
    conn.weak           = classification.per_link.iter().find(|e| e.conn_id == conn.conn_id).map(|e| e.weak).unwrap_or(false);
    let cc_snap         = link_cc_snapshots.get(&conn.conn_id);
    conn.cc_backing_off = cc_snap.map(|s| s.state == CcState::BackingOff).unwrap_or(false);
    conn.cc_target_bps  = cc_snap.map(|s| s.target_bps).unwrap_or(0);
    conn.loss_degraded  = cc_snap.map(|s| s.loss_degraded).unwrap_or(false);
}
```

The three components existed separately (`Model/Sys.lean`: the shell, with the verdicts as INPUTS of `Ev.stamp`;
`Model/Classifier.lean`: `classify`; `Model/LinkCc.lean`: `tickAll`).  This file is the glue: the state `Full` owns
all three, `hkArm` is the arm.  The stats publish, the queued reload (`Ev.reload`, the separate event it already
is), the status log and `drain_packet_queue` (uplink events) follow the stamping loop and are not part of `hkArm`.

**Views.**  What `classify` / `tick_all` read from a connection is a parameter (`Views`), so that the shell part can
be run at any scalar (the `decide`-checked examples use fixed-point integers); `viewsF` is the instance the compiled
driver runs (`Sys Float`, `Ctl Float`) and reads EXACTLY the fields the Rust reads:

* `classify`: `conn_id`, `connected`, `bitrate.current_bitrate_bps`, `get_smooth_rtt_ms()` (= `kalman_rtt.value().max(0.0)`)
  and `queue_building_suspected()` (= `kalman_rtt.is_initialized()`, `rtt_min_ms`, `rtt_masd_ms`, `rtt_min_fast_ms`,
  `rtt_min_slow_ms`);
* `tick_all`: `conn_id`, `get_smooth_rtt_ms()`, `bitrate.bytes_sent_total`, `total_nak_count()` (= `congestion.nak_count`),
  `bitrate.current_bitrate_bps`.

Modelling notes.
* `Classifier.LinkIn.kalman : Option Float` is `none` for a filter that is not initialised and reads its value as
  `0.0`.  The Rust reads `kalman_rtt.value()` whether or not the filter is initialised; the two agree because an
  uninitialised filter has `x = 0.0` (`KalmanFilter::new` / `reset` zero it, `update` writes `x` only together with
  `initialized = true`; same in `Model/Rtt.lean`).
* One clock: the arm reads `now_ms()` twice (for `handle_housekeeping` and for `tick_all`); the model uses the one
  `now` of the tick (the harness pins the virtual clock over the arm).
* `link_cc_snapshots` is a `HashMap` filled by `alive.insert(conn_id, entry.snapshot())` in loop order; what `get`
  returns for an id is the snapshot after the LAST loop body for that id, i.e. the snapshot of the entry after the
  whole call (`retain` keeps exactly the ids of the call).  `classification.per_link` is a `Vec` searched with `find`:
  the FIRST entry for the id.  With pairwise distinct conn ids (`Sys.Inv`) the distinction is moot.
-/
namespace Srtla.Arm
open Srtla Srtla.Link Srtla.Sys

/-- What the two per-tick components read from a connection. -/
structure Views (F G : Type) where
  cls : FLink F → Classifier.LinkIn
  cc : FLink F → LinkCc.ConnIn G

/-- The views of the real code (`F = G = Float`). -/
def viewsF : Views Float Float where
  cls l :=
    { id := l.core.connId, connected := l.core.connected, bps := l.bitrate.current,
      kalman := if l.rtt.kalman.initialized then some l.rtt.kalman.x else none,
      minFast := l.rtt.rttMinFast, minSlow := l.rtt.rttMinSlow, masd := l.rtt.masd, rttMin := l.rtt.rttMin }
  cc l :=
    { id := l.core.connId, smoothRtt := l.rtt.smooth, bytesTotal := l.bitrate.total,
      nakTotal := l.core.cong.nakCount, bitrate := l.bitrate.current }

/-- Sender state of the housekeeping arm: the shell, the weak-link filter, the per-link CC controller. -/
structure Full (F G : Type) where
  sys : Sys F
  cls : Classifier.State := Classifier.State.init
  ctl : LinkCc.Ctl G := []

/-- The four values the stamping loop writes onto one connection. -/
structure Stamp where
  weak : Bool
  lossDegraded : Bool
  ccBackingOff : Bool
  ccTarget : Nat
deriving DecidableEq, Repr

variable {F G : Type} [Scalar F] [LinkCc.Scalar G]

/-- Body of the stamping loop for the connection with conn id `id`. -/
def stampOf (res : Classifier.Result) (ctl : LinkCc.Ctl G) (id : Nat) : Stamp :=
  let snap := (ctl.get id).map LinkCc.snapshot
  { weak := ((res.perLink.find? (·.id == id)).map (·.weak)).getD false,
    ccBackingOff := (snap.map fun p => decide (p.state = .backingOff)).getD false,
    ccTarget := (snap.map (·.target)).getD 0,
    lossDegraded := (snap.map (·.lossDegraded)).getD false }

/-- Overwrite the four verdict fields of a connection. -/
def FLink.stamped (l : FLink F) (st : Stamp) : FLink F :=
  { l with weak := st.weak, lossDegraded := st.lossDegraded, ccBackingOff := st.ccBackingOff,
           ccTarget := st.ccTarget }

/-- The slice `classify` sees. -/
def clsTick (v : Views F G) (ls : List (FLink F)) : Classifier.Tick := ls.map v.cls

/-- The slice `tick_all` sees. -/
def ccConns (v : Views F G) (ls : List (FLink F)) : List (LinkCc.ConnIn G) := ls.map v.cc

/-- The shell state after `sync_conn_timeout; handle_housekeeping(now)`: what `classify` / `tick_all` read. -/
def afterHk (s : Sys F) (now : Nat) : Sys F × Out :=
  Sys.step (Sys.step s .syncTimeout).1 (.hk now)

/-- **The housekeeping arm**, up to and including the stamping loop. -/
def hkArm (v : Views F G) (s : Full F G) (now : Nat) : Full F G × Out :=
  -- (projections instead of pattern-matching `let`s: the components of the result reduce without evaluating
  -- `handle_housekeeping`, which keeps the proofs about them cheap)
  let r := afterHk s.sys now
  let c := Classifier.classify s.cls (clsTick v r.1.links)
  let ctl' := LinkCc.tickAll s.ctl (ccConns v r.1.links) now
  ({ sys := { r.1 with links := r.1.links.map fun l => FLink.stamped l (stampOf c.2 ctl' l.core.connId) },
     cls := c.1, ctl := ctl' }, r.2)

/-- Events of the whole sender: the housekeeping tick (the arm above) and every event of the shell.  The shell
events `hk`, `syncTimeout`, `stamp` are the PARTS of the arm; inside the loop they occur only as a tick.  Outside a
tick the real sender performs `[.syncTimeout, .hk now]` WITHOUT classifier / controller / stamps exactly once: the
pre-loop pass of `run_sender_with_config` ("Run housekeeping once before entering the main event loop"), so a real run
is `[.other .syncTimeout, .other (.hk now0)] ++ loop events`.  A BARE `stamp` (verdicts that are inputs instead of the
classifier's / controller's) never happens (`FEv.wf`). -/
inductive FEv where
  | tick (now : Nat)
  | other (e : Ev)

/-- An event the real sender can perform: a tick, or a shell event that is not a bare verdict stamp.  (`hk` /
`syncTimeout` outside a tick are admitted: the pre-loop pass runs them once without the stamping loop; admitting them
anywhere is a superset of the real runs.  Until audit 5 `wf` also rejected them, which excluded every real run.) -/
def FEv.wf : FEv → Bool
  | .tick _ => true
  | .other (.stamp _ _ _ _ _) => false
  | .other _ => true

def Full.step (v : Views F G) (s : Full F G) : FEv → Full F G × Out
  | .tick now => hkArm v s now
  | .other e => ({ s with sys := (Sys.step s.sys e).1 }, (Sys.step s.sys e).2)

/-- Run a list of events; the final state and the outputs, one per event. -/
def Full.run (v : Views F G) (s : Full F G) : List FEv → Full F G × List Out
  | [] => (s, [])
  | e :: es => ((Full.run v (Full.step v s e).1 es).1, (Full.step v s e).2 :: (Full.run v (Full.step v s e).1 es).2)

end Srtla.Arm
