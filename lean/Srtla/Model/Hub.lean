/-!
# Model of `src/subscriptions.rs` (`SubscriptionHub`) — component `hub`, property C20

Two layers over the same data (`Hub`, `Chan`, `Entry`, `Msg`):

1. **Atomic-op model** (`apply`): every hub call (`subscribe`, `unsubscribe`, `publish`, `len`) and
   every subscriber-side call (`try_recv`, drop of the receiver) runs to completion.  This is the
   layer the compiled driver executes against the real Rust code.
2. **Small-step interleaving semantics** (`step : Sys → TaskId → Option Sys`): each hub call is cut
   at the points where other tasks can be observed to run in between — the atomic `fetch_add`, every
   acquisition and release of the tokio `Mutex`, and (finer than the await points) every iteration of
   the `for entry in entries.iter()` loop.  The mutex excludes hub critical sections from each other but
   NOT from subscriber steps (`recv`/`close`), which touch only the channel.

What is modelled and not verified: tokio `Mutex` (mutual exclusion; grant order is left arbitrary,
which over-approximates its FIFO fairness) and `mpsc` (`try_send`: `Closed` if the receiver is gone,
else `Full` if `cap` messages are queued, else enqueue; `try_recv` pops the oldest; dropping the
receiver discards what is queued).

A connection's push channel is shared by all of its subscriptions (`ctx.push_tx.clone()` in
`handle_subscribe`), so entries refer to channels by index and several entries may share one.

Ghost fields (never printed, never compared with the real code): `Msg.seq`, `Chan.sent`, `Chan.got`,
`Hub.pubs`, and in `Sys`: `log`, `issued`, `unsubAt`, the `must` lists.
-/
namespace Srtla.Hub

abbrev Topic := String

/-- One pushed notification: `{"method": "<topic>.update", "params": {"subscription_id": "sub-<sub>",
"data": <payload>}}`.  `seq` is ghost: index of the originating publish in the lock-order log. -/
structure Msg where
  topic : Topic
  sub : Nat
  payload : Nat
  seq : Nat
deriving DecidableEq, Repr, Inhabited

/-- A bounded mpsc channel (the connection's push channel). `sent`/`got` are ghost histories:
everything ever enqueued / everything the receiver took out, oldest first. -/
structure Chan where
  cap : Nat
  queue : List Msg
  closed : Bool
  sent : List Msg
  got : List Msg

/-- `struct Entry { id, topic, sender }` — the sender is named by its channel index. -/
structure Entry where
  id : Nat
  topic : Topic
  chan : Nat
deriving DecidableEq, Repr

/-- Point update of a total map. -/
def upd {α : Type} (f : Nat → α) (i : Nat) (v : α) : Nat → α := fun j => if j = i then v else f j

@[simp] theorem upd_same {α : Type} (f : Nat → α) (i : Nat) (v : α) : upd f i v i = v := by simp [upd]
theorem upd_other {α : Type} (f : Nat → α) (i j : Nat) (v : α) (h : j ≠ i) : upd f i v j = f j := by
  simp [upd, h]
theorem upd_apply {α : Type} (f : Nat → α) (i j : Nat) (v : α) :
    upd f i v j = if j = i then v else f j := rfl

/-- `SubscriptionHub` (`next_id`, `entries`) together with the channels it can reach.
`pubs` is ghost: number of publishes that have taken the lock so far. -/
structure Hub where
  nextId : Nat
  entries : List Entry
  chans : Nat → Chan
  pubs : Nat

inductive SendRes
  | ok | full | closed
deriving DecidableEq, Repr

/-- `mpsc::Sender::try_send`. -/
def trySend (ch : Chan) (m : Msg) : Chan × SendRes :=
  if ch.closed then (ch, .closed)
  else if ch.cap ≤ ch.queue.length then (ch, .full)
  else ({ ch with queue := ch.queue ++ [m], sent := ch.sent ++ [m] }, .ok)

/-- Body of the `for entry in entries.iter()` loop of `publish` for one entry. -/
def sendTo (chans : Nat → Chan) (prune : List Nat) (topic : Topic) (payload seq : Nat) (e : Entry) :
    (Nat → Chan) × List Nat :=
  if e.topic ≠ topic then (chans, prune)
  else
    match trySend (chans e.chan) { topic := topic, sub := e.id, payload := payload, seq := seq } with
    | (ch, .ok) => (upd chans e.chan ch, prune)
    | (_, .full) => (chans, prune)
    | (_, .closed) => (chans, prune ++ [e.id])

/-- The whole loop. -/
def fanout (topic : Topic) (payload seq : Nat) :
    List Entry → (Nat → Chan) → List Nat → (Nat → Chan) × List Nat
  | [], ch, pr => (ch, pr)
  | e :: es, ch, pr => fanout topic payload seq es (sendTo ch pr topic payload seq e).1
      (sendTo ch pr topic payload seq e).2

/-- `entries.retain(|e| !to_prune.contains(&e.id))`. -/
def pruneEntries (es : List Entry) (prune : List Nat) : List Entry :=
  es.filter fun e => !prune.contains e.id

/-- `entries.retain(|e| e.id != id)`. -/
def removeId (es : List Entry) (id : Nat) : List Entry := es.filter fun e => e.id != id

/-- Ghost: ids of the entries of `topic` whose receiver is already gone (what a publish that takes
the lock now is obliged to have removed by the time it returns). -/
def mustOf (h : Hub) (topic : Topic) : List Nat :=
  (h.entries.filter fun e => e.topic == topic && (h.chans e.chan).closed).map (·.id)

/-- `mpsc::Receiver::try_recv` on an open receiver. -/
def recvChan (ch : Chan) : Chan × Option Msg :=
  match ch.queue with
  | [] => (ch, none)
  | m :: q => ({ ch with queue := q, got := ch.got ++ [m] }, some m)

/-- Drop of the receiver: queued messages are discarded, later `try_send`s see `Closed`. -/
def closeChan (ch : Chan) : Chan := { ch with queue := [], closed := true }

/-- `mpsc::Receiver::close()` WITHOUT dropping the receiver: later `try_send`s see `Closed` (the semaphore is
closed, which `try_acquire` tests before it looks for a free permit), the backlog stays queued - a closed
subscriber whose queue is still exactly full.  (The sender's own control connection only ever drops its
receiver; the hub API admits this state and `publish` must prune such a subscriber all the same.) -/
def shutChan (ch : Chan) : Chan := { ch with closed := true }

inductive Op
  | sub (topic : Topic) (chan : Nat)
  | unsub (id : Nat)
  | pub (topic : Topic) (payload : Nat)
  | len
  | recv (chan : Nat)
  | close (chan : Nat)
  /-- `Receiver::close()`, receiver kept (backlog not drained) -/
  | shut (chan : Nat)
deriving Repr

/-- What a completed call returns.  `published must` carries the ghost obligation list. -/
inductive Obs
  | id (n : Nat)
  | removed (b : Bool)
  | published (must : List Nat)
  | len (n : Nat)
  | msg (m : Option Msg)
  | rxGone
  | closed
deriving DecidableEq, Repr

/-! ## Layer 1: atomic operations -/

def subscribe (h : Hub) (topic : Topic) (chan : Nat) : Hub × Nat :=
  ({ h with nextId := h.nextId + 1,
            entries := h.entries ++ [{ id := h.nextId, topic := topic, chan := chan }] }, h.nextId)

def unsubscribe (h : Hub) (id : Nat) : Hub × Bool :=
  ({ h with entries := removeId h.entries id },
    (removeId h.entries id).length != h.entries.length)

def publish (h : Hub) (topic : Topic) (payload : Nat) : Hub :=
  let r := fanout topic payload h.pubs h.entries h.chans []
  { h with chans := r.1, pubs := h.pubs + 1,
           entries := if r.2.isEmpty then h.entries else pruneEntries h.entries r.2 }

def apply (h : Hub) : Op → Hub × Obs
  | .sub topic chan => ((subscribe h topic chan).1, .id (subscribe h topic chan).2)
  | .unsub id => ((unsubscribe h id).1, .removed (unsubscribe h id).2)
  | .pub topic payload => (publish h topic payload, .published (mustOf h topic))
  | .len => (h, .len h.entries.length)
  | .recv c =>
    -- a closed channel whose backlog is not drained yet (`Op.shut`) still hands its queued messages out, oldest
    -- first (tokio: `close()` loses no message); a dropped receiver has no backlog (`closeChan` empties the queue)
    if (h.chans c).closed && (h.chans c).queue.isEmpty then (h, .rxGone)
    else ({ h with chans := upd h.chans c (recvChan (h.chans c)).1 }, .msg (recvChan (h.chans c)).2)
  | .close c =>
    if (h.chans c).closed then (h, .rxGone)
    else ({ h with chans := upd h.chans c (closeChan (h.chans c)) }, .closed)
  | .shut c =>
    if (h.chans c).closed then (h, .rxGone)
    else ({ h with chans := upd h.chans c (shutChan (h.chans c)) }, .closed)

/-! ## Layer 2: small-step interleaving semantics -/

/-- Where a task is inside its current call. -/
inductive Pc
  | idle
  /-- `subscribe`: id fetched (`fetch_add`), waiting for the mutex. -/
  | subId (topic : Topic) (chan id : Nat)
  /-- `subscribe`: mutex held, next: `push`. -/
  | subLocked (topic : Topic) (chan id : Nat)
  /-- `subscribe`: pushed, next: release and return the id. -/
  | subPushed (id : Nat)
  /-- `unsubscribe`: mutex held, next: `retain`. -/
  | unsubLocked (id : Nat)
  /-- `unsubscribe`: retained, next: release and return the flag. -/
  | unsubDone (id : Nat) (removed : Bool)
  /-- `publish`: mutex held, loop index `i`; next: loop body on `entries[i]`, or release. -/
  | pubIter (topic : Topic) (payload seq i : Nat) (prune must : List Nat)
  /-- `publish`: first section released with a non-empty `to_prune`; waiting for the mutex again. -/
  | pubWant (prune must : List Nat)
  /-- `publish`: mutex held again, next: `retain`. -/
  | pubPruneLocked (prune must : List Nat)
  /-- `publish`: pruned, next: release and return. -/
  | pubPruned (must : List Nat)
  /-- `len`: mutex held, next: read the length, release and return. -/
  | lenLocked
deriving Repr

/-- The task holds the mutex. -/
def Pc.holds : Pc → Bool
  | .subLocked .. | .subPushed .. | .unsubLocked .. | .unsubDone .. | .pubIter .. | .pubPruneLocked ..
  | .pubPruned .. | .lenLocked => true
  | _ => false

/-- The id a `subscribe` in progress has fetched but not yet pushed. -/
def Pc.pendingId : Pc → Option Nat
  | .subId _ _ id | .subLocked _ _ id => some id
  | _ => none

structure Task where
  pc : Pc
  /-- Calls still to make; the head is the call in progress when `pc ≠ idle`. -/
  prog : List Op
  /-- Results of the completed calls, oldest first. -/
  out : List Obs

structure Sys where
  hub : Hub
  /-- The tokio mutex around `entries`: who holds it. -/
  lock : Option Nat
  tasks : Nat → Task
  /-- Ghost: `(topic, payload)` of every publish in the order they first took the mutex. -/
  log : List (Topic × Nat)
  /-- Ghost: every subscription ever issued by `fetch_add`, in id order. -/
  issued : List Entry
  /-- Ghost: `(id, log.length)` at the release of every `unsubscribe(id)` that returned `true`. -/
  unsubAt : List (Nat × Nat)

def Sys.setPc (s : Sys) (t : Nat) (pc : Pc) : Sys :=
  { s with tasks := upd s.tasks t { s.tasks t with pc := pc } }

/-- The current call of `t` returns `o`. -/
def Sys.finish (s : Sys) (t : Nat) (o : Obs) : Sys :=
  { s with tasks := upd s.tasks t ({ pc := .idle, prog := (s.tasks t).prog.tail,
                                     out := (s.tasks t).out ++ [o] } : Task) }

def Sys.setHub (s : Sys) (h : Hub) : Sys := { s with hub := h }
def Sys.setLock (s : Sys) (l : Option Nat) : Sys := { s with lock := l }

/-- One step of task `t`; `none` = the task cannot move (it has nothing left to do, or it is waiting
for the mutex).  No case looks at a channel to decide whether the step is enabled. -/
def step (s : Sys) (t : Nat) : Option Sys :=
  match (s.tasks t).pc with
  | .idle =>
    match (s.tasks t).prog with
    | [] => none
    | .sub topic chan :: _ =>
      some { s.setPc t (.subId topic chan s.hub.nextId) with
        hub := { s.hub with nextId := s.hub.nextId + 1 }
        issued := s.issued ++ [{ id := s.hub.nextId, topic := topic, chan := chan }] }
    | .unsub id :: _ =>
      if s.lock.isSome then none else some ((s.setPc t (.unsubLocked id)).setLock (some t))
    | .pub topic p :: _ =>
      if s.lock.isSome then none
      else some { s.setPc t (.pubIter topic p s.hub.pubs 0 [] (mustOf s.hub topic)) with
        lock := some t
        hub := { s.hub with pubs := s.hub.pubs + 1 }
        log := s.log ++ [(topic, p)] }
    | .len :: _ =>
      if s.lock.isSome then none else some ((s.setPc t .lenLocked).setLock (some t))
    | .recv c :: _ =>
      if (s.hub.chans c).closed && (s.hub.chans c).queue.isEmpty then some (s.finish t .rxGone)
      else some ((s.finish t (.msg (recvChan (s.hub.chans c)).2)).setHub
        { s.hub with chans := upd s.hub.chans c (recvChan (s.hub.chans c)).1 })
    | .close c :: _ =>
      if (s.hub.chans c).closed then some (s.finish t .rxGone)
      else some ((s.finish t .closed).setHub
        { s.hub with chans := upd s.hub.chans c (closeChan (s.hub.chans c)) })
    | .shut c :: _ =>
      if (s.hub.chans c).closed then some (s.finish t .rxGone)
      else some ((s.finish t .closed).setHub
        { s.hub with chans := upd s.hub.chans c (shutChan (s.hub.chans c)) })
  | .subId topic chan id =>
    if s.lock.isSome then none else some ((s.setPc t (.subLocked topic chan id)).setLock (some t))
  | .subLocked topic chan id =>
    some ((s.setPc t (.subPushed id)).setHub
      { s.hub with entries := s.hub.entries ++ [{ id := id, topic := topic, chan := chan }] })
  | .subPushed id => some ((s.finish t (.id id)).setLock none)
  | .unsubLocked id =>
    some ((s.setPc t (.unsubDone id ((removeId s.hub.entries id).length != s.hub.entries.length))).setHub
      { s.hub with entries := removeId s.hub.entries id })
  | .unsubDone id r =>
    some { (s.finish t (.removed r)) with
      lock := none
      unsubAt := if r then s.unsubAt ++ [(id, s.log.length)] else s.unsubAt }
  | .pubIter topic p seq i prune must =>
    match s.hub.entries[i]? with
    | some e =>
      some ((s.setPc t (.pubIter topic p seq (i + 1) (sendTo s.hub.chans prune topic p seq e).2 must)).setHub
        { s.hub with chans := (sendTo s.hub.chans prune topic p seq e).1 })
    | none =>
      if prune.isEmpty then some ((s.finish t (.published must)).setLock none)
      else some ((s.setPc t (.pubWant prune must)).setLock none)
  | .pubWant prune must =>
    if s.lock.isSome then none else some ((s.setPc t (.pubPruneLocked prune must)).setLock (some t))
  | .pubPruneLocked prune must =>
    some ((s.setPc t (.pubPruned must)).setHub
      { s.hub with entries := pruneEntries s.hub.entries prune })
  | .pubPruned must => some ((s.finish t (.published must)).setLock none)
  | .lenLocked => some ((s.finish t (.len s.hub.entries.length)).setLock none)

/-- A scheduled task that cannot move stays where it is (its poll returns `Pending`). -/
def stepOrStay (s : Sys) (t : Nat) : Sys := (step s t).getD s

/-- Run a schedule: any list of task ids is a schedule. -/
def exec (s : Sys) (sched : List Nat) : Sys := sched.foldl stepOrStay s

def freshChan (cap : Nat) : Chan := { cap := cap, queue := [], closed := false, sent := [], got := [] }

def emptyHub (caps : Nat → Nat) : Hub :=
  { nextId := 0, entries := [], chans := fun c => freshChan (caps c), pubs := 0 }

/-- Initial system: a fresh hub, open empty channels of arbitrary capacities, arbitrary programs. -/
def init (caps : Nat → Nat) (progs : Nat → List Op) : Sys :=
  { hub := emptyHub caps, lock := none,
    tasks := fun t => { pc := .idle, prog := progs t, out := [] },
    log := [], issued := [], unsubAt := [] }

end Srtla.Hub
