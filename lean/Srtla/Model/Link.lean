import Srtla.Gen.Constants
import Srtla.Model.Scalar
import Srtla.Model.Codec
import Srtla.Model.Conn
import Srtla.Model.Stall
import Srtla.Model.Select
import Srtla.Model.Rtt
/-!
# Full `SrtlaConnection` model

`FLink F` = every field of `SrtlaConnection` (crates/srtla-core/src/connection/mod.rs and
sub-modules).  The integer accounting core is the `Conn` record of `Model/Conn.lean` (field
`core`), the selection view is produced by `toSLink` (`Model/Stall.lean`), RTT / bitrate state is
`Model/Rtt.lean`.  All methods of the Rust type that the shell calls are defined here.
-/
namespace Srtla.Link
open Srtla Srtla.Gen Srtla.Conn Srtla.Select Srtla.Rtt Scalar

abbrev Bytes := List UInt8

/-- A queued datagram: bytes, SRT sequence number (data packets only), queue time. -/
abbrev QItem := Bytes × Option Nat × Nat

inductive Regime | low | normal | high
deriving DecidableEq, Repr

def Regime.batchSize : Regime → Nat
  | .low => Batch.BATCH_SIZE_LOW_ACTIVITY
  | .normal => Batch.BATCH_SIZE_NORMAL
  | .high => Batch.BATCH_SIZE_HIGH_LOAD

structure FLink (F : Type) where
  core : Conn
  /-- `local_ip` / `label`: an opaque token of the uplink's source address.  The label is
  `format!("{host}:{port} via {ip}")` with the receiver host / port fixed for the life of the process, so
  equality of labels is equality of addresses; only `apply_connection_changes` (`Sys.Ev.reload`) reads it. -/
  addr : Nat := 0
  lastKeepaliveSent : Option Nat := none
  -- stall guard private state
  stallGated : Bool := false
  latchedSince : Nat := 0
  recoverySince : Nat := 0
  gateEvents : Nat := 0
  probeCounter : Nat := 0
  silencePulled : Bool := false
  pullMark : Option Nat := none
  silencePulls : Nat := 0
  connTimeoutMs : Nat := Cfg.CONN_TIMEOUT_MS
  rtt : RttTracker F
  bitrate : Bitrate F
  -- ReconnectionState
  lastAttemptMs : Nat := 0
  failCount : Nat := 0
  established : Nat := 0
  graceDeadline : Nat := 0
  -- quality cache
  qualMult : F
  qualAt : Nat := 0
  -- BatchSender
  queue : List QItem := []
  lastFlushMs : Nat := 0
  regime : Regime := .normal
  -- stamped by housekeeping's classifier / CC pass
  weak : Bool := false
  ccBackingOff : Bool := false
  ccTarget : Nat := 0
  lossDegraded : Bool := false

variable {F : Type} [Scalar F]

/-- `SrtlaConnection::new_registering`. -/
def FLink.newRegistering (connId now : Nat) : FLink F :=
  { core := { connId := connId }, rtt := RttTracker.new, bitrate := Bitrate.new now,
    graceDeadline := now + Conn.STARTUP_GRACE_MS, qualMult := Rtt.one }

/-- `connect_uplink`: a fresh `new_registering` record for the uplink with source address `addr`. -/
def FLink.newUplink (connId addr now : Nat) : FLink F :=
  { (FLink.newRegistering connId now : FLink F) with addr := addr }

/-- The selection view of a link. -/
def FLink.toSLink (l : FLink F) : SLink F :=
  let srtt := l.rtt.smooth
  { connId := l.core.connId, connected := l.core.connected, phase := l.core.phase,
    window := l.core.window, inFlight := l.core.inFlight, queued := l.queue.length,
    lastReceived := l.core.lastReceived, lastSent := l.core.lastSent, proofMs := l.core.proofMs,
    established := l.established, graceDeadline := l.graceDeadline, connTimeoutMs := l.connTimeoutMs,
    stallGated := l.stallGated, latchedSince := l.latchedSince, recoverySince := l.recoverySince,
    gateEvents := l.gateEvents, probeCounter := l.probeCounter, silencePulled := l.silencePulled,
    pullMark := l.pullMark, silencePulls := l.silencePulls, weak := l.weak,
    lossDegraded := l.lossDegraded, ccTarget := l.ccTarget,
    srttPos := gt srtt Rtt.zero, srttTrunc := toNatSat srtt, srtt := srtt, rttMin := l.rtt.rttMin,
    bitrate := l.bitrate.current, qualMult := l.qualMult, qualAt := l.qualAt,
    nakCount := l.core.cong.nakCount, lastNakMs := l.core.cong.lastNakMs,
    nakBurst := l.core.cong.nakBurstCount }

/-- Write back what a selection pass may change (guard-private fields and the quality cache). -/
def FLink.absorb (l : FLink F) (s : SLink F) : FLink F :=
  { l with stallGated := s.stallGated, latchedSince := s.latchedSince, recoverySince := s.recoverySince,
           gateEvents := s.gateEvents, silencePulled := s.silencePulled, pullMark := s.pullMark,
           silencePulls := s.silencePulls, connTimeoutMs := s.connTimeoutMs,
           qualMult := s.qualMult, qualAt := s.qualAt }

def FLink.isTimedOut (l : FLink F) (now : Nat) : Bool := Select.isTimedOut l.toSLink now
def FLink.schedulable (l : FLink F) : Bool := l.core.phase != .registering

/-! ## Batch queue (batch_send.rs) and data path -/

/-- `queue_data_packet`: returns the link and whether the regime's batch threshold is reached. -/
def FLink.queueDataPacket (l : FLink F) (data : Bytes) (seq : Option Nat) (t : Nat) : FLink F × Bool :=
  let q := l.queue ++ [(data, seq, t)]
  ({ l with bitrate := l.bitrate.onSend data.length, queue := q }, decide (q.length ≥ l.regime.batchSize))

/-- `take_batch`: drains the queue, registers tracked packets with their QUEUE-time stamp. -/
def FLink.takeBatch (l : FLink F) (now : Nat) : FLink F × List QItem :=
  let l1 := { l with lastFlushMs := now }
  if l.queue.isEmpty then (l1, [])
  else
    let core := l.queue.foldl (fun c (it : QItem) =>
      match it.2.1 with
      | some s => c.register (toI32 s) it.2.2
      | none => c) l.core
    ({ l1 with core := { core with lastSent := some now }, queue := [] }, l.queue)

def FLink.needsBatchFlush (l : FLink F) (now : Nat) : Bool :=
  !l.queue.isEmpty && decide (now - l.lastFlushMs ≥ Batch.FLUSH_INTERVAL_MS)

/-- `BatchSender::reset`. -/
def FLink.resetQueue (l : FLink F) : FLink F := { l with queue := [], lastFlushMs := 0 }

/-- `stall_probe_due`. -/
def FLink.stallProbeDue (l : FLink F) : FLink F × Bool :=
  let n := l.probeCounter + 1
  if n ≥ Cfg.STALL_PROBE_ONE_IN_N then ({ l with probeCounter := 0 }, true)
  else ({ l with probeCounter := n }, false)

/-! ## Keepalives and RTT -/

def U32_MAX : Nat := 4294967295

/-- `keepalive_packet`: builds the 38-byte extended keepalive and updates the send stamps. -/
def FLink.keepalivePacket (l : FLink F) (now : Nat) : FLink F × Bytes :=
  let info : Codec.ConnInfo :=
    { connId := l.core.connId % 4294967296,
      window := l.core.window,
      inFlight := l.core.inFlight,
      rttMs := min (toNatSat l.rtt.kalman.x) U32_MAX,
      nakCount := Codec.i32ToU32 l.core.cong.nakCount,
      bitrate := min (toNatSat (div l.bitrate.current (lit 8.0 8 1))) U32_MAX }
  let pkt := Codec.createKeepaliveExt info now
  let arm := !l.rtt.waiting && (l.rtt.lastRttMeasMs == 0 ||
    decide (now - l.rtt.lastRttMeasMs > Lit.KEEPALIVE_ARM_REMEASURE_MS))
  let rtt := if arm then { l.rtt with lastKeepaliveSentMs := now, waiting := true } else l.rtt
  ({ l with core := { l.core with lastSent := some now }, lastKeepaliveSent := some now, rtt := rtt }, pkt)

/-- `needs_keepalive`. -/
def FLink.needsKeepalive (l : FLink F) (now : Nat) : Bool :=
  if !l.core.connected then false
  else match l.lastKeepaliveSent with
    | none => true
    | some last => decide (now - last ≥ Proto.IDLE_TIME * 1000)

/-- `needs_rtt_measurement`. -/
def FLink.needsRttMeasurement (l : FLink F) (now : Nat) : Bool :=
  if l.established == 0 then false
  else l.core.connected && !l.rtt.waiting &&
    (l.rtt.lastRttMeasMs == 0 || decide (now - l.rtt.lastRttMeasMs > Lit.RTT_REMEASURE_MS))

/-- `RttTracker::handle_keepalive_response`: returns the sample taken, if any. -/
def FLink.handleKeepaliveResponse (l : FLink F) (data : Bytes) (now : Nat) : FLink F × Option Nat :=
  if !l.rtt.waiting then (l, none)
  else
    match Codec.unChk none (Codec.extractKeepaliveTimestamp data) with
    | some ts =>
      let rtt := now - ts
      if rtt > 0 ∧ rtt ≤ Lit.KEEPALIVE_RTT_MAX_MS then
        ({ l with rtt := { (l.rtt.updateEstimate rtt now) with waiting := false } }, some rtt)
      else ({ l with rtt := { l.rtt with waiting := false } }, none)
    | none => ({ l with rtt := { l.rtt with waiting := false } }, none)

/-- `record_rtt_probe`. -/
def FLink.recordRttProbe (l : FLink F) : FLink F :=
  match l.core.phase with
  | .warming p e =>
    if p + 1 ≥ Conn.WARMING_RTT_PROBES then { l with core := { l.core with phase := .live } }
    else { l with core := { l.core with phase := .warming (p + 1) e } }
  | _ => l

/-- `update_phase`. -/
def FLink.updatePhase (l : FLink F) (now : Nat) : FLink F :=
  let thr : F := lit Conn.DEGRADED_QUALITY_THRESHOLD_f Conn.DEGRADED_QUALITY_THRESHOLD_num Conn.DEGRADED_QUALITY_THRESHOLD_den
  let burstHi := decide (l.core.cong.nakBurstCount ≥ Conn.DEGRADED_NAK_BURST_THRESHOLD)
  let nakDegraded := lt l.qualMult thr && burstHi
  let nakRecovered := ge l.qualMult thr && !burstHi
  match l.core.phase with
  | .warming _ e =>
    if now - e ≥ Conn.WARMING_TIMEOUT_MS then { l with core := { l.core with phase := .live } } else l
  | .live =>
    if nakDegraded || l.lossDegraded then { l with core := { l.core with phase := .degraded } } else l
  | .degraded =>
    if nakRecovered && !l.lossDegraded then { l with core := { l.core with phase := .live } } else l
  | .registering => l

/-- `perform_window_recovery` (velocity gate read from the Kalman filter). -/
def FLink.performWindowRecovery (l : FLink F) (now : Nat) : FLink F :=
  let velHigh := gt l.rtt.kalman.v (lit CongEnh.RTT_VELOCITY_GATE_THRESHOLD_f CongEnh.RTT_VELOCITY_GATE_THRESHOLD_num CongEnh.RTT_VELOCITY_GATE_THRESHOLD_den)
  let (cg, w) := l.core.cong.recover l.core.window l.core.connected velHigh now
  { l with core := { l.core with cong := cg, window := w } }

/-- `recompute_batch_regime`. -/
def FLink.recomputeBatchRegime (l : FLink F) : FLink F :=
  let b := l.bitrate.current
  let r := if gt b (lit Batch.HIGH_LOAD_THRESHOLD_BPS_f Batch.HIGH_LOAD_THRESHOLD_BPS_num Batch.HIGH_LOAD_THRESHOLD_BPS_den) then Regime.high
           else if le b (lit Batch.LOW_ACTIVITY_THRESHOLD_BPS_f Batch.LOW_ACTIVITY_THRESHOLD_BPS_num Batch.LOW_ACTIVITY_THRESHOLD_BPS_den) then Regime.low
           else Regime.normal
  { l with regime := r }

/-! ## ACK / NAK entry points with the RTT side effect -/

/-- `handle_srt_ack` incl. the RTT sample it may feed to the tracker. -/
def FLink.srtAck (l : FLink F) (ack : Int) (now : Nat) : FLink F :=
  let (c, sample) := l.core.srtAck ack now
  match sample with
  | some rtt => { l with core := c, rtt := l.rtt.updateEstimate rtt now }
  | none => { l with core := c }

/-! ## Resets -/

/-- `reset_core_state`. -/
def FLink.resetCoreState (l : FLink F) : FLink F :=
  { l with core := l.core.resetCore, queue := [], lastFlushMs := 0,
           stallGated := false, latchedSince := 0, recoverySince := 0, probeCounter := 0,
           silencePulled := false, pullMark := none }

/-- `mark_for_recovery`. -/
def FLink.markForRecovery (l : FLink F) : FLink F :=
  let l1 := l.resetCoreState
  { l1 with core := { l1.core with lastReceived := none }, lastKeepaliveSent := none,
            rtt := { l.rtt with lastKeepaliveSentMs := 0, waiting := false }, graceDeadline := 0 }

/-- `reset_for_reconnect`. -/
def FLink.resetForReconnect (l : FLink F) (now : Nat) : FLink F :=
  let l1 := l.resetCoreState
  { l1 with core := { l1.core with lastReceived := none, cong := {} , lastRttMeasMs := 0 },
            rtt := RttTracker.new, bitrate := Bitrate.new now, lastAttemptMs := now, failCount := 0 }

/-- `clear_pre_registration_state` (REG3). -/
def FLink.clearPreRegistration (l : FLink F) (now : Nat) : FLink F :=
  { l with core := l.core.clearPreRegistration now, queue := [], lastFlushMs := 0,
           qualMult := Rtt.one, qualAt := 0 }

/-! ## ReconnectionState (reconnection.rs) -/

def FLink.backoffDelay (l : FLink F) : Nat :=
  let capped := min l.failCount Reconn.MAX_BACKOFF_COUNT
  min (Reconn.BASE_RECONNECT_DELAY_MS * 2 ^ capped) Reconn.MAX_BACKOFF_DELAY_MS

/-- `should_attempt_reconnect`. -/
def FLink.shouldAttemptReconnect (l : FLink F) (now : Nat) : Bool :=
  if l.established == 0 then
    if now ≤ l.graceDeadline then false
    else if l.lastAttemptMs == 0 then true
    else decide (now - l.lastAttemptMs ≥ Lit.INITIAL_RETRY_MS)
  else if l.lastAttemptMs == 0 then true
  else decide (now - l.lastAttemptMs ≥ l.backoffDelay)

/-- `record_attempt` (`u32::saturating_add`). -/
def FLink.recordAttempt (l : FLink F) (now : Nat) : FLink F :=
  if l.established == 0 then { l with lastAttemptMs := now }
  else { l with lastAttemptMs := now, failCount := min (l.failCount + 1) 4294967295 }

end Srtla.Link
