import Srtla.Gen.Constants
/-!
# Model of the SIGHUP IP-list reload (component `reload`, property C19)

Rust anchors
* `src/sender/reload.rs`      `analyze_ip_reload_text`, `analyze_ip_reload`
* `src/sender/connections.rs` `apply_connection_changes`, `create_connections_from_ips`, `connect_uplink`
* `src/sender/sequence.rs`    `SequenceTracker::{insert, get, remove_connection}`
* `src/sender/mod.rs`         the SIGHUP arm (queues `pending_changes` only on `Apply`) and the
                              housekeeping arm (`pending_changes.take()` → `apply_connection_changes`)
* `src/sender/housekeeping.rs` / `connections.rs::reconnect_uplink` only as an environment step
                              (`Op.resock`: new socket under the same key, reset link state)

Model boundary (trusted, fed in as data observed on the real run):
* `str::lines`, `str::trim`, `IpAddr::from_str` — a file is a list of per-line classifications
  (`Line.blank | ok ip | bad`); `classify trim parseIp` shows how a classification arises from
  arbitrary `trim`/`parseIp` functions, the theorems quantify over both.
* an `Ip` is the canonical `Display` text of an `IpAddr` (equality of texts = equality of addresses).
* `connect_uplink` (socket creation, bind, connect, `rand::rng().next_u64()`): per attempt an
  `Option ConnOk` (`none` = the attempt failed, `some` = fresh `conn_id`, socket identity token and
  the opaque token of the fresh `SrtlaConnection::new_registering` state).
* the complete protocol state of a link is one opaque token `state`; the I/O half is one opaque
  socket token per `conn_id`.
-/
namespace Srtla.Reload
open Srtla.Gen

abbrev Ip := String
abbrev Label := String

/-! ## `reload.rs` -/

/-- What the trusted std parsers say about one line of the file. -/
inductive Line where
  | blank                -- `line.trim().is_empty()`
  | ok (ip : Ip)         -- `IpAddr::from_str(trimmed) = Ok(ip)`
  | bad                  -- `IpAddr::from_str(trimmed) = Err(_)`
  deriving DecidableEq, Repr, Inhabited

/-- How a classification arises from a raw line, for arbitrary `trim` / `parseIp`. -/
def classify (trim : String → String) (parseIp : String → Option Ip) (l : String) : Line :=
  let t := trim l
  if t.isEmpty then .blank
  else match parseIp t with
    | some ip => .ok ip
    | none => .bad

inductive Refusal where
  | notFound
  | empty
  | noValidIps (firstInvalidLine : Nat)
  deriving DecidableEq, Repr

inductive IpReload where
  | apply (ips : List Ip) (firstInvalidLine : Option Nat)
  | refuse (r : Refusal)
  deriving DecidableEq, Repr

/-- Loop state of `analyze_ip_reload_text`. -/
structure Scan where
  ips : List Ip := []
  firstInvalid : Option Nat := none
  sawContent : Bool := false
  deriving DecidableEq, Repr

/-- One iteration of `for (idx, line) in text.lines().enumerate()`. -/
def scanLine (acc : Scan) (idx : Nat) : Line → Scan
  | .blank => acc
  | .ok ip => { acc with ips := acc.ips ++ [ip], sawContent := true }
  | .bad =>
    { acc with
      sawContent := true
      firstInvalid := if acc.firstInvalid.isNone then some (idx + 1) else acc.firstInvalid }

def scan : List Line → Nat → Scan → Scan
  | [], _, acc => acc
  | l :: ls, idx, acc => scan ls (idx + 1) (scanLine acc idx l)

def analyzeText (lines : List Line) : IpReload :=
  let acc := scan lines 0 {}
  if acc.ips.isEmpty then
    if acc.sawContent then .refuse (.noValidIps (acc.firstInvalid.getD 1))
    else .refuse .empty
  else .apply acc.ips acc.firstInvalid

/-- `analyze_ip_reload`: `none` = `read_to_string` failed (missing, unreadable, not UTF-8). -/
def analyzeIpReload : Option (List Line) → IpReload
  | none => .refuse .notFound
  | some lines => analyzeText lines

/-! ## `sequence.rs` — the ring buffer, as a slot-indexed association list

An absent slot is the all-zero default entry (`conn_id = 0` = empty). The `count` field is
write-only in the Rust code (no reader) and is not modelled. -/

structure TrackEntry where
  connId : Nat
  ts : Nat
  seq : Nat
  deriving DecidableEq, Repr

abbrev Tracker := List (Nat × TrackEntry)

def slot (seq : Nat) : Nat := seq &&& Seq.SEQ_TRACKING_MASK

def Tracker.insert (t : Tracker) (seq id ts : Nat) : Tracker :=
  (slot seq, ⟨id, ts, seq⟩) :: t.filter (fun e => e.1 != slot seq)

def TrackEntry.isValid (e : TrackEntry) (seq now : Nat) : Bool :=
  e.connId != 0 && e.seq == seq && !(decide (now - e.ts > Seq.SEQUENCE_TRACKING_MAX_AGE_MS))

def Tracker.get (t : Tracker) (seq now : Nat) : Option Nat :=
  match t.find? (fun e => e.1 == slot seq) with
  | some (_, e) => if e.isValid seq now then some e.connId else none
  | none => none

/-- `remove_connection`: every entry of that id is reset in place to the all-zero default. -/
def Tracker.removeConnection (t : Tracker) (id : Nat) : Tracker :=
  t.map (fun e => if e.2.connId == id then (e.1, ⟨0, 0, 0⟩) else e)

/-! ## `ConnIoMap` — `HashMap<conn_id, ConnIo>` as an association list with unique keys -/

abbrev IoMap := List (Nat × Nat)

def IoMap.remove (m : IoMap) (k : Nat) : IoMap := m.filter (fun e => e.1 != k)
def IoMap.insert (m : IoMap) (k v : Nat) : IoMap := (k, v) :: m.remove k
def IoMap.get (m : IoMap) (k : Nat) : Option Nat := (m.find? (fun e => e.1 == k)).map (·.2)
def IoMap.keys (m : IoMap) : List Nat := m.map (·.1)
/-- `*conn_io.get_mut(k) = v` (no effect when the key is absent). -/
def IoMap.replace (m : IoMap) (k v : Nat) : IoMap := m.map (fun e => if e.1 == k then (k, v) else e)

/-! ## `connections.rs` -/

/-- One uplink: identity, address, label, and the opaque token of its whole protocol state. -/
structure Link where
  connId : Nat
  ip : Ip
  label : Label
  state : Nat
  deriving DecidableEq, Repr

/-- Successful `connect_uplink`. -/
structure ConnOk where
  connId : Nat
  sock : Nat
  state : Nat
  deriving DecidableEq, Repr

structure Sys where
  links : List Link := []
  io : IoMap := []
  tracker : Tracker := []
  lastSel : Option Nat := none
  /-- `pending_changes` (`new_ips` is always `Some` when queued by the SIGHUP arm). -/
  pending : Option (List Ip) := none
  deriving Repr

/-- `format!("{}:{} via {}", receiver_host, receiver_port, ip)`. -/
def mkLabel (host : String) (port : Nat) (ip : Ip) : Label :=
  host ++ ":" ++ toString port ++ " via " ++ ip

/-- `create_connections_from_ips`: one attempt per listed address, in order; outcome `k` belongs to
attempt `k` (a missing outcome is a failed attempt). -/
def createConnections (mk : Ip → Label) : List Ip → List (Option ConnOk) → IoMap → List Link × IoMap
  | [], _, io => ([], io)
  | ip :: rest, outs, io =>
    match outs.head?.join with
    | some c =>
      let r := createConnections mk rest outs.tail (io.insert c.connId c.sock)
      (⟨c.connId, ip, mk ip, c.state⟩ :: r.1, r.2)
    | none => createConnections mk rest outs.tail io

/-- `filter(|ip| seen.insert(*ip))`: first occurrences, order kept. -/
def dedupSeen (seen : List Ip) : List Ip → List Ip
  | [] => []
  | x :: xs => if seen.contains x then dedupSeen seen xs else x :: dedupSeen (x :: seen) xs

def desiredLabels (mk : Ip → Label) (newIps : List Ip) : List Label := newIps.map mk

def removedIds (mk : Ip → Label) (s : Sys) (newIps : List Ip) : List Nat :=
  (s.links.filter (fun c => !(desiredLabels mk newIps).contains c.label)).map (·.connId)

def retained (mk : Ip → Label) (s : Sys) (newIps : List Ip) : List Link :=
  s.links.filter (fun c => (desiredLabels mk newIps).contains c.label)

/-- `new_ips_needed`: the addresses `create_connections_from_ips` is called with. -/
def neededIps (mk : Ip → Label) (s : Sys) (newIps : List Ip) : List Ip :=
  (dedupSeen [] newIps).filter (fun ip => !(s.links.map (·.label)).contains (mk ip))

/-- `apply_connection_changes`. -/
def applyChanges (mk : Ip → Label) (s : Sys) (newIps : List Ip) (outs : List (Option ConnOk)) : Sys :=
  let oldLen := s.links.length
  let removed := removedIds mk s newIps
  let links1 := retained mk s newIps
  let changed := links1.length != oldLen
  let lastSel := if changed then none else s.lastSel
  let tracker := if changed then removed.foldl Tracker.removeConnection s.tracker else s.tracker
  let io := if changed then removed.foldl IoMap.remove s.io else s.io
  let r := createConnections mk (neededIps mk s newIps) outs io
  { links := links1 ++ r.1, io := r.2, tracker := tracker, lastSel := lastSel, pending := s.pending }

/-! ## `mod.rs` — the event-loop arms that touch the reload state, plus the environment -/

inductive Op where
  /-- SIGHUP arm: `analyze_ip_reload(ips_file)`; `Apply` queues, `Refuse` only logs. -/
  | sighup (file : Option (List Line))
  /-- housekeeping arm: `pending_changes.take()` then `apply_connection_changes`. -/
  | tick (outs : List (Option ConnOk))
  /-- environment: `seq_tracker.insert` (a data packet was queued on some link). -/
  | track (seq id ts : Nat)
  /-- environment: any protocol activity on the link at index `idx` (new opaque state). -/
  | mutate (idx : Nat) (tok : Nat)
  /-- environment: the selector stored a routing choice. -/
  | select (v : Option Nat)
  /-- environment: housekeeping reconnect (`reconnect_uplink`): the link at `idx` gets a new socket
  in place (same `conn_id`, same map key) and a reset protocol state. -/
  | resock (idx : Nat) (sock tok : Nat)
  deriving Repr

def setState : List Link → Nat → Nat → List Link
  | [], _, _ => []
  | l :: ls, 0, tok => { l with state := tok } :: ls
  | l :: ls, i + 1, tok => l :: setState ls i tok

def step (mk : Ip → Label) (s : Sys) : Op → Sys
  | .sighup file =>
    match analyzeIpReload file with
    | .apply ips _ => { s with pending := some ips }
    | .refuse _ => s
  | .tick outs =>
    match s.pending with
    | some ips => applyChanges mk { s with pending := none } ips outs
    | none => s
  | .track seq id ts => { s with tracker := s.tracker.insert seq id ts }
  | .mutate idx tok => { s with links := setState s.links idx tok }
  | .select v => { s with lastSel := v }
  | .resock idx sock tok =>
    match s.links[idx]? with
    | some l => { s with links := setState s.links idx tok, io := s.io.replace l.connId sock }
    | none => s

def run (mk : Ip → Label) (s : Sys) (ops : List Op) : Sys := ops.foldl (step mk) s

/-- Startup (`run_sender_with_config`): `create_connections_from_ips` over the file's list as is
(no de-duplication there). -/
def startup (mk : Ip → Label) (ips : List Ip) (outs : List (Option ConnOk)) : Sys :=
  let r := createConnections mk ips outs []
  { links := r.1, io := r.2 }

end Srtla.Reload
