import Srtla.Model.Arm
/-!
# What the sender REPORTS about itself: `SharedStats::update` (src/stats.rs)

Once per housekeeping tick, right after the stamping loop of the arm (`Model/Arm.lean`, `hkArm`), the event loop calls

```
shared_stats.update(&connections, &config.snapshot(), Some(&classification), Some(&link_cc_snapshots));
let snap = shared_stats.get();                       // what `get_stats` returns until the next tick
subscription_hub.publish("stats", to_value(&snap));  // what the `stats` topic carries (C20)
```

`snapshot` below is `update` field by field; `hkArmStats` is the arm INCLUDING the publish.  The snapshot is the
ground truth OUR end-to-end monitors (components e2e / looptrace) read about links, so its honesty is part of their
trusted base (`Props/SysStats.lean`).

Where each reported value comes from (checked against the Rust line by line):

* read off the connection itself: `ip` / `label` (the model's address token), `connected`, `window`,
  `in_flight_packets`, `get_smooth_rtt_ms() as u32`, `total_nak_count()`, `current_bitrate_mbps() * 1e6 / 8 as u32`,
  `get_rtt_min_ms()`, `get_rtt_velocity()`, `batch_sender.regime()`, `stall_latched()` (the LATCH, not the routing flag
  `stall_gated`), `stall_gate_events()`, `silence_pulls()`;
* RECOMPUTED from the connection at the tick's clock: `timed_out = is_timed_out(now)` (against the link's OWN copy of
  the timeout, which `sync_conn_timeout` at the head of the arm made the configured one), `base_score = get_score()`,
  `quality_multiplier = calculate_quality_multiplier(conn, now)` (the UNCACHED value, or `1.0` when quality scoring is
  off), `in_flight_cap_packets(cc_target_bps, get_rtt_min_ms())` — with the target of the CC snapshot, not the
  stamped field;
* looked up BY CONN ID in the classification (`per_link.iter().find`: first entry) and in the CC snapshot map
  (`HashMap::get`): `weak`, `weak_reason`, share / threshold; `cc_state`, `cc_climb_mode`, `cc_target_bps`, the three
  RTT figures, loss permille / EWMA, `cc_loss_degraded`.  No entry: `false` / `"unknown"` / `0` / `"normal"`;
* from the `ConfigSnapshot` handed in: `mode`, `quality_enabled = config.quality_enabled && !classic` — the whole
  config block of a stats snapshot (the four other knobs are reported by `get_status` only, straight from the
  `DynamicConfig`: `Model/Control.lean`, C18);
* aggregates: `total_links`, and over the links that are `connected && !timed_out`: `active_links`, the sums of
  `window` and `in_flight_packets`; the classifier's two delay figures.

Modelling notes.
* One clock: `update` reads `now_ms()` itself (the third read in the arm); the model uses the `now` of the tick (the
  harness pins the virtual clock over the arm).  One configuration: the arm calls `config.snapshot()` again for
  `update`; a `set_*` landing between the two reads is outside this sequential model (`Model/Control.lean` has the
  concurrent one).
* `total_window` / `total_in_flight` are `i32` sums (`+=`, overflow would panic in a debug build): unbounded `Int`
  here; windows are at most 60 000 (C06) and in-flight counts at most the log capacity, so the sum of any realistic
  number of links is far from 2^31.
* Scalars: `F` is the shell's (`FLink F`), `G` the controller's (`LinkCc.Ctl G`); both are `Float` in the driver.
* NOT modelled: the `RwLock` (a poisoned lock makes `update` a silent no-op and `get` return the default snapshot),
  `to_json`, the Prometheus rendering (`metrics.rs`).
-/
namespace Srtla.Stats
open Srtla Srtla.Link Srtla.Sys Srtla.Arm Scalar

/-- `LinkStats`.  `weakReason = none` / `ccState = none` are the string `"unknown"`. -/
structure LinkStatsM (F G : Type) where
  /-- `ip` and `label`: the address token of the uplink (`FLink.addr`). -/
  addr : Nat
  connected : Bool
  timedOut : Bool
  window : Int
  inFlight : Int
  rttMs : Nat
  nakCount : Int
  bitrateBytesPerSec : Nat
  rttMin : F
  rttVelocity : F
  baseScore : Int
  qualityMult : F
  weak : Bool
  weakReason : Option Classifier.Reason
  weakShare : Nat
  weakThreshold : Nat
  ccState : Option LinkCc.CcState
  ccClimbMode : LinkCc.ClimbMode
  ccTarget : Nat
  ccRttEwma : G
  ccRttVar : G
  ccRttMin : G
  ccLossPermille : Nat
  ccLossEwma : G
  ccLossDegraded : Bool
  batchRegime : Regime
  stallGated : Bool
  stallGateEvents : Nat
  silencePulls : Nat
  inFlightCapPackets : Nat
  inFlightCapActive : Bool

/-- `StatsSnapshot`.  `classic` is the string `mode` (`"classic"` / `"enhanced"`). -/
structure SnapshotM (F G : Type) where
  classic : Bool
  qualityEnabled : Bool
  activeLinks : Nat
  totalLinks : Nat
  totalWindow : Int
  totalInFlight : Int
  estMaxDelay : Nat
  selDelay : Nat
  links : List (LinkStatsM F G)

variable {F G : Type} [Scalar F] [LinkCc.Scalar G]

def U32_MAX : Nat := 4294967295

/-- `quality_enabled = config.quality_enabled && !config.mode.is_classic()`. -/
def qualityEnabled (cfg : Select.Cfg) : Bool := cfg.quality && !cfg.classic

/-- `classification.and_then(|c| c.per_link.iter().find(|e| e.conn_id == conn.conn_id))`. -/
def weakEntry (cls : Option Classifier.Result) (id : Nat) : Option Classifier.LinkOut :=
  cls.bind fun c => c.perLink.find? (·.id == id)

/-- `link_cc.and_then(|m| m.get(&conn.conn_id).copied())`: the map `tick_all` returned holds, for every id of the
call, the snapshot of its entry after the call (`Model/Arm.lean`, modelling notes). -/
def ccEntry (cc : Option (LinkCc.Ctl G)) (id : Nat) : Option (LinkCc.Snapshot G) :=
  cc.bind fun m => (m.get id).map LinkCc.snapshot

/-- `(conn.current_bitrate_mbps() * 1_000_000.0 / 8.0) as u32`, `mbps() = current_bitrate_bps / 1_000_000.0`. -/
def bytesPerSec (l : FLink F) : Nat :=
  let mbps := div l.bitrate.current (lit 1000000.0 1000000 1)
  min (toNatSat (div (mul mbps (lit 1000000.0 1000000 1)) (lit 8.0 8 1))) U32_MAX

/-- The body of the `for conn in connections` loop of `SharedStats::update`: the `LinkStats` pushed for `l`. -/
def linkStats (l : FLink F) (cfg : Select.Cfg) (cls : Option Classifier.Result) (cc : Option (LinkCc.Ctl G))
    (now : Nat) : LinkStatsM F G :=
  let we := weakEntry cls l.core.connId
  let ce := ccEntry cc l.core.connId
  let target := (ce.map (·.target)).getD 0
  let cap := Select.inFlightCap target l.rtt.rttMin
  let z : G := LinkCc.Scalar.lit 0.0 0 1
  { addr := l.addr
    connected := l.core.connected
    timedOut := l.isTimedOut now
    window := l.core.window
    inFlight := l.core.inFlight
    rttMs := min (toNatSat l.rtt.smooth) U32_MAX
    nakCount := l.core.cong.nakCount
    bitrateBytesPerSec := bytesPerSec l
    rttMin := l.rtt.rttMin
    rttVelocity := l.rtt.kalman.v
    baseScore := Select.score l.toSLink
    qualityMult := if qualityEnabled cfg then Select.qualityMult l.toSLink now else lit 1.0 1 1
    weak := (we.map (·.weak)).getD false
    weakReason := we.map (·.reason)
    weakShare := (we.map (·.share)).getD 0
    weakThreshold := (we.map (·.threshold)).getD 0
    ccState := ce.map (·.state)
    ccClimbMode := (ce.map (·.climbMode)).getD .normal
    ccTarget := target
    ccRttEwma := (ce.map (·.rttEwma)).getD z
    ccRttVar := (ce.map (·.rttVar)).getD z
    ccRttMin := (ce.map (·.rttMin)).getD z
    ccLossPermille := (ce.map (·.lossPermille)).getD 0
    ccLossEwma := (ce.map (·.lossEwma)).getD z
    ccLossDegraded := (ce.map (·.lossDegraded)).getD false
    batchRegime := l.regime
    stallGated := l.latchedSince != 0
    stallGateEvents := l.gateEvents
    silencePulls := l.silencePulls
    inFlightCapPackets := ((cap.getD 0).toNat)
    inFlightCapActive := (cap.map fun c => decide (l.core.inFlight > c)).getD false }

/-- `is_active = conn.connected && !timed_out`. -/
def isActive (l : FLink F) (now : Nat) : Bool := l.core.connected && !l.isTimedOut now

/-- **`SharedStats::update`**: the snapshot stored (and returned by `get()` until the next call). -/
def snapshot (ls : List (FLink F)) (cfg : Select.Cfg) (cls : Option Classifier.Result)
    (cc : Option (LinkCc.Ctl G)) (now : Nat) : SnapshotM F G :=
  let act := ls.filter (isActive · now)
  { classic := cfg.classic
    qualityEnabled := qualityEnabled cfg
    activeLinks := act.length
    totalLinks := ls.length
    totalWindow := (act.map (·.core.window)).foldl (· + ·) 0
    totalInFlight := (act.map (·.core.inFlight)).foldl (· + ·) 0
    estMaxDelay := (cls.map (·.estimatedMaxDelay)).getD 0
    selDelay := (cls.map (·.selectedDelay)).getD 0
    links := ls.map fun l => linkStats l cfg cls cc now }

/-- The `ClassificationResult` the arm at `now` computes (`hkArm` keeps only the filter's next state). -/
def armResult (v : Views F G) (s : Full F G) (now : Nat) : Classifier.Result :=
  (Classifier.classify s.cls (clsTick v (afterHk s.sys now).1.links)).2

/-- The snapshot the arm at `now` publishes: `update` over the connections AFTER the stamping loop, the
configuration of the state, the classification and the controller map of THIS tick. -/
def armSnapshot (v : Views F G) (s : Full F G) (now : Nat) : SnapshotM F G :=
  snapshot (hkArm v s now).1.sys.links (hkArm v s now).1.sys.cfg (some (armResult v s now))
    (some (hkArm v s now).1.ctl) now

/-- **The housekeeping arm including the stats publish**: `hkArm`, then `shared_stats.update(..)` / `get()`. -/
def hkArmStats (v : Views F G) (s : Full F G) (now : Nat) : (Full F G × Out) × SnapshotM F G :=
  (hkArm v s now, armSnapshot v s now)

/-- The snapshots published along a run of the whole sender, one per tick, in order. -/
def published (v : Views F G) (s : Full F G) : List FEv → List (SnapshotM F G)
  | [] => []
  | .tick now :: es => armSnapshot v s now :: published v (hkArm v s now).1 es
  | .other e :: es => published v (Full.step v s (.other e)).1 es

end Srtla.Stats
